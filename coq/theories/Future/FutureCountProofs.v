(* Countable future (parsec_countable_future_set): for any count >= 1, any number of
   threads, any operation lists and any schedule, the future is ready exactly when
   [count] decrements have completed, exactly the first count-1 sets return before
   readiness, and the completion callback runs once, at the count-th set. *)
From PV Require Import Base.Tac Base.ListX Future.FutureDefs Future.FutureLib.
Local Open Scope Z_scope.

Definition is_kset (r : kres) : bool := match r with KRSet _ => true | _ => false end.
Definition is_kset0 (r : kres) : bool := match r with KRSet false => true | _ => false end.
Definition nsets (th : kthr) : Z := cnt is_kset (k_res th).      (* sets completed by the thread *)
Definition nsets0 (th : kthr) : Z := cnt is_kset0 (k_res th).    (* ... that returned with the future not ready *)

Definition KThr_ok (s : bool) (th : kthr) : Prop :=
  (forall x, In (KRGet x) (k_res th) -> x = 0 /\ s = true) /\
  (k_pc th = KGetRead -> s = true) /\
  (In (KRReady true) (k_res th) -> s = true).

Definition KInv (h : bool) (n0 : Z) (c : kcfg) : Prop :=
  (forall u th, nth_error (k_thr c) u = Some th -> KThr_ok (k_stat c) th) /\
  k_count c = n0 - k_ndec c /\ 0 <= k_ndec c /\
  k_stat c = (n0 <=? k_ndec c) /\
  Z.of_nat (k_ncb c) = (if h && (n0 <=? k_ndec c) then 1 else 0) /\
  tot nsets (k_thr c) = k_ndec c /\
  tot nsets0 (k_thr c) = Z.min (k_ndec c) (n0 - 1).

Lemma KThr_ok_mono s s' th : KThr_ok s th -> (s = true -> s' = true) -> KThr_ok s' th.
Proof.
  intros (H1 & H2 & H3) Hs. split; [|split].
  - intros x Hx. destruct (H1 x Hx). auto.
  - auto.
  - auto.
Qed.
Lemma KThr_ok_goto s th p : KThr_ok s th -> (p = KGetRead -> s = true) -> KThr_ok s (kgoto th p).
Proof. intros (H1 & H2 & H3) Hp. unfold KThr_ok; cbn [kgoto k_pc k_res]. tauto. Qed.
Lemma KThr_ok_finish s th r : KThr_ok s th ->
  (forall x, r = KRGet x -> x = 0 /\ s = true) -> (r = KRReady true -> s = true) -> KThr_ok s (kfinish th r).
Proof.
  intros (H1 & H2 & H3) Hg Hr. unfold KThr_ok; cbn [kfinish k_pc k_res]. split; [|split].
  - intros x [Hx|Hx]; [apply Hg; exact Hx|apply H1; exact Hx].
  - discriminate.
  - intros [Hx|Hx]; [apply Hr; exact Hx|apply H3; exact Hx].
Qed.
Lemma nsets_goto th p : nsets (kgoto th p) = nsets th. Proof. reflexivity. Qed.
Lemma nsets0_goto th p : nsets0 (kgoto th p) = nsets0 th. Proof. reflexivity. Qed.
Lemma nsets_finish th r : nsets (kfinish th r) = (if is_kset r then 1 else 0) + nsets th.
Proof. unfold nsets, kfinish; cbn [k_res]. apply cnt_cons. Qed.
Lemma nsets0_finish th r : nsets0 (kfinish th r) = (if is_kset0 r then 1 else 0) + nsets0 th.
Proof. unfold nsets0, kfinish; cbn [k_res]. apply cnt_cons. Qed.

Ltac kinv_split := unfold KInv; cbn [k_count k_stat k_ncb k_ndec k_thr];
  split; [|split; [|split; [|split; [|split; [|split]]]]].

Lemma kinv_step h n0 c t : 1 <= n0 -> KInv h n0 c -> KInv h n0 (kstep h c t).
Proof.
  intros Hn Hinv. pose proof Hinv as (Hthr & Hcnt & Hnd & Hst & Hncb & Hns & Hns0). unfold kstep.
  destruct (nth_error (k_thr c) t) as [th|] eqn:E; [|exact Hinv].
  pose proof (Hthr t th E) as Hth. pose proof Hth as (Hget & Hgr & Hrd).
  destruct (k_pc th) eqn:Epc.
  - destruct (k_ops th) as [|[| |] rest] eqn:Eops.
    + exact Hinv.
    + kinv_split; try assumption.
      * apply (nth_upd_inv _ _ _ _ _ E Hthr). apply KThr_ok_goto; [exact Hth|discriminate].
      * rewrite (tot_upd _ _ _ _ _ E), nsets_goto. lia.
      * rewrite (tot_upd _ _ _ _ _ E), nsets0_goto. lia.
    + destruct (k_stat c) eqn:Es; [|exact Hinv].
      kinv_split; try assumption.
      * apply (nth_upd_inv _ _ _ _ _ E Hthr). apply KThr_ok_goto; [exact Hth|reflexivity].
      * rewrite (tot_upd _ _ _ _ _ E), nsets_goto. lia.
      * rewrite (tot_upd _ _ _ _ _ E), nsets0_goto. lia.
    + kinv_split; try assumption.
      * apply (nth_upd_inv _ _ _ _ _ E Hthr). apply KThr_ok_finish; [exact Hth|discriminate|].
        intros Hx. inv Hx. reflexivity.
      * rewrite (tot_upd _ _ _ _ _ E), nsets_finish. cbn [is_kset]. lia.
      * rewrite (tot_upd _ _ _ _ _ E), nsets0_finish. cbn [is_kset0]. lia.
  - (* KDec *)
    set (hit := k_count c - 1 =? 0).
    assert (Hhit : hit = (k_ndec c + 1 =? n0)). { unfold hit. rewrite Hcnt. lia. }
    assert (Hst' : (if hit then true else k_stat c) = (n0 <=? k_ndec c + 1)).
    { rewrite Hhit, Hst. destruct (k_ndec c + 1 =? n0) eqn:E1; lia. }
    assert (Hmono : forall u x, nth_error (k_thr c) u = Some x -> KThr_ok (if hit then true else k_stat c) x).
    { intros u x Hu. eapply KThr_ok_mono; [apply (Hthr u x Hu)|]. intros ->. destruct hit; reflexivity. }
    kinv_split.
    + apply (nth_upd_inv _ _ _ _ _ E Hmono). apply KThr_ok_finish; [eapply Hmono; eauto|discriminate|discriminate].
    + lia.
    + lia.
    + exact Hst'.
    + rewrite Hhit. destruct (k_ndec c + 1 =? n0) eqn:E1, h; cbn [andb] in *; try lia.
      * destruct (n0 <=? k_ndec c) eqn:E2; destruct (n0 <=? k_ndec c + 1) eqn:E3; lia.
      * destruct (n0 <=? k_ndec c) eqn:E2; destruct (n0 <=? k_ndec c + 1) eqn:E3; lia.
    + rewrite (tot_upd _ _ _ _ _ E), nsets_finish. cbn [is_kset]. lia.
    + rewrite (tot_upd _ _ _ _ _ E), nsets0_finish. rewrite Hst'.
      destruct (n0 <=? k_ndec c + 1) eqn:E3; cbn [is_kset0]; lia.
  - (* KGetRead *)
    specialize (Hgr eq_refl).
    kinv_split; try assumption.
    + apply (nth_upd_inv _ _ _ _ _ E Hthr). apply KThr_ok_finish; [exact Hth| |discriminate].
      intros x Hx. inv Hx. auto.
    + rewrite (tot_upd _ _ _ _ _ E), nsets_finish. cbn [is_kset]. lia.
    + rewrite (tot_upd _ _ _ _ _ E), nsets0_finish. cbn [is_kset0]. lia.
Qed.

Lemma kinv_init h n0 ops : 1 <= n0 -> KInv h n0 (kinit n0 ops).
Proof.
  intros Hn. unfold kinit. kinv_split; try lia.
  - intros u th Hu. destruct (nth_error_map_inv _ _ _ _ Hu) as (l & Hl & <-).
    unfold KThr_ok, kmk; cbn [k_pc k_res]. split; [|split]; try (cbn; intros; contradiction); discriminate.
  - assert (n0 <=? 0 = false) by lia. rewrite H. rewrite andb_false_r. reflexivity.
  - apply tot_zero. intros x Hx. apply in_map_iff in Hx. destruct Hx as (l & <- & _). reflexivity.
  - rewrite tot_zero; [lia|]. intros x Hx. apply in_map_iff in Hx. destruct Hx as (l & <- & _). reflexivity.
Qed.

Lemma kinv_run h n0 ops sched : 1 <= n0 -> KInv h n0 (krun h n0 ops sched).
Proof. intros Hn. unfold krun. apply fold_left_inv; [intros; apply kinv_step; assumption|apply kinv_init; assumption]. Qed.

(* ---- statements ---- *)
(* ready exactly when the count-th decrement has completed; count tracks the missing sets;
   ndec is the number of set operations that have returned *)
Theorem countable_ready_exactly_at_count h n0 ops sched : 1 <= n0 ->
  let c := krun h n0 ops sched in
  k_stat c = (n0 <=? k_ndec c) /\ k_count c = n0 - k_ndec c /\ tot nsets (k_thr c) = k_ndec c.
Proof. intros Hn c. destruct (kinv_run h n0 ops sched Hn) as (_ & H1 & _ & H2 & _ & H3 & _). auto. Qed.

(* the callback has run exactly once from the count-th set on, never before *)
Theorem countable_callback_once h n0 ops sched : 1 <= n0 ->
  let c := krun h n0 ops sched in
  Z.of_nat (k_ncb c) = (if h && (n0 <=? k_ndec c) then 1 else 0).
Proof. intros Hn c. destruct (kinv_run h n0 ops sched Hn) as (_ & _ & _ & _ & H & _). exact H. Qed.

(* exactly the first count-1 sets return with the future not ready: the count-th set is
   the one that completes it, and every later set (and reader) sees it ready *)
Theorem countable_set_flags h n0 ops sched : 1 <= n0 ->
  let c := krun h n0 ops sched in
  tot nsets0 (k_thr c) = Z.min (k_ndec c) (n0 - 1) /\
  (forall u th, nth_error (k_thr c) u = Some th ->
     (In (KRReady true) (k_res th) -> n0 <= k_ndec c) /\
     (forall x, In (KRGet x) (k_res th) -> n0 <= k_ndec c)).
Proof.
  intros Hn c. destruct (kinv_run h n0 ops sched Hn) as (Hthr & _ & _ & Hst & _ & _ & H0).
  fold c in Hthr, Hst, H0. split; [exact H0|]. intros u th Hu. destruct (Hthr u th Hu) as (Hg & _ & Hr). split.
  - intros Hx. specialize (Hr Hx). rewrite Hst in Hr. lia.
  - intros x Hx. destruct (Hg x Hx) as [_ Hs]. rewrite Hst in Hs. lia.
Qed.

(* count <= 0: the future never becomes ready and the callback never runs *)
Lemma knever_step h c t : k_count c <= 0 /\ k_stat c = false /\ k_ncb c = 0%nat ->
  let c' := kstep h c t in k_count c' <= 0 /\ k_stat c' = false /\ k_ncb c' = 0%nat.
Proof.
  intros (H1 & H2 & H3). unfold kstep. destruct (nth_error (k_thr c) t) as [th|]; [|auto].
  destruct (k_pc th); cbn [k_count k_stat k_ncb]; auto.
  - destruct (k_ops th) as [|[| |] r]; cbn [k_count k_stat k_ncb]; auto. rewrite H2. auto.
  - assert (Hh : (k_count c - 1 =? 0) = false) by lia. rewrite Hh. cbn [andb]. split; [lia|auto].
Qed.
Theorem countable_nonpositive_never_ready h n0 ops sched : n0 <= 0 ->
  k_stat (krun h n0 ops sched) = false /\ k_ncb (krun h n0 ops sched) = 0%nat.
Proof.
  intros Hn. unfold krun.
  apply (fold_left_inv (kstep h) (fun c => k_count c <= 0 /\ k_stat c = false /\ k_ncb c = 0%nat)).
  - intros a b Ha. apply knever_step. exact Ha.
  - cbn. auto.
Qed.
