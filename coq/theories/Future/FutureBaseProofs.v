(* Base future (parsec_base_future_set / get / is_ready): for any number of threads,
   any operation lists with non-NULL set values and any schedule, tracked_data is
   written once, every reader gets that value, exactly one set wins and the
   completion callback runs exactly once. *)
From PV Require Import Base.Tac Base.ListX Future.FutureDefs Future.FutureLib.
Local Open Scope Z_scope.

(* ---- no hypothesis: a non-NULL tracked_data is never overwritten ---- *)
Lemma bstep_data_stable h c t : b_data c <> 0 -> b_data (bstep h c t) = b_data c.
Proof.
  intros Hd. unfold bstep. destruct (nth_error (b_thr c) t) as [th|]; [|reflexivity].
  destruct (b_pc th); cbn [b_data]; try reflexivity.
  - destruct (b_ops th) as [|[v| |] r]; cbn [b_data]; try reflexivity. destruct (b_stat c); reflexivity.
  - destruct (b_data c =? 0) eqn:E; cbn [b_data]; [lia|reflexivity].
Qed.

Lemma brun_app h ops s1 s2 : brun h ops (s1 ++ s2) = fold_left (bstep h) s2 (brun h ops s1).
Proof. unfold brun. apply fold_left_app. Qed.

Theorem base_value_written_once h ops s1 s2 :
  b_data (brun h ops s1) <> 0 -> b_data (brun h ops (s1 ++ s2)) = b_data (brun h ops s1).
Proof.
  rewrite brun_app. generalize (brun h ops s1) as c. induction s2 as [|t s IH]; intros c Hc; [reflexivity|].
  cbn [fold_left]. rewrite IH; rewrite bstep_data_stable; auto.
Qed.

(* ---- invariant under the protocol hypothesis "no set(NULL)" ---- *)
Definition kop (o : bop) : nat := match o with BSet _ => 0 | BGet => 1 | BReady => 2 end%nat.
Definition kres (r : bres) : nat := match r with BRSet _ => 0 | BRGet _ => 1 | BRReady _ => 2 end%nat.
Definition is_won (r : bres) : bool := match r with BRSet true => true | _ => false end.
Definition is_set_res (r : bres) : bool := match r with BRSet _ => true | _ => false end.
Definition at_pub (th : bthr) : bool := match b_pc th with BSetPub => true | _ => false end.
Definition nwon (th : bthr) : Z := cnt is_won (b_res th).

Definition pc_ok (th : bthr) : Prop :=
  match b_pc th with
  | BIdle => True
  | BSetCas v => exists r, b_ops th = BSet v :: r
  | BSetPub => exists v r, b_ops th = BSet v :: r
  | BGetRead => exists r, b_ops th = BGet :: r
  end.

Definition Thr_ok (d : Z) (s : bool) (th : bthr) : Prop :=
  (forall v, In (BSet v) (b_ops th) -> v <> 0) /\
  pc_ok th /\
  (forall x, In (BRGet x) (b_res th) -> x = d /\ s = true) /\
  (b_pc th = BGetRead -> s = true) /\
  (In (BRReady true) (b_res th) -> s = true) /\
  (forall w, In (BRSet w) (b_res th) -> d <> 0).

Definition Thr_cons (l0 : list bop) (th : bthr) : Prop :=
  map kop l0 = rev (map kres (b_res th)) ++ map kop (b_ops th).

Definition BInv (h : bool) (ops0 : list (list bop)) (c : bcfg) : Prop :=
  (forall u th, nth_error (b_thr c) u = Some th -> Thr_ok (b_data c) (b_stat c) th) /\
  (forall u th, nth_error (b_thr c) u = Some th -> exists l0, nth_error ops0 u = Some l0 /\ Thr_cons l0 th) /\
  (b_stat c = true -> b_data c <> 0) /\
  cnt at_pub (b_thr c) + (if b_stat c then 1 else 0) = (if b_data c =? 0 then 0 else 1) /\
  tot nwon (b_thr c) = (if b_stat c then 1 else 0) /\
  Z.of_nat (b_ncb c) = (if h && b_stat c then 1 else 0) /\
  b_seen c = (if h && b_stat c then [b_data c] else []).

Lemma Thr_ok_mono d s d' s' th : Thr_ok d s th ->
  (s = true -> d' = d /\ s' = true) -> (d <> 0 -> d' <> 0) -> Thr_ok d' s' th.
Proof.
  intros (H1 & H2 & H3 & H4 & H5 & H6) Hs Hd. repeat split; auto.
  - destruct (H3 x H) as [-> Hst]. destruct (Hs Hst). congruence.
  - destruct (H3 x H) as [_ Hst]. apply Hs. exact Hst.
  - intros Hp. apply Hs. auto.
  - intros Hp. apply Hs. auto.
  - intros w Hw. apply Hd. eauto.
Qed.

Lemma cons_finish l0 th o r rest : b_ops th = o :: rest -> kop o = kres r ->
  Thr_cons l0 th -> Thr_cons l0 (bfinish th r).
Proof.
  unfold Thr_cons, bfinish. cbn [b_ops b_res]. intros -> Hk ->. cbn [map rev tl].
  rewrite <- app_assoc. cbn [app]. rewrite Hk. reflexivity.
Qed.

Lemma Thr_ok_goto d s th p : Thr_ok d s th -> pc_ok (bgoto th p) -> (p = BGetRead -> s = true) ->
  Thr_ok d s (bgoto th p).
Proof. intros (H1 & H2 & H3 & H4 & H5 & H6) Hp Hg. unfold Thr_ok. cbn [bgoto b_ops b_pc b_res]. tauto. Qed.

Lemma Thr_ok_finish d s th r : Thr_ok d s th ->
  (forall x, r = BRGet x -> x = d /\ s = true) -> (r = BRReady true -> s = true) ->
  (forall w, r = BRSet w -> d <> 0) -> Thr_ok d s (bfinish th r).
Proof.
  intros (H1 & H2 & H3 & H4 & H5 & H6) Hg Hr Hs. unfold Thr_ok. cbn [bfinish b_ops b_pc b_res].
  split; [|split; [|split; [|split; [|split]]]].
  - intros v Hv. apply H1. destruct (b_ops th); [contradiction|]. right. exact Hv.
  - exact I.
  - intros x [Hx|Hx]; [apply Hg; exact Hx|apply H3; exact Hx].
  - discriminate.
  - intros [Hx|Hx]; [apply Hr; exact Hx|apply H5; exact Hx].
  - intros w [Hx|Hx]; [apply (Hs w); exact Hx|apply (H6 w); exact Hx].
Qed.

Lemma nwon_goto th p : nwon (bgoto th p) = nwon th. Proof. reflexivity. Qed.
Lemma nwon_finish th r : nwon (bfinish th r) = (if is_won r then 1 else 0) + nwon th.
Proof. unfold nwon, bfinish; cbn [b_res]. apply cnt_cons. Qed.

Ltac binv_split := unfold BInv; cbn [b_data b_stat b_ncb b_seen b_thr];
  split; [|split; [|split; [|split; [|split; [|split]]]]].

Lemma binv_step h ops0 c t : BInv h ops0 c -> BInv h ops0 (bstep h c t).
Proof.
  intros Hinv. pose proof Hinv as (Hthr & Hcons & Hsd & Hpub & Hwon & Hncb & Hseen). unfold bstep.
  destruct (nth_error (b_thr c) t) as [th|] eqn:E; [|exact Hinv].
  pose proof (Hthr t th E) as Hth. destruct (Hcons t th E) as (l0 & Hl0 & Hc0).
  assert (Hconsupd : forall th', Thr_cons l0 th' ->
     forall u x, nth_error (upd (b_thr c) t th') u = Some x -> exists l1, nth_error ops0 u = Some l1 /\ Thr_cons l1 x).
  { intros th' Hc' u x Hu. destruct (Nat.eq_dec u t) as [->|Hne].
    - rewrite (nth_upd_same _ _ _ _ E) in Hu. inv Hu. eauto.
    - rewrite (nth_upd_other _ _ _ _ _ E Hne) in Hu. eauto. }
  pose proof Hth as (Hset & Hpc & Hget & Hgr & Hrd & Hsr). unfold pc_ok in Hpc.
  assert (Hapd : at_pub th = match b_pc th with BSetPub => true | _ => false end) by reflexivity.
  destruct (b_pc th) eqn:Epc; pose proof Hapd as Hap; cbn beta iota in Hap.
  - (* BIdle *)
    destruct (b_ops th) as [|[v| |] rest] eqn:Eops.
    + exact Hinv.
    + (* call set *)
      binv_split; try assumption.
      * apply (nth_upd_inv _ _ _ _ _ E Hthr). apply Thr_ok_goto; [exact Hth| |discriminate].
        unfold pc_ok; cbn [bgoto b_pc b_ops]. eauto.
      * apply Hconsupd. exact Hc0.
      * rewrite (cnt_upd _ _ _ _ _ E). rewrite Hap. cbn [at_pub bgoto b_pc]. lia.
      * rewrite (tot_upd _ _ _ _ _ E). rewrite nwon_goto. lia.
    + (* get poll *)
      destruct (b_stat c) eqn:Es; [|exact Hinv].
      binv_split; try assumption.
      * apply (nth_upd_inv _ _ _ _ _ E Hthr). apply Thr_ok_goto; [exact Hth| |reflexivity].
        unfold pc_ok; cbn [bgoto b_pc b_ops]. eauto.
      * apply Hconsupd. exact Hc0.
      * rewrite (cnt_upd _ _ _ _ _ E). rewrite Hap. cbn [at_pub bgoto b_pc]. lia.
      * rewrite (tot_upd _ _ _ _ _ E). rewrite nwon_goto. lia.
    + (* is_ready *)
      binv_split; try assumption.
      * apply (nth_upd_inv _ _ _ _ _ E Hthr). apply Thr_ok_finish; [exact Hth|discriminate| |discriminate].
        intros Hx. inv Hx. reflexivity.
      * apply Hconsupd. eapply cons_finish; eauto.
      * rewrite (cnt_upd _ _ _ _ _ E). rewrite Hap. cbn [at_pub bfinish b_pc]. lia.
      * rewrite (tot_upd _ _ _ _ _ E). rewrite nwon_finish. cbn [is_won]. lia.
  - (* BSetCas v *)
    destruct Hpc as (rest & Eops).
    assert (Hv : v <> 0). { apply Hset. rewrite Eops. left. reflexivity. }
    destruct (b_data c =? 0) eqn:Ed.
    + (* CAS wins *)
      assert (Hs : b_stat c = false). { destruct (b_stat c) eqn:Es; [|reflexivity]. specialize (Hsd eq_refl). lia. }
      assert (Hmono : forall u x, nth_error (b_thr c) u = Some x -> Thr_ok v (b_stat c) x).
      { intros u x Hu. eapply Thr_ok_mono; [apply (Hthr u x Hu)|rewrite Hs; discriminate|lia]. }
      binv_split; try assumption.
      * apply (nth_upd_inv _ _ _ _ _ E Hmono). apply Thr_ok_goto; [eapply Hmono; eauto| |discriminate].
        unfold pc_ok; cbn [bgoto b_pc b_ops]. eauto.
      * apply Hconsupd. exact Hc0.
      * intros _. exact Hv.
      * rewrite (cnt_upd _ _ _ _ _ E). rewrite Hap. cbn [at_pub bgoto b_pc].
        rewrite Hs in *. try rewrite Ed in Hpub. assert (Ev : (v =? 0) = false) by lia. rewrite Ev. lia.
      * rewrite (tot_upd _ _ _ _ _ E). rewrite nwon_goto. lia.
      * rewrite Hs in *. rewrite andb_false_r in *. exact Hseen.
    + (* CAS fails *)
      binv_split; try assumption.
      * apply (nth_upd_inv _ _ _ _ _ E Hthr). apply Thr_ok_finish; [exact Hth|discriminate|discriminate|].
        intros w _. lia.
      * apply Hconsupd. eapply cons_finish; eauto.
      * rewrite (cnt_upd _ _ _ _ _ E). rewrite Hap. cbn [at_pub bfinish b_pc]. rewrite Ed. lia.
      * rewrite (tot_upd _ _ _ _ _ E). rewrite nwon_finish. cbn [is_won]. lia.
  - (* BSetPub *)
    destruct Hpc as (v & rest & Eops).
    pose proof (cnt_pos_of_nth at_pub _ _ _ E) as Hpos. unfold at_pub at 1 in Hpos. rewrite Epc in Hpos. specialize (Hpos eq_refl).
    assert (Hs : b_stat c = false).
    { destruct (b_stat c); [|reflexivity]. destruct (b_data c =? 0); lia. }
    assert (Hd : b_data c <> 0). { destruct (b_data c =? 0) eqn:Ed; [rewrite Hs in Hpub; lia|lia]. }
    assert (Hmono : forall u x, nth_error (b_thr c) u = Some x -> Thr_ok (b_data c) true x).
    { intros u x Hu. eapply Thr_ok_mono; [apply (Hthr u x Hu)|rewrite Hs; discriminate|auto]. }
    binv_split.
    + apply (nth_upd_inv _ _ _ _ _ E Hmono). apply Thr_ok_finish; [eapply Hmono; eauto|discriminate|reflexivity|].
      intros w _. exact Hd.
    + apply Hconsupd. eapply cons_finish; eauto.
    + intros _. exact Hd.
    + rewrite (cnt_upd _ _ _ _ _ E). rewrite Hap. cbn [at_pub bfinish b_pc].
      rewrite Hs in Hpub. destruct (b_data c =? 0) eqn:Ed; lia.
    + rewrite (tot_upd _ _ _ _ _ E). rewrite nwon_finish. cbn [is_won].
      rewrite Hs in Hwon. lia.
    + rewrite Hs in Hncb. rewrite andb_false_r in Hncb. rewrite andb_true_r. destruct h; lia.
    + rewrite Hs in Hseen. rewrite andb_false_r in Hseen. rewrite andb_true_r. destruct h; [rewrite Hseen; reflexivity|exact Hseen].
  - (* BGetRead *)
    destruct Hpc as (rest & Eops). specialize (Hgr eq_refl).
    binv_split; try assumption.
    + apply (nth_upd_inv _ _ _ _ _ E Hthr). apply Thr_ok_finish; [exact Hth| |discriminate|discriminate].
      intros x Hx. inv Hx. auto.
    + apply Hconsupd. eapply cons_finish; eauto.
    + rewrite (cnt_upd _ _ _ _ _ E). rewrite Hap. cbn [at_pub bfinish b_pc]. lia.
    + rewrite (tot_upd _ _ _ _ _ E). rewrite nwon_finish. cbn [is_won]. lia.
Qed.

Definition nonnull_sets (ops : list (list bop)) : Prop :=
  forall l v, In l ops -> In (BSet v) l -> v <> 0.

Lemma binv_init h ops : nonnull_sets ops -> BInv h ops (binit ops).
Proof.
  intros Hn.
  assert (Hm : forall u th, nth_error (map bmk ops) u = Some th ->
            exists l, nth_error ops u = Some l /\ th = bmk l).
  { intros u th Hu. destruct (nth_error_map_inv _ _ _ _ Hu) as (l & Hl & <-). eauto. }
  unfold binit. binv_split.
  - intros u th Hu. destruct (Hm _ _ Hu) as (l & Hl & ->). unfold Thr_ok, pc_ok, bmk; cbn [b_ops b_pc b_res].
    split; [|split; [|split; [|split; [|split]]]]; try (cbn; intros; contradiction); try discriminate; try exact I.
    intros v Hv. apply (Hn l v); [eapply nth_error_In; eauto|exact Hv].
  - intros u th Hu. destruct (Hm _ _ Hu) as (l & Hl & ->). exists l. split; [exact Hl|]. reflexivity.
  - discriminate.
  - rewrite cnt_all_false; [reflexivity|]. intros x Hx. apply in_map_iff in Hx. destruct Hx as (l & <- & _). reflexivity.
  - apply tot_zero. intros x Hx. apply in_map_iff in Hx. destruct Hx as (l & <- & _). reflexivity.
  - rewrite andb_false_r. reflexivity.
  - rewrite andb_false_r. reflexivity.
Qed.

Lemma binv_run h ops sched : nonnull_sets ops -> BInv h ops (brun h ops sched).
Proof. intros Hn. unfold brun. apply fold_left_inv; [intros; apply binv_step; assumption|apply binv_init; assumption]. Qed.

(* ---- results only accumulate ---- *)
Lemma bstep_res_mono h c t u th : nth_error (b_thr c) u = Some th ->
  exists th', nth_error (b_thr (bstep h c t)) u = Some th' /\ incl (b_res th) (b_res th').
Proof.
  intros Hu. unfold bstep. destruct (nth_error (b_thr c) t) as [tt|] eqn:E; [|exists th; split; [exact Hu|apply incl_refl]].
  assert (G : forall tt' data stat ncb seen, incl (b_res tt) (b_res tt') ->
     exists th', nth_error (b_thr {| b_data := data; b_stat := stat; b_ncb := ncb; b_seen := seen; b_thr := upd (b_thr c) t tt' |}) u = Some th'
                 /\ incl (b_res th) (b_res th')).
  { intros tt' data stat ncb seen Hi. cbn [b_thr]. destruct (Nat.eq_dec u t) as [->|Hne].
    - rewrite (nth_upd_same _ _ _ _ E). exists tt'. split; [reflexivity|]. rewrite E in Hu. inv Hu. exact Hi.
    - rewrite (nth_upd_other _ _ _ _ _ E Hne). exists th. split; [exact Hu|apply incl_refl]. }
  assert (Hsame : exists th', nth_error (b_thr c) u = Some th' /\ incl (b_res th) (b_res th')).
  { exists th. split; [exact Hu|apply incl_refl]. }
  destruct (b_pc tt).
  - destruct (b_ops tt) as [|[v| |] r]; [exact Hsame|apply G; apply incl_refl| |apply G; cbn; apply incl_tl, incl_refl].
    destruct (b_stat c); [apply G; apply incl_refl|exact Hsame].
  - destruct (b_data c =? 0); apply G; cbn; [apply incl_refl|apply incl_tl, incl_refl].
  - apply G. cbn. apply incl_tl, incl_refl.
  - apply G. cbn. apply incl_tl, incl_refl.
Qed.

Lemma brun_res_mono h ops s1 s2 u th x : nth_error (b_thr (brun h ops s1)) u = Some th -> In x (b_res th) ->
  exists th', nth_error (b_thr (brun h ops (s1 ++ s2))) u = Some th' /\ In x (b_res th').
Proof.
  rewrite brun_app. generalize (brun h ops s1) as c. revert th. induction s2 as [|t s IH]; intros th c Hu Hx.
  - exists th. auto.
  - cbn [fold_left]. destruct (bstep_res_mono h c t u th Hu) as (th1 & Hu1 & Hi). eapply IH; eauto.
Qed.

(* ---- the statements ---- *)
(* every value returned by a get, by any thread, is the (non-NULL) value tracked by the future *)
Theorem base_readers_get_the_value h ops sched u th x : nonnull_sets ops ->
  nth_error (b_thr (brun h ops sched)) u = Some th -> In (BRGet x) (b_res th) ->
  x = b_data (brun h ops sched) /\ x <> 0 /\ b_stat (brun h ops sched) = true.
Proof.
  intros Hn Hu Hx. destruct (binv_run h ops sched Hn) as (Hthr & _ & Hsd & _).
  destruct (Hthr u th Hu) as (_ & _ & Hget & _). destruct (Hget x Hx) as [-> Hs]. auto.
Qed.

(* a reader at any earlier point of the run and a reader at any later point return the same value *)
Theorem base_later_reader_same_value h ops s1 s2 u th x u' th' y : nonnull_sets ops ->
  nth_error (b_thr (brun h ops s1)) u = Some th -> In (BRGet x) (b_res th) ->
  nth_error (b_thr (brun h ops (s1 ++ s2))) u' = Some th' -> In (BRGet y) (b_res th') -> x = y.
Proof.
  intros Hn Hu Hx Hu' Hy.
  destruct (brun_res_mono h ops s1 s2 u th _ Hu Hx) as (th1 & Hu1 & Hx1).
  destruct (base_readers_get_the_value h ops (s1 ++ s2) u th1 x Hn Hu1 Hx1) as (-> & _).
  destruct (base_readers_get_the_value h ops (s1 ++ s2) u' th' y Hn Hu' Hy) as (-> & _). reflexivity.
Qed.

(* exactly one set wins once the future is complete, none before; the callback ran as often *)
Theorem base_one_winner_one_callback h ops sched : nonnull_sets ops ->
  let c := brun h ops sched in
  tot nwon (b_thr c) = (if b_stat c then 1 else 0) /\
  Z.of_nat (b_ncb c) = (if h && b_stat c then 1 else 0) /\
  b_seen c = (if h && b_stat c then [b_data c] else []).
Proof. intros Hn c. destruct (binv_run h ops sched Hn) as (_ & _ & _ & _ & Hw & Hc & Hs). auto. Qed.

(* when every thread has finished and some thread had a set to run, the future is complete
   and the registered callback has run exactly once *)
Theorem base_callback_exactly_once ops sched l v : nonnull_sets ops ->
  In l ops -> In (BSet v) l ->
  let c := brun true ops sched in
  (forall u th, nth_error (b_thr c) u = Some th -> b_done th = true) ->
  b_stat c = true /\ b_ncb c = 1%nat /\ b_seen c = [b_data c] /\ b_data c <> 0.
Proof.
  intros Hn Hl Hv c Hdone. destruct (binv_run true ops sched Hn) as (Hthr & Hcons & Hsd & Hpub & Hw & Hc & Hs).
  fold c in Hthr, Hcons, Hsd, Hpub, Hw, Hc, Hs.
  destruct (In_nth_error _ _ Hl) as (u & Hu).
  assert (Hlen : length (b_thr c) = length ops).
  { unfold c, brun. apply fold_left_inv.
    - intros a b Ha. rewrite <- Ha. unfold bstep. destruct (nth_error (b_thr a) b) as [tt|] eqn:E; [|reflexivity].
      destruct (b_pc tt); cbn [b_thr]; try (apply (len_upd _ _ _ _ E)).
      + destruct (b_ops tt) as [|[w| |] r]; cbn [b_thr]; try reflexivity; try (apply (len_upd _ _ _ _ E)).
        destruct (b_stat a); cbn [b_thr]; [apply (len_upd _ _ _ _ E)|reflexivity].
      + destruct (b_data a =? 0); cbn [b_thr]; apply (len_upd _ _ _ _ E).
    - unfold binit; cbn [b_thr]. apply map_length. }
  destruct (nth_error (b_thr c) u) as [th|] eqn:Eth.
  2:{ apply nth_error_None in Eth. assert (u < length ops)%nat by (apply nth_error_Some; congruence). lia. }
  destruct (Hcons u th Eth) as (l0 & Hl0 & Hc0). rewrite Hu in Hl0. inv Hl0.
  pose proof (Hdone u th Eth) as Hd. unfold b_done in Hd. destruct (b_ops th) eqn:Eops; [|discriminate].
  unfold Thr_cons in Hc0. rewrite Eops in Hc0. cbn [map] in Hc0. rewrite app_nil_r in Hc0.
  assert (Hin : In 0%nat (map kop l0)). { apply in_map_iff. exists (BSet v). split; [reflexivity|exact Hv]. }
  rewrite Hc0 in Hin. apply in_rev in Hin. apply in_map_iff in Hin. destruct Hin as (r & Hr & Hin).
  destruct r as [w| |]; try discriminate.
  destruct (Hthr u th Eth) as (_ & _ & _ & _ & _ & Hsr). pose proof (Hsr w Hin) as Hdn.
  assert (Hp0 : cnt at_pub (b_thr c) = 0).
  { apply cnt_all_false. intros x Hx. destruct (In_nth_error _ _ Hx) as (k & Hk).
    pose proof (Hdone k x Hk) as Hdx. destruct (Hthr k x Hk) as (_ & Hpc & _).
    unfold at_pub, pc_ok, b_done in *. destruct (b_pc x); try reflexivity.
    destruct Hpc as (? & ? & Ho). rewrite Ho in Hdx. discriminate. }
  assert (Hst : b_stat c = true). { destruct (b_stat c); [reflexivity|]. destruct (b_data c =? 0) eqn:Ed; lia. }
  rewrite Hst in *. cbn in Hc, Hs. repeat split; auto. lia.
Qed.
