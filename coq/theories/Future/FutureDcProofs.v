(* Data-copy future (parsec_datacopy_future_get_or_trigger(_internal), _set): for any
   number of threads, any operation lists, any callback behaviour (synchronous or
   deferred fulfilment per shape) and any schedule:
     - the fulfilment callback of a future runs at most once (exactly when TRIGGERED);
     - there is at most one future per shape, hence at most one fulfilment per shape;
     - every future lock is held by at most one thread;
     - as long as no set hits a COMPLETED future (the assert of parsec_datacopy_future_set),
       all non-NULL values returned for one shape are the value tracked by the future
       of that shape, which never changes, and a reader that starts after completion
       gets that value. *)
From PV Require Import Base.Tac Base.ListX Future.FutureDefs Future.FutureLib.

Definition specs (fs : list fut) : list nat := map f_spec fs.

(* ---------------------------------------------------------------- frames *)
Definition Val (fs : list fut) (s : nat) (v : Z) : Prop :=
  exists i f, nth_error fs i = Some f /\ f_spec f = s /\ f_comp f = true /\ f_data f = v.
Definition SpecNeAt (fs : list fut) (r i : nat) : Prop :=
  exists f, nth_error fs i = Some f /\ f_spec f <> r.
Definition GoodAt (fs : list fut) (i : nat) : Prop :=
  exists f, nth_error fs i = Some f /\ f_comp f = true /\ f_data f <> 0%Z.

Definition fextS (fs fs' : list fut) : Prop :=
  forall i f, nth_error fs i = Some f -> exists f', nth_error fs' i = Some f' /\ f_spec f' = f_spec f.
Definition fextV (fs fs' : list fut) : Prop :=
  forall i f, nth_error fs i = Some f -> f_comp f = true ->
    exists f', nth_error fs' i = Some f' /\ f_spec f' = f_spec f /\ f_comp f' = true /\ f_data f' = f_data f.

Lemma fextS_refl fs : fextS fs fs. Proof. intros i f H. eauto. Qed.
Lemma fextV_refl fs : fextV fs fs. Proof. intros i f H Hc. eauto. Qed.
Lemma fextS_app fs l : fextS fs (fs ++ l).
Proof. intros i f H. exists f. split; [|reflexivity]. rewrite nth_error_app1; [exact H|]. apply nth_error_Some. congruence. Qed.
Lemma fextV_app fs l : fextV fs (fs ++ l).
Proof. intros i f H Hc. exists f. split; [|auto]. rewrite nth_error_app1; [exact H|]. apply nth_error_Some. congruence. Qed.
Lemma fextS_upd fs k fk f' : nth_error fs k = Some fk -> f_spec f' = f_spec fk -> fextS fs (upd fs k f').
Proof.
  intros Hk Hs i f Hi. destruct (Nat.eq_dec i k) as [->|Hne].
  - rewrite (nth_upd_same _ _ _ _ Hk). exists f'. split; [reflexivity|]. congruence.
  - rewrite (nth_upd_other _ _ _ _ _ Hk Hne). eauto.
Qed.
Lemma fextV_upd fs k fk f' : nth_error fs k = Some fk -> f_spec f' = f_spec fk ->
  (f_comp fk = true -> f_comp f' = true /\ f_data f' = f_data fk) -> fextV fs (upd fs k f').
Proof.
  intros Hk Hs Hv i f Hi Hc. destruct (Nat.eq_dec i k) as [->|Hne].
  - rewrite (nth_upd_same _ _ _ _ Hk). exists f'. rewrite Hk in Hi. inv Hi. destruct (Hv Hc). auto.
  - rewrite (nth_upd_other _ _ _ _ _ Hk Hne). eauto.
Qed.

Lemma Val_mono fs fs' s v : Val fs s v -> fextV fs fs' -> Val fs' s v.
Proof. intros (i & f & Hi & Hs & Hc & Hd) He. destruct (He i f Hi Hc) as (f' & Hi' & Hs' & Hc' & Hd'). exists i, f'. repeat split; congruence. Qed.
Lemma SpecNeAt_mono fs fs' r i : SpecNeAt fs r i -> fextS fs fs' -> SpecNeAt fs' r i.
Proof. intros (f & Hi & Hs) He. destruct (He i f Hi) as (f' & Hi' & Hs'). exists f'. split; [exact Hi'|congruence]. Qed.
Lemma GoodAt_mono fs fs' i : GoodAt fs i -> fextV fs fs' -> GoodAt fs' i.
Proof. intros (f & Hi & Hc & Hd) He. destruct (He i f Hi Hc) as (f' & Hi' & _ & Hc' & Hd'). exists f'. repeat split; congruence. Qed.

Lemma specs_upd fs k fk f' : nth_error fs k = Some fk -> f_spec f' = f_spec fk -> specs (upd fs k f') = specs fs.
Proof. intros Hk Hs. unfold specs. apply (map_upd f_spec _ _ _ _ Hk Hs). Qed.

(* ---------------------------------------------------------------- locks *)
Definition holds (i : nat) (p : dpc) : bool :=
  match p with
  | DIdle | DLockRoot _ => false
  | DNewCb _ | DUnlockRet _ _ | DUnlockNew _ => Nat.eqb i 0
  | DILock CDirect _ => false
  | DILock (CScan _) _ => Nat.eqb i 0
  | DICb CDirect k | DIUnlock CDirect k => Nat.eqb i k
  | DICb (CScan _) k | DIUnlock (CScan _) k => Nat.eqb i 0 || Nat.eqb i k
  end.
Definition holder (i : nat) (th : dthr) : bool := holds i (d_pc th).
Definition lockval (fs : list fut) (i : nat) : Z :=
  match nth_error fs i with Some f => if f_lock f then 1%Z else 0%Z | None => 0%Z end.
Definition Mutex (c : dcfg) : Prop := forall i, cnt (holder i) (d_thr c) = lockval (d_futs c) i.

Lemma lockval_upd fs k fk f' i : nth_error fs k = Some fk ->
  lockval (upd fs k f') i = if Nat.eqb i k then (if f_lock f' then 1%Z else 0%Z) else lockval fs i.
Proof.
  intros Hk. unfold lockval. destruct (Nat.eqb_spec i k) as [->|Hne].
  - rewrite (nth_upd_same _ _ _ _ Hk). reflexivity.
  - rewrite (nth_upd_other _ _ _ _ _ Hk Hne). reflexivity.
Qed.
Lemma lockval_snoc fs r i : lockval (fs ++ [f_new r]) i = lockval fs i.
Proof.
  unfold lockval. destruct (nth_error (fs ++ [f_new r]) i) as [y|] eqn:E.
  - destruct (nth_error_snoc_inv _ _ _ _ E) as [H|[-> ->]].
    + rewrite H. reflexivity.
    + assert (Hn : nth_error fs (length fs) = None) by (apply nth_error_None; lia). rewrite Hn. reflexivity.
  - destruct (nth_error fs i) eqn:E2; [|reflexivity]. rewrite (nth_error_snoc_old _ _ _ _ E2) in E. discriminate.
Qed.
Lemma lockval_same_lock fs k fk f' i : nth_error fs k = Some fk -> f_lock f' = f_lock fk ->
  lockval (upd fs k f') i = lockval fs i.
Proof.
  intros Hk Hl. rewrite (lockval_upd _ _ _ _ _ Hk). destruct (Nat.eqb_spec i k) as [->|]; [|reflexivity].
  unfold lockval. rewrite Hk, Hl. reflexivity.
Qed.

Lemma mutex_step c t th th' fs' bad' : nth_error (d_thr c) t = Some th -> Mutex c ->
  (forall i, ((if holds i (d_pc th') then 1 else 0) - (if holds i (d_pc th) then 1 else 0) = lockval fs' i - lockval (d_futs c) i)%Z) ->
  Mutex {| d_futs := fs'; d_bad := bad'; d_thr := upd (d_thr c) t th' |}.
Proof.
  intros E Hm Hd i. cbn [d_futs d_thr]. rewrite (cnt_upd _ _ _ _ _ E). unfold holder at 2 3.
  specialize (Hm i). specialize (Hd i). lia.
Qed.

Lemma lockval_range fs i : (0 <= lockval fs i <= 1)%Z.
Proof. unfold lockval. destruct (nth_error fs i) as [f|]; [destruct (f_lock f)|]; lia. Qed.

(* two different threads cannot both hold lock i *)
Lemma mutex_excl c i t u th th2 : Mutex c -> t <> u ->
  nth_error (d_thr c) t = Some th -> holds i (d_pc th) = true ->
  nth_error (d_thr c) u = Some th2 -> holds i (d_pc th2) = true -> False.
Proof.
  intros Hm Hne Ht Hh Hu Hh2.
  pose proof (cnt_two_true (holder i) _ _ _ _ _ Hne Ht Hh Hu Hh2) as H2.
  rewrite (Hm i) in H2. pose proof (lockval_range (d_futs c) i). lia.
Qed.
Lemma mutex_held c i t th : Mutex c -> nth_error (d_thr c) t = Some th -> holds i (d_pc th) = true ->
  exists f, nth_error (d_futs c) i = Some f /\ f_lock f = true.
Proof.
  intros Hm Ht Hh. pose proof (cnt_pos_of_nth (holder i) _ _ _ Ht Hh) as Hp. rewrite (Hm i) in Hp.
  unfold lockval in Hp. destruct (nth_error (d_futs c) i) as [f|]; [|lia]. exists f. split; [reflexivity|].
  destruct (f_lock f); [reflexivity|lia].
Qed.

(* ---------------------------------------------------------------- per-thread invariant *)
Definition ScanOK (fs : list fut) (bad : bool) (r k : nat) : Prop :=
  1 <= k /\ (forall i, i < k -> SpecNeAt fs r i) /\ (bad = false -> forall i, 1 <= i -> i < k -> GoodAt fs i).

Definition PcOK (fs : list fut) (bad : bool) (p : dpc) : Prop :=
  match p with
  | DLockRoot r => SpecNeAt fs r 0
  | DILock (CScan r) k | DICb (CScan r) k | DIUnlock (CScan r) k => ScanOK fs bad r k
  | DUnlockRet r v => v <> 0%Z -> bad = false -> Val fs r v
  | _ => True
  end.
Definition ThrOK (fs : list fut) (bad : bool) (th : dthr) : Prop :=
  PcOK fs bad (d_pc th) /\
  (forall s v, In (DRGot s v) (d_res th) -> v <> 0%Z -> bad = false -> Val fs s v).

Definition NewCbOK (fs : list fut) (bad : bool) (r : nat) : Prop :=
  ~ In r (specs fs) /\ (bad = false -> forall i, 1 <= i -> i < length fs -> GoodAt fs i).

Definition TrigOK (fs : list fut) : Prop :=
  forall i f, nth_error fs i = Some f -> f_ncb f = if f_trig f then 1 else 0.

Definition DInv (c : dcfg) : Prop :=
  TrigOK (d_futs c) /\ NoDup (specs (d_futs c)) /\ Mutex c /\
  (forall u th, nth_error (d_thr c) u = Some th -> ThrOK (d_futs c) (d_bad c) th) /\
  (forall u th r, nth_error (d_thr c) u = Some th -> d_pc th = DNewCb r -> NewCbOK (d_futs c) (d_bad c) r) /\
  (d_bad c = false -> forall i, 1 <= i -> S i < length (d_futs c) -> GoodAt (d_futs c) i).

Lemma ScanOK_mono fs bad fs' bad' r k : ScanOK fs bad r k -> fextS fs fs' ->
  (bad' = false -> bad = false /\ fextV fs fs') -> ScanOK fs' bad' r k.
Proof.
  intros (H1 & H2 & H3) HS HV. split; [exact H1|split].
  - intros i Hi. eapply SpecNeAt_mono; eauto.
  - intros Hb i Hi1 Hi2. destruct (HV Hb) as [Hb0 HV']. eapply GoodAt_mono; eauto.
Qed.
Lemma PcOK_mono fs bad fs' bad' p : PcOK fs bad p -> fextS fs fs' ->
  (bad' = false -> bad = false /\ fextV fs fs') -> PcOK fs' bad' p.
Proof.
  intros H HS HV. destruct p as [|r|r|[|r] k|[|r] k|[|r] k|r v|k]; cbn [PcOK] in *; auto;
    try (eapply ScanOK_mono; eauto; fail).
  - eapply SpecNeAt_mono; eauto.
  - intros Hv Hb. destruct (HV Hb) as [Hb0 HV']. eapply Val_mono; eauto.
Qed.
Lemma ThrOK_mono fs bad fs' bad' th : ThrOK fs bad th -> fextS fs fs' ->
  (bad' = false -> bad = false /\ fextV fs fs') -> ThrOK fs' bad' th.
Proof.
  intros [H1 H2] HS HV. split; [eapply PcOK_mono; eauto|].
  intros s v Hin Hv Hb. destruct (HV Hb) as [Hb0 HV']. eapply Val_mono; eauto.
Qed.
Lemma ThrOK_goto fs bad th p : ThrOK fs bad th -> PcOK fs bad p -> ThrOK fs bad (dgoto th p).
Proof. intros [H1 H2] Hp. split; [exact Hp|exact H2]. Qed.
Lemma ThrOK_finish fs bad th r : ThrOK fs bad th ->
  (forall s v, r = DRGot s v -> v <> 0%Z -> bad = false -> Val fs s v) -> ThrOK fs bad (dfinish th r).
Proof.
  intros [H1 H2] Hr. split; [exact I|]. cbn [dfinish d_res]. intros s v [Hx|Hx]; [apply Hr; exact Hx|apply H2; exact Hx].
Qed.

(* ---------------------------------------------------------------- the nested scan *)
Lemma holds_scan i r : forall l k, holds i (scan r k l) = Nat.eqb i 0.
Proof.
  induction l as [|f l IH]; intros k; cbn [scan]; [reflexivity|].
  destruct (f_comp f); [|reflexivity]. destruct (f_data f =? 0)%Z; [reflexivity|].
  destruct (Nat.eqb (f_spec f) r); [reflexivity|apply IH].
Qed.

Definition ScanRes (fs : list fut) (bad : bool) (r : nat) (p : dpc) : Prop :=
  match p with
  | DNewCb r' => r' = r /\ (forall i, i < length fs -> SpecNeAt fs r i) /\
                 (bad = false -> forall i, 1 <= i -> i < length fs -> GoodAt fs i)
  | DILock cx k => cx = CScan r /\ ScanOK fs bad r k
  | DUnlockRet r' v => r' = r /\ (v <> 0%Z -> Val fs r v)
  | _ => False
  end.

Lemma scan_ok fs bad r : forall l k, (forall j, nth_error l j = nth_error fs (k + j)) ->
  ScanOK fs bad r k -> ScanRes fs bad r (scan r k l).
Proof.
  induction l as [|f l IH]; intros k Hl Hk; cbn [scan].
  - cbn [ScanRes]. destruct Hk as (Hk1 & Hk2 & Hk3).
    assert (Hlen : length fs <= k). { apply nth_error_None. rewrite <- (Nat.add_0_r k). rewrite <- Hl. reflexivity. }
    split; [reflexivity|split].
    + intros i Hi. apply Hk2. lia.
    + intros Hb i Hi1 Hi2. apply Hk3; auto. lia.
  - assert (Hf : nth_error fs k = Some f). { rewrite <- (Nat.add_0_r k). rewrite <- Hl. reflexivity. }
    destruct (f_comp f) eqn:Ec; [|cbn [ScanRes]; auto].
    destruct (f_data f =? 0)%Z eqn:Ed; [cbn [ScanRes]; split; [reflexivity|intros Hx; exfalso; apply Hx; reflexivity]|].
    destruct (Nat.eqb_spec (f_spec f) r) as [Es|Es].
    + cbn [ScanRes]. split; [reflexivity|]. intros _. exists k, f. auto.
    + apply IH.
      * intros j. replace (S k + j) with (k + S j) by lia. apply (Hl (S j)).
      * destruct Hk as (Hk1 & Hk2 & Hk3). split; [lia|split].
        -- intros i Hi. destruct (Nat.eq_dec i k) as [->|Hne]; [exists f; auto|apply Hk2; lia].
        -- intros Hb i Hi1 Hi2. destruct (Nat.eq_dec i k) as [->|Hne]; [exists f; repeat split; auto; lia|apply Hk3; auto; lia].
Qed.

Lemma skipn_nth (fs : list fut) k j : nth_error (skipn k fs) j = nth_error fs (k + j).
Proof. apply nth_error_skipn. Qed.

Lemma not_in_specs fs r : (forall i, i < length fs -> SpecNeAt fs r i) -> ~ In r (specs fs).
Proof.
  intros H Hin. unfold specs in Hin. apply in_map_iff in Hin. destruct Hin as (f & Hs & Hf).
  destruct (In_nth_error _ _ Hf) as (i & Hi).
  assert (Hlt : i < length fs) by (apply nth_error_Some; congruence).
  destruct (H i Hlt) as (f' & Hi' & Hne). congruence.
Qed.

(* what the scan result gives for the invariant of the scanning thread *)
Lemma ScanRes_PcOK fs bad r p : ScanRes fs bad r p -> PcOK fs bad p.
Proof.
  destruct p as [|r'|r'|[|r'] k|[|r'] k|[|r'] k|r' v|k]; cbn [ScanRes PcOK];
    try (intros; exact I); try contradiction.
  - intros [H Hk]. inv H. exact Hk.
  - intros [-> H] Hv _. auto.
Qed.
Lemma ScanRes_NewCb fs bad r p r' : ScanRes fs bad r p -> p = DNewCb r' -> NewCbOK fs bad r'.
Proof.
  intros H ->. cbn [ScanRes] in H. destruct H as (-> & H1 & H2). split; [apply not_in_specs; exact H1|exact H2].
Qed.

(* ---------------------------------------------------------------- the step *)
Lemma orb_false_l2 a b : a || b = false -> a = false /\ b = false.
Proof. apply orb_false_elim. Qed.

Lemma NoDup_snoc (l : list nat) r : NoDup l -> ~ In r l -> NoDup (l ++ [r]).
Proof.
  intros Hn Hr. induction Hn as [|x l Hx Hn IH]; cbn [app].
  - constructor; [intros []|constructor].
  - constructor.
    + intros Hin. apply in_app_or in Hin. destruct Hin as [Hin|[Hin|[]]]; [contradiction|]. apply Hr. left. symmetry. exact Hin.
    + apply IH. intros Hin. apply Hr. right. exact Hin.
Qed.

Lemma TrigOK_upd fs k fk f' : TrigOK fs -> nth_error fs k = Some fk ->
  (f_ncb f' = if f_trig f' then 1 else 0) -> TrigOK (upd fs k f').
Proof.
  intros HT Hk Hf i f Hi. destruct (Nat.eq_dec i k) as [->|Hne].
  - rewrite (nth_upd_same _ _ _ _ Hk) in Hi. inv Hi. exact Hf.
  - rewrite (nth_upd_other _ _ _ _ _ Hk Hne) in Hi. eauto.
Qed.

Lemma length_specs fs : length (specs fs) = length fs. Proof. apply map_length. Qed.

(* frame for every case in which the list of shapes is unchanged *)
Lemma dinv_frame c t th th' fs' bad' :
  DInv c -> nth_error (d_thr c) t = Some th ->
  specs fs' = specs (d_futs c) -> fextS (d_futs c) fs' ->
  (bad' = false -> d_bad c = false /\ fextV (d_futs c) fs') ->
  TrigOK fs' ->
  (forall i, ((if holds i (d_pc th') then 1 else 0) - (if holds i (d_pc th) then 1 else 0) = lockval fs' i - lockval (d_futs c) i)%Z) ->
  ((forall u x, nth_error (d_thr c) u = Some x -> ThrOK fs' bad' x) -> ThrOK fs' bad' th') ->
  (forall r, d_pc th' = DNewCb r -> NewCbOK fs' bad' r) ->
  DInv {| d_futs := fs'; d_bad := bad'; d_thr := upd (d_thr c) t th' |}.
Proof.
  intros (HT & HN & HM & HTh & HNew & HP) E Hsp HS HV HT' Hlock Hth' Hnew'.
  assert (Hlen : length fs' = length (d_futs c)). { rewrite <- !length_specs. rewrite Hsp. reflexivity. }
  assert (Hmono : forall u x, nth_error (d_thr c) u = Some x -> ThrOK fs' bad' x).
  { intros u x Hu. eapply ThrOK_mono; eauto. }
  unfold DInv; cbn [d_futs d_bad d_thr]. split; [exact HT'|split; [rewrite Hsp; exact HN|split; [|split; [|split]]]].
  - eapply mutex_step; eauto.
  - apply (nth_upd_inv _ _ _ _ _ E Hmono). apply Hth'. exact Hmono.
  - intros u x r Hu Hpc. destruct (Nat.eq_dec u t) as [->|Hne].
    + rewrite (nth_upd_same _ _ _ _ E) in Hu. inv Hu. apply Hnew'. exact Hpc.
    + rewrite (nth_upd_other _ _ _ _ _ E Hne) in Hu. destruct (HNew u x r Hu Hpc) as [H1 H2]. split.
      * rewrite Hsp. exact H1.
      * intros Hb i Hi1 Hi2. destruct (HV Hb) as [Hb0 HV']. eapply GoodAt_mono; [apply H2; auto; lia|exact HV'].
  - intros Hb i Hi1 Hi2. destruct (HV Hb) as [Hb0 HV']. eapply GoodAt_mono; [apply HP; auto; lia|exact HV'].
Qed.

Ltac eqb_cases :=
  repeat match goal with |- context[Nat.eqb ?a ?b] => destruct (Nat.eqb_spec a b); subst end;
  cbn [orb]; try lia.

Lemma lockval_of fs k fk : nth_error fs k = Some fk -> lockval fs k = if f_lock fk then 1%Z else 0%Z.
Proof. intros H. unfold lockval. rewrite H. reflexivity. Qed.

Lemma dinv_step cbv c t : DInv c -> DInv (dstep cbv c t).
Proof.
  intros Hinv. pose proof Hinv as (HT & HN & HM & HTh & HNew & HP). unfold dstep.
  destruct (nth_error (d_thr c) t) as [th|] eqn:E; [|exact Hinv].
  pose proof (HTh t th E) as [Hpc Hres].
  destruct (d_pc th) as [|r|r|cx k|cx k|cx k|r v|k] eqn:Epc.
  - (* DIdle *)
    destruct (d_ops th) as [|[r|s v| |] rest] eqn:Eops.
    + exact Hinv.
    + (* get_or_trigger r *)
      destruct (nth_error (d_futs c) 0) as [f0|] eqn:E0; [|exact Hinv].
      destruct (Nat.eqb r 0 || Nat.eqb (f_spec f0) r) eqn:Em.
      * unfold enter_direct. destruct (f_comp f0) eqn:Ec.
        -- apply (dinv_frame c t th _ _ _ Hinv E); [reflexivity|apply fextS_refl|intros Hb; split; [exact Hb|apply fextV_refl]|exact HT| | |].
           ++ intros i. rewrite Epc. cbn [dfinish d_pc holds]. lia.
           ++ intros Hm. apply ThrOK_finish; [apply (Hm t th E)|]. intros s v Hx Hv Hb. inv Hx. exists 0, f0. auto.
           ++ intros r0 Hx. discriminate Hx.
        -- apply (dinv_frame c t th _ _ _ Hinv E); [reflexivity|apply fextS_refl|intros Hb; split; [exact Hb|apply fextV_refl]|exact HT| | |].
           ++ intros i. rewrite Epc. cbn [dgoto d_pc holds]. lia.
           ++ intros Hm. apply ThrOK_goto; [apply (Hm t th E)|exact I].
           ++ intros r0 Hx. discriminate Hx.
      * apply orb_false_elim in Em. destruct Em as [Em1 Em2].
        apply (dinv_frame c t th _ _ _ Hinv E); [reflexivity|apply fextS_refl|intros Hb; split; [exact Hb|apply fextV_refl]|exact HT| | |].
        -- intros i. rewrite Epc. cbn [dgoto d_pc holds]. lia.
        -- intros Hm. apply ThrOK_goto; [apply (Hm t th E)|]. cbn [PcOK]. exists f0. split; [exact E0|].
           apply Nat.eqb_neq. exact Em2.
        -- intros r0 Hx. discriminate Hx.
    + (* set on the future of shape s *)
      destruct (find_spec s 0 (d_futs c)) as [k|] eqn:Ef.
      * destruct (nth_error (d_futs c) k) as [fk|] eqn:Ek; [|exact Hinv].
        apply (dinv_frame c t th _ _ _ Hinv E).
        -- apply (specs_upd _ _ _ _ Ek). reflexivity.
        -- apply (fextS_upd _ _ _ _ Ek). reflexivity.
        -- intros Hb. apply orb_false_elim in Hb. destruct Hb as [Hb1 Hb2]. split; [exact Hb1|].
           apply (fextV_upd _ _ _ _ Ek); [reflexivity|]. intros Hc. congruence.
        -- apply (TrigOK_upd _ _ _ _ HT Ek). cbn [f_set f_ncb f_trig]. apply (HT k fk Ek).
        -- intros i. rewrite Epc. rewrite (lockval_same_lock _ _ _ _ _ Ek) by reflexivity. cbn [dfinish d_pc holds]. lia.
        -- intros Hm. apply ThrOK_finish; [apply (Hm t th E)|]. intros s0 v0 Hx. discriminate Hx.
        -- intros r0 Hx. discriminate Hx.
      * apply (dinv_frame c t th _ _ _ Hinv E); [reflexivity|apply fextS_refl|intros Hb; split; [exact Hb|apply fextV_refl]|exact HT| | |].
        -- intros i. rewrite Epc. cbn [dfinish d_pc holds]. lia.
        -- intros Hm. apply ThrOK_finish; [apply (Hm t th E)|]. intros s0 v0 Hx. discriminate Hx.
        -- intros r0 Hx. discriminate Hx.
    + apply (dinv_frame c t th _ _ _ Hinv E); [reflexivity|apply fextS_refl|intros Hb; split; [exact Hb|apply fextV_refl]|exact HT| | |].
      * intros i. rewrite Epc. cbn [dfinish d_pc holds]. lia.
      * intros Hm. apply ThrOK_finish; [apply (Hm t th E)|]. intros s0 v0 Hx. discriminate Hx.
      * intros r0 Hx. discriminate Hx.
    + apply (dinv_frame c t th _ _ _ Hinv E); [reflexivity|apply fextS_refl|intros Hb; split; [exact Hb|apply fextV_refl]|exact HT| | |].
      * intros i. rewrite Epc. cbn [dfinish d_pc holds]. lia.
      * intros Hm. apply ThrOK_finish; [apply (Hm t th E)|]. intros s0 v0 Hx. discriminate Hx.
      * intros r0 Hx. discriminate Hx.
  - (* DLockRoot r *)
    cbn [PcOK] in Hpc.
    destruct (nth_error (d_futs c) 0) as [f0|] eqn:E0; [|exact Hinv].
    destruct (f_lock f0) eqn:El; [exact Hinv|].
    set (fs' := upd (d_futs c) 0 (f_setlock f0 true)).
    assert (HS : fextS (d_futs c) fs') by (apply (fextS_upd _ _ _ _ E0); reflexivity).
    assert (HV : fextV (d_futs c) fs') by (apply (fextV_upd _ _ _ _ E0); [reflexivity|intros Hc; split; [exact Hc|reflexivity]]).
    assert (Hsr : ScanRes fs' (d_bad c) r (scan r 1 (skipn 1 fs'))).
    { apply scan_ok; [intros j; apply skipn_nth|]. split; [lia|split].
      - intros i Hi. assert (i = 0) by lia. subst i. eapply SpecNeAt_mono; eauto.
      - intros _ i Hi1 Hi2. lia. }
    apply (dinv_frame c t th _ _ _ Hinv E).
    + apply (specs_upd _ _ _ _ E0). reflexivity.
    + exact HS.
    + intros Hb. split; [exact Hb|exact HV].
    + apply (TrigOK_upd _ _ _ _ HT E0). cbn [f_setlock f_ncb f_trig]. apply (HT 0 f0 E0).
    + intros i. rewrite Epc. cbn [dgoto d_pc]. rewrite holds_scan. cbn [holds].
      fold fs'. unfold fs'. rewrite (lockval_upd _ _ _ _ _ E0). cbn [f_setlock f_lock].
      destruct (Nat.eqb_spec i 0) as [->|Hne]; [rewrite (lockval_of _ _ _ E0), El; lia|lia].
    + intros Hm. apply ThrOK_goto; [apply (Hm t th E)|]. apply ScanRes_PcOK with (r := r). exact Hsr.
    + intros r0 Hx. cbn [dgoto d_pc] in Hx. eapply ScanRes_NewCb; eauto.
  - (* DNewCb r: the nested future is created and appended *)
    destruct (HNew t th r E Epc) as [Hnin Hgood].
    assert (Hother : forall u x, nth_error (d_thr c) u = Some x -> ThrOK (d_futs c ++ [f_new r]) (d_bad c) x).
    { intros u x Hu. eapply ThrOK_mono; [apply (HTh u x Hu)|apply fextS_app|]. intros Hb. split; [exact Hb|apply fextV_app]. }
    unfold DInv; cbn [d_futs d_bad d_thr]. split; [|split; [|split; [|split; [|split]]]].
    + intros i f Hi. destruct (nth_error_snoc_inv _ _ _ _ Hi) as [Ho|[_ ->]]; [eauto|reflexivity].
    + unfold specs. rewrite map_app. cbn [map f_new f_spec]. apply NoDup_snoc; assumption.
    + eapply mutex_step; eauto. intros i. rewrite lockval_snoc, Epc. cbn [dgoto d_pc holds]. lia.
    + apply (nth_upd_inv _ _ _ _ _ E Hother). apply ThrOK_goto; [apply (Hother t th E)|exact I].
    + intros u x r2 Hu Hx. destruct (Nat.eq_dec u t) as [->|Hne].
      * rewrite (nth_upd_same _ _ _ _ E) in Hu. inv Hu. discriminate Hx.
      * rewrite (nth_upd_other _ _ _ _ _ E Hne) in Hu. exfalso.
        apply (mutex_excl c 0 t u th x HM); auto; [rewrite Epc|rewrite Hx]; reflexivity.
    + intros Hb i Hi1 Hi2. rewrite app_length in Hi2. cbn [length] in Hi2.
      eapply GoodAt_mono; [apply Hgood; auto; lia|apply fextV_app].
  - (* DILock cx k *)
    destruct (nth_error (d_futs c) k) as [fk|] eqn:Ek; [|exact Hinv].
    destruct (f_lock fk) eqn:El; [exact Hinv|].
    assert (Hk1 : forall r, cx = CScan r -> 1 <= k). { intros r ->. cbn [PcOK] in Hpc. destruct Hpc as [H _]. exact H. }
    assert (Hlockeq : forall p', (forall i, holds i p' = match cx with CDirect => Nat.eqb i k | CScan _ => Nat.eqb i 0 || Nat.eqb i k end) ->
       forall f', f_lock f' = true ->
       forall i, ((if holds i p' then 1 else 0) - (if holds i (DILock cx k) then 1 else 0) =
                  lockval (upd (d_futs c) k f') i - lockval (d_futs c) i)%Z).
    { intros p' Hp' f' Hf' i. rewrite Hp'. rewrite (lockval_upd _ _ _ _ _ Ek), Hf'.
      destruct cx as [|r]; cbn [holds].
      - destruct (Nat.eqb_spec i k) as [->|Hne]; [rewrite (lockval_of _ _ _ Ek), El; lia|lia].
      - specialize (Hk1 r eq_refl). destruct (Nat.eqb_spec i k) as [->|Hne].
        + rewrite (lockval_of _ _ _ Ek), El. destruct (Nat.eqb_spec k 0); [lia|cbn [orb]; lia].
        + rewrite orb_false_r. lia. }
    destruct (f_trig fk) eqn:Et.
    + apply (dinv_frame c t th _ _ _ Hinv E).
      * apply (specs_upd _ _ _ _ Ek). reflexivity.
      * apply (fextS_upd _ _ _ _ Ek). reflexivity.
      * intros Hb. split; [exact Hb|]. apply (fextV_upd _ _ _ _ Ek); [reflexivity|]. intros Hc. split; [exact Hc|reflexivity].
      * apply (TrigOK_upd _ _ _ _ HT Ek). cbn [f_setlock f_ncb f_trig]. apply (HT k fk Ek).
      * rewrite Epc. cbn [dgoto d_pc]. apply Hlockeq; [|reflexivity]. intros i. destruct cx; reflexivity.
      * intros Hm. apply ThrOK_goto; [apply (Hm t th E)|]. destruct (Hm t th E) as [Hp _]. rewrite Epc in Hp.
        destruct cx; [exact I|exact Hp].
      * intros r0 Hx. discriminate Hx.
    + apply (dinv_frame c t th _ _ _ Hinv E).
      * apply (specs_upd _ _ _ _ Ek). reflexivity.
      * apply (fextS_upd _ _ _ _ Ek). reflexivity.
      * intros Hb. split; [exact Hb|]. apply (fextV_upd _ _ _ _ Ek); [reflexivity|]. intros Hc. split; [exact Hc|reflexivity].
      * apply (TrigOK_upd _ _ _ _ HT Ek). cbn [f_trigger f_ncb f_trig]. rewrite (HT k fk Ek), Et. reflexivity.
      * rewrite Epc. cbn [dgoto d_pc]. apply Hlockeq; [|reflexivity]. intros i. destruct cx; reflexivity.
      * intros Hm. apply ThrOK_goto; [apply (Hm t th E)|]. destruct (Hm t th E) as [Hp _]. rewrite Epc in Hp.
        destruct cx; [exact I|exact Hp].
      * intros r0 Hx. discriminate Hx.
  - (* DICb cx k: the rest of the fulfilment callback *)
    destruct (nth_error (d_futs c) k) as [fk|] eqn:Ek; [|exact Hinv].
    destruct (nth (f_spec fk) cbv 0 =? 0)%Z.
    + apply (dinv_frame c t th _ _ _ Hinv E); [reflexivity|apply fextS_refl|intros Hb; split; [exact Hb|apply fextV_refl]|exact HT| | |].
      * intros i. rewrite Epc. cbn [dgoto d_pc]. destruct cx; cbn [holds]; lia.
      * intros Hm. apply ThrOK_goto; [apply (Hm t th E)|]. destruct (Hm t th E) as [Hp _]. rewrite Epc in Hp.
        destruct cx; [exact I|exact Hp].
      * intros r0 Hx. discriminate Hx.
    + apply (dinv_frame c t th _ _ _ Hinv E).
      * apply (specs_upd _ _ _ _ Ek). reflexivity.
      * apply (fextS_upd _ _ _ _ Ek). reflexivity.
      * intros Hb. apply orb_false_elim in Hb. destruct Hb as [Hb1 Hb2]. split; [exact Hb1|].
        apply (fextV_upd _ _ _ _ Ek); [reflexivity|]. intros Hc. congruence.
      * apply (TrigOK_upd _ _ _ _ HT Ek). cbn [f_set f_ncb f_trig]. apply (HT k fk Ek).
      * intros i. rewrite Epc. rewrite (lockval_same_lock _ _ _ _ _ Ek) by reflexivity. cbn [dgoto d_pc].
        destruct cx; cbn [holds]; lia.
      * intros Hm. apply ThrOK_goto; [apply (Hm t th E)|]. destruct (Hm t th E) as [Hp _]. rewrite Epc in Hp.
        destruct cx; [exact I|exact Hp].
      * intros r0 Hx. discriminate Hx.
  - (* DIUnlock cx k *)
    destruct (nth_error (d_futs c) k) as [fk|] eqn:Ek; [|exact Hinv].
    set (fk' := f_setlock fk false). set (fs' := upd (d_futs c) k fk').
    set (data := if f_comp fk then f_data fk else 0%Z).
    assert (Hheld : f_lock fk = true).
    { destruct (mutex_held c k t th HM E) as (f & Hf & Hl).
      - rewrite Epc. destruct cx; cbn [holds]; [apply Nat.eqb_refl|rewrite Nat.eqb_refl; apply orb_true_r].
      - rewrite Ek in Hf. inv Hf. exact Hl. }
    assert (HS : fextS (d_futs c) fs') by (apply (fextS_upd _ _ _ _ Ek); reflexivity).
    assert (HV : fextV (d_futs c) fs') by (apply (fextV_upd _ _ _ _ Ek); [reflexivity|intros Hc; split; [exact Hc|reflexivity]]).
    assert (Hk' : nth_error fs' k = Some fk') by (apply (nth_upd_same _ _ _ _ Ek)).
    assert (Hval : data <> 0%Z -> Val fs' (f_spec fk') data).
    { intros Hd. exists k, fk'. unfold data in *. destruct (f_comp fk) eqn:Ec; [|contradiction]. repeat split; auto. }
    destruct cx as [|r]; cbn [after_internal].
    + apply (dinv_frame c t th _ _ _ Hinv E).
      * apply (specs_upd _ _ _ _ Ek). reflexivity.
      * exact HS.
      * intros Hb. split; [exact Hb|exact HV].
      * apply (TrigOK_upd _ _ _ _ HT Ek). cbn [f_setlock f_ncb f_trig]. apply (HT k fk Ek).
      * intros i. rewrite Epc. cbn [dfinish d_pc holds]. fold fs'. unfold fs'. rewrite (lockval_upd _ _ _ _ _ Ek). cbn [fk' f_setlock f_lock].
        destruct (Nat.eqb_spec i k) as [->|Hne]; [rewrite (lockval_of _ _ _ Ek), Hheld; lia|lia].
      * intros Hm. apply ThrOK_finish; [apply (Hm t th E)|]. intros s v Hx Hv Hb. inv Hx. apply Hval. exact Hv.
      * intros r0 Hx. discriminate Hx.
    + cbn [PcOK] in Hpc.
      assert (Hk1 : 1 <= k) by (destruct Hpc as [H _]; exact H).
      assert (Hscan : ScanOK fs' (d_bad c) r k). { eapply ScanOK_mono; eauto. }
      set (th' := if (data =? 0)%Z then dgoto th (DUnlockRet r 0)
                  else if Nat.eqb (f_spec fk') r then dgoto th (DUnlockRet r data)
                  else dgoto th (scan r (S k) (skipn (S k) fs'))).
      assert (Hh' : forall i, holds i (d_pc th') = Nat.eqb i 0).
      { intros i. unfold th'. destruct (data =? 0)%Z; [reflexivity|]. destruct (Nat.eqb (f_spec fk') r); [reflexivity|].
        cbn [dgoto d_pc]. apply holds_scan. }
      assert (Hres' : d_res th' = d_res th).
      { unfold th'. destruct (data =? 0)%Z; [reflexivity|]. destruct (Nat.eqb (f_spec fk') r); reflexivity. }
      assert (Hpc' : PcOK fs' (d_bad c) (d_pc th') /\ (forall r0, d_pc th' = DNewCb r0 -> NewCbOK fs' (d_bad c) r0)).
      { unfold th'. destruct (data =? 0)%Z eqn:Ed.
        - split; [cbn [dgoto d_pc PcOK]; intros Hx; contradiction|intros r0 Hx; discriminate Hx].
        - destruct (Nat.eqb_spec (f_spec fk') r) as [Es|Es].
          + split; [|intros r0 Hx; discriminate Hx]. cbn [dgoto d_pc PcOK]. intros Hv _. rewrite <- Es. apply Hval. exact Hv.
          + assert (Hsr : ScanRes fs' (d_bad c) r (scan r (S k) (skipn (S k) fs'))).
            { apply scan_ok; [intros j; apply skipn_nth|]. destruct Hscan as (H1 & H2 & H3). split; [lia|split].
              - intros i Hi. destruct (Nat.eq_dec i k) as [->|Hne]; [exists fk'; auto|apply H2; lia].
              - intros Hb i Hi1 Hi2. destruct (Nat.eq_dec i k) as [->|Hne]; [|apply H3; auto; lia].
                exists fk'. unfold data in Ed. destruct (f_comp fk) eqn:Ec; [|discriminate Ed].
                repeat split; auto. cbn [fk' f_setlock f_data]. lia. }
            cbn [dgoto d_pc]. split; [apply ScanRes_PcOK with (r := r); exact Hsr|].
            intros r0 Hx. eapply ScanRes_NewCb; eauto. }
      change (DInv {| d_futs := fs'; d_bad := d_bad c; d_thr := upd (d_thr c) t th' |}).
      apply (dinv_frame c t th _ _ _ Hinv E).
      * apply (specs_upd _ _ _ _ Ek). reflexivity.
      * exact HS.
      * intros Hb. split; [exact Hb|exact HV].
      * apply (TrigOK_upd _ _ _ _ HT Ek). cbn [f_setlock f_ncb f_trig]. apply (HT k fk Ek).
      * intros i. rewrite Epc, Hh'. cbn [holds]. unfold fs'. rewrite (lockval_upd _ _ _ _ _ Ek). cbn [fk' f_setlock f_lock].
        destruct (Nat.eqb_spec i k) as [->|Hne].
        -- rewrite (lockval_of _ _ _ Ek), Hheld. destruct (Nat.eqb_spec k 0); [lia|cbn [orb]; lia].
        -- rewrite orb_false_r. lia.
      * intros Hm. destruct (Hm t th E) as [_ Hr]. split; [apply Hpc'|rewrite Hres'; exact Hr].
      * apply Hpc'.
  - (* DUnlockRet r v *)
    destruct (nth_error (d_futs c) 0) as [f0|] eqn:E0; [|exact Hinv].
    assert (Hheld : f_lock f0 = true).
    { destruct (mutex_held c 0 t th HM E) as (f & Hf & Hl); [rewrite Epc; reflexivity|]. rewrite E0 in Hf. inv Hf. exact Hl. }
    apply (dinv_frame c t th _ _ _ Hinv E).
    + apply (specs_upd _ _ _ _ E0). reflexivity.
    + apply (fextS_upd _ _ _ _ E0). reflexivity.
    + intros Hb. split; [exact Hb|]. apply (fextV_upd _ _ _ _ E0); [reflexivity|]. intros Hc. split; [exact Hc|reflexivity].
    + apply (TrigOK_upd _ _ _ _ HT E0). cbn [f_setlock f_ncb f_trig]. apply (HT 0 f0 E0).
    + intros i. rewrite Epc. cbn [dfinish d_pc holds]. rewrite (lockval_upd _ _ _ _ _ E0). cbn [f_setlock f_lock].
      destruct (Nat.eqb_spec i 0) as [->|Hne]; [rewrite (lockval_of _ _ _ E0), Hheld; lia|lia].
    + intros Hm. destruct (Hm t th E) as [Hp _]. rewrite Epc in Hp. cbn [PcOK] in Hp.
      apply ThrOK_finish; [apply (Hm t th E)|]. intros s v0 Hx Hv Hb. inv Hx. auto.
    + intros r0 Hx. discriminate Hx.
  - (* DUnlockNew k *)
    destruct (nth_error (d_futs c) 0) as [f0|] eqn:E0; [|exact Hinv].
    assert (Hheld : f_lock f0 = true).
    { destruct (mutex_held c 0 t th HM E) as (f & Hf & Hl); [rewrite Epc; reflexivity|]. rewrite E0 in Hf. inv Hf. exact Hl. }
    set (fs' := upd (d_futs c) 0 (f_setlock f0 false)).
    destruct (nth_error fs' k) as [fk|] eqn:Ek; [|exact Hinv].
    assert (Hh' : forall i, holds i (d_pc (enter_direct k fk th)) = false).
    { intros i. unfold enter_direct. destruct (f_comp fk); reflexivity. }
    apply (dinv_frame c t th _ _ _ Hinv E).
    + apply (specs_upd _ _ _ _ E0). reflexivity.
    + apply (fextS_upd _ _ _ _ E0). reflexivity.
    + intros Hb. split; [exact Hb|]. apply (fextV_upd _ _ _ _ E0); [reflexivity|]. intros Hc. split; [exact Hc|reflexivity].
    + apply (TrigOK_upd _ _ _ _ HT E0). cbn [f_setlock f_ncb f_trig]. apply (HT 0 f0 E0).
    + intros i. rewrite Epc, Hh'. cbn [holds]. unfold fs'. rewrite (lockval_upd _ _ _ _ _ E0). cbn [f_setlock f_lock].
      destruct (Nat.eqb_spec i 0) as [->|Hne]; [rewrite (lockval_of _ _ _ E0), Hheld; lia|lia].
    + intros Hm. unfold enter_direct. destruct (f_comp fk) eqn:Ec.
      * apply ThrOK_finish; [apply (Hm t th E)|]. intros s v Hx Hv Hb. inv Hx. exists k, fk. auto.
      * apply ThrOK_goto; [apply (Hm t th E)|exact I].
    + intros r0 Hx. unfold enter_direct in Hx. destruct (f_comp fk); discriminate Hx.
Qed.

(* ---------------------------------------------------------------- reachable states *)
Lemma dinv_init rootspec ops : DInv (dinit rootspec ops).
Proof.
  unfold DInv, dinit; cbn [d_futs d_bad d_thr].
  assert (Hm : forall u th, nth_error (map dmk ops) u = Some th -> exists l, th = dmk l).
  { intros u th Hu. destruct (nth_error_map_inv _ _ _ _ Hu) as (l & _ & <-). eauto. }
  split; [|split; [|split; [|split; [|split]]]].
  - intros i f Hi. destruct i as [|[|i]]; cbn in Hi; try discriminate. inv Hi. reflexivity.
  - cbn. constructor; [intros []|constructor].
  - intros i. cbn [d_futs d_thr]. rewrite cnt_all_false.
    + unfold lockval. destruct i as [|[|i]]; reflexivity.
    + intros x Hx. apply in_map_iff in Hx. destruct Hx as (l & <- & _). reflexivity.
  - intros u th Hu. destruct (Hm u th Hu) as (l & ->). split; [exact I|]. intros s v [].
  - intros u th r Hu Hx. destruct (Hm u th Hu) as (l & ->). discriminate Hx.
  - intros _ i Hi1 Hi2. cbn in Hi2. lia.
Qed.

Lemma dinv_run cbv rootspec ops sched : DInv (drun cbv rootspec ops sched).
Proof. unfold drun. apply fold_left_inv; [intros; apply dinv_step; assumption|apply dinv_init]. Qed.

Lemma drun_app cbv rs ops s1 s2 : drun cbv rs ops (s1 ++ s2) = fold_left (dstep cbv) s2 (drun cbv rs ops s1).
Proof. unfold drun. apply fold_left_app. Qed.

(* ---------------------------------------------------------------- statements *)
(* the fulfilment callback of a future has run exactly once if the future is TRIGGERED, never otherwise *)
Theorem dc_trigger_at_most_once cbv rs ops sched i f :
  nth_error (d_futs (drun cbv rs ops sched)) i = Some f ->
  f_ncb f = (if f_trig f then 1 else 0) /\ f_ncb f <= 1.
Proof.
  intros Hi. destruct (dinv_run cbv rs ops sched) as (HT & _). pose proof (HT i f Hi) as H.
  split; [exact H|]. rewrite H. destruct (f_trig f); lia.
Qed.

Lemma fulfil_le1 s : forall fs, NoDup (specs fs) -> (forall f, In f fs -> f_ncb f <= 1) -> fulfilments s fs <= 1.
Proof.
  unfold fulfilments. induction fs as [|f fs IH]; intros Hn Hle; cbn [filter map list_sum fold_right]; [lia|].
  cbn [specs map] in Hn. inversion Hn as [|x l Hx Hn' Heq]; subst.
  destruct (Nat.eqb_spec (f_spec f) s) as [Es|Es].
  - cbn [map list_sum fold_right]. assert (Hnone : filter (fun g => Nat.eqb (f_spec g) s) fs = []).
    { clear -Hx Es. induction fs as [|g fs IH]; [reflexivity|]. cbn [filter].
      destruct (Nat.eqb_spec (f_spec g) s) as [Eg|Eg].
      - exfalso. apply Hx. cbn. left. congruence.
      - apply IH. intros Hin. apply Hx. cbn. right. exact Hin. }
    rewrite Hnone. cbn. specialize (Hle f (or_introl eq_refl)). lia.
  - apply IH; [exact Hn'|]. intros g Hg. apply Hle. right. exact Hg.
Qed.

(* there is at most one future per shape: for every shape the fulfilment callbacks of all the
   futures tracking it have run at most once in total *)
Theorem dc_one_fulfilment_per_shape cbv rs ops sched s :
  let fs := d_futs (drun cbv rs ops sched) in
  NoDup (specs fs) /\ fulfilments s fs <= 1.
Proof.
  intros fs. destruct (dinv_run cbv rs ops sched) as (HT & HN & _). fold fs in HT, HN. split; [exact HN|].
  apply fulfil_le1; [exact HN|]. intros f Hf. destruct (In_nth_error _ _ Hf) as (i & Hi).
  rewrite (HT i f Hi). destruct (f_trig f); lia.
Qed.

(* every future lock (root lock over the nested scan and nested creation, each future's lock over
   its trigger check and callback) is held by at most one thread *)
Theorem dc_lock_mutex cbv rs ops sched i t u th th2 :
  let c := drun cbv rs ops sched in
  t <> u -> nth_error (d_thr c) t = Some th -> holds i (d_pc th) = true ->
  nth_error (d_thr c) u = Some th2 -> holds i (d_pc th2) = true -> False.
Proof. intros c. destruct (dinv_run cbv rs ops sched) as (_ & _ & HM & _). apply mutex_excl. exact HM. Qed.

Lemma spec_index_unique fs i j f g : NoDup (specs fs) ->
  nth_error fs i = Some f -> nth_error fs j = Some g -> f_spec f = f_spec g -> i = j.
Proof.
  intros Hn Hi Hj Hs. apply (NoDup_nth_inj (specs fs) i j (f_spec f) Hn).
  - unfold specs. apply map_nth_error. exact Hi.
  - unfold specs. rewrite Hs. apply map_nth_error. exact Hj.
Qed.

Lemma Val_unique fs s x y : NoDup (specs fs) -> Val fs s x -> Val fs s y -> x = y.
Proof.
  intros Hn (i & f & Hi & Hs & _ & Hd) (j & g & Hj & Hs' & _ & Hd').
  assert (i = j) by (eapply spec_index_unique; eauto; congruence). subst j. congruence.
Qed.

(* d_res is the log of every value ever returned.  As long as the assert of
   parsec_datacopy_future_set has not been violated, every non-NULL value returned for shape s
   is the value tracked by the completed future of shape s, so all readers of a shape agree *)
Theorem dc_readers_agree cbv rs ops sched u th u' th' s x y :
  let c := drun cbv rs ops sched in
  d_bad c = false ->
  nth_error (d_thr c) u = Some th -> In (DRGot s x) (d_res th) -> x <> 0%Z ->
  nth_error (d_thr c) u' = Some th' -> In (DRGot s y) (d_res th') -> y <> 0%Z ->
  x = y /\ Val (d_futs c) s x.
Proof.
  intros c Hb Hu Hx Hx0 Hu' Hy Hy0. destruct (dinv_run cbv rs ops sched) as (_ & HN & _ & HTh & _).
  fold c in HN, HTh. destruct (HTh u th Hu) as [_ H1]. destruct (HTh u' th' Hu') as [_ H2].
  pose proof (H1 s x Hx Hx0 Hb) as V1. pose proof (H2 s y Hy Hy0 Hb) as V2.
  split; [eapply Val_unique; eauto|exact V1].
Qed.

(* ---- a completed future keeps its value (no assert violation) ---- *)
Lemma fextV_trans a b c : fextV a b -> fextV b c -> fextV a c.
Proof.
  intros H1 H2 i f Hi Hc. destruct (H1 i f Hi Hc) as (f' & Hi' & Hs' & Hc' & Hd').
  destruct (H2 i f' Hi' Hc') as (f'' & Hi'' & Hs'' & Hc'' & Hd''). exists f''. repeat split; congruence.
Qed.

Lemma dstep_fextV cbv c t : d_bad (dstep cbv c t) = false ->
  d_bad c = false /\ fextV (d_futs c) (d_futs (dstep cbv c t)).
Proof.
  unfold dstep. cbv zeta.
  assert (Hsame : d_bad c = false -> d_bad c = false /\ fextV (d_futs c) (d_futs c)) by (intros H; split; [exact H|apply fextV_refl]).
  assert (Hlock : forall k fk b, nth_error (d_futs c) k = Some fk -> fextV (d_futs c) (upd (d_futs c) k (f_setlock fk b))).
  { intros k fk b Hk. apply (fextV_upd _ _ _ _ Hk); [reflexivity|]. intros Hc. split; [exact Hc|reflexivity]. }
  assert (Hset : forall k fk v, nth_error (d_futs c) k = Some fk -> d_bad c || f_comp fk = false ->
            d_bad c = false /\ fextV (d_futs c) (upd (d_futs c) k (f_set fk v))).
  { intros k fk v Hk Hb. apply orb_false_elim in Hb. destruct Hb as [Hb1 Hb2]. split; [exact Hb1|].
    apply (fextV_upd _ _ _ _ Hk); [reflexivity|]. intros Hc. congruence. }
  destruct (nth_error (d_thr c) t) as [th|]; [|exact Hsame].
  destruct (d_pc th) as [|r|r|cx k|cx k|cx k|r v|k].
  - destruct (d_ops th) as [|[r|s v| |] rest]; try exact Hsame.
    + destruct (nth_error (d_futs c) 0) as [f0|]; [|exact Hsame].
      destruct (Nat.eqb r 0 || Nat.eqb (f_spec f0) r); exact Hsame.
    + destruct (find_spec s 0 (d_futs c)) as [k|]; [|exact Hsame].
      destruct (nth_error (d_futs c) k) as [fk|] eqn:Ek; [|exact Hsame]. cbn [d_bad d_futs]. apply Hset. exact Ek.
  - destruct (nth_error (d_futs c) 0) as [f0|] eqn:E0; [|exact Hsame]. destruct (f_lock f0); [exact Hsame|].
    cbn [d_bad d_futs]. intros Hb. split; [exact Hb|apply Hlock; exact E0].
  - cbn [d_bad d_futs]. intros Hb. split; [exact Hb|apply fextV_app].
  - destruct (nth_error (d_futs c) k) as [fk|] eqn:Ek; [|exact Hsame]. destruct (f_lock fk); [exact Hsame|].
    destruct (f_trig fk); cbn [d_bad d_futs]; intros Hb; (split; [exact Hb|]).
    + apply Hlock. exact Ek.
    + apply (fextV_upd _ _ _ _ Ek); [reflexivity|]. intros Hc. split; [exact Hc|reflexivity].
  - destruct (nth_error (d_futs c) k) as [fk|] eqn:Ek; [|exact Hsame].
    destruct (nth (f_spec fk) cbv 0 =? 0)%Z; [exact Hsame|]. cbn [d_bad d_futs]. apply Hset. exact Ek.
  - destruct (nth_error (d_futs c) k) as [fk|] eqn:Ek; [|exact Hsame].
    cbn [d_bad d_futs]. intros Hb. split; [exact Hb|apply Hlock; exact Ek].
  - destruct (nth_error (d_futs c) 0) as [f0|] eqn:E0; [|exact Hsame].
    cbn [d_bad d_futs]. intros Hb. split; [exact Hb|apply Hlock; exact E0].
  - destruct (nth_error (d_futs c) 0) as [f0|] eqn:E0; [|exact Hsame].
    destruct (nth_error (upd (d_futs c) 0 (f_setlock f0 false)) k) as [fk|]; [|exact Hsame].
    cbn [d_bad d_futs]. intros Hb. split; [exact Hb|apply Hlock; exact E0].
Qed.

(* the value of shape s, once there, is still there after any continuation of the schedule that
   does not trip the assert: a data-copy future takes at most one value *)
Theorem dc_value_written_once cbv rs ops s1 s2 s v :
  Val (d_futs (drun cbv rs ops s1)) s v -> d_bad (drun cbv rs ops (s1 ++ s2)) = false ->
  Val (d_futs (drun cbv rs ops (s1 ++ s2))) s v.
Proof.
  rewrite drun_app. generalize (drun cbv rs ops s1) as c. induction s2 as [|t s2 IH]; intros c HV Hb; [exact HV|].
  cbn [fold_left] in *. apply IH; [|exact Hb].
  assert (Hb1 : d_bad (dstep cbv c t) = false).
  { clear -Hb. revert Hb. generalize (dstep cbv c t) as c1. induction s2 as [|u s2 IH]; intros c1 Hb; [exact Hb|].
    cbn [fold_left] in Hb. apply IH in Hb. apply dstep_fextV in Hb. tauto. }
  destruct (dstep_fextV cbv c t Hb1) as [_ He]. eapply Val_mono; eauto.
Qed.

(* ---- a reader that starts after completion gets the value ---- *)
Lemma scan_finds fs r j fj : nth_error fs j = Some fj -> f_spec fj = r -> f_comp fj = true -> f_data fj <> 0%Z ->
  forall l k, (forall j', nth_error l j' = nth_error fs (k + j')) -> k <= j ->
  (forall i, k <= i -> i < j -> GoodAt fs i /\ SpecNeAt fs r i) ->
  scan r k l = DUnlockRet r (f_data fj).
Proof.
  intros Hj Hs Hc Hd. induction l as [|f l IH]; intros k Hl Hk Hgood.
  - exfalso. assert (Hlen : length fs <= k). { apply nth_error_None. rewrite <- (Nat.add_0_r k). rewrite <- Hl. reflexivity. }
    assert (j < length fs) by (apply nth_error_Some; congruence). lia.
  - assert (Hf : nth_error fs k = Some f). { rewrite <- (Nat.add_0_r k). rewrite <- Hl. reflexivity. }
    cbn [scan]. destruct (Nat.eq_dec k j) as [->|Hne].
    + rewrite Hj in Hf. inv Hf. rewrite Hc. assert (Ez : (f_data f =? 0)%Z = false) by lia. rewrite Ez, Nat.eqb_refl. reflexivity.
    + destruct (Hgood k) as [(g & Hg & Hgc & Hgd) (g' & Hg' & Hgs)]; [lia|lia|].
      rewrite Hf in Hg, Hg'. inv Hg. inv Hg'. rewrite Hgc.
      assert (Ez : (f_data g' =? 0)%Z = false) by lia. rewrite Ez.
      destruct (Nat.eqb_spec (f_spec g') (f_spec fj)) as [Es|Es]; [contradiction|].
      apply IH; [|lia|intros i Hi1 Hi2; apply Hgood; lia].
      intros j'. replace (S k + j') with (k + S j') by lia. apply (Hl (S j')).
Qed.

(* root future: a get_or_trigger resolved to the root that starts when the root is COMPLETED
   returns its value in that very step *)
Theorem dc_root_reader_after_completion cbv c t th r rest f0 :
  nth_error (d_thr c) t = Some th -> d_pc th = DIdle -> d_ops th = DGT r :: rest ->
  nth_error (d_futs c) 0 = Some f0 -> (r = 0 \/ f_spec f0 = r) -> f_comp f0 = true ->
  nth_error (d_thr (dstep cbv c t)) t = Some (dfinish th (DRGot (f_spec f0) (f_data f0))).
Proof.
  intros E Epc Eops E0 Hr Hc. unfold dstep. rewrite E, Epc, Eops, E0.
  assert (Hm : Nat.eqb r 0 || Nat.eqb (f_spec f0) r = true).
  { destruct Hr as [->| <-]; [reflexivity|]. rewrite Nat.eqb_refl. apply orb_true_r. }
  rewrite Hm. unfold enter_direct. rewrite Hc. cbn [d_thr]. apply (nth_upd_same _ _ _ _ E).
Qed.

(* nested future: in a reachable state without assert violation, a reader of shape r that takes
   the root lock when the future of shape r is COMPLETED with a non-NULL value will return it *)
Theorem dc_later_reader_gets_value cbv rs ops sched t th r f0 j fj :
  let c := drun cbv rs ops sched in
  d_bad c = false ->
  nth_error (d_thr c) t = Some th -> d_pc th = DLockRoot r ->
  nth_error (d_futs c) 0 = Some f0 -> f_lock f0 = false ->
  nth_error (d_futs c) j = Some fj -> f_spec fj = r -> f_comp fj = true -> f_data fj <> 0%Z ->
  nth_error (d_thr (dstep cbv c t)) t = Some (dgoto th (DUnlockRet r (f_data fj))).
Proof.
  intros c Hb E Epc E0 El Hj Hs Hc Hd.
  destruct (dinv_run cbv rs ops sched) as (_ & HN & _ & HTh & _ & HP). fold c in HN, HTh, HP.
  destruct (HTh t th E) as [Hpc _]. rewrite Epc in Hpc. cbn [PcOK] in Hpc. destruct Hpc as (g0 & Hg0 & Hg0s).
  rewrite E0 in Hg0. inv Hg0.
  assert (Hj1 : 1 <= j). { destruct j; [rewrite E0 in Hj; inv Hj; contradiction|lia]. }
  unfold dstep. rewrite E, Epc, E0, El. cbn [d_thr]. rewrite (nth_upd_same _ _ _ _ E). f_equal. f_equal.
  set (fs' := upd (d_futs c) 0 (f_setlock g0 true)).
  assert (HV : fextV (d_futs c) fs') by (apply (fextV_upd _ _ _ _ E0); [reflexivity|intros Hx; split; [exact Hx|reflexivity]]).
  assert (HS : fextS (d_futs c) fs') by (apply (fextS_upd _ _ _ _ E0); reflexivity).
  assert (Hj' : nth_error fs' j = Some fj). { unfold fs'. rewrite (nth_upd_other _ _ _ _ _ E0); [exact Hj|lia]. }
  apply (scan_finds fs' (f_spec fj) j fj Hj' eq_refl Hc Hd); [intros j'; apply skipn_nth|exact Hj1|].
  intros i Hi1 Hi2. assert (Hlt : j < length (d_futs c)) by (apply nth_error_Some; congruence). split.
  - eapply GoodAt_mono; [apply HP; auto; lia|exact HV].
  - destruct (nth_error (d_futs c) i) as [fi|] eqn:Ei.
    2:{ apply nth_error_None in Ei. lia. }
    eapply SpecNeAt_mono; [|exact HS]. exists fi. split; [exact Ei|]. intros Heq.
    assert (i = j) by (eapply spec_index_unique; eauto). lia.
Qed.

(* ---- destruction: every registered cleanup callback runs exactly once ---- *)
From Coq Require Import Permutation.
Lemma cleanup_perm fs : Permutation (d_cleanup fs) (specs fs).
Proof.
  unfold d_cleanup, specs. destruct fs as [|f fs]; [constructor|]. cbn [tl firstn map].
  apply Permutation_sym. apply Permutation_cons_append.
Qed.
Theorem dc_cleanup_exactly_once cbv rs ops sched :
  let fs := d_futs (drun cbv rs ops sched) in
  Permutation (d_cleanup fs) (specs fs) /\ NoDup (d_cleanup fs).
Proof.
  intros fs. split; [apply cleanup_perm|]. destruct (dinv_run cbv rs ops sched) as (_ & HN & _). fold fs in HN.
  eapply Permutation_NoDup; [apply Permutation_sym; apply cleanup_perm|exact HN].
Qed.
