(* Executable atomic-step models of the futures of parsec/class/parsec_future.c
   and parsec/class/parsec_datacopy_future.c (C29).

   A configuration holds the shared state of ONE future object (plus, for the
   data-copy future, its nested futures) and a list of threads; every thread
   runs a list of operations.  [step c t] executes the code of thread [t]
   between two scheduling points.  The scheduling points are those of
   harness/h_future.c: before every parsec_atomic_* read-modify-write and
   lock/unlock (interpose.h), at parsec_atomic_wmb/rmb (interposed by the
   harness), inside the user callbacks (the harness callbacks yield), in the
   wait loops (one stutter step per poll) and between two operations of a
   thread.  A run is [fold_left step sched init] for an arbitrary list of
   thread ids.  Pointers are integers, 0 = NULL. *)
From Coq Require Import ZArith List Bool.
From PV Require Import Base.ListX.
Import ListNotations.
Local Open Scope Z_scope.

(* ====================================================================== *)
(* (a) base future: parsec_base_future_{set,get,is_ready}                  *)
(* ====================================================================== *)
Inductive bop := BSet (v : Z) | BGet | BReady.
Inductive bres := BRSet (won : bool) | BRGet (v : Z) | BRReady (b : bool).
Inductive bpc :=
  | BIdle                 (* between two operations *)
  | BSetCas (v : Z)       (* about to parsec_atomic_cas_ptr(&tracked_data, NULL, v) *)
  | BSetPub               (* CAS won; at parsec_atomic_wmb: status |= COMPLETED and callback follow *)
  | BGetRead.             (* saw COMPLETED; at parsec_atomic_rmb: read of tracked_data follows *)
Record bthr := { b_ops : list bop; b_pc : bpc; b_res : list bres }.   (* b_res: newest first *)
Record bcfg := { b_data : Z;            (* tracked_data *)
                 b_stat : bool;         (* status & COMPLETED *)
                 b_ncb  : nat;          (* invocations of cb_fulfill *)
                 b_seen : list Z;       (* tracked_data seen by each invocation, newest first *)
                 b_thr  : list bthr }.

Definition bgoto (th : bthr) (p : bpc) : bthr :=
  {| b_ops := b_ops th; b_pc := p; b_res := b_res th |}.
Definition bfinish (th : bthr) (r : bres) : bthr :=
  {| b_ops := tl (b_ops th); b_pc := BIdle; b_res := r :: b_res th |}.

Definition bstep (hascb : bool) (c : bcfg) (t : nat) : bcfg :=
  match nth_error (b_thr c) t with
  | None => c
  | Some th =>
    let same th' := {| b_data := b_data c; b_stat := b_stat c; b_ncb := b_ncb c;
                       b_seen := b_seen c; b_thr := upd (b_thr c) t th' |} in
    match b_pc th with
    | BIdle =>
        match b_ops th with
        | [] => c                                         (* thread finished *)
        | BSet v :: _ => same (bgoto th (BSetCas v))      (* call; yield before the CAS *)
        | BGet :: _ =>                                    (* while(1) if(is_ready) { rmb; ... } *)
            if b_stat c then same (bgoto th BGetRead) else c
        | BReady :: _ => same (bfinish th (BRReady (b_stat c)))
        end
    | BSetCas v =>
        if b_data c =? 0
        then {| b_data := v; b_stat := b_stat c; b_ncb := b_ncb c; b_seen := b_seen c;
                b_thr := upd (b_thr c) t (bgoto th BSetPub) |}
        else same (bfinish th (BRSet false))              (* warning, nothing written *)
    | BSetPub =>
        {| b_data := b_data c; b_stat := true;
           b_ncb := if hascb then S (b_ncb c) else b_ncb c;
           b_seen := if hascb then b_data c :: b_seen c else b_seen c;
           b_thr := upd (b_thr c) t (bfinish th (BRSet true)) |}
    | BGetRead => same (bfinish th (BRGet (b_data c)))
    end
  end.

Definition bmk (ops : list bop) : bthr := {| b_ops := ops; b_pc := BIdle; b_res := [] |}.
Definition binit (ops : list (list bop)) : bcfg :=
  {| b_data := 0; b_stat := false; b_ncb := 0; b_seen := []; b_thr := map bmk ops |}.
Definition brun (hascb : bool) (ops : list (list bop)) (sched : list nat) : bcfg :=
  fold_left (bstep hascb) sched (binit ops).
Definition b_done (th : bthr) : bool := match b_ops th with [] => true | _ => false end.

(* ====================================================================== *)
(* (b) countable future: parsec_countable_future_set, base get / is_ready  *)
(* ====================================================================== *)
Inductive kop := KSet | KGet | KReady.
Inductive kres := KRSet (ready_after : bool) | KRGet (v : Z) | KRReady (b : bool).
Inductive kpc := KIdle | KDec | KGetRead.
Record kthr := { k_ops : list kop; k_pc : kpc; k_res : list kres }.
Record kcfg := { k_count : Z;          (* c_fut->count (int32, no wrap: see the plugin's assumptions) *)
                 k_stat  : bool;
                 k_ncb   : nat;
                 k_ndec  : Z;          (* ghost: completed parsec_atomic_fetch_dec_int32 *)
                 k_thr   : list kthr }.

Definition kgoto (th : kthr) (p : kpc) : kthr :=
  {| k_ops := k_ops th; k_pc := p; k_res := k_res th |}.
Definition kfinish (th : kthr) (r : kres) : kthr :=
  {| k_ops := tl (k_ops th); k_pc := KIdle; k_res := r :: k_res th |}.

Definition kstep (hascb : bool) (c : kcfg) (t : nat) : kcfg :=
  match nth_error (k_thr c) t with
  | None => c
  | Some th =>
    let same th' := {| k_count := k_count c; k_stat := k_stat c; k_ncb := k_ncb c;
                       k_ndec := k_ndec c; k_thr := upd (k_thr c) t th' |} in
    match k_pc th with
    | KIdle =>
        match k_ops th with
        | [] => c
        | KSet :: _ => same (kgoto th KDec)
        | KGet :: _ => if k_stat c then same (kgoto th KGetRead) else c
        | KReady :: _ => same (kfinish th (KRReady (k_stat c)))
        end
    | KDec =>                      (* if (0 == fetch_dec(&count) - 1) { status |= COMPLETED; cb } *)
        let hit := (k_count c - 1 =? 0) in
        let st := if hit then true else k_stat c in
        {| k_count := k_count c - 1; k_stat := st;
           k_ncb := if hit && hascb then S (k_ncb c) else k_ncb c;
           k_ndec := k_ndec c + 1;
           k_thr := upd (k_thr c) t (kfinish th (KRSet st)) |}
    | KGetRead => same (kfinish th (KRGet 0))      (* tracked_data of a countable future is never written *)
    end
  end.

Definition kmk (ops : list kop) : kthr := {| k_ops := ops; k_pc := KIdle; k_res := [] |}.
Definition kinit (count : Z) (ops : list (list kop)) : kcfg :=
  {| k_count := count; k_stat := false; k_ncb := 0; k_ndec := 0; k_thr := map kmk ops |}.
Definition krun (hascb : bool) (count : Z) (ops : list (list kop)) (sched : list nat) : kcfg :=
  fold_left (kstep hascb) sched (kinit count ops).
Definition k_done (th : kthr) : bool := match k_ops th with [] => true | _ => false end.

(* ====================================================================== *)
(* (c) data-copy future: get_or_trigger(_internal), set, nested futures     *)
(* ====================================================================== *)
(* futures are numbered in creation order: 0 is the root, 1.. the nested list in list order
   (parsec_list_nolock_push_back).  A "shape" is a natural number; cb_match is equality. *)
Record fut := { f_spec : nat;          (* cb_match_data_in: the shape this future tracks *)
                f_trig : bool;         (* status & TRIGGERED *)
                f_comp : bool;         (* status & COMPLETED *)
                f_data : Z;            (* tracked_data *)
                f_lock : bool;         (* future_lock held *)
                f_ncb  : nat }.        (* invocations of cb_fulfill on this future *)
Inductive dop :=
  | DGT (r : nat)                      (* get_or_trigger requesting shape r; 0 = no specification (cb_data_in NULL) *)
  | DSet (s : nat) (v : Z)             (* parsec_future_set on the future tracking shape s, if it exists *)
  | DReady | DGet.                     (* is_ready / get on a data-copy future: constants *)
Inductive dres := DRGot (s : nat) (v : Z)   (* get_or_trigger for (resolved) shape s returned v *)
                | DRSet (code : Z)          (* 1 set done, 2 set on a COMPLETED future (the assert), -1 no such future *)
                | DRConst.                  (* is_ready / get: always 0 / NULL *)
Inductive ictx := CDirect | CScan (r : nat).
Inductive dpc :=
  | DIdle
  | DLockRoot (r : nat)                (* parsec_atomic_lock(root) before the nested scan for shape r *)
  | DNewCb (r : nat)                   (* root lock held, inside cb_setup_nested *)
  | DILock (cx : ictx) (f : nat)       (* _internal(f): parsec_atomic_lock(f) *)
  | DICb (cx : ictx) (f : nat)         (* f's lock held, TRIGGERED set, inside cb_fulfill *)
  | DIUnlock (cx : ictx) (f : nat)     (* f's lock held, about to unlock and read COMPLETED *)
  | DUnlockRet (r : nat) (v : Z)       (* root lock held, about to unlock and return v for shape r *)
  | DUnlockNew (f : nat).              (* root lock held, nested f pushed; unlock then _internal(f) *)
Record dthr := { d_ops : list dop; d_pc : dpc; d_res : list dres }.
Record dcfg := { d_futs : list fut;
                 d_bad  : bool;        (* some set found COMPLETED already set: the assert of parsec_datacopy_future_set *)
                 d_thr  : list dthr }.

Definition dgoto (th : dthr) (p : dpc) : dthr :=
  {| d_ops := d_ops th; d_pc := p; d_res := d_res th |}.
Definition dfinish (th : dthr) (r : dres) : dthr :=
  {| d_ops := tl (d_ops th); d_pc := DIdle; d_res := r :: d_res th |}.

Definition f_set (f : fut) (v : Z) : fut :=
  {| f_spec := f_spec f; f_trig := f_trig f; f_comp := true; f_data := v; f_lock := f_lock f; f_ncb := f_ncb f |}.
Definition f_setlock (f : fut) (b : bool) : fut :=
  {| f_spec := f_spec f; f_trig := f_trig f; f_comp := f_comp f; f_data := f_data f; f_lock := b; f_ncb := f_ncb f |}.
Definition f_trigger (f : fut) : fut :=    (* lock taken, TRIGGERED set, callback entered *)
  {| f_spec := f_spec f; f_trig := true; f_comp := f_comp f; f_data := f_data f; f_lock := true; f_ncb := S (f_ncb f) |}.
Definition f_new (s : nat) : fut :=
  {| f_spec := s; f_trig := false; f_comp := false; f_data := 0; f_lock := false; f_ncb := 0 |}.

(* the loop over the nested list, from item k on, as far as it runs without a scheduling point *)
Fixpoint scan (r : nat) (k : nat) (l : list fut) : dpc :=
  match l with
  | [] => DNewCb r                                   (* no match: cb_setup_nested *)
  | f :: l' =>
      if f_comp f
      then if f_data f =? 0 then DUnlockRet r 0       (* "future being generated" *)
           else if Nat.eqb (f_spec f) r then DUnlockRet r (f_data f)
           else scan r (S k) l'
      else DILock (CScan r) k                          (* _internal(item k) must take the item's lock *)
  end.

Fixpoint find_spec (s : nat) (k : nat) (l : list fut) : option nat :=
  match l with
  | [] => None
  | f :: l' => if Nat.eqb (f_spec f) s then Some k else find_spec s (S k) l'
  end.

Definition root_spec (fs : list fut) : nat := match fs with f :: _ => f_spec f | [] => O end.

(* what follows the return of _internal(f) with value [data] *)
Definition after_internal (cx : ictx) (fs : list fut) (k : nat) (fk : fut) (data : Z) (th : dthr) : dthr :=
  match cx with
  | CDirect => dfinish th (DRGot (f_spec fk) data)
  | CScan r =>
      if data =? 0 then dgoto th (DUnlockRet r 0)
      else if Nat.eqb (f_spec fk) r then dgoto th (DUnlockRet r data)
      else dgoto th (scan r (S k) (skipn (S k) fs))
  end.

(* entry of _internal(f) in context CDirect *)
Definition enter_direct (k : nat) (fk : fut) (th : dthr) : dthr :=
  if f_comp fk then dfinish th (DRGot (f_spec fk) (f_data fk)) else dgoto th (DILock CDirect k).

Definition dstep (cbv : list Z) (c : dcfg) (t : nat) : dcfg :=
  match nth_error (d_thr c) t with
  | None => c
  | Some th =>
    let fs := d_futs c in
    let mk fs' bad' th' := {| d_futs := fs'; d_bad := bad'; d_thr := upd (d_thr c) t th' |} in
    match d_pc th with
    | DIdle =>
        match d_ops th with
        | [] => c
        | DGT r :: _ =>
            match nth_error fs 0 with
            | None => c
            | Some f0 =>
                if Nat.eqb r 0 || Nat.eqb (f_spec f0) r
                then mk fs (d_bad c) (enter_direct 0 f0 th)
                else mk fs (d_bad c) (dgoto th (DLockRoot r))
            end
        | DSet s v :: _ =>
            match find_spec s 0 fs with
            | None => mk fs (d_bad c) (dfinish th (DRSet (-1)))
            | Some k =>
                match nth_error fs k with
                | None => c
                | Some fk => mk (upd fs k (f_set fk v)) (d_bad c || f_comp fk)
                                (dfinish th (DRSet (if f_comp fk then 2 else 1)))
                end
            end
        | DReady :: _ => mk fs (d_bad c) (dfinish th DRConst)
        | DGet :: _ => mk fs (d_bad c) (dfinish th DRConst)
        end
    | DLockRoot r =>
        match nth_error fs 0 with
        | None => c
        | Some f0 =>
            if f_lock f0 then c                               (* trylock failed: cos_spin *)
            else let fs' := upd fs 0 (f_setlock f0 true) in
                 mk fs' (d_bad c) (dgoto th (scan r 1 (skipn 1 fs')))
        end
    | DNewCb r =>                                             (* nested future created and pushed back *)
        mk (fs ++ [f_new r]) (d_bad c) (dgoto th (DUnlockNew (length fs)))
    | DILock cx k =>
        match nth_error fs k with
        | None => c
        | Some fk =>
            if f_lock fk then c
            else if f_trig fk
                 then mk (upd fs k (f_setlock fk true)) (d_bad c) (dgoto th (DIUnlock cx k))
                 else mk (upd fs k (f_trigger fk)) (d_bad c) (dgoto th (DICb cx k))
        end
    | DICb cx k =>                                            (* rest of the harness callback *)
        match nth_error fs k with
        | None => c
        | Some fk =>
            let v := nth (f_spec fk) cbv 0 in
            if v =? 0 then mk fs (d_bad c) (dgoto th (DIUnlock cx k))     (* fulfilment deferred *)
            else mk (upd fs k (f_set fk v)) (d_bad c || f_comp fk) (dgoto th (DIUnlock cx k))
        end
    | DIUnlock cx k =>
        match nth_error fs k with
        | None => c
        | Some fk =>
            let fk' := f_setlock fk false in
            let fs' := upd fs k fk' in
            let data := if f_comp fk then f_data fk else 0 in
            mk fs' (d_bad c) (after_internal cx fs' k fk' data th)
        end
    | DUnlockRet r v =>
        match nth_error fs 0 with
        | None => c
        | Some f0 => mk (upd fs 0 (f_setlock f0 false)) (d_bad c) (dfinish th (DRGot r v))
        end
    | DUnlockNew k =>
        match nth_error fs 0 with
        | None => c
        | Some f0 =>
            let fs' := upd fs 0 (f_setlock f0 false) in
            match nth_error fs' k with
            | None => c
            | Some fk => mk fs' (d_bad c) (enter_direct k fk th)
            end
        end
    end
  end.

Definition dmk (ops : list dop) : dthr := {| d_ops := ops; d_pc := DIdle; d_res := [] |}.
Definition dinit (rootspec : nat) (ops : list (list dop)) : dcfg :=
  {| d_futs := [f_new rootspec]; d_bad := false; d_thr := map dmk ops |}.
Definition drun (cbv : list Z) (rootspec : nat) (ops : list (list dop)) (sched : list nat) : dcfg :=
  fold_left (dstep cbv) sched (dinit rootspec ops).
Definition d_done (th : dthr) : bool := match d_ops th with [] => true | _ => false end.

(* PARSEC_OBJ_RELEASE(root) on the quiescent object: cb_cleanup runs on every nested
   future in list order, then on the root; the result lists the shapes cleaned *)
Definition d_cleanup (fs : list fut) : list nat := map f_spec (tl fs) ++ map f_spec (firstn 1 fs).

(* total number of fulfilment-callback invocations for shape s *)
Definition fulfilments (s : nat) (fs : list fut) : nat :=
  list_sum (map f_ncb (filter (fun f => Nat.eqb (f_spec f) s) fs)).
