(* Small list lemmas used by the future proofs (per-thread lists updated with [upd]). *)
From PV Require Import Base.Tac Base.ListX.
Local Open Scope Z_scope.

Section Lib.
Context {A : Type}.

(* a property of every entry survives the replacement of one entry *)
Lemma nth_upd_inv (P : A -> Prop) l t p q :
  nth_error l t = Some p -> (forall u x, nth_error l u = Some x -> P x) -> P q ->
  forall u x, nth_error (upd l t q) u = Some x -> P x.
Proof.
  intros H Hall Hq u x Hu. destruct (Nat.eq_dec u t) as [->|Hne].
  - rewrite (nth_upd_same _ _ _ _ H) in Hu. inv Hu. exact Hq.
  - rewrite (nth_upd_other _ _ _ _ _ H Hne) in Hu. eauto.
Qed.

(* sum of an integer measure over the entries *)
Definition tot (f : A -> Z) (l : list A) : Z := fold_right (fun x a => f x + a) 0 l.
Lemma tot_nil f : tot f [] = 0. Proof. reflexivity. Qed.
Lemma tot_cons f x l : tot f (x :: l) = f x + tot f l. Proof. reflexivity. Qed.
Lemma tot_app f a b : tot f (a ++ b) = tot f a + tot f b.
Proof. induction a as [|x a IH]; cbn [app]; rewrite ?tot_cons, ?tot_nil; lia. Qed.
Lemma tot_upd f l t p q : nth_error l t = Some p -> tot f (upd l t q) = tot f l - f p + f q.
Proof.
  intros H. unfold upd. rewrite (split_nth l t p H) at 3.
  rewrite !tot_app, !tot_cons. lia.
Qed.
Lemma tot_nonneg f l : (forall x, 0 <= f x) -> 0 <= tot f l.
Proof. intros Hf. induction l as [|x l IH]; [rewrite tot_nil; lia|]. rewrite tot_cons. specialize (Hf x). lia. Qed.
Lemma tot_zero f l : (forall x, In x l -> f x = 0) -> tot f l = 0.
Proof. induction l as [|x l IH]; intros H; [reflexivity|]. rewrite tot_cons, IH, (H x); [lia|left; reflexivity|].
  intros y Hy. apply H. right. exact Hy. Qed.
Lemma tot_ge_nth f l t p : (forall x, 0 <= f x) -> nth_error l t = Some p -> f p <= tot f l.
Proof.
  intros Hf H. rewrite (split_nth l t p H), tot_app, tot_cons.
  pose proof (tot_nonneg f (firstn t l) Hf). pose proof (tot_nonneg f (skipn (S t) l) Hf). lia.
Qed.

Lemma cnt_two_true (f : A -> bool) l t u p q : t <> u ->
  nth_error l t = Some p -> f p = true -> nth_error l u = Some q -> f q = true -> 2 <= cnt f l.
Proof.
  revert t u. induction l as [|x l IH]; intros t u Hne Ht Hp Hu Hq.
  - destruct t; discriminate.
  - rewrite cnt_cons. destruct t as [|t], u as [|u]; try congruence.
    + cbn in Ht. inv Ht. rewrite Hp. cbn in Hu. pose proof (cnt_pos_of_nth f l u q Hu Hq). lia.
    + cbn in Hu. inv Hu. rewrite Hq. cbn in Ht. pose proof (cnt_pos_of_nth f l t p Ht Hp). lia.
    + cbn in Ht, Hu. assert (t <> u) by congruence.
      pose proof (IH t u H Ht Hp Hu Hq). destruct (f x); lia.
Qed.

Lemma cnt_all_false (f : A -> bool) l : (forall x, In x l -> f x = false) -> cnt f l = 0.
Proof. induction l as [|x l IH]; intros H; [reflexivity|]. rewrite cnt_cons, (H x), IH; [lia| |left; reflexivity].
  intros y Hy. apply H. right. exact Hy. Qed.

Lemma nth_error_skipn (l : list A) k j : nth_error (skipn k l) j = nth_error l (k + j).
Proof. revert l. induction k as [|k IH]; intros l; [reflexivity|]. destruct l as [|x l]; [destruct j; reflexivity|]. cbn. apply IH. Qed.

Lemma nth_error_snoc_inv (l : list A) x i y : nth_error (l ++ [x]) i = Some y ->
  nth_error l i = Some y \/ (i = length l /\ y = x).
Proof.
  intros H. destruct (Nat.lt_ge_cases i (length l)) as [Hlt|Hge].
  - rewrite nth_error_app1 in H by exact Hlt. left. exact H.
  - rewrite nth_error_app2 in H by exact Hge. destruct (i - length l)%nat as [|k] eqn:E.
    + cbn in H. inv H. right. split; [lia|reflexivity].
    + cbn in H. destruct k; discriminate.
Qed.
Lemma nth_error_snoc_old (l : list A) x i y : nth_error l i = Some y -> nth_error (l ++ [x]) i = Some y.
Proof. intros H. rewrite nth_error_app1; [exact H|]. apply nth_error_Some. congruence. Qed.
End Lib.
