From PV Require Import Base.Tac PTGCheck.PTGCheckDefs.

Lemma sum_deps_le (w1 w2 : dep -> nat) dir ds : (forall d, w1 d <= w2 d) ->
  sum_deps w1 dir ds <= sum_deps w2 dir ds.
Proof. intros H. induction ds as [|d ds IH]; cbn [sum_deps fold_right]; [lia|].
  fold (sum_deps w1 dir ds) (sum_deps w2 dir ds). pose proof (H d). destruct (Bool.eqb (dp_in d) dir); lia. Qed.

Lemma flow_ok_within f : flow_ok true f = true -> flow_within f.
Proof. unfold flow_ok, flow_within, counted. intros H. apply andb_true_iff in H. destruct H as [H1 H2].
  apply Nat.leb_le in H1. apply Nat.leb_le in H2. auto. Qed.

(* the high-water mark of jdf_assign_ldef_index is the number of slots the generated code needs *)
Lemma fold_max_deps base ds m :
  fold_left (fun m d => Nat.max m (dep_high base d)) ds m = Nat.max m (list_max (map (dep_high base) ds)).
Proof. revert m. induction ds as [|d ds IH]; intros m; cbn [fold_left map list_max fold_right]; [lia|].
  rewrite IH. fold (list_max (map (dep_high base) ds)). lia. Qed.

Lemma fold_max_flows base fls m :
  fold_left (fun m fl => fold_left (fun m d => Nat.max m (dep_high base d)) (fl_deps fl) m) fls m
  = Nat.max m (list_max (map (dep_high base) (flat_map fl_deps fls))).
Proof. revert m. induction fls as [|fl fls IH]; intros m; cbn [fold_left flat_map]; [cbn; lia|].
  rewrite IH, fold_max_deps, map_app, list_max_app. lia. Qed.

Theorem ldef_counted_is_needed f : ldef_counted f = ldef_needed f.
Proof. unfold ldef_counted, ldef_needed, all_deps. rewrite fold_max_flows. cbn [list_max fold_right]. reflexivity. Qed.

Lemma func_ok_within f : func_ok true f = true -> func_within f.
Proof.
  unfold func_ok, func_within. intros H.
  apply andb_true_iff in H. destruct H as [H Hloc].
  apply andb_true_iff in H. destruct H as [H Hlen].
  apply andb_true_iff in H. destruct H as [H Hw].
  apply andb_true_iff in H. destruct H as [H Hr].
  apply andb_true_iff in H. destruct H as [H Hfl].
  apply andb_true_iff in H. destruct H as [Hci Hco].
  apply Nat.ltb_lt in Hci. apply Nat.ltb_lt in Hco.
  rewrite forallb_forall in Hfl. split; [|split; [|split; [|split]]].
  - intros x Hin. apply flow_ok_within. auto.
  - lia.
  - lia.
  - apply Nat.leb_le. assumption.
  - rewrite <- ldef_counted_is_needed. apply Nat.leb_le. assumption.
Qed.

(* accepted programs respect every runtime limit (repaired counting) *)
Theorem accept_sound p : accept true p = true -> within_limits p.
Proof.
  unfold accept, within_limits. destruct (pg_mal p); try discriminate.
  intros H f Hin. rewrite forallb_forall in H. apply func_ok_within. auto.
Qed.

Lemma within_limitsb_spec p : within_limitsb p = true <-> within_limits p.
Proof.
  unfold within_limitsb, within_limits. rewrite forallb_forall. split.
  - intros H f Hin. specialize (H f Hin).
    apply andb_true_iff in H. destruct H as [H Hloc].
    apply andb_true_iff in H. destruct H as [H Hlen].
    apply andb_true_iff in H. destruct H as [H Hco].
    apply andb_true_iff in H. destruct H as [H Hci].
    rewrite forallb_forall in H. split; [|split; [|split; [|split]]].
    + intros x Hx. specialize (H x Hx). unfold flow_withinb in H. apply andb_true_iff in H.
      destruct H as [H1 H2]. apply Nat.leb_le in H1. apply Nat.leb_le in H2. split; assumption.
    + apply Nat.leb_le; assumption.
    + apply Nat.leb_le; assumption.
    + apply Nat.leb_le; assumption.
    + apply Nat.leb_le; assumption.
  - intros H f Hin. destruct (H f Hin) as (Hf & Hci & Hco & Hl & Hc).
    repeat (apply andb_true_iff; split); try (apply Nat.leb_le; assumption).
    apply forallb_forall. intros x Hx. destruct (Hf x Hx) as [H1 H2]. unfold flow_withinb.
    apply andb_true_iff. split; apply Nat.leb_le; assumption.
Qed.

(* a program exceeding a runtime limit is rejected *)
Theorem overlimit_rejected p : ~ within_limits p -> accept true p = false.
Proof. intros H. destruct (accept true p) eqn:E; [|reflexivity]. exfalso. apply H, accept_sound, E. Qed.

(* malformed input is rejected whatever the counting *)
Theorem malformed_rejected fixed p : pg_mal p <> WellFormed -> accept fixed p = false.
Proof. unfold accept. destruct (pg_mal p); congruence. Qed.

(* the decision does not look at anything but the program (determinism of the modelled decision) *)
Theorem accept_deterministic fixed p q : p = q -> accept fixed p = accept fixed q.
Proof. intros ->. reflexivity. Qed.

(* the counting of the unrepaired compiler (one per dependency whatever its guard) accepts a
   program that overflows dep_in: one flow with six ternary input dependencies emits 12 entries *)
Definition tern6 : program :=
  {| pg_mal := WellFormed;
     pg_funcs := [ {| fn_locals := 1; fn_pdefs := 0;
                      fn_flows := [ {| fl_access := AccRead;
                                       fl_deps := repeat {| dp_in := true; dp_guard := GTernary; dp_ldefs := 0; dp_ct := 0; dp_cf := 0 |} 6 |} ] |} ] |}.
Theorem prefix_counting_refuted : exists p, accept false p = true /\ ~ within_limits p.
Proof.
  exists tern6. split; [vm_compute; reflexivity|].
  intros H. apply within_limitsb_spec in H. vm_compute in H. discriminate.
Qed.

(* the two countings agree on programs without ternary guards *)
Lemma counted_no_ternary d : dp_guard d <> GTernary -> counted false d = counted true d.
Proof. unfold counted, emitted. destruct (dp_guard d); congruence. Qed.

(* the counting of jdf_assign_ldef_index before its repair: for a ternary guard the count taken after
   the true branch was overwritten by the false branch's, so a dependency whose TRUE branch introduces
   more local definitions than its false branch was under-counted *)
Definition dep_high_old (base : nat) (d : dep) : nat :=
  base + dp_ldefs d + (match dp_guard d with GTernary => dp_cf d | _ => dp_ct d end).
Definition ldef_counted_old (f : func) : nat :=
  fold_left (fun m fl => fold_left (fun m d => Nat.max m (dep_high_old (fn_pdefs f) d)) (fl_deps fl) m)
            (fn_flows f) (fn_pdefs f).
Theorem ternary_ldef_counting_refuted : exists f, ldef_counted_old f < ldef_needed f.
Proof.
  exists {| fn_locals := 1; fn_pdefs := 0;
            fn_flows := [ {| fl_access := AccRead;
                             fl_deps := [ {| dp_in := false; dp_guard := GTernary; dp_ldefs := 0; dp_ct := 1; dp_cf := 0 |} ] |} ] |}.
  vm_compute. lia.
Qed.
