(* Model of the limit decisions of parsec-ptgpp (C24): what the compiler counts when it
   decides to reject a program (jdf.c: jdf_sanity_check_flows_and_deps_number, the
   "#if MAX_… < n / #error" guards that jdf2c.c writes into the generated C and that make
   the compile step of ptgpp fail, and the jdf_fatal on locals in jdf2c.c), versus what the
   code generator emits into the fixed-size arrays of the runtime structures
   (parsec_flow_t.dep_in/dep_out, parsec_task_class_t.in/out/locals). *)
From Coq Require Import List Arith Bool.
Import ListNotations.

Definition MAX_LOCAL_COUNT := 20.
Definition MAX_PARAM_COUNT := 20.
Definition MAX_DEP_IN_COUNT := 10.
Definition MAX_DEP_OUT_COUNT := 10.

Inductive guard := GUncond | GBinary | GTernary.
(* dp_in = true: "<-", false: "->".  Local definitions ("[ i = a .. b ]") introduced by the dependency:
   dp_ldefs at the dependency level, dp_ct / dp_cf in front of the call of the true / false branch
   (dp_cf = 0 unless the guard is ternary). *)
Record dep := { dp_in : bool; dp_guard : guard; dp_ldefs : nat; dp_ct : nat; dp_cf : nat }.
Inductive access := AccRead | AccWrite | AccRW | AccCtl.
Record flow := { fl_access : access; fl_deps : list dep }.
Record func := { fn_locals : nat;        (* parameters + local definitions of the task class *)
                 fn_pdefs : nat;         (* local-definition slots used by the definitions of those locals *)
                 fn_flows : list flow }.

(* local-definition slots (the ldef[] array of the task's assignment structure).
   The slots of the named locals come first; every dependency re-uses the slots after them: its own
   definitions, then those of the call it makes (either branch of a ternary).  [dep_high] is one past
   the highest slot the code generated for dependency d indexes. *)
Definition dep_high (base : nat) (d : dep) : nat := base + dp_ldefs d + Nat.max (dp_ct d) (dp_cf d).
(* what the generated code needs: the maximum over ALL dependencies of ALL flows *)
Definition all_deps (f : func) : list dep := flat_map fl_deps (fn_flows f).
Definition ldef_needed (f : func) : nat := list_max (fn_pdefs f :: map (dep_high (fn_pdefs f)) (all_deps f)).
(* what jdf_assign_ldef_index computes into nb_max_local_def: a high-water mark updated after every
   dependency, flow by flow (jdf2c.c declares ldef[nb_max_local_def] and tests the locals limit with it) *)
Definition ldef_counted (f : func) : nat :=
  fold_left (fun m fl => fold_left (fun m d => Nat.max m (dep_high (fn_pdefs f) d)) (fl_deps fl) m)
            (fn_flows f) (fn_pdefs f).
Inductive malformed := WellFormed | SyntaxError | UnboundVariable.
Record program := { pg_mal : malformed; pg_funcs : list func }.

(* runtime entries generated for one dependency: jdf_generate_dataflow emits two parsec_dep_t
   (…_iftrue, …_iffalse) for a ternary guard, one otherwise *)
Definition emitted (d : dep) : nat := match dp_guard d with GTernary => 2 | _ => 1 end.
(* what the compiler counts for the limit: one per dependency before the repair, the emitted
   number after it ([fixed] = true mirrors the repaired tree) *)
Definition counted (fixed : bool) (d : dep) : nat := if fixed then emitted d else 1.

Definition sum_deps (w : dep -> nat) (dir : bool) (ds : list dep) : nat :=
  fold_right (fun d acc => (if Bool.eqb (dp_in d) dir then w d else 0) + acc) 0 ds.

Definition reads (f : flow) : bool := match fl_access f with AccRead | AccRW => true | _ => false end.
Definition writes (f : flow) : bool := match fl_access f with AccWrite | AccRW => true | _ => false end.
Definition count_flows (p : flow -> bool) (fs : list flow) : nat := length (filter p fs).

(* one flow passes the dependency limits as the compiler counts them *)
Definition flow_ok (fixed : bool) (f : flow) : bool :=
  (sum_deps (counted fixed) true (fl_deps f) <=? MAX_DEP_IN_COUNT) &&
  (sum_deps (counted fixed) false (fl_deps f) <=? MAX_DEP_OUT_COUNT).

(* class-level limit: every dependency of a task class gets an index (inputs and outputs numbered
   separately, one index per dependency whatever its guard) that must fit the runtime bit masks:
   29 bits for inputs (the dependency word minus its flag bits), 24 bits for outputs (the action
   mask).  jdf_flatten_function rejects a class as soon as the running count reaches the width
   ("(1U << n) > mask"), i.e. it accepts at most 28 inputs and 23 outputs: one less than fits. *)
Definition MASK_IN_BITS := 29.
Definition MASK_OUT_BITS := 24.
Definition class_count (dir : bool) (f : func) : nat :=
  fold_right (fun fl acc => sum_deps (fun _ => 1) dir (fl_deps fl) + acc) 0 (fn_flows f).

Definition func_ok (fixed : bool) (f : func) : bool :=
  (class_count true f <? MASK_IN_BITS) && (class_count false f <? MASK_OUT_BITS) &&
  forallb (flow_ok fixed) (fn_flows f) &&
  (count_flows reads (fn_flows f) <=? MAX_PARAM_COUNT) &&
  (count_flows writes (fn_flows f) <=? MAX_PARAM_COUNT) &&
  (length (fn_flows f) <=? MAX_PARAM_COUNT) &&          (* "#if MAX_PARAM_COUNT < nb_flows" *)
  (fn_locals f + ldef_counted f <=? MAX_LOCAL_COUNT).    (* jdf_fatal / "#if MAX_LOCAL_COUNT < nb_locals" *)

(* ptgpp (default mode: generate, then compile) exits with status 0 *)
Definition accept (fixed : bool) (p : program) : bool :=
  match pg_mal p with
  | WellFormed => forallb (func_ok fixed) (pg_funcs p)
  | _ => false
  end.

(* the runtime limits: what is written into the fixed-size arrays fits *)
Definition flow_within (f : flow) : Prop :=
  sum_deps emitted true (fl_deps f) <= MAX_DEP_IN_COUNT /\
  sum_deps emitted false (fl_deps f) <= MAX_DEP_OUT_COUNT.
Definition func_within (f : func) : Prop :=
  (forall fl, In fl (fn_flows f) -> flow_within fl) /\
  class_count true f <= MASK_IN_BITS /\ class_count false f <= MASK_OUT_BITS /\   (* dependency indices fit the masks *)
  length (fn_flows f) <= MAX_PARAM_COUNT /\               (* .in[] / .out[] / .data[] hold at most all flows *)
  fn_locals f + ldef_needed f <= MAX_LOCAL_COUNT.         (* named locals + every ldef[] slot the code indexes *)
Definition within_limits (p : program) : Prop := forall f, In f (pg_funcs p) -> func_within f.

(* boolean version, used by the driver *)
Definition flow_withinb (f : flow) : bool :=
  (sum_deps emitted true (fl_deps f) <=? MAX_DEP_IN_COUNT) && (sum_deps emitted false (fl_deps f) <=? MAX_DEP_OUT_COUNT).
Definition within_limitsb (p : program) : bool :=
  forallb (fun f => forallb flow_withinb (fn_flows f) && (class_count true f <=? MASK_IN_BITS)
                    && (class_count false f <=? MASK_OUT_BITS) && (length (fn_flows f) <=? MAX_PARAM_COUNT)
                    && (fn_locals f + ldef_needed f <=? MAX_LOCAL_COUNT)) (pg_funcs p).
