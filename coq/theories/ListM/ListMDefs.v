(* Executable model of PaRSEC's doubly linked list, dequeue/fifo wrappers and item
   rings (parsec/class/list.h, list_item.h, dequeue.h, fifo.h).

   A list is the Gallina list of its items from _HEAD to _TAIL (the ghost element
   is not represented); a ring is the Gallina list of its items starting at the
   item the ring pointer designates (NULL = []).  An item is (id, priority): the
   priority is the int read by COMPARISON_VAL(item, off).

   The build defines HIGHER_IS_BETTER (parsec_config_bottom.h), hence
     A_HIGHER_PRIORITY_THAN_B(a,b) = prio a > prio b
     A_LOWER_PRIORITY_THAN_B(a,b)  = prio a < prio b        (both strict).
   No proofs in this file. *)
From Coq Require Import ZArith List Bool.
Import ListNotations.
Local Open Scope Z_scope.

Definition item := (Z * Z)%type.
Definition iid (x : item) : Z := fst x.
Definition prio (x : item) : Z := snd x.
Definition higher (a b : item) : bool := prio b <? prio a.   (* A_HIGHER_PRIORITY_THAN_B(a, b) *)
Definition lower (a b : item) : bool := prio a <? prio b.    (* A_LOWER_PRIORITY_THAN_B(a, b) *)

(* ---- dequeue emulation (list.h: parsec_list_nolock_push_front ... unchain) ---- *)
Definition push_front (l : list item) (x : item) : list item := x :: l.
Definition push_back (l : list item) (x : item) : list item := l ++ [x].
(* pop on an empty list: item = ghost, the ghost is relinked to itself, NULL is returned *)
Definition pop_front (l : list item) : option item * list item :=
  match l with [] => (None, []) | x :: t => (Some x, t) end.
Definition pop_back (l : list item) : option item * list item :=
  match l with [] => (None, []) | x :: _ => (Some (last l x), removelast l) end.
(* items is a ring: its elements in ring order from the designated item *)
Definition chain_front (l items : list item) : list item := items ++ l.
Definition chain_back (l items : list item) : list item := l ++ items.
(* unchain: (ring returned, list left) *)
Definition unchain (l : list item) : list item * list item := (l, []).

(* ---- parsec_list_nolock_add_before / add_after / remove, position given by index
        (index >= length designates the ghost element) ---- *)
Definition add_before (k : nat) (l : list item) (x : item) : list item :=
  firstn k l ++ x :: skipn k l.
Definition add_after (k : nat) (l : list item) (x : item) : list item :=
  if (k <? length l)%nat then firstn (S k) l ++ x :: skipn (S k) l else x :: l.
(* remove returns the predecessor of the removed item (None = the ghost) *)
Definition remove_at (k : nat) (l : list item) : option (item * option item) * list item :=
  match nth_error l k with
  | None => (None, l)
  | Some x => (Some (x, match k with O => None | S j => nth_error l j end),
               firstn k l ++ skipn (S k) l)
  end.
Definition contains (l : list item) (id : Z) : bool := existsb (fun e => iid e =? id) l.
Definition is_empty (l : list item) : bool := match l with [] => true | _ => false end.

(* ---- parsec_list_nolock_push_sorted ---- *)
(* forward scan (PARSEC_LIST_NOLOCK_ITERATOR): stop at the first pos with newel > pos,
   add_before(pos); reaching the ghost adds at the back *)
Fixpoint ins_fwd (l : list item) (x : item) : list item :=
  match l with
  | [] => [x]
  | e :: t => if higher x e then x :: l else e :: ins_fwd t x
  end.
(* backward scan (REV_ITERATOR), on the list read from the tail: stop at the first pos
   with !(newel > pos), add_after(pos); reaching the ghost adds at the front *)
Fixpoint ins_rev (r : list item) (x : item) : list item :=
  match r with
  | [] => [x]
  | e :: t => if higher x e then e :: ins_rev t x else x :: r
  end.
Definition ins_bwd (l : list item) (x : item) : list item := rev (ins_rev (rev l) x).
(* int pivot = (head_val/2) + (tail_val/2) + (((head_val%2) + (tail_val%2))) == 2 ? 1 : 0;
   '==' binds tighter than '?:' and '+' tighter than '==': the pivot is 1 when the sum
   equals 2 and 0 otherwise.  C division truncates towards zero: Z.quot / Z.rem. *)
Definition pivot (h t : Z) : Z :=
  if (Z.quot h 2 + Z.quot t 2 + (Z.rem h 2 + Z.rem t 2)) =? 2 then 1 else 0.
Definition push_sorted (l : list item) (x : item) : list item :=
  match l with
  | [] => [x]                                   (* push_front on the empty list *)
  | h :: _ => if pivot (prio h) (prio (last l h)) <? prio x   (* comp_val > pivot *)
              then ins_fwd l x else ins_bwd l x
  end.

(* ---- parsec_list_nolock_chain_sorted ---- *)
(* the inner for loop: skip from pos while !(newel > pos) *)
Fixpoint skip_ge (x : item) (suf : list item) : list item * list item :=
  match suf with
  | [] => ([], [])
  | e :: t => if higher x e then ([], suf)
              else let (a, b) := skip_ge x t in (e :: a, b)
  end.
(* the list is pre ++ p :: post, p being the item the C variable pos designates
   (the last inserted item, initially the tail) *)
Fixpoint chain_go (pre : list item) (p : item) (post items : list item) : list item :=
  match items with
  | [] => pre ++ p :: post
  | x :: items' =>
      let (pre1, suf1) := if higher x p then ([], pre ++ p :: post)   (* restart from _HEAD *)
                          else (pre, p :: post) in
      let (sk, rest) := skip_ge x suf1 in
      chain_go (pre1 ++ sk) x rest items'
  end.
Definition chain_sorted (l items : list item) : list item :=
  match items with
  | [] => l                                           (* NULL == items *)
  | x :: items' =>
      match l with
      | [] => chain_go [] x [] items'                 (* first item goes into the empty list *)
      | h :: _ => chain_go (removelast l) (last l h) [] items
      end
  end.

(* ---- parsec_list_nolock_sort = parsec_list_nolock_chain_sort_mergesort ---- *)
(* take p when A_LOWER_PRIORITY_THAN_B(p, q), else q (also on ties) *)
Fixpoint merge (p q : list item) : list item :=
  match p with
  | [] => q
  | a :: p' =>
      (fix mq (q : list item) : list item :=
         match q with
         | [] => p
         | b :: q' => if lower a b then a :: merge p' q else b :: mq q'
         end) q
  end.
(* one pass of the outer while(1): merges runs of k items pairwise; returns the new
   sequence and nmerges.  fuel >= length l *)
Fixpoint pass (fuel k : nat) (l : list item) : list item * nat :=
  match fuel with
  | O => (l, O)
  | S f =>
      match l with
      | [] => ([], O)
      | _ :: _ =>
          let r := skipn k l in
          let (m, n) := pass f k (skipn k r) in
          (merge (firstn k l) (firstn k r) ++ m, S n)
      end
  end.
Fixpoint msort_loop (fuel k : nat) (l : list item) : list item :=
  match fuel with
  | O => l
  | S f => let (l', n) := pass (length l) k l in
           if (n <=? 1)%nat then l' else msort_loop f (k + k) l'    (* insize *= 2 *)
  end.
Definition sort (l : list item) : list item :=
  match l with
  | [] => []                      (* parsec_list_nolock_sort returns on an empty list *)
  | _ :: _ => msort_loop (length l) 1 l
  end.

(* ---- rings (list_item.h) ---- *)
Definition ring_push (r : list item) (x : item) : list item := r ++ [x]. (* before ring = last *)
Definition ring_merge (r1 r2 : list item) : list item := r1 ++ r2.
Definition ring_chop (r : list item) : option item * list item :=
  match r with [] => (None, []) | x :: t => (Some x, t) end.
(* parsec_list_item_ring_push_sorted: before the first pos with !(item < pos); when
   there is none the item goes before ring, i.e. last, and ring stays the head *)
Fixpoint rins (l : list item) (x : item) : list item :=
  match l with
  | [] => [x]
  | e :: t => if lower x e then e :: rins t x else x :: l
  end.

(* ---- a small world: two lists and one free ring; operation sequences ---- *)
Record state := mk { l0 : list item; l1 : list item; ring : list item }.
Definition init : state := mk [] [] [].
Definition getl (s : state) (L : bool) : list item := if L then l1 s else l0 s.
Definition setl (s : state) (L : bool) (v : list item) : state :=
  if L then mk (l0 s) v (ring s) else mk v (l1 s) (ring s).
Definition setr (s : state) (r : list item) : state := mk (l0 s) (l1 s) r.

Inductive op :=
| PushFront (L : bool) (x : item) | PushBack (L : bool) (x : item)
| PopFront (L : bool) | PopBack (L : bool)
| ChainFront (L : bool) (xs : list item) | ChainBack (L : bool) (xs : list item)
| PushSorted (L : bool) (x : item) | ChainSorted (L : bool) (xs : list item) | Sort (L : bool)
| Remove (L : bool) (k : nat) | AddBefore (L : bool) (k : nat) (x : item) | AddAfter (L : bool) (k : nat) (x : item)
| IsEmpty (L : bool) | Contains (L : bool) (id : Z)
| Unchain (L : bool)                      (* ring := ring_merge(ring, unchain(L)) *)
| RingPush (x : item) | RingPushSorted (x : item) | RingChop | RingMerge (xs : list item)
| ChainRingFront (L : bool) | ChainRingBack (L : bool) | ChainRingSorted (L : bool).

Inductive ret :=
| RNone | RItem (x : item) | RRemoved (x : item) (prev : option item) | RBool (b : bool).

Definition of_opt (o : option item) : ret := match o with None => RNone | Some x => RItem x end.

Definition step (s : state) (o : op) : state * ret :=
  match o with
  | PushFront L x => (setl s L (push_front (getl s L) x), RNone)
  | PushBack L x => (setl s L (push_back (getl s L) x), RNone)
  | PopFront L => let (r, l') := pop_front (getl s L) in (setl s L l', of_opt r)
  | PopBack L => let (r, l') := pop_back (getl s L) in (setl s L l', of_opt r)
  | ChainFront L xs => (setl s L (chain_front (getl s L) xs), RNone)
  | ChainBack L xs => (setl s L (chain_back (getl s L) xs), RNone)
  | PushSorted L x => (setl s L (push_sorted (getl s L) x), RNone)
  | ChainSorted L xs => (setl s L (chain_sorted (getl s L) xs), RNone)
  | Sort L => (setl s L (sort (getl s L)), RNone)
  | Remove L k => let (r, l') := remove_at k (getl s L) in
                  (setl s L l', match r with None => RNone | Some (x, p) => RRemoved x p end)
  | AddBefore L k x => (setl s L (add_before k (getl s L) x), RNone)
  | AddAfter L k x => (setl s L (add_after k (getl s L) x), RNone)
  | IsEmpty L => (s, RBool (is_empty (getl s L)))
  | Contains L id => (s, RBool (contains (getl s L) id))
  | Unchain L => let (r, l') := unchain (getl s L) in
                 (setr (setl s L l') (ring_merge (ring s) r), RNone)
  | RingPush x => (setr s (ring_push (ring s) x), RNone)
  | RingPushSorted x => (setr s (rins (ring s) x), RNone)
  | RingChop => let (r, t) := ring_chop (ring s) in (setr s t, of_opt r)
  | RingMerge xs => (setr s (ring_merge (ring s) xs), RNone)
  | ChainRingFront L => (setr (setl s L (chain_front (getl s L) (ring s))) [], RNone)
  | ChainRingBack L => (setr (setl s L (chain_back (getl s L) (ring s))) [], RNone)
  | ChainRingSorted L => (setr (setl s L (chain_sorted (getl s L) (ring s))) [], RNone)
  end.

Fixpoint run (s : state) (ops : list op) : state * list ret :=
  match ops with
  | [] => (s, [])
  | o :: ops' => let (s1, r) := step s o in
                 let (s2, rs) := run s1 ops' in (s2, r :: rs)
  end.

(* items entering the world with an operation / leaving it with its result *)
Definition op_in (o : op) : list item :=
  match o with
  | PushFront _ x | PushBack _ x | PushSorted _ x | AddBefore _ _ x | AddAfter _ _ x
  | RingPush x | RingPushSorted x => [x]
  | ChainFront _ xs | ChainBack _ xs | ChainSorted _ xs | RingMerge xs => xs
  | _ => []
  end.
Definition ret_out (r : ret) : list item :=
  match r with RItem x => [x] | RRemoved x _ => [x] | _ => [] end.
Definition contents (s : state) : list item := l0 s ++ l1 s ++ ring s.

(* orderings *)
Fixpoint desc (l : list item) : Prop :=      (* non-increasing priority *)
  match l with [] => True | a :: t => Forall (fun e => prio e <= prio a) t /\ desc t end.
Fixpoint asc (l : list item) : Prop :=       (* non-decreasing priority *)
  match l with [] => True | a :: t => Forall (fun e => prio a <= prio e) t /\ asc t end.
(* the items of priority v, in list order *)
Definition withp (v : Z) (l : list item) : list item := filter (fun e => prio e =? v) l.

(* operations after which a non-increasing list is still non-increasing *)
Definition keeps_sorted (o : op) : bool :=
  match o with
  | PushFront _ _ | PushBack _ _ | ChainFront _ _ | ChainBack _ _ | Sort _
  | AddBefore _ _ _ | AddAfter _ _ _ | ChainRingFront _ | ChainRingBack _ => false
  | _ => true
  end.
(* operations after which a non-increasing free ring is still non-increasing *)
Definition keeps_ring_sorted (o : op) : bool :=
  match o with
  | RingPush _ | RingMerge _ | Unchain _ => false
  | _ => true
  end.
