(* Proofs about the list / dequeue / ring model (ListMDefs.v). *)
From PV Require Import Base.Tac ListM.ListMDefs.
From Coq Require Import Permutation.
Local Open Scope Z_scope.

Local Ltac cmp := unfold higher, lower in *.

(* ------------------------------------------------------------------ orderings *)
Lemma desc_app a b : desc (a ++ b) <->
  desc a /\ desc b /\ Forall (fun x => Forall (fun y => prio y <= prio x) b) a.
Proof.
  induction a as [|x a IH]; cbn [app desc].
  - split; [intros H; repeat split; auto | tauto].
  - rewrite IH, Forall_app. split.
    + intros [[Ha Hb] [Hda [Hdb Hab]]]. repeat split; auto.
    + intros [[Ha Hda] [Hdb Hab]]. inv Hab. repeat split; auto.
Qed.

Lemma asc_app a b : asc (a ++ b) <->
  asc a /\ asc b /\ Forall (fun x => Forall (fun y => prio x <= prio y) b) a.
Proof.
  induction a as [|x a IH]; cbn [app asc].
  - split; [intros H; repeat split; auto | tauto].
  - rewrite IH, Forall_app. split.
    + intros [[Ha Hb] [Hda [Hdb Hab]]]. repeat split; auto.
    + intros [[Ha Hda] [Hdb Hab]]. inv Hab. repeat split; auto.
Qed.

Lemma desc_rev l : desc (rev l) <-> asc l.
Proof.
  induction l as [|x l IH]; cbn [rev desc asc]; [tauto|].
  rewrite desc_app, IH. cbn [desc]. split.
  - intros [Hl [_ Hf]]. split; auto.
    rewrite Forall_forall in *. intros y Hy. specialize (Hf y (proj1 (in_rev l y) Hy)). inv Hf. auto.
  - intros [Hf Hl]. repeat split; auto.
    rewrite Forall_forall in *. intros y Hy. constructor; auto. apply Hf, in_rev, Hy.
Qed.

Lemma asc_rev l : asc (rev l) <-> desc l.
Proof. rewrite <- (rev_involutive l) at 2. symmetry. apply desc_rev. Qed.

(* inserting x between a part >= x and a part <= x *)
Lemma desc_insert l1 l2 x : desc (l1 ++ l2) ->
  Forall (fun e => prio x <= prio e) l1 -> Forall (fun e => prio e <= prio x) l2 ->
  desc (l1 ++ x :: l2).
Proof.
  rewrite !desc_app. intros [H1 [H2 H12]] Hge Hle. cbn [desc]. repeat split; auto.
  rewrite Forall_forall in *. intros y Hy. constructor; auto.
Qed.

(* ------------------------------------------------------------------ deque *)
Lemma pop_front_push_front l x : pop_front (push_front l x) = (Some x, l).
Proof. reflexivity. Qed.

Lemma pop_back_push_back l x : pop_back (push_back l x) = (Some x, l).
Proof.
  unfold pop_back, push_back. destruct (l ++ [x]) eqn:E.
  - destruct l; discriminate.
  - rewrite <- E, last_last, removelast_last. reflexivity.
Qed.

Lemma pop_front_push_back l x : l <> [] ->
  pop_front (push_back l x) = (fst (pop_front l), push_back (snd (pop_front l)) x).
Proof. destruct l; [congruence | reflexivity]. Qed.

Lemma last_default (l : list item) a b : l <> [] -> last l a = last l b.
Proof. induction l as [|y [|z l] IH]; intros H; [congruence | reflexivity |]. apply IH. discriminate. Qed.

Lemma pop_back_push_front l x : l <> [] ->
  pop_back (push_front l x) = (fst (pop_back l), push_front (snd (pop_back l)) x).
Proof.
  destruct l as [|y l]; [congruence|]. intros _. unfold pop_back, push_front.
  cbn [fst snd]. f_equal. f_equal. change (last (x :: y :: l) x) with (last (y :: l) x).
  apply last_default. discriminate.
Qed.

Lemma pop_back_spec l : l <> [] ->
  exists x l', pop_back l = (Some x, l') /\ l = l' ++ [x].
Proof.
  destruct l as [|y l]; [congruence|]. intros _. unfold pop_back.
  exists (last (y :: l) y), (removelast (y :: l)). split; auto.
  apply app_removelast_last. discriminate.
Qed.

(* draining from the front returns the items in list order *)
Fixpoint drain_front (n : nat) (l : list item) : list item :=
  match n with
  | O => []
  | S m => match pop_front l with (Some x, l') => x :: drain_front m l' | (None, _) => [] end
  end.
Lemma drain_front_all l : drain_front (length l) l = l.
Proof. induction l as [|x l IH]; cbn; congruence. Qed.

Lemma fifo_order l xs :
  drain_front (length (fold_left push_back xs l)) (fold_left push_back xs l) = l ++ xs.
Proof.
  rewrite drain_front_all. revert l. induction xs as [|x xs IH]; intros l; cbn [fold_left].
  - now rewrite app_nil_r.
  - rewrite IH. unfold push_back. now rewrite <- app_assoc.
Qed.

Lemma chain_back_is_pushes l xs : chain_back l xs = fold_left push_back xs l.
Proof.
  revert l. induction xs as [|x xs IH]; intros l; cbn [fold_left]; unfold chain_back in *.
  - apply app_nil_r.
  - rewrite <- IH. unfold push_back. now rewrite <- app_assoc.
Qed.

Lemma chain_front_is_pushes l xs : chain_front l xs = fold_right (fun x l => push_front l x) l xs.
Proof. induction xs as [|x xs IH]; cbn; unfold chain_front, push_front in *; congruence. Qed.

(* ------------------------------------------------------------------ push_sorted *)
Lemma ins_fwd_skip l x : ins_fwd l x = fst (skip_ge x l) ++ x :: snd (skip_ge x l).
Proof.
  induction l as [|e l IH]; cbn [ins_fwd skip_ge]; auto.
  destruct (higher x e); auto. destruct (skip_ge x l). cbn [fst snd app] in *. now rewrite IH.
Qed.

Lemma skip_ge_app x l : l = fst (skip_ge x l) ++ snd (skip_ge x l).
Proof.
  induction l as [|e l IH]; cbn [skip_ge]; auto.
  destruct (higher x e); auto. destruct (skip_ge x l). cbn [fst snd app] in *. now rewrite <- IH.
Qed.

Lemma skip_ge_fst x l : Forall (fun e => prio x <= prio e) (fst (skip_ge x l)).
Proof.
  induction l as [|e l IH]; cbn [skip_ge]; [cbn; auto|].
  destruct (higher x e) eqn:E; [cbn; auto|]. destruct (skip_ge x l). cbn [fst] in *.
  constructor; auto. cmp. lia.
Qed.

Lemma skip_ge_snd x l : match snd (skip_ge x l) with [] => True | e :: _ => prio e < prio x end.
Proof.
  induction l as [|e l IH]; cbn [skip_ge]; [cbn; auto|].
  destruct (higher x e) eqn:E; cbn [snd]; [cmp; lia|]. now destruct (skip_ge x l).
Qed.

Lemma desc_head_lt l e x : desc (e :: l) -> prio e < prio x -> Forall (fun y => prio y < prio x) (e :: l).
Proof.
  cbn [desc]. intros [Hf _] Hlt. constructor; auto.
  rewrite Forall_forall in *. intros y Hy. specialize (Hf y Hy). cbn beta in Hf. lia.
Qed.

(* the forward scan splits the list in two and puts x in between; on a sorted
   list the first part is >= x and the second < x *)
Lemma ins_fwd_spec l x : exists l1 l2, l = l1 ++ l2 /\ ins_fwd l x = l1 ++ x :: l2 /\
  Forall (fun e => prio x <= prio e) l1 /\ (desc l -> Forall (fun e => prio e < prio x) l2).
Proof.
  exists (fst (skip_ge x l)), (snd (skip_ge x l)).
  split; [apply skip_ge_app|]. split; [apply ins_fwd_skip|]. split; [apply skip_ge_fst|].
  intros Hd. rewrite (skip_ge_app x l), desc_app in Hd. destruct Hd as [_ [Hd _]].
  pose proof (skip_ge_snd x l) as Hs. destruct (snd (skip_ge x l)); auto.
  now apply desc_head_lt.
Qed.

Lemma ins_fwd_app_ge l1 l2 x : Forall (fun e => prio x <= prio e) l1 ->
  ins_fwd (l1 ++ l2) x = l1 ++ ins_fwd l2 x.
Proof.
  induction l1 as [|e l1 IH]; intros H; cbn [app ins_fwd]; auto. inv H.
  destruct (higher x e) eqn:E; [cmp; lia|]. now rewrite IH.
Qed.

Lemma ins_fwd_all_lt l x : Forall (fun e => prio e < prio x) l -> ins_fwd l x = x :: l.
Proof. destruct l as [|e l]; intros H; cbn [ins_fwd]; auto. inv H. destruct (higher x e) eqn:E; auto. cmp. lia. Qed.

Lemma ins_fwd_place l1 l2 x : Forall (fun e => prio x <= prio e) l1 -> Forall (fun e => prio e < prio x) l2 ->
  ins_fwd (l1 ++ l2) x = l1 ++ x :: l2.
Proof. intros H1 H2. now rewrite ins_fwd_app_ge, ins_fwd_all_lt. Qed.

Lemma ins_rev_spec r x : exists r1 r2, r = r1 ++ r2 /\ ins_rev r x = r1 ++ x :: r2 /\
  Forall (fun e => prio e < prio x) r1 /\ match r2 with [] => True | e :: _ => prio x <= prio e end.
Proof.
  induction r as [|e r IH]; cbn [ins_rev].
  - exists [], []. repeat split; auto.
  - destruct (higher x e) eqn:E.
    + destruct IH as [r1 [r2 [-> [-> [H1 H2]]]]]. exists (e :: r1), r2. repeat split; auto.
      constructor; auto. cmp. lia.
    + exists [], (e :: r). repeat split; auto. cmp. lia.
Qed.

(* the backward scan also splits the list and puts x in between *)
Lemma ins_bwd_spec l x : exists l1 l2, l = l1 ++ l2 /\ ins_bwd l x = l1 ++ x :: l2 /\
  Forall (fun e => prio e < prio x) l2 /\ (desc l -> Forall (fun e => prio x <= prio e) l1).
Proof.
  unfold ins_bwd. destruct (ins_rev_spec (rev l) x) as [r1 [r2 [Hr [-> [H1 H2]]]]].
  exists (rev r2), (rev r1).
  assert (Hl : l = rev r2 ++ rev r1) by (rewrite <- rev_app_distr, <- Hr; symmetry; apply rev_involutive).
  split; auto. split.
  { rewrite rev_app_distr. cbn [rev]. now rewrite <- app_assoc. }
  split. { rewrite Forall_forall in *. intros y Hy. apply H1, in_rev, Hy. }
  intros Hd. rewrite Hl, desc_app in Hd. destruct Hd as [Hd _].
  destruct r2 as [|e r2]; cbn [rev]; auto.
  cbn [rev] in Hd. rewrite desc_app in Hd. destruct Hd as [_ [_ Hf]].
  rewrite Forall_app. split; [|constructor; auto].
  rewrite Forall_forall in *. intros y Hy. specialize (Hf y Hy). inv Hf. lia.
Qed.

(* on a sorted list both scan directions insert at the same place *)
Lemma ins_bwd_fwd l x : desc l -> ins_bwd l x = ins_fwd l x.
Proof.
  intros Hd. destruct (ins_bwd_spec l x) as [l1 [l2 [Hl [-> [H2 H1]]]]].
  subst l. symmetry. apply ins_fwd_place; auto.
Qed.

Lemma push_sorted_any l x : exists l1 l2, l = l1 ++ l2 /\ push_sorted l x = l1 ++ x :: l2.
Proof.
  unfold push_sorted. destruct l as [|h t]; [exists [], []; auto|].
  destruct (_ <? _).
  - destruct (ins_fwd_spec (h :: t) x) as [l1 [l2 [H [H' _]]]]. eauto.
  - destruct (ins_bwd_spec (h :: t) x) as [l1 [l2 [H [H' _]]]]. eauto.
Qed.

Lemma push_sorted_desc_eq l x : desc l -> push_sorted l x = ins_fwd l x.
Proof.
  intros Hd. unfold push_sorted. destruct l as [|h t]; auto.
  destruct (_ <? _); auto. now apply ins_bwd_fwd.
Qed.

Lemma push_sorted_placement l x : desc l -> exists l1 l2, l = l1 ++ l2 /\ push_sorted l x = l1 ++ x :: l2 /\
  Forall (fun e => prio x <= prio e) l1 /\ Forall (fun e => prio e < prio x) l2.
Proof.
  intros Hd. rewrite push_sorted_desc_eq by auto.
  destruct (ins_fwd_spec l x) as [l1 [l2 [H [H' [H1 H2]]]]]. exists l1, l2. auto.
Qed.

Lemma Forall_lt_le (x : item) l : Forall (fun e => prio e < prio x) l -> Forall (fun e => prio e <= prio x) l.
Proof. apply Forall_impl. intros; lia. Qed.

Lemma ins_fwd_desc l x : desc l -> desc (ins_fwd l x).
Proof.
  intros Hd. destruct (ins_fwd_spec l x) as [l1 [l2 [H [-> [H1 H2]]]]]. subst l.
  apply desc_insert; auto. apply Forall_lt_le; auto.
Qed.

Lemma push_sorted_desc l x : desc l -> desc (push_sorted l x).
Proof. intros Hd. rewrite push_sorted_desc_eq by auto. now apply ins_fwd_desc. Qed.

Lemma push_sorted_perm l x : Permutation (push_sorted l x) (x :: l).
Proof.
  destruct (push_sorted_any l x) as [l1 [l2 [-> ->]]]. symmetry. apply Permutation_middle.
Qed.

Lemma withp_app v a b : withp v (a ++ b) = withp v a ++ withp v b.
Proof. apply filter_app. Qed.

Lemma withp_none_lt v l x : Forall (fun e => prio e < prio x) l -> prio x <= v -> withp v l = [].
Proof.
  induction l as [|e l IH]; intros H Hv; cbn; auto. inv H.
  destruct (prio e =? v) eqn:E; [lia|]. now apply IH.
Qed.

(* items of the priority of x: the old ones, then x *)
Lemma ins_fwd_withp l x v : desc l ->
  withp v (ins_fwd l x) = withp v l ++ (if prio x =? v then [x] else []).
Proof.
  intros Hd. destruct (ins_fwd_spec l x) as [l1 [l2 [H [-> [H1 H2]]]]]. subst l.
  specialize (H2 Hd). rewrite !withp_app. cbn [withp filter].
  destruct (prio x =? v) eqn:E.
  - fold (withp v l2). rewrite (withp_none_lt v l2 x) by (auto; lia). now rewrite app_nil_r.
  - fold (withp v l2). now rewrite app_nil_r.
Qed.

(* ------------------------------------------------------------------ chain_sorted *)
Lemma chain_step_perm x pre1 suf1 tl :
  Permutation ((pre1 ++ fst (skip_ge x suf1)) ++ x :: snd (skip_ge x suf1) ++ tl) ((pre1 ++ suf1) ++ x :: tl).
Proof.
  rewrite (skip_ge_app x suf1) at 3. rewrite <- !app_assoc.
  do 2 apply Permutation_app_head. apply Permutation_middle.
Qed.

Lemma chain_go_perm items : forall pre p post,
  Permutation (chain_go pre p post items) (pre ++ p :: post ++ items).
Proof.
  induction items as [|x items IH]; intros pre p post; cbn [chain_go].
  - now rewrite app_nil_r.
  - destruct (higher x p).
    + pose proof (chain_step_perm x [] (pre ++ p :: post) items) as H.
      destruct (skip_ge x (pre ++ p :: post)) as [sk rest]. cbn [fst snd] in H.
      rewrite IH, H. cbn [app]. now rewrite <- app_assoc.
    + pose proof (chain_step_perm x pre (p :: post) items) as H.
      destruct (skip_ge x (p :: post)) as [sk rest]. cbn [fst snd] in H.
      rewrite IH, H. now rewrite <- app_assoc.
Qed.

Lemma chain_sorted_perm l items : Permutation (chain_sorted l items) (l ++ items).
Proof.
  unfold chain_sorted. destruct items as [|x items]; [now rewrite app_nil_r|].
  destruct l as [|h t].
  - rewrite chain_go_perm. reflexivity.
  - rewrite chain_go_perm. cbn [app].
    replace (removelast (h :: t) ++ last (h :: t) h :: x :: items)
      with ((removelast (h :: t) ++ [last (h :: t) h]) ++ x :: items) by (now rewrite <- app_assoc).
    now rewrite <- app_removelast_last by discriminate.
Qed.

Lemma chain_go_fold items : forall pre p post, desc (pre ++ p :: post) ->
  chain_go pre p post items = fold_left ins_fwd items (pre ++ p :: post).
Proof.
  induction items as [|x items IH]; intros pre p post Hd; cbn [chain_go fold_left]; auto.
  destruct (higher x p) eqn:E.
  - rewrite (ins_fwd_skip (pre ++ p :: post) x).
    pose proof (ins_fwd_desc _ x Hd) as Hd'. rewrite ins_fwd_skip in Hd'.
    destruct (skip_ge x (pre ++ p :: post)) as [sk rest]. cbn [fst snd app] in *. now apply IH.
  - assert (Hpre : Forall (fun e => prio x <= prio e) pre).
    { rewrite desc_app in Hd. destruct Hd as [_ [_ Hf]]. rewrite Forall_forall in *.
      intros y Hy. specialize (Hf y Hy). inv Hf. cmp. lia. }
    rewrite (ins_fwd_app_ge pre (p :: post) x Hpre), (ins_fwd_skip (p :: post) x).
    pose proof (ins_fwd_desc _ x Hd) as Hd'.
    rewrite (ins_fwd_app_ge pre (p :: post) x Hpre), (ins_fwd_skip (p :: post) x) in Hd'.
    destruct (skip_ge x (p :: post)) as [sk rest]. cbn [fst snd] in *.
    rewrite app_assoc in *. now apply IH.
Qed.

(* into a sorted list, chain_sorted is the succession of stable sorted insertions *)
Lemma chain_sorted_fold l items : desc l -> chain_sorted l items = fold_left ins_fwd items l.
Proof.
  intros Hd. unfold chain_sorted. destruct items as [|x items]; auto.
  destruct l as [|h t].
  - rewrite chain_go_fold by (cbn; auto). reflexivity.
  - rewrite chain_go_fold; rewrite <- (app_removelast_last h (l := h :: t)) by discriminate; auto.
Qed.

Lemma fold_ins_desc items : forall l, desc l -> desc (fold_left ins_fwd items l).
Proof. induction items as [|x items IH]; intros l Hd; cbn [fold_left]; auto. apply IH, ins_fwd_desc, Hd. Qed.

Lemma fold_ins_withp v items : forall l, desc l ->
  withp v (fold_left ins_fwd items l) = withp v l ++ withp v items.
Proof.
  induction items as [|x items IH]; intros l Hd; cbn [fold_left].
  - cbn. now rewrite app_nil_r.
  - rewrite IH by (now apply ins_fwd_desc). rewrite ins_fwd_withp by auto.
    rewrite <- app_assoc. f_equal. cbn [withp filter]. now destruct (prio x =? v).
Qed.

Lemma chain_sorted_desc l items : desc l -> desc (chain_sorted l items).
Proof. intros Hd. rewrite chain_sorted_fold by auto. now apply fold_ins_desc. Qed.

Lemma chain_sorted_stable l items v : desc l ->
  withp v (chain_sorted l items) = withp v l ++ withp v items.
Proof. intros Hd. rewrite chain_sorted_fold by auto. now apply fold_ins_withp. Qed.

(* ------------------------------------------------------------------ merge *)
Lemma merge_nil_r p : merge p [] = p.
Proof. destruct p; reflexivity. Qed.
Lemma merge_cons a p b q :
  merge (a :: p) (b :: q) = if lower a b then a :: merge p (b :: q) else b :: merge (a :: p) q.
Proof. reflexivity. Qed.

Lemma merge_ind (P : list item -> list item -> list item -> Prop) :
  (forall q, P [] q q) -> (forall p, P p [] p) ->
  (forall a p b q, lower a b = true -> P p (b :: q) (merge p (b :: q)) -> P (a :: p) (b :: q) (a :: merge p (b :: q))) ->
  (forall a p b q, lower a b = false -> P (a :: p) q (merge (a :: p) q) -> P (a :: p) (b :: q) (b :: merge (a :: p) q)) ->
  forall p q, P p q (merge p q).
Proof.
  intros Hn1 Hn2 Hl Hr. induction p as [|a p IHp]; [apply Hn1|].
  induction q as [|b q IHq]; [apply Hn2|].
  rewrite merge_cons. destruct (lower a b) eqn:E; auto.
Qed.

Lemma merge_perm p q : Permutation (merge p q) (p ++ q).
Proof.
  apply (merge_ind (fun p q m => Permutation m (p ++ q))); intros.
  - reflexivity.
  - now rewrite app_nil_r.
  - cbn. now constructor.
  - rewrite H0. apply Permutation_middle.
Qed.

Lemma merge_length p q : length (merge p q) = (length p + length q)%nat.
Proof. rewrite (Permutation_length (merge_perm p q)). apply app_length. Qed.

Lemma asc_cons_inv a l : asc (a :: l) -> asc l.
Proof. cbn. tauto. Qed.

Lemma merge_asc p q : asc p -> asc q -> asc (merge p q).
Proof.
  apply (merge_ind (fun p q m => asc p -> asc q -> asc m)); auto.
  - intros a p' b q' E IH Hp Hq. cbn [asc]. split; [|apply IH; auto; eapply asc_cons_inv; eauto].
    eapply Permutation_Forall; [symmetry; apply merge_perm|].
    apply Forall_app. cbn [asc] in Hp, Hq. destruct Hp as [Hp _], Hq as [Hq _]. split; auto.
    cmp. constructor; [lia|]. eapply Forall_impl; [|apply Hq]. intros; cbn beta in *; lia.
  - intros a p' b q' E IH Hp Hq. cbn [asc]. split; [|apply IH; auto; eapply asc_cons_inv; eauto].
    eapply Permutation_Forall; [symmetry; apply merge_perm|].
    apply Forall_app. cbn [asc] in Hp, Hq. destruct Hp as [Hp _], Hq as [Hq _]. split; auto.
    cmp. constructor; [lia|]. eapply Forall_impl; [|apply Hp]. intros; cbn beta in *; lia.
Qed.

Lemma withp_none_gt v l (a : item) : Forall (fun e => prio a <= prio e) l -> v < prio a -> withp v l = [].
Proof.
  induction l as [|e l IH]; intros H Hv; cbn; auto. inv H.
  destruct (prio e =? v) eqn:E; [lia|]. now apply IH.
Qed.

(* on ties the item of q goes first: all the items of priority v of q come out before those of p *)
Lemma merge_withp v p q : asc p -> asc q -> withp v (merge p q) = withp v q ++ withp v p.
Proof.
  apply (merge_ind (fun p q m => asc p -> asc q -> withp v m = withp v q ++ withp v p)).
  - intros. now rewrite app_nil_r.
  - reflexivity.
  - intros a p' b q' E IH Hp Hq. cbn [withp filter]. fold (withp v (merge p' (b :: q'))).
    rewrite IH by (auto; eapply asc_cons_inv; eauto). fold (withp v p') (withp v q').
    destruct (prio a =? v) eqn:Ea; auto.
    assert (Hn : withp v (b :: q') = []).
    { apply (withp_none_gt v (b :: q') b); [|cmp; lia]. cbn [asc] in Hq. destruct Hq. constructor; auto. lia. }
    change ((if prio b =? v then b :: withp v q' else withp v q')) with (withp v (b :: q')).
    now rewrite Hn.
  - intros a p' b q' E IH Hp Hq. cbn [withp filter]. fold (withp v (merge (a :: p') q')).
    rewrite IH by (auto; eapply asc_cons_inv; eauto). fold (withp v q').
    now destruct (prio b =? v).
Qed.

(* ------------------------------------------------------------------ mergesort, through runs *)
Fixpoint merge_pairs (rs : list (list item)) : list (list item) :=
  match rs with
  | a :: b :: rest => merge a b :: merge_pairs rest
  | _ => rs
  end.

Lemma pairs_ind (P : list (list item) -> Prop) :
  P [] -> (forall a, P [a]) -> (forall a b rest, P rest -> P (a :: b :: rest)) -> forall rs, P rs.
Proof.
  intros H0 H1 H2. fix IH 1.
  intros [|a [|b rest]]; [exact H0 | exact (H1 a) | exact (H2 a b rest (IH rest))].
Qed.

(* all runs have k items except the last, which has between 1 and k *)
Inductive regular (k : nat) : list (list item) -> Prop :=
| reg_nil : regular k []
| reg_last r : r <> [] -> (length r <= k)%nat -> regular k [r]
| reg_cons r rs : length r = k -> rs <> [] -> regular k rs -> regular k (r :: rs).

Lemma merge_pairs_nil rs : merge_pairs rs = [] -> rs = [].
Proof. destruct rs as [|a [|b rest]]; cbn; congruence. Qed.

Lemma merge_nonnil a b : a <> [] -> merge a b <> [].
Proof. intros Ha H. apply (f_equal (@length _)) in H. rewrite merge_length in H. destruct a; cbn in *; [congruence|lia]. Qed.

Lemma regular_merge_pairs k rs : (1 <= k)%nat -> regular k rs -> regular (k + k) (merge_pairs rs).
Proof.
  intros Hk. induction rs as [| a | a b rest IH] using pairs_ind; intros Hr; cbn [merge_pairs].
  - constructor.
  - inv Hr; [constructor; auto; lia | congruence].
  - inv Hr. inv H3.
    + constructor; [|rewrite merge_length; lia]. apply merge_nonnil. destruct a; cbn in *; [lia|discriminate].
    + apply reg_cons; [rewrite merge_length; lia | | auto].
      intros E. apply merge_pairs_nil in E. congruence.
Qed.

Lemma merge_pairs_length rs : (2 * length (merge_pairs rs) <= length rs + 1)%nat.
Proof. induction rs as [| a | a b rest IH] using pairs_ind; cbn [merge_pairs length]; lia. Qed.

Lemma pass_nil fuel k : pass fuel k [] = ([], O).
Proof. destruct fuel; reflexivity. Qed.

Lemma pass_runs k : (1 <= k)%nat -> forall rs fuel, regular k rs -> (length (concat rs) <= fuel)%nat ->
  pass fuel k (concat rs) = (concat (merge_pairs rs), length (merge_pairs rs)).
Proof.
  intros Hk. induction rs as [| a | a b rest IH] using pairs_ind; intros fuel Hr Hf.
  - apply pass_nil.
  - inv Hr; [|congruence]. cbn [concat merge_pairs length] in *. rewrite app_nil_r in *.
    destruct fuel as [|f]; [destruct a; cbn in *; [congruence|lia]|].
    cbn [pass]. destruct a as [|x a]; [congruence|].
    rewrite (skipn_all2 (x :: a)) by lia. rewrite skipn_nil, pass_nil, firstn_nil.
    rewrite firstn_all2 by lia. now rewrite merge_nil_r, app_nil_r.
  - inversion Hr as [| | r rs Hla Hne Hreg]; subst r rs.
    cbn [concat merge_pairs length] in *.
    destruct fuel as [|f]; [destruct a; cbn in *; lia|].
    cbn [pass]. destruct a as [|x a]; [cbn in *; lia|]. cbn [app]. rewrite app_comm_cons.
    set (a' := x :: a) in *.
    assert (E1 : firstn k (a' ++ b ++ concat rest) = a').
    { rewrite <- Hla, firstn_app, Nat.sub_diag, firstn_O, app_nil_r. apply firstn_all. }
    assert (E2 : skipn k (a' ++ b ++ concat rest) = b ++ concat rest).
    { rewrite <- Hla, skipn_app, Nat.sub_diag, skipn_all. reflexivity. }
    rewrite E1, E2.
    assert (Hb : firstn k (b ++ concat rest) = b /\ skipn k (b ++ concat rest) = concat rest /\ regular k rest).
    { inversion Hreg as [| r Hbne Hlb Hr0 | r rs Hlb Hne' Hreg' Hr0].
      - subst r rest. cbn [concat]. rewrite !app_nil_r.
        repeat split; [apply firstn_all2; lia | apply skipn_all2; lia | constructor].
      - subst r rs. repeat split; auto.
        + rewrite <- Hlb, firstn_app, Nat.sub_diag, firstn_O, app_nil_r. apply firstn_all.
        + rewrite <- Hlb, skipn_app, Nat.sub_diag, skipn_all. reflexivity. }
    destruct Hb as [-> [-> Hreg']].
    rewrite IH; auto.
    rewrite !app_length in Hf. subst a'. cbn [length] in *. lia.
Qed.

(* an invariant of the runs preserved by pairwise merging holds of the final single run *)
Lemma msort_loop_inv (P : list (list item) -> Prop) :
  (forall rs, P rs -> P (merge_pairs rs)) ->
  forall fuel k rs, (1 <= k)%nat -> regular k rs -> rs <> [] -> (length rs <= fuel)%nat -> P rs ->
  P [msort_loop fuel k (concat rs)].
Proof.
  intros HP. induction fuel as [|f IH]; intros k rs Hk Hr Hne Hf HPr.
  - destruct rs; cbn in *; [congruence|lia].
  - cbn [msort_loop]. rewrite (pass_runs k Hk rs _ Hr) by lia.
    pose proof (merge_pairs_length rs) as Hl.
    destruct (length (merge_pairs rs) <=? 1)%nat eqn:E.
    + pose proof (HP _ HPr) as HP'. destruct (merge_pairs rs) as [|r [|r' t]] eqn:Em.
      * apply merge_pairs_nil in Em. congruence.
      * cbn [concat]. now rewrite app_nil_r.
      * cbn [length] in E. apply Nat.leb_le in E. lia.
    + apply Nat.leb_gt in E. apply IH; auto; try lia.
      * now apply regular_merge_pairs.
      * intros Em. rewrite Em in E. cbn in E. lia.
Qed.

Definition singles (l : list item) : list (list item) := map (fun x => [x]) l.
Lemma concat_singles l : concat (singles l) = l.
Proof. unfold singles. induction l as [|x l IH]; cbn [map concat app]; congruence. Qed.
Lemma regular_singles l : regular 1 (singles l).
Proof.
  induction l as [|x [|y l] IH]; cbn [singles map] in *; [constructor | constructor; [discriminate | auto] |].
  apply reg_cons; auto. discriminate.
Qed.

Lemma sort_inv (P : list (list item) -> Prop) l :
  (forall rs, P rs -> P (merge_pairs rs)) -> l <> [] -> P (singles l) -> P [sort l].
Proof.
  intros HP Hne HP0. unfold sort. destruct l as [|x l]; [congruence|].
  rewrite <- (concat_singles (x :: l)) at 2.
  apply msort_loop_inv; auto.
  - apply regular_singles.
  - discriminate.
  - unfold singles. now rewrite map_length.
Qed.

(* the invariant: runs are non-decreasing, hold the items of the input, and the
   items of each priority appear, run after run, in the reverse of the input order *)
Definition runs_ok (l : list item) (rs : list (list item)) : Prop :=
  Forall asc rs /\ Permutation (concat rs) l /\
  forall v, flat_map (fun r => rev (withp v r)) rs = withp v l.

Lemma merge_pairs_asc rs : Forall asc rs -> Forall asc (merge_pairs rs).
Proof.
  induction rs as [| a | a b rest IH] using pairs_ind; cbn [merge_pairs]; auto.
  intros H. inv H. inv H3. constructor; auto. now apply merge_asc.
Qed.

Lemma merge_pairs_perm rs : Permutation (concat (merge_pairs rs)) (concat rs).
Proof.
  induction rs as [| a | a b rest IH] using pairs_ind; cbn [merge_pairs concat]; auto.
  rewrite IH, merge_perm. now rewrite app_assoc.
Qed.

Lemma merge_pairs_withp v rs : Forall asc rs ->
  flat_map (fun r => rev (withp v r)) (merge_pairs rs) = flat_map (fun r => rev (withp v r)) rs.
Proof.
  induction rs as [| a | a b rest IH] using pairs_ind; cbn [merge_pairs flat_map]; auto.
  intros H. inv H. inv H3. rewrite IH by auto. rewrite merge_withp by auto.
  now rewrite rev_app_distr, app_assoc.
Qed.

Lemma runs_ok_merge_pairs l rs : runs_ok l rs -> runs_ok l (merge_pairs rs).
Proof.
  intros [Hs [Hp Hw]]. split; [now apply merge_pairs_asc|]. split.
  - now rewrite merge_pairs_perm.
  - intros v. rewrite merge_pairs_withp by auto. apply Hw.
Qed.

Lemma runs_ok_singles l : runs_ok l (singles l).
Proof.
  split; [|split].
  - unfold singles. apply Forall_map, Forall_forall. intros x _. cbn. auto.
  - now rewrite concat_singles.
  - intros v. unfold singles. induction l as [|x l IH]; [reflexivity|].
    cbn [map flat_map]. rewrite IH. cbn [withp filter]. now destruct (prio x =? v).
Qed.

Lemma sort_ok l : asc (sort l) /\ Permutation (sort l) l /\ forall v, withp v (sort l) = rev (withp v l).
Proof.
  destruct l as [|x l]; [cbn; auto|].
  destruct (sort_inv (runs_ok (x :: l)) (x :: l)) as [Hs [Hp Hw]].
  - apply runs_ok_merge_pairs.
  - discriminate.
  - apply runs_ok_singles.
  - inv Hs. cbn [concat flat_map] in *. rewrite app_nil_r in *. repeat split; auto.
    intros v. specialize (Hw v). rewrite app_nil_r in Hw. rewrite <- Hw. now rewrite rev_involutive.
Qed.

(* a non-decreasing list is determined by its items of each priority *)
Lemma withp_in v l x : In x (withp v l) <-> In x l /\ prio x = v.
Proof. unfold withp. rewrite filter_In. split; intros [H1 H2]; split; auto; lia. Qed.

Lemma asc_determined r1 : forall r2, asc r1 -> asc r2 -> (forall v, withp v r1 = withp v r2) -> r1 = r2.
Proof.
  induction r1 as [|a r1 IH]; intros r2 H1 H2 Hw.
  - destruct r2 as [|b r2]; auto. specialize (Hw (prio b)). cbn in Hw. rewrite Z.eqb_refl in Hw. discriminate.
  - destruct r2 as [|b r2].
    { specialize (Hw (prio a)). cbn in Hw. rewrite Z.eqb_refl in Hw. discriminate. }
    cbn [asc] in H1, H2. destruct H1 as [Hf1 H1], H2 as [Hf2 H2].
    assert (Hab : prio a = prio b).
    { destruct (Z.lt_trichotomy (prio a) (prio b)) as [Hlt | [Heq | Hgt]]; auto; exfalso.
      - assert (Hin : In a (withp (prio a) (b :: r2))).
        { rewrite <- Hw. apply withp_in. split; [left|]; auto. }
        apply withp_in in Hin. destruct Hin as [[<- | Hin] _]; [lia|].
        rewrite Forall_forall in Hf2. specialize (Hf2 a Hin). cbn beta in Hf2. lia.
      - assert (Hin : In b (withp (prio b) (a :: r1))).
        { rewrite Hw. apply withp_in. split; [left|]; auto. }
        apply withp_in in Hin. destruct Hin as [[<- | Hin] _]; [lia|].
        rewrite Forall_forall in Hf1. specialize (Hf1 b Hin). cbn beta in Hf1. lia. }
    pose proof (Hw (prio a)) as Hwa. cbn [withp filter] in Hwa.
    rewrite Z.eqb_refl in Hwa. rewrite <- Hab, Z.eqb_refl in Hwa. inv Hwa.
    f_equal. apply IH; auto. intros v. specialize (Hw v). cbn [withp filter] in Hw.
    fold (withp v r1) (withp v r2) in Hw. destruct (prio b =? v); congruence.
Qed.

Lemma withp_rev v l : withp v (rev l) = rev (withp v l).
Proof.
  induction l as [|x l IH]; cbn [rev]; auto. rewrite withp_app, IH. cbn [withp filter].
  destruct (prio x =? v); cbn [rev]; auto. now rewrite app_nil_r.
Qed.

(* the merge sort returns exactly the reverse of the stable non-increasing sort that
   chain_sorted performs on an empty list *)
Lemma sort_rev_chain_sorted l : sort l = rev (chain_sorted [] l).
Proof.
  destruct (sort_ok l) as [Ha [_ Hw]]. apply asc_determined; auto.
  - apply asc_rev. apply chain_sorted_desc. cbn; auto.
  - intros v. rewrite Hw, withp_rev. f_equal. rewrite chain_sorted_stable by (cbn; auto). reflexivity.
Qed.

(* ------------------------------------------------------------------ rings *)
Lemma rins_spec l x : exists l1 l2, l = l1 ++ l2 /\ rins l x = l1 ++ x :: l2 /\
  Forall (fun e => prio x < prio e) l1 /\ (desc l -> Forall (fun e => prio e <= prio x) l2).
Proof.
  induction l as [|e l IH]; cbn [rins].
  - exists [], []. repeat split; auto.
  - destruct (lower x e) eqn:E.
    + destruct IH as [l1 [l2 [-> [-> [H1 H2]]]]]. exists (e :: l1), l2. repeat split; auto.
      * constructor; auto. cmp. lia.
      * intros Hd. apply H2. cbn [desc] in Hd. tauto.
    + exists [], (e :: l). repeat split; auto. intros [Hf _]. constructor; [cmp; lia|].
      eapply Forall_impl; [|apply Hf]. intros; cbn beta in *. cmp. lia.
Qed.

Lemma rins_desc l x : desc l -> desc (rins l x).
Proof.
  intros Hd. destruct (rins_spec l x) as [l1 [l2 [H [-> [H1 H2]]]]]. subst l.
  apply desc_insert; auto. eapply Forall_impl; [|apply H1]. intros; cbn beta in *; lia.
Qed.

Lemma rins_perm l x : Permutation (rins l x) (x :: l).
Proof. destruct (rins_spec l x) as [l1 [l2 [-> [-> _]]]]. symmetry. apply Permutation_middle. Qed.

(* ------------------------------------------------------------------ remove / add *)
Lemma nth_error_split_at (l : list item) k x : nth_error l k = Some x ->
  l = firstn k l ++ x :: skipn (S k) l.
Proof.
  revert k. induction l as [|y l IH]; intros [|k] H; cbn in *; try discriminate.
  - now inv H.
  - f_equal. now apply IH.
Qed.

Lemma remove_at_perm k l : match fst (remove_at k l) with
  | None => snd (remove_at k l) = l
  | Some (x, _) => Permutation l (x :: snd (remove_at k l)) end.
Proof.
  unfold remove_at. destruct (nth_error l k) eqn:E; cbn [fst snd]; auto.
  rewrite (nth_error_split_at l k i E) at 1. symmetry. apply Permutation_middle.
Qed.

Lemma desc_sub a b c : desc (a ++ b ++ c) -> desc (a ++ c).
Proof.
  rewrite !desc_app. intros [Ha [[Hb [Hc _]] Hf]]. repeat split; auto.
  eapply Forall_impl; [|apply Hf]. intros x Hx. cbn beta in Hx. rewrite Forall_app in Hx. tauto.
Qed.

Lemma remove_at_desc k l : desc l -> desc (snd (remove_at k l)).
Proof.
  unfold remove_at. destruct (nth_error l k) eqn:E; cbn [snd]; auto.
  intros Hd. rewrite (nth_error_split_at l k i E) in Hd.
  change (i :: skipn (S k) l) with ([i] ++ skipn (S k) l) in Hd. now apply desc_sub in Hd.
Qed.

Lemma add_before_perm k l x : Permutation (add_before k l x) (x :: l).
Proof.
  unfold add_before. rewrite <- (firstn_skipn k l) at 3. symmetry. apply Permutation_middle.
Qed.
Lemma add_after_perm k l x : Permutation (add_after k l x) (x :: l).
Proof.
  unfold add_after. destruct (k <? length l)%nat; auto.
  rewrite <- (firstn_skipn (S k) l) at 3. symmetry. apply Permutation_middle.
Qed.

Lemma pop_front_desc l : desc l -> desc (snd (pop_front l)).
Proof. destruct l; cbn; tauto. Qed.
Lemma pop_back_desc l : desc l -> desc (snd (pop_back l)).
Proof.
  destruct l as [|y l]; [cbn; auto|]. intros Hd.
  destruct (pop_back_spec (y :: l)) as [x [l' [E Hl]]]; [discriminate|]. rewrite E. cbn [snd].
  rewrite Hl, desc_app in Hd. tauto.
Qed.

(* ------------------------------------------------------------------ operation sequences *)
Lemma list_op_conserves s L v ins outs : Permutation (getl s L ++ ins) (v ++ outs) ->
  Permutation (contents s ++ ins) (contents (setl s L v) ++ outs).
Proof.
  intros H. unfold contents, setl, getl in *. destruct L; cbn [l0 l1 ring].
  - rewrite <- !app_assoc. apply Permutation_app_head.
    rewrite (Permutation_app_comm (ring s)), (Permutation_app_comm (ring s) outs), !app_assoc.
    now apply Permutation_app_tail.
  - rewrite (Permutation_app_comm _ ins), (Permutation_app_comm _ outs), !app_assoc.
    do 2 apply Permutation_app_tail. now rewrite (Permutation_app_comm ins), (Permutation_app_comm outs).
Qed.

Lemma ring_op_conserves s v ins outs : Permutation (ring s ++ ins) (v ++ outs) ->
  Permutation (contents s ++ ins) (contents (setr s v) ++ outs).
Proof.
  intros H. unfold contents, setr. cbn [l0 l1 ring]. rewrite <- !app_assoc.
  now do 2 apply Permutation_app_head.
Qed.

Lemma both_op_conserves s L v r' : Permutation (getl s L ++ ring s) (v ++ r') ->
  Permutation (contents s ++ []) (contents (setr (setl s L v) r') ++ []).
Proof.
  intros H. rewrite !app_nil_r. unfold contents, setr, setl, getl in *. destruct L; cbn [l0 l1 ring].
  - now apply Permutation_app_head.
  - rewrite Permutation_app_swap_app, H. apply Permutation_app_swap_app.
Qed.

(* one operation: what was there plus what came in = what is there plus what went out *)
Lemma step_conserves s o : Permutation (contents s ++ op_in o) (contents (fst (step s o)) ++ ret_out (snd (step s o))).
Proof.
  destruct o; cbn [step op_in].
  - (* PushFront *) apply list_op_conserves. unfold push_front. rewrite app_nil_r. symmetry. apply Permutation_cons_append.
  - (* PushBack *) apply list_op_conserves. unfold push_back. now rewrite app_nil_r.
  - (* PopFront *) destruct (getl s L) as [|x t] eqn:E; cbn [pop_front fst snd of_opt ret_out];
      apply list_op_conserves; rewrite E, app_nil_r; [reflexivity | apply Permutation_cons_append].
  - (* PopBack *) destruct (getl s L) as [|y t] eqn:E.
    + cbn [pop_back fst snd of_opt ret_out]. apply list_op_conserves. now rewrite E.
    + destruct (pop_back_spec (y :: t)) as [x [l' [Ep Hl]]]; [discriminate|]. rewrite Ep.
      cbn [fst snd of_opt ret_out]. apply list_op_conserves. now rewrite E, Hl, app_nil_r.
  - (* ChainFront *) apply list_op_conserves. unfold chain_front. rewrite app_nil_r. apply Permutation_app_comm.
  - (* ChainBack *) apply list_op_conserves. unfold chain_back. now rewrite app_nil_r.
  - (* PushSorted *) apply list_op_conserves. rewrite app_nil_r, push_sorted_perm. symmetry. apply Permutation_cons_append.
  - (* ChainSorted *) apply list_op_conserves. now rewrite app_nil_r, chain_sorted_perm.
  - (* Sort *) apply list_op_conserves. rewrite !app_nil_r. symmetry. apply sort_ok.
  - (* Remove *) pose proof (remove_at_perm k (getl s L)) as H.
    destruct (remove_at k (getl s L)) as [[[x p]|] l']; cbn [fst snd ret_out] in *; apply list_op_conserves.
    + rewrite app_nil_r, H. apply Permutation_cons_append.
    + now subst l'.
  - (* AddBefore *) apply list_op_conserves. rewrite app_nil_r, add_before_perm. symmetry. apply Permutation_cons_append.
  - (* AddAfter *) apply list_op_conserves. rewrite app_nil_r, add_after_perm. symmetry. apply Permutation_cons_append.
  - (* IsEmpty *) reflexivity.
  - (* Contains *) reflexivity.
  - (* Unchain *) cbn [unchain fst snd ret_out]. apply both_op_conserves. unfold ring_merge. cbn [app]. apply Permutation_app_comm.
  - (* RingPush *) apply ring_op_conserves. unfold ring_push. now rewrite app_nil_r.
  - (* RingPushSorted *) apply ring_op_conserves. rewrite app_nil_r, rins_perm. symmetry. apply Permutation_cons_append.
  - (* RingChop *) destruct (ring s) as [|x t] eqn:E; cbn [ring_chop fst snd of_opt ret_out];
      apply ring_op_conserves; rewrite E, app_nil_r; [reflexivity | apply Permutation_cons_append].
  - (* RingMerge *) apply ring_op_conserves. unfold ring_merge. now rewrite app_nil_r.
  - (* ChainRingFront *) cbn [fst snd ret_out]. apply both_op_conserves. unfold chain_front. rewrite app_nil_r. apply Permutation_app_comm.
  - (* ChainRingBack *) cbn [fst snd ret_out]. apply both_op_conserves. unfold chain_back. now rewrite app_nil_r.
  - (* ChainRingSorted *) cbn [fst snd ret_out]. apply both_op_conserves. now rewrite app_nil_r, chain_sorted_perm.
Qed.

Lemma run_conserves ops : forall s,
  Permutation (contents s ++ flat_map op_in ops)
              (contents (fst (run s ops)) ++ flat_map ret_out (snd (run s ops))).
Proof.
  induction ops as [|o ops IH]; intros s; cbn [run flat_map fst snd]; auto.
  pose proof (step_conserves s o) as Hs. destruct (step s o) as [s1 r]. cbn [fst snd] in Hs.
  specialize (IH s1). destruct (run s1 ops) as [s2 rs]. cbn [fst snd flat_map] in *.
  rewrite app_assoc, Hs, <- app_assoc.
  rewrite (Permutation_app_comm (ret_out r)), app_assoc, IH, <- app_assoc.
  apply Permutation_app_head, Permutation_app_comm.
Qed.

Lemma run_no_dup ops s :
  NoDup (map iid (contents s ++ flat_map op_in ops)) ->
  NoDup (map iid (contents (fst (run s ops)) ++ flat_map ret_out (snd (run s ops)))).
Proof. apply Permutation_NoDup, Permutation_map, run_conserves. Qed.

(* sequences of order-preserving operations keep both lists and the ring non-increasing *)
Definition all_sorted (s : state) : Prop := desc (l0 s) /\ desc (l1 s) /\ desc (ring s).

Lemma all_sorted_setl s L v : all_sorted s -> desc v -> all_sorted (setl s L v).
Proof. unfold all_sorted, setl. destruct L; cbn [l0 l1 ring]; tauto. Qed.
Lemma all_sorted_setr s v : all_sorted s -> desc v -> all_sorted (setr s v).
Proof. unfold all_sorted, setr. cbn [l0 l1 ring]; tauto. Qed.
Lemma all_sorted_getl s L : all_sorted s -> desc (getl s L).
Proof. unfold all_sorted, getl. destruct L; tauto. Qed.

Lemma step_sorted s o : keeps_sorted o = true -> keeps_ring_sorted o = true ->
  all_sorted s -> all_sorted (fst (step s o)).
Proof.
  intros K1 K2 Hs. pose proof Hs as [H0 [H1 Hr]].
  destruct o; try discriminate; cbn [step fst]; auto.
  - (* PopFront *) pose proof (pop_front_desc _ (all_sorted_getl s L Hs)).
    destruct (pop_front (getl s L)). cbn [fst snd] in *. now apply all_sorted_setl.
  - (* PopBack *) pose proof (pop_back_desc _ (all_sorted_getl s L Hs)).
    destruct (pop_back (getl s L)). cbn [fst snd] in *. now apply all_sorted_setl.
  - apply all_sorted_setl; auto. apply push_sorted_desc, all_sorted_getl, Hs.
  - apply all_sorted_setl; auto. apply chain_sorted_desc, all_sorted_getl, Hs.
  - (* Remove *) pose proof (remove_at_desc k _ (all_sorted_getl s L Hs)).
    destruct (remove_at k (getl s L)). cbn [fst snd] in *. now apply all_sorted_setl.
  - apply all_sorted_setr; auto. now apply rins_desc.
  - (* RingChop *) destruct (ring s) as [|x t] eqn:E; cbn [ring_chop fst]; apply all_sorted_setr; auto.
    cbn [desc] in Hr. tauto.
  - (* ChainRingSorted *) apply all_sorted_setr; [|cbn; auto].
    apply all_sorted_setl; auto. apply chain_sorted_desc, all_sorted_getl, Hs.
Qed.

Lemma run_sorted ops : forall s,
  Forall (fun o => keeps_sorted o = true /\ keeps_ring_sorted o = true) ops ->
  all_sorted s -> all_sorted (fst (run s ops)).
Proof.
  induction ops as [|o ops IH]; intros s Hf Hs; cbn [run fst]; auto. inv Hf.
  pose proof (step_sorted s o (proj1 H1) (proj2 H1) Hs) as H.
  destruct (step s o) as [s1 r]. cbn [fst] in H. specialize (IH s1 H2 H).
  destruct (run s1 ops). auto.
Qed.

Lemma pop_front_max l x l' : desc l -> pop_front l = (Some x, l') ->
  l = x :: l' /\ Forall (fun e => prio e <= prio x) l'.
Proof. destruct l; cbn; intros H E; inv E. tauto. Qed.

(* ------------------------------------------------------------------ statements used by Properties_C31.v *)
Lemma deque_laws l x xs :
  pop_front (push_front l x) = (Some x, l) /\
  pop_back (push_back l x) = (Some x, l) /\
  (l <> [] -> pop_front (push_back l x) = (fst (pop_front l), push_back (snd (pop_front l)) x)) /\
  (l <> [] -> pop_back (push_front l x) = (fst (pop_back l), push_front (snd (pop_back l)) x)) /\
  pop_front [] = (None, []) /\ pop_back [] = (None, []) /\
  chain_back l xs = fold_left push_back xs l /\
  chain_front l xs = fold_right (fun y l => push_front l y) l xs /\
  unchain l = (l, []).
Proof.
  repeat split.
  - apply pop_back_push_back.
  - apply pop_front_push_back.
  - apply pop_back_push_front.
  - apply chain_back_is_pushes.
  - apply chain_front_is_pushes.
Qed.

Lemma push_sorted_placement_full l x :
  (exists l1 l2, l = l1 ++ l2 /\ push_sorted l x = l1 ++ x :: l2) /\
  (desc l -> exists l1 l2, l = l1 ++ l2 /\ push_sorted l x = l1 ++ x :: l2 /\
     Forall (fun e => prio x <= prio e) l1 /\ Forall (fun e => prio e < prio x) l2).
Proof. split; [apply push_sorted_any | apply push_sorted_placement]. Qed.

Lemma push_sorted_sorted l x : desc l ->
  desc (push_sorted l x) /\ Permutation (push_sorted l x) (x :: l) /\
  forall v, withp v (push_sorted l x) = withp v l ++ (if prio x =? v then [x] else []).
Proof.
  intros Hd. split; [now apply push_sorted_desc|]. split; [apply push_sorted_perm|].
  intros v. rewrite push_sorted_desc_eq by auto. now apply ins_fwd_withp.
Qed.

Lemma fold_push_sorted items : forall l, desc l -> fold_left push_sorted items l = fold_left ins_fwd items l.
Proof.
  induction items as [|x items IH]; intros l Hd; cbn [fold_left]; auto.
  rewrite push_sorted_desc_eq by auto. apply IH, ins_fwd_desc, Hd.
Qed.

Lemma chain_sorted_sorted l items : desc l ->
  chain_sorted l items = fold_left push_sorted items l /\
  desc (chain_sorted l items) /\ Permutation (chain_sorted l items) (l ++ items) /\
  forall v, withp v (chain_sorted l items) = withp v l ++ withp v items.
Proof.
  intros Hd. split; [rewrite fold_push_sorted by auto; now apply chain_sorted_fold|].
  split; [now apply chain_sorted_desc|]. split; [apply chain_sorted_perm|].
  intros v. now apply chain_sorted_stable.
Qed.

Lemma desc_head2 a b l : desc (a :: b :: l) -> prio b <= prio a.
Proof. cbn [desc]. intros [H _]. now inv H. Qed.
Lemma asc_head2 a b l : asc (a :: b :: l) -> prio a <= prio b.
Proof. cbn [asc]. intros [H _]. now inv H. Qed.

Lemma sort_not_stable : exists l v, withp v (sort l) <> withp v l.
Proof. exists [(1, 0); (2, 0)], 0. vm_compute. discriminate. Qed.

(* sort orders the other way round than the sorted insertions: inserting into a list that
   was just sorted gives a list that is ordered in neither direction *)
Lemma sort_direction_differs : exists l x,
  ~ desc (push_sorted (sort l) x) /\ ~ asc (push_sorted (sort l) x).
Proof.
  exists [(1, 0); (2, 1)], (3, 1).
  replace (push_sorted (sort [(1, 0); (2, 1)]) (3, 1)) with [(3, 1); (1, 0); (2, 1)] by (vm_compute; reflexivity).
  split; intros H.
  - cbn [desc] in H. destruct H as [_ H]. apply desc_head2 in H. cbn in H. lia.
  - apply asc_head2 in H. cbn in H. lia.
Qed.

Lemma ring_push_sorted_ok l x :
  Permutation (rins l x) (x :: l) /\
  (exists l1 l2, l = l1 ++ l2 /\ rins l x = l1 ++ x :: l2 /\
     Forall (fun e => prio x < prio e) l1 /\ (desc l -> Forall (fun e => prio e <= prio x) l2)) /\
  (desc l -> desc (rins l x)).
Proof. split; [apply rins_perm|]. split; [apply rins_spec | apply rins_desc]. Qed.
