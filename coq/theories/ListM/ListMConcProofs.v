(* Proofs about the concurrent model of the locked list operations (ListMConcDefs.v):
   for every schedule the log of linearisation points is a legal sequential history. *)
From PV Require Import Base.Tac Base.ListX ListM.ListMDefs ListM.ListMProofs ListM.ListMConcDefs.
From Coq Require Import Permutation.

Definition held (th : thr) : Prop := exists r, ph th = Held r.
Definition ins_of (es : list (nat * cop * cres)) : list item := flat_map (fun e => cop_in (snd (fst e))) es.
Definition outs_of (es : list (nat * cop * cres)) : list item := flat_map (fun e => cres_out (snd e)) es.

Record Inv (l0 : list item) (progs : list (list cop)) (c : cfg) : Prop := mkInv {
  inv_replay : replay l0 (log c) = (lst c, map snd (log c));
  inv_cons : Permutation (l0 ++ ins_of (log c)) (lst c ++ outs_of (log c));
  inv_thr : forall t th, nth_error (thrs c) t = Some th ->
      by_thread t (log c) = contributed th /\
      nth_error progs t = Some (program_left th) /\
      (held th <-> lock c = Some t)
}.

Lemma replay_snoc l es e :
  replay l (es ++ [e]) =
  (fst (apply_entry (fst (replay l es)) e), snd (replay l es) ++ [snd (apply_entry (fst (replay l es)) e)]).
Proof. unfold replay. rewrite fold_left_app. reflexivity. Qed.

Lemma by_thread_app t a b : by_thread t (a ++ b) = by_thread t a ++ by_thread t b.
Proof. unfold by_thread. now rewrite filter_app, map_app. Qed.

Lemma seq_apply_not_busy l o : snd (seq_apply l o) <> CBusy.
Proof.
  destruct o; cbn; try discriminate.
  - destruct (fst (pop_front l)); discriminate.
  - destruct (fst (pop_back l)); discriminate.
Qed.

Lemma apply_entry_seq l t o : apply_entry l (t, o, snd (seq_apply l o)) = seq_apply l o.
Proof.
  unfold apply_entry. cbn [fst snd]. pose proof (seq_apply_not_busy l o) as H.
  destruct (snd (seq_apply l o)) eqn:E; try reflexivity. congruence.
Qed.

Lemma seq_apply_conserves l o :
  Permutation (l ++ cop_in o) (fst (seq_apply l o) ++ cres_out (snd (seq_apply l o))).
Proof.
  destruct o; cbn [seq_apply cop_in fst snd cres_out].
  - unfold push_front. rewrite app_nil_r. symmetry. apply Permutation_cons_append.
  - unfold push_back. now rewrite app_nil_r.
  - destruct l as [|x l]; cbn; [reflexivity|]. rewrite app_nil_r. apply Permutation_cons_append.
  - destruct l as [|y l]; [cbn; reflexivity|].
    destruct (pop_back_spec (y :: l)) as [x [l' [E Hl]]]; [discriminate|]. rewrite E. cbn [fst snd res_of_opt cres_out].
    now rewrite Hl, app_nil_r.
  - unfold chain_front. rewrite app_nil_r. apply Permutation_app_comm.
  - unfold chain_back. now rewrite app_nil_r.
  - rewrite app_nil_r, push_sorted_perm. symmetry. apply Permutation_cons_append.
  - now rewrite app_nil_r, chain_sorted_perm.
  - rewrite !app_nil_r. symmetry. apply sort_ok.
  - reflexivity.
  - cbn. now rewrite app_nil_r.
Qed.

(* every effective step rewrites one thread and appends at most one entry to the log *)
Lemma inv_preserved l0 progs c t th l' lk' th' ent now :
  Inv l0 progs c -> nth_error (thrs c) t = Some th ->
  (ent = [] /\ l' = lst c \/
   exists o r, ent = [(t, o, r)] /\ apply_entry (lst c) (t, o, r) = (l', r) /\
               Permutation (lst c ++ cop_in o) (l' ++ cres_out r)) ->
  contributed th' = contributed th ++ map (fun e => (snd (fst e), snd e)) ent ->
  program_left th' = program_left th ->
  (held th' <-> lk' = Some t) ->
  (forall u, u <> t -> (lk' = Some u <-> lock c = Some u)) ->
  Inv l0 progs (mkcfg l' lk' (upd (thrs c) t th') (log c ++ ent) now).
Proof.
  intros [Hrep Hcons Hthr] Hn Hent Hcontr Hprog Hheld Hoth.
  assert (Hby : by_thread t ent = map (fun e => (snd (fst e), snd e)) ent /\
                forall u, u <> t -> by_thread u ent = []).
  { destruct Hent as [[-> _] | [o [r [-> _]]]]; [split; reflexivity|].
    unfold by_thread. cbn [filter map fst snd]. rewrite Nat.eqb_refl. split; [reflexivity|].
    intros u Hu. destruct (Nat.eqb t u) eqn:E; [apply Nat.eqb_eq in E; congruence | reflexivity]. }
  destruct Hby as [Hbyt Hbyu].
  constructor; cbn [lst lock thrs log].
  - destruct Hent as [[-> ->] | [o [r [-> [Ha _]]]]]; [now rewrite app_nil_r|].
    rewrite replay_snoc, Hrep. cbn [fst snd]. rewrite Ha. cbn [fst snd]. now rewrite map_app.
  - destruct Hent as [[-> ->] | [o [r [-> [_ Hp]]]]]; [now rewrite app_nil_r|].
    unfold ins_of, outs_of in *. rewrite !flat_map_app. cbn [flat_map fst snd]. rewrite !app_nil_r.
    rewrite app_assoc, Hcons, <- app_assoc.
    rewrite (Permutation_app_comm (flat_map _ (log c)) (cop_in o)), app_assoc, Hp, <- app_assoc.
    apply Permutation_app_head, Permutation_app_comm.
  - intros u thu Hu. destruct (Nat.eq_dec u t) as [-> | Hne].
    + rewrite (nth_upd_same _ _ _ th' Hn) in Hu. inv Hu.
      destruct (Hthr t th Hn) as [Hb [Hp _]].
      rewrite by_thread_app, Hb, Hbyt, Hcontr, Hprog. auto.
    + rewrite (nth_upd_other _ _ _ _ th' Hn Hne) in Hu.
      destruct (Hthr u thu Hu) as [Hb [Hp Hl]].
      rewrite by_thread_app, (Hbyu u Hne), app_nil_r. repeat split; auto.
      * intros H. apply Hoth; auto. now apply Hl.
      * intros H. apply Hl. now apply Hoth.
Qed.

Lemma inv_quiet l0 progs c t th lk' th' now :
  Inv l0 progs c -> nth_error (thrs c) t = Some th ->
  contributed th' = contributed th -> program_left th' = program_left th ->
  (held th' <-> lk' = Some t) ->
  (forall u, u <> t -> (lk' = Some u <-> lock c = Some u)) ->
  Inv l0 progs (mkcfg (lst c) lk' (upd (thrs c) t th') (log c) now).
Proof.
  intros HI Hn Hc Hp Hh Ho.
  pose proof (inv_preserved l0 progs c t th (lst c) lk' th' [] now HI Hn) as H.
  cbn [map] in H. rewrite !app_nil_r in H. apply H; auto.
Qed.

Lemma contributed_finish th o rest r i now :
  contributed (finish th o rest r i now) =
  map (fun h => (fst (fst (fst h)), snd (fst (fst h)))) (hist th) ++ [(o, r)].
Proof. unfold contributed, finish. cbn [hist ph todo]. now rewrite map_app, app_nil_r. Qed.

Lemma contributed_not_held th : ~ held th ->
  contributed th = map (fun h => (fst (fst (fst h)), snd (fst (fst h)))) (hist th).
Proof.
  intros H. unfold contributed. destruct (ph th) eqn:E; try now rewrite app_nil_r.
  exfalso. apply H. eexists; eauto.
Qed.
Lemma contributed_held th r o rest : ph th = Held r -> todo th = o :: rest ->
  contributed th = map (fun h => (fst (fst (fst h)), snd (fst (fst h)))) (hist th) ++ [(o, r)].
Proof. intros H1 H2. unfold contributed. now rewrite H1, H2. Qed.

Lemma program_finish th o rest r i now : todo th = o :: rest ->
  program_left (finish th o rest r i now) = program_left th.
Proof. intros H. unfold program_left, finish. cbn [hist todo]. rewrite H, map_app, <- app_assoc. reflexivity. Qed.

Lemma not_held_finish th o rest r i now : ~ held (finish th o rest r i now).
Proof. intros [x H]. discriminate. Qed.

Lemma cstep_inv l0 progs c t : Inv l0 progs c -> Inv l0 progs (cstep c t).
Proof.
  intros HI. unfold cstep.
  destruct (nth_error (thrs c) t) as [th|] eqn:Hn; auto.
  destruct (todo th) as [|o rest] eqn:Ht; auto.
  destruct (inv_thr _ _ _ HI t th Hn) as [_ [_ Hl]].
  destruct (ph th) as [| | r] eqn:Hp.
  - (* Idle *)
    assert (Hnl : lock c <> Some t) by (intros E; apply Hl in E; destruct E as [x E]; congruence).
    destruct (early_check o && is_empty (lst c)) eqn:E.
    + apply andb_prop in E. destruct E as [Ee Em].
      assert (Hnil : lst c = []) by (destruct (lst c); [reflexivity | discriminate]).
      apply (inv_preserved l0 progs c t th); auto; try (unfold program_left; cbn [todo hist]; now rewrite Ht).
      * right. exists o, CNone. split; [reflexivity|]. rewrite Hnil.
        destruct o; try discriminate; cbn; auto.
      * rewrite contributed_finish, (contributed_not_held th) by (intros [x Hx]; congruence). reflexivity.
      * now apply program_finish.
      * split; [intros H; now apply not_held_finish in H | intros H; congruence].
      * tauto.
    + apply (inv_quiet l0 progs c t th); auto; try (unfold program_left; cbn [todo hist]; now rewrite Ht).
      * rewrite !contributed_not_held; [reflexivity | intros [x Hx]; congruence | intros [x Hx]; discriminate].
      * split; [intros [x H]; discriminate | intros H; congruence].
      * tauto.
  - (* Acq *)
    assert (Hnl : lock c <> Some t) by (intros E; apply Hl in E; destruct E as [x E]; congruence).
    destruct (lock c) as [h|] eqn:Hlk.
    + destruct (is_try o) eqn:Etry.
      * apply (inv_preserved l0 progs c t th); auto; try (unfold program_left; cbn [todo hist]; now rewrite Ht).
        -- right. exists o, CBusy. repeat split.
           destruct o; try discriminate; cbn; now rewrite app_nil_r.
        -- rewrite contributed_finish, (contributed_not_held th) by (intros [x Hx]; congruence). reflexivity.
        -- now apply program_finish.
        -- split; [intros H; now apply not_held_finish in H | intros H; congruence].
        -- rewrite Hlk. tauto.
      * apply (inv_quiet l0 progs c t th); auto; try (unfold program_left; cbn [todo hist]; now rewrite Ht).
        -- rewrite !contributed_not_held; [reflexivity | intros [x Hx]; congruence | intros [x Hx]; discriminate].
        -- split; [intros [x H]; discriminate | intros H; congruence].
        -- rewrite Hlk. tauto.
    + apply (inv_preserved l0 progs c t th); auto; try (unfold program_left; cbn [todo hist]; now rewrite Ht).
      * right. exists o, (snd (seq_apply (lst c) o)). split; [reflexivity|]. split.
        -- rewrite apply_entry_seq. apply surjective_pairing.
        -- apply seq_apply_conserves.
      * rewrite (contributed_held _ (snd (seq_apply (lst c) o)) o rest) by reflexivity.
        rewrite (contributed_not_held th) by (intros [x Hx]; congruence). reflexivity.
      * split; [reflexivity | intros _; eexists; reflexivity].
      * intros u Hu. rewrite Hlk. split; intros H; [inv H; congruence | discriminate].
  - (* Held *)
    assert (Hlk : lock c = Some t) by (apply Hl; eexists; eauto).
    apply (inv_quiet l0 progs c t th); auto; try (unfold program_left; cbn [todo hist]; now rewrite Ht).
    + now rewrite contributed_finish, (contributed_held th r o rest) by auto.
    + now apply program_finish.
    + split; [intros H; now apply not_held_finish in H | discriminate].
    + intros u Hu. rewrite Hlk. split; intros H; [discriminate | inv H; congruence].
Qed.

Lemma cinit_inv l0 progs : Inv l0 progs (cinit l0 progs).
Proof.
  constructor; cbn [cinit lst lock thrs log]; auto.
  intros t th H. apply nth_error_map_inv in H. destruct H as [p [Hp <-]].
  unfold by_thread, contributed, program_left, held. cbn. repeat split; auto.
  - intros [r H]. discriminate.
  - discriminate.
Qed.

Lemma crun_inv l0 progs sched : Inv l0 progs (crun (cinit l0 progs) sched).
Proof. unfold crun. apply fold_left_inv; [intros; now apply cstep_inv | apply cinit_inv]. Qed.

(* ---- the statements of Properties_C31.v ---- *)
(* whatever the schedule: the log of linearisation points, replayed sequentially with the
   nolock operations from the initial list, produces exactly the logged results and the
   current list; per thread, the logged (operation, result) pairs are what the thread
   has done so far, in its program order *)
Lemma locked_linearizable l0 progs sched :
  let c := crun (cinit l0 progs) sched in
  replay l0 (log c) = (lst c, map snd (log c)) /\
  forall t th, nth_error (thrs c) t = Some th ->
    by_thread t (log c) = contributed th /\ nth_error progs t = Some (program_left th).
Proof.
  cbn zeta. destruct (crun_inv l0 progs sched) as [H1 _ H3]. split; auto.
  intros t th H. destruct (H3 t th H) as [Ha [Hb _]]. auto.
Qed.

(* once a thread has finished, its part of the log is its whole program with the results
   it returned *)
Lemma locked_complete l0 progs sched t th :
  let c := crun (cinit l0 progs) sched in
  nth_error (thrs c) t = Some th -> todo th = [] ->
  nth_error progs t = Some (map fst (by_thread t (log c))) /\
  by_thread t (log c) = map (fun h => (fst (fst (fst h)), snd (fst (fst h)))) (hist th).
Proof.
  cbn zeta. intros H Ht. destruct (crun_inv l0 progs sched) as [_ _ H3].
  destruct (H3 t th H) as [Ha [Hb _]].
  assert (Hc : contributed th = map (fun h => (fst (fst (fst h)), snd (fst (fst h)))) (hist th)).
  { unfold contributed. rewrite Ht. destruct (ph th); now rewrite app_nil_r. }
  rewrite Ha, Hc. split; auto. rewrite Hb. f_equal. unfold program_left. rewrite Ht, app_nil_r, map_map. reflexivity.
Qed.

Lemma locked_mutual_exclusion l0 progs sched t u tht thu :
  let c := crun (cinit l0 progs) sched in
  nth_error (thrs c) t = Some tht -> nth_error (thrs c) u = Some thu ->
  held tht -> held thu -> t = u.
Proof.
  cbn zeta. intros Ht Hu H1 H2. destruct (crun_inv l0 progs sched) as [_ _ H3].
  destruct (H3 t tht Ht) as [_ [_ Ha]]. destruct (H3 u thu Hu) as [_ [_ Hb]].
  apply Ha in H1. apply Hb in H2. congruence.
Qed.

Lemma locked_conservation l0 progs sched :
  let c := crun (cinit l0 progs) sched in
  Permutation (l0 ++ ins_of (log c)) (lst c ++ outs_of (log c)).
Proof. cbn zeta. apply (crun_inv l0 progs sched). Qed.
