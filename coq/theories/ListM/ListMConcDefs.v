(* Concurrent use of the LOCKED list / dequeue / fifo entry points (list.h:
   parsec_list_push_front ... parsec_list_unchain and their dequeue.h / fifo.h aliases):
   atomic-step model at the granularity of the T-sched harness (harness/h_listm.c,
   "conc" cases), where the scheduling points are the lock attempt and the unlock.

   One locked operation is, in program order:
     step 1 (Idle)  the code before parsec_list_lock: preparing the private item, and for
                    pop_front / pop_back / try_pop_* the UNLOCKED test
                    "if( parsec_list_nolock_is_empty(list) ) return NULL;" — the operation
                    ends here when the list is seen empty;
     step 2 (Acq)   one attempt to take the lock; when it succeeds the whole critical
                    section runs (the nolock operation of ListMDefs, atomic: ASSUMPTION
                    "lock-protected sections are atomic"), when it fails the thread spins
                    (stutter step) or, for try_pop, returns NULL;
     step 3 (Held)  parsec_list_unlock, return.
   No proofs in this file. *)
From Coq Require Import ZArith List Bool Arith.
From PV Require Import Base.ListX ListM.ListMDefs.
Import ListNotations.

Inductive cop :=
| CPushFront (x : item) | CPushBack (x : item)
| CPopFront (try : bool) | CPopBack (try : bool)
| CChainFront (xs : list item) | CChainBack (xs : list item)
| CPushSorted (x : item) | CChainSorted (xs : list item)
| CSort | CIsEmpty | CUnchain.

Inductive cres := CNone | CItem (x : item) | CBool (b : bool) | CItems (l : list item) | CBusy.

Definition res_of_opt (o : option item) : cres := match o with None => CNone | Some x => CItem x end.

(* the sequential specification: the nolock operation of ListMDefs *)
Definition seq_apply (l : list item) (o : cop) : list item * cres :=
  match o with
  | CPushFront x => (push_front l x, CNone)
  | CPushBack x => (push_back l x, CNone)
  | CPopFront _ => (snd (pop_front l), res_of_opt (fst (pop_front l)))
  | CPopBack _ => (snd (pop_back l), res_of_opt (fst (pop_back l)))
  | CChainFront xs => (chain_front l xs, CNone)
  | CChainBack xs => (chain_back l xs, CNone)
  | CPushSorted x => (push_sorted l x, CNone)
  | CChainSorted xs => (chain_sorted l xs, CNone)
  | CSort => (sort l, CNone)
  | CIsEmpty => (l, CBool (is_empty l))
  | CUnchain => (snd (unchain l), CItems (fst (unchain l)))
  end.

(* operations that test emptiness before taking the lock *)
Definition early_check (o : cop) : bool :=
  match o with CPopFront _ | CPopBack _ => true | _ => false end.
Definition is_try (o : cop) : bool :=
  match o with CPopFront t | CPopBack t => t | _ => false end.

Inductive phase := Idle | Acq | Held (r : cres).

(* hist: completed operations with result, invocation step and response step *)
Record thr := mkthr { todo : list cop; ph : phase; inv : nat; nsteps : nat;
                      hist : list (cop * cres * nat * nat) }.
(* log: the linearisation points in the order they happen: (thread, operation, result) *)
Record cfg := mkcfg { lst : list item; lock : option nat; thrs : list thr;
                      log : list (nat * cop * cres); clk : nat }.

Definition cinit (l : list item) (progs : list (list cop)) : cfg :=
  mkcfg l None (map (fun p => mkthr p Idle O O []) progs) [] O.

Definition finish (th : thr) (o : cop) (rest : list cop) (r : cres) (i now : nat) : thr :=
  mkthr rest Idle O (S (nsteps th)) (hist th ++ [(o, r, i, now)]).

Definition cstep (c : cfg) (t : nat) : cfg :=
  match nth_error (thrs c) t with
  | None => c
  | Some th =>
      match todo th with
      | [] => c                                   (* finished thread: the step is a no-op *)
      | o :: rest =>
          let now := S (clk c) in
          match ph th with
          | Idle =>
              if early_check o && is_empty (lst c)
              then mkcfg (lst c) (lock c) (upd (thrs c) t (finish th o rest CNone now now))
                         (log c ++ [(t, o, CNone)]) now
              else mkcfg (lst c) (lock c)
                         (upd (thrs c) t (mkthr (todo th) Acq now (S (nsteps th)) (hist th))) (log c) now
          | Acq =>
              match lock c with
              | None =>
                  mkcfg (fst (seq_apply (lst c) o)) (Some t)
                        (upd (thrs c) t (mkthr (todo th) (Held (snd (seq_apply (lst c) o))) (inv th)
                                               (S (nsteps th)) (hist th)))
                        (log c ++ [(t, o, snd (seq_apply (lst c) o))]) now
              | Some _ =>
                  if is_try o
                  then mkcfg (lst c) (lock c) (upd (thrs c) t (finish th o rest CBusy (inv th) now))
                             (log c ++ [(t, o, CBusy)]) now
                  else mkcfg (lst c) (lock c)
                             (upd (thrs c) t (mkthr (todo th) Acq (inv th) (S (nsteps th)) (hist th)))
                             (log c) now
              end
          | Held r =>
              mkcfg (lst c) None (upd (thrs c) t (finish th o rest r (inv th) now)) (log c) now
          end
      end
  end.

Definition crun (c : cfg) (sched : list nat) : cfg := fold_left cstep sched c.

(* replaying a log sequentially: a busy try_pop is a no-op, anything else is the
   sequential operation *)
Definition apply_entry (l : list item) (e : nat * cop * cres) : list item * cres :=
  match snd e with
  | CBusy => (l, CBusy)
  | _ => seq_apply l (snd (fst e))
  end.
Definition replay (l : list item) (es : list (nat * cop * cres)) : list item * list cres :=
  fold_left (fun a e => (fst (apply_entry (fst a) e), snd a ++ [snd (apply_entry (fst a) e)])) es (l, []).

(* (operation, result) pairs of thread t in a log, in log order *)
Definition by_thread (t : nat) (es : list (nat * cop * cres)) : list (cop * cres) :=
  map (fun e => (snd (fst e), snd e)) (filter (fun e => Nat.eqb (fst (fst e)) t) es).
(* what a thread has contributed to the log: its completed operations, plus the one
   whose critical section it has just run *)
Definition contributed (th : thr) : list (cop * cres) :=
  map (fun h => (fst (fst (fst h)), snd (fst (fst h)))) (hist th) ++
  match ph th, todo th with Held r, o :: _ => [(o, r)] | _, _ => [] end.
Definition program_left (th : thr) : list cop :=
  map (fun h => fst (fst (fst h))) (hist th) ++ todo th.

Definition cop_in (o : cop) : list item :=
  match o with
  | CPushFront x | CPushBack x | CPushSorted x => [x]
  | CChainFront xs | CChainBack xs | CChainSorted xs => xs
  | _ => []
  end.
Definition cres_out (r : cres) : list item :=
  match r with CItem x => [x] | CItems l => l | _ => [] end.
