(* Arrival of the termination notification at one process
   (parsec_termdet_user_trigger_msg_dispatch versus parsec_taskpool registration and
   parsec_termdet_user_trigger_taskpool_ready, termdet_user_trigger_module.c).

   Two threads: the communication thread runs msg_dispatch for the one notification this process
   receives (exactly-once delivery is C14's business); the main thread registers the taskpool
   and makes it ready.  One step = the code between two scheduling points of the harness
   (before each taskpool lookup, before each lock attempt on the delayed-message list, before
   each unlock; a failed lock attempt is a stutter step).

   state = (cpc, mpc, tp, lock, parked, delivered, bad)
     cpc  0 not started, 1 before lookup 1, 2 before lock, 3 before lookup 2 (lock held),
          4 before unlock then deliver, 5 before unlock (message parked), 6 done
     mpc  0 not started, 1 before register, 2 before ready, 3 before lock, 4 before unlock, 5 done
     tp   0 not registered, 1 registered NOT_READY, 2 BUSY, 3 TERMINATED
     lock 0 free, 1 communication thread, 2 main thread
     parked     messages in parsec_termdet_user_trigger_delayed_messages
     delivered  calls of msg_dispatch_taskpool (each terminates the taskpool, notifies the children,
                runs the callback)
     bad        deliveries made while the taskpool was not BUSY (the code asserts BUSY there) *)
From Coq Require Import List Arith Bool.
Import ListNotations.

Definition st := (nat * nat * nat * nat * nat * nat * nat)%type.

Definition ready (tp : nat) : bool := 2 <=? tp.     (* registered, monitor set, state <> NOT_READY *)

Definition deliver (s : st) : st :=
  let '(c, m, tp, l, p, d, b) := s in (c, m, 3, l, p, S d, if tp =? 2 then b else S b).

Fixpoint deliver_n (k : nat) (s : st) : st := match k with O => s | S k' => deliver_n k' (deliver s) end.

Definition set_cpc (c' : nat) (s : st) : st := let '(c, m, tp, l, p, d, b) := s in (c', m, tp, l, p, d, b).
Definition set_mpc (m' : nat) (s : st) : st := let '(c, m, tp, l, p, d, b) := s in (c, m', tp, l, p, d, b).
Definition set_lock (l' : nat) (s : st) : st := let '(c, m, tp, l, p, d, b) := s in (c, m, tp, l', p, d, b).

Definition comm_step (s : st) : st :=
  let '(c, m, tp, l, p, d, b) := s in
  match c with
  | 0 => set_cpc 1 s
  | 1 => if ready tp then set_cpc 6 (deliver s) else set_cpc 2 s
  | 2 => if l =? 0 then set_cpc 3 (set_lock 1 s) else s
  | 3 => if ready tp then set_cpc 4 s else (5, m, tp, l, S p, d, b)
  | 4 => set_cpc 6 (deliver (set_lock 0 s))
  | 5 => set_cpc 6 (set_lock 0 s)
  | _ => s
  end.

Definition main_step (s : st) : st :=
  let '(c, m, tp, l, p, d, b) := s in
  match m with
  | 0 => set_mpc (if tp =? 0 then 1 else 2) s
  | 1 => (c, 2, 1, l, p, d, b)
  | 2 => (c, 3, 2, l, p, d, b)
  | 3 => if l =? 0 then set_mpc 4 (deliver_n p (c, m, tp, 2, 0, d, b)) else s
  | 4 => set_mpc 5 (set_lock 0 s)
  | _ => s
  end.

Definition step (s : st) (t : nat) : st := match t with 0 => comm_step s | 1 => main_step s | _ => s end.
Definition run (sched : list nat) (s : st) : st := fold_left step sched s.

(* the three situations in which the notification can find the process: taskpool not registered
   yet, registered but not ready, already ready (then the main thread has nothing left to do) *)
Definition init (ini : nat) : st :=
  match ini with
  | 0 => (0, 0, 0, 0, 0, 0, 0)
  | 1 => (0, 0, 1, 0, 0, 0, 0)
  | _ => (0, 5, 2, 0, 0, 0, 0)
  end.

Definition finished (s : st) : bool := let '(c, m, _, _, _, _, _) := s in (c =? 6) && (m =? 5).
Definition delivered (s : st) : nat := let '(_, _, _, _, _, d, _) := s in d.
Definition parked (s : st) : nat := let '(_, _, _, _, p, _, _) := s in p.
Definition bad (s : st) : nat := let '(_, _, _, _, _, _, b) := s in b.
Definition lock_of (s : st) : nat := let '(_, _, _, l, _, _, _) := s in l.
Definition tp_of (s : st) : nat := let '(_, _, tp, _, _, _, _) := s in tp.

(* the variant without the second lookup under the lock (the re-check re-tests what the first,
   unlocked lookup returned): kept to show that the second lookup is necessary *)
Definition comm_step_stale (seen : nat) (s : st) : st :=
  let '(c, m, tp, l, p, d, b) := s in
  match c with
  | 3 => if ready (if seen =? 0 then 0 else tp) then set_cpc 4 s else (5, m, tp, l, S p, d, b)
  | _ => comm_step s
  end.
