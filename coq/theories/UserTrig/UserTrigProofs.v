From PV Require Import Base.Tac UserTrig.UserTrigDefs.
Local Open Scope Z_scope.

Lemma mod_wrap x n : 0 < n -> 0 <= x < 2*n -> x mod n = if x <? n then x else x - n.
Proof.
  intros Hn Hx. destruct (x <? n) eqn:E.
  - apply Z.mod_small; lia.
  - symmetry; apply (Z.mod_unique_pos x n 1 (x - n)); lia.
Qed.

Lemma shifted_spec n root me : 0 < n -> 0 <= root < n -> 0 <= me < n ->
  shifted n root me = if root <=? me then me - root else me - root + n.
Proof. intros; unfold shifted; rewrite mod_wrap by lia.
  destruct (me - root + n <? n) eqn:E1, (root <=? me) eqn:E2; lia. Qed.

Lemma unshift_spec n root x : 0 < n -> 0 <= root < n -> 0 <= x < n ->
  (x + root) mod n = if x + root <? n then x + root else x + root - n.
Proof. intros; apply mod_wrap; lia. Qed.

Lemma shifted_range n root me : 0 < n -> 0 <= root < n -> 0 <= me < n ->
  0 <= shifted n root me < n.
Proof. intros; rewrite shifted_spec by lia; destruct (root <=? me) eqn:E; lia. Qed.

Lemma shifted_root n root : 0 < n -> 0 <= root < n -> shifted n root root = 0.
Proof. intros; rewrite shifted_spec by lia. destruct (root <=? root) eqn:E; lia. Qed.

Lemma shifted_inj n root a b : 0 < n -> 0 <= root < n -> 0 <= a < n -> 0 <= b < n ->
  shifted n root a = shifted n root b -> a = b.
Proof. intros Hn Hr Ha Hb. rewrite !shifted_spec by lia.
  destruct (root <=? a) eqn:E1, (root <=? b) eqn:E2; lia. Qed.

Lemma nb_children_spec n s i : 0 <= s -> (0 <= i < nb_children n s <-> 0 <= i < 2 /\ 2*s + i + 1 < n).
Proof. intros; unfold nb_children.
  destruct (2*s + 2 <? n) eqn:E1; [|destruct (2*s + 1 <? n) eqn:E2]; lia. Qed.

(* a notification goes to the rank whose shifted position is 2s+i+1 *)
Lemma sends_shifted n root me i r : 0 < n -> 0 <= root < n -> 0 <= me < n -> 0 <= r < n ->
  (sends n root me i r <-> 0 <= i < 2 /\ shifted n root r = 2 * shifted n root me + i + 1).
Proof.
  intros Hn Hroot Hme Hr. unfold sends.
  pose proof (shifted_range n root me Hn Hroot Hme) as Hs.
  pose proof (shifted_spec n root me Hn Hroot Hme) as Hse.
  pose proof (shifted_spec n root r Hn Hroot Hr) as Hre.
  set (s := shifted n root me) in *. set (r' := shifted n root r) in *.
  rewrite nb_children_spec by lia. unfold real_child. split.
  - intros [[Hi Hlt] Hc]. split; [lia|].
    replace (2 * s + i + 1 + root) with ((2 * s + i + 1) + root) in Hc by lia.
    rewrite unshift_spec in Hc by lia.
    destruct (2 * s + i + 1 + root <? n) eqn:E1, (root <=? r) eqn:E2; lia.
  - intros [Hi Heq].
    assert (r' < n) by (destruct (root <=? r) eqn:E; lia).
    split; [lia|].
    replace (2 * s + i + 1 + root) with ((2 * s + i + 1) + root) by lia.
    rewrite unshift_spec by lia.
    destruct (2 * s + i + 1 + root <? n) eqn:E1, (root <=? r) eqn:E2; lia.
Qed.

Theorem exactly_one_sender n root r :
  0 < n -> 0 <= root < n -> 0 <= r < n -> r <> root ->
  exists me i, 0 <= me < n /\ sends n root me i r /\
    forall me' i', 0 <= me' < n -> sends n root me' i' r -> me' = me /\ i' = i.
Proof.
  intros Hn Hroot Hr Hne.
  pose proof (shifted_range n root r Hn Hroot Hr) as Hrr.
  assert (Hr1 : 1 <= shifted n root r).
  { destruct (Z.eq_dec (shifted n root r) 0) as [E|]; [|lia].
    exfalso; apply Hne. apply (shifted_inj n root); try lia.
    rewrite shifted_root by lia. exact E. }
  set (r' := shifted n root r) in *.
  set (p' := (r' - 1) / 2). set (i := (r' - 1) mod 2).
  assert (Hp : r' - 1 = 2 * p' + i /\ 0 <= i < 2 /\ 0 <= p').
  { unfold p', i. pose proof (Z.div_mod (r'-1) 2). pose proof (Z.mod_pos_bound (r'-1) 2).
    assert (0 <= (r'-1)/2) by (apply Z.div_pos; lia). lia. }
  set (me := (p' + root) mod n).
  assert (Hp'n : 0 <= p' < n) by lia.
  pose proof (unshift_spec n root p' Hn Hroot Hp'n) as Hme_eq. fold me in Hme_eq.
  assert (Hme : 0 <= me < n) by (destruct (p' + root <? n) eqn:E; lia).
  assert (Hs : shifted n root me = p').
  { rewrite shifted_spec by lia. destruct (p' + root <? n) eqn:E1, (root <=? me) eqn:E2; lia. }
  exists me, i. split; [exact Hme|]. split.
  - apply sends_shifted; try lia; fold r'; rewrite Hs; lia.
  - intros me' i' Hme' Hsd. apply sends_shifted in Hsd; try lia. fold r' in Hsd.
    pose proof (shifted_range n root me' Hn Hroot Hme').
    assert (shifted n root me' = p' /\ i' = i) as [E1 E2] by lia.
    split; [|exact E2]. apply (shifted_inj n root); try lia.
Qed.

Theorem root_has_no_sender n root me i :
  0 < n -> 0 <= root < n -> 0 <= me < n -> ~ sends n root me i root.
Proof.
  intros Hn Hroot Hme Hsd. apply sends_shifted in Hsd; try lia.
  rewrite shifted_root in Hsd by lia.
  pose proof (shifted_range n root me Hn Hroot Hme). lia.
Qed.

(* every rank is triggered: strong induction on the shifted position *)
Theorem all_triggered n root r :
  0 < n -> 0 <= root < n -> 0 <= r < n -> Triggered n root r.
Proof.
  intros Hn Hroot. 
  assert (H : forall k, 0 <= k -> forall r, 0 <= r < n -> shifted n root r <= k -> Triggered n root r).
  { intros k Hk. pattern k. apply natlike_ind; [| |exact Hk].
    - intros r0 Hr0 Hle. pose proof (shifted_range n root r0 Hn Hroot Hr0).
      assert (r0 = root).
      { apply (shifted_inj n root); try lia. rewrite shifted_root by lia. lia. }
      subst; constructor.
    - intros k0 Hk0 IH r0 Hr0 Hle.
      destruct (Z.eq_dec r0 root) as [->|Hne]; [constructor|].
      destruct (exactly_one_sender n root r0 Hn Hroot Hr0 Hne) as (me & i & Hme & Hsd & _).
      apply (T_child n root me i r0); auto.
      apply IH; auto. apply sends_shifted in Hsd; [|lia..].
      pose proof (shifted_range n root me Hn Hroot Hme). lia. }
  intros Hr. apply (H n); try lia.
  pose proof (shifted_range n root r Hn Hroot Hr). lia.
Qed.

(* only ranks inside the communicator are ever addressed *)
Lemma sends_in_range n root me i r : 0 < n -> sends n root me i r -> 0 <= r < n.
Proof. intros Hn [_ <-]. unfold real_child. apply Z.mod_pos_bound; lia. Qed.

(* the executable child list is exactly the [sends] relation *)
Lemma children_spec n root me r : 0 <= shifted n root me ->
  In r (children n root me) <-> exists i, sends n root me i r.
Proof.
  intros Hs. unfold children, sends. rewrite in_map_iff. split.
  - intros (i & <- & Hi). apply in_map_iff in Hi. destruct Hi as (k & <- & Hk).
    apply in_seq in Hk. exists (Z.of_nat k). split; [|reflexivity].
    assert (0 <= nb_children n (shifted n root me)) by (unfold nb_children; iflia). lia.
  - intros (i & Hi & <-). exists i. split; [reflexivity|].
    apply in_map_iff. exists (Z.to_nat i). split; [lia|]. apply in_seq. lia.
Qed.

Lemma children_NoDup n root me : 0 < n -> 0 <= root < n -> 0 <= me < n ->
  NoDup (children n root me).
Proof.
  intros Hn Hroot Hme. unfold children.
  pose proof (shifted_range n root me Hn Hroot Hme) as Hs.
  set (s := shifted n root me) in *. unfold nb_children.
  assert (Hrc : forall i, 0 <= i < 2 -> 2*s+i+1 < n ->
     real_child n root s i = if 2*s+i+1+root <? n then 2*s+i+1+root else 2*s+i+1+root-n).
  { intros i Hi Hlt. unfold real_child. apply mod_wrap; lia. }
  destruct (2*s + 2 <? n) eqn:E1; [|destruct (2*s + 1 <? n) eqn:E2]; cbn.
  - constructor; [|constructor; [intros []|constructor]].
    change (Z.of_nat 0) with 0; change (Z.of_nat 1) with 1.
    intros [H|[]]. rewrite (Hrc 0), (Hrc 1) in H by lia. iflia.
  - constructor; [intros []|constructor].
  - constructor.
Qed.
