From PV Require Import Base.Tac UserTrig.CountDefs.
Local Open Scope Z_scope.

(* invariant of disciplined histories: termination has been signalled exactly when the monitor is
   TERMINATED, and then once; the pending-action count is 0 before ready, at least 1 while BUSY (the
   tasks count as one action until the trigger), never negative afterwards *)
Definition cinv (s : cst) : Prop :=
  match c_state s with
  | NotReady => c_sig s = 0%nat /\ c_pa s = 0
  | Busy => c_sig s = 0%nat /\ 1 <= c_pa s
  | Terminated => c_sig s = 1%nat /\ 0 <= c_pa s
  end.

Lemma cinv_init : cinv cinit.
Proof. unfold cinv, cinit; cbn. split; reflexivity. Qed.

Lemma add_actions_inv v s : cinv s -> c_state s <> NotReady -> 0 <= c_pa s + v -> cinv (add_actions v s).
Proof.
  intros H Hn Hp. unfold add_actions. destruct (Z.eqb_spec v 0) as [->|Hv]; [exact H|].
  unfold is_busy, cinv in *. destruct (c_state s) eqn:E; cbn [andb]; [congruence| |].
  - destruct (Z.eqb_spec (c_pa s + v) 0) as [Hz|Hz].
    + unfold signal; cbn. destruct H as [H1 H2]. rewrite H1. split; [reflexivity|lia].
    + cbn. try rewrite E. destruct H as [H1 H2]. split; [exact H1|lia].
  - cbn. try rewrite E. destruct H as [H1 H2]. split; [exact H1|lia].
Qed.

Lemma cstep_inv s o : cinv s -> allowed s o = true -> cinv (cstep s o).
Proof.
  intros H Ha. destruct o as [| |v|v|v|v]; cbn [cstep allowed] in *.
  - unfold cinv in *. destruct (c_state s) eqn:E; try discriminate. cbn. destruct H as [H1 H2]. split; [exact H1|lia].
  - apply andb_true_iff in Ha. destruct Ha as [Hb _]. unfold is_busy in Hb.
    destruct (c_state s) eqn:E; try discriminate.
    apply add_actions_inv; cbn.
    + unfold cinv in *. cbn. try rewrite E in *. exact H.
    + try rewrite E. discriminate.
    + unfold cinv in H. rewrite E in H. lia.
  - destruct (v =? 0); [discriminate|exact H].
  - exact H.
  - apply andb_true_iff in Ha. destruct Ha as [Hp Hs]. apply Z.leb_le in Hp.
    apply add_actions_inv; [exact H| |exact Hp]. revert Hs. destruct (c_state s); intros Hs; [discriminate Hs|discriminate|discriminate].
  - apply andb_true_iff in Ha. destruct Ha as [Hp Hs]. apply Z.leb_le in Hp.
    revert Hs. unfold is_busy, cinv in *. destruct (c_state s) eqn:E; intros Hs; cbn [andb]; [discriminate Hs| |].
    + destruct (Z.eqb_spec v 0) as [->|Hv].
      * unfold signal; cbn. destruct H as [H1 _]. rewrite H1. split; [reflexivity|lia].
      * cbn. try rewrite E. destruct H as [H1 _]. split; [exact H1|lia].
    + cbn. try rewrite E. destruct H as [H1 _]. split; [exact H1|exact Hp].
Qed.

Lemma crun_inv ops : forall s, cinv s -> disciplined s ops = true -> cinv (crun ops s).
Proof.
  induction ops as [|o ops IH]; intros s H D; cbn [crun fold_left disciplined] in *; [exact H|].
  apply andb_true_iff in D. destruct D as [Da Dr]. apply IH; [apply cstep_inv; assumption|exact Dr].
Qed.

(* for every disciplined history of one process: termination is signalled (children notified,
   callback run) at most once; it has been signalled exactly when the monitor is TERMINATED; and as
   soon as the taskpool is ready and no action is pending (the trigger has released the tasks'
   action and every runtime action is retired) it HAS been signalled - in particular actions added
   and retired after the termination do not signal it again *)
Theorem count_exactly_once ops : disciplined cinit ops = true ->
  let s := crun ops cinit in
  (c_sig s <= 1)%nat /\ (c_sig s = 1%nat <-> c_state s = Terminated) /\
  (c_state s <> NotReady -> c_pa s = 0 -> c_sig s = 1%nat).
Proof.
  intros D s. assert (H : cinv s) by (apply crun_inv; [apply cinv_init|exact D]).
  unfold cinv in H. destruct (c_state s) eqn:E; destruct H as [H1 H2]; rewrite H1.
  - split; [lia|]. split; [split; [discriminate|discriminate]|]. intros Hn; congruence.
  - split; [lia|]. split; [split; [discriminate|discriminate]|]. intros _ Hp. lia.
  - split; [lia|]. split; [split; reflexivity|]. intros _ _. reflexivity.
Qed.

(* the guard of the signalling calls must test the monitor state: with a guard that only tests
   "nb_tasks has been set to 0", an action added and retired after the termination signals again *)
Definition add_actions_tasks0 (v : Z) (s : cst) : cst :=
  if v =? 0 then s else
  let s' := {| c_state := c_state s; c_tasks0 := c_tasks0 s; c_pa := c_pa s + v; c_sig := c_sig s |} in
  if c_tasks0 s && (c_pa s + v =? 0) then signal s' else s'.
Theorem state_guard_necessary :
  let s1 := add_actions_tasks0 (-1) {| c_state := Busy; c_tasks0 := true; c_pa := 1; c_sig := 0 |} in
  c_sig s1 = 1%nat /\ c_sig (add_actions_tasks0 (-1) (add_actions_tasks0 1 s1)) = 2%nat.
Proof. vm_compute. split; reflexivity. Qed.
