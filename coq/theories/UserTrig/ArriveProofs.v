(* Every interleaving of the arrival protocol delivers the notification exactly once.
   The state space reachable from the three initial situations is finite; it is computed once
   (closure under both threads' steps, checked by the kernel) and every schedule stays in it. *)
From PV Require Import Base.Tac UserTrig.ArriveDefs.
From Coq Require Import List Arith Bool.
Import ListNotations.

Definition st_eqb (a b : st) : bool :=
  let '(a1, a2, a3, a4, a5, a6, a7) := a in let '(b1, b2, b3, b4, b5, b6, b7) := b in
  (a1 =? b1) && (a2 =? b2) && (a3 =? b3) && (a4 =? b4) && (a5 =? b5) && (a6 =? b6) && (a7 =? b7).

Lemma st_eqb_eq a b : st_eqb a b = true <-> a = b.
Proof.
  destruct a as [[[[[[a1 a2] a3] a4] a5] a6] a7], b as [[[[[[b1 b2] b3] b4] b5] b6] b7]. unfold st_eqb.
  rewrite !andb_true_iff, !Nat.eqb_eq. split.
  - intros [[[[[[-> ->] ->] ->] ->] ->] ->]. reflexivity.
  - intros H. inversion H. repeat split; reflexivity.
Qed.

Definition mem (s : st) (l : list st) : bool := existsb (st_eqb s) l.
Lemma mem_In s l : mem s l = true <-> In s l.
Proof. unfold mem. rewrite existsb_exists. split.
  - intros (x & Hx & He). apply st_eqb_eq in He. subst. assumption.
  - intros H. exists s. split; [assumption|]. apply st_eqb_eq. reflexivity. Qed.

Definition add (s : st) (l : list st) : list st := if mem s l then l else l ++ [s].
Fixpoint close (fuel : nat) (l : list st) : list st :=
  match fuel with
  | O => l
  | S f => close f (fold_left (fun acc s => add (main_step s) (add (comm_step s) acc)) l l)
  end.

Definition reach : list st := Eval vm_compute in close 16 [init 0; init 1; init 2].

Lemma reach_init ini : In (init ini) reach.
Proof. destruct ini as [|[|k]]; apply mem_In; vm_compute; reflexivity. Qed.

Lemma reach_closed : forallb (fun s => mem (comm_step s) reach && mem (main_step s) reach) reach = true.
Proof. vm_compute. reflexivity. Qed.

Lemma reach_step s t : In s reach -> In (step s t) reach.
Proof.
  intros H. pose proof reach_closed as C. rewrite forallb_forall in C. specialize (C s H).
  apply andb_true_iff in C. destruct C as [C0 C1].
  destruct t as [|[|t]]; cbn [step]; [apply mem_In, C0|apply mem_In, C1|exact H].
Qed.

Lemma reach_run sched : forall s, In s reach -> In (run sched s) reach.
Proof. induction sched as [|t sched IH]; intros s H; cbn [run fold_left]; [exact H|]. apply IH, reach_step, H. Qed.

Definition good (s : st) : bool :=
  (delivered s <=? 1) && (bad s =? 0) && (parked s + delivered s <=? 1) &&
  (if finished s then (delivered s =? 1) && (parked s =? 0) && (lock_of s =? 0) && (tp_of s =? 3) else true).

Lemma reach_good : forallb good reach = true.
Proof. vm_compute. reflexivity. Qed.

(* safety, and exactness at the end, for every schedule *)
Theorem arrival_exactly_once ini sched :
  let s := run sched (init ini) in
  delivered s <= 1 /\ bad s = 0 /\ parked s + delivered s <= 1 /\
  (finished s = true -> delivered s = 1 /\ parked s = 0 /\ lock_of s = 0 /\ tp_of s = 3).
Proof.
  intros s. assert (H : In s reach) by apply reach_run, reach_init.
  pose proof reach_good as G. rewrite forallb_forall in G. specialize (G s H). unfold good in G.
  apply andb_true_iff in G. destruct G as [G G4]. apply andb_true_iff in G. destruct G as [G G3].
  apply andb_true_iff in G. destruct G as [G1 G2].
  apply Nat.leb_le in G1. apply Nat.eqb_eq in G2. apply Nat.leb_le in G3.
  split; [exact G1|]. split; [exact G2|]. split; [exact G3|].
  intros F. rewrite F in G4.
  apply andb_true_iff in G4. destruct G4 as [G4 G8]. apply andb_true_iff in G4. destruct G4 as [G4 G7].
  apply andb_true_iff in G4. destruct G4 as [G5 G6].
  apply Nat.eqb_eq in G5. apply Nat.eqb_eq in G6. apply Nat.eqb_eq in G7. apply Nat.eqb_eq in G8.
  repeat split; assumption.
Qed.

(* progress: from every reachable state, six rounds that schedule both threads finish both
   (nobody waits for ever on the list lock, no message stays parked) *)
Definition rounds (k : nat) : list nat := concat (repeat [0; 1] k).
Lemma reach_finishes : forallb (fun s => finished (run (rounds 6) s)) reach = true.
Proof. vm_compute. reflexivity. Qed.

Theorem arrival_terminates ini sched : finished (run (rounds 6) (run sched (init ini))) = true.
Proof.
  pose proof reach_finishes as F. rewrite forallb_forall in F. apply F, reach_run, reach_init.
Qed.

(* without the second lookup under the lock the notification can be parked for ever: the
   communication thread looks the taskpool up before it is registered, the main thread registers
   it, makes it ready and replays the (empty) list, then the message is parked *)
Definition step_stale (seen : nat) (s : st) (t : nat) : st :=
  match t with 0 => comm_step_stale seen s | _ => step s t end.
Theorem stale_recheck_refuted :
  exists sched, let s := fold_left (step_stale 0) sched (init 0) in
    finished s = true /\ delivered s = 0 /\ parked s = 1.
Proof. exists [0; 0; 1; 1; 1; 1; 1; 0; 0; 0]. vm_compute. repeat split. Qed.
