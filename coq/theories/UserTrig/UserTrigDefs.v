(* Executable model of the user-trigger termination broadcast
   (parsec/mca/termdet/user_trigger/termdet_user_trigger_module.c,
   parsec_termdet_signal_termination): a process that terminates notifies its
   children in a binary tree laid over the ranks shifted so that the root is 0. *)
From Coq Require Import ZArith List.
Import ListNotations.
Local Open Scope Z_scope.

(* int my_rank = (ctx->my_rank - monitor->root + nb_nodes) % nb_nodes; *)
Definition shifted (n root me : Z) : Z := (me - root + n) mod n.
(* 2*my_rank + 2 < nb_nodes ? 2 : (2*my_rank + 1 < nb_nodes ? 1 : 0) *)
Definition nb_children (n s : Z) : Z :=
  if 2*s + 2 <? n then 2 else if 2*s + 1 <? n then 1 else 0.
(* child = 2*my_rank + i + 1; real_child = (child + root) % nb_nodes *)
Definition real_child (n root s i : Z) : Z := (2*s + i + 1 + root) mod n.

(* destinations of the send_am calls of one process, in call order *)
Definition children (n root me : Z) : list Z :=
  let s := shifted n root me in
  map (fun i => real_child n root s i) (map Z.of_nat (seq 0 (Z.to_nat (nb_children n s)))).

(* process [me] sends its i-th notification to [r] *)
Definition sends (n root me i r : Z) : Prop :=
  0 <= i < nb_children n (shifted n root me) /\ real_child n root (shifted n root me) i = r.

(* the processes that get triggered: the root (by the user), then every
   destination of a triggered process *)
Inductive Triggered (n root : Z) : Z -> Prop :=
| T_root : Triggered n root root
| T_child me i r : Triggered n root me -> 0 <= me < n -> sends n root me i r -> Triggered n root r.

(* whole-system run, executable: breadth-first rounds from the root; returns
   every notification (sender, receiver) that is sent *)
Fixpoint rounds (fuel : nat) (n root : Z) (frontier : list Z) : list (Z * Z) :=
  match fuel with
  | O => []
  | S f =>
      let msgs := flat_map (fun me => map (fun r => (me, r)) (children n root me)) frontier in
      match msgs with
      | [] => []
      | _ => msgs ++ rounds f n root (map snd msgs)
      end
  end.
Definition all_messages (n root : Z) : list (Z * Z) := rounds (Z.to_nat n) n root [root].
Definition received_count (n root r : Z) : nat :=
  length (filter (fun m => Z.eqb (snd m) r) (all_messages n root)).
