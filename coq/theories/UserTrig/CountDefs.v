(* The per-process counter protocol of the user-trigger termination module
   (termdet_user_trigger_module.c): monitor state, nb_tasks, nb_pending_actions, and the calls that
   may signal termination (parsec_termdet_signal_termination: state := TERMINATED, notify the
   children, run the callback).  Sequential semantics of one process; every call of the module's
   interface is one operation.  Mirrors the code as compiled (assertions off), so any operation is
   defined in any state. *)
From Coq Require Import ZArith List Bool.
Import ListNotations.
Local Open Scope Z_scope.

Inductive mstate := NotReady | Busy | Terminated.
Record cst := { c_state : mstate;
                c_tasks0 : bool;      (* nb_tasks has been set to 0 (it starts UNDETERMINED) *)
                c_pa : Z;             (* nb_pending_actions *)
                c_sig : nat }.        (* calls of parsec_termdet_signal_termination *)

Inductive cop :=
| OReady                 (* taskpool_ready *)
| OTrigger               (* taskpool_set_nb_tasks(tp, 0): the user's trigger, or the notification's dispatch *)
| OSetTasks (v : Z)      (* taskpool_set_nb_tasks(tp, v) *)
| OAddTasks (v : Z)      (* taskpool_addto_nb_tasks *)
| OAddActions (v : Z)    (* taskpool_addto_runtime_actions *)
| OSetActions (v : Z).   (* taskpool_set_runtime_actions *)

Definition cinit : cst := {| c_state := NotReady; c_tasks0 := false; c_pa := 0; c_sig := 0 |}.

Definition is_busy (s : cst) : bool := match c_state s with Busy => true | _ => false end.

Definition signal (s : cst) : cst :=
  {| c_state := Terminated; c_tasks0 := c_tasks0 s; c_pa := c_pa s; c_sig := S (c_sig s) |}.

Definition add_actions (v : Z) (s : cst) : cst :=
  if v =? 0 then s else
  let s' := {| c_state := c_state s; c_tasks0 := c_tasks0 s; c_pa := c_pa s + v; c_sig := c_sig s |} in
  if is_busy s && (c_pa s + v =? 0) then signal s' else s'.

Definition cstep (s : cst) (o : cop) : cst :=
  match o with
  | OReady => {| c_state := Busy; c_tasks0 := c_tasks0 s; c_pa := c_pa s + 1; c_sig := c_sig s |}
  | OTrigger => add_actions (-1) {| c_state := c_state s; c_tasks0 := true; c_pa := c_pa s; c_sig := c_sig s |}
  | OSetTasks v => if v =? 0 then add_actions (-1) {| c_state := c_state s; c_tasks0 := true; c_pa := c_pa s; c_sig := c_sig s |}
                   else s
  | OAddTasks _ => s
  | OAddActions v => add_actions v s
  | OSetActions v =>
      let s' := {| c_state := c_state s; c_tasks0 := c_tasks0 s; c_pa := v; c_sig := c_sig s |} in
      if is_busy s && (v =? 0) then signal s' else s'
  end.

Definition crun (ops : list cop) (s : cst) : cst := fold_left cstep ops s.

(* the discipline the runtime follows: ready once and first, the trigger once and after ready,
   runtime actions never driving the count below zero, nothing but paired actions once terminated *)
Definition allowed (s : cst) (o : cop) : bool :=
  match o with
  | OReady => match c_state s with NotReady => true | _ => false end
  | OTrigger => is_busy s && negb (c_tasks0 s)
  | OSetTasks v => negb (v =? 0)
  | OAddTasks _ => true
  | OAddActions v => (0 <=? c_pa s + v) && (match c_state s with NotReady => false | _ => true end)
  | OSetActions v => (0 <=? v) && (match c_state s with NotReady => false | _ => true end)
  end.

Fixpoint disciplined (s : cst) (ops : list cop) : bool :=
  match ops with
  | [] => true
  | o :: rest => allowed s o && disciplined (cstep s o) rest
  end.
