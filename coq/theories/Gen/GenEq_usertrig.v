(* The child formula of the UserTrig model is the text of parsec_termdet_signal_termination
   (termdet_user_trigger_module.c): the initialisers of its locals my_rank, nb_children, child and
   real_child, translated from the current C text by tools/c2gallina.py on every run of the C12
   check (Gen_usertrig.v), equal the model's shifted / nb_children / real_child for every job size
   n, root and rank of the job (ints that do not overflow: the C remainder is on non-negative values). *)
From PV Require Import Base.Tac UserTrig.UserTrigDefs Gen.Gen_usertrig.
Local Open Scope Z_scope.

Lemma my_rank_eq n root me : 0 < n -> 0 <= root < n -> 0 <= me < n ->
  parsec_termdet_signal_termination__my_rank me root n = shifted n root me.
Proof. intros Hn Hr Hm. unfold parsec_termdet_signal_termination__my_rank, shifted.
  apply Z.rem_mod_nonneg; lia. Qed.

Lemma nb_children_eq n s :
  parsec_termdet_signal_termination__nb_children s n = nb_children n s.
Proof. reflexivity. Qed.

Lemma real_child_eq n root s i : 0 < n -> 0 <= root -> 0 <= s -> 0 <= i ->
  parsec_termdet_signal_termination__real_child (parsec_termdet_signal_termination__child s i) root n
  = real_child n root s i.
Proof. intros Hn Hr Hs Hi. unfold parsec_termdet_signal_termination__real_child,
  parsec_termdet_signal_termination__child, real_child. apply Z.rem_mod_nonneg; lia. Qed.

(* the destinations computed by the C text are the model's [children] *)
Theorem children_are_the_code n root me : 0 < n -> 0 <= root < n -> 0 <= me < n ->
  let s := parsec_termdet_signal_termination__my_rank me root n in
  map (fun i => parsec_termdet_signal_termination__real_child (parsec_termdet_signal_termination__child s i) root n)
      (map Z.of_nat (seq 0 (Z.to_nat (parsec_termdet_signal_termination__nb_children s n))))
  = children n root me.
Proof.
  intros Hn Hr Hm s. unfold s, children. rewrite my_rank_eq, nb_children_eq by assumption.
  assert (Hs : 0 <= shifted n root me) by (unfold shifted; apply Z.mod_pos_bound; lia).
  rewrite map_map. rewrite map_map. apply map_ext. intros i. apply real_child_eq; lia.
Qed.
