(* The broadcast child predicates of the Bcast model are the C functions of
   parsec/remote_dep.c, as translated from the current C text by tools/c2gallina.py
   (Gen_bcast.v is regenerated on every run of the C13 check). *)
From PV Require Import Base.Tac Bcast.BcastDefs Gen.Gen_bcast.
Local Open Scope Z_scope.

Lemma star_eq me him :
  remote_dep_bcast_star_child me him = if star_child me him then 1 else 0.
Proof. reflexivity. Qed.

Lemma chain_eq me him :
  remote_dep_bcast_chainpipeline_child me him = if chain_child me him then 1 else 0.
Proof.
  unfold remote_dep_bcast_chainpipeline_child, chain_child.
  change (- (1)) with (-1). destruct (me =? -1); [reflexivity|]. destruct (him =? me + 1); reflexivity.
Qed.

Lemma land_pow2_testbit x j : 0 <= j ->
  (Z.land x (2 ^ j) =? 0) = negb (Z.testbit x j).
Proof.
  intros Hj. destruct (Z.testbit x j) eqn:E; cbn [negb].
  - apply Z.eqb_neq. intros H.
    assert (Hb : Z.testbit (Z.land x (2 ^ j)) j = true).
    { rewrite Z.land_spec, E, Z.pow2_bits_true by lia. reflexivity. }
    rewrite H, Z.bits_0 in Hb. discriminate.
  - apply Z.eqb_eq. apply Z.bits_inj'. intros i Hi.
    rewrite Z.land_spec, Z.bits_0, Z.pow2_bits_eqb by lia.
    destruct (Z.eqb_spec j i) as [->|]; [rewrite E|]; cbn; auto using andb_false_r.
Qed.

Lemma loop_eq me : forall kk fuel him mask, (kk < fuel)%nat ->
  exists k' m', remote_dep_bcast_binomial_child_loop1 fuel me him (Z.of_nat kk - 1) mask
                = CNext [me; clear_top kk him; k'; m'].
Proof.
  induction kk as [|j IH]; intros fuel him mask Hf.
  - destruct fuel as [|f]; [lia|]. cbn [remote_dep_bcast_binomial_child_loop1].
    change (Z.of_nat 0 - 1) with (-1). cbn. eauto.
  - destruct fuel as [|f]; [lia|]. cbn [remote_dep_bcast_binomial_child_loop1 clear_top].
    replace (Z.of_nat (S j) - 1) with (Z.of_nat j) by lia.
    assert (Hge : (Z.of_nat j >=? 0) = true) by lia. rewrite Hge.
    rewrite Z.shiftl_1_l, land_pow2_testbit by lia.
    destruct (Z.testbit him (Z.of_nat j)); cbn [negb].
    + eauto.
    + apply IH. lia.
Qed.

Theorem binomial_eq me him :
  remote_dep_bcast_binomial_child me him = if binomial_child me him then 1 else 0.
Proof.
  unfold remote_dep_bcast_binomial_child, binomial_child.
  change (- (1)) with (-1).
  destruct (him =? 0); [reflexivity|]. destruct (me =? -1); [reflexivity|].
  match goal with |- context[scast 32 ?e] => replace (scast 32 e) with (Z.of_nat 32 - 1) by (vm_compute; reflexivity) end.
  destruct (loop_eq me 32 40%nat him 0) as (k' & m' & ->); [lia|]. reflexivity.
Qed.

(* what the C13 theorems are about is what the code computes *)
Theorem child_predicates_are_the_code : forall t me him,
  (match t with Star => remote_dep_bcast_star_child me him
              | Chain => remote_dep_bcast_chainpipeline_child me him
              | Binomial => remote_dep_bcast_binomial_child me him end)
  = if child_fn t me him then 1 else 0.
Proof. intros [] me him; [apply star_eq|apply chain_eq|apply binomial_eq]. Qed.
