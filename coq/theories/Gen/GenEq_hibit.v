(* hiBit of the HeapBuf model is the C function hiBit of parsec/maxheap.c, as translated from the
   current C text by tools/c2gallina.py (Gen_hibit.v is regenerated on every run of the C35 check).
   The C function returns int: the equality is for every n below 2^31 (heap sizes; above it the
   conversion to int wraps, which the model does not have). *)
From PV Require Import Base.Tac HeapBuf.HeapBufDefs.
From PV Require Gen.Gen_hibit.
From Coq Require Import NArith ZArith Lia.
Local Open Scope N_scope.

Lemma smear_lt k x s : x < 2 ^ k -> N.lor x (N.shiftr x s) < 2 ^ k.
Proof.
  intros Hx. destruct (N.eq_dec x 0) as [->|Hx0].
  { rewrite N.shiftr_0_l. exact Hx. }
  assert (Hl : N.log2 x < k) by (apply N.log2_lt_pow2; lia).
  destruct (N.eq_dec (N.lor x (N.shiftr x s)) 0) as [->|Hn]; [lia|].
  apply N.log2_lt_pow2; [lia|]. rewrite N.log2_lor, N.log2_shiftr. lia.
Qed.

Lemma shiftr_le x s : N.shiftr x s <= x.
Proof. rewrite N.shiftr_div_pow2. apply N.div_le_upper_bound; [apply N.pow_nonzero; lia|].
  pose proof (N.pow_nonzero 2 s ltac:(lia)) as Hp. nia. Qed.

Lemma inj_lor a b : Z.of_N (N.lor a b) = Z.lor (Z.of_N a) (Z.of_N b).
Proof. destruct a, b; reflexivity. Qed.

Lemma inj_shiftr a s : Z.of_N (N.shiftr a s) = Z.shiftr (Z.of_N a) (Z.of_N s).
Proof.
  rewrite N.shiftr_div_pow2, Z.shiftr_div_pow2 by lia.
  rewrite N2Z.inj_div, N2Z.inj_pow. reflexivity.
Qed.

Theorem hiBit_is_the_code n : n < 2 ^ 31 ->
  Gen.Gen_hibit.hiBit (Z.of_N n) = Z.of_N (hiBit n).
Proof.
  intros Hn. unfold Gen.Gen_hibit.hiBit, hiBit. cbv zeta.
  set (a1 := N.lor n (N.shiftr n 1)). set (a2 := N.lor a1 (N.shiftr a1 2)).
  set (a3 := N.lor a2 (N.shiftr a2 4)). set (a4 := N.lor a3 (N.shiftr a3 8)).
  set (a5 := N.lor a4 (N.shiftr a4 16)).
  assert (H5 : a5 < 2 ^ 31) by (repeat apply smear_lt; exact Hn).
  assert (E : forall a s, Z.lor (Z.of_N a) (Z.shiftr (Z.of_N a) (Zpos s)) = Z.of_N (N.lor a (N.shiftr a (Npos s))))
    by (intros; rewrite inj_lor, inj_shiftr; reflexivity).
  rewrite (E n 1%positive). fold a1. rewrite (E a1 2%positive). fold a2. rewrite (E a2 4%positive). fold a3.
  rewrite (E a3 8%positive). fold a4. rewrite (E a4 16%positive). fold a5.
  change (Z.shiftr (Z.of_N a5) 1) with (Z.shiftr (Z.of_N a5) (Z.of_N 1)). rewrite <- inj_shiftr.
  pose proof (shiftr_le a5 1) as Hle.
  rewrite <- N2Z.inj_sub by exact Hle.
  set (v := a5 - N.shiftr a5 1). assert (Hv : v < 2 ^ 31) by (unfold v; lia).
  change (2 ^ 32 - 1)%Z with (Z.ones 32). rewrite Z.land_ones by lia.
  assert (Hz : (0 <= Z.of_N v < 2 ^ 31)%Z).
  { split; [lia|]. change (2 ^ 31)%Z with (Z.of_N (2 ^ 31)). lia. }
  rewrite Z.mod_small by lia. unfold Gen_hibit.scast.
  change (32 - 1)%Z with 31%Z. rewrite Z.mod_small by lia. lia.
Qed.

Example hiBit_is_the_code_nonvacuous :
  Gen.Gen_hibit.hiBit 1000 = 512%Z /\ hiBit 1000 = 512.
Proof. split; vm_compute; reflexivity. Qed.
