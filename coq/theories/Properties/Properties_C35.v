(* C35 — Task buffers and heaps keep every task and prefer the best.
   Statements only; proofs live in HeapBuf/HeapBuf*Proofs.v.

   Models (HeapBuf/HeapBufDefs.v): parsec/hbbuffer.c as a chain of slot arrays
   whose last parent store is a recorder (push_all, push_all_by_priority,
   pop_best), parsec/maxheap.c as a pointer tree + size + priority field
   (heap_insert, heap_remove, heap_split_and_steal with the hiBit arithmetic).
   Sequential semantics: one call runs to completion (concurrent slot races of
   hbbuffer.c are not part of this property file). *)
From PV Require Import Base.Tac HeapBuf.HeapBufDefs HeapBuf.HeapBufPerm HeapBuf.HeapBufBits
  HeapBuf.HeapBufBufferProofs HeapBuf.HeapBufHeapProofs.
From PV Require Gen.Gen_hibit Gen.GenEq_hibit.
From Coq Require Import Sorted.
Local Open Scope Z_scope.

(* ---- hierarchical bounded buffers ---- *)

(* one operation on any chain of buffers: the tasks in the buffers, the task
   returned and the tasks handed to the top-most parent store are exactly the
   tasks held before plus the pushed ones; no buffer changes capacity *)
Theorem C35_buffer_step_conserves : forall bufs o bufs' r q,
  bstep bufs o = (bufs', (r, q)) ->
  Permutation (held_all bufs' ++ opt r ++ sent q) (held_all bufs ++ pushed o) /\
  map (@length _) bufs' = map (@length _) bufs.
Proof. exact bstep_conserves. Qed.
Print Assumptions C35_buffer_step_conserves.

(* every history of pushes (any rings, any distances) and pops (any level) *)
Theorem C35_buffer_history_conserves : forall ops bufs bufs' rets q,
  brun bufs ops = (bufs', (rets, q)) ->
  Permutation (held_all bufs' ++ rets ++ sent q) (held_all bufs ++ flat_map pushed ops) /\
  map (@length _) bufs' = map (@length _) bufs.
Proof. exact brun_conserves. Qed.
Print Assumptions C35_buffer_history_conserves.

Theorem C35_buffer_bounded : forall ops bufs bufs' out, brun bufs ops = (bufs', out) ->
  map (@length _) bufs' = map (@length _) bufs /\
  Forall (fun b => (length (held b) <= length b)%nat) bufs'.
Proof. exact brun_bounded. Qed.
Print Assumptions C35_buffer_bounded.

(* a quiescent pop_best returns a task of the buffer of maximal priority and
   removes exactly that task *)
Theorem C35_pop_best_is_max : forall b b' r, pop_best b = (b', r) ->
  length b' = length b /\
  match r with
  | None => held b = [] /\ b' = b
  | Some t => In t (held b) /\ (forall x, In x (held b) -> prio x <= prio t) /\
              Permutation (t :: held b') (held b)
  end.
Proof. exact pop_best_spec. Qed.
Print Assumptions C35_pop_best_is_max.

Theorem C35_pop_best_none_iff_empty : forall b, snd (pop_best b) = None <-> held b = [].
Proof. exact pop_best_none_iff. Qed.
Print Assumptions C35_pop_best_none_iff_empty.

(* push_all_by_priority of a ring sorted by non-increasing priority (the
   callers' convention stated in the code): nothing handed to the parent is
   better than anything kept in the buffer *)
Theorem C35_push_prio_keeps_best : forall b up t rest bufs' q,
  StronglySorted (fun a c => prio c <= prio a) (t :: rest) ->
  push_prio (b :: up) (t :: rest) 0 = (bufs', q) ->
  exists b' up' ej, bufs' = b' :: up' /\ pbp b t rest [] = (b', ej) /\
    forall e x, In e ej -> In x (held b') -> prio e <= prio x.
Proof. exact push_prio_keeps_best. Qed.
Print Assumptions C35_push_prio_keeps_best.

(* ---- max-heap ---- *)
(* hinv h: the tree is the complete tree with [hsize h] nodes addressed by the
   bits of size, it is max-heap ordered, and the priority field is the top's *)

Theorem C35_heap_insert : forall h e, hinv h ->
  hinv (heap_insert h e) /\ Permutation (helems (heap_insert h e)) (e :: helems h) /\
  hsize (heap_insert h e) = N.succ (hsize h).
Proof. exact heap_insert_spec. Qed.
Print Assumptions C35_heap_insert.

(* heap_remove: the returned task is a maximum, nothing else moves out, the
   remaining heap (if any) satisfies the invariant with size - 1 *)
Theorem C35_heap_remove : forall oh oh' r, oinv oh -> heap_remove oh = (oh', r) ->
  oinv oh' /\ Permutation (oelems oh) (opt r ++ oelems oh') /\ best_of (oelems oh) r /\
  (forall h h', oh = Some h -> oh' = Some h' -> r <> None -> N.succ (hsize h') = hsize h).
Proof. exact heap_remove_spec. Qed.
Print Assumptions C35_heap_remove.

(* heap_split_and_steal: the top is returned, both halves are heaps whose size
   fields (computed with hiBit from the bits of size) are their node counts *)
Theorem C35_heap_split : forall oh oh1 oh2 r, oinv oh ->
  (forall h, oh = Some h -> (hsize h < 2 ^ 32)%N) ->
  heap_split oh = ((oh1, oh2), r) ->
  oinv oh1 /\ oinv oh2 /\ Permutation (oelems oh) (opt r ++ oelems oh1 ++ oelems oh2) /\
  best_of (oelems oh) r.
Proof. exact heap_split_spec. Qed.
Print Assumptions C35_heap_split.

Theorem C35_heap_top_is_max : forall h, hinv h ->
  (forall y, In y (helems h) -> prio y <= hprio h) /\
  (forall l x r, htree h = Node l x r -> hprio h = prio x) /\
  N.of_nat (length (helems h)) = hsize h.
Proof. exact hinv_fields. Qed.
Print Assumptions C35_heap_top_is_max.

(* one operation on a table of heaps: invariants kept, tasks conserved, and a
   remove / steal returns a maximum of the heap it was applied to *)
Theorem C35_heap_step : forall s o s' r, Forall oinv s ->
  (N.of_nat (length (all_elems s)) < 2 ^ 32)%N ->
  hstep s o = (s', r) ->
  Forall oinv s' /\
  Permutation (all_elems s' ++ opt r) (all_elems s ++ hinserted s [o]) /\
  match o with
  | HRemove i | HSplit i => forall oh, nth_error s i = Some oh -> best_of (oelems oh) r
  | _ => r = None
  end.
Proof. exact hstep_spec. Qed.
Print Assumptions C35_heap_step.

(* every history of create / insert / remove / split: each inserted task is
   either still in exactly one heap or was returned exactly once *)
Theorem C35_heap_history : forall ops s s' rets, Forall oinv s ->
  (N.of_nat (length (all_elems s)) + N.of_nat (length ops) < 2 ^ 32)%N ->
  hrun s ops = (s', rets) ->
  Forall oinv s' /\ Permutation (all_elems s' ++ rets) (all_elems s ++ hinserted s ops).
Proof. exact hrun_spec. Qed.
Print Assumptions C35_heap_history.

(* static inline int hiBit(unsigned int n) is the highest power of two <= n *)
Theorem C35_hiBit : forall n, (0 < n)%N -> (n < 2 ^ 32)%N -> hiBit n = (2 ^ N.log2 n)%N.
Proof. exact hiBit_spec. Qed.
Print Assumptions C35_hiBit.

(* non-vacuity: a buffer of 2 slots with a 1-slot parent, and a heap of 6 tasks *)
Example C35_example :
  let t := fun i p => mkTask i p in
  (* push_all_by_priority [9;4;4] into [5;_]: 9 takes the free slot, the 4s find nothing lower and
     travel up the chain (distance -1 at the parent buffer, -2 at the recorder) *)
  bstep [[Some (t 0 5); None]; [None]] (BPushPrio [t 1 9; t 2 4; t 3 4] 0)
    = ([[Some (t 0 5); Some (t 1 9)]; [None]], (None, [([t 2 4; t 3 4], -2)])) /\
  snd (pop_best [Some (t 0 5); Some (t 1 9)]) = Some (t 1 9) /\
  (* six inserts, then split: sizes 6 -> 2 (right part stays) + 3 (left part) *)
  let h := fold_left heap_insert [t 0 3; t 1 7; t 2 5; t 3 7; t 4 1; t 5 9] heap_create in
  hinv h /\ hsize h = 6%N /\ hprio h = 9 /\
  map tid (preorder (htree h)) = [5; 3; 0; 4; 1; 2] /\
  (match heap_split (Some h) with
   | ((Some a, Some b), Some x) => (hsize a, hsize b, tid x)
   | _ => (0%N, 0%N, -1)
   end) = (2%N, 3%N, 5).
Proof.
  cbv zeta. split; [vm_compute; reflexivity|]. split; [vm_compute; reflexivity|].
  split; [|vm_compute; repeat split; reflexivity].
  cbn [fold_left]. do 6 apply hinv_insert. exact hinv_create.
Qed.

(* translator tie: hiBit of the model is the C function hiBit of parsec/maxheap.c, translated from the
   current C text on every run (Gen/Gen_hibit.v, tools/c2gallina.py), for every heap size below 2^31
   (the C function returns int) *)
Theorem C35_hiBit_is_the_code : forall n : N, (n < 2 ^ 31)%N ->
  PV.Gen.Gen_hibit.hiBit (Z.of_N n) = Z.of_N (hiBit n).
Proof. exact PV.Gen.GenEq_hibit.hiBit_is_the_code. Qed.
Print Assumptions C35_hiBit_is_the_code.
