(* C20 — Block-cyclic data distributions are consistent.
   Statements only; proofs live in Dist/*.v.  The model (Dist/DistDefs.v) follows
   parsec/data_dist/matrix/{matrix,grid_2Dcyclic,two_dim_rectangle_cyclic,
   sym_two_dim_rectangle_cyclic,vector_two_dim_cyclic,two_dim_tabular,
   two_dim_rectangle_cyclic_band}.c.  All statements are for every process grid
   P, Q >= 1, every matrix and tile size, every k-cyclicity kp, kq >= 1 and every
   grid offset 0 <= ip < P, 0 <= jq < Q (wf_bc), every legal submatrix (wf_tmat). *)
From PV Require Import Base.Tac Dist.DistDefs Dist.DistArith Dist.DistBCProofs Dist.DistSymProofs
  Dist.DistMiscProofs Dist.DistKview Dist.DistTop.
Local Open Scope Z_scope.

(* legal arguments of parsec_tiled_matrix_init give a well-formed descriptor *)
Theorem C20_tmat_init_wf : forall st mb nb lm ln i j m n,
  legal_tmat_args mb nb lm ln i j m n -> wf_tmat (tmat_init st mb nb lm ln i j m n).
Proof. exact tmat_init_wf. Qed.
Print Assumptions C20_tmat_init_wf.

(* ---------------- 2D block cyclic, plain and k-cyclic ---------------- *)
Theorem C20_bc_rank_in_range : forall d m n, wf_bc d -> 0 <= bc_rank_of d m n < bP d * bQ d.
Proof. exact bc_rank_in_range. Qed.
Print Assumptions C20_bc_rank_in_range.

(* the slot data_of uses for a tile is inside the owner's data map *)
Theorem C20_bc_slot_in_range : forall d m n, wf_bc d -> wf_tmat (bT d) -> in_sub (bT d) m n ->
  0 <= bc_position d (bc_rank_of d m n) m n < bc_nb_local_tiles d (bc_rank_of d m n).
Proof. exact bc_slot_in_range. Qed.
Print Assumptions C20_bc_slot_in_range.

(* two tiles of one rank never share a slot *)
Theorem C20_bc_slot_injective : forall d m n m' n', wf_bc d -> wf_tmat (bT d) ->
  in_sub (bT d) m n -> in_sub (bT d) m' n' -> bc_rank_of d m n = bc_rank_of d m' n' ->
  bc_position d (bc_rank_of d m n) m n = bc_position d (bc_rank_of d m n) m' n' -> m = m' /\ n = n'.
Proof. exact bc_slot_injective. Qed.
Print Assumptions C20_bc_slot_injective.

(* every slot below nb_local_tiles holds a tile of the matrix: with the two
   theorems above, the local index is a bijection between the tiles a rank owns
   and [0, nb_local_tiles) *)
Theorem C20_bc_slot_onto : forall d r x, wf_bc d -> 0 <= r < bP d * bQ d -> 0 <= x < bc_nb_local_tiles d r ->
  exists M N, 0 <= M < t_lmt (bT d) /\ 0 <= N < t_lnt (bT d) /\
              bc_rank_of_g d M N = r /\ bc_position_g d r M N = x.
Proof. exact bc_slot_onto. Qed.
Print Assumptions C20_bc_slot_onto.

Theorem C20_bc_tiles_sum : forall d, wf_bc d ->
  Zsum (fun r => bc_nb_local_tiles d r) (bP d * bQ d) = t_lmt (bT d) * t_lnt (bT d).
Proof. exact bc_tiles_sum. Qed.
Print Assumptions C20_bc_tiles_sum.

(* data_key / key2coords, and rank_of_key *)
Theorem C20_data_key_roundtrip : forall t m n, wf_tmat t -> in_sub t m n ->
  tm_key2coords t (tm_data_key t m n) = (m, n).
Proof. exact data_key_roundtrip. Qed.
Print Assumptions C20_data_key_roundtrip.

Theorem C20_bc_rank_of_key : forall d m n, wf_tmat (bT d) -> in_sub (bT d) m n ->
  bc_rank_of_key d (tm_data_key (bT d) m n) = bc_rank_of d m n.
Proof. exact bc_rank_of_key_data_key. Qed.
Print Assumptions C20_bc_rank_of_key.

(* the key stored in the parsec_data_t built by data_of maps back to the tile, for every
   kp, kq (the k-cyclic data_of was repaired by fix 12f6606) *)
Theorem C20_bc_kcyclic_stored_key : forall d m n, wf_tmat (bT d) -> in_sub (bT d) m n ->
  tm_key2coords (bT d) (bc_stored_key d m n) = (m, n).
Proof. exact bc_stored_key_roundtrip. Qed.
Print Assumptions C20_bc_kcyclic_stored_key.

Theorem C20_bc_stored_key_injective : forall d m n m' n', wf_tmat (bT d) -> in_sub (bT d) m n ->
  in_sub (bT d) m' n' -> bc_stored_key d m n = bc_stored_key d m' n' -> m = m' /\ n = n'.
Proof. exact bc_stored_key_injective. Qed.
Print Assumptions C20_bc_stored_key_injective.

(* the code before the fix (bc_stored_key_prefix: key built from m, n already reduced modulo
   the k-cyclic period) violated both statements: regression witness *)
Theorem C20_bc_kcyclic_stored_key_prefix_refuted :
  exists d m n m' n', wf_bc d /\ wf_tmat (bT d) /\ in_sub (bT d) m n /\ in_sub (bT d) m' n' /\
    (m, n) <> (m', n') /\ bc_rank_of d m n = bc_rank_of d m' n' /\
    bc_stored_key_prefix d m n = bc_stored_key_prefix d m' n' /\
    tm_key2coords (bT d) (bc_stored_key_prefix d m n) <> (m, n).
Proof. exact bc_kcyclic_stored_key_prefix_refuted. Qed.
Print Assumptions C20_bc_kcyclic_stored_key_prefix_refuted.

Theorem C20_bc_vpid_in_range : forall d nbvp m n, 1 <= nbvp -> 0 <= bc_vpid d nbvp m n < nbvp.
Proof. exact bc_vpid_in_range. Qed.
Print Assumptions C20_bc_vpid_in_range.

(* tile storage: the memory ranges of the tiles of a rank are disjoint and inside
   its nb_local_tiles * mb * nb elements *)
Theorem C20_bc_tile_memory : forall d m n m' n', wf_bc d -> wf_tmat (bT d) -> bst d = ST_TILE ->
  0 < t_mb (bT d) -> 0 < t_nb (bT d) ->
  in_sub (bT d) m n -> in_sub (bT d) m' n' -> bc_rank_of d m n = bc_rank_of d m' n' ->
  let r := bc_rank_of d m n in let bsiz := t_mb (bT d) * t_nb (bT d) in
  0 <= bc_offset d r m n /\ bc_offset d r m n + bsiz <= bc_nb_local_tiles d r * bsiz /\
  ((m, n) = (m', n') \/ bc_offset d r m n + bsiz <= bc_offset d r m' n' \/
   bc_offset d r m' n' + bsiz <= bc_offset d r m n).
Proof. exact bc_tile_memory. Qed.
Print Assumptions C20_bc_tile_memory.

(* ---------------- the k-cyclic view of a plain distribution ---------------- *)
(* kview_compute_m / _n permute the tile indices of the submatrix (cycle walking terminates) *)
Theorem C20_kview_permutation : forall p ps mt, 0 < p -> 0 < ps ->
  (forall m, 0 <= m < mt -> 0 <= kview_compute p ps mt m < mt) /\
  (forall m m', 0 <= m < mt -> 0 <= m' < mt -> kview_compute p ps mt m = kview_compute p ps mt m' -> m = m') /\
  (forall y, 0 <= y < mt -> exists m, 0 <= m < mt /\ kview_compute p ps mt m = y).
Proof. intros p ps mt Hp Hps. split; [|split]. exact (kview_in_range p ps mt Hp Hps).
  exact (kview_injective p ps mt Hp Hps). exact (kview_onto p ps mt Hp Hps). Qed.
Print Assumptions C20_kview_permutation.

Theorem C20_kview_slot_in_range : forall d vkp vkq m n, wf_bc d -> wf_tmat (bT d) -> 0 < vkp -> 0 < vkq ->
  in_sub (bT d) m n ->
  0 <= kv_rank_of d vkp vkq m n < bP d * bQ d /\
  0 <= kv_position d vkp vkq (kv_rank_of d vkp vkq m n) m n < bc_nb_local_tiles d (kv_rank_of d vkp vkq m n).
Proof. exact kv_slot_in_range. Qed.
Print Assumptions C20_kview_slot_in_range.

Theorem C20_kview_slot_injective : forall d vkp vkq m n m' n', wf_bc d -> wf_tmat (bT d) -> 0 < vkp -> 0 < vkq ->
  in_sub (bT d) m n -> in_sub (bT d) m' n' -> kv_rank_of d vkp vkq m n = kv_rank_of d vkp vkq m' n' ->
  kv_position d vkp vkq (kv_rank_of d vkp vkq m n) m n = kv_position d vkp vkq (kv_rank_of d vkp vkq m n) m' n' ->
  m = m' /\ n = n'.
Proof. exact kv_slot_injective. Qed.
Print Assumptions C20_kview_slot_injective.

(* ---------------- symmetric ---------------- *)
Theorem C20_sym_rank_in_range : forall d m n, wf_sym d -> sym_in_sub d m n ->
  0 <= sym_rank_of d m n < sP d * sQ d.
Proof. exact sym_rank_in_range. Qed.
Print Assumptions C20_sym_rank_in_range.

Theorem C20_sym_lower_slot_in_range : forall d m n, wf_sym d -> wf_tmat (sT d) -> suplo d = UPLO_LOWER ->
  t_lnt (sT d) <= t_lmt (sT d) -> sym_in_sub d m n ->
  0 <= sym_position d (sym_rank_of d m n) m n < sym_nb_local_tiles d (sym_rank_of d m n).
Proof. exact sym_lower_slot_in_range. Qed.
Print Assumptions C20_sym_lower_slot_in_range.

Theorem C20_sym_lower_slot_injective : forall d m n m' n', wf_sym d -> wf_tmat (sT d) -> suplo d = UPLO_LOWER ->
  t_lnt (sT d) <= t_lmt (sT d) -> sym_in_sub d m n -> sym_in_sub d m' n' ->
  sym_rank_of d m n = sym_rank_of d m' n' ->
  sym_position d (sym_rank_of d m n) m n = sym_position d (sym_rank_of d m n) m' n' -> m = m' /\ n = n'.
Proof. exact sym_lower_slot_injective. Qed.
Print Assumptions C20_sym_lower_slot_injective.

Theorem C20_sym_lower_slot_onto : forall d, wf_sym d -> suplo d = UPLO_LOWER -> t_lnt (sT d) <= t_lmt (sT d) ->
  forall r x, 0 <= r < sP d * sQ d -> 0 <= x < sym_nb_local_tiles d r ->
  exists M N, 0 <= N <= M /\ M < t_lmt (sT d) /\ N < t_lnt (sT d) /\
              sym_rank_of_g d M N = r /\ sym_position_g d r M N = x.
Proof. exact sym_lower_position_surj. Qed.
Print Assumptions C20_sym_lower_slot_onto.

Theorem C20_sym_lower_tiles_sum : forall d, wf_sym d -> suplo d = UPLO_LOWER -> t_lnt (sT d) <= t_lmt (sT d) ->
  Zsum (fun r => sym_nb_local_tiles d r) (sP d * sQ d)
  = Zsum (fun N => Zsum (fun M => b2z (sym_stored (suplo d) M N)) (t_lmt (sT d))) (t_lnt (sT d)).
Proof. exact sym_lower_sum. Qed.
Print Assumptions C20_sym_lower_tiles_sum.

Theorem C20_sym_upper_slot_in_range : forall d m n, wf_sym d -> wf_tmat (sT d) -> suplo d = UPLO_UPPER ->
  t_lmt (sT d) = t_lnt (sT d) -> sym_in_sub d m n ->
  0 <= sym_position d (sym_rank_of d m n) m n < sym_nb_local_tiles d (sym_rank_of d m n).
Proof. exact sym_upper_slot_in_range. Qed.
Print Assumptions C20_sym_upper_slot_in_range.

Theorem C20_sym_upper_slot_injective : forall d m n m' n', wf_sym d -> wf_tmat (sT d) -> suplo d = UPLO_UPPER ->
  t_lmt (sT d) = t_lnt (sT d) -> sym_in_sub d m n -> sym_in_sub d m' n' ->
  sym_rank_of d m n = sym_rank_of d m' n' ->
  sym_position d (sym_rank_of d m n) m n = sym_position d (sym_rank_of d m n) m' n' -> m = m' /\ n = n'.
Proof. exact sym_upper_slot_injective. Qed.
Print Assumptions C20_sym_upper_slot_injective.

Theorem C20_sym_upper_slot_onto : forall d, wf_sym d -> suplo d = UPLO_UPPER -> t_lmt (sT d) = t_lnt (sT d) ->
  forall r x, 0 <= r < sP d * sQ d -> 0 <= x < sym_nb_local_tiles d r ->
  exists M N, 0 <= M <= N /\ N < t_lnt (sT d) /\ sym_rank_of_g d M N = r /\ sym_position_g d r M N = x.
Proof. exact sym_upper_position_surj. Qed.
Print Assumptions C20_sym_upper_slot_onto.

Theorem C20_sym_upper_tiles_sum : forall d, wf_sym d -> suplo d = UPLO_UPPER -> t_lmt (sT d) = t_lnt (sT d) ->
  Zsum (fun r => sym_nb_local_tiles d r) (sP d * sQ d)
  = Zsum (fun N => Zsum (fun M => b2z (sym_stored (suplo d) M N)) (t_lmt (sT d))) (t_lnt (sT d)).
Proof. exact sym_upper_sum. Qed.
Print Assumptions C20_sym_upper_tiles_sum.

Theorem C20_sym_stored_key : forall d m n, wf_tmat (sT d) -> in_sub (sT d) m n ->
  tm_key2coords (sT d) (sym_stored_key d m n) = (m, n).
Proof. exact sym_stored_key_roundtrip. Qed.
Print Assumptions C20_sym_stored_key.

(* why the shape hypotheses are there: with more tile columns than rows (lower) or a
   non-square tile grid (upper) the slot of a stored tile is outside the data map *)
Theorem C20_sym_nonsquare_refuted :
  (wf_sym sym_wide_lower /\ sym_in_sub sym_wide_lower 1 1 /\
   sym_nb_local_tiles sym_wide_lower 0 <= sym_position sym_wide_lower (sym_rank_of sym_wide_lower 1 1) 1 1) /\
  (wf_sym sym_wide_upper /\ sym_in_sub sym_wide_upper 0 2 /\
   sym_nb_local_tiles sym_wide_upper 0 <= sym_position sym_wide_upper (sym_rank_of sym_wide_upper 0 2) 0 2).
Proof. exact sym_nonsquare_refuted. Qed.
Print Assumptions C20_sym_nonsquare_refuted.

(* ---------------- tabular ---------------- *)
Theorem C20_tab_slot_in_range : forall l r k, (k < length l)%nat -> nth k l (-1) = r ->
  0 <= nth k (tab_positions l r 0) (-1) < tab_nb_local_tiles l r.
Proof. exact tab_position_range. Qed.
Print Assumptions C20_tab_slot_in_range.

Theorem C20_tab_slot_injective : forall l r k k', (k < length l)%nat -> (k' < length l)%nat ->
  nth k l (-1) = r -> nth k' l (-1) = r ->
  nth k (tab_positions l r 0) (-1) = nth k' (tab_positions l r 0) (-1) -> k = k'.
Proof. exact tab_position_inj. Qed.
Print Assumptions C20_tab_slot_injective.

Theorem C20_tab_slot_onto : forall l r x, 0 <= x < tab_nb_local_tiles l r ->
  exists k, (k < length l)%nat /\ nth k l (-1) = r /\ nth k (tab_positions l r 0) (-1) = x.
Proof. exact tab_position_surj. Qed.
Print Assumptions C20_tab_slot_onto.

Theorem C20_tab_tiles_sum : forall l nodes, 0 <= nodes -> Forall (fun a => 0 <= a < nodes) l ->
  Zsum (fun r => tab_nb_local_tiles l r) nodes = Z.of_nat (length l).
Proof. exact tab_count_sum. Qed.
Print Assumptions C20_tab_tiles_sum.

Theorem C20_tab_index_injective : forall t m n m' n', 0 <= m + t_oi t < t_lmt t -> 0 <= m' + t_oi t < t_lmt t ->
  tab_index t m n = tab_index t m' n' -> m = m' /\ n = n'.
Proof. exact tab_index_inj. Qed.
Print Assumptions C20_tab_index_injective.

(* ---------------- vector ---------------- *)
Theorem C20_vec_rank_in_range : forall d m, wf_vec d -> 0 <= vec_rank_of d m < vP d * vQ d.
Proof. exact vec_rank_in_range. Qed.
Print Assumptions C20_vec_rank_in_range.

Theorem C20_vec_vpid_in_range : forall d nbvp m, 1 <= nbvp -> 0 <= vec_vpid d nbvp m < nbvp.
Proof. exact vec_vpid_in_range. Qed.
Print Assumptions C20_vec_vpid_in_range.

(* the diagonal distribution is consistent on square process grids ... *)
Theorem C20_vec_diag_square_slot_in_range : forall d, wf_vec d -> vdistrib d = VD_DIAG -> vP d = vQ d ->
  forall M r, 0 <= M < t_lmt (vT d) -> vec_rank_of_g d M = r -> 0 <= vec_position_g d M < vec_nlt d r.
Proof. exact vec_diag_square_range. Qed.
Print Assumptions C20_vec_diag_square_slot_in_range.

Theorem C20_vec_diag_square_slot_injective : forall d, wf_vec d -> vdistrib d = VD_DIAG -> vP d = vQ d ->
  forall M M' r, 0 <= M -> 0 <= M' -> vec_rank_of_g d M = r -> vec_rank_of_g d M' = r ->
  vec_position_g d M = vec_position_g d M' -> M = M'.
Proof. exact vec_diag_square_inj. Qed.
Print Assumptions C20_vec_diag_square_slot_injective.

Theorem C20_vec_diag_square_slot_onto : forall d, wf_vec d -> vdistrib d = VD_DIAG -> vP d = vQ d ->
  forall r x, 0 <= r < vQ d * vQ d -> 0 <= x < vec_nlt d r ->
  exists M, 0 <= M < t_lmt (vT d) /\ vec_rank_of_g d M = r /\ vec_position_g d M = x.
Proof. exact vec_diag_square_surj. Qed.
Print Assumptions C20_vec_diag_square_slot_onto.

Theorem C20_vec_diag_square_tiles_sum : forall d, wf_vec d -> vdistrib d = VD_DIAG -> vP d = vQ d ->
  Zsum (fun r => vec_nlt d r) (vQ d * vQ d) = t_lmt (vT d).
Proof. exact vec_diag_square_sum. Qed.
Print Assumptions C20_vec_diag_square_tiles_sum.

(* ... and is not on the others: the init loop "while (drank % Q != 0) drank += Q" does not
   terminate (1x2 grid, rank 1) or yields wrong counts (2x1 grid, 3 + 3 segments of 5): FINDING *)
Theorem C20_vec_diag_rect_refuted :
  (wf_vec vec_diag_witness /\ vec_nb_local_tiles vec_diag_witness 1 = None) /\
  (wf_vec vec_diag_witness2 /\ vec_nb_local_tiles vec_diag_witness2 0 = Some 3 /\
   vec_nb_local_tiles vec_diag_witness2 1 = Some 3 /\ t_lmt (vT vec_diag_witness2) = 5).
Proof. exact vec_diag_rect_refuted. Qed.
Print Assumptions C20_vec_diag_rect_refuted.

(* ROW and COL: rank_of and the init disagree on which processes hold the vector:
   two segments of one rank share local slot 0, and the counts add up to 2 * lmt / ... : FINDING *)
Theorem C20_vec_row_col_refuted :
  (wf_vec vec_row_witness /\ vec_rank_of vec_row_witness 0 = vec_rank_of vec_row_witness 1 /\
   vec_position vec_row_witness 0 = vec_position vec_row_witness 1 /\
   vec_nb_local_tiles vec_row_witness 0 = Some 1 /\ vec_nb_local_tiles vec_row_witness 1 = Some 1) /\
  (wf_vec vec_col_witness /\ vec_rank_of vec_col_witness 0 = vec_rank_of vec_col_witness 1 /\
   vec_position vec_col_witness 0 = vec_position vec_col_witness 1 /\
   vec_nb_local_tiles vec_col_witness 0 = Some 1 /\ vec_nb_local_tiles vec_col_witness 1 = Some 1).
Proof. exact vec_row_col_refuted. Qed.
Print Assumptions C20_vec_row_col_refuted.

(* ---------------- band ---------------- *)
Theorem C20_band_rank_in_range : forall d m n, wf_band d ->
  0 <= band_rank_of d m n < bP (bd_off d) * bQ (bd_off d).
Proof. exact band_rank_range. Qed.
Print Assumptions C20_band_rank_in_range.

Theorem C20_band_slot_in_range : forall d m n r, wf_band d ->
  0 <= m < t_lmt (bT (bd_off d)) -> 0 <= n < t_lnt (bT (bd_off d)) -> band_rank_of d m n = r ->
  0 <= band_position d r m n <
  (if band_in d m n then bc_nb_local_tiles (bd_band d) r else bc_nb_local_tiles (bd_off d) r).
Proof. exact band_slot_range. Qed.
Print Assumptions C20_band_slot_in_range.

Theorem C20_band_slot_injective : forall d m n m' n' r, wf_band d ->
  0 <= m < t_lmt (bT (bd_off d)) -> 0 <= n < t_lnt (bT (bd_off d)) ->
  0 <= m' < t_lmt (bT (bd_off d)) -> 0 <= n' < t_lnt (bT (bd_off d)) ->
  band_rank_of d m n = r -> band_rank_of d m' n' = r ->
  band_in d m n = band_in d m' n' -> band_position d r m n = band_position d r m' n' ->
  m = m' /\ n = n'.
Proof. exact band_slot_inj. Qed.
Print Assumptions C20_band_slot_injective.

(* non-vacuity: a 2x3 grid, kp = 2, kq = 1, offsets (1, 2), 5x4 tiles of 2x3 elements,
   the whole matrix: the hypotheses hold, ranks 0..5 hold 2,2,4,3,3,6 of the 20 tiles *)
Definition C20_ex : bcd := mk_bcd 2 3 2 1 1 2 ST_TILE (tmat_init ST_TILE 2 3 10 12 0 0 10 12).
Example C20_example :
  wf_bc C20_ex /\ wf_tmat (bT C20_ex) /\ in_sub (bT C20_ex) 4 3 /\
  map (bc_nb_local_tiles C20_ex) [0;1;2;3;4;5] = [2;2;4;3;3;6] /\
  bc_rank_of C20_ex 4 3 = 5 /\ bc_position C20_ex 5 4 3 = 5.
Proof. unfold wf_bc, wf_tmat, in_sub. vm_compute. repeat split; try discriminate. Qed.
