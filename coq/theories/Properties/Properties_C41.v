(* C41 — Info registries return what was set.
   Statements only; proofs live in Info/InfoRegProofs.v, InfoSpecProofs.v, InfoMain.v.

   [run fx init ops] executes any sequence of client operations (register,
   unregister by held id, unregister of an unheld id, lookup, new array,
   destruct array, set, get, test-and-set) on the model of info.c;
   [reached fx ops] is the state it ends in.  [fx] selects, for each of the
   three defects found, the rule of the unchanged code or of the repaired code
   (notes/findings/C41-*.md); the model that is run against /repo is the one at
   [InfoCode.code_fixes].  The positive theorems below are stated for the
   repaired rules and quantify over every operation sequence; the [_refuted]
   ones show, for each rule of the unchanged code, an operation sequence on
   which the property fails — they are replayed on the real code by the check. *)
From PV Require Import Base.Tac Info.InfoDefs Info.InfoRegProofs Info.InfoSpecProofs Info.InfoMain.
From PV Require Import Info.InfoConcDefs Info.InfoConcProofs Info.InfoConcRegDefs Info.InfoConcRegProofs.
From Coq Require Import NArith.
Local Open Scope nat_scope.

(* ---- identifiers -------------------------------------------------------------- *)

(* after every operation sequence the live entries carry pairwise distinct ids and
   pairwise distinct names, and no id exceeds max_id *)
Theorem C41_ids_distinct : forall fx ops, fx_reg fx = true ->
  NoDup (map e_iid (s_reg (reached fx ops))) /\ NoDup (map e_name (s_reg (reached fx ops))) /\
  (forall e, In e (s_reg (reached fx ops)) -> e_iid e < s_maxp (reached fx ops)).
Proof. exact P_ids_distinct. Qed.
Print Assumptions C41_ids_distinct.

(* register: a new name gets an id no live entry carries and lookup returns it (with
   its cb_data) from then on; a live name is refused and nothing changes *)
Theorem C41_register_fresh_id : forall fx ops n cb ctor dtor, fx_reg fx = true ->
  let s := reached fx ops in
  let s' := fst (step fx s (Reg n cb ctor dtor)) in
  match snd (step fx s (Reg n cb ctor dtor)) with
  | RReg (Some i) =>
      lookup n (s_reg s) = None /\ (forall e, In e (s_reg s) -> e_iid e <> i) /\
      lookup n (s_reg s') = Some (i, cb) /\ cl_find n (s_cl s') = Some i /\
      (forall m, m <> n -> lookup m (s_reg s') = lookup m (s_reg s))
  | RReg None => lookup n (s_reg s) <> None /\ s' = s
  | _ => False
  end.
Proof. exact P_register. Qed.
Print Assumptions C41_register_fresh_id.

(* the id the client holds for a name (the one register returned, until the name is
   unregistered: [s_cl]) is the id lookup returns, after every operation sequence *)
Theorem C41_lookup_returns_registered_id : forall fx ops n, fx_reg fx = true ->
  option_map fst (lookup n (s_reg (reached fx ops))) = cl_find n (s_cl (reached fx ops)).
Proof. exact P_lookup_held. Qed.
Print Assumptions C41_lookup_returns_registered_id.

(* unregister returns the id, frees it (no live entry carries it any more), forgets the
   name, and leaves every other name alone *)
Theorem C41_unregister_frees_id : forall fx ops n i, fx_reg fx = true ->
  let s := reached fx ops in
  cl_find n (s_cl s) = Some i ->
  let s' := fst (step fx s (Unreg n)) in
  (exists ev, snd (step fx s (Unreg n)) = RUnreg (Some i) ev) /\
  lookup n (s_reg s') = None /\ cl_find n (s_cl s') = None /\
  (forall e, In e (s_reg s') -> e_iid e <> i) /\
  (forall m, m <> n -> lookup m (s_reg s') = lookup m (s_reg s)).
Proof. exact P_unregister. Qed.
Print Assumptions C41_unregister_frees_id.

Theorem C41_unregister_unknown_id : forall fx ops i, fx_reg fx = true ->
  let s := reached fx ops in
  cl_holds i (s_cl s) = false ->
  snd (step fx s (UnregId i)) = RUnreg None [] /\
  s_reg (fst (step fx s (UnregId i))) = s_reg s /\ s_arrs (fst (step fx s (UnregId i))) = s_arrs s.
Proof. exact P_unregister_unknown. Qed.
Print Assumptions C41_unregister_unknown_id.

(* no operation dereferences a missing entry or uses an id above max_id *)
Theorem C41_operations_return : forall fx ops o, fx_reg fx = true ->
  snd (step fx (reached fx ops) o) <> RCrash /\ snd (step fx (reached fx ops) o) <> ROob.
Proof. exact P_no_crash. Qed.
Print Assumptions C41_operations_return.

(* ---- values ------------------------------------------------------------------- *)

(* for every operation sequence the results — ids erased — are exactly those of the
   dictionary specification [spec_run] (InfoDefs.v): set returns the previous value, get
   the current one or the constructed default, test-and-set stores on a match only and
   returns what is stored, unregister calls the destructor once on each non-NULL value of
   the info and the next holder of the id starts from NULL, lookups give the cb_data *)
Theorem C41_results_refine_dictionary : forall ops,
  erase_all ops (snd (run all_fixed init ops)) = spec_run spec_init ops /\
  length (snd (run all_fixed init ops)) = length ops.
Proof. exact P_refines_spec. Qed.
Print Assumptions C41_results_refine_dictionary.

(* get returns the last value set for that (array, id): whatever is registered,
   unregistered, created, grown, set on other ids or arrays, or read in between *)
Theorem C41_get_returns_last_set : forall ops1 ops2 a n v s1 old,
  step all_fixed (reached all_fixed ops1) (SetV a n v) = (s1, RVal old false []) ->
  v <> 0%N -> Forall (fun o => touches a n o = false) ops2 ->
  snd (step all_fixed (fst (run all_fixed s1 ops2)) (GetV a n)) = RVal v false [].
Proof. exact P_get_last_set. Qed.
Print Assumptions C41_get_returns_last_set.

(* test-and-set returns the value that is stored afterwards ... *)
Theorem C41_test_and_set_returns_stored : forall ops1 ops2 a n v old s1 r,
  step all_fixed (reached all_fixed ops1) (Tas a n v old) = (s1, RVal r false []) ->
  r <> 0%N -> Forall (fun o => touches a n o = false) ops2 ->
  snd (step all_fixed (fst (run all_fixed s1 ops2)) (GetV a n)) = RVal r false [].
Proof. exact P_tas_then_get. Qed.
Print Assumptions C41_test_and_set_returns_stored.

(* ... and replaces the current value only when it matches [old] *)
Theorem C41_test_and_set_only_on_match : forall ops a n v old cur,
  cur <> 0%N ->
  snd (step all_fixed (reached all_fixed ops) (GetV a n)) = RVal cur false [] ->
  snd (step all_fixed (reached all_fixed ops) (Tas a n v old)) = RVal (if (cur =? old)%N then v else cur) false [].
Proof. exact P_tas_decides. Qed.
Print Assumptions C41_test_and_set_only_on_match.

(* ---- the unchanged code -------------------------------------------------------- *)

(* F1  parsec_info_register sets next_item = NEXT(item) at the hole:
   register a, b; unregister a; register c, d  =>  c and d both get id 0 *)
Theorem C41_ids_distinct_refuted :
  ~ NoDup (map e_iid (s_reg (reached only_reg_unfixed w_id_reuse))) /\
  ~ NoDup (map e_iid (s_reg (reached none_fixed w_id_reuse))) /\
  snd (run none_fixed init w_id_reuse) =
    [RReg (Some 0); RReg (Some 1); RUnreg (Some 0) []; RReg (Some 0); RReg (Some 0)].
Proof. exact P_ids_distinct_refuted. Qed.
Print Assumptions C41_ids_distinct_refuted.

(* then unregister(id of c) removes d's entry: d is held but unknown to lookup *)
Theorem C41_lookup_returns_registered_id_refuted :
  let s := reached none_fixed w_wrong_entry in
  cl_find 3 (s_cl s) = Some 0 /\ lookup 3 (s_reg s) = None /\
  cl_find 2 (s_cl s) = None /\ lookup 2 (s_reg s) = Some (0, 7%N).
Proof. exact P_lookup_held_refuted. Qed.
Print Assumptions C41_lookup_returns_registered_id_refuted.

(* and a get through a held id whose entry is gone dereferences NULL *)
Theorem C41_operations_return_refuted :
  snd (step none_fixed (reached none_fixed (removelast w_crash)) (GetV 0 4)) = RCrash.
Proof. exact P_crash_refuted. Qed.
Print Assumptions C41_operations_return_refuted.

(* F2  parsec_ioa_resize_and_rdlock: memset(&info_objects[known_infos - 1], 0, ns - known_infos):
   set 0x1122334455667788 on the only info, register a second one and use it on the array
   => the stored pointer reads 0x1122334455667700 and the new slot is not NULL *)
Theorem C41_get_returns_last_set_refuted :
  (exists s1 old, step only_ioa_unfixed (reached only_ioa_unfixed [R 0; NewArr]) (SetV 0 0 V1) = (s1, RVal old false []) /\
     Forall (fun o => touches 0 0 o = false) [R 1; GetV 0 1] /\
     snd (step only_ioa_unfixed (fst (run only_ioa_unfixed s1 [R 1; GetV 0 1])) (GetV 0 0))
       = RVal 0x1122334455667700%N false []) /\
  snd (run none_fixed init w_resize) =
    [RReg (Some 0); RArr 0; RVal 0%N false []; RReg (Some 1); RVal POISON false [];
     RVal 0x1122334455667700%N false []] /\
  erase_all w_resize (snd (run only_ioa_unfixed init w_resize)) <> spec_run spec_init w_resize.
Proof. exact P_get_last_set_refuted. Qed.
Print Assumptions C41_get_returns_last_set_refuted.

(* F3  parsec_info_unregister leaves the slots alone when the info has no destructor:
   the next info that gets the id reads the previous one's value *)
Theorem C41_fresh_info_reads_null_refuted :
  snd (run only_unreg_unfixed init w_stale) =
    [RReg (Some 0); RArr 0; RVal 0%N false []; RUnreg (Some 0) []; RReg (Some 0); RVal V1 false []] /\
  snd (run none_fixed init w_stale) = snd (run only_unreg_unfixed init w_stale) /\
  erase_all w_stale (snd (run only_unreg_unfixed init w_stale)) <> spec_run spec_init w_stale.
Proof. exact P_stale_slot_refuted. Qed.
Print Assumptions C41_fresh_info_reads_null_refuted.

(* ---- concurrent callers ------------------------------------------------------------
   InfoConcDefs.v: any number of threads run test_and_set / set / get on one object array
   (large enough: no resize), one atomic step per scheduling point of the T-sched harness
   (the rwlock's and the list lock's atomic operations, the CAS of test_and_set); [crun]
   folds an arbitrary schedule.  A slot i is used "publish-once" ([once_op]) when its
   test_and_set calls expect NULL and bring a non-NULL value and nobody calls set on it. *)

(* every non-NULL value returned by any call on a publish-once slot is the value the slot
   holds: all callers (test_and_set winners and losers, gets, constructed defaults) agree *)
Theorem C41_conc_all_callers_agree : forall infos progs sched i,
  i < length infos -> (forall p, In p progs -> Forall (once_op i) p) ->
  let c := crun (cinit infos progs) sched in
  forall u th r, nth_error (g_thr c) u = Some th -> In r (c_res th) ->
    res_slot r = i -> res_val r <> 0%N -> res_val r = slot c i.
Proof. exact P_conc_agreement. Qed.
Print Assumptions C41_conc_all_callers_agree.

(* at most one winner per expected value NULL: two calls that both got their own value back
   (a test_and_set that stored, a get whose constructed object was installed) brought the same value *)
Theorem C41_conc_single_winner : forall infos progs sched i,
  i < length infos -> (forall p, In p progs -> Forall (once_op i) p) ->
  let c := crun (cinit infos progs) sched in
  forall u1 th1 r1 u2 th2 r2,
    nth_error (g_thr c) u1 = Some th1 -> In r1 (c_res th1) -> res_slot r1 = i ->
    nth_error (g_thr c) u2 = Some th2 -> In r2 (c_res th2) -> res_slot r2 = i ->
    res_val r1 = res_own r1 -> res_own r1 <> 0%N -> res_val r2 = res_own r2 -> res_own r2 <> 0%N ->
    res_own r1 = res_own r2.
Proof. exact P_conc_single_winner. Qed.
Print Assumptions C41_conc_single_winner.

(* any programs, any schedule: an object built by a constructor during a get is the value
   returned, or it lost and is destructed exactly when the info has a destructor *)
Theorem C41_conc_constructed_objects : forall infos progs sched u th j r made dead,
  nth_error (g_thr (crun (cinit infos progs) sched)) u = Some th -> In (RG j r made dead) (c_res th) ->
  (made = 0%N -> dead = []) /\
  (made <> 0%N -> r <> 0%N /\ (r = made -> dead = []) /\
                  (r <> made -> dead = if snd (nth j infos (0%N, false)) then [made] else [])).
Proof. exact P_conc_objects. Qed.
Print Assumptions C41_conc_constructed_objects.

Theorem C41_conc_destructed_not_stored : forall infos progs sched i,
  i < length infos -> (forall p, In p progs -> Forall (once_op i) p) ->
  let c := crun (cinit infos progs) sched in
  forall u th r made dead d, nth_error (g_thr c) u = Some th -> In (RG i r made dead) (c_res th) ->
    In d dead -> d <> slot c i.
Proof. exact P_conc_destructed_not_stored. Qed.
Print Assumptions C41_conc_destructed_not_stored.

(* three threads: one test_and_set, two first gets of a slot with constructor and destructor,
   then another test_and_set; the default built by thread 2 wins, thread 1's is destructed *)
Example C41_conc_example :
  let c := crun (cinit [(5%N, true)] [[CT 0 0xa1%N 0%N]; [CG 0]; [CG 0; CT 0 0xb2%N 0%N]])
                [2; 1; 2; 1; 2; 1; 2; 1; 2; 1; 2; 0; 1; 0; 2; 1; 0; 0; 1; 1; 1; 2; 2; 2; 2; 2; 2; 1; 1] in
  c_all_done c = true /\ slot c 0 = mkobj 5 2 1 /\
  map c_res (g_thr c) = [[RT 0 0xa1%N (mkobj 5 2 1)];
                         [RG 0 (mkobj 5 2 1) (mkobj 5 1 1) [mkobj 5 1 1]];
                         [RT 0 0xb2%N (mkobj 5 2 1); RG 0 (mkobj 5 2 1) (mkobj 5 2 1) []]] /\
  Forall (once_op 0) [CG 0; CT 0 0xb2%N 0%N].
Proof.
  split; [|split; [|split]]; try (vm_compute; reflexivity).
  constructor; [exact I|]. constructor; [|constructor]. intros _. split; [reflexivity|discriminate].
Qed.

(* ---- concurrent clients of the registry ------------------------------------------------
   InfoConcRegDefs.v: any number of threads call register / unregister (of an id they hold) /
   lookup on one registry; each call takes effect atomically at the step that acquires the
   list lock (same InfoDefs.register / unreg_scan / lookup as the sequential model); [rrun]
   folds an arbitrary schedule.  The theorems hold for the repaired insertion rule. *)

(* in every interleaving names and ids are in one-to-one relation *)
Theorem C41_conc_registry_injective : forall fx pre progs sched, fx_reg fx = true ->
  let c := rrun fx (rinit fx pre progs) sched in
  NoDup (map e_iid (h_reg c)) /\ NoDup (map e_name (h_reg c)).
Proof. exact P_conc_registry_injective. Qed.
Print Assumptions C41_conc_registry_injective.

(* of any number of registrations of one name at most one holds at any time, and lookup
   returns the id that registrant was given *)
Theorem C41_conc_one_registrant_per_name : forall fx pre progs sched, fx_reg fx = true ->
  let c := rrun fx (rinit fx pre progs) sched in
  NoDup (map hname (h_held c)) /\
  forall n i t, In (n, i, t) (h_held c) -> option_map fst (lookup n (h_reg c)) = Some i.
Proof. exact P_conc_one_holder. Qed.
Print Assumptions C41_conc_one_registrant_per_name.

(* whatever a thread sees when it looks at the registry lists each id once and each name once *)
Theorem C41_conc_registry_views : forall fx pre progs sched, fx_reg fx = true ->
  let c := rrun fx (rinit fx pre progs) sched in
  forall u th x l, nth_error (h_thr c) u = Some th -> In x (q_res th) -> x_snap x = Some l ->
    NoDup (map fst l) /\ NoDup (map snd l).
Proof. exact P_conc_snapshots. Qed.
Print Assumptions C41_conc_registry_views.

(* three threads register name 0 at the same moment (name 1 registered before): one succeeds *)
Example C41_conc_registry_example :
  let c := rrun all_fixed (rinit all_fixed [(1, 0)] [[QReg 0; QLook 0]; [QReg 0; QLook 1]; [QLook 0; QReg 0]])
                [0; 1; 2; 2; 1; 0; 0; 1; 2; 0; 1; 2; 0; 1; 2; 0; 1; 2; 0; 1; 2; 0; 1; 2; 0; 1; 2; 1; 1; 1; 1; 1; 1; 0; 0; 2; 2] in
  r_all_done c = true /\ map (fun e => (e_iid e, e_name e)) (h_reg c) = [(0, 1); (1, 0)] /\
  length (filter (fun x => match x_kind x, x_ret x with KReg, Some _ => true | _, _ => false end)
                 (flat_map q_res (h_thr c))) = 1.
Proof. exact conc_reg_example. Qed.

(* ---- non-vacuity ----------------------------------------------------------------- *)
(* three infos, a hole in the middle, two more registrations; an array created when only
   two infos existed holds a value, grows when the fifth info is used on it, keeps the
   value; test-and-set on the fresh slot stores, a second one does not; the destructor is
   called at unregistration; the next holder of the id starts from NULL *)
Example C41_example :
  let ops := [Reg 0 1%N 0%N false; Reg 1 2%N 0%N true; NewArr; SetV 0 1 V1; Reg 2 3%N 0%N false;
              Unreg 0; Reg 3 4%N 0%N false; Reg 4 5%N 5%N false;
              GetV 0 4; GetV 0 1; Tas 0 2 9%N 0%N; Tas 0 2 8%N 0%N; Lookup 3; Unreg 1; Reg 5 6%N 0%N false; GetV 0 5] in
  snd (run all_fixed init ops) =
    [RReg (Some 0); RReg (Some 1); RArr 0; RVal 0%N false []; RReg (Some 2);
     RUnreg (Some 0) []; RReg (Some 0); RReg (Some 3);
     RVal (ctorval 5%N 1) true []; RVal V1 false []; RVal 9%N false []; RVal 9%N false [];
     RLook (Some (0, 4%N)); RUnreg (Some 1) [V1]; RReg (Some 1); RVal 0%N false []] /\
  map (fun e => (e_iid e, e_name e)) (s_reg (reached all_fixed ops)) = [(0, 3); (1, 5); (2, 2); (3, 4)] /\
  erase_all ops (snd (run all_fixed init ops)) = spec_run spec_init ops /\
  Forall (fun o => touches 0 1 o = false) [Reg 2 3%N 0%N false; Unreg 0; Reg 3 4%N 0%N false; Reg 4 5%N 5%N false; GetV 0 4].
Proof. vm_compute. repeat split; repeat constructor. Qed.
