(* C06 — Wait and completion calls return exactly when the work is done.
   Statements only; proofs in CtxWait/CtxWaitProofs.v.

   [run decls evs] is the state of the model of the context (CtxWaitDefs.v) after ANY list of
   events: master-thread API calls (start, add, DTD insert, test, DTD free, context_wait
   enter/leave, taskpool_wait enter/leave), task execution by any thread (startup task,
   begin/end of a task, return of a termination callback, store of TERMINATED), and
   parsec_context_add_taskpool called from inside a running task body (TAdd) or from a
   running completion callback (CAdd).  An event that is not enabled is a no-op, so every
   program over the declared taskpools (PTG of any size, DTD), every interleaving and every
   multi-epoch history is such a list.

   LEVEL: partial, hence the suffix.  The barrier choreography of __parsec_context_wait is
   not modelled thread by thread; what the barriers guarantee is the enabling condition of
   MWaitLeave: the master returns at an instant where active_taskpools = 0 and no thread
   is inside a task, a startup task or a termination callback.  Each termination-detector
   call is one atomic step (C10).  The list lock, the communication engine and DTD
   insertions from task bodies are outside the model (see notes/findings/C06-*.md for what
   was found there on the real code).

   [epoch (step s MWaitLeave) = S (epoch s)] says that parsec_context_wait returns in state s. *)
From PV Require Import Base.Tac Base.ListX CtxWait.CtxWaitDefs CtxWait.CtxWaitProofs CtxWait.CtxBarrierDefs CtxWait.CtxBarrierProofs.
Local Open Scope Z_scope.

(* parsec_context_wait returns only when EVERY taskpool given to the context so far — by the
   master, by a task body or by a completion callback, before or during the wait — has
   terminated, all its tasks have ended, none is running, and (PTG) its completion
   callback ran exactly once *)
Theorem C06_context_wait_returns_when_done_partial : forall decls evs,
  let s := run decls evs in
  epoch (step s MWaitLeave) = S (epoch s) ->
  forall q p, nth_error (pools s) q = Some p -> k_added p = true ->
    k_st p = STerminated /\ all_done p = true /\ norun (k_tasks p) /\ (k_dtd p = false -> k_cb p = 1%nat).
Proof. exact P_wait_returns_settled. Qed.
Print Assumptions C06_context_wait_returns_when_done_partial.

(* ... and it does return then: in the wait, with every taskpool terminated and no thread in
   a task, the leave is enabled (active_taskpools is 0) *)
Theorem C06_context_wait_returns_partial : forall decls evs,
  let s := run decls evs in
  master s = MInWait -> quiescent s = true ->
  (forall q p, nth_error (pools s) q = Some p -> k_added p = true -> k_st p = STerminated) ->
  epoch (step s MWaitLeave) = S (epoch s).
Proof. exact P_wait_can_return. Qed.
Print Assumptions C06_context_wait_returns_partial.

(* parsec_taskpool_wait(q) returns only after q terminated: all its tasks ended, none runs,
   its completion callback (PTG) ran exactly once and returned *)
Theorem C06_taskpool_wait_returns_when_terminated_partial : forall decls evs q,
  let s := run decls evs in
  master s = MInTp q -> master (step s (MTpLeave q)) = MIdle ->
  exists p, nth_error (pools s) q = Some p /\ k_st p = STerminated /\ all_done p = true /\ norun (k_tasks p) /\
            (k_dtd p = false -> k_cb p = 1%nat).
Proof. exact P_taskpool_wait. Qed.
Print Assumptions C06_taskpool_wait_returns_when_terminated_partial.

(* at every moment of every history: a taskpool whose termination was detected (its completion
   callback is running or has run) has all its tasks ended and none running; the completion
   callback of a PTG taskpool has run exactly once from then on and never before *)
Theorem C06_callback_once_after_last_task_partial : forall decls evs q p,
  nth_error (pools (run decls evs)) q = Some p ->
  (in_term (k_st p) = true -> all_done p = true /\ norun (k_tasks p)) /\
  (k_dtd p = false -> k_cb p = if in_term (k_st p) then 1%nat else 0%nat).
Proof. exact P_detected_means_done. Qed.
Print Assumptions C06_callback_once_after_last_task_partial.

(* the literal "exactly once" is false for DTD taskpools in the code as it is: the callback runs
   at every wait the taskpool goes through and once more in its destructor
   (add; start; context_wait; free -> 2 calls; replayed by checks/C06.py: dtd-complete-callback-repeats) *)
Theorem C06_dtd_callback_once_refuted :
  exists decls evs p, nth_error (pools (run decls evs)) 0 = Some p /\ k_dtd p = true /\ k_cb p = 2%nat.
Proof.
  exists [DDtd], [MAdd 0; MStart; MWaitEnter; WCbDone 0; WFin 0; MWaitLeave; MFree 0].
  eexists. split; [vm_compute; reflexivity|]. split; reflexivity.
Qed.
Print Assumptions C06_dtd_callback_once_refuted.

(* epochs are independent: when parsec_context_wait returns the context is in the state of a
   fresh context to which the still-attached DTD taskpools (re-armed: NOT_READY, no task, no
   pending action) have been added — flags cleared, master idle, active_taskpools = number of
   attached DTD taskpools, everything else terminated; only the epoch counter remembers *)
Theorem C06_epochs_independent_partial : forall decls evs,
  let s := run decls evs in
  epoch (step s MWaitLeave) = S (epoch s) -> fresh_like (step s MWaitLeave).
Proof. exact P_epoch_reset. Qed.
Print Assumptions C06_epochs_independent_partial.

Theorem C06_initial_state_is_fresh : forall decls, fresh_like (init decls).
Proof. exact fresh_like_init. Qed.
Print Assumptions C06_initial_state_is_fresh.

(* parsec_context_test: active_taskpools = 0 only when every taskpool given to the context is
   past its completion callback, with all tasks ended *)
Theorem C06_test_true_means_done_partial : forall decls evs,
  let s := run decls evs in
  active s = 0 -> forall q p, nth_error (pools s) q = Some p -> k_added p = true ->
  in_term (k_st p) = true /\ k_st p <> STermCb /\ all_done p = true.
Proof. exact P_test_true. Qed.
Print Assumptions C06_test_true_means_done_partial.

(* the accounting behind all of it: active_taskpools = the start token + the number of
   taskpools given to the context whose completion callback has not returned *)
Theorem C06_active_taskpools_accounting : forall decls evs,
  let s := run decls evs in active s = tok s + cnt counted (pools s).
Proof. intros decls evs. exact (i_active _ (run_inv decls evs)). Qed.
Print Assumptions C06_active_taskpools_accounting.

(* the part that does not lean on the barrier abstraction: while the completion callback of a
   taskpool runs — on whatever thread, e.g. the communication thread of a multi-rank run, which is
   not a thread of the barrier — active_taskpools is positive, so the master cannot see 0 before
   the callback returned; and (C06_test_true_means_done_partial) active_taskpools = 0 alone already
   implies that every taskpool given to the context, including those a callback added, is past its
   callback with all tasks ended.  This is what "callback first, decrement second" in
   parsec_taskpool_termination_detected buys (seeded/C06a swaps them; the two-rank scenarios of
   checks/C06.py observe the consequence on the real code). *)
Theorem C06_running_callback_keeps_context_active : forall decls evs q p,
  nth_error (pools (run decls evs)) q = Some p -> k_st p = STermCb -> 0 < active (run decls evs).
Proof. exact P_callback_keeps_active. Qed.
Print Assumptions C06_running_callback_keeps_context_active.

(* ================================================================================================
   THE REFINED MODEL (CtxBarrierDefs.v): the choreography of __parsec_context_wait thread by thread —
   n threads (master + n-1 workers) on one barrier (counter + generation): the start barrier of
   parsec_context_start and the increment of the token after it, the work loop with its test of
   active_taskpools, the final barrier, the workers' return to the start barrier, the master's leave;
   every inner event is performed by a thread, which is "inside" what it started until it finished
   it.  [rrun decls n evs] is the state after ANY interleaving [evs] of barrier steps (RBar t) and
   inner events performed by a thread (RIn t e).  [pc_of r 0 = TPassed]: the master has been
   released from the final barrier, its next step is the return of parsec_context_wait.
   The enabling condition that the model above ASSUMES for MWaitLeave is here a THEOREM
   (C06_master_released_only_when_done), so the statements below carry no "_partial".
   What is still abstract: each termination-detector call is one step (C10); the list lock, the
   communication engine and the communication thread are outside (see the two-rank scenarios). *)

Theorem C06_master_released_only_when_done : forall decls n evs, (1 <= n)%nat ->
  let r := rrun decls n evs in
  pc_of r 0 = TPassed ->
  master (inner r) = MInWait /\ active (inner r) = 0 /\ quiescent (inner r) = true /\
  (forall t, t <> 0%nat -> pc_of r t <> TLoop).
Proof. exact P_master_passes_only_when_done. Qed.
Print Assumptions C06_master_released_only_when_done.

(* 1. parsec_context_wait returns only when everything given to the context is done *)
Theorem C06_context_wait_returns_when_done : forall decls n evs, (1 <= n)%nat ->
  let r := rrun decls n evs in
  pc_of r 0 = TPassed ->
  forall q p, nth_error (pools (inner r)) q = Some p -> k_added p = true ->
    k_st p = STerminated /\ all_done p = true /\ norun (k_tasks p) /\ (k_dtd p = false -> k_cb p = 1%nat).
Proof. exact R_context_wait_returns_when_done. Qed.
Print Assumptions C06_context_wait_returns_when_done.

(* 2. and it does return: from every reachable state where the master is in the wait, active_taskpools
   is 0 and every thread is outside tasks, some schedule (barrier steps only) releases the master;
   no thread is left behind a barrier (C06_barrier_accounting: the counter is exactly the number of
   threads waiting in the current generation and never all of them) *)
Theorem C06_context_wait_returns : forall decls n evs, (1 <= n)%nat ->
  let r := rrun decls n evs in
  work_done r -> exists sched, pc_of (fold_left rstep sched r) 0 = TPassed.
Proof. exact P_master_is_released. Qed.
Print Assumptions C06_context_wait_returns.

Theorem C06_barrier_accounting : forall decls n evs, (1 <= n)%nat ->
  let r := rrun decls n evs in
  Z.of_nat (bcnt r) = cnt (wcur (bgen r)) (pcs r) /\ (bcnt r < length (pcs r))%nat.
Proof. exact P_barrier_accounting. Qed.
Print Assumptions C06_barrier_accounting.

(* the return itself: the master's next step leaves the wait, the epoch counter advances *)
Theorem C06_master_returns : forall decls n evs, (1 <= n)%nat ->
  let r := rrun decls n evs in
  pc_of r 0 = TPassed ->
  pc_of (rstep r (RBar 0)) 0 = TOut /\ inner (rstep r (RBar 0)) = step (inner r) MWaitLeave /\
  epoch (step (inner r) MWaitLeave) = S (epoch (inner r)).
Proof. exact P_master_returns. Qed.
Print Assumptions C06_master_returns.

(* 3. parsec_taskpool_wait *)
Theorem C06_taskpool_wait_returns_when_terminated : forall decls n evs q, (1 <= n)%nat ->
  let r := rrun decls n evs in
  master (inner r) = MInTp q -> master (inner (rstep r (RIn 0 (MTpLeave q)))) = MIdle ->
  exists p, nth_error (pools (inner r)) q = Some p /\ k_st p = STerminated /\ all_done p = true /\ norun (k_tasks p) /\
            (k_dtd p = false -> k_cb p = 1%nat).
Proof. exact R_taskpool_wait. Qed.
Print Assumptions C06_taskpool_wait_returns_when_terminated.

(* 4. callbacks *)
Theorem C06_callback_once_after_last_task : forall decls n evs q p,
  nth_error (pools (inner (rrun decls n evs))) q = Some p ->
  (in_term (k_st p) = true -> all_done p = true /\ norun (k_tasks p)) /\
  (k_dtd p = false -> k_cb p = if in_term (k_st p) then 1%nat else 0%nat).
Proof. exact R_callback_once. Qed.
Print Assumptions C06_callback_once_after_last_task.

(* 5. epochs *)
Theorem C06_epochs_independent : forall decls n evs, (1 <= n)%nat ->
  let r := rrun decls n evs in
  pc_of r 0 = TPassed ->
  fresh_like (inner (rstep r (RBar 0))) /\ pc_of (rstep r (RBar 0)) 0 = TOut /\
  (forall t, t <> 0%nat -> pc_of (rstep r (RBar 0)) t <> TLoop).
Proof. exact R_epochs_independent. Qed.
Print Assumptions C06_epochs_independent.

(* 6. parsec_context_test *)
Theorem C06_test_true_means_done : forall decls n evs,
  let s := inner (rrun decls n evs) in
  active s = 0 -> forall q p, nth_error (pools s) q = Some p -> k_added p = true ->
  in_term (k_st p) = true /\ k_st p <> STermCb /\ all_done p = true.
Proof. exact R_test_true. Qed.
Print Assumptions C06_test_true_means_done.

(* non-vacuity of the refined model: 3 threads, one PTG taskpool of two tasks run by the two workers,
   the master passes the final barrier last and returns; second epoch opens *)
Example C06_example_threads :
  let r := rrun [DPtg 2] 3
    [RIn 0 (MAdd 0); RIn 0 MStart; RBar 1; RBar 2; RIn 1 (WStartup 0); RIn 2 (WBegin 0 0); RIn 1 (WStartupDone 0);
     RBar 0; RIn 1 (WBegin 0 1); RIn 0 MWaitEnter; RIn 2 (WEnd 0 0); RBar 2; RIn 1 (WEnd 0 1); RIn 1 (WCbDone 0);
     RBar 0; RIn 1 (WFin 0); RBar 2; RBar 1; RBar 0] in
  pc_of r 0 = TPassed /\ pc_of r 1 = TPassed /\ pc_of r 2 = TWaitE 1 /\ bgen r = 2%nat /\ running r = false /\
  epoch (inner (rstep r (RBar 0))) = 1%nat /\ ran (inner r) = [2%nat].
Proof. vm_compute. repeat split. Qed.

(* non-vacuity: two epochs; a PTG taskpool whose task adds a second PTG taskpool while the
   master is in the wait, whose completion callback adds a third; a DTD taskpool that gets a
   task per epoch and is waited with parsec_taskpool_wait in the second *)
Definition ex_decls := [DPtg 2; DPtg 1; DPtg 0; DDtd].
Definition ex_evs : list event :=
  [MAdd 0; MAdd 3; MStart; MInsert 3; MTest; MWaitEnter;
   WStartup 0; WBegin 0 0; WBegin 3 0; TAdd 0 0 1; WEnd 0 0; WStartupDone 0; WBegin 0 1; WStartup 1;
   WEnd 3 0; WCbDone 3; WBegin 1 0; WEnd 0 1; CAdd 0 2; WCbDone 0; WFin 0; WFin 3;
   WStartupDone 1; WStartup 2; WEnd 1 0; WStartupDone 2; WCbDone 1; WCbDone 2; WFin 2; WFin 1;
   MWaitLeave; MTest;
   MStart; MInsert 3; MTpEnter 3; WBegin 3 1; WEnd 3 1; WCbDone 3; WFin 3; MTpLeave 3; MWaitEnter; WCbDone 3; WFin 3; MWaitLeave;
   MFree 3; MTest].
Example C06_example :
  let s := run ex_decls ex_evs in
  epoch s = 2%nat /\ active s = 0 /\ settled s = true /\ ran s = [2; 1; 0; 2]%nat /\ cbs s = [1; 1; 1; 4]%nat /\
  obs s = [true; false; false].
Proof. vm_compute. repeat split. Qed.
