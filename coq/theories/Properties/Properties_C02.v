(* C02 — PTG execution respects dependencies and delivers the named data.
   Statements only; proofs live in PTGVal/ValEngineProofs.v and PTGVal/PTGValProofs.v.

   Model: PTG/PTGDefs.v (AST of the JDF subset) + PTGVal/ValEngine.v: C01's dataflow
   engine extended with data.  A flow carries a data COPY (a reference to a memory cell:
   an element D(k) of the collection, or a NEW tile); `Begin t` is the generated
   data_lookup (every flow is bound to the copy found in the producer's repository
   entry, to D(k), or to a fresh tile), `End t` is the body (reads, then writes IN PLACE)
   followed by the posting of the `-> D(k)` copies and the release of the successors;
   `VCopy i` performs a posted copy at any later moment (the communication engine).  A
   schedule is an arbitrary list of events; events that are not enabled are no-ops.

   `ptg_Vin names P t g` is the value the JDF names as input of flow g of instance t (what
   the producer's flow holds after the producer's body: `ptg_Vout`; or the initial content of
   D(k)); bodies write F(class, all locals, flow, values read) — `ptg_F`, the hash of the
   harness; the theorems of ValEngineProofs.v hold for ANY F.

   Copies are shared, not duplicated, so the statements need the program to be free of
   hazards on shared copies: `ptg_Safe P` (ValEngine.Safe), decided by `safeb P`. *)
From Coq Require Import ZArith List Permutation.
From PV Require Import Base.Tac PTG.PTGDefs PTG.Engine PTG.EngineProofs PTG.PTGProofs
     PTGVal.ValEngine PTGVal.ValEngineProofs PTGVal.PTGValDefs PTGVal.PTGValProofs.
Import ListNotations.

(* the theorems assume wf_program_fm: C01's wf_program with "exactly one input dependency of a data flow has a
   true guard" relaxed to "at least one" — the runtime takes the FIRST applicable one (parsec_check_IN_dependencies_*,
   generated data_lookup), which is what pred_edges / flow_src compute; `<- (k > 0) ? A T(k-1)  <- D(0)` is accepted *)
Theorem C02_wf_program_implies_fm : forall P, wf_program P = true -> wf_program_fm P = true.
Proof. exact wf_program_implies_fm. Qed.
Print Assumptions C02_wf_program_implies_fm.

(* the decision procedure run on every generated program is sound *)
Theorem C02_safe_check_sound : forall P, wf_program_fm P = true -> safeb P = true -> ptg_Safe P.
Proof. exact safeb_sound. Qed.
Print Assumptions C02_safe_check_sound.

(* the dependency part of EVERY run of the engine with data is a run of C01's engine: all
   the C01 theorems (exactly once, only instances, no deadlock) hold unchanged *)
Theorem C02_dependencies_are_C01 : forall names P evs,
  core tid (ptg_vrun names P evs) = ptg_run P (core_events tid evs).
Proof. exact ptgval_core. Qed.
Print Assumptions C02_dependencies_are_C01.

(* (a), first half: every Begin comes after the End of every predecessor, data and control
   (log most recent first: l1 is the past of this Begin) *)
Theorem C02_begin_after_predecessors : forall names P, wf_program_fm P = true ->
  forall evs l1 l2 t, log tid (core tid (ptg_vrun names P evs)) = l2 ++ LBegin t :: l1 ->
  forall p, In p (preds P t) -> In (LEnd p) l1.
Proof.
  intros names P H evs l1 l2 t. rewrite ptgval_core. apply (ptgval_begin_after_preds P H).
Qed.
Print Assumptions C02_begin_after_predecessors.

(* (a), second half: in every reachable state, a started instance holds in each data flow fed
   by a task the very copy of its producer, the producer is done, and the copy contains the
   value the producer left in it *)
Theorem C02_started_task_holds_producer_values : forall names P, wf_program_fm P = true -> ptg_Safe P ->
  forall evs t, In t (instances P) -> st tid (core tid (ptg_vrun names P evs)) t = Running ->
  forall g p fp, flow_src P t g = STask p fp ->
    st tid (core tid (ptg_vrun names P evs)) p = Done
    /\ bind tid (ptg_vrun names P evs) t g = bind tid (ptg_vrun names P evs) p fp
    /\ rdval tid (ptg_vrun names P evs) t g = ptg_Vout names P p fp.
Proof. exact ptgval_started_inputs. Qed.
Print Assumptions C02_started_task_holds_producer_values.

(* ... and every flow (fed by a task, by D(k), NEW or NULL) shows the named value for as long
   as the instance runs: nobody else writes its copies meanwhile *)
Theorem C02_running_task_sees_named_values : forall names P, wf_program_fm P = true -> ptg_Safe P ->
  forall evs t g, In t (instances P) -> st tid (core tid (ptg_vrun names P evs)) t = Running ->
  rdval tid (ptg_vrun names P evs) t g = ptg_Vin names P t g.
Proof. exact ptgval_running_values. Qed.
Print Assumptions C02_running_task_sees_named_values.

(* what the body of a completed instance has read *)
Theorem C02_body_reads_named_values : forall names P, wf_program_fm P = true -> ptg_Safe P ->
  forall evs t, In t (instances P) -> st tid (core tid (ptg_vrun names P evs)) t = Done ->
  rlog tid (ptg_vrun names P evs) t = ptg_expected_reads names P t.
Proof. exact ptgval_observed_reads. Qed.
Print Assumptions C02_body_reads_named_values.

(* the sequential execution (instances in the topological order, then the copies) is a complete run *)
Theorem C02_sequential_execution_completes : forall names P, wf_program_fm P = true -> ptg_Safe P ->
  ptg_complete P (ptg_seq_exec names P).
Proof. exact ptgval_seq_complete. Qed.
Print Assumptions C02_sequential_execution_completes.

(* (b) every complete run, whatever its schedule, ends with the memory (collection elements
   and tiles) of the sequential execution *)
Theorem C02_final_data_equal_sequential : forall names P, wf_program_fm P = true -> ptg_Safe P ->
  forall evs, ptg_complete P (ptg_vrun names P evs) ->
  forall c, mem tid (ptg_vrun names P evs) c = mem tid (ptg_seq_exec names P) c.
Proof. exact ptgval_final_memory. Qed.
Print Assumptions C02_final_data_equal_sequential.

(* (c) the inputs observed by a task do not depend on the schedule; they are those of the
   sequential execution *)
Theorem C02_observed_inputs_schedule_independent : forall names P, wf_program_fm P = true -> ptg_Safe P ->
  forall evs1 evs2 t, In t (instances P) ->
  st tid (core tid (ptg_vrun names P evs1)) t = Done -> st tid (core tid (ptg_vrun names P evs2)) t = Done ->
  rlog tid (ptg_vrun names P evs1) t = rlog tid (ptg_vrun names P evs2) t.
Proof. exact ptgval_reads_schedule_independent. Qed.
Print Assumptions C02_observed_inputs_schedule_independent.

Theorem C02_observed_inputs_equal_sequential : forall names P, wf_program_fm P = true -> ptg_Safe P ->
  forall evs t, In t (instances P) -> st tid (core tid (ptg_vrun names P evs)) t = Done ->
  rlog tid (ptg_vrun names P evs) t = rlog tid (ptg_seq_exec names P) t.
Proof. exact ptgval_reads_sequential. Qed.
Print Assumptions C02_observed_inputs_equal_sequential.

(* the same for ANY finite DAG with flows, ANY body function F, initial collection D0 and tile
   content U0 (the form C15/C22 can reuse) *)
Theorem C02_engine_generic :
  forall (task : Type) (teq : forall a b : task, {a = b} + {a <> b}) (tasks : list task)
         (preds succs : task -> list task) (nfl : task -> nat) (src : task -> nat -> source task)
         (reads writes : task -> nat -> bool) (wbs : task -> list (nat * Z))
         (F : task -> nat -> list (nat * Z) -> Z) (D0 : Z -> Z) (U0 : task -> nat -> Z) (rank : task -> nat),
    (forall p t, In p tasks -> In t tasks -> count_occ teq (succs p) t = count_occ teq (preds t) p) ->
    (forall p s, In p tasks -> In s (succs p) -> In s tasks) ->
    (forall t p, In t tasks -> In p (preds t) -> In p tasks) ->
    (forall t p, In t tasks -> In p (preds t) -> rank p < rank t) ->
    (forall t f p fp, In t tasks -> src t f = STask p fp -> In p (preds t)) ->
    (forall t f, writes t f = true -> f < nfl t) ->
    Safe task tasks preds src writes wbs rank ->
    forall evs1 evs2,
      complete task tasks (vrun task teq tasks preds succs nfl src reads writes wbs F D0 U0 evs1) ->
      complete task tasks (vrun task teq tasks preds succs nfl src reads writes wbs F D0 U0 evs2) ->
      forall c, mem task (vrun task teq tasks preds succs nfl src reads writes wbs F D0 U0 evs1) c
                = mem task (vrun task teq tasks preds succs nfl src reads writes wbs F D0 U0 evs2) c.
Proof. exact final_memory_schedule_independent. Qed.
Print Assumptions C02_engine_generic.

(* ---- non-vacuity.
     A(k) k = 0..1   RW X <- D(k)                 -> X B(k)           (modifies D(k) in place)
     B(k) k = 0..1   RW X <- X A(k)               -> X C(k)           (in place again, then read by C)
                     WRITE Y <- NEW               -> D(4 + k)         (a tile, written back)
     C(j) j = 0..1   READ X <- (j == 0) ? X B(0) : X B(1)
                     READ Z <- D(2 + j)                                                        *)
Definition dep_in (t : target) := {| d_in := true; d_guard := None; d_then := t; d_else := None |}.
Definition dep_out (t : target) := {| d_in := false; d_guard := None; d_then := t; d_else := None |}.
Definition k01 := Lrange (Ec 0) (Ec 1) (Ec 1).
Definition ex_prog : program :=
  {| p_globals := [];
     p_classes :=
       [ {| c_locals := [k01]; c_params := [0%nat]; c_place := [Ec 0];
            c_flows := [ {| f_mode := MRW; f_deps := [dep_in (Tmem [El 0]); dep_out (Ttask 1 0 [Aexp (El 0)])] |} ];
            c_prio := None; c_count := false |};
         {| c_locals := [k01]; c_params := [0%nat]; c_place := [Ec 0];
            c_flows := [ {| f_mode := MRW; f_deps := [dep_in (Ttask 0 0 [Aexp (El 0)]);
                                                       dep_out (Ttask 2 0 [Aexp (El 0)])] |};
                         {| f_mode := MWrite; f_deps := [dep_in Tnew; dep_out (Tmem [Eb Oadd (Ec 4) (El 0)])] |} ];
            c_prio := None; c_count := false |};
         {| c_locals := [k01]; c_params := [0%nat]; c_place := [Ec 0];
            c_flows := [ {| f_mode := MRead;
                            f_deps := [ {| d_in := true; d_guard := Some (Eb Oeq (El 0) (Ec 0));
                                           d_then := Ttask 1 0 [Aexp (Ec 0)]; d_else := Some (Ttask 1 0 [Aexp (Ec 1)]) |} ] |};
                         {| f_mode := MRead; f_deps := [dep_in (Tmem [Eb Oadd (Ec 2) (El 0)])] |} ];
            c_prio := None; c_count := false |} ] |}.
Definition ex_names : list (list Z) := [[65%Z]; [66%Z]; [67%Z]].
Definition tA (k : Z) : tid := (0%nat, [k]).
Definition tB (k : Z) : tid := (1%nat, [k]).
Definition tC (k : Z) : tid := (2%nat, [k]).
(* an interleaved schedule: both chains in flight together, copies performed late and out of order *)
Definition ex_sched : list (vevent tid) :=
  [VE Startup; VE (Begin (tA 1)); VE (Begin (tA 0)); VE (End (tA 0)); VE (Begin (tB 0)); VE (End (tA 1));
   VE (End (tB 0)); VE (Begin (tC 0)); VE (Begin (tB 1)); VE (End (tB 1)); VE (Begin (tC 1)); VE (End (tC 1));
   VCopy 1; VE (End (tC 0)); VCopy 0].

Example C02_example :
  wf_program ex_prog = true /\ wf_program_fm ex_prog = true /\ safeb ex_prog = true /\ reads_uninit ex_prog = false
  /\ all_done ex_prog (ptg_seq_exec ex_names ex_prog) = true
  /\ all_done ex_prog (ptg_vrun ex_names ex_prog ex_sched) = true
  /\ obs_data (ptg_vrun ex_names ex_prog ex_sched) 6 = obs_data (ptg_seq_exec ex_names ex_prog) 6
  /\ obs_reads (ptg_vrun ex_names ex_prog ex_sched) (tC 1) = obs_reads (ptg_seq_exec ex_names ex_prog) (tC 1)
  /\ map fst (obs_reads (ptg_seq_exec ex_names ex_prog) (tC 1)) = [0%nat; 1%nat]
  /\ nth 3 (obs_data (ptg_seq_exec ex_names ex_prog) 6) 0%Z = 1003%Z
  /\ nth 0 (obs_data (ptg_seq_exec ex_names ex_prog) 6) 0%Z <> 1000%Z.
Proof. vm_compute. repeat split; discriminate. Qed.

(* why Safe is needed: the broadcast of ONE copy to two RW consumers.
     A(0)  RW X <- D(0) -> X B(0 .. 1)        B(k)  RW X <- X A(0)
   Both B write the copy in place; the final D(0) is the value of whichever ran last. *)
Definition ex_racy : program :=
  {| p_globals := [];
     p_classes :=
       [ {| c_locals := [Lrange (Ec 0) (Ec 0) (Ec 1)]; c_params := [0%nat]; c_place := [Ec 0];
            c_flows := [ {| f_mode := MRW; f_deps := [dep_in (Tmem [Ec 0]); dep_out (Ttask 1 0 [Arng (Ec 0) (Ec 1) (Ec 1)])] |} ];
            c_prio := None; c_count := false |};
         {| c_locals := [k01]; c_params := [0%nat]; c_place := [Ec 0];
            c_flows := [ {| f_mode := MRW; f_deps := [dep_in (Ttask 0 0 [Aexp (Ec 0)])] |} ];
            c_prio := None; c_count := false |} ] |}.
Definition racy1 : list (vevent tid) :=
  [VE Startup; VE (Begin (tA 0)); VE (End (tA 0)); VE (Begin (tB 0)); VE (End (tB 0)); VE (Begin (tB 1)); VE (End (tB 1))].
Definition racy2 : list (vevent tid) :=
  [VE Startup; VE (Begin (tA 0)); VE (End (tA 0)); VE (Begin (tB 1)); VE (End (tB 1)); VE (Begin (tB 0)); VE (End (tB 0))].
Example C02_unsafe_program_is_rejected_and_schedule_dependent :
  wf_program ex_racy = true /\ safeb ex_racy = false
  /\ all_done ex_racy (ptg_vrun ex_names ex_racy racy1) = true
  /\ all_done ex_racy (ptg_vrun ex_names ex_racy racy2) = true
  /\ obs_data (ptg_vrun ex_names ex_racy racy1) 1 <> obs_data (ptg_vrun ex_names ex_racy racy2) 1.
Proof. vm_compute. repeat split; discriminate. Qed.

(* overlapping input guards, first match wins (the usual JDF idiom):
     S(k) k = 0..2   RW B <- D(3 + k)                      -> B T(k)
     T(k) k = 0..2   RW A <- (k > 0) ? A T(k-1)   <- D(0)  -> (k < 2) ? A T(k+1)
                     READ B <- B S(k)
   wf_program refuses it (two guards hold for k > 0); wf_program_fm accepts it, and T(k) waits for T(k-1). *)
Definition ex_overlap : program :=
  {| p_globals := [];
     p_classes :=
       [ {| c_locals := [Lrange (Ec 0) (Ec 2) (Ec 1)]; c_params := [0%nat]; c_place := [Ec 0];
            c_flows := [ {| f_mode := MRW; f_deps := [dep_in (Tmem [Eb Oadd (Ec 3) (El 0)]); dep_out (Ttask 1 1 [Aexp (El 0)])] |} ];
            c_prio := None; c_count := false |};
         {| c_locals := [Lrange (Ec 0) (Ec 2) (Ec 1)]; c_params := [0%nat]; c_place := [Ec 0];
            c_flows := [ {| f_mode := MRW;
                            f_deps := [ {| d_in := true; d_guard := Some (Eb Ogt (El 0) (Ec 0));
                                           d_then := Ttask 1 0 [Aexp (Eb Osub (El 0) (Ec 1))]; d_else := None |};
                                        dep_in (Tmem [Ec 0]);
                                        {| d_in := false; d_guard := Some (Eb Olt (El 0) (Ec 2));
                                           d_then := Ttask 1 0 [Aexp (Eb Oadd (El 0) (Ec 1))]; d_else := None |} ] |};
                         {| f_mode := MRead; f_deps := [dep_in (Ttask 0 0 [Aexp (El 0)])] |} ];
            c_prio := None; c_count := false |} ] |}.
Example C02_overlapping_guards_first_match :
  wf_program ex_overlap = false /\ wf_program_fm ex_overlap = true /\ safeb ex_overlap = true
  /\ preds ex_overlap (1%nat, [2%Z]) = [(1%nat, [1%Z]); (0%nat, [2%Z])]
  /\ flow_src ex_overlap (1%nat, [2%Z]) 0 = STask (1%nat, [1%Z]) 0
  /\ flow_src ex_overlap (1%nat, [0%Z]) 0 = SMem 0%Z
  /\ all_done ex_overlap (ptg_seq_exec ex_names ex_overlap) = true.
Proof. vm_compute. repeat split. Qed.
