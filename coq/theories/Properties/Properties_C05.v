(* C05 — Distributed PTG results do not depend on process count or message path.
   Statements only; proofs live in PTGDist/DistProofs.v, DistLocal.v and PTGDistProofs.v.

   Model: PTGDist/DistEngine.v (distributed dataflow engine: per task status / input slots /
   outputs owned by rank_of t, per rank the activations and data received, ONE list of packets
   from which `Deliver a b` removes the oldest packet from a to b = per-pair FIFO channels with
   arbitrary delay; the completion of a producer is propagated along an ARBITRARY tree
   `parent p d` over the ranks that consume its outputs, every datum either embedded in the
   activation (eager/short) or fetched by GET/PUT (rendezvous) according to an ARBITRARY
   boolean `eager p d k`), instantiated in PTGDist/PTGDistDefs.v with the JDF AST of
   PTG/PTGDefs.v, the body hash of the harness and the sequential reference `seq_exec`.
   A schedule is an arbitrary list of events Startup r / Begin t / End t / Deliver a b
   (not enabled = no-op).

   `dist_hyps` collects what the theorems assume:
     wf_program, wf_dist   the program is well formed; a data flow has at most one input edge
     ranks                 the placement maps every instance below nranks (ANY function otherwise)
     tree                  parent is a tree over the destination ranks of every producer
     relay_holds           the EXPLICIT F8 condition: the rank that activates a consumer of output k
                           is the root or consumes k itself.  parsec_remote_dep_activate's chain and
                           binomial trees violate it when the destination sets of a task's outputs
                           overlap without being equal (C13_payload_refuted); then the statement is
                           FALSE of the faithful model: C05_refuted_without_relay_holds.
   Documented exclusion: one output flow with several remote shapes in short messages — the
   model has ONE output per flow (outputs are indexed by the flow), which is that hypothesis. *)
From Coq Require Import ZArith NArith List Bool Permutation.
From PV Require Import Base.Tac PTG.PTGDefs PTG.Engine PTG.PTGProofs
     PTGDist.DistEngine PTGDist.DistProofs PTGDist.DistLocal PTGDist.PTGDistDefs PTGDist.PTGDistProofs.
From PV Require Bcast.BcastDefs.
Import ListNotations.

Definition dist_hyps (P : program) (nranks : nat) (rank_of : tid -> nat) (parent : tid -> nat -> nat)
           (depth : tid -> nat -> nat) : Prop :=
  wf_program P = true /\ wf_dist P = true
  /\ (forall t, In t (instances P) -> rank_of t < nranks)
  /\ (forall p d, In p (instances P) -> dist_isdest P rank_of d p = true ->
        (parent p d = rank_of p \/ dist_isdest P rank_of (parent p d) p = true) /\ depth p (parent p d) < depth p d)
  /\ (forall p d k, In p (instances P) -> dist_isdest P rank_of d p = true -> dist_needs P rank_of d p k = true ->
        parent p d = rank_of p \/ dist_needs P rank_of (parent p d) p k = true).

(* every instance begins at most once, and only on the rank that owns it *)
Theorem C05_runs_once_on_owner : forall names P nranks rank_of parent eager depth,
  dist_hyps P nranks rank_of parent depth -> forall evs,
  NoDup (begins tid (log tid (dist_run names P nranks rank_of parent eager evs)))
  /\ forall t r vs, In (LBegin t r vs) (log tid (dist_run names P nranks rank_of parent eager evs)) ->
       In t (instances P) /\ r = rank_of t.
Proof.
  intros names P nranks rank_of parent eager depth (H1 & H2 & H3 & H4 & H5) evs. split.
  - exact (ptgd_begins_once names P nranks rank_of parent eager depth H1 H2 H3 H4 H5 evs).
  - intros t r vs H. destruct (ptgd_begin_on_owner names P nranks rank_of parent eager depth H1 H2 H3 H4 H5 evs t r vs H) as (A & B & _). auto.
Qed.
Print Assumptions C05_runs_once_on_owner.

(* the values an instance reads are those of the sequential reference, whatever the rank count, placement,
   tree, protocol choice and schedule *)
Theorem C05_inputs_equal_sequential_reference : forall names P nranks rank_of parent eager depth,
  dist_hyps P nranks rank_of parent depth -> forall evs t r vs,
  In (LBegin t r vs) (log tid (dist_run names P nranks rank_of parent eager evs)) ->
  vs = map (seq_in names P t) (d_reads P t).
Proof.
  intros names P nranks rank_of parent eager depth (H1 & H2 & H3 & H4 & H5) evs t r vs H.
  apply (ptgd_begin_on_owner names P nranks rank_of parent eager depth H1 H2 H3 H4 H5 evs t r vs H).
Qed.
Print Assumptions C05_inputs_equal_sequential_reference.

Theorem C05_outputs_equal_sequential_reference : forall names P nranks rank_of parent eager depth,
  dist_hyps P nranks rank_of parent depth -> forall evs t r ovs,
  In (LEnd t r ovs) (log tid (dist_run names P nranks rank_of parent eager evs)) ->
  In t (instances P) /\ r = rank_of t /\ ovs = map (fun k => (k, seq_out names P t k)) (d_wlist P t).
Proof.
  intros names P nranks rank_of parent eager depth (H1 & H2 & H3 & H4 & H5) evs t r ovs H.
  apply (ptgd_end_values names P nranks rank_of parent eager depth H1 H2 H3 H4 H5 evs t r ovs H).
Qed.
Print Assumptions C05_outputs_equal_sequential_reference.

(* every datum a rank receives, embedded or fetched, is the reference value of that output *)
Theorem C05_received_values : forall names P nranks rank_of parent eager depth,
  dist_hyps P nranks rank_of parent depth -> forall evs d p k v,
  got tid (dist_run names P nranks rank_of parent eager evs) d p k = Some v -> In p (instances P) -> v = seq_out names P p k.
Proof.
  intros names P nranks rank_of parent eager depth (H1 & H2 & H3 & H4 & H5) evs d p k v H Hp.
  rewrite (seq_out_ref names P H1 p k Hp).
  apply (ptgd_received_values names P nranks rank_of parent eager depth H1 H2 H3 H4 H5 evs d p k v H).
Qed.
Print Assumptions C05_received_values.

(* no GET ever reaches a process that does not hold the datum (what aborts the runtime in F8) *)
Theorem C05_no_failure : forall names P nranks rank_of parent eager depth,
  dist_hyps P nranks rank_of parent depth -> forall evs,
  failed tid (dist_run names P nranks rank_of parent eager evs) = false.
Proof.
  intros names P nranks rank_of parent eager depth (H1 & H2 & H3 & H4 & H5) evs.
  exact (ptgd_no_failure names P nranks rank_of parent eager depth H1 H2 H3 H4 H5 evs).
Qed.
Print Assumptions C05_no_failure.

(* no lost activation: when nothing is enabled and no message is in flight, every instance is done *)
Theorem C05_no_lost_activation : forall names P nranks rank_of parent eager depth,
  dist_hyps P nranks rank_of parent depth -> forall evs,
  dist_quiescent P (dist_run names P nranks rank_of parent eager evs) ->
  forall t, In t (instances P) -> st tid (dist_run names P nranks rank_of parent eager evs) t = Done.
Proof.
  intros names P nranks rank_of parent eager depth (H1 & H2 & H3 & H4 & H5) evs.
  exact (ptgd_quiescent_all_done names P nranks rank_of parent eager depth H1 H2 H3 H4 H5 evs).
Qed.
Print Assumptions C05_no_lost_activation.

(* hence a complete run executes the multiset `instances P`, and its outputs and the final content of the
   collection are those of seq_exec *)
Theorem C05_complete_run_matches_seq_exec : forall names P nranks rank_of parent eager depth,
  dist_hyps P nranks rank_of parent depth -> forall evs,
  dist_quiescent P (dist_run names P nranks rank_of parent eager evs) ->
  Permutation (begins tid (log tid (dist_run names P nranks rank_of parent eager evs))) (instances P)
  /\ (forall t k, In t (instances P) -> state_out (dist_run names P nranks rank_of parent eager evs) t k = seq_out names P t k)
  /\ forall ndata, final_data P (state_out (dist_run names P nranks rank_of parent eager evs)) ndata
                   = final_data P (seq_out names P) ndata.
Proof.
  intros names P nranks rank_of parent eager depth (H1 & H2 & H3 & H4 & H5) evs.
  exact (ptgd_complete_run names P nranks rank_of parent eager depth H1 H2 H3 H4 H5 evs).
Qed.
Print Assumptions C05_complete_run_matches_seq_exec.

(* per-rank state: a step executed by rank r changes nothing that another rank owns, removes only a packet addressed
   to r and adds only packets sent by r.  No hypothesis. *)
Theorem C05_step_local : forall names P nranks rank_of parent eager s e,
  same_elsewhere tid rank_of (ev_rank tid rank_of e) s (dist_step names P nranks rank_of parent eager s e)
  /\ forall pk, In pk (net tid (dist_step names P nranks rank_of parent eager s e)) ->
       In pk (net tid s) \/ p_src tid pk = ev_rank tid rank_of e.
Proof.
  intros names P nranks rank_of parent eager s e. split.
  - apply step_local.
  - apply step_net_local.
Qed.
Print Assumptions C05_step_local.

(* seq_exec (instances in topological order over a store) solves the dataflow equations *)
Theorem C05_seq_exec_is_reference : forall names P, wf_program P = true -> forall t k, In t (instances P) ->
  seq_out names P t k = d_body names P t k (seq_in names P t)
  /\ forall f, seq_in names P t f = match d_in_edge P t f with
                                    | Some e => seq_out names P (e_task tid e) (e_oflow tid e)
                                    | None => d_srcv P t f end.
Proof. exact seq_exec_equations. Qed.
Print Assumptions C05_seq_exec_is_reference.

(* the engine-level statement for ANY finite DAG with flows (the form a DTD instantiation can reuse) *)
Theorem C05_engine_generic :
  forall (task : Type) (teq : forall a b : task, {a = b} + {a <> b}) (tasks : list task)
         (ins outs : task -> list (DistEngine.edge task)) (isctl writes : task -> nat -> bool) (reads wlist : task -> list nat)
         (hashv : task -> nat -> list Z -> Z) (srcv : task -> nat -> Z)
         (nranks : nat) (rank_of : task -> nat) (parent : task -> nat -> nat) (eager : task -> nat -> nat -> bool),
    (forall p x, In p tasks -> In x tasks ->
       Permutation (map (fun e => (e_oflow task e, p, e_flow task e)) (filter (fun e => teqb task teq (e_task task e) x) (outs p)))
                   (filter (fun e => teqb task teq (e_task task e) p) (ins x))) ->
    (forall p e, In p tasks -> In e (outs p) -> In (e_task task e) tasks) ->
    (forall t e, In t tasks -> In e (ins t) -> In (e_task task e) tasks) ->
    forall drank : task -> nat,
    (forall t e, In t tasks -> In e (ins t) -> drank (e_task task e) < drank t) ->
    (forall t e1 e2, In t tasks -> In e1 (ins t) -> In e2 (ins t) -> e_flow task e1 = e_flow task e2 ->
       isctl t (e_flow task e1) = false -> e1 = e2) ->
    (forall t f, In t tasks -> In f (reads t) -> isctl t f = false) ->
    (forall t, In t tasks -> rank_of t < nranks) ->
    forall depth : task -> nat -> nat,
    (forall p d, In p tasks -> isdest task outs rank_of d p = true ->
       (parent p d = rank_of p \/ isdest task outs rank_of (parent p d) p = true) /\ depth p (parent p d) < depth p d) ->
    (forall p d k, In p tasks -> isdest task outs rank_of d p = true -> needs task outs rank_of d p k = true ->
       parent p d = rank_of p \/ needs task outs rank_of (parent p d) p k = true) ->
    forall refin refout : task -> nat -> Z,
    (forall t f, refin t f = match in_edge task ins t f with Some e => refout (e_task task e) (e_oflow task e) | None => srcv t f end) ->
    (forall t k, In t tasks -> refout t k = body task isctl writes reads hashv t k (refin t)) ->
    forall evs, NoDup tasks ->
      quiescent task tasks (run task teq tasks ins outs isctl writes reads wlist hashv srcv nranks rank_of parent eager evs) ->
      Permutation (begins task (log task (run task teq tasks ins outs isctl writes reads wlist hashv srcv nranks rank_of parent eager evs))) tasks.
Proof. exact dist_quiescent_executed_once. Qed.
Print Assumptions C05_engine_generic.

(* ---- the relay-lacks-output program (design finding F8), 3 ranks, cyclic placement on the first parameter:
     TA(0)@0   RW A <- D(0) -> A TB(1 .. 2) -> D(2)      RW B <- D(1) -> B TC(2) -> D(3)
     TB(k)@k   READ A <- A TA(0)        k = 1 .. 2
     TC(2)@2   READ B <- B TA(0)
   output A goes to ranks {1, 2}, output B to rank {2} *)
Definition dep_in (t : target) := {| d_in := true; d_guard := None; d_then := t; d_else := None |}.
Definition dep_out (t : target) := {| d_in := false; d_guard := None; d_then := t; d_else := None |}.
Definition one (k : Z) := Lrange (Ec k) (Ec k) (Ec 1).
Definition ex_f8 : program :=
  {| p_globals := [];
     p_classes :=
       [ {| c_locals := [one 0]; c_params := [0%nat]; c_place := [Ec 0];
            c_flows := [ {| f_mode := MRW; f_deps := [dep_in (Tmem [Ec 0]); dep_out (Ttask 1 0 [Arng (Ec 1) (Ec 2) (Ec 1)]); dep_out (Tmem [Ec 2])] |};
                         {| f_mode := MRW; f_deps := [dep_in (Tmem [Ec 1]); dep_out (Ttask 2 0 [Aexp (Ec 2)]); dep_out (Tmem [Ec 3])] |} ];
            c_prio := None; c_count := false |};
         {| c_locals := [Lrange (Ec 1) (Ec 2) (Ec 1)]; c_params := [0%nat]; c_place := [Ec 0];
            c_flows := [ {| f_mode := MRead; f_deps := [dep_in (Ttask 0 0 [Aexp (Ec 0)])] |} ];
            c_prio := None; c_count := false |};
         {| c_locals := [one 2]; c_params := [0%nat]; c_place := [Ec 0];
            c_flows := [ {| f_mode := MRead; f_deps := [dep_in (Ttask 0 1 [Aexp (Ec 0)])] |} ];
            c_prio := None; c_count := false |} ] |}.
Definition ex_names : list (list Z) := [[84; 65]; [84; 66]; [84; 67]]%Z.      (* "TA" "TB" "TC" *)
Definition ex_rank : tid -> nat := place_rank PCyc 3.
Definition ex_depth : tid -> nat -> nat := fun _ d => d.
Definition tA : tid := (0%nat, [0%Z]).
Definition ex_sched : list (event tid) := rounds 6 (all_events ex_f8 3).
Definition idle (P : program) (s : state tid) : bool :=
  forallb (fun t => match st tid s t with Ready | Running | Waiting 0 => false | _ => true end) (instances P).

(* WITHOUT relay_holds the property is false of the faithful model: with the tree parsec_remote_dep_activate builds
   for the default chain topology (C13's model: 0 -> 1 -> 2) every other hypothesis holds, rank 2 asks relay 1
   for output B, which rank 1 never held (the runtime aborts in MPI_Isend), TC(2) never runs although nothing is
   enabled and no message is in flight *)
Theorem C05_refuted_without_relay_holds :
  exists names P nranks rank_of parent eager depth evs,
    wf_program P = true /\ wf_dist P = true /\ ranks_okb P nranks rank_of = true
    /\ tree_okb P nranks rank_of parent depth = true
    /\ relay_holdsb P nranks rank_of parent = false
    /\ let s := dist_run names P nranks rank_of parent eager evs in
       failed tid s = true /\ net tid s = [] /\ idle P s = true /\ all_done P s = false.
Proof.
  exists ex_names, ex_f8, 3%nat, ex_rank, (c13_parent ex_f8 3 ex_rank BcastDefs.Chain), (fun _ _ _ => true), ex_depth, ex_sched.
  vm_compute. repeat split; reflexivity.
Qed.
Print Assumptions C05_refuted_without_relay_holds.

(* C13's own predicate flags the same producer, and the tree is the one of its witness (C13_payload_refuted) *)
Theorem C05_c13_tree_refuted :
  c13_relay_lacks ex_f8 3 ex_rank BcastDefs.Chain tA = true
  /\ dest_sets ex_f8 ex_rank tA = [[1; 2]; [2]]%N
  /\ map (c13_parent ex_f8 3 ex_rank BcastDefs.Chain tA) [1; 2]%nat = [0; 1]%nat
  /\ c13_relay_lacks ex_f8 3 ex_rank BcastDefs.Star tA = false
  /\ c13_relay_lacks ex_f8 3 ex_rank BcastDefs.Binomial tA = false.
Proof. vm_compute. repeat split; reflexivity. Qed.
Print Assumptions C05_c13_tree_refuted.

(* non-vacuity: the same program with the star tree meets every hypothesis; a schedule in which both
   protocols are used runs TA on 0, TB(1) on 1, TB(2) and TC(2) on 2, with the reference values *)
Example C05_hyps_satisfiable : dist_hyps ex_f8 3 ex_rank (c13_parent ex_f8 3 ex_rank BcastDefs.Star) ex_depth.
Proof.
  assert (Hwf : wf_program ex_f8 = true) by (vm_compute; reflexivity).
  assert (Hr : ranks_okb ex_f8 3 ex_rank = true) by (vm_compute; reflexivity).
  split; [exact Hwf|]. split; [vm_compute; reflexivity|]. split; [exact (ranks_okb_sound ex_f8 3 ex_rank Hr)|]. split.
  - apply (tree_okb_sound ex_f8 3 ex_rank _ ex_depth Hwf Hr). vm_compute. reflexivity.
  - apply (relay_holdsb_sound ex_f8 3 ex_rank _ Hwf Hr). vm_compute. reflexivity.
Qed.

Example C05_example :
  let s := dist_run ex_names ex_f8 3 ex_rank (c13_parent ex_f8 3 ex_rank BcastDefs.Star) (fun _ d _ => Nat.even d) ex_sched in
  failed tid s = false /\ net tid s = [] /\ all_done ex_f8 s = true
  /\ map (fun x => (fst (fst x), snd (fst x))) (log_begins s) = [((1%nat, [1%Z]), 1%nat); ((2%nat, [2%Z]), 2%nat); ((1%nat, [2%Z]), 2%nat); (tA, 0%nat)]
  /\ map snd (log_begins s) = [[1836216450972380024]; [1071881603628849665]; [1836216450972380024]; [1000; 1001]]%Z
  /\ final_data ex_f8 (state_out s) 4 = final_data ex_f8 (seq_out ex_names ex_f8) 4
  /\ final_data ex_f8 (seq_out ex_names ex_f8) 4
     = [Some 1836216450972380024; Some 1071881603628849665; Some 1836216450972380024; Some 1071881603628849665]%Z.
Proof. vm_compute. repeat split; reflexivity. Qed.
