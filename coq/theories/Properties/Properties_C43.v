(* C43 - Accelerator tasks see the newest data.

   FULL STATEMENT (properties.jsonl): a task executed on an accelerator reads the newest version of each input,
   its writes become visible to every later reader on any device, and device memory holding data needed by a
   pending task is never evicted; for all task placements and eviction orders.

   What is established about the faithful model (GPUDefs.v = device_gpu.c + data.c as driven by DTD with one task in
   flight), for every state / task sequence / capacity / number of devices:
     - eviction clause: PROVED (C43_eviction_victim_idle_clean, C43_reserve_spares_busy_and_dirty):
       the reservation pass only evicts copies of the clean list with no reader that no earlier flow of the running task
       names; copies with readers, copies outside the clean list (dirty list, copies held by running tasks) and the copies
       of all the flows of the task are still attached when it ends; C43_capacity_respected: the zone is never over-committed;
     - "reads the newest version / writes visible to later readers / newest version never lost": REFUTED in the model and,
       with the same inputs, on the real code (C43_*_refuted below; notes/findings/C43-*.md):
         stale owner_device after an eviction, a read by the owner demotes the dirty copy which is then evicted,
         data_in of a task inserted later is the stale host copy, an older SHARED copy on a third device,
         CPU writers inserted with parsec_dtd_insert_task do not bump the version;
     - value clause, what is proved: C43_stage_in_moves_source_value (a kernel reads the memory of the source chosen by the
       stage-in when a copy is made, its own tile otherwise).  NOT proved: "reads see the last writer" for the programs
       obeying the "through the host" discipline (GPUSpec.through_host: every device write with PUSHOUT, a CPU task-class
       write between a device write of a tile and its next device use), under which the unchanged code is right on every
       generated input: that statement is exercised by the differential run and the oracle only (missing: the invariant
       relating versions, coherency states and memory contents through start/end_transfer_ownership).  *)
From Coq Require Import ZArith List Bool.
From PV Require Import Coherency.CoherencyDefs GPU.GPUDefs GPU.GPUSpec GPU.GPUProofs GPU.GPUPushout.
Import ListNotations.
Local Open Scope Z_scope.

(* ---- eviction rules (all states, all tasks) -------------------------------- *)
Theorem C43_eviction_victim_idle_clean : forall fuel st g earlier st' e,
  evict_loop fuel st g earlier = Some (st', e) ->
  In e (lru (get_dev st g)) /\ ~ In e earlier /\
  (exists c, copy_at st e g = Some c /\ rdr c = 0) /\
  dats st' = dats (set_slot st e g None) /\ cap st' = cap st /\
  owned (get_dev st' g) = owned (get_dev st g) /\
  (forall x, In x (lru (get_dev st' g)) -> In x (lru (get_dev st g))).
Proof. exact evict_loop_spec. Qed.

Theorem C43_reserve_spares_busy_and_dirty : forall st g fl st' ev, reserve st g fl = Some (st', ev) ->
  (forall e, In e ev -> In e (lru (get_dev st g))) /\
  (forall f, In f fl -> slot_ok st (fd f) g -> copy_at st' (fd f) g <> None) /\
  (forall d c, copy_at st d g = Some c -> rdr c <> 0 -> copy_at st' d g = Some c) /\
  (forall d c, copy_at st d g = Some c -> ~ In d (lru (get_dev st g)) -> copy_at st' d g = Some c) /\
  owned (get_dev st' g) = owned (get_dev st g) /\
  (forall d i, i <> g -> copy_at st' d i = copy_at st d i).
Proof. exact reserve_spec. Qed.

Theorem C43_capacity_respected : forall nd ngpu c direct ts tr g,
  In tr (fst (grun nd ngpu c direct ts)) -> (1 <= g)%nat -> (resident (tr_st tr) g <= c)%nat.
Proof. exact capacity_respected. Qed.

(* what a kernel reads is decided by the stage-in alone: the tile receives the content of the chosen source when a copy is
   enqueued, and no memory changes otherwise (all states, all flows) *)
Theorem C43_stage_in_moves_source_value : forall st g f st' s cps, stage_in st g f = Some (st', s, cps) ->
  (g < length (vals (get_dat st (fd f))))%nat ->
  (cps = [] /\ same_vals st' st) \/
  (cps = [(fd f, s, g)] /\ val_at st' (fd f) g = val_at st (fd f) s /\
   forall e i, (e <> fd f \/ i <> g) -> val_at st' e i = val_at st e i).
Proof. exact stage_in_value. Qed.

(* ---- a successor on another rank is served from the newest version (post-kernel sequence, all successor lists) ---- *)
(* parsec_gpu_task_update_pushout (the walk of iterate_successors with parsec_gpu_pushout_remote_successor, including its
   early STOP) sets the pushout bit of flow i exactly when the upper layer asked for it or the flow is written and one of its
   successors lives on another rank - for every list of successors of every flow, in every enumeration order *)
Theorem C43_pushout_decision : forall fl succs i, memb i (pushout_bits fl succs) = needs_pushout fl succs i.
Proof. exact pushout_bits_spec. Qed.
(* then kernel_pop, the device-to-host copies and kernel_epilog leave the host copy - the copy the communication engine
   sends, MPI being unable to send from device memory - with the version and the content of the device copy *)
Theorem C43_remote_successor_served_from_newest : forall st g fl succs i f c0 cg,
  (1 <= g)%nat -> NoDup (map fd fl) ->
  nth_error fl i = Some f -> writes (fm f) = true -> has_remote (nth i succs []) = true ->
  copy_at st (fd f) 0 = Some c0 -> copy_at st (fd f) g = Some cg ->
  (0 < length (vals (get_dat st (fd f))))%nat ->
  let st' := post_kernel st g fl succs in
  exists c0' cg', copy_at st' (fd f) 0 = Some c0' /\ copy_at st' (fd f) g = Some cg' /\
                  ver c0' = ver cg /\ ver cg' = ver cg /\ cst c0' = SHARED /\
                  val_at st' (fd f) 0 = val_at st (fd f) g /\ val_at st' (fd f) g = val_at st (fd f) g.
Proof. exact remote_successor_served_from_newest. Qed.

(* ---- refutations of the value clauses (witnesses replayed on the real code: corpus/C43) ---- *)
Definition R d := mkflow d MR false.
Definition X d := mkflow d MX false.
Definition Xp d := mkflow d MX true.
Definition G g fl := mktask (S g) fl.
Definition Cpu fl := mktask 0 fl.

(* one device of 2 tiles, every device write asks for PUSHOUT: tile 0 is written on the device, evicted, read again
   on the same device: owner_device still names the device, no transfer is made into the new copy *)
Definition w_stale_owner := [G 0 [Xp 0]; G 0 [R 1]; G 0 [R 2]; G 0 [R 0]].
Theorem C43_reads_see_last_writer_refuted :
  exists nd ngpu c ts, contract ts = true /\ all_pushout ts = true /\ distinct_flows ts = true /\
                       reads_ok nd ngpu c false ts = false.
Proof. exists 3%nat, 1%nat, 2%nat, w_stale_owner. vm_compute. repeat split. Qed.

(* a read by the device that owns a dirty copy demotes it to SHARED; it joins the clean list, is evicted without
   write-back, and the only newest version is gone *)
Definition w_dirty_lost := [G 0 [X 0]; G 0 [R 0]; G 0 [R 1]; G 0 [R 2]; G 0 [Xp 0]].
Theorem C43_newest_version_kept_refuted :
  exists nd ngpu c ts k, contract ts = true /\ distinct_flows ts = true /\
     holds_newest (state_after nd ngpu c false (firstn k ts)) (mem_after nd (firstn k ts)) = false /\
     reads_ok nd ngpu c false ts = false.
Proof. exists 3%nat, 1%nat, 2%nat, w_dirty_lost, 4%nat. vm_compute. repeat split. Qed.

(* the source of a stage-in is not the newest version: tile 0 was written on device 1 (no PUSHOUT, next user is a
   device task: allowed), the reader on device 2 is fed from the host copy *)
Definition w_other_device := [G 0 [X 0]; G 1 [R 0]; G 0 [Xp 0]].
Theorem C43_stage_in_source_newest_refuted :
  exists nd ngpu c ts tr,
     contract ts = true /\ nth_error (fst (grun nd ngpu c false ts)) 1 = Some tr /\
     tr_copies tr = [(0%nat, 0%nat, 2%nat)] /\
     (let st1 := state_after nd ngpu c false (firstn 1 ts) in
      let m1 := mem_after nd (firstn 1 ts) in
      val_at st1 0 0 <> nth 0 m1 0 /\ val_at st1 0 1 = nth 0 m1 0) /\
     reads_ok nd ngpu c false ts = false.
Proof.
  exists 1%nat, 2%nat, 2%nat, w_other_device. eexists. vm_compute.
  split; [reflexivity|]. split; [reflexivity|]. split; [reflexivity|]. split; [split; [discriminate|reflexivity]|reflexivity].
Qed.

(* two devices, every write with PUSHOUT: an older SHARED copy on the device that did not write is used as is *)
Definition w_stale_shared := [G 1 [R 0]; G 0 [Xp 0]; G 1 [R 0]].
Theorem C43_reads_refuted_stale_shared :
  exists nd ngpu c ts, contract ts = true /\ all_pushout ts = true /\ reads_ok nd ngpu c false ts = false.
Proof. exists 1%nat, 2%nat, 2%nat, w_stale_shared. vm_compute. repeat split. Qed.

(* CPU writer inserted with parsec_dtd_insert_task (its body is the hook: no version bump): the device keeps its copy *)
Definition w_cpu_direct := [G 0 [Xp 0]; Cpu [X 0]; G 0 [R 0]].
Theorem C43_reads_refuted_cpu_direct :
  exists nd ngpu c ts, contract ts = true /\ all_pushout ts = true /\
     reads_ok nd ngpu c true ts = false /\ reads_ok nd ngpu c false ts = true.
Proof. exists 1%nat, 1%nat, 2%nat, w_cpu_direct. vm_compute. repeat split. Qed.

Print Assumptions C43_eviction_victim_idle_clean.
Print Assumptions C43_reserve_spares_busy_and_dirty.
Print Assumptions C43_capacity_respected.
Print Assumptions C43_stage_in_moves_source_value.
Print Assumptions C43_pushout_decision.
Print Assumptions C43_remote_successor_served_from_newest.
Print Assumptions C43_reads_see_last_writer_refuted.
Print Assumptions C43_newest_version_kept_refuted.
Print Assumptions C43_stage_in_source_newest_refuted.
Print Assumptions C43_reads_refuted_stale_shared.
Print Assumptions C43_reads_refuted_cpu_direct.

(* ---- non-vacuity ------------------------------------------------------------- *)
(* a reservation pass that does evict: device 1 of 2 tiles holds tiles 1 and 2 in its clean list, a task naming
   tiles 0 and 3 evicts both, in list order *)
Example C43_reserve_nonvacuous :
  let st := state_after 4 1 2 false [G 0 [R 1]; G 0 [R 2]] in
  lru (get_dev st 1) = [1%nat; 2%nat] /\
  exists st', reserve st 1 [R 0; R 3] = Some (st', [1%nat; 2%nat]).
Proof. vm_compute. split; [reflexivity|]. eexists. reflexivity. Qed.
(* a local successor enumerated before a remote one (the layout {0,1}), next to a flow with local successors only:
   the first flow is pushed out, the second is not *)
Example C43_pushout_nonvacuous :
  let fl := [mkflow 0 MX false; mkflow 1 MX false] in
  let succs := [[0%nat; 1%nat]; [0%nat; 0%nat]] in
  map fpo (with_pushout fl succs) = [true; false] /\
  (let tr := fst (prun_s 2 1 2 [(mktask 1 fl, succs)]) in
   map (fun t => (val_at (tr_st t) 0 0 =? val_at (tr_st t) 0 1, val_at (tr_st t) 1 0 =? val_at (tr_st t) 1 1)) tr
   = [(true, false)]).
Proof. vm_compute. split; reflexivity. Qed.
(* a program under memory pressure that obeys the "through the host" discipline and is executed correctly *)
Example C43_through_host_nonvacuous :
  let ts := [G 0 [R 0; R 1]; G 0 [Xp 2]; Cpu [X 2]; G 0 [R 3; R 2]; G 0 [R 0; Xp 1]; Cpu [X 1]; G 0 [R 1; R 2]] in
  through_host ts = true /\ contract ts = true /\ reads_ok 4 1 2 false ts = true /\
  tr_evicted (nth 3 (fst (grun 4 1 2 false ts)) (mktres [] [] [] (init_state 4 1 2))) <> [].
Proof. vm_compute. repeat split. discriminate. Qed.
