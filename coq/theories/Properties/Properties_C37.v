(* C37 — Taskpool identifiers resolve to the registered taskpool.
   Statements only; the model is TpIds/TpIdsDefs.v (parsec/parsec.c:
   taskpool_array, parsec_taskpool_reserve_id / _register / _unregister /
   _lookup / _sync_ids_context), proofs in TpIds/TpIdsProofs.v and TpIdsClauses.v.

   A history is a list of events over n processes: [At r op] = process r runs
   one critical section of taskpool_array_lock, [SyncAll] = the collective
   parsec_taskpool_sync_ids (MPI_Allreduce(MAX) of the counters).  Because every
   operation is one critical section of the same lock, the concurrent
   executions of one process are exactly these sequential histories.
   [wf n h] is the callers' discipline, stated on the finite-map
   specification: a pool is given an identifier once, before it is registered
   or unregistered; identifiers looked up are >= 1. *)
From Coq Require Import Sorted.
From PV Require Import Base.Tac TpIds.TpIdsDefs TpIds.TpIdsProofs TpIds.TpIdsClauses.
Local Open Scope Z_scope.

(* trace refinement to one finite map id -> pool per process: every answer of
   the table (identifiers, lookups, no crash) is the answer of the maps, for
   every number of processes and every history, array growth included *)
Theorem C37_refines_finite_map : forall n h, wf n h = true ->
  snd (sys_run (sys_init n) h) = snd (spec_sys_run (spec_sys_init n) h).
Proof. exact refines_finite_map. Qed.
Print Assumptions C37_refines_finite_map.

(* ... and at any time the lookup of any identifier is the map's entry *)
Theorem C37_lookup_is_map : forall n h r s a i, wf n h = true ->
  nth_error (fst (sys_run (sys_init n) h)) r = Some s ->
  nth_error (fst (spec_sys_run (spec_sys_init n) h)) r = Some a ->
  1 <= i -> lookup s i = RPool (s_map a i) /\ dead s = false.
Proof. exact lookup_is_map. Qed.
Print Assumptions C37_lookup_is_map.

(* while a taskpool is registered, looking up its identifier returns it *)
Theorem C37_registered_resolves : forall n h1 h2 r p,
  wf n (h1 ++ At r (Register p) :: h2) = true -> ~ In (At r (Unregister p)) h2 ->
  exists s i, nth_error (fst (sys_run (sys_init n) (h1 ++ At r (Register p) :: h2))) r = Some s /\
    1 <= i /\ assoc p (tpid s) = i /\ lookup s i = RPool (Some p).
Proof. exact registered_resolves. Qed.
Print Assumptions C37_registered_resolves.

(* after unregistration the lookup returns nothing *)
Theorem C37_unregistered_resolves_to_nothing : forall n h1 h2 r p,
  wf n (h1 ++ At r (Unregister p) :: h2) = true -> ~ In (At r (Register p)) h2 ->
  exists s i, nth_error (fst (sys_run (sys_init n) (h1 ++ At r (Unregister p) :: h2))) r = Some s /\
    1 <= i /\ assoc p (tpid s) = i /\ lookup s i = RPool None.
Proof. exact unregistered_resolves_to_nothing. Qed.
Print Assumptions C37_unregistered_resolves_to_nothing.

(* identifiers under which nothing was ever registered resolve to nothing *)
Theorem C37_never_registered_is_null : forall n h r s i, wf n h = true ->
  nth_error (fst (sys_run (sys_init n) h)) r = Some s -> 1 <= i ->
  (forall p, In (At r (Register p)) h -> assoc p (tpid s) <> i) ->
  lookup s i = RPool None.
Proof. exact never_registered_is_null. Qed.
Print Assumptions C37_never_registered_is_null.

(* growth of the array preserves the entries *)
Theorem C37_growth_preserves_entries : forall n h r p s i, wf n (h ++ [At r (Reserve p)]) = true ->
  nth_error (fst (sys_run (sys_init n) h)) r = Some s -> 1 <= i ->
  lookup (fst (step s (Reserve p))) i = lookup s i.
Proof. exact growth_preserves_entries. Qed.
Print Assumptions C37_growth_preserves_entries.

(* identifiers reserved by one process are pairwise distinct (strictly
   increasing, >= 1), whatever else the callers do *)
Theorem C37_reserved_ids_distinct : forall n h r, collective h ->
  StronglySorted Z.lt (reserved_ids r h (snd (sys_run (sys_init n) h))) /\
  NoDup (reserved_ids r h (snd (sys_run (sys_init n) h))) /\
  Forall (fun i => 1 <= i) (reserved_ids r h (snd (sys_run (sys_init n) h))).
Proof. exact reserved_ids_distinct. Qed.
Print Assumptions C37_reserved_ids_distinct.

(* after the synchronisation all processes assign the same identifier to
   their next taskpool, and it is new everywhere *)
Theorem C37_sync_common_next : forall n h r1 r2 s1 s2 p1 p2, wf n h = true -> collective h ->
  let ss := fst (sys_run (sys_init n) (h ++ [SyncAll])) in
  nth_error ss r1 = Some s1 -> nth_error ss r2 = Some s2 ->
  exists i, snd (step s1 (Reserve p1)) = RId i /\ snd (step s2 (Reserve p2)) = RId i /\
    forall r, Forall (fun j => j < i) (reserved_ids r h (snd (sys_run (sys_init n) h))).
Proof. exact sync_common_next. Qed.
Print Assumptions C37_sync_common_next.

(* the synchronisation is one critical section of taskpool_array_lock: the
   value written back is the maximum over the counters as they are at that
   moment, so no counter ever decreases (a reservation by another thread of
   the process is ordered before or after the whole synchronisation, and
   C37_reserved_ids_distinct covers both orders) *)
Theorem C37_sync_never_lowers_a_counter : forall ss r s s', nth_error ss r = Some s -> dead s = false ->
  nth_error (fst (sys_step ss SyncAll)) r = Some s' -> pos s <= pos s' /\ pos s' = max_pos ss.
Proof. exact sync_never_lowers_a_counter. Qed.
Print Assumptions C37_sync_never_lowers_a_counter.

(* ... and it has to be: a write-back computed from a counter read before a
   reservation (Sync m with m below the current counter) repeats an identifier *)
Theorem C37_stale_write_back_repeats_an_identifier :
  let s1 := fst (step init (Reserve 1)) in
  let s2 := fst (step s1 (Sync 0)) in
  snd (step init (Reserve 1)) = RId 1 /\ snd (step s2 (Reserve 2)) = RId 1.
Proof. exact stale_write_back_repeats_an_identifier. Qed.
Print Assumptions C37_stale_write_back_repeats_an_identifier.

(* outside the property: 0 is not an identifier (the first one is 1), and the
   code does not tolerate its lookup: NULL array before the first
   reservation, a slot nobody initialised afterwards *)
Theorem C37_zero_is_not_an_identifier :
  lookup init 0 = RCrash /\ forall p, lookup (fst (step init (Reserve p))) 0 = RJunk.
Proof. exact (conj lookup_zero_fresh lookup_zero_after_reserve). Qed.
Print Assumptions C37_zero_is_not_an_identifier.

(* non-vacuity: two processes; process 0 reserves five identifiers (the array
   grows 1 -> 2 -> 4 -> 8), registers pool 3, process 1 reserves one; after the
   synchronisation both hand out 6; pool 3 is still found under 3 on process 0 *)
Example C37_example :
  let h := [At 0 (Reserve 1); At 0 (Reserve 2); At 0 (Reserve 3); At 0 (Register 3); At 0 (Reserve 4);
            At 0 (Reserve 5); At 1 (Reserve 1); At 1 (Register 1); SyncAll;
            At 0 (Reserve 6); At 1 (Reserve 2); At 0 (Lookup 3); At 1 (Lookup 3); At 1 (Lookup 1);
            At 0 (Unregister 3); At 0 (Lookup 3)] in
  wf 2 h = true /\
  snd (sys_run (sys_init 2) h) =
    [RId 1; RId 2; RId 3; RId 3; RId 4; RId 5; RId 1; RId 1; RUnit; RId 6; RId 6;
     RPool (Some 3); RPool None; RPool (Some 1); RUnit; RPool None] /\
  map size (fst (sys_run (sys_init 2) h)) = [8; 8].
Proof. vm_compute. repeat split. Qed.
