(* C31 — Lists and dequeues keep their contents and order.
   Statements only; the model is ListM/ListMDefs.v, the proofs ListM/ListMProofs.v.

   A parsec_list_t (and its dequeue / fifo aliases) is modelled by the Gallina list of
   its (id, priority) items from head to tail, a ring by the list of its items from the
   designated one.  The locked entry points run the same code inside the list's lock;
   their linearizability is an assumption here (the sequential behaviour of every
   entry point, locked or not, is tied to the model by the differential harness). *)
From PV Require Import Base.Tac ListM.ListMDefs ListM.ListMProofs ListM.ListMConcDefs ListM.ListMConcProofs.
From Coq Require Import Permutation.
Local Open Scope Z_scope.

(* every operation sequence, from every state: the items present at the start plus the
   items given to the operations are exactly (as a multiset) the items present at the end
   plus the items returned by pops / chops / removes — nothing is lost, nothing duplicated *)
Theorem C31_conservation : forall ops s,
  Permutation (contents s ++ flat_map op_in ops)
              (contents (fst (run s ops)) ++ flat_map ret_out (snd (run s ops))).
Proof. exact run_conserves. Qed.
Print Assumptions C31_conservation.

Theorem C31_no_duplication : forall ops s,
  NoDup (map iid (contents s ++ flat_map op_in ops)) ->
  NoDup (map iid (contents (fst (run s ops)) ++ flat_map ret_out (snd (run s ops)))).
Proof. exact run_no_dup. Qed.
Print Assumptions C31_no_duplication.

(* push / pop at both ends behave as a double-ended queue; chains are repeated pushes *)
Theorem C31_deque_laws : forall l x xs,
  pop_front (push_front l x) = (Some x, l) /\
  pop_back (push_back l x) = (Some x, l) /\
  (l <> [] -> pop_front (push_back l x) = (fst (pop_front l), push_back (snd (pop_front l)) x)) /\
  (l <> [] -> pop_back (push_front l x) = (fst (pop_back l), push_front (snd (pop_back l)) x)) /\
  pop_front [] = (None, []) /\ pop_back [] = (None, []) /\
  chain_back l xs = fold_left push_back xs l /\
  chain_front l xs = fold_right (fun y l => push_front l y) l xs /\
  unchain l = (l, []).
Proof. exact deque_laws. Qed.
Print Assumptions C31_deque_laws.

(* fifo: items pushed at the back come out at the front in arrival order *)
Theorem C31_fifo_order : forall l xs,
  drain_front (length (fold_left push_back xs l)) (fold_left push_back xs l) = l ++ xs.
Proof. exact fifo_order. Qed.
Print Assumptions C31_fifo_order.

(* push_sorted never moves the other items; in a non-increasing list it goes after every
   item of priority >= its own (so after the equal ones) and before the smaller ones,
   whichever scan direction the pivot expression selects *)
Theorem C31_push_sorted_placement : forall l x,
  (exists l1 l2, l = l1 ++ l2 /\ push_sorted l x = l1 ++ x :: l2) /\
  (desc l -> exists l1 l2, l = l1 ++ l2 /\ push_sorted l x = l1 ++ x :: l2 /\
     Forall (fun e => prio x <= prio e) l1 /\ Forall (fun e => prio e < prio x) l2).
Proof. exact push_sorted_placement_full. Qed.
Print Assumptions C31_push_sorted_placement.

Theorem C31_push_sorted_sorted : forall l x, desc l ->
  desc (push_sorted l x) /\ Permutation (push_sorted l x) (x :: l) /\
  forall v, withp v (push_sorted l x) = withp v l ++ (if prio x =? v then [x] else []).
Proof. exact push_sorted_sorted. Qed.
Print Assumptions C31_push_sorted_sorted.

(* chain_sorted into a non-increasing list = pushing the items one by one with push_sorted:
   the result is non-increasing, a permutation, and stable (equal priorities: old items
   first, then the chained ones in chain order), whatever the order of the chain *)
Theorem C31_chain_sorted_sorted : forall l items, desc l ->
  chain_sorted l items = fold_left push_sorted items l /\
  desc (chain_sorted l items) /\ Permutation (chain_sorted l items) (l ++ items) /\
  forall v, withp v (chain_sorted l items) = withp v l ++ withp v items.
Proof. exact chain_sorted_sorted. Qed.
Print Assumptions C31_chain_sorted_sorted.

(* on any list (sorted or not) chain_sorted loses and duplicates nothing *)
Theorem C31_chain_sorted_any : forall l items, Permutation (chain_sorted l items) (l ++ items).
Proof. exact chain_sorted_perm. Qed.
Print Assumptions C31_chain_sorted_any.

(* sort (bottom-up merge sort): a permutation in NON-DECREASING priority order (natural
   order of the ints: A_LOWER_PRIORITY_THAN_B decides), in which the items of one priority
   appear in the REVERSE of their order in the input *)
Theorem C31_sort_sorted : forall l,
  asc (sort l) /\ Permutation (sort l) l /\ forall v, withp v (sort l) = rev (withp v l).
Proof. exact sort_ok. Qed.
Print Assumptions C31_sort_sorted.

(* hence sort is exactly the mirror image of the stable non-increasing sort that the
   disabled (#if 0) variant of parsec_list_nolock_sort, chain_sorted into the emptied
   list, would compute *)
Theorem C31_sort_is_reversed_stable_sort : forall l, sort l = rev (chain_sorted [] l).
Proof. exact sort_rev_chain_sorted. Qed.
Print Assumptions C31_sort_is_reversed_stable_sort.

Theorem C31_sort_not_stable : exists l v, withp v (sort l) <> withp v l.
Proof. exact sort_not_stable. Qed.
Print Assumptions C31_sort_not_stable.

(* the order produced by sort is the opposite of the one the sorted insertions maintain *)
Theorem C31_sort_direction_differs : exists l x,
  ~ desc (push_sorted (sort l) x) /\ ~ asc (push_sorted (sort l) x).
Proof. exact sort_direction_differs. Qed.
Print Assumptions C31_sort_direction_differs.

(* ring_push_sorted: a permutation that moves nothing; the item goes BEFORE the first item
   of priority <= its own (before the equal ones), and a non-increasing ring stays so *)
Theorem C31_ring_push_sorted : forall l x,
  Permutation (rins l x) (x :: l) /\
  (exists l1 l2, l = l1 ++ l2 /\ rins l x = l1 ++ x :: l2 /\
     Forall (fun e => prio x < prio e) l1 /\ (desc l -> Forall (fun e => prio e <= prio x) l2)) /\
  (desc l -> desc (rins l x)).
Proof. exact ring_push_sorted_ok. Qed.
Print Assumptions C31_ring_push_sorted.

(* every sequence of order-preserving operations (pops, push_sorted, chain_sorted of any
   chain, remove, ring_push_sorted, ring_chop, chaining the ring sorted, unchain...) keeps
   both lists and the free ring non-increasing *)
Theorem C31_sorted_sequences : forall ops s,
  Forall (fun o => keeps_sorted o = true /\ keeps_ring_sorted o = true) ops ->
  all_sorted s -> all_sorted (fst (run s ops)).
Proof. exact run_sorted. Qed.
Print Assumptions C31_sorted_sequences.

(* and then pop_front returns an item of the highest priority *)
Theorem C31_sorted_pop_front_is_max : forall l x l', desc l -> pop_front l = (Some x, l') ->
  l = x :: l' /\ Forall (fun e => prio e <= prio x) l'.
Proof. exact pop_front_max. Qed.
Print Assumptions C31_sorted_pop_front_is_max.

(* ---- concurrent use of the locked entry points (ListMConcDefs.v) ----
   Any number of threads, any programs of locked operations, EVERY schedule, with the
   critical section of each operation atomic (the assumption on the lock) and the
   unlocked emptiness pre-check of the pops a step of its own: the log of linearisation
   points, replayed sequentially with the nolock operations from the initial list, gives
   exactly the logged results and the current list; per thread the logged (operation,
   result) pairs are what the thread has done so far, in program order.  Hence every
   interleaving equals some sequential order of the operations. *)
Theorem C31_locked_linearizable : forall l0 progs sched,
  let c := crun (cinit l0 progs) sched in
  replay l0 (log c) = (lst c, map snd (log c)) /\
  forall t th, nth_error (thrs c) t = Some th ->
    by_thread t (log c) = contributed th /\ nth_error progs t = Some (program_left th).
Proof. exact locked_linearizable. Qed.
Print Assumptions C31_locked_linearizable.

(* a finished thread's part of the log is its whole program, with the results it returned *)
Theorem C31_locked_complete : forall l0 progs sched t th,
  let c := crun (cinit l0 progs) sched in
  nth_error (thrs c) t = Some th -> todo th = [] ->
  nth_error progs t = Some (map fst (by_thread t (log c))) /\
  by_thread t (log c) = map (fun h => (fst (fst (fst h)), snd (fst (fst h)))) (hist th).
Proof. exact locked_complete. Qed.
Print Assumptions C31_locked_complete.

Theorem C31_locked_mutual_exclusion : forall l0 progs sched t u tht thu,
  let c := crun (cinit l0 progs) sched in
  nth_error (thrs c) t = Some tht -> nth_error (thrs c) u = Some thu ->
  held tht -> held thu -> t = u.
Proof. exact locked_mutual_exclusion. Qed.
Print Assumptions C31_locked_mutual_exclusion.

(* under every schedule nothing is lost or duplicated *)
Theorem C31_locked_conservation : forall l0 progs sched,
  let c := crun (cinit l0 progs) sched in
  Permutation (l0 ++ ins_of (log c)) (lst c ++ outs_of (log c)).
Proof. exact locked_conservation. Qed.
Print Assumptions C31_locked_conservation.

(* non-vacuity: a sequence of order-preserving operations with ties from the empty state
   (hypotheses of C31_sorted_sequences hold), and what sort does to ties *)
Example C31_example :
  let ops := [PushSorted false (1, 1); ChainSorted false [(2, 2); (3, 1); (4, 0); (5, 2)];
              PushSorted false (6, 1); PopFront false; RingPushSorted (7, 1); RingPushSorted (8, 1);
              RingPushSorted (9, 2); ChainRingSorted false; Remove false 1%nat] in
  Forall (fun o => keeps_sorted o = true /\ keeps_ring_sorted o = true) ops /\ all_sorted init /\
  l0 (fst (run init ops)) = [(5, 2); (1, 1); (3, 1); (6, 1); (8, 1); (7, 1); (4, 0)] /\
  snd (run init ops) = [RNone; RNone; RNone; RItem (2, 2); RNone; RNone; RNone; RNone; RRemoved (9, 2) (Some (5, 2))] /\
  sort [(1, 2); (2, 2); (4, 2); (3, 1); (5, 0)] = [(5, 0); (3, 1); (4, 2); (2, 2); (1, 2)] /\
  (* two threads appending concurrently, the second overtakes the first between its
     prelude and its lock acquisition; a busy try_pop *)
  (let c := crun (cinit [(1, 0)] [[CPushBack (2, 0); CPopBack false]; [CPushBack (3, 0); CPopFront true]])
                 [0; 1; 1; 1; 0; 1; 1; 0; 0; 0; 0]%nat in
   lst c = [(1, 0); (3, 0)] /\ lock c = None /\
   log c = [(1%nat, CPushBack (3, 0), CNone); (0%nat, CPushBack (2, 0), CNone); (1%nat, CPopFront true, CBusy);
            (0%nat, CPopBack false, CItem (2, 0))]).
Proof. vm_compute. repeat split; repeat constructor. Qed.
