(* C29 — Futures complete once and deliver one value.
   Statements only; proofs in Future/FutureBaseProofs.v, FutureCountProofs.v, FutureDcProofs.v.
   Models: Future/FutureDefs.v — atomic-step models of
     (a) the base future      (parsec_base_future_set / get / is_ready),
     (b) the countable future (parsec_countable_future_set),
     (c) the data-copy future (parsec_datacopy_future_get_or_trigger(_internal) / set, nested futures).
   A configuration holds one future and a list of threads, each running a list of operations;
   [brun/krun/drun ... sched] folds the step function over an ARBITRARY list of thread ids, for ANY
   number of threads and ANY operation lists.  The per-thread result lists ([b_res], [k_res],
   [d_res]) log every value ever returned, so statements about them cover earlier and later readers. *)
From PV Require Import Base.Tac Base.ListX Future.FutureDefs Future.FutureLib
  Future.FutureBaseProofs Future.FutureCountProofs Future.FutureDcProofs.
From Coq Require Import Permutation.

(* ===================== (a) base future ===================== *)
(* no hypothesis at all: once tracked_data is non-NULL no continuation of the schedule changes it *)
Theorem C29_base_value_written_once : forall h ops s1 s2,
  b_data (brun h ops s1) <> 0%Z -> b_data (brun h ops (s1 ++ s2)) = b_data (brun h ops s1).
Proof. exact base_value_written_once. Qed.
Print Assumptions C29_base_value_written_once.

(* protocol hypothesis: no set(NULL) (NULL is the "unset" sentinel of the CAS).  Every value
   returned by a get is the tracked value, is non-NULL, and the future is COMPLETED *)
Theorem C29_base_readers_get_the_value : forall h ops sched u th x, nonnull_sets ops ->
  nth_error (b_thr (brun h ops sched)) u = Some th -> In (BRGet x) (b_res th) ->
  x = b_data (brun h ops sched) /\ x <> 0%Z /\ b_stat (brun h ops sched) = true.
Proof. exact base_readers_get_the_value. Qed.
Print Assumptions C29_base_readers_get_the_value.

Theorem C29_base_later_reader_same_value : forall h ops s1 s2 u th x u' th' y, nonnull_sets ops ->
  nth_error (b_thr (brun h ops s1)) u = Some th -> In (BRGet x) (b_res th) ->
  nth_error (b_thr (brun h ops (s1 ++ s2))) u' = Some th' -> In (BRGet y) (b_res th') -> x = y.
Proof. exact base_later_reader_same_value. Qed.
Print Assumptions C29_base_later_reader_same_value.

(* exactly one set has won once the future is COMPLETED (none before), and the callback ran as often,
   seeing the tracked value *)
Theorem C29_base_one_winner_one_callback : forall h ops sched, nonnull_sets ops ->
  let c := brun h ops sched in
  tot nwon (b_thr c) = (if b_stat c then 1 else 0)%Z /\
  Z.of_nat (b_ncb c) = (if h && b_stat c then 1 else 0)%Z /\
  b_seen c = (if h && b_stat c then [b_data c] else []).
Proof. exact base_one_winner_one_callback. Qed.
Print Assumptions C29_base_one_winner_one_callback.

(* when all threads have finished and at least one set was issued, the registered callback has run
   exactly once *)
Theorem C29_base_callback_exactly_once : forall ops sched l v, nonnull_sets ops ->
  In l ops -> In (BSet v) l ->
  let c := brun true ops sched in
  (forall u th, nth_error (b_thr c) u = Some th -> b_done th = true) ->
  b_stat c = true /\ b_ncb c = 1%nat /\ b_seen c = [b_data c] /\ b_data c <> 0%Z.
Proof. exact base_callback_exactly_once. Qed.
Print Assumptions C29_base_callback_exactly_once.

(* the unguarded statement is false: set(NULL) completes the future with a NULL value, a later
   set(7) wins the CAS again; two readers see different values and the callback runs twice *)
Theorem C29_base_null_set_refuted : exists ops sched u th x y,
  nth_error (b_thr (brun true ops sched)) u = Some th /\
  In (BRGet x) (b_res th) /\ In (BRGet y) (b_res th) /\ x <> y /\
  b_ncb (brun true ops sched) = 2%nat.
Proof.
  exists [[BSet 0; BGet; BSet 7; BGet]], [0;0;0;0;0;0;0;0;0;0]%nat, 0%nat.
  eexists. exists 0%Z, 7%Z. vm_compute. repeat split; auto. discriminate.
Qed.
Print Assumptions C29_base_null_set_refuted.

(* ===================== (b) countable future ===================== *)
Theorem C29_countable_ready_exactly_at_count : forall h n0 ops sched, (1 <= n0)%Z ->
  let c := krun h n0 ops sched in
  k_stat c = (n0 <=? k_ndec c)%Z /\ k_count c = (n0 - k_ndec c)%Z /\ tot nsets (k_thr c) = k_ndec c.
Proof. exact countable_ready_exactly_at_count. Qed.
Print Assumptions C29_countable_ready_exactly_at_count.

Theorem C29_countable_callback_once : forall h n0 ops sched, (1 <= n0)%Z ->
  let c := krun h n0 ops sched in
  Z.of_nat (k_ncb c) = (if h && (n0 <=? k_ndec c)%Z then 1 else 0)%Z.
Proof. exact countable_callback_once. Qed.
Print Assumptions C29_countable_callback_once.

(* exactly the first count-1 sets return before readiness; ready flags and gets only after the count-th *)
Theorem C29_countable_set_flags : forall h n0 ops sched, (1 <= n0)%Z ->
  let c := krun h n0 ops sched in
  tot nsets0 (k_thr c) = Z.min (k_ndec c) (n0 - 1) /\
  (forall u th, nth_error (k_thr c) u = Some th ->
     (In (KRReady true) (k_res th) -> (n0 <= k_ndec c)%Z) /\
     (forall x, In (KRGet x) (k_res th) -> (n0 <= k_ndec c)%Z)).
Proof. exact countable_set_flags. Qed.
Print Assumptions C29_countable_set_flags.

(* count <= 0 is outside the protocol: such a future never becomes ready ... *)
Theorem C29_countable_nonpositive_never_ready : forall h n0 ops sched, (n0 <= 0)%Z ->
  k_stat (krun h n0 ops sched) = false /\ k_ncb (krun h n0 ops sched) = 0%nat.
Proof. exact countable_nonpositive_never_ready. Qed.
Print Assumptions C29_countable_nonpositive_never_ready.

(* ... so "ready exactly after count sets" fails for count = 0 (ready after 0 sets would be: at once) *)
Theorem C29_countable_zero_count_refuted : exists h ops sched,
  k_stat (krun h 0 ops sched) <> (0 <=? k_ndec (krun h 0 ops sched))%Z.
Proof. exists true, [[KSet]], []. vm_compute. discriminate. Qed.
Print Assumptions C29_countable_zero_count_refuted.

(* ===================== (c) data-copy future ===================== *)
(* cbv: per shape, the value the fulfilment callback sets synchronously (0: fulfilment deferred to a
   later set); rs: shape of the root future.  No hypothesis on operations or callbacks: *)
Theorem C29_dc_trigger_at_most_once : forall cbv rs ops sched i f,
  nth_error (d_futs (drun cbv rs ops sched)) i = Some f ->
  f_ncb f = (if f_trig f then 1 else 0)%nat /\ (f_ncb f <= 1)%nat.
Proof. exact dc_trigger_at_most_once. Qed.
Print Assumptions C29_dc_trigger_at_most_once.

Theorem C29_dc_one_fulfilment_per_shape : forall cbv rs ops sched s,
  let fs := d_futs (drun cbv rs ops sched) in
  NoDup (specs fs) /\ (fulfilments s fs <= 1)%nat.
Proof. exact dc_one_fulfilment_per_shape. Qed.
Print Assumptions C29_dc_one_fulfilment_per_shape.

Theorem C29_dc_lock_mutex : forall cbv rs ops sched i t u th th2,
  let c := drun cbv rs ops sched in
  t <> u -> nth_error (d_thr c) t = Some th -> holds i (d_pc th) = true ->
  nth_error (d_thr c) u = Some th2 -> holds i (d_pc th2) = true -> False.
Proof. exact dc_lock_mutex. Qed.
Print Assumptions C29_dc_lock_mutex.

(* protocol hypothesis = the assert of parsec_datacopy_future_set never fired (d_bad = false):
   all non-NULL values ever returned for a shape are equal, and are the value of its future *)
Theorem C29_dc_readers_agree : forall cbv rs ops sched u th u' th' s x y,
  let c := drun cbv rs ops sched in
  d_bad c = false ->
  nth_error (d_thr c) u = Some th -> In (DRGot s x) (d_res th) -> x <> 0%Z ->
  nth_error (d_thr c) u' = Some th' -> In (DRGot s y) (d_res th') -> y <> 0%Z ->
  x = y /\ Val (d_futs c) s x.
Proof. exact dc_readers_agree. Qed.
Print Assumptions C29_dc_readers_agree.

Theorem C29_dc_value_written_once : forall cbv rs ops s1 s2 s v,
  Val (d_futs (drun cbv rs ops s1)) s v -> d_bad (drun cbv rs ops (s1 ++ s2)) = false ->
  Val (d_futs (drun cbv rs ops (s1 ++ s2))) s v.
Proof. exact dc_value_written_once. Qed.
Print Assumptions C29_dc_value_written_once.

(* a reader starting after completion gets the value: root future (any state) ... *)
Theorem C29_dc_root_reader_after_completion : forall cbv c t th r rest f0,
  nth_error (d_thr c) t = Some th -> d_pc th = DIdle -> d_ops th = DGT r :: rest ->
  nth_error (d_futs c) 0 = Some f0 -> (r = 0%nat \/ f_spec f0 = r) -> f_comp f0 = true ->
  nth_error (d_thr (dstep cbv c t)) t = Some (dfinish th (DRGot (f_spec f0) (f_data f0))).
Proof. exact dc_root_reader_after_completion. Qed.
Print Assumptions C29_dc_root_reader_after_completion.

(* ... and nested futures (reachable states): taking the root lock when the future of the requested
   shape is COMPLETED leads to returning its value, whatever else is in the nested list *)
Theorem C29_dc_later_reader_gets_value : forall cbv rs ops sched t th r f0 j fj,
  let c := drun cbv rs ops sched in
  d_bad c = false ->
  nth_error (d_thr c) t = Some th -> d_pc th = DLockRoot r ->
  nth_error (d_futs c) 0 = Some f0 -> f_lock f0 = false ->
  nth_error (d_futs c) j = Some fj -> f_spec fj = r -> f_comp fj = true -> f_data fj <> 0%Z ->
  nth_error (d_thr (dstep cbv c t)) t = Some (dgoto th (DUnlockRet r (f_data fj))).
Proof. exact dc_later_reader_gets_value. Qed.
Print Assumptions C29_dc_later_reader_gets_value.

(* destruction of the quiescent object runs the cleanup callback once per future *)
Theorem C29_dc_cleanup_exactly_once : forall cbv rs ops sched,
  let fs := d_futs (drun cbv rs ops sched) in
  Permutation (d_cleanup fs) (specs fs) /\ NoDup (d_cleanup fs).
Proof. exact dc_cleanup_exactly_once. Qed.
Print Assumptions C29_dc_cleanup_exactly_once.

(* the unguarded statement is false: parsec_datacopy_future_set is a plain store; a second set
   replaces the value and two readers of the same shape see different values *)
Theorem C29_dc_double_set_refuted : exists cbv rs ops sched u th x y,
  nth_error (d_thr (drun cbv rs ops sched)) u = Some th /\
  In (DRGot rs x) (d_res th) /\ In (DRGot rs y) (d_res th) /\
  x <> 0%Z /\ y <> 0%Z /\ x <> y /\ d_bad (drun cbv rs ops sched) = true.
Proof.
  exists [], 1%nat, [[DSet 1 5; DGT 0; DSet 1 6; DGT 0]], [0;0;0;0]%nat, 0%nat.
  eexists. exists 5%Z, 6%Z. vm_compute. repeat split; auto; discriminate.
Qed.
Print Assumptions C29_dc_double_set_refuted.

(* ===================== non-vacuity ===================== *)
(* three threads race set 5 / set 6 / get: thread 1 wins the CAS although thread 0 called set first *)
Example C29_example_base :
  let c := brun true [[BSet 5; BGet]; [BSet 6]; [BGet; BReady]] [0;1;1;0;2;1;2;2;0;0;2]%nat in
  nonnull_sets [[BSet 5; BGet]; [BSet 6]; [BGet; BReady]] /\
  map b_res (b_thr c) = [[BRGet 6; BRSet false]; [BRSet true]; [BRReady true; BRGet 6]] /\ b_ncb c = 1%nat.
Proof.
  split; [|vm_compute; auto].
  intros l v Hl Hv. cbn in Hl. destruct Hl as [<-|[<-|[<-|[]]]]; cbn in Hv;
    repeat (destruct Hv as [Hv|Hv]; [inv Hv; lia|]); contradiction.
Qed.
Example C29_example_countable :
  let c := krun true 2 [[KSet; KReady]; [KSet]; [KSet]] [0;1;1;0;2;2;0]%nat in
  map k_res (k_thr c) = [[KRReady true; KRSet true]; [KRSet false]; [KRSet true]] /\ k_ncb c = 1%nat.
Proof. vm_compute. auto. Qed.
(* root shape 1 (callback sets 11), shape 2 deferred and set by thread 2.  Threads 0 and 1 race for
   shape 2: thread 0 creates the nested future, thread 1 triggers it while scanning the nested list
   under the root lock; both get NULL, thread 2 completes it, both then read 22: one nested future,
   one fulfilment per shape *)
Example C29_example_dc :
  let c := drun [0; 11; 0]%Z 1 [[DGT 2; DGT 2]; [DGT 2; DGT 2]; [DGT 0; DSet 2 22]]
                [0;1;0;0;1;0;1;1;0;1;1;0;0;1; 2;2;2;2;2; 0;1;0;1;0;1;1]%nat in
  d_bad c = false /\ map f_ncb (d_futs c) = [1;1]%nat /\ specs (d_futs c) = [1;2]%nat /\
  map d_res (d_thr c) = [[DRGot 2 22; DRGot 2 0]; [DRGot 2 22; DRGot 2 0]; [DRSet 1; DRGot 1 11]].
Proof. vm_compute. auto. Qed.
