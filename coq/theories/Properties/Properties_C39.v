(* C39 — Argument-vector utilities are consistent.
   "Splitting a string on a delimiter and joining the pieces back gives the
   original string (modulo empty fields when empty fields are dropped),
   insertion and deletion change exactly the addressed positions, and
   command-line parsing reports each declared option with its parameters and
   leaves the remaining arguments as the tail."
   Statements only; proofs live in Argv/ArgvProofs.v and Argv/ArgvCmdLineProofs.v.
   Models: Argv/ArgvDefs.v (parsec/utils/argv.c), Argv/ArgvCmdLineDefs.v
   (parsec/utils/cmd_line.c).  [fields]/[intercalate] are the mathematical
   split (one field per delimiter, plus one) and join. *)
From Coq Require Import Ascii.
From PV Require Import Base.Tac Argv.ArgvDefs Argv.ArgvProofs Argv.ArgvCmdLineDefs Argv.ArgvCmdLineProofs.

(* ---- split, then join ---------------------------------------------------- *)

(* parsec_argv_split drops exactly the empty fields: the string is the join of
   its fields, the result holds the non-empty ones in order *)
Theorem C39_split_join_modulo_empty_fields : forall s d,
  intercalate d (fields d s) = s /\
  vec_of (argv_split s d) = filter nonempty (fields d s) /\
  argv_join (argv_split s d) d = intercalate d (filter nonempty (fields d s)).
Proof. exact P_split_join_modulo_empty_fields. Qed.
Print Assumptions C39_split_join_modulo_empty_fields.

(* which strings round-trip through split + join: the empty string and those
   without leading, trailing or doubled delimiter *)
Theorem C39_split_join_roundtrip_iff : forall s d,
  argv_join (argv_split s d) d = s <-> (s = [] \/ clean d s = true).
Proof. exact join_split_roundtrip_clean. Qed.
Print Assumptions C39_split_join_roundtrip_iff.

(* the literal statement for parsec_argv_split_with_empty (no field is supposed
   to be dropped, so the join should give the string back) is FALSE of the code:
   "a," comes back as "a" *)
Theorem C39_split_with_empty_join_refuted :
  exists s d, argv_join (argv_split_with_empty s d) d <> s.
Proof. exact P_split_with_empty_join_refuted. Qed.
Print Assumptions C39_split_with_empty_join_refuted.

(* what it does instead, exactly: one trailing delimiter is lost and nothing
   else; the round trip holds iff the string does not end with the delimiter *)
Theorem C39_split_with_empty_join_exact : forall s d,
  vec_of (argv_split_with_empty s d) = strip_last_empty (fields d s) /\
  (forall t, s = t ++ [d] -> argv_join (argv_split_with_empty s d) d = t) /\
  (argv_join (argv_split_with_empty s d) d = s <-> ~ ends_with d s).
Proof. exact P_split_with_empty_join_exact. Qed.
Print Assumptions C39_split_with_empty_join_exact.

(* ---- join, then split ---------------------------------------------------- *)
Theorem C39_split_after_join : forall v d,
  Forall (fun t => t <> [] /\ ~ In d t) v ->
  vec_of (argv_split (argv_join (Some v) d) d) = v /\
  vec_of (argv_split_with_empty (argv_join (Some v) d) d) = v.
Proof. exact P_split_after_join. Qed.
Print Assumptions C39_split_after_join.

(* with empty tokens allowed: the vector comes back iff its last token is not empty *)
Theorem C39_split_with_empty_after_join_iff : forall v d,
  Forall (fun t => ~ In d t) v ->
  (vec_of (argv_split_with_empty (argv_join (Some v) d) d) = v <-> (v = [] \/ last v [] <> [])).
Proof. exact split_with_empty_join_iff. Qed.
Print Assumptions C39_split_with_empty_after_join_iff.

Theorem C39_join_is_intercalate : forall a d, argv_join a d = intercalate d (vec_of a).
Proof. exact join_spec. Qed.
Print Assumptions C39_join_is_intercalate.

Theorem C39_join_range : forall a start stop d,
  argv_join_range a start stop d = intercalate d (firstn (stop - start) (skipn start (vec_of a))).
Proof. exact join_range_spec. Qed.
Print Assumptions C39_join_range.

(* ---- insert / delete ------------------------------------------------------ *)

(* insertion: the source lands at min(start, count), everything else keeps its
   content and order; the count grows by the size of the source *)
Theorem C39_insert_positions : forall tv start sv j,
  (0 <= start)%Z ->
  let p := Nat.min (Z.to_nat start) (length tv) in
  let r := vec_of (snd (argv_insert (Some tv) start (Some sv))) in
  argv_insert (Some tv) start (Some sv) =
    (RC_SUCCESS, Some (firstn (Z.to_nat start) tv ++ sv ++ skipn (Z.to_nat start) tv)) /\
  length r = length tv + length sv /\
  (j < p -> nth j r [] = nth j tv []) /\
  (p <= j < p + length sv -> nth j r [] = nth (j - p) sv []) /\
  (p + length sv <= j -> nth j r [] = nth (j - length sv) tv []).
Proof. exact P_insert_positions. Qed.
Print Assumptions C39_insert_positions.

Theorem C39_insert_element : forall tv loc s,
  (0 <= loc)%Z -> argv_insert_element (Some tv) loc (Some s) = argv_insert (Some tv) loc (Some [s]).
Proof. exact insert_element_spec. Qed.
Print Assumptions C39_insert_element.

(* deletion: positions before start keep their content, those from start on
   receive the content num places further; min(num, count - start) elements go *)
Theorem C39_delete_positions : forall argc v start num j,
  (0 <= start <= Z.of_nat (length v))%Z -> (0 < num)%Z ->
  let r := vec_of (snd (argv_delete argc (Some v) start num)) in
  argv_delete argc (Some v) start num =
    (RC_SUCCESS, (argc - num)%Z, Some (firstn (Z.to_nat start) v ++ skipn (Z.to_nat start + Z.to_nat num) v)) /\
  length r = length v - Nat.min (Z.to_nat num) (length v - Z.to_nat start) /\
  (j < Z.to_nat start -> nth j r [] = nth j v []) /\
  (Z.to_nat start <= j -> nth j r [] = nth (j + Z.to_nat num) v []).
Proof. exact P_delete_positions. Qed.
Print Assumptions C39_delete_positions.

(* everything else leaves the vector (and argc) alone *)
Theorem C39_delete_noop : forall argc a start num,
  ((num = 0 \/ start > Z.of_nat (argv_count a) \/ a = None)%Z ->
     argv_delete argc a start num = (RC_SUCCESS, argc, a)) /\
  (forall v, a = Some v -> (num <> 0)%Z -> (start <= Z.of_nat (length v))%Z -> (start < 0 \/ num < 0)%Z ->
     argv_delete argc a start num = (RC_BAD_PARAM, argc, a)).
Proof. exact P_delete_noop. Qed.
Print Assumptions C39_delete_noop.

(* delete after insert at the same position is the identity *)
Theorem C39_delete_after_insert : forall argc tv start sv,
  (0 <= start <= Z.of_nat (length tv))%Z ->
  argv_delete argc (snd (argv_insert (Some tv) start (Some sv))) start (Z.of_nat (length sv)) =
    (RC_SUCCESS, (argc - Z.of_nat (length sv))%Z, Some tv).
Proof. exact delete_insert. Qed.
Print Assumptions C39_delete_after_insert.

(* beyond the end the insertion appends (documented), so a deletion at [start]
   removes only the part of the source that lies at or after [start] *)
Theorem C39_delete_after_insert_beyond_end : forall argc tv start sv,
  (start > Z.of_nat (length tv))%Z ->
  snd (argv_delete argc (snd (argv_insert (Some tv) start (Some sv))) start (Z.of_nat (length sv))) =
    Some (tv ++ firstn (Z.to_nat start - length tv) sv).
Proof. exact delete_insert_beyond. Qed.
Print Assumptions C39_delete_after_insert_beyond_end.

(* the argc out-parameter is decremented by num_to_delete, not by the number of
   elements that existed: it stays equal to the count iff the range exists *)
Theorem C39_delete_argc : forall v start num,
  (0 <= start <= Z.of_nat (length v))%Z -> (0 < num)%Z ->
  let '(_, argc', a') := argv_delete (Z.of_nat (length v)) (Some v) start num in
  (argc' = Z.of_nat (argv_count a') <-> (start + num <= Z.of_nat (length v))%Z).
Proof. exact delete_argc. Qed.
Print Assumptions C39_delete_argc.

(* ---- the small ones ------------------------------------------------------- *)
Theorem C39_append_prepend_copy_count_len : forall a x,
  argv_append a x = (S (argv_count a), Some (vec_of a ++ [x])) /\
  argv_append_nosize a x = Some (vec_of a ++ [x]) /\
  argv_prepend_nosize a x = Some (x :: vec_of a) /\
  argv_copy a = a /\
  argv_count a = length (vec_of a) /\
  argv_len None = 0 /\
  (forall v, argv_len (Some v) = ptr_size + fold_right (fun s acc => length s + 1 + ptr_size + acc) 0 v).
Proof. exact P_small. Qed.
Print Assumptions C39_append_prepend_copy_count_len.

Theorem C39_append_unique : forall a x ow,
  (In x (vec_of a) -> argv_append_unique_nosize a x ow = a) /\
  (~ In x (vec_of a) -> argv_append_unique_nosize a x ow = Some (vec_of a ++ [x])).
Proof. exact append_unique_spec. Qed.
Print Assumptions C39_append_unique.

(* ---- command line ---------------------------------------------------------- *)

(* every command line made of option tokens (-name / --name naming a declared
   option) each followed by its parameters, then the end, or "--" and anything,
   or a token that does not start with '-' and anything: the parser reports
   exactly these options with these parameters, in order, and that tail; it
   succeeds unless the tail starts without "--" and unknown tokens are not ignored *)
Theorem C39_parse_reports_options_and_tail : forall opts ign prog occs e,
  Forall (wf_occ opts) occs -> wf_end e ->
  cmd_parse opts ign (Some (prog :: render occs ++ render_end e)) =
    mk_parsed (rc_of ign e) (reported occs) (tail_of e) (prog :: render occs ++ render_end e) false false.
Proof. exact parse_wf. Qed.
Print Assumptions C39_parse_reports_options_and_tail.

Theorem C39_parse_queries : forall opts p occs name,
  p_params p = reported occs ->
  match find_option opts name with
  | Some k =>
      let mine := filter (fun o => Nat.eqb (oc_k o) k) occs in
      get_ninsts opts p name = length mine /\
      forall inst idx,
        get_param opts p name inst idx =
          if idx <? np_of opts k
          then match nth_error mine inst with Some o => Some (get (oc_ps o) idx) | None => None end
          else None
  | None => get_ninsts opts p name = 0 /\ forall inst idx, get_param opts p name inst idx = None
  end.
Proof. exact P_parse_queries. Qed.
Print Assumptions C39_parse_queries.

(* "reports each declared option with its parameters" is FALSE of the code for
   an option whose second or later parameter is missing after a group of short
   options (-ab x with a taking two parameters): the error path frees
   param->clp_argv and then releases param, whose destructor frees it again *)
Theorem C39_parse_missing_parameter_double_free_refuted :
  exists opts ign av, p_ub (cmd_parse opts ign (Some av)) = true.
Proof. exact P_double_free_refuted. Qed.
Print Assumptions C39_parse_missing_parameter_double_free_refuted.

(* ---- non-vacuity ----------------------------------------------------------- *)
Local Open Scope char_scope.
Example C39_example :
  (* ",a,,b," : the four empty fields are dropped *)
  argv_split [","; "a"; ","; ","; "b"; ","] "," = Some [["a"]; ["b"]] /\
  argv_split_with_empty ["a"; ","; "b"; ","; ","] "," = Some [["a"]; ["b"]; []] /\
  argv_join (Some [["a"]; []; ["b"]]) "," = ["a"; ","; ","; "b"] /\
  argv_insert (Some [["a"]; ["b"]; ["c"]]) 1 (Some [["x"]; ["y"]]) =
    (RC_SUCCESS, Some [["a"]; ["x"]; ["y"]; ["b"]; ["c"]]) /\
  argv_delete 5 (Some [["a"]; ["x"]; ["y"]; ["b"]; ["c"]]) 1 2 = (RC_SUCCESS, 3%Z, Some [["a"]; ["b"]; ["c"]]) /\
  (* prog -a 1 2 --beta -- t : a well-formed command line in the sense of the theorem *)
  let opts := [mk_opt "a" None (Some ["a"; "l"]) 2; mk_opt "b" None (Some ["b"; "e"; "t"; "a"]) 0] in
  let occs := [mk_occ ["-"; "a"] 0 [["1"]; ["2"]]; mk_occ ["-"; "-"; "b"; "e"; "t"; "a"] 1 []] in
  Forall (wf_occ opts) occs /\ wf_end (E_dashdash [["t"]]) /\
  p_params (cmd_parse opts false (Some (["p"] :: render occs ++ render_end (E_dashdash [["t"]])))) =
    [(0, [["1"]; ["2"]]); (1, [])].
Proof. exact P_example. Qed.
