(* C39 — Argument-vector utilities are consistent.
   "Splitting a string on a delimiter and joining the pieces back gives the
   original string (modulo empty fields when empty fields are dropped),
   insertion and deletion change exactly the addressed positions, and
   command-line parsing reports each declared option with its parameters and
   leaves the remaining arguments as the tail."
   Statements only; proofs live in Argv/ArgvProofs.v and Argv/ArgvCmdLineProofs.v.
   Models: Argv/ArgvDefs.v (parsec/utils/argv.c), Argv/ArgvCmdLineDefs.v
   (parsec/utils/cmd_line.c).  [fields]/[intercalate] are the mathematical
   split (one field per delimiter, plus one) and join.
   The models follow the code after the repairs 37250ca (split_with_empty) and
   6bc250b (cmd_line double free), both found by this property; the code before
   them lives in Argv/ArgvPrefixDefs.v and is refuted in the two
   [..._prefix_refuted] theorems. *)
From Coq Require Import Ascii.
From PV Require Import Base.Tac Argv.ArgvDefs Argv.ArgvProofs Argv.ArgvCmdLineDefs Argv.ArgvCmdLineProofs.
From PV Require Import Argv.ArgvPrefixDefs Argv.ArgvPrefixProofs.

(* ---- split, then join ---------------------------------------------------- *)

(* parsec_argv_split drops exactly the empty fields: the string is the join of
   its fields, the result holds the non-empty ones in order *)
Theorem C39_split_join_modulo_empty_fields : forall s d,
  intercalate d (fields d s) = s /\
  vec_of (argv_split s d) = filter nonempty (fields d s) /\
  argv_join (argv_split s d) d = intercalate d (filter nonempty (fields d s)).
Proof. exact P_split_join_modulo_empty_fields. Qed.
Print Assumptions C39_split_join_modulo_empty_fields.

(* which strings round-trip through split + join: the empty string and those
   without leading, trailing or doubled delimiter *)
Theorem C39_split_join_roundtrip_iff : forall s d,
  argv_join (argv_split s d) d = s <-> (s = [] \/ clean d s = true).
Proof. exact join_split_roundtrip_clean. Qed.
Print Assumptions C39_split_join_roundtrip_iff.

(* parsec_argv_split_with_empty drops nothing: the result is the list of all
   fields (NULL for the empty string) and the join gives the string back *)
Theorem C39_split_with_empty_join : forall s d,
  vec_of (argv_split_with_empty s d) = match s with [] => [] | _ :: _ => fields d s end /\
  argv_join (argv_split_with_empty s d) d = s.
Proof. exact P_split_with_empty_join. Qed.
Print Assumptions C39_split_with_empty_join.

(* ---- join, then split ---------------------------------------------------- *)
Theorem C39_split_after_join : forall v d,
  Forall (fun t => t <> [] /\ ~ In d t) v ->
  vec_of (argv_split (argv_join (Some v) d) d) = v /\
  vec_of (argv_split_with_empty (argv_join (Some v) d) d) = v.
Proof. exact P_split_after_join. Qed.
Print Assumptions C39_split_after_join.

(* with empty tokens allowed: every vector comes back except [""] (its join is the
   empty string, which has no field) *)
Theorem C39_split_with_empty_after_join_iff : forall v d,
  Forall (fun t => ~ In d t) v ->
  (vec_of (argv_split_with_empty (argv_join (Some v) d) d) = v <-> v <> [[]]).
Proof. exact split_with_empty_join_iff. Qed.
Print Assumptions C39_split_with_empty_after_join_iff.

Theorem C39_join_is_intercalate : forall a d, argv_join a d = intercalate d (vec_of a).
Proof. exact join_spec. Qed.
Print Assumptions C39_join_is_intercalate.

Theorem C39_join_range : forall a start stop d,
  argv_join_range a start stop d = intercalate d (firstn (stop - start) (skipn start (vec_of a))).
Proof. exact join_range_spec. Qed.
Print Assumptions C39_join_range.

(* ---- insert / delete ------------------------------------------------------ *)

(* insertion: the source lands at min(start, count), everything else keeps its
   content and order; the count grows by the size of the source *)
Theorem C39_insert_positions : forall tv start sv j,
  (0 <= start)%Z ->
  let p := Nat.min (Z.to_nat start) (length tv) in
  let r := vec_of (snd (argv_insert (Some tv) start (Some sv))) in
  argv_insert (Some tv) start (Some sv) =
    (RC_SUCCESS, Some (firstn (Z.to_nat start) tv ++ sv ++ skipn (Z.to_nat start) tv)) /\
  length r = length tv + length sv /\
  (j < p -> nth j r [] = nth j tv []) /\
  (p <= j < p + length sv -> nth j r [] = nth (j - p) sv []) /\
  (p + length sv <= j -> nth j r [] = nth (j - length sv) tv []).
Proof. exact P_insert_positions. Qed.
Print Assumptions C39_insert_positions.

Theorem C39_insert_element : forall tv loc s,
  (0 <= loc)%Z -> argv_insert_element (Some tv) loc (Some s) = argv_insert (Some tv) loc (Some [s]).
Proof. exact insert_element_spec. Qed.
Print Assumptions C39_insert_element.

(* deletion: positions before start keep their content, those from start on
   receive the content num places further; min(num, count - start) elements go *)
Theorem C39_delete_positions : forall argc v start num j,
  (0 <= start <= Z.of_nat (length v))%Z -> (0 < num)%Z ->
  let r := vec_of (snd (argv_delete argc (Some v) start num)) in
  argv_delete argc (Some v) start num =
    (RC_SUCCESS, (argc - num)%Z, Some (firstn (Z.to_nat start) v ++ skipn (Z.to_nat start + Z.to_nat num) v)) /\
  length r = length v - Nat.min (Z.to_nat num) (length v - Z.to_nat start) /\
  (j < Z.to_nat start -> nth j r [] = nth j v []) /\
  (Z.to_nat start <= j -> nth j r [] = nth (j + Z.to_nat num) v []).
Proof. exact P_delete_positions. Qed.
Print Assumptions C39_delete_positions.

(* everything else leaves the vector (and argc) alone *)
Theorem C39_delete_noop : forall argc a start num,
  ((num = 0 \/ start > Z.of_nat (argv_count a) \/ a = None)%Z ->
     argv_delete argc a start num = (RC_SUCCESS, argc, a)) /\
  (forall v, a = Some v -> (num <> 0)%Z -> (start <= Z.of_nat (length v))%Z -> (start < 0 \/ num < 0)%Z ->
     argv_delete argc a start num = (RC_BAD_PARAM, argc, a)).
Proof. exact P_delete_noop. Qed.
Print Assumptions C39_delete_noop.

(* delete after insert at the same position is the identity *)
Theorem C39_delete_after_insert : forall argc tv start sv,
  (0 <= start <= Z.of_nat (length tv))%Z ->
  argv_delete argc (snd (argv_insert (Some tv) start (Some sv))) start (Z.of_nat (length sv)) =
    (RC_SUCCESS, (argc - Z.of_nat (length sv))%Z, Some tv).
Proof. exact delete_insert. Qed.
Print Assumptions C39_delete_after_insert.

(* beyond the end the insertion appends (documented), so a deletion at [start]
   removes only the part of the source that lies at or after [start] *)
Theorem C39_delete_after_insert_beyond_end : forall argc tv start sv,
  (start > Z.of_nat (length tv))%Z ->
  snd (argv_delete argc (snd (argv_insert (Some tv) start (Some sv))) start (Z.of_nat (length sv))) =
    Some (tv ++ firstn (Z.to_nat start - length tv) sv).
Proof. exact delete_insert_beyond. Qed.
Print Assumptions C39_delete_after_insert_beyond_end.

(* the argc out-parameter is decremented by num_to_delete, not by the number of
   elements that existed: it stays equal to the count iff the range exists *)
Theorem C39_delete_argc : forall v start num,
  (0 <= start <= Z.of_nat (length v))%Z -> (0 < num)%Z ->
  let '(_, argc', a') := argv_delete (Z.of_nat (length v)) (Some v) start num in
  (argc' = Z.of_nat (argv_count a') <-> (start + num <= Z.of_nat (length v))%Z).
Proof. exact delete_argc. Qed.
Print Assumptions C39_delete_argc.

(* ---- the small ones ------------------------------------------------------- *)
Theorem C39_append_prepend_copy_count_len : forall a x,
  argv_append a x = (S (argv_count a), Some (vec_of a ++ [x])) /\
  argv_append_nosize a x = Some (vec_of a ++ [x]) /\
  argv_prepend_nosize a x = Some (x :: vec_of a) /\
  argv_copy a = a /\
  argv_count a = length (vec_of a) /\
  argv_len None = 0 /\
  (forall v, argv_len (Some v) = ptr_size + fold_right (fun s acc => length s + 1 + ptr_size + acc) 0 v).
Proof. exact P_small. Qed.
Print Assumptions C39_append_prepend_copy_count_len.

Theorem C39_append_unique : forall a x ow,
  (In x (vec_of a) -> argv_append_unique_nosize a x ow = a) /\
  (~ In x (vec_of a) -> argv_append_unique_nosize a x ow = Some (vec_of a ++ [x])).
Proof. exact append_unique_spec. Qed.
Print Assumptions C39_append_unique.

(* ---- command line ---------------------------------------------------------- *)

(* every command line made of options written directly (-name / --name naming a
   declared option, followed by its parameters) or as a group of short options
   (-xyz, each letter a declared option, followed by the parameters of x, then
   of y, ...), then the end, or "--" and anything, or a token that does not
   start with '-' and anything: the parser reports exactly these options with
   these parameters, in order (a group counts as its options one by one), and
   that tail; it succeeds unless the tail starts without "--" and unknown
   tokens are not ignored.  [p_argv] is the vector with the groups expanded. *)
Theorem C39_parse_reports_options_and_tail : forall opts ign prog its e,
  Forall (wf_item opts) its -> wf_end e ->
  cmd_parse opts ign (Some (prog :: render_items its ++ render_end e)) =
    mk_parsed (rc_of ign e) (reported (flatten its)) (tail_of e)
              (prog :: render (flatten its) ++ render_end e) false.
Proof. exact parse_items_wf. Qed.
Print Assumptions C39_parse_reports_options_and_tail.

Theorem C39_parse_queries : forall opts p occs name,
  p_params p = reported occs ->
  match find_option opts name with
  | Some k =>
      let mine := filter (fun o => Nat.eqb (oc_k o) k) occs in
      get_ninsts opts p name = length mine /\
      forall inst idx,
        get_param opts p name inst idx =
          if idx <? np_of opts k
          then match nth_error mine inst with Some o => Some (get (oc_ps o) idx) | None => None end
          else None
  | None => get_ninsts opts p name = 0 /\ forall inst idx, get_param opts p name inst idx = None
  end.
Proof. exact P_parse_queries. Qed.
Print Assumptions C39_parse_queries.

(* ---- the code before its repair (findings of this property) ----------------- *)

(* before 37250ca the statement was false for parsec_argv_split_with_empty:
   "a," came back as "a" (the repaired function gives "a," back) *)
Theorem C39_split_with_empty_join_prefix_refuted :
  exists s d,
    argv_join (Prefix.argv_split_with_empty s d) d <> s /\
    argv_join (argv_split_with_empty s d) d = s.
Proof. exact P_split_with_empty_join_prefix_refuted. Qed.
Print Assumptions C39_split_with_empty_join_prefix_refuted.

(* before 6bc250b "reports each declared option with its parameters" was false
   for an option whose second or later parameter is missing after a group of
   short options (-ab x with a taking two parameters): the error path freed
   param->clp_argv and then released param, whose destructor freed it again;
   the repaired parser returns PARSEC_ERROR and reports nothing *)
Theorem C39_parse_missing_parameter_double_free_prefix_refuted :
  exists opts ign av,
    Prefix.p_ub (Prefix.cmd_parse opts ign (Some av)) = true /\
    p_rc (cmd_parse opts ign (Some av)) = RC_ERROR /\
    p_params (cmd_parse opts ign (Some av)) = [].
Proof. exact P_parse_double_free_prefix_refuted. Qed.
Print Assumptions C39_parse_missing_parameter_double_free_prefix_refuted.

(* ---- non-vacuity ----------------------------------------------------------- *)
Local Open Scope char_scope.
Example C39_example :
  argv_split [","; "a"; ","; ","; "b"; ","] "," = Some [["a"]; ["b"]] /\
  argv_split_with_empty ["a"; ","; "b"; ","; ","] "," = Some [["a"]; ["b"]; []; []] /\
  argv_join (Some [["a"]; []; ["b"]]) "," = ["a"; ","; ","; "b"] /\
  argv_insert (Some [["a"]; ["b"]; ["c"]]) 1 (Some [["x"]; ["y"]]) =
    (RC_SUCCESS, Some [["a"]; ["x"]; ["y"]; ["b"]; ["c"]]) /\
  argv_delete 5 (Some [["a"]; ["x"]; ["y"]; ["b"]; ["c"]]) 1 2 = (RC_SUCCESS, 3%Z, Some [["a"]; ["b"]; ["c"]]) /\
  (* p --beta -ba 1 2 -- t : one option written directly, then a group of two *)
  let opts := [mk_opt "a" None (Some ["a"; "l"]) 2; mk_opt "b" None (Some ["b"; "e"; "t"; "a"]) 0] in
  let its := [I_direct (mk_occ ["-"; "-"; "b"; "e"; "t"; "a"] 1 []);
              I_group [mk_sopt "b" 1 []; mk_sopt "a" 0 [["1"]; ["2"]]]] in
  Forall (wf_item opts) its /\ wf_end (E_dashdash [["t"]]) /\
  render_items its = [["-"; "-"; "b"; "e"; "t"; "a"]; ["-"; "b"; "a"]; ["1"]; ["2"]] /\
  p_params (cmd_parse opts false (Some (["p"] :: render_items its ++ render_end (E_dashdash [["t"]])))) =
    [(1, []); (1, []); (0, [["1"]; ["2"]])].
Proof. exact P_example. Qed.
