(* C16 — Deferred tasks are re-run, never lost or duplicated.
   Statements only; proofs live in Again/AgainProofs.v.

   Models (Again/AgainDefs.v):
   * `progress` = __parsec_task_progress + __parsec_execute (parsec/scheduling.c) on the task's
     status and priority; `trun a k p ds` = the successive calls for a task whose prepare_input
     returns AGAIN a times and whose hook returns AGAIN k times, starting with priority p, the
     scheduler handing it over at the distances ds (arbitrary);
   * `sys_run` = several such tasks and a scheduler that keeps exactly what it is given (C08's
     conservation), selecting in an arbitrary order;
   * `ptg_arun` = C01's dataflow engine on the instances of a program with the events
     Again t / Rerun t (any schedule; events that are not enabled are no-ops);
   * `startup_chunks` = what the successive invocations of the generated startup function
     create: the loop nest is resumed from the locals saved in the pseudo task
     (`first_env` / `next_env`), batches are flushed and AGAIN is returned by the
     task_startup_iter / task_startup_chunk rule (`invocation`). *)
From Coq Require Import ZArith List.
From PV Require Import Base.Tac PTG.PTGDefs PTG.Engine PTG.EngineProofs PTG.PTGProofs
     PTGVal.PTGValDefs Again.AgainDefs Again.AgainProofs.
Import ListNotations.

(* ---- (i) a body returning AGAIN k times is invoked exactly k+1 times, release_deps runs once, in
   the call of the last invocation; prepare_input (a deferrals) runs a+1 times; the priorities seen
   by the invocations are the successive demotions; whatever the distances *)
Theorem C16_body_invoked_k_plus_1_times : forall a k p ds, length ds = a + k + 1 ->
  ts_hook (trun a k p ds) = S k /\ ts_pi (trun a k p ds) = S a /\ ts_rel (trun a k p ds) = 1
  /\ ts_queued (trun a k p ds) = false
  /\ rev (ts_prios (trun a k p ds)) = iter_demote (S k) (dem a p).
Proof. exact task_completes. Qed.
Print Assumptions C16_body_invoked_k_plus_1_times.

(* until then the task is in the scheduler after every call (never lost), nothing is released *)
Theorem C16_pending_task_stays_scheduled : forall a k p ds, length ds < a + k + 1 ->
  ts_queued (trun a k p ds) = true /\ ts_rel (trun a k p ds) = 0 /\ ts_hook (trun a k p ds) <= k
  /\ (ts_hook (trun a k p ds) = 0 <-> length ds <= a).
Proof. exact task_pending. Qed.
Print Assumptions C16_pending_task_stays_scheduled.

(* afterwards nothing more happens: no second release, no further invocation *)
Theorem C16_no_duplicate_after_completion : forall a k p ds, a + k + 1 <= length ds ->
  trun a k p ds = expect a k p (a + k + 1).
Proof. exact task_stable. Qed.
Print Assumptions C16_no_duplicate_after_completion.

(* a hook AGAIN does not look the inputs up again (status = HOOK skips prepare_input) *)
Theorem C16_hook_again_keeps_inputs : forall a k p ds,
  0 < ts_hook (trun a k p ds) -> ts_pi (trun a k p ds) = S a.
Proof. exact inputs_not_looked_up_twice. Qed.
Print Assumptions C16_hook_again_keeps_inputs.

(* demotion stays inside int32 and strictly lowers a positive priority *)
Theorem C16_demotion_int32 : forall p, (-2147483648 <= p <= 2147483647)%Z -> (-2147483648 <= demote p <= 2147483647)%Z.
Proof. exact demote_int32. Qed.
Print Assumptions C16_demotion_int32.
Theorem C16_demotion_lowers_positive : forall p, (0 < p)%Z -> (0 <= demote p < p)%Z.
Proof. exact demote_positive. Qed.
Print Assumptions C16_demotion_lowers_positive.
(* observation: a NEGATIVE priority is raised towards 0 by the "demotion", and 0 / -1 alternate *)
Theorem C16_demotion_raises_negative : forall p, (p < 0)%Z -> (p < demote p <= 0)%Z.
Proof. exact demote_negative. Qed.
Print Assumptions C16_demotion_raises_negative.

(* with a scheduler that keeps what it is given, whatever it selects: a task that has not released
   its dependencies is in the ready list exactly once ... *)
Theorem C16_never_lost_never_duplicated : forall scripts prios, length prios = length scripts ->
  forall cs j ts, nth_error (sy_tasks (sys_run scripts prios cs)) j = Some ts -> ts_rel ts = 0 ->
  count_occ Nat.eq_dec (sy_ready (sys_run scripts prios cs)) j = 1.
Proof. exact unreleased_task_is_ready_once. Qed.
Print Assumptions C16_never_lost_never_duplicated.
(* ... an empty scheduler means every task was invoked k+1 times and released once ... *)
Theorem C16_empty_scheduler_all_complete : forall scripts prios, length prios = length scripts ->
  forall cs, sy_ready (sys_run scripts prios cs) = [] ->
  forall j ts a k, nth_error (sy_tasks (sys_run scripts prios cs)) j = Some ts -> nth_error scripts j = Some (a, k) ->
  ts_hook ts = S k /\ ts_pi ts = S a /\ ts_rel ts = 1.
Proof. exact empty_scheduler_all_complete. Qed.
Print Assumptions C16_empty_scheduler_all_complete.
(* ... and a non-empty one makes some task advance at the next selection *)
Theorem C16_scheduler_progress : forall scripts prios, length prios = length scripts ->
  forall cs c, sy_ready (sys_run scripts prios cs) <> [] ->
  exists j a k p m, nth_error scripts j = Some (a, k) /\ nth_error prios j = Some p
    /\ nth_error (sy_tasks (sys_run scripts prios cs)) j = Some (expect a k p m)
    /\ ts_queued (expect a k p m) = true
    /\ nth_error (sy_tasks (sys_run scripts prios (cs ++ [c]))) j = Some (expect a k p (S m)).
Proof. exact nonempty_scheduler_advances. Qed.
Print Assumptions C16_scheduler_progress.

(* ---- in the dataflow engine, for every well-formed program, every AGAIN count per instance and
   EVERY schedule: at most k+1 invocations and one release ... *)
Theorem C16_engine_invocations_bounded : forall P, wf_program P = true -> forall kagain evs t,
  count_occ tid_eq_dec (invokes tid (alog tid (ptg_arun P kagain evs))) t <= S (kagain t)
  /\ count_occ tid_eq_dec (releases tid (alog tid (ptg_arun P kagain evs))) t <= 1.
Proof. exact ptg_invocations_bounded. Qed.
Print Assumptions C16_engine_invocations_bounded.
(* ... the successors are released after the (k+1)-th invocation, which is the last ... *)
Theorem C16_engine_release_after_last_invocation : forall P, wf_program P = true -> forall kagain evs l1 l2 t,
  alog tid (ptg_arun P kagain evs) = l2 ++ ARelease t :: l1 ->
  count_occ tid_eq_dec (invokes tid l1) t = S (kagain t) /\ count_occ tid_eq_dec (invokes tid l2) t = 0.
Proof. exact ptg_release_after_last_invocation. Qed.
Print Assumptions C16_engine_release_after_last_invocation.
(* ... every invocation of a task, first or repeated, follows the release of all its predecessors ... *)
Theorem C16_engine_invocation_after_predecessors : forall P, wf_program P = true -> forall kagain evs l1 l2 t,
  alog tid (ptg_arun P kagain evs) = l2 ++ AInvoke t :: l1 -> forall p, In p (preds P t) -> In (ARelease p) l1.
Proof. exact ptg_invocation_after_predecessors. Qed.
Print Assumptions C16_engine_invocation_after_predecessors.
(* ... a started task can always move on (re-run, defer again, or complete) ... *)
Theorem C16_engine_running_task_can_move : forall P, wf_program P = true -> forall kagain evs t,
  st tid (acore tid (ptg_arun P kagain evs)) t = Running ->
  exists e, (e = Again t \/ e = Rerun t \/ e = AE (End t))
            /\ alog tid (astep tid tid_eq_dec (instances P) (succs P) kagain (ptg_arun P kagain evs) e)
               <> alog tid (ptg_arun P kagain evs).
Proof. exact ptg_running_task_can_move. Qed.
Print Assumptions C16_engine_running_task_can_move.
(* ... and when nothing can happen any more every instance is done, invoked exactly k+1 times, released once *)
Theorem C16_engine_complete_run : forall P, wf_program P = true -> forall kagain evs,
  ptg_aquiescent P (ptg_arun P kagain evs) ->
  forall t, In t (instances P) ->
    st tid (acore tid (ptg_arun P kagain evs)) t = Done
    /\ count_occ tid_eq_dec (invokes tid (alog tid (ptg_arun P kagain evs))) t = S (kagain t)
    /\ count_occ tid_eq_dec (releases tid (alog tid (ptg_arun P kagain evs))) t = 1.
Proof. exact ptg_quiescent_all_invoked. Qed.
Print Assumptions C16_engine_complete_run.

(* ---- (ii) chunked startup.  Resuming from the saved locals enumerates the execution space of
   the loop nest, in order, for every list of locals (ranges with dependent bounds, derived locals) *)
Theorem C16_resumed_enumeration_is_execution_space : forall G ls fuel,
  length (enum G ls []) <= fuel -> walk G ls fuel = enum G ls [].
Proof. exact walk_is_enum. Qed.
Print Assumptions C16_resumed_enumeration_is_execution_space.
(* for all task_startup_iter, task_startup_chunk (0 included): the invocations create every instance once, in order *)
Theorem C16_chunks_concat : forall (A : Type) iter chunk fuel (l : list A), length l < fuel ->
  concat (chunks fuel iter chunk l) = l.
Proof. exact @chunks_concat. Qed.
Print Assumptions C16_chunks_concat.
(* an invocation that returns AGAIN has created at least one task *)
Theorem C16_again_invocation_progresses : forall (A : Type) iter chunk (l : list A),
  let '(c, rest, again) := invocation iter chunk 1 0 0 l [] in again = true -> c <> [].
Proof. exact @again_chunk_progress. Qed.
Print Assumptions C16_again_invocation_progresses.
(* together, for every class of every program: each startup instance exactly once, in enumeration order *)
Theorem C16_startup_instances_exactly_once : forall P ci c iter chunk,
  concat (startup_chunks P ci c iter chunk) = startup_space P ci c.
Proof. exact startup_chunks_exact. Qed.
Print Assumptions C16_startup_instances_exactly_once.

(* ---- non-vacuity *)
(* a task deferred twice by prepare_input and three times by its body, priority 25 *)
Example C16_example_task :
  let s := trun 2 3 25 [1; 7; 0; 3; 2; 9]%nat in
  ts_pi s = 3 /\ ts_hook s = 4 /\ ts_rel s = 1 /\ ts_queued s = false
  /\ rev (ts_prios s) = [0; -1; 0; -1]%Z
  /\ ts_rel (trun 2 3 25 [1; 7; 0; 3; 2]%nat) = 0 /\ ts_queued (trun 2 3 25 [1; 7; 0; 3; 2]%nat) = true.
Proof. vm_compute. repeat split. Qed.

(* three tasks, the scheduler picking in a scrambled order: all complete, none twice *)
Example C16_example_sys :
  let s := sys_run [(0, 2); (1, 0); (0, 0)]%nat [5; 0; -7]%Z [2; 0; 1; 5; 3; 0; 1; 4; 2; 2]%nat in
  sy_ready s = [] /\ map ts_hook (sy_tasks s) = [3; 1; 1] /\ map ts_rel (sy_tasks s) = [1; 1; 1]
  /\ map ts_pi (sy_tasks s) = [1; 2; 1].
Proof. vm_compute. repeat split. Qed.

(* a triangular space with a derived local and a step, cut by task_startup_iter = 1, task_startup_chunk = 1:
     T(k, m)  k = 0 .. 2   h = 2 * k   m = 1 .. h .. 2                                      *)
Definition ex_tri : program :=
  {| p_globals := [];
     p_classes := [ {| c_locals := [Lrange (Ec 0) (Ec 2) (Ec 1); Ldef (Eb Omul (Ec 2) (El 0));
                                    Lrange (Ec 1) (El 1) (Ec 2)];
                       c_params := [0%nat; 2%nat]; c_place := [Ec 0];
                       c_flows := [ {| f_mode := MRead; f_deps := [ {| d_in := true; d_guard := None; d_then := Tmem [Ec 0]; d_else := None |} ] |} ];
                       c_prio := None; c_count := false |} ] |}.
Example C16_example_startup :
  match nth_error (p_classes ex_tri) 0 with
  | Some c =>
      startup_space ex_tri 0 c = [[1; 2; 1]; [2; 4; 1]; [2; 4; 3]]%Z
      /\ startup_chunks ex_tri 0 c 1 1 = [[[1; 2; 1]; [2; 4; 1]]; [[2; 4; 3]]]%Z
      /\ startup_chunks ex_tri 0 c 4 0 = [[[1; 2; 1]; [2; 4; 1]]; [[2; 4; 3]]]%Z
      /\ startup_chunks ex_tri 0 c 4 100 = [[[1; 2; 1]; [2; 4; 1]; [2; 4; 3]]]%Z
  | None => False
  end.
Proof. vm_compute. repeat split. Qed.
