(* C27 — Arenas and memory pools never hand out a block twice.
   Statements only; proofs in Arena/ArenaBlocks.v, ArenaSizes.v, ArenaCounters.v, ArenaMempool.v.
   Models: Arena/ArenaDefs.v
     astep : atomic-step model of parsec_arena_allocate_device_private / parsec_arena_get_chunk /
             parsec_arena_release_chunk (arena.c); one step = the code between two scheduling points
             (each parsec_atomic_* RMW on used/released, each LIFO operation, each operation start);
             [astep false] is the code of the repository ([arun] = runs of it), [astep true] the code with
             notes/findings/C27-cache-limit-race.patch applied ([arun_gen true]);
     mstep : the thread memory pools of mempool.c / mempool.h.
   A run is [fold_left step sched init]: the schedule is an arbitrary list of thread ids, the number of
   threads is the length of [progs], each thread runs an arbitrary op list; [ORel k] / [OGive k u]
   designate the k-th block the thread currently holds (a thread can only release what it holds).
   [fails] = the allocator calls that return NULL.  INT32_MAX in p_mu / p_mr means "no limit". *)
From PV Require Import Base.Tac Base.ListX Arena.ArenaDefs Arena.ArenaBase Arena.ArenaBlocks Arena.ArenaSizes
  Arena.ArenaCounters Arena.ArenaMempool.
Local Open Scope Z_scope.

(* ---- arena: never handed out twice ---------------------------------------- *)
(* thr_blocks th = the blocks thread th was handed and still has, plus the one an operation in progress
   carries.  No block is in two hands, none is twice in one hand, none is both in hand and in the cache. *)
Theorem C27_arena_never_twice : forall P fails progs sched,
  let c := arun P fails (ainit progs) sched in
  (forall t u th tu b, nth_error (a_thr c) t = Some th -> nth_error (a_thr c) u = Some tu ->
     In b (thr_blocks th) -> In b (thr_blocks tu) -> t = u) /\
  (forall t th, nth_error (a_thr c) t = Some th -> NoDup (thr_blocks th) /\
     forall b, In b (thr_blocks th) -> ~ In b (a_lifo c)) /\
  NoDup (a_lifo c).
Proof. exact arena_never_twice. Qed.
Print Assumptions C27_arena_never_twice.

Theorem C27_arena_blocks_allocated_not_freed : forall P fails progs sched,
  let c := arun P fails (ainit progs) sched in
  forall b, In b (all_blocks c) -> (b < length (a_allocs c))%nat /\ ~ In b (a_freed c).
Proof. exact arena_blocks_allocated_not_freed. Qed.
Print Assumptions C27_arena_blocks_allocated_not_freed.

(* ---- arena: aligned as requested, at least as large as asked --------------- *)
Theorem C27_arena_block_sizes : forall P fails progs sched,
  let c := arun P fails (ainit progs) sched in
  (forall t th b cnt, nth_error (a_thr c) t = Some th -> In (b, cnt) (t_held th) ->
     nth_error (a_allocs c) b = Some (chunk_size (p_es P) (p_al P) cnt)) /\
  (forall b, In b (a_lifo c) -> nth_error (a_allocs c) b = Some (chunk_size (p_es P) (p_al P) 1)).
Proof. exact arena_block_sizes. Qed.
Print Assumptions C27_arena_block_sizes.

(* what the code guarantees: for an arena accepted by the constructor, whatever address [base] the allocator
   returned for a held block, the data pointer base + data_off lies after the chunk header, is a multiple of
   the alignment, and count * elem_size bytes from it stay inside the sz bytes that were allocated *)
Theorem C27_arena_aligned_and_sized : forall P fails progs sched,
  let c := arun P fails (ainit progs) sched in
  1 < p_al P -> Z.land (p_al P) (p_al P - 1) = 0 -> 0 <= p_es P ->
  forall t th b cnt sz base, nth_error (a_thr c) t = Some th -> In (b, cnt) (t_held th) ->
    nth_error (a_allocs c) b = Some sz -> 0 <= base ->
    HDR <= data_off base (p_al P) /\
    (base + data_off base (p_al P)) mod p_al P = 0 /\
    data_off base (p_al P) + p_es P * Z.pos cnt <= sz.
Proof. exact arena_aligned_and_sized. Qed.
Print Assumptions C27_arena_aligned_and_sized.

Theorem C27_construct_limits : forall es al ma mc P, 0 <= es -> 0 <= ma -> 0 <= mc ->
  arena_construct es al ma mc = Some P ->
  p_es P = es /\ p_al P = al /\ 0 < es /\ 1 < al /\ Z.land al (al - 1) = 0 /\
  p_mu P = Z.min (ma / es) INT32_MAX /\ p_mr P = Z.min (mc / es) INT32_MAX /\
  0 <= p_mu P <= INT32_MAX /\ 0 <= p_mr P <= INT32_MAX.
Proof. exact construct_limits. Qed.
Print Assumptions C27_construct_limits.
Theorem C27_construct_rejects : forall es al ma mc, arena_construct es al ma mc = None <->
  (al <= 1 \/ Z.land al (al - 1) <> 0 \/ es = 0).
Proof. exact construct_rejects. Qed.
Print Assumptions C27_construct_rejects.

(* ---- arena: the allocation limit ------------------------------------------ *)
(* a_live = elements currently allocated from the arena: in hand or cached *)
Theorem C27_arena_limit_respected : forall P fails progs sched, p_mu P <> INT32_MAX -> 0 <= p_mu P ->
  a_live (arun P fails (ainit progs) sched) <= p_mu P.
Proof. exact arena_limit_respected. Qed.
Print Assumptions C27_arena_limit_respected.

(* a_pending = sum of the counts of the requests between their increment of `used` and the decrement that
   follows their refusal *)
Theorem C27_arena_used_accounting : forall P fails progs sched, p_mu P <> INT32_MAX -> 0 <= p_mu P ->
  let c := arun P fails (ainit progs) sched in
  a_used c = a_live c + a_pending c /\ 0 <= a_pending c /\ a_used c <= p_mu P + a_pending c.
Proof. exact arena_used_accounting. Qed.
Print Assumptions C27_arena_used_accounting.

Theorem C27_arena_used_quiescent : forall P fails progs sched, p_mu P <> INT32_MAX -> 0 <= p_mu P ->
  let c := arun P fails (ainit progs) sched in
  cnt is_gfail (a_thr c) = 0 -> a_used c = a_live c /\ a_used c <= p_mu P.
Proof. exact arena_used_quiescent. Qed.
Print Assumptions C27_arena_used_quiescent.

(* "used never exceeds max_used" read literally is false, even with one thread (increment, test, decrement) *)
Theorem C27_arena_used_transient_exceeds : exists P progs sched,
  p_mu P <> INT32_MAX /\ a_used (arun P [] (ainit progs) sched) > p_mu P.
Proof. exact arena_used_transient_exceeds. Qed.
Print Assumptions C27_arena_used_transient_exceeds.

(* in ANY state: a request whose count would take `used` beyond max_used returns NULL, allocates nothing,
   takes nothing from the cache and restores the counter *)
Theorem C27_arena_refuses_beyond_limit : forall P fails c t th cnt,
  nth_error (a_thr c) t = Some th -> t_pc th = GAdd cnt -> a_used c + Z.pos cnt > p_mu P ->
  let c2 := astep false P fails (astep false P fails c t) t in
  exists th2, nth_error (a_thr c2) t = Some th2 /\ t_log th2 = RNull :: t_log th /\ t_held th2 = t_held th /\
              a_allocs c2 = a_allocs c /\ a_used c2 = a_used c /\ a_lifo c2 = a_lifo c.
Proof. exact arena_refuses_beyond_limit. Qed.
Print Assumptions C27_arena_refuses_beyond_limit.

(* ---- arena: the cache limit ----------------------------------------------- *)
Theorem C27_cache_counter_exact : forall P fails progs sched, p_mr P <> INT32_MAX -> 0 <= p_mr P ->
  let c := arun P fails (ainit progs) sched in
  a_rel c = Z.of_nat (length (a_lifo c)) + cnt is_relwin (a_thr c).
Proof. exact cache_counter_exact. Qed.
Print Assumptions C27_cache_counter_exact.

(* The property as stated ("keeps at most its cache limit of released blocks") would be
     forall P fails progs sched, p_mr P <> INT32_MAX -> 0 <= p_mr P ->
       Z.of_nat (length (a_lifo (arun P fails (ainit progs) sched))) <= p_mr P.
   It is FALSE of the code: release_chunk tests `released < max_released` with a plain read and increments
   in a separate atomic operation.  Witness: elem_size 8, max_cached_memory 8 bytes (1 element), two threads
   that each hold a block and release it; both tests run before either increment; all operations complete,
   released = 2 and two blocks sit in the cache.  (Design study: suspected finding F5.) *)
Theorem C27_cache_bound_refuted : exists P progs sched,
  arena_construct 8 8 80 8 = Some P /\ p_mr P <> INT32_MAX /\
  let c := arun P [] (ainit progs) sched in
  a_rel c > p_mr P /\ Z.of_nat (length (a_lifo c)) > p_mr P /\ cnt a_is_done (a_thr c) = Z.of_nat (length progs).
Proof. exact cache_bound_refuted. Qed.
Print Assumptions C27_cache_bound_refuted.

(* what does hold for every schedule: max_released + (threads - 1) ... *)
Theorem C27_cache_bound_true : forall P fails progs sched, p_mr P <> INT32_MAX -> 0 <= p_mr P ->
  let c := arun P fails (ainit progs) sched in
  a_rel c <= p_mr P + Z.max 0 (Z.of_nat (length progs) - 1) /\
  Z.of_nat (length (a_lifo c)) <= p_mr P + Z.max 0 (Z.of_nat (length progs) - 1).
Proof. exact cache_bound_true. Qed.
Print Assumptions C27_cache_bound_true.

(* ... and it is reached (3 threads, max_released 1: released = 3) *)
Theorem C27_cache_bound_tight : exists P progs sched, p_mr P <> INT32_MAX /\
  a_rel (arun P [] (ainit progs) sched) = p_mr P + (Z.of_nat (length progs) - 1).
Proof. exact cache_bound_tight. Qed.
Print Assumptions C27_cache_bound_tight.

(* with the repair of notes/findings/C27-cache-limit-race.patch (fetch_inc(released) < max_released is the
   test, undone by a fetch_dec when it fails) the cache never holds more than max_released blocks, for every
   schedule; the counter itself may overshoot by the number of releases being undone *)
Theorem C27_cache_bound_fixed : forall P fails progs sched, p_mr P <> INT32_MAX -> 0 <= p_mr P ->
  let c := arun_gen true P fails (ainit progs) sched in
  Z.of_nat (length (a_lifo c)) <= p_mr P /\
  a_rel c <= p_mr P + Z.of_nat (length progs).
Proof. exact cache_bound_fixed. Qed.
Print Assumptions C27_cache_bound_fixed.

(* sequentially the limit is respected: one thread ... *)
Theorem C27_cache_bound_one_thread : forall P fails prog sched, p_mr P <> INT32_MAX -> 0 <= p_mr P ->
  let c := arun P fails (ainit [prog]) sched in
  a_rel c <= p_mr P /\ Z.of_nat (length (a_lifo c)) <= p_mr P.
Proof. exact cache_bound_one_thread. Qed.
Print Assumptions C27_cache_bound_one_thread.

(* ... or any number of threads, as long as no two releases are between their test and their increment
   at the same moment of the run *)
Theorem C27_cache_bound_nonoverlapping : forall P fails progs sched, p_mr P <> INT32_MAX -> 0 <= p_mr P ->
  windows_disjoint P fails (ainit progs) sched ->
  let c := arun P fails (ainit progs) sched in
  a_rel c <= p_mr P /\ Z.of_nat (length (a_lifo c)) <= p_mr P.
Proof. exact cache_bound_nonoverlapping. Qed.
Print Assumptions C27_cache_bound_nonoverlapping.

(* ---- thread memory pools --------------------------------------------------- *)
Theorem C27_mempool_never_twice : forall progs sched,
  let c := mrun (minit progs) sched in
  NoDup (m_all_blocks c) /\
  (forall t u th tu b, nth_error (m_thr c) t = Some th -> nth_error (m_thr c) u = Some tu ->
     In b (mthr_blocks th) -> In b (mthr_blocks tu) -> t = u).
Proof. exact mempool_never_twice. Qed.
Print Assumptions C27_mempool_never_twice.

Theorem C27_mempool_returns_to_owner : forall progs sched,
  let c := mrun (minit progs) sched in
  (forall p l b, nth_error (m_pools c) p = Some l -> In b l -> nth_error (m_owner c) b = Some p) /\
  (forall t th b, nth_error (m_thr c) t = Some th -> In (MGot b) (m_log th) -> nth_error (m_owner c) b = Some t).
Proof. exact mempool_returns_to_owner. Qed.
Print Assumptions C27_mempool_returns_to_owner.

Theorem C27_mempool_accounting : forall progs sched,
  let c := mrun (minit progs) sched in
  (forall b, (b < length (m_owner c))%nat -> occ b (m_all_blocks c) = 1) /\
  (forall b, In b (m_all_blocks c) -> (b < length (m_owner c))%nat) /\
  m_usage c = Z.of_nat (length (m_owner c)).
Proof. exact mempool_accounting. Qed.
Print Assumptions C27_mempool_accounting.

(* ---- non-vacuity ----------------------------------------------------------- *)
(* three threads on an arena with max_used = 4 elements, max_released = 2: blocks are obtained, passed to
   another thread, released (cached and freed), a 2-element block is refused; the state reached has blocks
   in hand, in the cache and freed, requests were refused, and it satisfies the hypotheses of the theorems above *)
Definition ex_P : aparams := {| p_es := 24; p_al := 64; p_mu := 4; p_mr := 2 |}.
Definition ex_progs : list (list op) :=
  [[OGet 1; OGet 1; OGive 0 1; ORel 0]; [OGet 1; OGet 2; ORel 0; ORel 0]; [OGet 1; ORel 0; OGet 1]].
Example C27_example_arena :
  arena_construct 24 64 100 50 = Some ex_P /\
  let c := arun ex_P [] (ainit ex_progs)
             [0;1;2;2;1;0;0;0;1;2;1;0;2;1;0;2;0;1;1;2;0;1;2;0;1;2;1;1;0;2;1;1;0;1;2;0;1;2;0;1;2;0;1;2]%nat in
  map (fun th => map fst (t_held th)) (a_thr c) = [[]; []; [1%nat]] /\
  a_lifo c = [2%nat] /\ a_freed c = [0%nat] /\ a_used c = 2 /\ a_rel c = 1 /\
  cnt a_is_done (a_thr c) = 3 /\
  In RNull (flat_map t_log (a_thr c)).
Proof. split; [reflexivity|]. vm_compute. repeat split; auto 20. Qed.
(* two threads, elements allocated, passed across and freed by the other thread: they go back to their owner's pool *)
Example C27_example_mempool :
  let c := mrun (minit [[MGet; MGet; MGive 0 1; MRel 0]; [MGet; MRel 0; MRel 0; MGet]])
             [0;1;0;1;0;1;0;1;0;1;0;1;1;1;1;1;0;0;1;1]%nat in
  m_pools c = [[2%nat; 0%nat]; []] /\ m_owner c = [0%nat; 1%nat; 0%nat] /\ m_usage c = 3 /\
  map m_held (m_thr c) = [[]; [1%nat]].
Proof. vm_compute. repeat split. Qed.
