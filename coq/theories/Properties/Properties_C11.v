(* C11 — Four-counter distributed termination is safe and live.
   Statements only; proofs live in Term4C/*.v.  The model (Term4C/Term4CDefs.v):
   N monitors of termdet_fourcounter_module.c on the module's binary tree
   (parent (i-1)/2), control messages in a network with per-pair FIFO order and
   the module's delayed list, application messages in flight as counters, one
   step = one call into the module, a schedule = any list of choices
   (choices that are not enabled do nothing). *)
From PV Require Import Base.Tac Term4C.Term4CDefs Term4C.Term4CBase Term4C.Term4CMicro Term4C.Term4CInv
  Term4C.Term4CProofs Term4C.Term4CLive Term4C.Term4CBound Term4C.Term4CCount.
Local Open Scope Z_scope.

(* SAFETY, every N >= 1, every schedule: as soon as one process is TERMINATED,
   every process is idle (IDLE_* or TERMINATED, no task, no pending action), no
   application message is in flight or being received, and as many messages
   have been counted received as sent. *)
Theorem C11_safety : forall N sched, (1 <= N)%nat ->
  let c := run (init N) sched in
  (exists i, (i < N)%nat /\ st (P c i) = TERM) ->
  (forall j, (j < N)%nat -> quiet_p (P c j)) /\ total_sent c = total_recv c /\ total_flight c = 0.
Proof. exact safety. Qed.
Print Assumptions C11_safety.

(* termination is announced only to processes that wait for it: a DOWN message
   that exists (in the network or delayed) is addressed to a process in
   *_WAITING_FOR_PARENT, and DOWN(true) to an idle one *)
Theorem C11_down_only_to_waiting : forall N sched s j b, (1 <= N)%nat ->
  let c := run (init N) sched in
  In (s, j, DOWN b) (net c ++ dlyq c) ->
  (j < N)%nat /\ (st (P c j) = BWP \/ st (P c j) = IWP) /\ (b = true -> st (P c j) = IWP).
Proof. exact down_only_to_waiting. Qed.
Print Assumptions C11_down_only_to_waiting.

(* the termination callback of a process has run exactly once if it is TERMINATED, never otherwise *)
Theorem C11_callback_at_most_once : forall N sched i, (1 <= N)%nat -> (i < N)%nat ->
  let c := run (init N) sched in cbs (P c i) = (if is_term (P c i) then 1 else 0).
Proof. exact callback_at_most_once. Qed.
Print Assumptions C11_callback_at_most_once.

(* messages_sent / messages_received never decrease, whatever the configuration *)
Theorem C11_counters_monotone : forall c a j,
  sent (P c j) <= sent (P (step c a) j) /\ recv (P c j) <= recv (P (step c a) j).
Proof. exact counters_monotone. Qed.
Print Assumptions C11_counters_monotone.

(* sent = received + in flight (or being received), always *)
Theorem C11_conservation : forall N sched, (1 <= N)%nat ->
  let c := run (init N) sched in total_sent c = total_recv c + total_flight c.
Proof. exact conservation. Qed.
Print Assumptions C11_conservation.

(* the topology functions of the module form a tree over 0..N-1 rooted at 0, for every N *)
Theorem C11_tree_wf : forall N,
  (forall k, (0 < k < N)%nat -> (parent k < k)%nat /\ In k (children N (parent k))) /\
  (forall i k, In k (children N i) -> parent k = i /\ (0 < k < N)%nat /\ (i < k)%nat) /\
  (forall i, NoDup (children N i)).
Proof. exact tree_wf. Qed.
Print Assumptions C11_tree_wf.

(* LIVENESS, every N >= 1.  [quiescent N c]: every process is idle (IDLE_* or
   TERMINATED, no task, no pending action) and no application message is in
   flight or being received.  [deliveries c l]: l is a list of choices each of
   which hands over a control message that is in the network at that moment.
   [lbound N c] = 32 N + 15 + 2 |net c| + |dlyq c| (three decisions of the root
   and the messages already there). *)

(* global quiescence persists under every schedule *)
Theorem C11_quiescence_stable : forall N c sched, (1 <= N)%nat -> reach N c -> quiescent N c -> quiescent N (run c sched).
Proof. exact quiescence_stable. Qed.
Print Assumptions C11_quiescence_stable.

(* no deadlock: quiescent, nothing left to deliver => everybody has terminated *)
Theorem C11_no_deadlock : forall N c, (1 <= N)%nat -> reach N c ->
  (forall j, (j < N)%nat -> quiet_p (P c j)) -> net c = [] -> dlyq c = [] ->
  forall j, (j < N)%nat -> st (P c j) = TERM.
Proof. exact no_deadlock. Qed.
Print Assumptions C11_no_deadlock.

(* from every reachable quiescent configuration and for EVERY schedule: at most
   [lbound] choices have any effect, each of them the delivery of a pending
   control message; quiescence persists; as soon as the control channels are
   empty every process is TERMINATED.  So every schedule that keeps delivering
   pending messages (fair delivery) reaches termination everywhere within
   [lbound] deliveries, i.e. within three waves. *)
Theorem C11_liveness : forall N c sched, (1 <= N)%nat -> reach N c -> quiescent N c ->
  let c' := run c sched in
  quiescent N c' /\
  (net c' = [] -> forall j, (j < N)%nat -> st (P c' j) = TERM) /\
  exists l, deliveries c l /\ c' = run c l /\ (length l <= lbound N c)%nat.
Proof. exact liveness_any_schedule. Qed.
Print Assumptions C11_liveness.

(* the schedule that always delivers the oldest control message terminates everywhere *)
Theorem C11_liveness_drain : forall N c fuel, (1 <= N)%nat -> reach N c -> quiescent N c -> (lbound N c < fuel)%nat ->
  forall j, (j < N)%nat -> st (P (drain fuel c) j) = TERM.
Proof. exact drain_terminates. Qed.
Print Assumptions C11_liveness_drain.

(* THE CALL-SITE OBLIGATION.  All the theorems above are about schedules of
   [step], whose environment counts every application message sent exactly once
   (ASend = one outgoing_message_start) and received exactly once (ARecvEnd is
   enabled once per ARecvStart = one incoming_message_end per message).  The
   module cannot enforce this: the communication layer (parsec/remote_dep.c,
   parsec/remote_dep_mpi.c:remote_dep_release_incoming) must, and the check ties
   it by real multi-rank runs in which one activation is completed in several
   steps (harness/h_term4c_mpi.jdf: calls of outgoing_message_start summed over
   the ranks = calls of incoming_message_end, and the taskpool terminates).
   Necessity: two processes, one message; the disciplined run is quiescent and
   its drained continuation terminates everywhere; if incoming_message_end is
   called ONCE MORE for that message ([dup_end]), the system is quiescent for
   ever and no process is ever TERMINATED, whatever the schedule. *)
Theorem C11_double_count_refuted :
  (quiescent 2 c_ok /\ total_sent c_ok = 1 /\ total_recv c_ok = 1 /\ forall j, (j < 2)%nat -> st (P (finish c_ok) j) = TERM) /\
  (quiescent 2 c_dup /\ total_sent c_dup = 1 /\ total_recv c_dup = 2 /\
   forall sched j, quiescent 2 (run c_dup sched) /\ st (P (run c_dup sched) j) <> TERM).
Proof. exact double_count_refuted. Qed.
Print Assumptions C11_double_count_refuted.

(* non-vacuity: three processes, a message from 1 to 2 that crosses the first
   wave, a late ready of the root; after everybody has finished and the channels
   are drained all three are TERMINATED with 1 message sent and 1 received; and
   the run that stops before draining is a reachable configuration that is not yet terminated *)
Example C11_example :
  let sched := [AActs 1 1; AActs 2 1; AReady 1; AReady 2; AActs 2 (-1); ADeliver 2 0; ASend 1 2; AActs 1 (-1);
                AActs 0 1; AReady 0; ARecvStart 2; ATasks 2 1; ARecvEnd 2; AActs 0 (-1); ADeliver 1 0] in
  let c := run (init 3) sched in
  map (fun i => st (P c i)) [0; 1; 2]%nat = [IWC; IWP; BWP] /\
  map (fun i => st (P (finish c) i)) [0; 1; 2]%nat = [TERM; TERM; TERM] /\
  total_sent (finish c) = 1 /\ total_recv (finish c) = 1 /\
  map (fun i => cbs (P (finish c) i)) [0; 1; 2]%nat = [1; 1; 1].
Proof. vm_compute. repeat split. Qed.
