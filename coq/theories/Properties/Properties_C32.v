(* C32 — The concurrent hash table is a linearizable map across resizes.
   Statements only; proofs in HashT/HashTHashProofs.v, HashT/HashTSeqProofs.v, HashT/HashTLinProofs.v.
   Model: HashT/HashTDefs.v (parsec/class/parsec_hash_table.c: chain of tables newest first,
   buckets as lists with their cur_len counters, used_buckets, migration by find, unlinking of
   emptied old tables, resize decided from the collision hint at insert / unlock_bucket). *)
From PV Require Import Base.Tac Base.ListX HashT.HashTDefs HashT.HashTHashProofs HashT.HashTSeqProofs
  HashT.HashTConcDefs HashT.HashTLinDefs HashT.HashTLinProofs.

(* ---- (2) parsec_hash_table_universal_rehash (64-bit wrapping multiply-shift) ---- *)
(* the bucket index is always inside the table, for every key and every table size *)
Theorem C32_hash_in_range : forall k b, (rehash k b < 2 ^ b)%N.
Proof. exact rehash_range. Qed.
Print Assumptions C32_hash_in_range.

(* the index in an older (smaller) table is the low part of the index in a newer one: keys that
   share a bucket of the newest table share their bucket in every older table *)
Theorem C32_hash_low_bits : forall k b c, (c <= b)%N -> (rehash k b mod 2 ^ c = rehash k c)%N.
Proof. exact rehash_low_bits. Qed.
Print Assumptions C32_hash_low_bits.

(* ---- (1) sequential refinement to a finite map ----
   for every initial size, collision hint, size limit, and every sequence of insert / find /
   remove / lock_bucket / nolock_* / unlock_bucket / for_all in which a key is inserted only
   when it is not in the table (the API's precondition): find returns the value last inserted
   and not removed, remove returns it and deletes it, for_all visits each live binding exactly
   once, and the table reached represents the final map. *)
Theorem C32_seq_refinement : forall bits hint maxbits ops, spec_pre_run fempty ops ->
  spec_run fempty ops (fst (run_ops (ht_init bits hint maxbits) ops)) /\
  Rep (snd (run_ops (ht_init bits hint maxbits) ops)) (spec_final fempty ops).
Proof. exact seq_refinement. Qed.
Print Assumptions C32_seq_refinement.

(* no key is lost or duplicated by any resize or migration: in a table that represents m every
   live binding is stored exactly once, in the bucket its key hashes to (inside the table) *)
Theorem C32_each_binding_once : forall h m, Rep h m ->
  NoDup (keys_of (all_items h)) /\ (forall k v, In (k, v) (all_items h) <-> m k = Some v) /\
  (forall t k v, In t (h_tabs h) -> In (k, v) (t_items t) ->
     In (k, v) (b_items (get_bkt t (idx k t))) /\ (idx k t < 2 ^ t_bits t)%nat).
Proof. exact rep_exactly_once. Qed.
Print Assumptions C32_each_binding_once.

(* ---- (3) concurrency, at critical-section granularity (model: HashT/HashTLinDefs.v) ----
   Any number of threads, each running any sequence of insert / find / remove; one step = one
   lock-protected section (read lock, newest bucket lock + search of the newest bucket, one old
   table under its bucket lock, unlock, read unlock, the resize under the write lock); locks are
   primitives.  For EVERY schedule: if no insert met its key already present (clients respect the
   API's precondition), the operations ordered by their linearization points, with the results
   they returned, are a legal history of the finite map, and the table represents that map. *)
Theorem C32_linearizable : forall bits hint maxbits progs sched,
  let c := lrun (linit bits hint maxbits progs) sched in
  l_bad c = false ->
  spec_pre_run fempty (log_ops (l_log c)) /\
  spec_run fempty (log_ops (l_log c)) (log_res (l_log c)) /\
  Rep (l_h c) (spec_final fempty (log_ops (l_log c))).
Proof. exact linearizable. Qed.
Print Assumptions C32_linearizable.

(* the holder of the newest table's bucket lock of k owns k: two threads inside critical sections
   hold different newest buckets, hence work on different keys ... *)
Theorem C32_owners_distinct : forall bits hint maxbits progs sched,
  let c := lrun (linit bits hint maxbits progs) sched in
  l_bad c = false ->
  forall t u a b, t <> u -> nth_error (l_thr c) t = Some a -> nth_error (l_thr c) u = Some b ->
  in_cs a = true -> in_cs b = true ->
  bidx (top_bits (l_h c)) (lt_key a) <> bidx (top_bits (l_h c)) (lt_key b) /\ lt_key a <> lt_key b.
Proof. exact owners_distinct. Qed.
Print Assumptions C32_owners_distinct.

(* ... and a step of a thread changes the binding of no key but the one of its own operation, in
   whichever table that binding is stored (old tables are touched under their own bucket locks by
   owners of other keys: they only unlink their own item) *)
Theorem C32_step_keeps_other_keys : forall c u th, Good c -> l_bad (lstep c u) = false ->
  nth_error (l_thr c) u = Some th ->
  forall k, k <> lt_key th -> lookup (l_h (lstep c u)) k = lookup (l_h c) k.
Proof. exact step_keeps_other_keys. Qed.
Print Assumptions C32_step_keeps_other_keys.

(* at every reachable state, in particular the quiescent ones where for_all may run, the traversal
   order lists each binding of the linearized map exactly once *)
Theorem C32_reachable_for_all : forall bits hint maxbits progs sched,
  let c := lrun (linit bits hint maxbits progs) sched in
  l_bad c = false ->
  NoDup (keys_of (all_items (l_h c))) /\
  forall k v, In (k, v) (all_items (l_h c)) <-> spec_final fempty (log_ops (l_log c)) k = Some v.
Proof. exact reachable_for_all. Qed.
Print Assumptions C32_reachable_for_all.

(* non-vacuity: a table of 2 buckets with collision hint 1; the third insertion stacks two
   items in bucket 1 and triggers a resize; find 5 migrates 5 from the old table; remove 7 takes
   7 out of the old table; the hypotheses of the theorem hold for this sequence *)
Definition C32_example_ops : list op :=
  [OIns 5 1; OIns 6 2; OIns 7 3; OFind 5; ORem 7; OFind 7; OAll]%N.
Example C32_example :
  spec_pre_run fempty C32_example_ops /\
  fst (run_ops (ht_init 1 1 24) C32_example_ops) =
    [RUnit; RUnit; RUnit; RVal (Some 1); RVal (Some 3); RVal None; RItems [(5, 1); (6, 2)]]%N /\
  map t_bits (h_tabs (snd (run_ops (ht_init 1 1 24) C32_example_ops))) = [2; 1]%nat.
Proof. split; [vm_compute; repeat split|]. split; vm_compute; reflexivity. Qed.

(* non-vacuity of (3): two threads, interleaved section by section; the table is resized while both
   run, thread 1 finds 5 (inserted by thread 0) and removes 7 from the old table; no insert met
   its key (l_bad = false), all operations returned *)
Definition C32_example_progs : list (list cop) :=
  [[CIns 5 1; CIns 7 3; CFind 6]; [CIns 6 2; CFind 5; CRem 7]]%N.
Definition C32_example_sched : list nat :=
  [0;1;0;1;0;1;0;1;1;0;0;1;0;1;1;1;0;0;0;1;1;0;1;0;1;0;1;0;1;0;1;0;1;0;1;0;1;0;1;0;1;0;1;0;1;0;1;0;1]%nat.
Example C32_example_conc :
  let c := lrun (linit 1 1 24 C32_example_progs) C32_example_sched in
  l_bad c = false /\
  l_log c = [(0%nat, CFind 6, Some 2); (1%nat, CRem 7, Some 3); (0%nat, CIns 7 3, None); (1%nat, CFind 5, Some 1);
             (1%nat, CIns 6 2, None); (0%nat, CIns 5 1, None)]%N /\
  map lt_pc (l_thr c) = [LIdle; LIdle] /\ map t_bits (h_tabs (l_h c)) = [2; 1]%nat.
Proof. vm_compute. repeat split. Qed.
