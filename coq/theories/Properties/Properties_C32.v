(* C32 — The concurrent hash table is a linearizable map across resizes.
   Statements only; proofs in HashT/HashTHashProofs.v, HashT/HashTSeqProofs.v.
   Model: HashT/HashTDefs.v (parsec/class/parsec_hash_table.c: chain of tables newest first,
   buckets as lists with their cur_len counters, used_buckets, migration by find, unlinking of
   emptied old tables, resize decided from the collision hint at insert / unlock_bucket). *)
From PV Require Import Base.Tac Base.ListX HashT.HashTDefs HashT.HashTHashProofs HashT.HashTSeqProofs.

(* ---- (2) parsec_hash_table_universal_rehash (64-bit wrapping multiply-shift) ---- *)
(* the bucket index is always inside the table, for every key and every table size *)
Theorem C32_hash_in_range : forall k b, (rehash k b < 2 ^ b)%N.
Proof. exact rehash_range. Qed.
Print Assumptions C32_hash_in_range.

(* the index in an older (smaller) table is the low part of the index in a newer one: keys that
   share a bucket of the newest table share their bucket in every older table *)
Theorem C32_hash_low_bits : forall k b c, (c <= b)%N -> (rehash k b mod 2 ^ c = rehash k c)%N.
Proof. exact rehash_low_bits. Qed.
Print Assumptions C32_hash_low_bits.

(* ---- (1) sequential refinement to a finite map ----
   for every initial size, collision hint, size limit, and every sequence of insert / find /
   remove / lock_bucket / nolock_* / unlock_bucket / for_all in which a key is inserted only
   when it is not in the table (the API's precondition): find returns the value last inserted
   and not removed, remove returns it and deletes it, for_all visits each live binding exactly
   once, and the table reached represents the final map. *)
Theorem C32_seq_refinement : forall bits hint maxbits ops, spec_pre_run fempty ops ->
  spec_run fempty ops (fst (run_ops (ht_init bits hint maxbits) ops)) /\
  Rep (snd (run_ops (ht_init bits hint maxbits) ops)) (spec_final fempty ops).
Proof. exact seq_refinement. Qed.
Print Assumptions C32_seq_refinement.

(* no key is lost or duplicated by any resize or migration: in a table that represents m every
   live binding is stored exactly once, in the bucket its key hashes to (inside the table) *)
Theorem C32_each_binding_once : forall h m, Rep h m ->
  NoDup (keys_of (all_items h)) /\ (forall k v, In (k, v) (all_items h) <-> m k = Some v) /\
  (forall t k v, In t (h_tabs h) -> In (k, v) (t_items t) ->
     In (k, v) (b_items (get_bkt t (idx k t))) /\ (idx k t < 2 ^ t_bits t)%nat).
Proof. exact rep_exactly_once. Qed.
Print Assumptions C32_each_binding_once.

(* non-vacuity: a table of 2 buckets with collision hint 1; the third insertion stacks two
   items in bucket 1 and triggers a resize; find 5 migrates 5 from the old table; remove 7 takes
   7 out of the old table; the hypotheses of the theorem hold for this sequence *)
Definition C32_example_ops : list op :=
  [OIns 5 1; OIns 6 2; OIns 7 3; OFind 5; ORem 7; OFind 7; OAll]%N.
Example C32_example :
  spec_pre_run fempty C32_example_ops /\
  fst (run_ops (ht_init 1 1 24) C32_example_ops) =
    [RUnit; RUnit; RUnit; RVal (Some 1); RVal (Some 3); RVal None; RItems [(5, 1); (6, 2)]]%N /\
  map t_bits (h_tabs (snd (run_ops (ht_init 1 1 24) C32_example_ops))) = [2; 1]%nat.
Proof. split; [vm_compute; repeat split|]. split; vm_compute; reflexivity. Qed.
