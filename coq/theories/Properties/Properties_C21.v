(* C21 — Redistribution copies exactly the requested window.
   Statements only; proofs live in Redist/RedistDim.v (one dimension) and
   Redist/RedistProofs.v (two dimensions, element level).

   Quantifiers: every configuration [c] (tile sizes of source and target, window
   size, the four displacements, descriptor extents, column-batch widths) that the
   wrapper parsec_redistribute_New accepts ([wf c] = its parameter checks pass and
   tile sizes are positive); every source and target content; both execution paths
   (general redistribute.jdf and optimized redistribute_reshuffle.jdf, selected by
   the wrapper's own condition). *)
From Coq Require Import ZArith List.
From PV Require Import Base.Tac Redist.RedistDefs Redist.RedistDim Redist.RedistProofs.
Import ListNotations.
Local Open Scope Z_scope.

(* the call succeeds and the target becomes: window of the source at the target
   displacement, every other entry unchanged *)
Theorem C21_result_is_window_copy : forall c src tgt,
  wf c ->
  fst (redistribute c src tgt) = true /\
  forall i j, snd (redistribute c src tgt) i j = spec c src tgt i j.
Proof.
  intros c src tgt Hwf. unfold redistribute. destruct Hwf as (Ha & Hb). rewrite Ha. cbn [fst snd].
  split; [reflexivity|]. intros i j. apply exec_spec. split; assumption.
Qed.
Print Assumptions C21_result_is_window_copy.

(* the union of the copied sub-blocks is exactly the window, and each entry is
   copied from the source position the specification names *)
Theorem C21_writes_exactly_the_window : forall c ti tj si sj,
  wf c ->
  (In ((ti, tj), (si, sj)) (cells c) <->
   dT (rd c) <= ti < dT (rd c) + sz (rd c) /\ dT (cd c) <= tj < dT (cd c) + sz (cd c) /\
   si = ti - dT (rd c) + dY (rd c) /\ sj = tj - dT (cd c) + dY (cd c)).
Proof. exact cells_exact. Qed.
Print Assumptions C21_writes_exactly_the_window.

(* no target entry is written twice (inside one sub-block or by two sub-blocks) *)
Theorem C21_each_entry_written_once : forall c, wf c -> NoDup (map fst (cells c)).
Proof. exact cells_NoDup. Qed.
Print Assumptions C21_each_entry_written_once.

(* the target rectangles of the copied sub-blocks are pairwise disjoint *)
Theorem C21_blocks_pairwise_disjoint : forall c r1 r2 i j u v,
  wf c -> In r1 (copies c) -> In r2 (copies c) ->
  In ((i, j), u) (rect_cells c r1) -> In ((i, j), v) (rect_cells c r2) -> r1 = r2.
Proof. exact copies_disjoint. Qed.
Print Assumptions C21_blocks_pairwise_disjoint.

Theorem C21_blocks_listed_once : forall c, wf c -> NoDup (copies c).
Proof. exact NoDup_copies. Qed.
Print Assumptions C21_blocks_listed_once.

(* each sub-block lies inside one existing source tile and one existing target tile *)
Theorem C21_blocks_inside_tiles : forall c r s,
  wf c -> In (r, s) (copies c) ->
  (seg_in_tiles (rd c) r /\ 0 <= s_t r < lmtT c /\ 0 <= s_y r < lmtY c) /\
  (seg_in_tiles (cd c) s /\ 0 <= s_t s < lntT c /\ 0 <= s_y s < lntY c).
Proof. exact copies_in_matrix. Qed.
Print Assumptions C21_blocks_inside_tiles.

(* the result does not depend on the order in which the runtime performs the copies *)
Theorem C21_order_irrelevant : forall c ws src tgt i j,
  wf c -> (forall w, In w ws <-> In w (cells c)) -> exec ws src tgt i j = spec c src tgt i j.
Proof. exact exec_any_order. Qed.
Print Assumptions C21_order_irrelevant.

(* the column batches of both JDFs enumerate every target tile column once, in order *)
Theorem C21_batches_cover_columns : forall tstart tend nc,
  0 < nc -> tstart <= tend -> batch_ts tstart tend nc = zrange tstart tend.
Proof. exact batch_ts_eq. Qed.
Print Assumptions C21_batches_cover_columns.

(* a refused call leaves the target alone *)
Theorem C21_refused_call_untouched : forall c src tgt,
  accept c = false -> redistribute c src tgt = (false, tgt).
Proof. exact refused. Qed.
Print Assumptions C21_refused_call_untouched.

(* the function run by the differential driver is the model's result on the harness patterns *)
Theorem C21_observation_is_model_result : forall c,
  observe c =
  (fst (redistribute c pat_src pat_tgt),
   flat_map (fun i => map (fun j => snd (redistribute c pat_src pat_tgt) i j) (zrange 0 (lntT c * bT (cd c) - 1)))
            (zrange 0 (lmtT c * bT (rd c) - 1))).
Proof. exact observe_correct. Qed.
Print Assumptions C21_observation_is_model_result.

(* all dividends of the JDF index expressions are non-negative (so C division is Z.div) *)
Theorem C21_c_division_agrees : forall d t,
  wf1 d -> t_START d <= t <= t_END d ->
  0 <= dT d /\ 0 <= sz d + dT d - 1 /\ 0 <= dY d /\
  (t <> t_START d -> 0 <= size_T d t /\ 0 <= size_T d t + dY d /\ 0 <= size_T d t + dY d + t_inner d t - 1) /\
  0 <= dY d + t_inner d t - 1 /\ 0 <= i_start d t + t_inner d t - 1.
Proof. exact dividends_nonneg. Qed.
Print Assumptions C21_c_division_agrees.

(* non-vacuity: source 10x10 in 3x3 tiles, target 12x12 in 4x4 tiles, a 5x6 window from (2,1)
   to (3,2): accepted, general path, 3 row intervals x 3 column intervals; and an aligned 8x8 case on the
   optimized path *)
Definition ex_general : cfg := mkCfg (mkDim 3 4 5 2 3) (mkDim 3 4 6 1 2) 4 4 3 3 1 1.
Definition ex_reshuffle : cfg := mkCfg (mkDim 4 4 8 0 4) (mkDim 4 4 5 4 0) 3 3 3 3 2 1.
Example C21_example :
  wf ex_general /\ use_reshuffle ex_general = false /\
  map (fun s => (s_t s, s_y s, s_src s, s_dst s, s_len s)) (row_segs ex_general)
    = [(0, 0, 2, 3, 1); (1, 1, 0, 0, 3); (1, 2, 0, 3, 1)] /\
  length (copies ex_general) = 9%nat /\ length (cells ex_general) = 30%nat /\
  wf ex_reshuffle /\ use_reshuffle ex_reshuffle = true /\
  map (fun s => (s_t s, s_y s, s_src s, s_dst s, s_len s)) (col_segs ex_reshuffle)
    = [(0, 1, 0, 0, 4); (1, 2, 0, 0, 1)] /\
  length (cells ex_reshuffle) = 40%nat.
Proof. vm_compute. repeat split; reflexivity || lia. Qed.
