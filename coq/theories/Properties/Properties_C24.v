(* C24 — The PTG compiler accepts only programs it can compile.
   Proved here: the limit decision.  "Emits C that compiles" and "same input, same output"
   are properties of the implementation that a theorem about the model cannot state; they
   are exercised by the check on every generated program and labelled as tests there. *)
From PV Require Import Base.Tac PTGCheck.PTGCheckDefs PTGCheck.PTGCheckProofs.

(* every accepted program fits the fixed-size arrays of the runtime (repaired tree) *)
Theorem C24_accept_sound : forall p, accept true p = true -> within_limits p.
Proof. exact accept_sound. Qed.
Print Assumptions C24_accept_sound.

(* programs exceeding a runtime limit on flows, dependencies or locals are always rejected *)
Theorem C24_overlimit_rejected : forall p, ~ within_limits p -> accept true p = false.
Proof. exact overlimit_rejected. Qed.
Print Assumptions C24_overlimit_rejected.

Theorem C24_malformed_rejected : forall fixed p, pg_mal p <> WellFormed -> accept fixed p = false.
Proof. exact malformed_rejected. Qed.
Print Assumptions C24_malformed_rejected.

(* the number of local-definition slots the compiler declares (and tests the locals limit with) is the
   number the generated code indexes, whatever the position of the dependency that needs most *)
Theorem C24_ldef_counted_is_needed : forall f, ldef_counted f = ldef_needed f.
Proof. exact ldef_counted_is_needed. Qed.
Print Assumptions C24_ldef_counted_is_needed.

(* before its repair (fix: commit, see KNOWN_FINDINGS.txt) the compiler under-counted a ternary dependency
   whose true branch introduces more local definitions than its false branch: kept as a witness *)
Theorem C24_ternary_ldef_counting_refuted : exists f, ldef_counted_old f < ldef_needed f.
Proof. exact ternary_ldef_counting_refuted. Qed.
Print Assumptions C24_ternary_ldef_counting_refuted.

(* the pinned tree (before the repair commit) violated the property: kept as a witness *)
Theorem C24_prefix_counting_refuted : exists p, accept false p = true /\ ~ within_limits p.
Proof. exact prefix_counting_refuted. Qed.
Print Assumptions C24_prefix_counting_refuted.

(* non-vacuity: a program at the limits is accepted *)
Example C24_example_at_limit :
  accept true {| pg_mal := WellFormed;
                 pg_funcs := [ {| fn_locals := 17; fn_pdefs := 1;
                   fn_flows := repeat {| fl_access := AccRW;
                                         fl_deps := repeat {| dp_in := true; dp_guard := GTernary; dp_ldefs := 0; dp_ct := 0; dp_cf := 0 |} 5 ++
                                                    [ {| dp_in := false; dp_guard := GBinary; dp_ldefs := 1; dp_ct := 1; dp_cf := 0 |} ] ++
                                                    repeat {| dp_in := false; dp_guard := GBinary; dp_ldefs := 0; dp_ct := 0; dp_cf := 0 |} 9 |} 2 ++
                               [ {| fl_access := AccRW;
                                    fl_deps := repeat {| dp_in := true; dp_guard := GBinary; dp_ldefs := 0; dp_ct := 0; dp_cf := 0 |} 10 ++
                                               repeat {| dp_in := false; dp_guard := GBinary; dp_ldefs := 0; dp_ct := 0; dp_cf := 0 |} 3 |} ] |} ;
                               (* the class above: 20 input and 23 output dependency indices (10+10+3), the most jdf_flatten_function accepts for outputs; below: 20 flows *)
                               {| fn_locals := 20; fn_pdefs := 0;
                                  fn_flows := repeat {| fl_access := AccRead;
                                                        fl_deps := [ {| dp_in := true; dp_guard := GUncond; dp_ldefs := 0; dp_ct := 0; dp_cf := 0 |} ] |} 20 |} ] |} = true.
Proof. vm_compute. reflexivity. Qed.
