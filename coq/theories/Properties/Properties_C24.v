(* C24 — The PTG compiler accepts only programs it can compile.
   Proved here: the limit decision.  "Emits C that compiles" and "same input, same output"
   are properties of the implementation that a theorem about the model cannot state; they
   are exercised by the check on every generated program and labelled as tests there. *)
From PV Require Import Base.Tac PTGCheck.PTGCheckDefs PTGCheck.PTGCheckProofs.

(* every accepted program fits the fixed-size arrays of the runtime (repaired tree) *)
Theorem C24_accept_sound : forall p, accept true p = true -> within_limits p.
Proof. exact accept_sound. Qed.
Print Assumptions C24_accept_sound.

(* programs exceeding a runtime limit on flows, dependencies or locals are always rejected *)
Theorem C24_overlimit_rejected : forall p, ~ within_limits p -> accept true p = false.
Proof. exact overlimit_rejected. Qed.
Print Assumptions C24_overlimit_rejected.

Theorem C24_malformed_rejected : forall fixed p, pg_mal p <> WellFormed -> accept fixed p = false.
Proof. exact malformed_rejected. Qed.
Print Assumptions C24_malformed_rejected.

(* the pinned tree (before the repair commit) violated the property: kept as a witness *)
Theorem C24_prefix_counting_refuted : exists p, accept false p = true /\ ~ within_limits p.
Proof. exact prefix_counting_refuted. Qed.
Print Assumptions C24_prefix_counting_refuted.

(* non-vacuity: a program at the limits is accepted *)
Example C24_example_at_limit :
  accept true {| pg_mal := WellFormed;
                 pg_funcs := [ {| fn_locals := 20; fn_ldef := 0;
                   fn_flows := repeat {| fl_access := AccRW;
                                         fl_deps := repeat {| dp_in := true; dp_guard := GTernary |} 5 ++
                                                    repeat {| dp_in := false; dp_guard := GBinary |} 10 |} 20 |} ] |} = true.
Proof. vm_compute. reflexivity. Qed.
