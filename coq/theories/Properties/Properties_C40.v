(* C40 — Virtual-process maps match their specification.
   Statements only; the model is VpMap/VpMapDefs.v (parsec/vpmap.c:
   parsec_vpmap_init, _init_from_flat, _init_from_parameters, _init_from_file,
   parse_binding_parameter), proofs in VpMap/VpMapProofs.v and VpMapBinding.v.

   [vpmap_init spec file nb R sing] = what parsec_vpmap_init(spec, nb) leaves
   behind on a machine with R binding resources, runtime_singlify_bindings =
   sing, [file] = contents of the file a "file:" specification names (None when
   it cannot be opened): [Map nbvp total vps], [Crash] (the process dies of a
   signal) or [Fatal] (parsec_fatal).

   The property as stated is FALSE of the code for two of its three syntaxes:
   see C40_rr_refuted / C40_rr_never_a_map and C40_file_refuted /
   C40_file_never_a_map.  What holds is stated at full strength. *)
From Coq Require Import Ascii String.
From PV Require Import Base.Tac VpMap.VpMapDefs VpMap.VpMapProofs VpMap.VpMapBinding VpMap.VpMapHwloc.
Local Open Scope Z_scope.

(* flat maps: one virtual process, the requested number of threads, thread i is
   offered a non-empty set of cores inside block i of width step; the blocks lie
   inside the R available cores (so bindings are in range and pairwise disjoint) *)
Theorem C40_flat_map : forall R sing nb, 1 <= nb <= R ->
  exists ths, flat R sing nb = Map 1 nb [ths] /\ length ths = Z.to_nat nb /\
    let step := flat_step R sing nb in
    1 <= step /\ nb * step <= R /\
    forall i, 0 <= i < nb -> exists t, nth_error ths (Z.to_nat i) = Some t /\
      t_ht t = 0 /\ is_fin (t_set t) /\ elems (t_set t) <> [] /\
      Forall (fun x => i * step <= x < (i + 1) * step) (elems (t_set t)).
Proof. exact flat_map. Qed.
Print Assumptions C40_flat_map.

Theorem C40_flat_bindings_in_range : forall R sing nb ths, 1 <= nb <= R -> flat R sing nb = Map 1 nb [ths] ->
  forall t x, In t ths -> In x (elems (t_set t)) -> 0 <= x < R.
Proof. exact flat_bindings_in_range. Qed.
Print Assumptions C40_flat_bindings_in_range.

Theorem C40_flat_bindings_disjoint : forall R sing nb ths, 1 <= nb <= R -> flat R sing nb = Map 1 nb [ths] ->
  forall i j ti tj x, nth_error ths i = Some ti -> nth_error ths j = Some tj ->
    In x (elems (t_set ti)) -> In x (elems (t_set tj)) -> i = j.
Proof. exact flat_bindings_disjoint. Qed.
Print Assumptions C40_flat_bindings_disjoint.

(* from the map to cores (parsec.c: parsec_find_core_by_idx, parsec_select_vpmap_thread_core,
   parsec_apply_vpmap_thread_locations): the indexes of the map are relative to the cpuset the process
   is allowed to use.  For ANY finite cpuset (holes, non-zero first cpu) and any requested number of
   cores, the default flat map binds the requested number of threads (all cores when nb <= 0 or too
   large), each of them to a core of the cpuset *)
Theorem C40_flat_bindings_inside_cpuset : forall allowed sing nb, allowed <> [] -> Forall (fun c => 0 <= c) allowed ->
  exists cores, user_flat_bindings allowed sing nb = Some cores /\
    length cores = Z.to_nat (init_nb (Z.of_nat (length allowed)) nb) /\
    Forall (fun c => In c allowed) cores.
Proof. exact flat_bindings_inside_cpuset. Qed.
Print Assumptions C40_flat_bindings_inside_cpuset.

(* the oversubscription fallback of parsec_select_vpmap_thread_core: whatever the candidates, the cores
   already taken and the fallback remembered so far, the result is an allowed core or "not bound" *)
Theorem C40_select_core_allowed_or_unbound : forall allowed used cands first,
  Forall (fun w => 0 <= w) cands -> (first = -1 \/ In first allowed) ->
  select_core allowed used cands first = -1 \/ In (select_core allowed used cands first) allowed.
Proof. exact select_core_allowed_or_unbound. Qed.
Print Assumptions C40_select_core_allowed_or_unbound.

(* ... hence every flat map, oversubscribed (runtime_num_cores above the allowed cores) or not, on every
   cpuset and in every singlify mode, leaves each thread on an allowed core or unbound *)
Theorem C40_flat_bindings_never_escape : forall allowed sing nb numcores cores, 1 <= Z.of_nat (length allowed) ->
  user_flat_bindings_nc allowed sing nb numcores = Some cores ->
  Forall (fun c => c = -1 \/ In c allowed) cores.
Proof. exact flat_bindings_never_escape. Qed.
Print Assumptions C40_flat_bindings_never_escape.

(* which strings give the flat map: NULL, "flat..." (after an optional
   "display:"), and every string that is none of the documented syntaxes
   (neither flat, hwloc, file: nor a scannable rr:n:p:c) -- malformed
   specifications fall back to the flat map, as the code's warning says *)
Theorem C40_flat_strings : forall s file nb R sing, prefix s_flat (strip_display s) = true ->
  vpmap_init (Some s) file nb R sing = flat R sing nb.
Proof. exact flat_strings. Qed.
Print Assumptions C40_flat_strings.

Theorem C40_malformed_falls_back_to_flat : forall s file nb R sing, documented s = false ->
  vpmap_init (Some s) file nb R sing = vpmap_init None file nb R sing /\
  vpmap_init (Some s) file nb R sing = flat R sing nb.
Proof. exact malformed_falls_back_to_flat. Qed.
Print Assumptions C40_malformed_falls_back_to_flat.

Theorem C40_unreadable_file_falls_back_to_flat : forall s name nb R sing, choose (Some s) = CFile name ->
  vpmap_init (Some s) None nb R sing = flat R sing nb.
Proof. exact unreadable_file_falls_back_to_flat. Qed.
Print Assumptions C40_unreadable_file_falls_back_to_flat.

(* ---- the hwloc map (runtime_vpmap=hwloc, parsec_vpmap_init_from_hardware_affinity):
   [sockets] = cores of every object at the socket/NUMA level, each with at
   least one core; nb >= 1 threads requested.  The map has one virtual process
   per socket that receives a thread -- k of them, where the first k-1 sockets
   hold fewer cores than requested and the first k hold enough (or k = all) --
   none of them empty, the thread counts add up to min(nb, all cores), and
   virtual process v sits on the first cores of socket v (hwloc core order) *)
Theorem C40_hwloc_map : forall sockets R sing nb, sockets <> [] -> Forall (fun n => 1 <= n) sockets -> 1 <= nb ->
  exists vs tot, hwloc_map sockets R sing nb = Map (Z.of_nat (length vs)) tot vs /\
    Forall (fun v => v <> []) vs /\
    nthreads vs = Z.min nb (zsum sockets) /\
    (1 <= length vs <= length sockets)%nat /\
    zsum (firstn (length vs - 1) sockets) < Z.min nb (zsum sockets) <= zsum (firstn (length vs) sockets) /\
    (forall v ths, nth_error vs v = Some ths -> exists n, nth_error sockets v = Some n /\
       Z.of_nat (length ths) <= n /\
       ths = map (consolidate sing) (on_cores (zsum (firstn v sockets)) (length ths))).
Proof. exact hwloc_map_spec. Qed.
Print Assumptions C40_hwloc_map.

(* ---- rr:n:p:c : "the runtime creates the requested number of virtual
   processes with the requested thread counts" is refuted.
   parsec_vpmap_init_from_parameters is `parsec_nbvp = n; assert(0); /* TODO */`;
   with NDEBUG the map pointer stays NULL and the consolidation loop of
   parsec_vpmap_init stores through it. *)
Definition rr_2_2_4 : list ascii := list_ascii_of_string "rr:2:2:4".
Theorem C40_rr_refuted : exists s n p c, choose (Some s) = CRR n p c /\ 1 <= n /\ 1 <= p /\ 1 <= c /\
  forall file nb R sing, vpmap_init (Some s) file nb R sing = Crash.
Proof.
  exists rr_2_2_4, 2, 2, 4. split; [reflexivity|]. repeat split; try lia.
Qed.
Print Assumptions C40_rr_refuted.

(* ... and for every string the dispatcher scans as rr:n:p:c: a crash when
   n >= 1, a "map" without any virtual process when n <= 0, the flat map for n = -1 *)
Theorem C40_rr_never_a_map : forall s n p c file nb R sing, choose (Some s) = CRR n p c ->
  (1 <= n -> vpmap_init (Some s) file nb R sing = Crash) /\
  (n <= 0 -> n <> -1 -> vpmap_init (Some s) file nb R sing = Map n (n * p) []) /\
  (n = -1 -> vpmap_init (Some s) file nb R sing = flat R sing nb).
Proof. exact rr_never_a_map. Qed.
Print Assumptions C40_rr_never_a_map.

(* ---- file: refuted as well.  Witnesses: the documented one-line file
   ":2:0,1" (rest_of_line is never assigned for a line that starts with ':'),
   a rank-prefixed file with two virtual processes (the NULL test on
   local_vpmap is inverted: the descriptions are not accumulated, and piece
   numbers run past the allocated map), and the empty file (zero VPs). *)
Definition file_colon : list ascii := list_ascii_of_string ":2:0,1" ++ [nl].
Definition file_two : list ascii := list_ascii_of_string "0:2:0,1" ++ [nl] ++ list_ascii_of_string "0:3:2-4" ++ [nl].
Theorem C40_file_refuted :
  from_file 16 0 file_colon = Crash /\ from_file 16 0 file_two = Crash /\ from_file 16 0 [] = Map 0 0 [].
Proof. vm_compute. auto. Qed.
Print Assumptions C40_file_refuted.

(* no readable map file, whatever its contents, produces a map with a virtual process *)
Theorem C40_file_never_a_map : forall R sing content,
  from_file R sing content = Crash \/ from_file R sing content = Fatal \/ from_file R sing content = Map 0 0 [].
Proof. exact file_never_a_map. Qed.
Print Assumptions C40_file_never_a_map.

(* ---- the binding syntaxes of a map file line (parse_binding_parameter) ---------- *)
(* the number of thread descriptions is the number of threads requested *)
Theorem C40_binding_counts : forall R nbth b ths, parse_binding R nbth b = BOk ths -> length ths = nbth.
Proof. exact binding_counts. Qed.
Print Assumptions C40_binding_counts.

(* start;end;step : every thread is offered cores of [0,R) only (or none) *)
Theorem C40_binding_range_in_range : forall R nbth b ths, 1 <= R -> bind_range R nbth b = BOk ths ->
  length ths = nbth /\ Forall (okt R) ths.
Proof. exact range_in_range. Qed.
Print Assumptions C40_binding_range_in_range.

(* core list: every thread gets one valid core, or the code's "not bound" marker *)
Theorem C40_binding_list_in_range : forall R nbth b ths, bind_list R nbth b = BOk ths ->
  length ths = nbth /\
  Forall (fun t => t_nbcores t = 1 /\ exists c, t_set t = Fin [c] /\ (0 <= c < R \/ c = unbound_index)) ths.
Proof. exact list_in_range. Qed.
Print Assumptions C40_binding_list_in_range.

(* hexadecimal mask: the validity test is `core > nb_real_cores` and the first
   bit of the mask is never tested: on 4 cores the mask 0x10 binds to core 4 *)
Theorem C40_binding_mask_refuted : exists R nbth b t c, parse_binding R nbth b = BOk [t] /\
  t_set t = Fin [c] /\ ~ (0 <= c < R).
Proof.
  exists 4, 1%nat, (list_ascii_of_string "0x10"), (bound 4), 4. split; [vm_compute; reflexivity|].
  split; [reflexivity|lia].
Qed.
Print Assumptions C40_binding_mask_refuted.


(* core list: a range a-b right after the entry that fills core_tab[nbth-1] is
   stored past the end of the variable-length array (undefined behaviour; kept
   out of the generated cases, the effect of the overrun is not reproducible) *)
Theorem C40_binding_list_overrun_refuted : exists R nbth b, parse_binding R nbth b = BSmash.
Proof. exists 8, 1%nat, (list_ascii_of_string "0-5"). vm_compute. reflexivity. Qed.
Print Assumptions C40_binding_list_overrun_refuted.

(* non-vacuity: 16 cores, 5 threads: blocks of 3; a malformed string gives the
   same map; late singlification keeps the first core of each block *)
Example C40_example :
  vpmap_init (Some (list_ascii_of_string "no-such-map")) None 5 16 0 =
    Map 1 5 [[mkt 3 0 (Fin [0;1;2]); mkt 3 0 (Fin [3;4;5]); mkt 3 0 (Fin [6;7;8]); mkt 3 0 (Fin [9;10;11]);
              mkt 3 0 (Fin [12;13;14])]] /\
  documented (list_ascii_of_string "no-such-map") = false /\
  vpmap_init None None 5 16 1 =
    Map 1 5 [[mkt 3 0 (Fin [0]); mkt 3 0 (Fin [3]); mkt 3 0 (Fin [6]); mkt 3 0 (Fin [9]); mkt 3 0 (Fin [12])]] /\
  parse_binding 16 3 (list_ascii_of_string "1;7;2") = BOk [bound 1; bound 3; bound 5] /\
  hwloc_map [4; 4] 8 0 4 = Map 1 4 [[mkt 1 0 (Fin [0]); mkt 1 0 (Fin [1]); mkt 1 0 (Fin [2]); mkt 1 0 (Fin [3])]] /\
  hwloc_map [2; 2; 2] 6 0 3 = Map 2 4 [[mkt 1 0 (Fin [0]); mkt 1 0 (Fin [1])]; [mkt 1 0 (Fin [2])]] /\
  user_flat_bindings_nc [12; 13; 14; 15] 1 6 6 = Some [12; 12; 12; 12; 12; 12] /\
  user_flat_bindings [2; 3; 5] 0 0 = Some [2; 3; 5] /\ user_flat_bindings [0; 1; 2; 3; 4; 6; 7] 0 2 = Some [0; 3] /\
  user_flat_bindings [0; 1; 2; 3; 4; 6; 7] 1 7 = Some [0; 1; 2; 3; 4; 6; 7].
Proof. vm_compute. repeat split. Qed.
