(* C08 — Schedulers never lose or duplicate a ready task.
   Statements only; proofs live in Sched/Sched*Proofs.v.

   [m] ranges over the 11 modules (ap gd ip lfq lhq ll llp ltq pbq rnd spq),
   [c] over every configuration (number of streams, hbbuffer sizes, parents,
   task queues and steal chains), [ops] over every finite history of whole
   operations by any streams: module.schedule, module.select,
   __parsec_schedule_vp (next_task retention, foreign threads), get_next_task,
   __parsec_schedule_flush_private (as a schedule of the retained task alone: the
   code does that only when the task is a ring of one, finding flush-stale-ring)
   and drains.  [vpend s] is everything the scheduler holds in state [s] (module
   queues and next_task slots); [op_in]/[ob_out] are the identities an
   operation hands in / its observation hands out. *)
From Coq Require Import ZArith List Permutation.
From PV Require Import Base.Tac Sched.SchedDefs Sched.SchedProofs Sched.SchedHistProofs.
Import ListNotations.

(* (i) conservation: handed in = handed out + still held, as multisets *)
Theorem C08_conservation : forall m c ops s obs,
  vrun c (vinit m c) ops = (s, obs) ->
  Permutation (flat_map op_in ops) (flat_map ob_out obs ++ ids (vpend s)).
Proof. exact conservation. Qed.
Print Assumptions C08_conservation.

(* at every point of a history, what has been returned so far had been scheduled before *)
Theorem C08_returned_were_scheduled : forall m c ops1 ops2 s obs,
  vrun c (vinit m c) (ops1 ++ ops2) = (s, obs) ->
  incl (flat_map ob_out (firstn (length ops1) obs)) (flat_map op_in ops1).
Proof. exact returned_were_scheduled. Qed.
Print Assumptions C08_returned_were_scheduled.

(* a selection that finds nothing changes nothing *)
Theorem C08_select_none_is_stutter : forall m c s es, reach m c s ->
  (forall s', vsel c s es = (s', None) -> s' = s) /\ (forall s', vnext c s es = (s', None) -> s' = s).
Proof. exact select_none_is_stutter. Qed.
Print Assumptions C08_select_none_is_stutter.

(* (ii) liveness at operation granularity.  [wf c]: every buffer of the VP is
   some stream's task queue or steal target. *)
Theorem C08_all_streams_idle_means_empty : forall m c s, wf c -> reach m c s ->
  (forall es, es < cn c -> snd (vnext c s es) = None) -> vpend s = [].
Proof. exact all_streams_idle_means_empty. Qed.
Print Assumptions C08_all_streams_idle_means_empty.

(* rounds of selection by the streams 0..n-1 of the VP, until a round is empty,
   return exactly what was held, on streams of the VP, and then only NULL *)
Theorem C08_drain_returns_everything : forall m c s s' l, wf c -> reach m c s ->
  vstep c s ODrain = (s', ObDrain l) ->
  Permutation (vpend s) (map snd l) /\ vpend s' = [] /\ Forall (fun p => fst p < cn c) l /\
  forall es, snd (vnext c s' es) = None.
Proof. exact drain_returns_everything. Qed.
Print Assumptions C08_drain_returns_everything.

(* the bound: |held| rounds (each stream selecting once per round) suffice *)
Theorem C08_task_returned_within_bound : forall m c s s' l, wf c -> reach m c s ->
  vrounds (length (vpend s)) c s = (s', l) ->
  Permutation (vpend s) (map snd l) /\ vpend s' = [].
Proof. exact task_returned_within_bound. Qed.
Print Assumptions C08_task_returned_within_bound.

(* with distinct identities: a history followed by a drain returns every
   scheduled task exactly once *)
Theorem C08_exactly_once : forall m c ops s obs, wf c -> NoDup (flat_map op_in ops) ->
  vrun c (vinit m c) (ops ++ [ODrain]) = (s, obs) ->
  Permutation (flat_map op_in ops) (flat_map ob_out obs) /\ NoDup (flat_map ob_out obs) /\ vpend s = [].
Proof. exact exactly_once. Qed.
Print Assumptions C08_exactly_once.

(* non-vacuity: two streams with one 2-slot buffer each over the system queue
   (the lfq/pbq/ltq shape) is well formed; a ring of five tasks overflows stream
   0's buffer into the system queue and comes back exactly once, for each module *)
Definition c2 : config := mkCfg 1 [2; 2]%nat [None; None] [0; 1]%nat [[0; 1]; [1; 0]]%nat.
Definition t5 : list task :=
  [mkT 0 3 1 false; mkT 1 9 1 false; mkT 2 3 2 true; mkT 3 5 2 false; mkT 4 9 0 false].
Definition h5 : list op := [OVp (Some 0%nat) 0 t5 [7; 1; 1; 4; 0]%Z; OSel 1%nat; ODrain].
Example C08_example_wf : wf c2.
Proof.
  intros b Hb. cbn in Hb. destruct b as [|[|b]]; [exists 0%nat|exists 1%nat|lia]; cbn; auto.
Qed.
Example C08_example :
  map (fun m => flat_map ob_out (fst (run m c2 h5))) [LFQ; PBQ; LTQ; AP; IP; LLP] =
  [[1; 0; 2; 3; 4]; [1; 0; 4; 3; 2]; [1; 0; 3; 2; 4]; [1; 0; 4; 3; 2]; [2; 0; 3; 4; 1]; [1; 0; 2; 3; 4]]%Z
  /\ map (fun m => snd (run m c2 h5)) [LFQ; PBQ; LTQ; AP; IP; LLP] = [0; 0; 0; 0; 0; 0]%nat.
Proof. vm_compute. split; reflexivity. Qed.
