(* C28 — The zone allocator is a correct best-fit allocator.
   Statements only; the model is Zone/ZoneDefs.v (zone_malloc_init, zone_malloc,
   zone_free, zone_in_use, zone_debug of parsec/utils/zone_malloc.c and a client
   that remembers what it holds), the proofs are in Zone/Zone*.v.

   Every theorem is about [reachable n unit c]: c is the state of a client after
   ANY finite sequence of operations on a zone of n >= 1 units of unit >= 1
   bytes, where each operation is zone_malloc of any size >= 0, zone_free of an
   allocation the client holds, zone_free of an offset it already freed (stale
   pointer), or zone_free of an address past the end of the zone.
   [cl_live c] lists (offset from base, requested size) of the allocations held. *)
From PV Require Import Base.Tac Zone.ZoneDefs Zone.ZoneTheorems.
Local Open Scope Z_scope.

(* what zone_malloc returned is held by the client afterwards (so the next two
   theorems speak about every returned address) *)
Theorem C28_malloc_returns_live : forall c size off,
  snd (step c (Malloc size)) = Some off ->
  In (off, size) (cl_live (fst (step c (Malloc size)))).
Proof. exact malloc_returns_live. Qed.
Print Assumptions C28_malloc_returns_live.

(* allocations are aligned to the unit and lie inside the zone *)
Theorem C28_in_range_aligned : forall n unit c, 1 <= n -> 1 <= unit -> reachable n unit c ->
  forall off size, In (off, size) (cl_live c) ->
  0 < size /\ off mod unit = 0 /\ 0 <= off /\ off + size <= n * unit.
Proof. exact live_in_range_aligned. Qed.
Print Assumptions C28_in_range_aligned.

(* two live allocations never overlap, not even in the units reserved for them *)
Theorem C28_live_disjoint : forall n unit c, 1 <= n -> 1 <= unit -> reachable n unit c ->
  forall (i j : nat) o1 s1 o2 s2, i <> j ->
  nth_error (cl_live c) i = Some (o1, s1) -> nth_error (cl_live c) j = Some (o2, s2) ->
  o1 + units_of s1 unit * unit <= o2 \/ o2 + units_of s2 unit * unit <= o1.
Proof. exact live_disjoint. Qed.
Print Assumptions C28_live_disjoint.

(* zone_malloc(size > 0) returns NULL exactly when no window of ceil(size/unit)
   consecutive units of the zone is free of live allocations *)
Theorem C28_malloc_fails_iff_no_run : forall n unit c, 1 <= n -> 1 <= unit -> reachable n unit c ->
  forall size, 0 < size ->
  (snd (step c (Malloc size)) = None <-> ~ exists a, free_window c a (units_of size unit)).
Proof. exact malloc_fails_iff. Qed.
Print Assumptions C28_malloc_fails_iff_no_run.

(* best fit: the returned block starts a maximal free run that is large enough,
   and no maximal free run that is large enough is shorter *)
Theorem C28_best_fit : forall n unit c, 1 <= n -> 1 <= unit -> reachable n unit c ->
  forall size off, 0 <= size -> snd (step c (Malloc size)) = Some off ->
  off mod unit = 0 /\
  exists k, max_free_run c (off / unit) k /\ units_of size unit <= k /\
    forall a' k', max_free_run c a' k' -> units_of size unit <= k' -> k <= k'.
Proof. exact malloc_best_fit. Qed.
Print Assumptions C28_best_fit.

(* the segment array, walked as zone_in_use / zone_debug walk it, partitions
   [0,n) into segments of >= 1 units with status EMPTY or FULL and nb_prev equal
   to the size of the previous segment (1 for the first) *)
Theorem C28_segments_wellformed : forall n unit c, 1 <= n -> 1 <= unit -> reachable n unit c ->
  segs_ok n 0 1 false (z_segments (cl_zone c)).
Proof. exact segments_wellformed. Qed.
Print Assumptions C28_segments_wellformed.

(* zone_free coalesces: no two adjacent segments are both free *)
Theorem C28_coalesced : forall n unit c, 1 <= n -> 1 <= unit -> reachable n unit c ->
  no_adjacent_free false (z_segments (cl_zone c)).
Proof. exact segments_coalesced. Qed.
Print Assumptions C28_coalesced.

(* zone_in_use is the number of units reserved for the live allocations, in bytes *)
Theorem C28_in_use : forall n unit c, 1 <= n -> 1 <= unit -> reachable n unit c ->
  z_in_use (cl_zone c) = unit * units_sum unit (cl_live c).
Proof. exact in_use_is_live_sum. Qed.
Print Assumptions C28_in_use.

(* zone_debug returns the rest of the zone *)
Theorem C28_free_space : forall n unit c, 1 <= n -> 1 <= unit -> reachable n unit c ->
  z_debug_free (cl_zone c) = n * unit - z_in_use (cl_zone c).
Proof. exact free_space_is_complement. Qed.
Print Assumptions C28_free_space.

(* the chunk lists of the tree hold exactly the free segments, each under its
   size, once; keys increase strictly and no list is empty *)
Theorem C28_index_consistent : forall n unit c, 1 <= n -> 1 <= unit -> reachable n unit c ->
  keys_gt 0 (z_idx (cl_zone c)) /\
  (forall k l, ix_find (z_idx (cl_zone c)) k = Some l -> l <> [] /\ NoDup l) /\
  (forall k t, In t (ix_get (z_idx (cl_zone c)) k) <->
     exists s, In (t, s) (z_segments (cl_zone c)) /\ c_st s = EMPTY /\ c_nbu s = k).
Proof. exact index_consistent. Qed.
Print Assumptions C28_index_consistent.

(* a repeated free of a stale offset, or a free past the end, changes nothing *)
Theorem C28_ignored_free : forall n unit c, 1 <= n -> 1 <= unit -> reachable n unit c ->
  forall off, is_live c off = false -> In off (cl_dead c) \/ n * unit <= off ->
  fst (step c (Free off)) = c.
Proof. exact ignored_free. Qed.
Print Assumptions C28_ignored_free.

(* zone_malloc(0) returns NULL and changes nothing (nb_units == 0) *)
Theorem C28_malloc_zero : forall n unit c, 1 <= n -> 1 <= unit -> reachable n unit c ->
  step c (Malloc 0) = (c, None).
Proof. exact malloc_zero. Qed.
Print Assumptions C28_malloc_zero.

(* non-vacuity: a zone of 8 units of 4 bytes.  Three allocations; the middle one
   is freed and its hole reused (best fit, LIFO among equal holes); frees that
   merge with the next and with both neighbours; a request placed in the
   smaller of two holes; stale frees ignored; everything coalesced at the end *)
Definition C28_ops : list op :=
  [Malloc 4; Malloc 7; Malloc 12; Free 4; Malloc 3; Free 4; Free 0; Malloc 1;
   Free 12; Free 0; Free 4; Free 24].
Example C28_example :
  reachable 8 4 (run (cl_init 8 4) C28_ops) /\
  reachable 8 4 (run (cl_init 8 4) (firstn 8 C28_ops)) /\
  cl_live (run (cl_init 8 4) (firstn 8 C28_ops)) = [(12, 12); (24, 1)] /\
  z_segments (cl_zone (run (cl_init 8 4) (firstn 8 C28_ops))) =
    [(0, mkCell EMPTY 3 1); (3, mkCell FULL 3 3); (6, mkCell FULL 1 3); (7, mkCell EMPTY 1 1)] /\
  z_idx (cl_zone (run (cl_init 8 4) (firstn 8 C28_ops))) = [(1, [7]); (3, [0])] /\
  z_in_use (cl_zone (run (cl_init 8 4) (firstn 8 C28_ops))) = 16 /\
  z_segments (cl_zone (run (cl_init 8 4) C28_ops)) = [(0, mkCell EMPTY 8 1)] /\
  z_idx (cl_zone (run (cl_init 8 4) C28_ops)) = [(8, [0])].
Proof.
  assert (H : ops_ok (cl_init 8 4) C28_ops).
  { vm_compute. repeat split; try discriminate; auto 10. }
  split; [exists C28_ops; split; [exact H|reflexivity]|].
  split; [exists (firstn 8 C28_ops); split; [|reflexivity]|].
  { vm_compute. repeat split; try discriminate; auto 10. }
  vm_compute. repeat split.
Qed.
