(* C04 — DTD never runs conflicting accesses at the same time.
   Statements only; proofs live in DTD/DTDEngine.v and DTD/DTDProofs.v (model: DTD/DTDDefs.v,
   see Properties_C03.v).  [st s t = Running] is the set `running` of the engine. *)
From PV Require Import Base.Tac DTD.DTDDefs DTD.DTDSeq DTD.DTDChain DTD.DTDEngine DTD.DTDProofs.

(* invariant of every run: two running tasks never conflict *)
Theorem C04_exclusive : forall body p gate m0 es t1 t2,
  st (dtd_run body p gate m0 es) t1 = Running -> st (dtd_run body p gate m0 es) t2 = Running ->
  t1 <> t2 -> ~ conflict (task_at p t1) (task_at p t2).
Proof. exact dtd_exclusive. Qed.
Print Assumptions C04_exclusive.

(* per datum: while a task holding d in W / RW runs, no other running task touches d *)
Theorem C04_exclusive_datum : forall body p gate m0 es d t1 t2,
  st (dtd_run body p gate m0 es) t1 = Running -> st (dtd_run body p gate m0 es) t2 = Running ->
  t1 <> t2 -> writes (task_at p t1) d = true -> touches (task_at p t2) d = false.
Proof. exact dtd_exclusive_datum. Qed.
Print Assumptions C04_exclusive_datum.

(* Begin t is enabled only when every earlier-inserted task that conflicts with t has ended:
   a writer waits for all earlier readers and writers of its data, a reader for the writers *)
Theorem C04_begin_waits : forall body p gate m0 es t i,
  can_begin (dep_fn p) (dtd_run body p gate m0 es) t = true -> i < t ->
  conflict (task_at p i) (task_at p t) -> st (dtd_run body p gate m0 es) i = Done.
Proof. exact dtd_begin_waits. Qed.
Print Assumptions C04_begin_waits.

Theorem C04_begun_after_conflicts : forall body p gate m0 es t i,
  st (dtd_run body p gate m0 es) t <> Idle -> i < t ->
  conflict (task_at p i) (task_at p t) -> st (dtd_run body p gate m0 es) i = Done.
Proof. exact dtd_begun_after. Qed.
Print Assumptions C04_begun_after_conflicts.

(* nothing more is serialised: any set of inserted idle tasks whose earlier conflicting tasks
   have all ended can be running together *)
Theorem C04_concurrent_set : forall body p gate m0 es ts, NoDup ts ->
  (forall t, In t ts -> t < ins (dtd_run body p gate m0 es) /\ st (dtd_run body p gate m0 es) t = Idle /\
     forall i, i < t -> conflict (task_at p i) (task_at p t) -> st (dtd_run body p gate m0 es) i = Done) ->
  forall t, In t ts -> st (dtd_run body p gate m0 (es ++ map Begin ts)) t = Running.
Proof. exact dtd_concurrent_set. Qed.
Print Assumptions C04_concurrent_set.

(* readers between two writers: for every n, a run of "writer; n readers; writer" on one datum
   has all n readers running at the same time *)
Theorem C04_readers_run_together : forall body m0 d n,
  exists es, let s := dtd_run body (wrw_prog d n) no_window m0 es in
    forall t, 1 <= t <= n -> st s t = Running.
Proof. exact readers_run_together. Qed.
Print Assumptions C04_readers_run_together.

(* non-vacuity: a reachable state with two readers of datum 0 running, the writers around them
   done / idle, no conflicting pair in `running`; the second writer cannot begin *)
Definition C04_ex_p : prog := [[(0,RW)]; [(0,R)]; [(0,R);(1,W)]; [(0,RW);(1,R)]; [(1,R);(1,W)]].
Definition C04_ex_es : list event :=
  [Insert; Insert; Begin 1; Begin 0; Insert; End 0; Begin 2; Begin 1; Insert; Begin 3].
Example C04_example :
  let s := dtd_run fbody C04_ex_p no_window mem0 C04_ex_es in
  map (st s) [0;1;2;3;4] = [Done; Running; Running; Idle; Idle] /\
  running_conflicts C04_ex_p s = 0 /\ can_begin (dep_fn C04_ex_p) s 3 = false /\
  conflictb (task_at C04_ex_p 1) (task_at C04_ex_p 3) = true.
Proof. vm_compute. repeat split. Qed.
