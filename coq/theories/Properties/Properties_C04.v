(* C04 — DTD never runs conflicting accesses at the same time.
   Statements only; proofs live in DTD/DTDEngine.v and DTD/DTDProofs.v (model: DTD/DTDDefs.v,
   see Properties_C03.v).  [st s t = Running] is the set `running` of the engine. *)
From PV Require Import Base.Tac DTD.DTDDefs DTD.DTDSeq DTD.DTDChain DTD.DTDEngine DTD.DTDProofs
  DTD.DTDGate DTD.DTDGateProofs.

(* invariant of every run: two running tasks never conflict *)
Theorem C04_exclusive : forall body p gate m0 es t1 t2,
  st (dtd_run body p gate m0 es) t1 = Running -> st (dtd_run body p gate m0 es) t2 = Running ->
  t1 <> t2 -> ~ conflict (task_at p t1) (task_at p t2).
Proof. exact dtd_exclusive. Qed.
Print Assumptions C04_exclusive.

(* per datum: while a task holding d in W / RW runs, no other running task touches d *)
Theorem C04_exclusive_datum : forall body p gate m0 es d t1 t2,
  st (dtd_run body p gate m0 es) t1 = Running -> st (dtd_run body p gate m0 es) t2 = Running ->
  t1 <> t2 -> writes (task_at p t1) d = true -> touches (task_at p t2) d = false.
Proof. exact dtd_exclusive_datum. Qed.
Print Assumptions C04_exclusive_datum.

(* Begin t is enabled only when every earlier-inserted task that conflicts with t has ended:
   a writer waits for all earlier readers and writers of its data, a reader for the writers *)
Theorem C04_begin_waits : forall body p gate m0 es t i,
  can_begin (dep_fn p) (dtd_run body p gate m0 es) t = true -> i < t ->
  conflict (task_at p i) (task_at p t) -> st (dtd_run body p gate m0 es) i = Done.
Proof. exact dtd_begin_waits. Qed.
Print Assumptions C04_begin_waits.

Theorem C04_begun_after_conflicts : forall body p gate m0 es t i,
  st (dtd_run body p gate m0 es) t <> Idle -> i < t ->
  conflict (task_at p i) (task_at p t) -> st (dtd_run body p gate m0 es) i = Done.
Proof. exact dtd_begun_after. Qed.
Print Assumptions C04_begun_after_conflicts.

(* nothing more is serialised: any set of inserted idle tasks whose earlier conflicting tasks
   have all ended can be running together *)
Theorem C04_concurrent_set : forall body p gate m0 es ts, NoDup ts ->
  (forall t, In t ts -> t < ins (dtd_run body p gate m0 es) /\ st (dtd_run body p gate m0 es) t = Idle /\
     forall i, i < t -> conflict (task_at p i) (task_at p t) -> st (dtd_run body p gate m0 es) i = Done) ->
  forall t, In t ts -> st (dtd_run body p gate m0 (es ++ map Begin ts)) t = Running.
Proof. exact dtd_concurrent_set. Qed.
Print Assumptions C04_concurrent_set.

(* readers between two writers: for every n, a run of "writer; n readers; writer" on one datum
   has all n readers running at the same time *)
Theorem C04_readers_run_together : forall body m0 d n,
  exists es, let s := dtd_run body (wrw_prog d n) no_window m0 es in
    forall t, 1 <= t <= n -> st s t = Running.
Proof. exact readers_run_together. Qed.
Print Assumptions C04_readers_run_together.

(* non-vacuity: a reachable state with two readers of datum 0 running, the writers around them
   done / idle, no conflicting pair in `running`; the second writer cannot begin *)
Definition C04_ex_p : prog := [[(0,RW)]; [(0,R)]; [(0,R);(1,W)]; [(0,RW);(1,R)]; [(1,R);(1,W)]].
Definition C04_ex_es : list event :=
  [Insert; Insert; Begin 1; Begin 0; Insert; End 0; Begin 2; Begin 1; Insert; Begin 3].
Example C04_example :
  let s := dtd_run fbody C04_ex_p no_window mem0 C04_ex_es in
  map (st s) [0;1;2;3;4] = [Done; Running; Running; Idle; Idle] /\
  running_conflicts C04_ex_p s = 0 /\ can_begin (dep_fn C04_ex_p) s 3 = false /\
  conflictb (task_at C04_ex_p 1) (task_at C04_ex_p 3) = true.
Proof. vm_compute. repeat split. Qed.

(* ---- the mechanism below the protocol (DTD/DTDGate.v) ---------------------------------------
   Flow-level model of how the code realises "a writer waits for the readers since the last
   writer": tile->last_user (task address, flow, INPUT?, alive), the flows chained behind the
   owner of the tile, the reader count of the shared copy, the walk of a completing writer
   (parsec_dtd_ordering_correctly), immediate activation on a chain that is not alive, the
   test of data_lookup_of_dtd_task (readers > 0: AGAIN), task structs recycled per task class.
   [grun true] = with the guard of notes/findings/C03-stale-last-user.patch, [grun false] = the
   code as it is.  [norep p]: no task names a tile twice. *)

(* with the guard: for every sequence (norep) and EVERY event list the mechanism never has two
   conflicting tasks running, and a task begins only after every earlier conflicting task is done *)
Theorem C04_mechanism_exclusive : forall p, norep p -> forall es t1 t2,
  g_st (grun true p es) t1 = Running -> g_st (grun true p es) t2 = Running -> t1 <> t2 ->
  ~ conflict (task_at p t1) (task_at p t2).
Proof. exact gate_exclusive. Qed.
Print Assumptions C04_mechanism_exclusive.

Theorem C04_mechanism_begun_after : forall p, norep p -> forall es t i,
  g_st (grun true p es) t <> Idle -> i < t -> conflict (task_at p i) (task_at p t) ->
  g_st (grun true p es) i = Done.
Proof. exact gate_begun_after. Qed.
Print Assumptions C04_mechanism_begun_after.

(* the code as it is: the literal statement is FALSE of the mechanism model — a recycled task
   struct is taken for an earlier flow of the task being inserted, a reader count is released
   that was never taken, and a writer begins while a reader of the same tile is running.
   Witness replayed on the real code: corpus/C04/stale_last_user.txt *)
Theorem C04_mechanism_unguarded_refuted : exists p es t1 t2, norep p /\ t1 <> t2 /\
  g_st (grun false p es) t1 = Running /\ g_st (grun false p es) t2 = Running /\
  conflict (task_at p t1) (task_at p t2).
Proof. exact gate_unguarded_refuted. Qed.
Print Assumptions C04_mechanism_unguarded_refuted.

Example C04_mechanism_example :
  (let s := grun false gate_witness_p gate_witness_es in
   map (g_st s) [0;1;2;3;4;5] = [Done; Done; Done; Done; Running; Running] /\
   map (g_addr s) [1;2] = [1;1]) /\
  (let s := grun true gate_witness_p gate_witness_es in
   map (g_st s) [0;1;2;3;4;5] = [Done; Done; Done; Done; Running; Idle]).
Proof. vm_compute. repeat split. Qed.
