(* C10 — Local termination detection is exact.
   Statements only; proofs in TermLocal/TermLocalCore.v, TermLocalSafe.v, TermLocalProofs.v.
   Model: TermLocal/TermLocalDefs.v — atomic-step model of
   parsec/mca/termdet/local/termdet_local_module.c; a program is one operation list per
   thread, a schedule an arbitrary list of thread ids, [run (init rc0 prog) sched] the state
   reached.  [wf_prog] is the static client discipline: exactly one ready; an increment is
   issued by a thread that holds a reference (a previous increment not yet given back, or a
   reference handed over by another thread) or by the ready-caller before its ready;
   decrements give held references back; set_* only by the ready-caller before it hands a
   reference over.  Every theorem below holds for ANY number of threads, ANY program with
   [wf_prog prog = true], ANY schedule (hence in every intermediate state of every run). *)
From PV Require Import Base.Tac Base.ListX TermLocal.TermLocalDefs TermLocal.TermLocalAux
  TermLocal.TermLocalCore TermLocal.TermLocalSafe TermLocal.TermLocalProofs.
Local Open Scope Z_scope.

(* the termination callback starts at most once (and has returned at most as often as it started) *)
Theorem C10_callback_at_most_once : forall rc0 prog sched, wf_prog prog = true ->
  let c := run (init rc0 prog) sched in
  0 <= cbd (shd c) <= cbs (shd c) /\ cbs (shd c) <= 1.
Proof. intros. apply callback_at_most_once, inv_reach; assumption. Qed.
Print Assumptions C10_callback_at_most_once.

(* in every state in which the callback has started: ready has happened (the monitor has left
   NOT_READY, and the ready call began strictly before the callback started), both counters
   are 0, nobody holds a reference, and the callback never saw a non-zero counter *)
Theorem C10_callback_only_when_ready_and_zero : forall rc0 prog sched, wf_prog prog = true ->
  let c := run (init rc0 prog) sched in
  1 <= cbs (shd c) ->
  is_notready (mon (shd c)) = false /\
  0 < rdy_at (shd c) /\ rdy_at (shd c) < cb_at (shd c) /\ cb_at (shd c) <= clk c /\
  nt (shd c) = 0 /\ pa (shd c) = 0 /\ no_refs c /\ cb_bad (shd c) = 0.
Proof. intros. apply callback_only_when_ready_and_zero; [apply inv_reach|]; assumption. Qed.
Print Assumptions C10_callback_only_when_ready_and_zero.

(* ... and they stay 0: however the run continues after the callback started *)
Theorem C10_counters_stay_zero : forall rc0 prog sched more, wf_prog prog = true ->
  1 <= cbs (shd (run (init rc0 prog) sched)) ->
  let c := run (init rc0 prog) (sched ++ more) in
  cbs (shd c) = 1 /\ nt (shd c) = 0 /\ pa (shd c) = 0 /\ no_refs c.
Proof.
  intros rc0 prog sched more Hwf H c.
  assert (Hc : 1 <= cbs (shd c)).
  { unfold c, run. rewrite fold_left_app. pose proof (cbs_mono_run more (run (init rc0 prog) sched)).
    unfold run in *. lia. }
  pose proof (inv_reach rc0 prog (sched ++ more) Hwf) as HI. fold c in HI.
  destruct (callback_only_when_ready_and_zero c HI Hc) as (_ & _ & _ & _ & H1 & H2 & H3 & _).
  destruct (callback_at_most_once c HI) as (_ & H4). split; [lia|]. auto.
Qed.
Print Assumptions C10_counters_stay_zero.

(* TERMINATED (what taskpool_state reports as PARSEC_TERM_TP_TERMINATED = 4) implies that the
   callback ran once and has returned, and the counters are 0 *)
Theorem C10_terminated_implies_callback_returned : forall rc0 prog sched, wf_prog prog = true ->
  let c := run (init rc0 prog) sched in
  is_terminated (mon (shd c)) = true ->
  cbs (shd c) = 1 /\ cbd (shd c) = 1 /\ state_ret (shd c) = 4.
Proof. intros. apply terminated_implies_callback_returned; [apply inv_reach|]; assumption. Qed.
Print Assumptions C10_terminated_implies_callback_returned.

(* when all threads have finished and every reference was given back, termination has been
   reported: the callback ran exactly once, returned, and the state is TERMINATED *)
Theorem C10_termination_reported : forall rc0 prog sched, wf_prog prog = true ->
  let c := run (init rc0 prog) sched in
  all_done c = true -> refs_held c = 0 ->
  cbs (shd c) = 1 /\ cbd (shd c) = 1 /\ is_terminated (mon (shd c)) = true.
Proof. intros. apply termination_reported; [apply inv_reach| |]; assumption. Qed.
Print Assumptions C10_termination_reported.

(* Without the discipline the literal statement ("never reported terminated while a count is
   non-zero") is false: thread 0 gives its last reference back and is about to CAS
   BUSY -> TERMINATING when thread 1, which holds nothing, adds a pending action; the callback
   then starts with nb_pending_actions = 1.  By design of the statement (DESIGN.md F9). *)
Theorem C10_undisciplined_refuted : exists prog sched,
  wf_prog prog = false /\
  let c := run (init 1 prog) sched in
  cbs (shd c) = 1 /\ pa (shd c) = 1 /\ cb_bad (shd c) = 1.
Proof.
  exists [[OAddP 1; OReady; OAddP (-1)]; [OAddP 1]], [0;0;0;0;0;0;0;1;1;0]%nat.
  vm_compute. repeat split.
Qed.
Print Assumptions C10_undisciplined_refuted.

(* Outside the statement of C10, recorded because the model exposes it: ready() retains the
   taskpool AFTER its CAS NOT_READY -> BUSY.  A disciplined run in which another thread gives
   the last reference back inside that window runs the whole termination (callback, TERMINATED,
   OBJ_RELEASE) first; with an initial reference count of 1 the count reaches 0 and obj_release
   is called while thread 0 is still inside ready(), about to retain and read the taskpool.
   Replayed on the real module (corpus / directed case of checks/C10.py: final "dead=1"). *)
Theorem C10_refcount_release_before_retain_witness : exists prog sched,
  wf_prog prog = true /\
  let c := run (init 1 prog) sched in
  dead (shd c) = 1 /\ rc (shd c) = 0 /\ map pc (thrs c) = [R2; Idle].
Proof.
  exists [[OAddP 1; OGive false; OReady]; [OTake false; OAddP (-1)]], [0;0;0;0;0;1;1;1;1;1;1;1]%nat.
  vm_compute. repeat split.
Qed.
Print Assumptions C10_refcount_release_before_retain_witness.

(* non-vacuity: a DTD-like disciplined program (set 0/0, one open pending-action reference,
   two tasks inserted and handed to two workers, ready, reference given back) under an
   interleaving schedule; nb_tasks crosses zero twice; everything finishes, the callback ran once *)
Example C10_example :
  let prog := [[OSetT 0; OSetP 0; OAddP 1; OAddT 1; OGive true; OAddT 1; OGive true; OReady; OAddP (-1)];
               [OTake true; OAddT (-1); OState]; [OTake true; OAddT (-1); OState]] in
  let sched := ([1;2;0;0;0;0;0;0;0;1;2;1;2;0;0;0;1;2] ++ concat (repeat [0;1;2] 30))%nat in
  let c := run (init 1 prog) sched in
  wf_prog prog = true /\ all_done c = true /\ refs_held c = 0 /\ cbs (shd c) = 1 /\
  is_terminated (mon (shd c)) = true.
Proof. vm_compute. repeat split. Qed.
