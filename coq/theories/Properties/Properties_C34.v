(* C34 — Objects are destroyed exactly once when their last reference goes.
   Statements only; proofs in Obj/ObjClassProofs.v (class descriptors, constructor /
   destructor arrays) and Obj/ObjRefProofs.v (reference count under any interleaving).
   Model: Obj/ObjDefs.v — parsec_class_initialize with its two loops over the parent
   chain and the single allocation holding both NULL-terminated arrays;
   PARSEC_OBJ_RETAIN / PARSEC_OBJ_RELEASE as one atomic fetch-add each (int32), the
   release that reads 0 runs the destructor chain and free.  A schedule is an
   arbitrary list of thread ids; threads, their operation lists and the class
   hierarchy are arbitrary. *)
From PV Require Import Base.Tac Base.ListX Obj.ObjDefs Obj.ObjClassProofs Obj.ObjRefProofs Obj.ObjFirstProofs.
Local Open Scope Z_scope.

(* ---- (a) every class chain: any depth, any pattern of NULL constructors/destructors,
   any content [junk] of the fresh allocation ---- *)

(* construction runs exactly the non-NULL constructors of the chain, base -> derived *)
Theorem C34_ctor_order : forall junk k,
  run_constructors (class_initialize junk k) = rev (ctors_of k).
Proof. exact ctor_order. Qed.
Print Assumptions C34_ctor_order.

(* destruction runs exactly the non-NULL destructors of the chain, derived -> base *)
Theorem C34_dtor_order : forall junk k,
  run_destructors (class_initialize junk k) = dtors_of k.
Proof. exact dtor_order. Qed.
Print Assumptions C34_dtor_order.

(* ... each exactly once (stated with pairwise distinct functions) *)
Theorem C34_dtor_each_once : forall junk k f, NoDup (dtors_of k) ->
  count_occ Nat.eq_dec (run_destructors (class_initialize junk k)) f =
  if in_dec Nat.eq_dec f (dtors_of k) then 1%nat else 0%nat.
Proof. exact dtor_each_once. Qed.
Print Assumptions C34_dtor_each_once.

Theorem C34_ctor_each_once : forall junk k f, NoDup (ctors_of k) ->
  count_occ Nat.eq_dec (run_constructors (class_initialize junk k)) f =
  if in_dec Nat.eq_dec f (ctors_of k) then 1%nat else 0%nat.
Proof. exact ctor_each_once. Qed.
Print Assumptions C34_ctor_each_once.

(* cls_depth is the length of the parent chain; both arrays and their NULL sentinels lie
   inside the allocated block of (#ctors + #dtors + 2) cells *)
Theorem C34_depth_counted : forall junk k, i_depth (class_initialize junk k) = depth_of k.
Proof. exact depth_counted. Qed.
Print Assumptions C34_depth_counted.

Theorem C34_arrays_in_block : forall junk k,
  length (i_arr (class_initialize junk k)) = (length (ctors_of k) + length (dtors_of k) + 2)%nat /\
  nth_error (i_arr (class_initialize junk k)) (length (ctors_of k)) = Some None /\
  nth_error (i_arr (class_initialize junk k)) (length (ctors_of k) + length (dtors_of k) + 1) = Some None.
Proof. exact arrays_in_block. Qed.
Print Assumptions C34_arrays_in_block.

(* ---- (b) every reachable configuration: ANY destructor sequence dt, ANY number of threads
   with ANY (references initially held, retain/release list) obeying the discipline
   [disciplined] (an operation is performed only while holding a reference), at least one
   reference handed out, no int32 overflow, ANY schedule (any prefix of any run) ---- *)

(* the count is the number of references held; it never goes negative *)
Theorem C34_count_is_refs_held : forall dt ths sched, disciplined ths ->
  1 <= sumf t_held (map mk_thr ths) -> bound ths < 2147483648 ->
  o_rc (run dt (init ths) sched) = sumf t_held (o_thr (run dt (init ths) sched)) /\
  0 <= o_rc (run dt (init ths) sched).
Proof. exact count_is_refs_held. Qed.
Print Assumptions C34_count_is_refs_held.

(* at most one update returns 0, the object is destroyed at most once, and the destructor
   log is empty or exactly the class's chain *)
Theorem C34_destroyed_at_most_once : forall dt ths sched, disciplined ths ->
  1 <= sumf t_held (map mk_thr ths) -> bound ths < 2147483648 ->
  0 <= o_destroys (run dt (init ths) sched) <= 1 /\
  zeros (o_trace (run dt (init ths) sched)) = o_destroys (run dt (init ths) sched) /\
  dlog (o_trace (run dt (init ths) sched)) =
    (if o_destroys (run dt (init ths) sched) =? 1 then dt else []).
Proof. exact destroyed_at_most_once. Qed.
Print Assumptions C34_destroyed_at_most_once.

(* the release that observes 0 is the last atomic update: the event trace is
   (updates with results >= 1) ++ [update -> 0] ++ destructors ++ [free], and no thread has an
   operation left or holds a reference *)
Theorem C34_zero_is_last : forall dt ths sched, disciplined ths ->
  1 <= sumf t_held (map mk_thr ths) -> bound ths < 2147483648 ->
  o_destroys (run dt (init ths) sched) = 1 ->
  final_trace dt (o_trace (run dt (init ths) sched)) /\ o_rc (run dt (init ths) sched) = 0 /\
  Forall (fun th => t_held th = 0 /\ t_ops th = []) (o_thr (run dt (init ths) sched)).
Proof. exact zero_is_last. Qed.
Print Assumptions C34_zero_is_last.

(* ... and whatever is scheduled afterwards changes neither the trace nor the count *)
Theorem C34_nothing_after_destroy : forall dt ths s1 s2, disciplined ths ->
  1 <= sumf t_held (map mk_thr ths) -> bound ths < 2147483648 ->
  o_destroys (run dt (init ths) s1) = 1 ->
  o_trace (run dt (init ths) (s1 ++ s2)) = o_trace (run dt (init ths) s1) /\
  o_rc (run dt (init ths) (s1 ++ s2)) = 0 /\ o_destroys (run dt (init ths) (s1 ++ s2)) = 1.
Proof. exact nothing_after_destroy. Qed.
Print Assumptions C34_nothing_after_destroy.

(* before that, every update returned a value >= 1 *)
Theorem C34_live_trace_positive : forall dt ths sched, disciplined ths ->
  1 <= sumf t_held (map mk_thr ths) -> bound ths < 2147483648 ->
  o_destroys (run dt (init ths) sched) = 0 ->
  Forall is_pos_upd (o_trace (run dt (init ths) sched)) /\ 1 <= o_rc (run dt (init ths) sched).
Proof. exact live_trace_positive. Qed.
Print Assumptions C34_live_trace_positive.

(* no retain / release is ever performed on a destroyed object *)
Theorem C34_no_touch_after_destroy : forall dt ths sched, disciplined ths ->
  1 <= sumf t_held (map mk_thr ths) -> bound ths < 2147483648 ->
  o_late (run dt (init ths) sched) = 0.
Proof. exact no_touch_after_destroy. Qed.
Print Assumptions C34_no_touch_after_destroy.

(* destroyed exactly when the last reference is gone *)
Theorem C34_destroyed_iff_no_reference_left : forall dt ths sched, disciplined ths ->
  1 <= sumf t_held (map mk_thr ths) -> bound ths < 2147483648 ->
  (o_destroys (run dt (init ths) sched) = 1 <-> sumf t_held (o_thr (run dt (init ths) sched)) = 0).
Proof. exact destroyed_iff_no_reference_left. Qed.
Print Assumptions C34_destroyed_iff_no_reference_left.

(* when every reference handed out or retained is released by somebody ([balanced]) and all
   operations have been performed: exactly one release observed 0 and the destructor chain
   ran exactly once; when one reference is never released the object is never destroyed *)
Theorem C34_all_released_destroyed_once : forall dt ths sched, disciplined ths ->
  1 <= sumf t_held (map mk_thr ths) -> bound ths < 2147483648 -> balanced ths ->
  all_ops_done (run dt (init ths) sched) ->
  o_destroys (run dt (init ths) sched) = 1 /\ zeros (o_trace (run dt (init ths) sched)) = 1 /\
  dlog (o_trace (run dt (init ths) sched)) = dt /\ final_trace dt (o_trace (run dt (init ths) sched)).
Proof. exact all_released_destroyed_once. Qed.
Print Assumptions C34_all_released_destroyed_once.

Theorem C34_leaked_never_destroyed : forall dt ths sched, disciplined ths ->
  1 <= sumf t_held (map mk_thr ths) -> bound ths < 2147483648 ->
  sumf fin (map mk_thr ths) <> 0 ->
  o_destroys (run dt (init ths) sched) = 0 /\ dlog (o_trace (run dt (init ths) sched)) = [].
Proof. exact leaked_never_destroyed. Qed.
Print Assumptions C34_leaked_never_destroyed.

(* ---- (a)+(b): the whole life of an object of any class ---- *)
Theorem C34_whole_life : forall junk k ths sched, disciplined ths ->
  1 <= sumf t_held (map mk_thr ths) -> bound ths < 2147483648 -> balanced ths ->
  all_ops_done (snd (obj_life junk k ths sched)) ->
  fst (obj_life junk k ths sched) = rev (ctors_of k) /\
  final_trace (dtors_of k) (o_trace (snd (obj_life junk k ths sched))) /\
  dlog (o_trace (snd (obj_life junk k ths sched))) = dtors_of k /\
  zeros (o_trace (snd (obj_life junk k ths sched))) = 1 /\
  o_destroys (snd (obj_life junk k ths sched)) = 1 /\
  o_late (snd (obj_life junk k ths sched)) = 0 /\
  o_rc (snd (obj_life junk k ths sched)) = 0.
Proof. exact whole_life. Qed.
Print Assumptions C34_whole_life.

(* ---- (c) first use: ANY number of threads create an object of the same not yet initialised
   class (each then runs ANY disciplined, balanced retain/release list on its own object), ANY
   schedule over the scheduling points lock / unlock / fetch-add ---- *)

(* any interleaving of initialise attempts builds the arrays exactly once, and they are the
   arrays of ONE sequential parsec_class_initialize *)
Theorem C34_first_use_init_once : forall junk k opss sched, first_use_ok opss ->
  let ks := fc_k (frun true junk k (finit opss) sched) in
  0 <= k_inits ks <= 1 /\
  (k_init ks = true -> k_tab ks = Some (class_initialize junk k) /\ k_inits ks = 1 /\
                        tab_ctors ks = rev (ctors_of k) /\ tab_dtors ks = dtors_of k) /\
  (k_init ks = false -> k_tab ks = None /\ k_inits ks = 0).
Proof. exact first_use_init_once. Qed.
Print Assumptions C34_first_use_init_once.

(* class_lock is held exactly while one thread is between lock and unlock *)
Theorem C34_first_use_mutex : forall junk k opss sched, first_use_ok opss ->
  let c := frun true junk k (finit opss) sched in
  cnt is_unlock (fc_thr c) = (if k_lock (fc_k c) then 1 else 0).
Proof. exact first_use_mutex. Qed.
Print Assumptions C34_first_use_mutex.

(* at every moment every thread's log is: nothing before its object is constructed; then all
   constructors base -> derived followed by updates >= 1; and once its last reference went,
   additionally the update 0, all destructors derived -> base and free - none before *)
Theorem C34_first_use_lives : forall junk k opss sched t th, first_use_ok opss ->
  nth_error (fc_thr (frun true junk k (finit opss) sched)) t = Some th ->
  match f_pc th with
  | FOps => (1 <= f_rc th /\ life_running k (f_ev th)) \/
            (f_rc th = 0 /\ f_ops th = [] /\ life_complete k (f_ev th))
  | _ => f_ev th = []
  end.
Proof. exact first_use_lives. Qed.
Print Assumptions C34_first_use_lives.

Theorem C34_first_use_finished : forall junk k opss sched t th, first_use_ok opss ->
  nth_error (fc_thr (frun true junk k (finit opss) sched)) t = Some th ->
  fthr_done th = true -> life_complete k (f_ev th) /\ f_rc th = 0.
Proof. exact first_use_finished. Qed.
Print Assumptions C34_first_use_finished.

(* the same model WITHOUT the re-test of cls_initialized under the lock builds the arrays twice:
   the block another thread's constructor / destructor chain is walking gets replaced *)
Theorem C34_first_use_no_recheck_refuted : exists junk k opss sched, first_use_ok opss /\
  k_inits (fc_k (frun false junk k (finit opss) sched)) = 2.
Proof.
  exists (fun _ => None), (Derived (Some 1%nat) (Some 1%nat) (Base None None)), [[Release]; [Release]], [0;1;0;0;1;1]%nat.
  split; [|exact no_recheck_twice]. repeat constructor.
Qed.
Print Assumptions C34_first_use_no_recheck_refuted.

(* ---- what the discipline buys: thread 1 retains WITHOUT holding a reference (it borrows
   thread 0's); when thread 0's release comes first the retain touches a destroyed object
   and the following release destroys it a second time.  (With the other order all is well:
   ObjRefProofs.race_good_order.)  This is not a defect of the code but the reason for the
   hypothesis [disciplined]. ---- *)
Theorem C34_undisciplined_refuted : exists ths sched,
  1 <= sumf t_held (map mk_thr ths) /\ bound ths < 2147483648 /\ balanced ths /\
  o_destroys (run [7%nat] (init ths) sched) = 2 /\ o_late (run [7%nat] (init ths) sched) = 2 /\
  dlog (o_trace (run [7%nat] (init ths) sched)) = [7%nat; 7%nat].
Proof. exists race_ths, [0;1;0;1;1]%nat. vm_compute. repeat split; congruence. Qed.
Print Assumptions C34_undisciplined_refuted.

(* non-vacuity: a class of depth 4 (3 user levels + parsec_object_t) with a missing constructor
   and a missing destructor; thread 0 holds two references and releases both, thread 1 holds
   one, retains once more and releases twice, interleaved *)
Example C34_example :
  let k := Derived (Some 3%nat) None (Derived None (Some 2%nat) (Derived (Some 1%nat) (Some 1%nat) (Base None None))) in
  let ths := [(2, [Release; Release]); (1, [Retain; Release; Release])] in
  disciplined ths /\ balanced ths /\ bound ths < 2147483648 /\
  fst (obj_life (fun _ => Some 9%nat) k ths [0;1;1;0;1;0;1]%nat) = [1%nat; 3%nat] /\
  o_trace (snd (obj_life (fun _ => Some 9%nat) k ths [0;1;1;0;1;0;1]%nat)) =
    [EUpd 1%nat 4; EUpd 0%nat 3; EUpd 1%nat 2; EUpd 0%nat 1; EUpd 1%nat 0; EDtor 2%nat; EDtor 1%nat; EFree].
Proof. vm_compute. repeat split; try congruence; repeat constructor. Qed.

(* non-vacuity of (c): three threads, all see the class uninitialised; thread 1 wins the lock *)
Example C34_example_first_use :
  let k := Derived None (Some 2%nat) (Derived (Some 1%nat) (Some 1%nat) (Base None None)) in
  let opss := [[Release]; [Retain; Release; Release]; [Release]] in
  first_use_ok opss /\
  let c := frun true (fun _ => Some 9%nat) k (finit opss) [0;1;2;1;0;2;1;1;0;0;1;2;2;1;1;0;2]%nat in
  k_inits (fc_k c) = 1 /\
  map f_ev (fc_thr c) = [[FCtor 1%nat; FUpd 0; FDtor 2%nat; FDtor 1%nat; FFree];
                         [FCtor 1%nat; FUpd 2; FUpd 1; FUpd 0; FDtor 2%nat; FDtor 1%nat; FFree];
                         [FCtor 1%nat; FUpd 0; FDtor 2%nat; FDtor 1%nat; FFree]].
Proof. split; [repeat constructor|]. vm_compute. split; reflexivity. Qed.
