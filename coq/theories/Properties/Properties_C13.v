(* C13 — Collective activations reach each destination exactly once.
   Statements only; proofs live in Bcast/*.v.  Model: Bcast/BcastDefs.v
   (bit-level mirror of parsec_remote_dep_activate, closed over the ranks).

   Full statement of the property: for every nb_nodes, root, family of destination
   sets (one per output) and topology, (1) every rank that consumes an output
   receives exactly one activation, nobody else receives one; (2) for every output k
   and every consumer r of k, the activation r receives announces k and its sender
   holds k.  (1) is proved in full.  (2) is FALSE of the code for chain/binomial when
   the sets overlap without being equal (C13_payload_refuted); it is proved for star,
   for families whose sets are pairwise equal or disjoint, and characterised exactly
   by relay_lacks_output = false. *)
From PV Require Import Base.Tac Bcast.BcastDefs Bcast.BcastBits Bcast.BcastTopo Bcast.BcastProofs.
From PV Require Gen.Gen_bcast Gen.GenEq_bcast.
From Coq Require Import NArith.
Local Open Scope N_scope.

(* (1) every rank of the union of the destination sets other than the root receives
   exactly one activation message over the whole propagation, every other rank none *)
Theorem C13_activation_exactly_once : forall n root sets t,
  n < 2 ^ 31 -> root < n -> (forall s, In s sets -> forall r, In r s -> r < n) ->
  forall r, recv_count r (all_msgs (propagate n root sets (child_fn t))) =
            if is_dest root sets r then 1%nat else 0%nat.
Proof. exact activation_exactly_once. Qed.
Print Assumptions C13_activation_exactly_once.

(* the breadth-first closure is complete after nb_nodes rounds *)
Theorem C13_propagation_terminates : forall n root sets t,
  n < 2 ^ 31 -> root < n -> (forall s, In s sets -> forall r, In r s -> r < n) ->
  leftover (propagate n root sets (child_fn t)) = [].
Proof. exact propagation_terminates. Qed.
Print Assumptions C13_propagation_terminates.

(* what the packed message announces: output k iff the receiver consumes k and the
   sender holds k (it is the root or consumes k) *)
Theorem C13_announced_iff : forall n root sets t,
  n < 2 ^ 31 -> root < n -> (forall s, In s sets -> forall r, In r s -> r < n) ->
  forall m k, In m (all_msgs (propagate n root sets (child_fn t))) ->
  N.testbit (m_ann m) (N.of_nat k) =
  mem (m_dst m) (nth k sets []) && ((m_src m =? root) || mem (m_src m) (nth k sets [])).
Proof. exact announced_iff. Qed.
Print Assumptions C13_announced_iff.

(* (2) holds with the star topology *)
Theorem C13_payload_star : forall n root sets,
  n < 2 ^ 31 -> root < n -> (forall s, In s sets -> forall r, In r s -> r < n) ->
  payload_ok n root sets (child_fn Star).
Proof. exact payload_star. Qed.
Print Assumptions C13_payload_star.

(* (2) holds with every topology when the sets are pairwise equal or disjoint *)
Theorem C13_payload_same_or_disjoint : forall n root sets t,
  n < 2 ^ 31 -> root < n -> (forall s, In s sets -> forall r, In r s -> r < n) ->
  same_or_disjoint root sets -> payload_ok n root sets (child_fn t).
Proof. exact payload_same_or_disjoint. Qed.
Print Assumptions C13_payload_same_or_disjoint.

(* the exact condition: (2) holds iff no consumer is activated through a relay lacking the output *)
Theorem C13_payload_iff_no_relay_lacks_output : forall n root sets t,
  n < 2 ^ 31 -> root < n -> (forall s, In s sets -> forall r, In r s -> r < n) ->
  payload_ok n root sets (child_fn t) <-> relay_lacks_output n root sets (child_fn t) = false.
Proof. exact payload_iff. Qed.
Print Assumptions C13_payload_iff_no_relay_lacks_output.

(* under (2) every consumer of k gets k announced by exactly one message *)
Theorem C13_each_output_once : forall n root sets t,
  n < 2 ^ 31 -> root < n -> (forall s, In s sets -> forall r, In r s -> r < n) ->
  payload_ok n root sets (child_fn t) ->
  forall k r, mem r (nth k sets []) = true -> r <> root ->
  exists m, In m (all_msgs (propagate n root sets (child_fn t))) /\ m_dst m = r /\
            N.testbit (m_ann m) (N.of_nat k) = true /\
            (m_src m = root \/ mem (m_src m) (nth k sets []) = true) /\
            forall m', In m' (all_msgs (propagate n root sets (child_fn t))) -> m_dst m' = r -> m' = m.
Proof. exact each_output_once. Qed.
Print Assumptions C13_each_output_once.

(* (2) is false of the code: 3 ranks, root 0, output 0 -> {1,2}, output 1 -> {2}, chain
   (the default): rank 2 is activated by relay 1, which never holds output 1 *)
Theorem C13_payload_refuted : exists n root sets t,
  n < 2 ^ 31 /\ root < n /\ (forall s, In s sets -> forall r, In r s -> r < n) /\
  relay_lacks_output n root sets (child_fn t) = true /\ ~ payload_ok n root sets (child_fn t).
Proof.
  exists 3, 0, [[1; 2]; [2]], Chain.
  assert (H1 : 3 < 2 ^ 31) by (vm_compute; reflexivity).
  assert (H2 : 0 < 3) by (vm_compute; reflexivity).
  assert (H3 : forall s, In s [[1; 2]; [2]] -> forall r, In r s -> r < 3).
  { intros s [<-|[<-|[]]] r; cbn; intros H; repeat (destruct H as [<-|H]; [vm_compute; reflexivity|]); destruct H. }
  assert (H4 : relay_lacks_output 3 0 [[1; 2]; [2]] (child_fn Chain) = true) by (vm_compute; reflexivity).
  repeat split; auto.
  intros Hp. apply (payload_iff 3 0 [[1; 2]; [2]] Chain H1 H2 H3) in Hp. congruence.
Qed.
Print Assumptions C13_payload_refuted.

(* the same witness with the binomial tree needs 4 ranks *)
Theorem C13_payload_refuted_binomial :
  relay_lacks_output 4 0 [[1; 2; 3]; [3]] (child_fn Binomial) = true.
Proof. vm_compute. reflexivity. Qed.
Print Assumptions C13_payload_refuted_binomial.

(* the bit mapping of remote_dep.h is a bijection between ranks and (bank, bit) positions *)
Theorem C13_bit_mapping_bijective : forall n root,
  root < n ->
  (forall rank, rank < n ->
     let '(b, i) := rank_to_bit n root rank in
     bit_to_rank n root b i = rank /\ i < 32 /\ b * 32 + i < n) /\
  (forall b i, i < 32 -> b * 32 + i < n ->
     bit_to_rank n root b i < n /\ rank_to_bit n root (bit_to_rank n root b i) = (b, i)).
Proof.
  intros n root Hr. split.
  - intros rank Hk. now apply rank_to_bit_to_rank.
  - intros b i Hi Hb. now apply bit_to_rank_to_bit.
Qed.
Print Assumptions C13_bit_mapping_bijective.

(* each of the three child predicates gives every index q >= 1 exactly one parent in [0, q) *)
Theorem C13_unique_parent : forall t q, (1 <= q < 2 ^ 31)%Z ->
  (0 <= parent_idx t q < q)%Z /\
  forall p, (0 <= p)%Z -> (child_fn t p q = true <-> p = parent_idx t q).
Proof.
  intros t q Hq. split; [apply parent_idx_range; lia|]. intros p Hp. now apply unique_parent.
Qed.
Print Assumptions C13_unique_parent.

(* translator tie: the three child predicates the theorems above are about are the C functions
   remote_dep_bcast_{star,chainpipeline,binomial}_child of parsec/remote_dep.c, translated from the
   current C text on every run (Gen/Gen_bcast.v, tools/c2gallina.py), for every pair of ints *)
Theorem C13_child_predicates_are_the_code : forall t me him,
  (match t with
   | Star => PV.Gen.Gen_bcast.remote_dep_bcast_star_child me him
   | Chain => PV.Gen.Gen_bcast.remote_dep_bcast_chainpipeline_child me him
   | Binomial => PV.Gen.Gen_bcast.remote_dep_bcast_binomial_child me him
   end) = if child_fn t me him then 1%Z else 0%Z.
Proof. exact PV.Gen.GenEq_bcast.child_predicates_are_the_code. Qed.
Print Assumptions C13_child_predicates_are_the_code.

(* non-vacuity: 8 ranks, root 3, two overlapping outputs, binomial tree: the hypotheses
   hold, seven ranks are activated once each; and an instance of the positive payload theorem *)
Example C13_example :
  map (fun r => recv_count r (all_msgs (propagate 8 3 [[0;1;2;4;5;6;7]; [1;2;3]] (child_fn Binomial))))
      [0;1;2;3;4;5;6;7] = [1;1;1;0;1;1;1;1]%nat /\
  map (fun m => (m_src m, m_dst m)) (all_msgs (propagate 8 3 [[0;1;2;4;5;6;7]; [1;2;3]] (child_fn Binomial))) =
      [(3,4); (3,5); (3,7); (4,6); (4,0); (5,1); (6,2)] /\
  relay_lacks_output 8 3 [[0;1;2;4;5;6;7]; [0;1;2;4;5;6;7]] (child_fn Chain) = false /\
  relay_lacks_output 8 3 [[0;1;2;4;5;6;7]; [1;2;3]] (child_fn Binomial) = true.
Proof. vm_compute. repeat split. Qed.
