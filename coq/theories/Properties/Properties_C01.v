(* C01 — Every PTG task instance runs exactly once.
   Statements only; proofs live in PTG/EngineProofs.v and PTG/PTGProofs.v.

   Model: PTG/PTGDefs.v (AST of the JDF subset, execution space `instances P`,
   dependencies `preds`/`succs`, the decision procedure `wf_program`) and PTG/Engine.v
   (abstract dataflow engine: Startup / StartupOne t / Begin t / End t; a schedule is an
   arbitrary list of such events, events that are not enabled are no-ops; any number
   of tasks may be running at the same time).

   `executed P evs` is the list of tasks whose body started (Begin events) during the
   schedule evs, `ptg_quiescent P evs` says that after evs startup is complete and
   nothing is ready or running. *)
From Coq Require Import ZArith List Permutation.
From PV Require Import Base.Tac PTG.PTGDefs PTG.Engine PTG.EngineProofs PTG.PTGProofs.
Import ListNotations.

(* Well-formedness is `wf_first_match`: the first input dependency of a data flow whose guard holds is THE
   input (as the runtime scans them), so `<- (k > 0) ? X PROD(k)` followed by an unguarded `<- D(k)` is a valid
   program.  `wf_program` (exactly one guard holds) is the special case: *)
Theorem C01_wf_program_is_first_match : forall P, wf_program P = true -> wf_first_match P = true.
Proof. exact wf_program_first_match. Qed.
Print Assumptions C01_wf_program_is_first_match.

(* for every well-formed program and EVERY schedule: no instance starts twice *)
Theorem C01_no_task_begins_twice : forall P, wf_first_match P = true ->
  forall evs, NoDup (executed P evs).
Proof. exact first_no_task_begins_twice. Qed.
Print Assumptions C01_no_task_begins_twice.

(* nothing outside the declared execution space ever runs *)
Theorem C01_only_instances_run : forall P, wf_first_match P = true ->
  forall evs t, In t (executed P evs) -> In t (instances P).
Proof. exact first_only_instances_run. Qed.
Print Assumptions C01_only_instances_run.

(* every Begin happens after the End of every predecessor (the log is most-recent-first:
   l1 is what happened before this Begin) *)
Theorem C01_begin_after_predecessors_ended : forall P, wf_first_match P = true ->
  forall evs l1 l2 t, log tid (ptg_run P evs) = l2 ++ LBegin t :: l1 ->
  forall p, In p (preds P t) -> In (LEnd p) l1.
Proof. exact first_begin_after_preds_ended. Qed.
Print Assumptions C01_begin_after_predecessors_ended.

(* whenever startup is complete and nothing is ready or running, every instance is done:
   the runtime cannot stop early *)
Theorem C01_quiescent_all_done : forall P, wf_first_match P = true ->
  forall evs, ptg_quiescent P evs -> forall t, In t (instances P) -> st tid (ptg_run P evs) t = Done.
Proof. exact first_quiescent_all_done. Qed.
Print Assumptions C01_quiescent_all_done.

(* hence any complete run executes exactly the multiset `instances P`: each instance once, nothing else *)
Theorem C01_complete_run_executes_each_instance_once : forall P, wf_first_match P = true ->
  forall evs, ptg_quiescent P evs -> Permutation (executed P evs) (instances P).
Proof. exact first_complete_run_once. Qed.
Print Assumptions C01_complete_run_executes_each_instance_once.

(* and a run that is not complete can always continue (no deadlock of the dataflow) *)
Theorem C01_progress : forall P, wf_first_match P = true ->
  forall evs t, In t (instances P) -> st tid (ptg_run P evs) t <> Done ->
  exists u, In u (instances P) /\
    (st tid (ptg_run P evs) u = Ready \/ st tid (ptg_run P evs) u = Running \/ st tid (ptg_run P evs) u = Waiting 0).
Proof. exact first_progress. Qed.
Print Assumptions C01_progress.

(* the same for ANY finite DAG (the form C02/C16/C15 build on): succs is the converse of
   preds with multiplicities, both stay inside `tasks`, and predecessors have smaller rank *)
Theorem C01_engine_generic :
  forall (task : Type) (teq : forall a b : task, {a = b} + {a <> b}) (tasks : list task)
         (preds succs : task -> list task),
    (forall p t, In p tasks -> In t tasks -> count_occ teq (succs p) t = count_occ teq (preds t) p) ->
    (forall p s, In p tasks -> In s (succs p) -> In s tasks) ->
    (forall t p, In t tasks -> In p (preds t) -> In p tasks) ->
    forall rank : task -> nat,
    (forall t p, In t tasks -> In p (preds t) -> rank p < rank t) ->
    forall evs, NoDup tasks -> quiescent task tasks (run task teq tasks preds succs evs) ->
    Permutation (begins task (log task (run task teq tasks preds succs evs))) tasks.
Proof. exact quiescent_executed_once. Qed.
Print Assumptions C01_engine_generic.

(* ---- non-vacuity: a fan-out / control-gather diamond
     A(k)  k = 0..0        RW X <- D(0)            -> X B(0 .. G0-1)
     B(k)  k = 0..G0-1     READ X <- X A(0)        CTL C -> C C(0)
     C(k)  k = 0..0        CTL C <- C B(0 .. G0-1)                      with G0 = 3 *)
Definition dep_in (t : target) := {| d_in := true; d_guard := None; d_then := t; d_else := None |}.
Definition dep_out (t : target) := {| d_in := false; d_guard := None; d_then := t; d_else := None |}.
Definition upto_G0 := Arng (Ec 0) (Eb Osub (Eg 0) (Ec 1)) (Ec 1).
Definition ex_diamond : program :=
  {| p_globals := [3%Z];
     p_classes :=
       [ {| c_locals := [Lrange (Ec 0) (Ec 0) (Ec 1)]; c_params := [0%nat]; c_place := [Ec 0];
            c_flows := [ {| f_mode := MRW; f_deps := [dep_in (Tmem [Ec 0]); dep_out (Ttask 1 0 [upto_G0])] |} ];
            c_prio := None; c_count := false |};
         {| c_locals := [Lrange (Ec 0) (Eb Osub (Eg 0) (Ec 1)) (Ec 1)]; c_params := [0%nat]; c_place := [Ec 0];
            c_flows := [ {| f_mode := MRead; f_deps := [dep_in (Ttask 0 0 [Aexp (Ec 0)])] |};
                         {| f_mode := MCtl; f_deps := [dep_out (Ttask 2 0 [Aexp (Ec 0)])] |} ];
            c_prio := None; c_count := false |};
         {| c_locals := [Lrange (Ec 0) (Ec 0) (Ec 1)]; c_params := [0%nat]; c_place := [Ec 0];
            c_flows := [ {| f_mode := MCtl; f_deps := [dep_in (Ttask 1 1 [upto_G0])] |} ];
            c_prio := None; c_count := true |} ] |}.

Definition tA : tid := (0%nat, [0%Z]).
Definition tB (k : Z) : tid := (1%nat, [k]).
Definition tC : tid := (2%nat, [0%Z]).
(* two B tasks run concurrently; C starts only after the last B ended *)
Definition ex_schedule : list (event tid) :=
  [Startup; Begin tC; Begin tA; Begin (tB 0); End tA; Begin (tB 1); Begin (tB 0); Begin (tB 2); End (tB 0);
   Begin tC; End (tB 2); End (tB 2); Begin tC; End (tB 1); Begin tC; Begin tC; End tC].

Example C01_example :
  wf_program ex_diamond = true
  /\ instances ex_diamond = [tA; tB 0; tB 1; tB 2; tC]
  /\ preds ex_diamond tC = [tB 0; tB 1; tB 2]
  /\ succs ex_diamond tA = [tB 0; tB 1; tB 2]
  /\ map (st tid (ptg_run ex_diamond ex_schedule)) (instances ex_diamond) = [Done; Done; Done; Done; Done]
  /\ executed ex_diamond ex_schedule = [tC; tB 2; tB 0; tB 1; tA].
Proof. vm_compute. repeat split. Qed.

(* a program whose dependencies form a cycle (A(0) <-> B(0)) is rejected *)
Definition ex_cycle : program :=
  {| p_globals := [];
     p_classes :=
       [ {| c_locals := [Lrange (Ec 0) (Ec 0) (Ec 1)]; c_params := [0%nat]; c_place := [Ec 0];
            c_flows := [ {| f_mode := MCtl; f_deps := [dep_in (Ttask 1 0 [Aexp (Ec 0)]); dep_out (Ttask 1 0 [Aexp (Ec 0)])] |} ];
            c_prio := None; c_count := false |};
         {| c_locals := [Lrange (Ec 0) (Ec 0) (Ec 1)]; c_params := [0%nat]; c_place := [Ec 0];
            c_flows := [ {| f_mode := MCtl; f_deps := [dep_in (Ttask 0 0 [Aexp (Ec 0)]); dep_out (Ttask 0 0 [Aexp (Ec 0)])] |} ];
            c_prio := None; c_count := false |} ] |}.
Example C01_cycle_rejected : wf_program ex_cycle = false.
Proof. vm_compute. reflexivity. Qed.

(* ---- first match wins: overlapping guards.
     PROD(k) k = 1..2     RW Y <- D(k) -> B CONS(k)      RW X <- D(k) -> A CONS(k)
     CONS(k) k = 0..2     RW A <- (k > 0) ? X PROD(k)    <- D(k)          (both hold for k > 0: the first one is the input)
                          READ B <- (k > 0) ? Y PROD(k) : D(k)
   CONS(1) has the two predecessor edges from PROD(1) and nothing else; CONS(0) is a startup task. *)
Definition kpos := Eb Ogt (El 0) (Ec 0).
Definition ex_firstmatch : program :=
  {| p_globals := [];
     p_classes :=
       [ {| c_locals := [Lrange (Ec 1) (Ec 2) (Ec 1)]; c_params := [0%nat]; c_place := [Ec 0];
            c_flows := [ {| f_mode := MRW; f_deps := [dep_in (Tmem [El 0]); dep_out (Ttask 1 1 [Aexp (El 0)])] |};
                         {| f_mode := MRW; f_deps := [dep_in (Tmem [El 0]); dep_out (Ttask 1 0 [Aexp (El 0)])] |} ];
            c_prio := None; c_count := false |};
         {| c_locals := [Lrange (Ec 0) (Ec 2) (Ec 1)]; c_params := [0%nat]; c_place := [Ec 0];
            c_flows := [ {| f_mode := MRW;
                            f_deps := [ {| d_in := true; d_guard := Some kpos; d_then := Ttask 0 1 [Aexp (El 0)]; d_else := None |};
                                        dep_in (Tmem [El 0]) ] |};
                         {| f_mode := MRead;
                            f_deps := [ {| d_in := true; d_guard := Some kpos; d_then := Ttask 0 0 [Aexp (El 0)];
                                           d_else := Some (Tmem [El 0]) |} ] |} ];
            c_prio := None; c_count := false |} ] |}.
Example C01_first_match_example :
  wf_program ex_firstmatch = false /\ wf_first_match ex_firstmatch = true
  /\ preds ex_firstmatch (1%nat, [1%Z]) = [(0%nat, [1%Z]); (0%nat, [1%Z])]
  /\ preds ex_firstmatch (1%nat, [0%Z]) = []
  /\ executed ex_firstmatch [Startup; Begin (1%nat, [0%Z]); Begin (0%nat, [2%Z]); Begin (1%nat, [2%Z]); End (0%nat, [2%Z]);
                              Begin (1%nat, [2%Z]); Begin (1%nat, [2%Z])]
     = [(1%nat, [2%Z]); (0%nat, [2%Z]); (1%nat, [0%Z])].
Proof. vm_compute. repeat split. Qed.
