(* C12 — User-triggered termination reaches every process exactly once.
   Statements only; proofs live in UserTrig/UserTrigProofs.v. *)
From PV Require Import Base.Tac UserTrig.UserTrigDefs UserTrig.UserTrigProofs.
Local Open Scope Z_scope.

(* every process other than the root is the destination of exactly one
   notification (sender, index), for every communicator size and root *)
Theorem C12_exactly_one_sender : forall n root r,
  0 < n -> 0 <= root < n -> 0 <= r < n -> r <> root ->
  exists me i, 0 <= me < n /\ sends n root me i r /\
    forall me' i', 0 <= me' < n -> sends n root me' i' r -> me' = me /\ i' = i.
Proof. exact exactly_one_sender. Qed.
Print Assumptions C12_exactly_one_sender.

(* nobody notifies the root *)
Theorem C12_root_has_no_sender : forall n root me i,
  0 < n -> 0 <= root < n -> 0 <= me < n -> ~ sends n root me i root.
Proof. exact root_has_no_sender. Qed.
Print Assumptions C12_root_has_no_sender.

(* the notifications started at the root reach every process *)
Theorem C12_all_triggered : forall n root r,
  0 < n -> 0 <= root < n -> 0 <= r < n -> Triggered n root r.
Proof. exact all_triggered. Qed.
Print Assumptions C12_all_triggered.

(* the two notifications of one process go to different ranks inside the job *)
Theorem C12_children_distinct : forall n root me,
  0 < n -> 0 <= root < n -> 0 <= me < n -> NoDup (children n root me).
Proof. exact children_NoDup. Qed.
Print Assumptions C12_children_distinct.

Theorem C12_children_in_range : forall n root me i r, 0 < n -> sends n root me i r -> 0 <= r < n.
Proof. exact sends_in_range. Qed.
Print Assumptions C12_children_in_range.

(* non-vacuity: 5 processes, root 3: rank 0 is notified by rank 4 only *)
Example C12_example : children 5 3 3 = [4; 0] /\ children 5 3 4 = [1; 2] /\ children 5 3 0 = [] /\
  map (received_count 5 3) [0;1;2;3;4] = [1;1;1;0;1]%nat.
Proof. vm_compute. repeat split. Qed.
