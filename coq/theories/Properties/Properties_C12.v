(* C12 — User-triggered termination reaches every process exactly once.
   Statements only; proofs live in UserTrig/UserTrigProofs.v. *)
From PV Require Import Base.Tac UserTrig.UserTrigDefs UserTrig.UserTrigProofs.
From PV Require UserTrig.ArriveDefs UserTrig.ArriveProofs.
From PV Require Gen.Gen_usertrig Gen.GenEq_usertrig.
From PV Require UserTrig.CountDefs UserTrig.CountProofs.
Local Open Scope Z_scope.

(* every process other than the root is the destination of exactly one
   notification (sender, index), for every communicator size and root *)
Theorem C12_exactly_one_sender : forall n root r,
  0 < n -> 0 <= root < n -> 0 <= r < n -> r <> root ->
  exists me i, 0 <= me < n /\ sends n root me i r /\
    forall me' i', 0 <= me' < n -> sends n root me' i' r -> me' = me /\ i' = i.
Proof. exact exactly_one_sender. Qed.
Print Assumptions C12_exactly_one_sender.

(* nobody notifies the root *)
Theorem C12_root_has_no_sender : forall n root me i,
  0 < n -> 0 <= root < n -> 0 <= me < n -> ~ sends n root me i root.
Proof. exact root_has_no_sender. Qed.
Print Assumptions C12_root_has_no_sender.

(* the notifications started at the root reach every process *)
Theorem C12_all_triggered : forall n root r,
  0 < n -> 0 <= root < n -> 0 <= r < n -> Triggered n root r.
Proof. exact all_triggered. Qed.
Print Assumptions C12_all_triggered.

(* the two notifications of one process go to different ranks inside the job *)
Theorem C12_children_distinct : forall n root me,
  0 < n -> 0 <= root < n -> 0 <= me < n -> NoDup (children n root me).
Proof. exact children_NoDup. Qed.
Print Assumptions C12_children_distinct.

Theorem C12_children_in_range : forall n root me i r, 0 < n -> sends n root me i r -> 0 <= r < n.
Proof. exact sends_in_range. Qed.
Print Assumptions C12_children_in_range.

(* translator tie: the destinations computed by the C text of parsec_termdet_signal_termination (the
   initialisers of my_rank, nb_children, child, real_child, translated on every run into
   Gen/Gen_usertrig.v) are the [children] the theorems above are about *)
Theorem C12_children_are_the_code : forall n root me, 0 < n -> 0 <= root < n -> 0 <= me < n ->
  let s := Gen_usertrig.parsec_termdet_signal_termination__my_rank me root n in
  map (fun i => Gen_usertrig.parsec_termdet_signal_termination__real_child
                  (Gen_usertrig.parsec_termdet_signal_termination__child s i) root n)
      (map Z.of_nat (seq 0 (Z.to_nat (Gen_usertrig.parsec_termdet_signal_termination__nb_children s n))))
  = children n root me.
Proof. exact GenEq_usertrig.children_are_the_code. Qed.
Print Assumptions C12_children_are_the_code.

(* ---- the counter protocol of one process (UserTrig/CountDefs.v) ----
   for every disciplined history of the module's interface calls on one process (ready first and once,
   the trigger once after it, runtime actions never below zero): termination is signalled — children
   notified, callback run — at most once; exactly when the monitor is TERMINATED; and as soon as the
   taskpool is ready with no pending action it HAS been signalled.  In particular runtime actions
   added and retired after the termination do not signal it again. *)
Theorem C12_signalled_exactly_once : forall ops, CountDefs.disciplined CountDefs.cinit ops = true ->
  let s := CountDefs.crun ops CountDefs.cinit in
  (CountDefs.c_sig s <= 1)%nat /\ (CountDefs.c_sig s = 1%nat <-> CountDefs.c_state s = CountDefs.Terminated) /\
  (CountDefs.c_state s <> CountDefs.NotReady -> CountDefs.c_pa s = 0 -> CountDefs.c_sig s = 1%nat).
Proof. exact CountProofs.count_exactly_once. Qed.
Print Assumptions C12_signalled_exactly_once.

(* the signalling calls must test the monitor state: testing only "nb_tasks was set to 0" signals twice *)
Theorem C12_state_guard_necessary :
  let s1 := CountProofs.add_actions_tasks0 (-1)
              {| CountDefs.c_state := CountDefs.Busy; CountDefs.c_tasks0 := true; CountDefs.c_pa := 1; CountDefs.c_sig := 0 |} in
  CountDefs.c_sig s1 = 1%nat /\
  CountDefs.c_sig (CountProofs.add_actions_tasks0 (-1) (CountProofs.add_actions_tasks0 1 s1)) = 2%nat.
Proof. exact CountProofs.state_guard_necessary. Qed.
Print Assumptions C12_state_guard_necessary.

Example C12_count_example :
  let ops := [CountDefs.OReady; CountDefs.OAddActions 2; CountDefs.OTrigger; CountDefs.OAddActions (-2);
              CountDefs.OAddActions 1; CountDefs.OAddActions (-1)] in
  CountDefs.disciplined CountDefs.cinit ops = true /\ CountDefs.c_sig (CountDefs.crun ops CountDefs.cinit) = 1%nat.
Proof. vm_compute. split; reflexivity. Qed.

(* ---- arrival of the notification at a process (UserTrig/ArriveDefs.v) ----
   whatever the moment at which the notification arrives relative to the registration of the
   taskpool and to taskpool_ready (ini = 0: not registered yet, 1: registered but not ready,
   2: ready), and whatever the interleaving of the communication thread with the main thread,
   the process handles the notification (terminates, notifies its children, runs the callback)
   at most once, only while BUSY, and exactly once when both threads are done; the message is
   never left parked and the delayed-message lock is free *)
Theorem C12_arrival_exactly_once : forall ini sched,
  let s := ArriveDefs.run sched (ArriveDefs.init ini) in
  (ArriveDefs.delivered s <= 1 /\ ArriveDefs.bad s = 0 /\ ArriveDefs.parked s + ArriveDefs.delivered s <= 1 /\
   (ArriveDefs.finished s = true ->
      ArriveDefs.delivered s = 1 /\ ArriveDefs.parked s = 0 /\ ArriveDefs.lock_of s = 0 /\ ArriveDefs.tp_of s = 3))%nat.
Proof. exact ArriveProofs.arrival_exactly_once. Qed.
Print Assumptions C12_arrival_exactly_once.

(* and both threads do finish: after any schedule, six rounds that run both threads complete them *)
Theorem C12_arrival_terminates : forall ini sched,
  ArriveDefs.finished (ArriveDefs.run (ArriveProofs.rounds 6) (ArriveDefs.run sched (ArriveDefs.init ini))) = true.
Proof. exact ArriveProofs.arrival_terminates. Qed.
Print Assumptions C12_arrival_terminates.

(* the second taskpool lookup, under the list lock, is necessary: re-testing what the first lookup
   returned parks the notification for ever in one interleaving *)
Theorem C12_stale_recheck_refuted :
  exists sched, let s := fold_left (ArriveProofs.step_stale 0) sched (ArriveDefs.init 0) in
    ArriveDefs.finished s = true /\ ArriveDefs.delivered s = 0%nat /\ ArriveDefs.parked s = 1%nat.
Proof. exact ArriveProofs.stale_recheck_refuted. Qed.
Print Assumptions C12_stale_recheck_refuted.

(* non-vacuity of the arrival theorems: the notification overtakes the registration *)
Example C12_arrival_example :
  ArriveDefs.run [0; 0; 0; 0; 0; 1; 1; 1; 1; 1]%nat (ArriveDefs.init 0) = (6, 5, 3, 0, 0, 1, 0)%nat.
Proof. vm_compute. reflexivity. Qed.

(* non-vacuity: 5 processes, root 3: rank 0 is notified by rank 4 only *)
Example C12_example : children 5 3 3 = [4; 0] /\ children 5 3 4 = [1; 2] /\ children 5 3 0 = [] /\
  map (received_count 5 3) [0;1;2;3;4] = [1;1;1;0;1]%nat.
Proof. vm_compute. repeat split. Qed.
