(* C07 — A task becomes ready exactly once, when its last input arrives.
   Statements only; proofs in Deps/DepsCounterProofs.v and Deps/DepsMaskProofs.v.
   Model: Deps/DepsDefs.v (atomic-step model of parsec_update_deps_with_counter/_mask;
   one thread = one release; the schedule is an arbitrary list of thread ids). *)
From PV Require Import Base.Tac Base.ListX Deps.DepsDefs Deps.DepsCounterProofs Deps.DepsMaskProofs.

(* ---- counter mode: any goal g > 0, any number n <= g of releases, any schedule ---- *)
Theorem C07_counter_at_most_once : forall g n sched, (0 < g)%Z -> (Z.of_nat n <= g)%Z ->
  (cnt c_is_ready (cpcs (crun g (cinit n) sched)) <= 1)%Z.
Proof. exact counter_at_most_once. Qed.
Print Assumptions C07_counter_at_most_once.

Theorem C07_counter_ready_iff_all : forall g n sched, (0 < g)%Z -> (Z.of_nat n <= g)%Z ->
  (cnt c_is_ready (cpcs (crun g (cinit n) sched)) = 1 <->
   cnt c_is_done (cpcs (crun g (cinit n) sched)) = g)%Z.
Proof. exact counter_ready_iff_all. Qed.
Print Assumptions C07_counter_ready_iff_all.

Theorem C07_counter_ready_is_last : forall g n sched t, (0 < g)%Z -> (Z.of_nat n <= g)%Z ->
  nth_error (cpcs (crun g (cinit n) sched)) t = Some (CDone true) ->
  forall u p, nth_error (cpcs (crun g (cinit n) sched)) u = Some p -> c_is_done p = true.
Proof. exact counter_ready_is_last. Qed.
Print Assumptions C07_counter_ready_is_last.

(* ---- mask mode: releases carry pairwise distinct flow bits that belong to the goal and
   are not collection inputs; the goal is covered by the collection bits and the releases ---- *)
Theorem C07_mask_at_most_once : forall goal inmask idxs, NoDup idxs ->
  (forall i, In i idxs -> i <> 30%N /\ N.testbit goal i = true /\ N.testbit inmask i = false) ->
  (forall k, N.testbit goal k = true -> N.testbit inmask k = true \/ In k idxs \/ k = 30%N) ->
  forall sched, idxs <> [] ->
  (cnt m_is_ready (mpcs (mrun goal inmask (minit idxs) sched)) <= 1)%Z.
Proof. exact mask_at_most_once. Qed.
Print Assumptions C07_mask_at_most_once.

Theorem C07_mask_ready_iff_all : forall goal inmask idxs, NoDup idxs ->
  (forall i, In i idxs -> i <> 30%N /\ N.testbit goal i = true /\ N.testbit inmask i = false) ->
  (forall k, N.testbit goal k = true -> N.testbit inmask k = true \/ In k idxs \/ k = 30%N) ->
  forall sched, idxs <> [] ->
  (cnt m_is_ready (mpcs (mrun goal inmask (minit idxs) sched)) = 1 <->
   cnt m_is_done (mpcs (mrun goal inmask (minit idxs) sched)) = Z.of_nat (length idxs))%Z.
Proof. exact mask_ready_iff_all. Qed.
Print Assumptions C07_mask_ready_iff_all.

Theorem C07_mask_ready_is_last : forall goal inmask idxs, NoDup idxs ->
  (forall i, In i idxs -> i <> 30%N /\ N.testbit goal i = true /\ N.testbit inmask i = false) ->
  (forall k, N.testbit goal k = true -> N.testbit inmask k = true \/ In k idxs \/ k = 30%N) ->
  forall sched t i, idxs <> [] ->
  nth_error (mpcs (mrun goal inmask (minit idxs) sched)) t = Some (MDone i true) ->
  forall u p, nth_error (mpcs (mrun goal inmask (minit idxs) sched)) u = Some p -> m_is_done p = true.
Proof. exact mask_ready_is_last. Qed.
Print Assumptions C07_mask_ready_is_last.

(* non-vacuity: three releases racing on a counter goal of 3 (the first two interleave their
   read / CAS), and a mask goal 0b1011 with collection bit 0 and releases on flows 1 and 3 *)
Example C07_example_counter :
  map c_is_ready (cpcs (crun 3 (cinit 3) [0;1;0;1;1;2;2]%nat)) = [false; false; true].
Proof. vm_compute. reflexivity. Qed.
Example C07_example_mask :
  map m_is_ready (mpcs (mrun 11 1 (minit [1;3]%N) [0;1;1;0]%nat)) = [true; false] /\
  NoDup [1;3]%N.
Proof. split; [vm_compute; reflexivity|]. repeat constructor; cbn; intuition congruence. Qed.
