(* C09 — Priority schedulers honour task priorities.
   Statements only; proofs live in Sched/SchedPrioProofs.v.

   Reference semantics (Sched/SchedPrioDefs.v): the pending tasks in arrival
   order (order of the schedule calls, ring order inside a call), each with the
   distance it was scheduled with; [srun pick] appends on schedule and removes
   [pick]'s choice on select.  [plain ops]: the history consists of
   module.schedule / module.select calls (any streams, any rings, any
   distances); ap, ip and spq keep one structure per virtual process, so the
   stream does not matter. *)
From Coq Require Import ZArith List.
From PV Require Import Base.Tac Sched.SchedDefs Sched.SchedPrioDefs Sched.SchedPrioProofs.
Import ListNotations.
Local Open Scope Z_scope.

(* ap: every select returns what the reference returns ... *)
Theorem C09_ap_refines : forall c ops, plain ops ->
  snd (vrun c (vinit AP c) ops) = srun ap_pick [] ops.
Proof. exact ap_refines. Qed.
Print Assumptions C09_ap_refines.
(* ... which is a maximum-priority pending task, the earliest scheduled among equals (NULL only when nothing is pending) *)
Theorem C09_ap_pick_meaning : forall P P' x, ap_pick P = (P', Some x) ->
  exists a b, P = a ++ x :: b /\ P' = a ++ b /\
              (forall y, In y P -> pprio y <= pprio x) /\ (forall y, In y a -> pprio y < pprio x).
Proof. exact ap_pick_meaning. Qed.
Print Assumptions C09_ap_pick_meaning.
Theorem C09_ap_pick_none : forall P P', ap_pick P = (P', None) -> P = [].
Proof. exact ap_pick_none. Qed.
Print Assumptions C09_ap_pick_none.

(* spq: the smallest pending distance first (so a task rescheduled at distance
   d+1 is never selected while one is pending at distance <= d); within that
   distance as ap *)
Theorem C09_spq_refines : forall c ops, plain ops ->
  snd (vrun c (vinit SPQ c) ops) = srun spq_pick [] ops.
Proof. exact spq_refines. Qed.
Print Assumptions C09_spq_refines.
Theorem C09_spq_pick_meaning : forall P P' x, spq_pick P = (P', Some x) ->
  exists a b, P = a ++ x :: b /\ P' = a ++ b /\
              (forall y, In y P -> fst x <= fst y) /\
              (forall y, In y P -> fst y = fst x -> pprio y <= pprio x) /\
              (forall y, In y a -> fst y = fst x -> pprio y < pprio x).
Proof. exact spq_pick_meaning. Qed.
Print Assumptions C09_spq_pick_meaning.

(* ip, histories whose schedules all have distance 0: a minimum-priority pending
   task, the LATEST scheduled among equals (pop_back of the stable sorted list) *)
Theorem C09_ip_refines_dist0 : forall c ops, plain ops -> dist0 ops ->
  snd (vrun c (vinit IP c) ops) = srun ip_pick [] ops.
Proof. exact ip_refines_dist0. Qed.
Print Assumptions C09_ip_refines_dist0.
Theorem C09_ip_pick_meaning : forall P P' x, ip_pick P = (P', Some x) ->
  exists a b, P = a ++ x :: b /\ P' = a ++ b /\
              (forall y, In y P -> pprio x <= pprio y) /\ (forall y, In y b -> pprio x < pprio y).
Proof. exact ip_pick_meaning. Qed.
Print Assumptions C09_ip_pick_meaning.

(* the unrestricted ip statement is false of the code: schedule priority 5 (d=0),
   3 (d=0), 10 (d=1): chain_back puts 10 at the tail, where pop_back selects:
   10 is returned before 3 and 5.  Replayed on the real module by checks/C09.py
   (signature ip-distance). *)
Theorem C09_ip_distance_refuted :
  plain ip_witness /\
  snd (vrun c1 (vinit IP c1) ip_witness) <> srun ip_pick [] ip_witness /\
  map ob_prio (snd (vrun c1 (vinit IP c1) ip_witness)) = [None; None; None; Some 10; Some 3; Some 5].
Proof. exact ip_distance_refuted. Qed.
Print Assumptions C09_ip_distance_refuted.

(* non-vacuity: ties and several distances *)
Definition hx : list op :=
  [OSched 0 0 [mkT 0 2 0 false; mkT 1 7 0 false; mkT 2 2 0 false] [];
   OSched 0 1 [mkT 3 9 0 false] []; OSched 0 0 [mkT 4 7 0 false; mkT 5 1 0 false] [];
   OSel 0; OSel 0; OSel 0; OSel 0; OSel 0; OSel 0; OSel 0].
Definition hx0 : list op :=
  map (fun o => match o with OSched es _ r x => OSched es 0 r x | _ => o end) hx.
Example C09_example :
  plain hx /\ plain hx0 /\ dist0 hx0 /\
  skipn 3 (map ob_out_id (snd (vrun c1 (vinit AP c1) hx))) = [3; 1; 4; 0; 2; 5; -1] /\
  skipn 3 (map ob_out_id (snd (vrun c1 (vinit SPQ c1) hx))) = [1; 4; 0; 2; 5; 3; -1] /\
  skipn 3 (map ob_out_id (snd (vrun c1 (vinit IP c1) hx0))) = [5; 2; 0; 4; 1; 3; -1].
Proof.
  split; [repeat constructor|]. split; [repeat constructor|]. split; [repeat constructor|].
  vm_compute. repeat split; reflexivity.
Qed.
