(* C23 — PTG task keys identify task instances uniquely.
   Statements only; proofs live in PTG/KeyProofs.v.

   make_key  (PTGDefs.v) is the function parsec-ptgpp generates (jdf_generate_hashfunction_for):
             Σ (v_i − min_i) · Π_{j<i} range_j  over the parameters in the order of the LOCALS,
             as an uint64 (mod 2^64), with min_i / range_i as computed by the generated
             internal_init (min starts at 0x7fffffff, max at 0; updated with min(lo,hi) /
             max(lo,hi) at every visit of the loop header; a parameter that is not a range
             has min 0 and range 1).
   key_print is the inversion of jdf_generate_deps_key_functions:  v_i = key % range_i + min_i,
             key /= range_i, for the parameters in the order of the LOCALS.
   instances_of G c is the execution space of the class (environments of all locals).
   range_product G c = Π range_i;  the no-overflow hypothesis is range_product <= 2^64. *)
From Coq Require Import ZArith List.
From PV Require Import Base.Tac PTG.PTGDefs PTG.KeyProofs.
Import ListNotations.
Local Open Scope Z_scope.

(* two instances of a class of a well-formed program never receive the same key *)
Theorem C23_keys_injective : forall P ci c, wf_program P = true -> nth_class P ci = Some c ->
  params_are_ranges c -> range_product (p_globals P) c <= two64 ->
  forall e1 e2, In e1 (instances_of (p_globals P) c) -> In e2 (instances_of (p_globals P) c) ->
    make_key (p_globals P) c e1 = make_key (p_globals P) c e2 -> e1 = e2.
Proof.
  intros P ci c Hwf Hc Hpr Hov. apply make_key_injective; [eapply wf_class_ranges; eassumption|assumption|assumption].
Qed.
Print Assumptions C23_keys_injective.

(* in terms of the identifiers (class header parameters): different parameters, different keys *)
Theorem C23_distinct_params_distinct_keys : forall P ci c, wf_program P = true -> nth_class P ci = Some c ->
  params_are_ranges c -> range_product (p_globals P) c <= two64 ->
  forall e1 e2, In e1 (instances_of (p_globals P) c) -> In e2 (instances_of (p_globals P) c) ->
    params_of c e1 <> params_of c e2 -> make_key (p_globals P) c e1 <> make_key (p_globals P) c e2.
Proof.
  intros P ci c Hwf Hc Hpr Hov e1 e2 H1 H2 Hne Hk. apply Hne. f_equal.
  eapply C23_keys_injective; eassumption.
Qed.
Print Assumptions C23_distinct_params_distinct_keys.

(* without any hypothesis on overflow or on the shape of the parameters (a parameter may be
   defined by an expression): the unbounded key Σ (v_i − min_i) Π range_j is injective *)
Theorem C23_unbounded_key_injective : forall P ci c, wf_program P = true -> nth_class P ci = Some c ->
  forall e1 e2, In e1 (instances_of (p_globals P) c) -> In e2 (instances_of (p_globals P) c) ->
    make_keyZ (p_globals P) c e1 = make_keyZ (p_globals P) c e2 -> e1 = e2.
Proof. intros P ci c Hwf Hc. apply keyZ_injective. eapply wf_class_ranges; eassumption. Qed.
Print Assumptions C23_unbounded_key_injective.

(* the key stays below the product of the ranges (so the hypothesis above is about Π range_i only) *)
Theorem C23_key_below_range_product : forall P ci c, wf_program P = true -> nth_class P ci = Some c ->
  params_are_ranges c ->
  forall e, In e (instances_of (p_globals P) c) -> 0 <= make_keyZ (p_globals P) c e < range_product (p_globals P) c.
Proof. intros P ci c Hwf Hc Hpr. apply keyZ_bound; [eapply wf_class_ranges; eassumption|assumption]. Qed.
Print Assumptions C23_key_below_range_product.

(* key_print inverts make_key: it recomputes every local of the instance, hence prints the
   instance's parameter values (in the order of the locals) *)
Theorem C23_decode_make_key : forall P ci c, wf_program P = true -> nth_class P ci = Some c ->
  params_are_ranges c -> range_product (p_globals P) c <= two64 ->
  forall e, In e (instances_of (p_globals P) c) -> decode (p_globals P) c (make_key (p_globals P) c e) = e.
Proof.
  intros P ci c Hwf Hc Hpr Hov. apply decode_make_key; [eapply wf_class_ranges; eassumption|assumption|assumption].
Qed.
Print Assumptions C23_decode_make_key.

Theorem C23_key_print_names_instance : forall P ci c, wf_program P = true -> nth_class P ci = Some c ->
  params_are_ranges c -> range_product (p_globals P) c <= two64 ->
  forall e, In e (instances_of (p_globals P) c) ->
    key_print (p_globals P) c (make_key (p_globals P) c e) = params_in_local_order c e.
Proof.
  intros P ci c Hwf Hc Hpr Hov. apply key_print_names_instance; [eapply wf_class_ranges; eassumption|assumption|assumption].
Qed.
Print Assumptions C23_key_print_names_instance.

(* The header of a class may permute the definition order of its parameters in ANY way (c_params is an
   arbitrary list of positions): make_key and key_print work in definition order, `to_header_order c` is the
   permutation to the header order, and composing it with key_print gives the instance's header parameters. *)
Theorem C23_key_print_any_header_permutation : forall P ci c, wf_program P = true -> nth_class P ci = Some c ->
  params_are_ranges c -> range_product (p_globals P) c <= two64 ->
  forall e, In e (instances_of (p_globals P) c) ->
    to_header_order c (key_print (p_globals P) c (make_key (p_globals P) c e)) = params_of c e.
Proof.
  intros P ci c Hwf Hc Hpr Hov. apply key_print_header_view; [eapply wf_class_limits; eassumption|assumption|assumption].
Qed.
Print Assumptions C23_key_print_any_header_permutation.

(* ---- the full statement ("the printed form names the instance's parameter values, including
   parameters defined by expressions") is FALSE of the faithful model in two ways; both witnesses
   are replayed on the real generated code by checks/C23.py (notes/findings/C23-*.md):

   (1) a parameter defined by an expression (T(i, k): i = 0..2, k = i+1) is printed as 0 and
       the key is still injective;
   (2) the parameters are printed in the order of the local definitions, not of the header
       (T(m, n) with n defined before m prints T(n, m)). *)
Definition mk_class (ls : list local) (ps : list nat) : tclass :=
  {| c_locals := ls; c_params := ps; c_place := [Ec 0]; c_flows := []; c_prio := None; c_count := false |}.
Definition ex_derived : tclass :=
  mk_class [Lrange (Ec 0) (Ec 2) (Ec 1); Ldef (Eb Oadd (El 0) (Ec 1))] [0%nat; 1%nat].
Theorem C23_key_print_derived_parameter_refuted :
  exists P c e, wf_program P = true /\ nth_class P 0 = Some c /\ In e (instances_of (p_globals P) c)
    /\ range_product (p_globals P) c <= two64
    /\ key_print (p_globals P) c (make_key (p_globals P) c e) <> params_in_local_order c e.
Proof.
  exists {| p_globals := []; p_classes := [ex_derived] |}, ex_derived, [2; 3].
  vm_compute. repeat split; try discriminate; auto 10.
Qed.
Print Assumptions C23_key_print_derived_parameter_refuted.

Definition ex_permuted : tclass :=
  mk_class [Lrange (Ec 0) (Ec 2) (Ec 1); Lrange (Ec 5) (Eb Oadd (Ec 5) (El 0)) (Ec 1)] [1%nat; 0%nat].
Theorem C23_key_print_header_order_refuted :
  exists P c e, wf_program P = true /\ nth_class P 0 = Some c /\ In e (instances_of (p_globals P) c)
    /\ params_are_ranges c /\ range_product (p_globals P) c <= two64
    /\ key_print (p_globals P) c (make_key (p_globals P) c e) <> params_of c e.
Proof.
  exists {| p_globals := []; p_classes := [ex_permuted] |}, ex_permuted, [2; 6].
  split; [vm_compute; reflexivity|]. split; [reflexivity|]. split; [vm_compute; auto 10|].
  split.
  - intros pos e Hn. destruct pos as [|[|pos]]; cbn in Hn; try discriminate. destruct pos; discriminate.
  - split; [vm_compute; discriminate|]. vm_compute. discriminate.
Qed.
Print Assumptions C23_key_print_header_order_refuted.

(* ---- non-vacuity: negative lower bound, step 2, triangular second parameter, a derived local
   in between:   T(k, j):  k = -3 .. 3 .. 2;  h = k + 3;  j = 0 .. h / 2          (k ∈ {-3,-1,1,3}) *)
Definition ex_keys : tclass :=
  mk_class [Lrange (Ec (-3)) (Ec 3) (Ec 2); Ldef (Eb Oadd (El 0) (Ec 3));
            Lrange (Ec 0) (Eb Odiv (El 1) (Ec 2)) (Ec 1)] [0%nat; 2%nat].
Example C23_example :
  let P := {| p_globals := []; p_classes := [ex_keys] |} in
  wf_program P = true
  /\ map (params_of ex_keys) (instances_of [] ex_keys)
     = [[-3;0]; [-1;0]; [-1;1]; [1;0]; [1;1]; [1;2]; [3;0]; [3;1]; [3;2]; [3;3]]
  /\ minmax_at [] (c_locals ex_keys) 0 = (-3, 7) /\ minmax_at [] (c_locals ex_keys) 2 = (0, 4)
  /\ range_product [] ex_keys = 28
  /\ map (make_key [] ex_keys) (instances_of [] ex_keys) = [0; 2; 9; 4; 11; 18; 6; 13; 20; 27]
  /\ map (fun e => key_print [] ex_keys (make_key [] ex_keys e)) (instances_of [] ex_keys)
     = map (params_of ex_keys) (instances_of [] ex_keys).
Proof. vm_compute. repeat split. Qed.

(* all six header orders of three range parameters with different sizes and lower bounds
   (a = -3..4, b = 2..4, c = 0..1 defined in this order): the key ignores the header, the
   header view of the printed key is the instance *)
Definition ex_perm (ps : list nat) : tclass :=
  mk_class [Lrange (Ec (-3)) (Ec 4) (Ec 1); Lrange (Ec 2) (Ec 4) (Ec 1); Lrange (Ec 0) (Ec 1) (Ec 1)] ps.
Example C23_all_header_permutations :
  forallb (fun ps =>
     forallb (fun e => andb (make_key [] (ex_perm ps) e =? make_key [] (ex_perm [0;1;2]%nat) e)
                            (zlist_eqb (to_header_order (ex_perm ps) (key_print [] (ex_perm ps) (make_key [] (ex_perm ps) e)))
                                       (params_of (ex_perm ps) e)))
             (instances_of [] (ex_perm ps)))
    [[0;1;2]; [0;2;1]; [1;0;2]; [1;2;0]; [2;0;1]; [2;1;0]]%nat = true
  /\ params_of (ex_perm [2;0;1]%nat) [4; 2; 1] = [1; 4; 2]
  /\ key_print [] (ex_perm [2;0;1]%nat) (make_key [] (ex_perm [2;0;1]%nat) [4; 2; 1]) = [4; 2; 1].
Proof. vm_compute. repeat split. Qed.
