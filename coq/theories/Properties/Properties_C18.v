(* C18 — Typed PTG flows deliver correctly converted copies.
   Statements only; proofs live in Reshape/Reshape*Proofs.v, the model in Reshape/ReshapeDefs.v.

   Vocabulary.  A tile is the list of its bytes; [rd t b] reads byte b.  A layout is the list, in
   type order, of the byte offsets a datatype selects ([selected] of DType, C19);
   [shape_layout esz mb s] is the layout of the arena datatype s (1 FULL, 2 LOWER, 3 UPPER with
   the diagonal, 4 LOWS, 5 UPPS without) built by parsec_matrix_adt_define_{rect,lower,upper} for
   an mb x mb tile of esz-byte elements; [in_shape s i j] says that element (i, j) belongs to it.
   [convert ls ld src dst] is PaRSEC's reshape (MPI_Sendrecv to self: pack src with the type of
   layout ls, unpack into dst with the type of layout ld).  A reshape promise is a datacopy
   future [fut] in a state [st] (copies, promises, repositories, event log); [get_from_dep] is
   what a consumer's data_lookup does with the promise it finds, [setup_local] what the
   producer's release_deps does for one local successor.  [ext s s'] : every copy of s is in s',
   unchanged.  [nconv s] : number of conversions performed so far.

   Level: the conversion theorems are for every tile size, element size and pair of layouts; the
   promise theorems for every state and request.  The whole-program statement ("every consumer
   of every program gets ...") is FALSE of the faithful model and of the code: see the two
   [..._refuted] theorems and notes/findings/C18-*.md. *)
From PV Require Import Base.Tac DType.DTypeDefs Reshape.ReshapeDefs Reshape.ReshapeConvProofs
  Reshape.ReshapePromiseProofs Reshape.ReshapeFanoutProofs Reshape.ReshapeWitness.
Local Open Scope Z_scope.

(* ---- the conversion: selected elements arrive, everything else is untouched ---- *)

(* any two layouts (the destination one without repetition and inside the tile): the k-th selected
   byte of the consumer's copy is the k-th selected byte of the producer's copy *)
Theorem C18_convert_selected : forall ls ld src dst k,
  NoDup ld -> (forall o, In o ld -> 0 <= o < Z.of_nat (length dst)) ->
  (k < length ls)%nat -> (k < length ld)%nat ->
  rd (convert ls ld src dst) (nth k ld 0) = rd src (nth k ls 0).
Proof. exact convert_selected. Qed.
Print Assumptions C18_convert_selected.

(* ... and every byte that is not among the first |ls| selected bytes of the destination type keeps
   the value the destination tile had (for a fresh arena copy: whatever the arena returned) *)
Theorem C18_convert_unselected : forall ls ld src dst b,
  ~ In b (firstn (length ls) ld) -> rd (convert ls ld src dst) b = rd dst b.
Proof. exact convert_other. Qed.
Print Assumptions C18_convert_unselected.

Theorem C18_convert_length : forall ls ld src dst, length (convert ls ld src dst) = length dst.
Proof. exact length_convert. Qed.
Print Assumptions C18_convert_length.

(* the arena datatypes of EVERY tile size and element size, same shape on both sides (the case of a
   [type] / [type_remote] declared identically by producer and consumer): element (i, j) of the
   consumer's copy is the producer's when (i, j) is in the shape, the destination's own otherwise *)
Theorem C18_shape_same : forall esz mb s src dst i j d,
  0 < esz -> 1 <= mb -> mb * mb * esz < 2 ^ 31 -> 1 <= s <= 5 ->
  Z.of_nat (length dst) = mb * mb * esz ->
  0 <= i < mb -> 0 <= j < mb -> 0 <= d < esz ->
  let l := shape_layout esz mb s in
  let b := (i + j * mb) * esz + d in
  rd (convert l l src dst) b = if in_shape s i j then rd src b else rd dst b.
Proof. exact shape_convert_same. Qed.
Print Assumptions C18_shape_same.

(* two different arena datatypes ("pack t1, unpack t2" of CHANGELOG.ptg.md, e.g. LOWER -> UPPER of
   tests/collections/reshape/local_input_LU_LL.jdf): k-th byte in type order to k-th byte in type order *)
Theorem C18_shape_kth : forall esz mb s1 s2 src dst k,
  0 < esz -> 1 <= mb -> mb * mb * esz < 2 ^ 31 -> 1 <= s1 <= 5 -> 1 <= s2 <= 5 ->
  Z.of_nat (length dst) = mb * mb * esz ->
  let l1 := shape_layout esz mb s1 in
  let l2 := shape_layout esz mb s2 in
  (k < length l1)%nat -> (k < length l2)%nat ->
  rd (convert l1 l2 src dst) (nth k l2 0) = rd src (nth k l1 0).
Proof. exact shape_convert_kth. Qed.
Print Assumptions C18_shape_kth.

(* what the layouts are: exactly the bytes of the elements of the shape (from C19) *)
Theorem C18_layout_membership : forall esz mb s b,
  0 < esz -> 1 <= mb -> mb * mb * esz < 2 ^ 31 -> 1 <= s <= 5 ->
  (In b (shape_layout esz mb s) <->
   exists i j, 0 <= i < mb /\ 0 <= j < mb /\ in_shape s i j = true /\
               (i + j * mb) * esz <= b < (i + j * mb + 1) * esz).
Proof. exact shape_layout_In. Qed.
Print Assumptions C18_layout_membership.

(* ---- promises: a new copy, once, shared; nothing else is touched ---- *)

(* fulfilling a promise creates exactly one copy of the destination type whose content is the
   conversion of the promise's input copy into a fresh tile, and records one conversion *)
Theorem C18_fulfil_once : forall E s f,
  f_val (getf s f) = None -> (f < length (futs s))%nat ->
  sendrecv_ok (lay E (f_src (getf s f)) (f_cnt (getf s f))) (lay E (f_dst (getf s f)) 1) = true ->
  let F := getf s f in
  let id := length (copies s) in
  let s' := fst (get_internal E s f true) in
  snd (get_internal E s f true) = Some id /\
  copies s' = copies s ++ [{| cp_dtt := f_dst F; cp_rank := f_rank F;
                              cp_data := convert (lay E (f_src F) (f_cnt F)) (lay E (f_dst F) 1)
                                                 (cp_data (getc s (f_in F))) (e_fresh E) |}] /\
  evs s' = EConv (f_in F) (f_src F) (f_cnt F) id (f_dst F) :: evs s /\
  f_val (getf s' f) = Some id /\
  (forall g, g <> f -> getf s' g = getf s g) /\
  length (futs s') = length (futs s) /\ repo s' = repo s /\ err s' = err s.
Proof. exact get_internal_fulfil. Qed.
Print Assumptions C18_fulfil_once.

(* a completed promise is never fulfilled again: same copy, same state *)
Theorem C18_fulfil_idempotent : forall E s f s1 c b,
  (f < length (futs s))%nat -> get_internal E s f true = (s1, Some c) -> get_internal E s1 f b = (s1, Some c).
Proof. exact get_internal_idem. Qed.
Print Assumptions C18_fulfil_idempotent.

(* consumers that request the same shape (s0, s1) from a promise share one copy and one conversion:
   after a request returned copy c, the same request returns c again without changing the state
   (no new conversion, no new copy); a request performs at most one conversion *)
Theorem C18_same_shape_shared : forall E s f s0 s1 s' c,
  (f < length (futs s))%nat -> nested_done s f ->
  get_spec E s f s0 s1 = (s', Some c) ->
  get_spec E s' f s0 s1 = (s', Some c) /\ nested_done s' f /\ (nconv s' <= nconv s + 1)%nat /\
  (f < length (futs s'))%nat.
Proof. exact get_spec_shared. Qed.
Print Assumptions C18_same_shape_shared.

(* the producer's copy, the other consumers' copies and the tiles of the collection are not
   altered when a consumer obtains its copy, nor when a producer sets up a promise *)
Theorem C18_other_copies_untouched : forall E s f ti i,
  (i < length (copies s))%nat -> getc (fst (get_from_dep E s f ti)) i = getc s i.
Proof. exact get_from_dep_untouched. Qed.
Print Assumptions C18_other_copies_untouched.

Theorem C18_setup_touches_no_copy : forall E fx s pk sk X rank cur to i,
  (i < length (copies s))%nat -> getc (fst (setup_local E fx s pk sk X rank cur to)) i = getc s i.
Proof. exact setup_local_untouched. Qed.
Print Assumptions C18_setup_touches_no_copy.

(* no conversion when the shapes are identical: output dependency without [type] or with the type of
   the produced copy, consumer without [type] or with that type: the consumer gets the producer's
   copy itself, no copy is made, no conversion is recorded *)
Theorem C18_identical_shapes_no_conversion : forall E fx s pk sk X rank to ti,
  let d := cp_dtt (getc s X) in
  repo_get s pk = None -> (to = 0 \/ to = d) -> (ti = 0 \/ ti = d) ->
  let '(s1, cur) := setup_local E fx s pk sk X rank None to in
  exists f, cur = Some f /\ repo_get s1 pk = Some f /\
    get_from_dep E s1 f ti = (s1, Some X) /\ copies s1 = copies s /\ evs s1 = evs s.
Proof. exact identical_shapes_no_conversion. Qed.
Print Assumptions C18_identical_shapes_no_conversion.

(* ---- one producer, any fan-out behind one promise: the documented copies are delivered ---- *)

(* [expected_local d to ti] is the conversion CHANGELOG.ptg.md promises to a local consumer: producer's
   copy of type d, output dependency [type = to], input dependency [type = ti] (0 = absent): None = the
   producer's copy itself, Some (p, u) = pack with p, unpack with u.  [documented E s X n0 xdata c e]:
   c is X (e = None), or c is a copy made after the promise (index >= n0), of type u, whose content is
   convert (layout p) (layout u) xdata fresh.  [consume E f s tis] lets consumers with input types tis
   obtain their copy from promise f one after the other.
   The producer sets up the promise for its first local successor on a free repo entry; then ANY
   number of consumers with ANY input types, in any order, obtain exactly the documented copy, and
   all copies that existed before (the producer's included) are unchanged.  Holds for the code as it
   is (fx = false) and for the repaired variant.  This is the fan-out of the property restricted to
   consumers served by one promise: a single output dependency (possibly a range of successors), or
   several with the same [type] (next theorem). *)
Theorem C18_uniform_fanout : forall E fx s pk sk X rank to tis s1 cur s2 cs,
  (X < length (copies s))%nat -> repo_get s pk = None ->
  setup_local E fx s pk sk X rank None to = (s1, cur) ->
  consume E (length (futs s)) s1 tis = (s2, cs) -> Forall (fun c => c <> None) cs ->
  Forall2 (fun ti oc => exists c, oc = Some c /\
             documented E s2 X (length (copies s)) (cp_data (getc s X)) c (expected_local (cp_dtt (getc s X)) to ti)) tis cs
  /\ (forall i, (i < length (copies s))%nat -> getc s2 i = getc s i).
Proof. exact uniform_fanout. Qed.
Print Assumptions C18_uniform_fanout.

(* a further local successor reached through an output dependency with the same [type] is handed the
   same promise g (in its own repo entry or in the predecessor's): no new promise, no copy, no event *)
Theorem C18_same_type_same_promise : forall E fx s pk sk X rank to g,
  let d := cp_dtt (getc s X) in
  let t := if (to =? 0) || (to =? d) then d else to in
  repo_get s pk = Some g -> f_m0 (getf s g) = t -> f_m1 (getf s g) = t ->
  (t = d -> f_val (getf s g) = Some X) ->
  let '(s1, cur) := setup_local E fx s pk sk X rank (Some g) to in
  cur = Some g /\ copies s1 = copies s /\ futs s1 = futs s /\ evs s1 = evs s /\ err s1 = err s /\
  (repo_get s1 sk = Some g \/ repo s1 = repo (repo_set s pk g)).
Proof. exact setup_next_same. Qed.
Print Assumptions C18_same_type_same_promise.

(* ---- whole programs: the property as stated is false of the code ---- *)

(* FULL STATEMENT (not provable): for every well-formed program, every consumer whose producer
   declares [type = t] on the output dependency observes a copy whose elements of shape t are
   the producer's.  Refuted: in P_stale, C2 is fed through [type = UPPER_TILE] and receives the
   copy converted for C1 (type LOWER); 12 bytes of its upper triangle are not the producer's
   (they are whatever the arena returned).  Cause: the generated iterate_successors never resets
   data.data_future between output dependencies of different [type]. *)
Theorem C18_delivery_refuted :
  summary (P_stale false) lower3 upper3 =
  (0, [(O, 1); (3%nat, 2); (3%nat, 2)], [], [12; 13; 14; 15; 24; 25; 26; 27; 28; 29; 30; 31]).
Proof. exact stale_run. Qed.
Print Assumptions C18_delivery_refuted.

(* ... and a program with [type = LOWER_TILE] followed by [type = DEFAULT] does not complete: the
   unfulfilled promise is triggered with a NULL execution stream (error code 1 = SIGSEGV) *)
Theorem C18_completion_refuted : err (run (P_crash false)) = 1.
Proof. exact crash_run. Qed.
Print Assumptions C18_completion_refuted.

(* with the two repairs of notes/findings/C18-stale-promise.patch (model variant p_fixed = true)
   both programs deliver what the documentation promises *)
Theorem C18_repaired_witnesses :
  summary (P_stale true) lower3 upper3 = (0, [(O, 1); (3%nat, 2); (4%nat, 3)], [], []) /\
  summary (P_crash true) lower3 (shape_layout 4 3 1) = (0, [(O, 1); (3%nat, 2); (O, 1)], [], []).
Proof. exact (conj stale_run_fixed crash_run_fixed). Qed.
Print Assumptions C18_repaired_witnesses.

(* non-vacuity: the layouts of a 3 x 3 tile of 2-byte elements, a LOWER -> UPPER conversion into a
   fresh (0xEE) tile, and a state in which a promise exists and is fulfilled *)
Example C18_example :
  shape_layout 2 3 2 = [0; 1; 2; 3; 4; 5; 8; 9; 10; 11; 16; 17] /\
  shape_layout 2 3 5 = [6; 7; 12; 13; 14; 15] /\
  convert (shape_layout 2 3 2) (shape_layout 2 3 3) (zseq 1 18) (repeat 238 18)
    = [1; 2; 238; 238; 238; 238; 3; 4; 5; 6; 238; 238; 9; 10; 11; 12; 17; 18] /\
  (let E := mk_env 2 3 in
   let s0 := {| copies := [{| cp_dtt := 1; cp_rank := 0; cp_data := zseq 1 18 |}]; futs := []; repo := []; evs := []; err := 0 |} in
   let '(s1, cur) := setup_local E false s0 (0, 0, 0, 0, 0) (0, 1, 0, 0, 0) O 0 None 2 in
   let '(s2, c) := get_from_dep E s1 O 3 in
   cur = Some O /\ c = Some 1%nat /\ nconv s2 = 1%nat /\ f_nested (getf s2 O) = [1%nat] /\ f_val (getf s2 1) = Some 1%nat /\
   cp_data (getc s2 1) = [1; 2; 238; 238; 238; 238; 3; 4; 5; 6; 238; 238; 9; 10; 11; 12; 17; 18]).
Proof.
  vm_compute. repeat split; reflexivity.
Qed.
