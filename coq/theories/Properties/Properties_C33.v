(* C33 — The runtime read-write lock excludes correctly and makes progress.
   Statements only; proofs in RWLock/RWLock{Inv,Safety,Progress,Fair,Theorems}.v.
   Model: RWLock/RWLockDefs.v — atomic-step model of the implementation compiled in this build
   (parsec_rwlock.c, PARSEC_RWLOCK_IMPL_TICKET: phase-fair ticket lock, words rin/rout/win/wout
   as residues mod 2^32).  [reach a b progs sched] = the state reached from a quiescent lock that
   has served a read and b write cycles (a = b = 0 after parsec_atomic_rwlock_init) when
   [length progs] threads run the programs [progs] (arbitrary lists of KR = rdlock;..;rdunlock and
   KW = wrlock;..;wrunlock cycles) under the schedule [sched] (arbitrary list of thread ids).

   NO-OVERFLOW HYPOTHESIS of the bit layout: rin counts readers in its three high bytes, so the
   number of threads must stay below NB = 2^24 (with 2^24 readers in flight rin - rout wraps to 0 and
   a writer would walk in).  The total number of read/write cycles is NOT bounded: the counters wrap. *)
From PV Require Import Base.Tac Base.ListX RWLock.RWLockDefs RWLock.RWLockBase RWLock.RWLockInv
  RWLock.RWLockSafety RWLock.RWLockProgress RWLock.RWLockFair RWLock.RWLockWait RWLock.RWLockTheorems.
Local Open Scope Z_scope.

(* ---- safety ---- *)
(* never two writers inside, never a writer together with a reader (readers may share:
   see C33_example_readers_share).  is_wcs / is_rcs = the thread holds the lock, from the return of
   wrlock / rdlock to the first atomic operation of wrunlock / rdunlock. *)
Theorem C33_mutual_exclusion : forall a b progs sched, Z.of_nat (length progs) < NB ->
  let c := reach a b progs sched in
  cnt is_wcs (thrs c) <= 1 /\ (0 < cnt is_wcs (thrs c) -> cnt is_rcs (thrs c) = 0).
Proof. exact mutual_exclusion. Qed.
Print Assumptions C33_mutual_exclusion.

(* the same on the recorded enter/exit log (what the harness prints and the oracle checks):
   replaying the log never finds a writer entering while somebody is inside, nor a reader entering
   while a writer is inside, and the occupancy it computes is the number of threads inside *)
Theorem C33_log_exclusion : forall a b progs sched, Z.of_nat (length progs) < NB ->
  let c := reach a b progs sched in
  occ (log c) = Some (cnt is_rin (thrs c), cnt is_win (thrs c)).
Proof. exact log_excl. Qed.
Print Assumptions C33_log_exclusion.

(* the plain, non-atomic "L->wout = L->wout+1" never races: while a thread is about to execute
   it, no other thread is past the ticket wait *)
Theorem C33_wout_single_writer : forall a b progs sched t u th uh, Z.of_nat (length progs) < NB ->
  let c := reach a b progs sched in
  nth_error (thrs c) t = Some th -> t_pc th = PWy ->
  nth_error (thrs c) u = Some uh -> is_hold uh = true -> u = t.
Proof. exact wout_one_writer. Qed.
Print Assumptions C33_wout_single_writer.

(* when every thread has finished, the four words are what the cycle counts say (mod 2^32) *)
Theorem C33_quiescent_counters : forall a b progs sched, Z.of_nat (length progs) < NB ->
  let c := reach a b progs sched in
  all_done c = true ->
  rin c = wrap (RINC * (a + totalR progs)) /\ rout c = rin c /\
  win c = wrap (b + totalW progs) /\ wout c = win c.
Proof. exact quiescent. Qed.
Print Assumptions C33_quiescent_counters.

(* ---- progress ---- *)
(* [enabled c th] says exactly that a step of the thread changes the state (it is neither
   finished nor spinning on a condition that is false) *)
Theorem C33_enabled_meaning : forall c t th, nth_error (thrs c) t = Some th ->
  (enabled c th = false -> step c t = c) /\ (enabled c th = true -> mu (step c t) < mu c).
Proof. exact enabled_meaning. Qed.
Print Assumptions C33_enabled_meaning.

(* no reachable state is stuck *)
Theorem C33_deadlock_free : forall a b progs sched, Z.of_nat (length progs) < NB ->
  let c := reach a b progs sched in
  all_done c = true \/ exists t th, nth_error (thrs c) t = Some th /\ enabled c th = true.
Proof. exact no_deadlock. Qed.
Print Assumptions C33_deadlock_free.

(* a thread that can move can still move after any step of any other thread (a reader never
   misses its window: this is what the phase bit is for) *)
Theorem C33_enabled_stable : forall a b progs sched t u th, Z.of_nat (length progs) < NB ->
  let c := reach a b progs sched in
  nth_error (thrs c) t = Some th -> enabled c th = true -> u <> t ->
  nth_error (thrs (step c u)) t = Some th /\ enabled (step c u) th = true.
Proof. exact stable. Qed.
Print Assumptions C33_enabled_stable.

(* starvation freedom for finite programs: from any reachable state, any continuation made of
   rounds in which every thread is scheduled at least once (any order, any repetitions) completes
   every program after at most mu(initial state) rounds: every waiting thread acquires the lock *)
Theorem C33_fair_completion : forall a b progs sched rounds, Z.of_nat (length progs) < NB ->
  let c := reach a b progs sched in
  (forall s, In s rounds -> covers (length progs) s) ->
  mu (init_at a b progs) <= Z.of_nat (length rounds) ->
  all_done (run c (concat rounds)) = true.
Proof. exact fair_completion. Qed.
Print Assumptions C33_fair_completion.

(* ---- bounded bypass (phase fairness) ---- *)
(* while a reader keeps waiting in rdlock, at most ONE writer enters the critical section *)
Theorem C33_reader_bypass : forall a b progs sched s t w, Z.of_nat (length progs) < NB ->
  let c := reach a b progs sched in
  rd_waits t w c -> stays (rd_waits t w) c s ->
  wents (log (run c s)) <= wents (log c) + 1.
Proof. exact reader_overtaken_once. Qed.
Print Assumptions C33_reader_bypass.

(* while a writer waits with its bits in rin (second loop of wrlock): no writer enters; the
   readers that enter are exactly readers that were waiting on the PREVIOUS writer's bits (readers
   arriving later are held back), and they are at most the readers counted in its ticket *)
Theorem C33_writer_bypass : forall a b progs sched s t tk, Z.of_nat (length progs) < NB ->
  let c := reach a b progs sched in
  wr_waits t tk c -> stays (wr_waits t tk) c s ->
  wents (log (run c s)) = wents (log c) /\
  rents (log (run c s)) + cnt (is_erw (wout c)) (thrs (run c s)) =
    rents (log c) + cnt (is_erw (wout c)) (thrs c) /\
  256 * cnt (is_erw (wout c)) (thrs c) <= (tk - rout c) mod M32.
Proof. exact writer_overtaken_by_phase. Qed.
Print Assumptions C33_writer_bypass.

(* writers enter in ticket order: while a writer waits for wout (first loop of wrlock), at most
   as many writers enter as there are tickets before its own *)
Theorem C33_writer_fifo : forall a b progs sched s t tk, Z.of_nat (length progs) < NB ->
  let c := reach a b progs sched in
  ww_waits t tk c -> stays (ww_waits t tk) c s ->
  wents (log (run c s)) <= wents (log c) + ahead c tk /\
  ahead c tk <= (tk - wout c) mod M32 < cnt is_A (thrs c).
Proof. exact writers_fifo. Qed.
Print Assumptions C33_writer_fifo.

(* READERS overtaking a writer during its first loop.  The schedule-independent statement "a
   writer with k tickets before its own is overtaken by at most k+1 reader phases, each made only of
   readers already waiting when the phase began" is FALSE of the code: between the moment a writer's
   ticket is served and its fetch_add on rin (and between the fetch_and of the previous writer and
   that fetch_add) the low bits of rin are clear, and readers that arrive then enter at once, as many
   times as they like while that writer is not scheduled.  Witness: writer 0 stalled just before
   setting its bits, writer 1 queued behind it (k = 1), no reader present; reader 2 then completes
   9 read cycles: more than (k+1) * (number of threads) entries.  (Replayed on the real code by
   corpus/C33/phase.txt; it is the published algorithm's behaviour, not a safety or progress defect:
   the window is closed by at most 3 steps of the two writers involved.) *)
Theorem C33_writer_reader_phases_refuted :
  exists progs sched s t tk,
    Z.of_nat (length progs) < NB /\
    let c := reach 0 0 progs sched in
    ww_waits t tk c /\ stays (ww_waits t tk) c s /\
    (tk - wout c) mod M32 = 1 /\ cnt is_rfl (thrs c) = 0 /\
    rents (log (run c s)) > rents (log c) + ((tk - wout c) mod M32 + 1) * Z.of_nat (length progs).
Proof. exact reader_phase_bound_refuted_reach. Qed.
Print Assumptions C33_writer_reader_phases_refuted.

(* What the code does give (exact in k, linear in the number of threads): bounded WAITING under
   fair rounds.  A writer that holds a ticket with k = toff tickets before its own (first or second
   loop of wrlock) has entered the critical section after (3N+8)(k+1) rounds in each of which every
   thread is scheduled at least once - whatever the other threads run and however long their
   programs are: per ticket, the served writer needs 2 steps to set its bits, the readers counted in
   its ticket at most 3 steps each to leave, then 4 steps to enter, leave, clear its bits and pass
   the ticket on; readers arriving after the bits are set are held back (C33_writer_bypass). *)
Theorem C33_writer_bounded_wait : forall a b progs sched rounds t, Z.of_nat (length progs) < NB ->
  let c := reach a b progs sched in
  let N := Z.of_nat (length progs) in
  waitingW t c ->
  (forall s, In s rounds -> covers (length progs) s) ->
  (3 * N + 8) * (toff c t + 1) <= Z.of_nat (length rounds) ->
  ents t (log c) < ents t (log (run c (concat rounds))).
Proof. exact writer_bounded_wait. Qed.
Print Assumptions C33_writer_bounded_wait.

(* ---- non-vacuity ---- *)
Definition pcs (c : cfg) : list pc := map t_pc (thrs c).
(* readers share: two readers inside together *)
Example C33_example_readers_share :
  pcs (reach 0 0 [[KR]; [KR]] [0; 1; 0; 1]%nat) = [PRcs; PRcs].
Proof. vm_compute. reflexivity. Qed.
(* a writer arrives while a reader is inside (waits in PWr), a second reader arrives and is held
   back by the writer's bits (PRw 2); on the wrap-around of rin/rout and win/wout *)
Example C33_example_phases :
  let c := reach 16777215 4294967295 [[KR]; [KW]; [KR]] [0; 1; 2; 0; 1; 1; 2; 2]%nat in
  pcs c = [PRcs; PWr 0; PRw 3] /\ rin c = 259 /\ rout c = 4294967040 /\ win c = 0 /\
  Z.of_nat 3 < NB /\
  all_done (run c (concat (repeat [0; 1; 2]%nat 15))) = true /\
  rev (log (run c (concat (repeat [0; 1; 2]%nat 15)))) =
    [Enter 0%nat KR; Exit 0%nat KR; Enter 1%nat KW; Exit 1%nat KW; Enter 2%nat KR; Exit 2%nat KR].
Proof. vm_compute. repeat split; reflexivity. Qed.
(* the hypotheses of C33_writer_bounded_wait are met: writer 1 queued behind writer 0 (k = 1) *)
Example C33_example_queued_writer :
  let c := reach 0 0 [[KW]; [KW]; [KR; KR]] [0; 0; 1; 1; 2; 2]%nat in
  pcs c = [PW1 0; PWw 1; PRcs] /\ toff c 1%nat = 1 /\ rho c 1%nat = 32 /\
  ents 1%nat (log (run c (concat (repeat [2; 1; 0]%nat 17)))) = 1.
Proof. vm_compute. repeat split; reflexivity. Qed.
