(* C14 — The communication engine delivers every message exactly once and intact.
   Statements only; the model is CE/CEDefs.v, the proofs are CE/CE*Proofs.v.

   MPI is an assumption, made explicit by the abstract MPI of the model: per source FIFO channels,
   receives matched in the order they were started, completions reported by an oracle.  The oracle
   is unconstrained wherever the statement does not name a hypothesis: any interleaving of sends,
   matchings and MPI_Testsome calls, any subset reported, any window sizes.

   Level: partial.  Not proved (see the end of the file): eventual delivery, FIFO under in-order
   reports, the put/get handshake across two processes. *)
From Coq Require Import List Arith Bool ZArith Lia Permutation Sorted.
From PV Require Import Base.Tac CE.CEDefs CE.CEAmProofs CE.CEWinProofs CE.CELiveProofs CE.CEDynProofs CE.CETagProofs.
Import ListNotations.

(* ------------------------------------------------------------------ *)
(** Active messages: exactly once, with the bytes sent *)

(* at any time, every message handed to MPI_Send is in exactly one place: handed to the callback,
   matched with a posted receive and waiting for its callback, or still in flight *)
Theorem C14_am_conservation : forall P T nsrc evs,
  let st := arun (init_am P T nsrc) evs in
  Permutation (a_sent st) (a_deliv st ++ pending st ++ concat (a_chan st)).
Proof. exact am_conservation. Qed.
Print Assumptions C14_am_conservation.

(* what the callback receives — source, sequence number and the bytes it reads from the receive
   buffer — is a message that was sent, byte for byte *)
Theorem C14_am_exactly_once_intact : forall P T nsrc evs m,
  In m (a_deliv (arun (init_am P T nsrc) evs)) -> In m (a_sent (arun (init_am P T nsrc) evs)).
Proof. exact am_delivered_was_sent. Qed.
Print Assumptions C14_am_exactly_once_intact.

(* no message is handed to the callback twice *)
Theorem C14_am_no_duplicate : forall P T nsrc evs, NoDup (a_deliv (arun (init_am P T nsrc) evs)).
Proof. exact am_no_duplicate. Qed.
Print Assumptions C14_am_no_duplicate.

(* when nothing is in flight and no completed receive waits, every message has been delivered *)
Theorem C14_am_quiescent_all_delivered : forall P T nsrc evs,
  let st := arun (init_am P T nsrc) evs in
  pending st = [] -> concat (a_chan st) = [] -> Permutation (a_sent st) (a_deliv st).
Proof. exact am_quiescent. Qed.
Print Assumptions C14_am_quiescent_all_delivered.

(* Per-(source, tag) FIFO delivery does NOT hold for every MPI behaviour: posted 3, tested 2, two
   sources.  Source 1's message completes before source 0's and MPI_Testsome reports it first
   (slot 1, then slot 0) — no order is broken yet, the messages come from different processes.  The
   window is refilled in index order while the receives were restarted in completion order, so the
   tested window and MPI's matching order disagree from then on: source 0 then sends #1 #2 #3, every
   later Testsome reports everything that is complete in the window, and the callback sees #3 before #2. *)
Definition fifo_witness : list aev :=
  [ASend 0 [10]; ASend 1 [20]; AMatch 0; AMatch 1; AReport [1]; AReport [0];
   ASend 0 [11]; ASend 0 [12]; ASend 0 [13]; AMatch 0; AMatch 0; AMatch 0; AReport [0; 1]; AReport [0; 1]].
Theorem C14_am_fifo_refuted :
  exists P T nsrc evs, 1 <= T <= P /\ seqs_from 0 (a_deliv (arun (init_am P T nsrc) evs)) = [0; 1; 3; 2].
Proof. exists 3, 2, 2, fifo_witness. split; [lia|]. vm_compute. reflexivity. Qed.
Print Assumptions C14_am_fifo_refuted.

(* ------------------------------------------------------------------ *)
(** The tested window of a tag *)

(* packing + refilling: the surviving receives keep their order, the window is full again, it holds
   distinct receives of the pool (Wok: reqs_in_testsome is exactly the set of receives in the slots) *)
Theorem C14_window_conserved : forall w, Wok w ->
  Wok (refill_w w) /\ Wfull (refill_w w) /\ length (w_slots (refill_w w)) = length (w_slots w) /\
  w_P (refill_w w) = w_P w /\ w_tag (refill_w w) = w_tag w /\
  exists picks, somes (w_slots (refill_w w)) = somes (w_slots w) ++ picks.
Proof. exact refill_ok. Qed.
Print Assumptions C14_window_conserved.

(* every window of the engine is consistent and full between two progress passes, whatever
   MPI_Testsome reports and whatever the callbacks issue *)
Theorem C14_windows_invariant : forall tags P T D R l,
  1 <= T -> T <= P -> EWin (fold_left step l (init_eng tags P T D R)).
Proof.
  intros. apply fold_left_inv; [intros; now apply step_windows|now apply init_windows].
Qed.
Print Assumptions C14_windows_invariant.

(* one tag's window under any history of callbacks (WServe o: the receive in slot o is served and
   restarted, in any order — completions out of posting order included) and refills: no pool entry
   ever occupies two slots, for every posted/tested pair *)
Theorem C14_window_no_double : forall l w, Wok w -> NoDup (somes (w_slots (fold_left wstep l w))).
Proof.
  intros l w H.
  assert (Hok : Wok (fold_left wstep l w)) by (apply fold_left_inv; auto; intros; now apply wstep_ok).
  destruct Hok as (_ & _ & _ & Hnd & _). exact Hnd.
Qed.
Print Assumptions C14_window_no_double.

(* the rotation is fair: once req_count pool entries have been moved into the window (each served
   slot is refilled by one), every posted receive has been in the window at some point *)
Theorem C14_window_eventually : forall l w i,
  Wok w -> i < w_P w -> w_P w <= picks w l -> ever_in i w l.
Proof. exact window_eventually. Qed.
Print Assumptions C14_window_eventually.

(* ------------------------------------------------------------------ *)
(** The dynamic region and the pending FIFOs *)

(* for any report with ascending positions inside the active part of the array: every dynamic
   request ever issued (allids) is in exactly one of: a slot or a pending FIFO (dlive), or completed;
   the region has no hole after the compaction; and a free slot means nothing installable waits *)
Theorem C14_dynamic_conserved : forall e rep done,
  DInv e done -> Dfull e -> valid_report e rep ->
  let e' := progress_iter e rep in
  DInv e' (done ++ completed e rep) /\ Dfull e' /\ settled e'.
Proof. exact progress_iter_dyn. Qed.
Print Assumptions C14_dynamic_conserved.

Theorem C14_dynamic_run : forall tags P T D R l,
  let e0 := init_eng tags P T D R in
  valid_run e0 l ->
  Permutation (allids (fold_left step l e0)) (dlive (fold_left step l e0) ++ done_run e0 l) /\
  Dfull (fold_left step l e0) /\ length (e_dyn (fold_left step l e0)) <= D.
Proof.
  intros tags P T D R l e0 V. destruct (init_dyn tags P T D R) as [I F].
  destruct (run_dyn l e0 [] I F V) as [I' F']. cbn in I'.
  split; [apply (di_perm _ _ I')|split; [exact F'|]].
  pose proof (di_len _ _ I') as H.
  assert (HD : forall l e, e_D (fold_left step l e) = e_D e).
  { clear. induction l as [|[o|rep] l IH]; intro e; cbn [fold_left step]; auto; rewrite IH.
    - destruct o; cbn; unfold issue_send, issue_recv;
        [destruct (length (e_dyn e) <? e_D e)|destruct ((length (e_dyn e) <? e_D e) && (e_nrecv e <? e_R e))]; reflexivity.
    - unfold progress_iter.
      assert (HF : forall f e, e_D (feed f e) = e_D e).
      { clear. induction f as [|f IH]; intro e; cbn [feed]; auto.
        match goal with |- context[if ?c then _ else _] => destruct c end; auto.
        unfold push_posted. destruct (if e_nrecv e <? e_R e then e_recvq e else []).
        - destruct (e_sendq e); auto. rewrite IH. reflexivity.
        - rewrite IH. reflexivity. }
      rewrite HF. cbn.
      assert (HS : forall rep e, e_D (fold_left serve rep e) = e_D e).
      { clear. induction rep as [|[p ops] rep IH]; intro e; cbn [fold_left]; auto. rewrite IH.
        assert (HR : forall l e, e_D (run_ops e l) = e_D e).
        { clear. induction l as [|o l IH]; intro e; cbn; auto. unfold run_ops in IH. rewrite IH.
          destruct o; cbn; unfold issue_send, issue_recv;
            [destruct (length (e_dyn e) <? e_D e)|destruct ((length (e_dyn e) <? e_D e) && (e_nrecv e <? e_R e))]; reflexivity. }
        unfold serve. destruct (locate (e_ws e) p) as [[k o]|].
        - destruct (nth o (w_slots (nth k (e_ws e) dummy_w)) None); auto. cbn. apply HR.
        - destruct (nth (p - static_sz e) (e_dyn e) None) as [[b n]|]; auto. rewrite HR. reflexivity. }
      apply HS. }
  rewrite HD in H. exact H.
Qed.
Print Assumptions C14_dynamic_run.

(* the pending FIFOs are drained whenever a slot is free: after a progress pass, a free slot in the
   dynamic region implies that the send FIFO is empty and the receive FIFO is empty or blocked by
   the receive share *)
Theorem C14_pending_installed : forall e rep done,
  DInv e done -> Dfull e -> valid_report e rep ->
  let e' := progress_iter e rep in
  length (e_dyn e') < e_D e' -> e_sendq e' = [] /\ (e_recvq e' = [] \/ e_R e' <= e_nrecv e').
Proof. intros e rep done I F V. destruct (progress_iter_dyn e rep done I F V) as (_ & _ & S). exact S. Qed.
Print Assumptions C14_pending_installed.

(* ------------------------------------------------------------------ *)
(** Tags of the data messages *)
Local Open Scope Z_scope.

(* every tag range [t, t+k) handed out lies inside [0, MAX_MPI_TAG] *)
Theorem C14_next_tag_valid : forall MAX k n v,
  1 <= k <= MAX -> 0 <= v <= MAX -> Forall (fun t => 0 <= t /\ t + k <= MAX) (tags_from MAX k v n).
Proof. intros; now apply tags_valid. Qed.
Print Assumptions C14_next_tag_valid.

(* from the initial counter value 0, two allocations fewer than floor(MAX_MPI_TAG / k) apart get
   disjoint tag ranges: tags in flight are distinct unless more than the tag space allows are outstanding *)
Theorem C14_next_tag_distinct : forall MAX k n i j,
  1 <= k <= MAX -> (i < j < n)%nat -> Z.of_nat j - Z.of_nat i < MAX / k ->
  let ts := tags_from MAX k 0 n in
  nth i ts 0 + k <= nth j ts 0 \/ nth j ts 0 + k <= nth i ts 0.
Proof. exact tags_distinct. Qed.
Print Assumptions C14_next_tag_distinct.

Local Close Scope Z_scope.

(* Not proved.
   - Liveness beyond C14_window_eventually (which bounds the wait by req_count served slots): the
     oldest started receive is always in the window after a refill (argument in notes/findings/C14-fifo.md;
     explored exhaustively for posted <= 6 by /verif/notes/findings/C14-bfs.py), not formalised.
   - C14_am_fifo_inorder_partial (full statement): if every AReport names a prefix 0..n-1 of the
     window (MPI reports completions in the order the receives were started), then for every source s
     seqs_from s (a_deliv st) = seq 0 (length ...).  The invariant is
       map fst (a_posted st) = window ++ outside  and  the cyclic enumeration from w_ridx = outside ++ window.
   - put/get across two processes: a put/get moves exactly the registered bytes and both completion
     callbacks fire exactly once, given distinct tags.  Only the per-process bookkeeping above and the tag
     allocation are proved; the tag hypothesis is false when a get and a put move data in the same
     direction between two processes (finding getput-cross, replayed on the real code). *)

(* non-vacuity: an engine with two tags (posted 3, tested 2), two dynamic slots, receive share 1:
   a put and two gets are issued, MPI_Testsome reports the AM in slot 1 and the send in slot 4 *)
Example C14_example :
  let e0 := init_eng [0; 7] 3 2 2 1 in
  let e1 := run_ops e0 [OSend; ORecv; ORecv] in
  let rep := [(1, []); (4, [])] in
  EWin e0 /\ DInv e1 [] /\ Dfull e1 /\ valid_report e1 rep /\
  flat e1 = [Some (EAm 0 0); Some (EAm 0 1); Some (EAm 7 0); Some (EAm 7 1); Some (EDyn false 0); Some (EDyn true 0)] /\
  e_recvq e1 = [1] /\
  flat (progress_iter e1 rep) =
    [Some (EAm 0 0); Some (EAm 0 2); Some (EAm 7 0); Some (EAm 7 1); Some (EDyn true 0); Some (EDyn false 1)] /\
  completed e1 rep = [(false, 0)].
Proof.
  cbn zeta. split; [apply init_windows; lia|].
  destruct (init_dyn [0; 7] 3 2 2 1) as [I F].
  destruct (run_ops_inv [OSend; ORecv; ORecv] _ _ I) as [I1 X1].
  split; [exact I1|]. split; [eapply Dfull_ext; eauto|].
  split; [split; [repeat constructor|repeat constructor]|].
  vm_compute. repeat split.
Qed.
