(* C26 — Data copy ownership transfers keep one consistent newest version.
   Statements only; the model is Coherency/CoherencyDefs.v (parsec/data.c mirrored statement by
   statement), the vocabulary Coherency/CoherencySpec.v, the proofs Coherency/CoherencyProofs.v.

   Full statement (properties.jsonl): after any sequence of ownership transfers of a datum to device
   copies with read, write or read-write access (and version bumps by the owner), (a) at most one
   copy is the owner, (b) a transfer is requested exactly when the target copy is not up to date,
   (c) the copy named as transfer source holds the newest version, (d) a write access makes the
   target the owner.  Every theorem is for any number of device slots and histories of any length.

   (a), (c), (d) and the "only if" half of (b) are proved for all histories.  The "if" half of (b)
   is FALSE of the code: C26_transfer_iff_stale_refuted gives the history; it is proved
   (C26_transfer_iff_stale_partial) for the histories in which the owner device never makes a
   read-only access to its own copy. *)
From PV Require Import Base.Tac Coherency.CoherencyDefs Coherency.CoherencySpec Coherency.CoherencyProofs.
Local Open Scope Z_scope.

(* (a) for every history of the primitive operations (start, end, the locked start+end, and the
   callers' writes to version / readers / data_transfer_status) from a state satisfying the
   invariant: every OWNED copy sits on owner_device, and when there is an owner the other copies
   are INVALID or SHARED.  Contract: device numbers fit int8_t, and a write transfer is ended while
   its target is still owner_device (automatic for parsec_data_transfer_ownership_to_copy).  The
   assertions "2 writers" (case OWNED), "(int)i == valid_copy" and "EXCLUSIVE || SHARED" of start
   are consequences of this invariant (one_owner_no_tro, used by start_Inv12). *)
Theorem C26_one_owner : forall ops rs, Inv12 (dat rs) -> ok_along pre_owner rs ops ->
  Forall (fun sv => Inv12 (dat (fst sv))) (run rs ops).
Proof. exact run_Inv12. Qed.
Print Assumptions C26_one_owner.

Theorem C26_owned_unique : forall dt i j ci cj, one_owner dt ->
  getc (copies dt) i = Some ci -> cst ci = OWNED -> getc (copies dt) j = Some cj -> cst cj = OWNED -> i = j.
Proof. exact one_owner_unique. Qed.
Print Assumptions C26_owned_unique.

(* the contract of C26_one_owner is needed and is not an assertion of the code: two bracketed
   write transfers that overlap leave two OWNED copies while every assertion holds *)
Theorem C26_overlapping_writers_two_owned :
  let rs0 := mkrs (data_new 2) [] in
  dat (final rs0 overlap) = mkdata 1 [Some (mkcopy OWNED 0 0 0); Some (mkcopy OWNED 0 0 0)] /\
  start_asserts (data_new 2) 0 Wr = true /\
  start_asserts (dat (final rs0 [OStart 0 Wr])) 1 Wr = true /\
  end_asserts (dat (final rs0 [OStart 0 Wr; OStart 1 Wr])) 0 = true /\
  end_asserts (dat (final rs0 [OStart 0 Wr; OStart 1 Wr; OEnd 0 Wr])) 1 = true.
Proof. exact overlap_two_owners. Qed.
Print Assumptions C26_overlapping_writers_two_owned.

(* (d), one call, any state: start with the WRITE bit makes the target owner_device; every other
   copy keeps version, readers and status; unless the target already was the owner, every other
   non-INVALID copy becomes SHARED (none is invalidated) *)
Theorem C26_write_start_effect : forall dt d m c,
  getc (copies dt) d = Some c -> (d < 128)%nat -> mw m = true ->
  owner (fst (start dt d m)) = Z.of_nat d /\
  forall i x, i <> d -> getc (copies dt) i = Some x ->
    exists x', getc (copies (fst (start dt d m))) i = Some x' /\
      ver x' = ver x /\ rdr x' = rdr x /\ xfer x' = xfer x /\
      cst x' = if owner dt =? Z.of_nat d then cst x
               else if is_invalid (cst x) then INVALID else SHARED.
Proof. exact start_write_effect. Qed.
Print Assumptions C26_write_start_effect.

Theorem C26_write_transfer_owned : forall dt d m c,
  getc (copies dt) d = Some c -> (d < 128)%nat -> mw m = true ->
  owner (fst (transfer dt d m)) = Z.of_nat d /\
  exists c', getc (copies (fst (transfer dt d m))) d = Some c' /\ cst c' = OWNED.
Proof. exact transfer_write_owned. Qed.
Print Assumptions C26_write_transfer_owned.

(* a start without the WRITE bit (hypothesis = the assertion of case OWNED) keeps the owner and
   only turns EXCLUSIVE copies into SHARED *)
Theorem C26_read_start_effect : forall dt d m c,
  getc (copies dt) d = Some c -> mw m = false -> (owner dt <> Z.of_nat d -> cst c <> OWNED) ->
  owner (fst (start dt d m)) = owner dt /\
  forall i x, i <> d -> getc (copies dt) i = Some x ->
    exists x', getc (copies (fst (start dt d m))) i = Some x' /\
      ver x' = ver x /\ rdr x' = rdr x /\ xfer x' = xfer x /\
      cst x' = if negb (owner dt =? Z.of_nat d) && mr m && is_exclusive (cst x) then SHARED else cst x.
Proof. exact start_read_effect. Qed.
Print Assumptions C26_read_start_effect.

(* readers: exact count for every history, never negative when every release follows a pending
   read start on the same copy (int32_t overflow is not modelled: fewer than 2^31 pending readers) *)
Theorem C26_readers_exact : forall d ops rs c0, getc (copies (dat rs)) d = Some c0 ->
  exists c, getc (copies (dat (final rs ops))) d = Some c /\ rdr c = rdr c0 + net_reads d ops.
Proof. exact readers_exact. Qed.
Print Assumptions C26_readers_exact.

Theorem C26_readers_nonneg : forall d ops rs c0, getc (copies (dat rs)) d = Some c0 -> 0 <= rdr c0 ->
  balanced d (rdr c0) ops ->
  Forall (fun sv => exists c, getc (copies (dat (fst sv))) d = Some c /\ 0 <= rdr c) (run rs ops).
Proof. exact readers_nonneg. Qed.
Print Assumptions C26_readers_nonneg.

(* histories of accesses (device, mode) and extra bumps by the owner, from any state satisfying
   J (in particular both constructors of data.c); hypotheses: the assertions of start and end at
   each access, and no uint32_t overflow of the version *)
Theorem C26_access_invariant : forall ts dt b, J dt b -> b + Z.of_nat (length ts) < two32 ->
  tx_along tx_asserts dt ts -> J (tx_final dt ts) (b + Z.of_nat (length ts)).
Proof. exact tx_invariant. Qed.
Print Assumptions C26_access_invariant.

(* at every access of every history: (b, only if) a source is returned only for a read of a
   target that is not up to date; (c) the returned source holds the newest version; (d) a write
   leaves the target OWNED, owner_device, above every other valid version, the others INVALID or
   SHARED; (a) one owner *)
Theorem C26_access_clauses : forall ts dt b, J dt b -> b + Z.of_nat (length ts) < two32 ->
  tx_along tx_asserts dt ts -> tx_all step_clauses dt ts.
Proof. exact tx_clauses. Qed.
Print Assumptions C26_access_clauses.

(* (b, if) PARTIAL: a read of a target that is not up to date is answered with a source, for the
   histories in which the owner device makes no read-only access to its own copy.
   Full statement (false, see below): the same without [tx_along no_owner_readonly]. *)
Theorem C26_transfer_iff_stale_partial : forall ts dt b, J dt b -> owner_owned dt ->
  b + Z.of_nat (length ts) < two32 -> tx_along tx_asserts dt ts -> tx_along no_owner_readonly dt ts ->
  tx_all transfer_if_stale dt ts.
Proof. exact tx_complete_partial. Qed.
Print Assumptions C26_transfer_iff_stale_partial.

(* the full (b, if) is false of the code: from parsec_data_create's state, a write on device 1,
   a read on device 1 (end_transfer turns the OWNED copy SHARED while it remains owner_device),
   then a read on device 0, whose SHARED copy has the old version: no transfer is requested *)
Theorem C26_transfer_iff_stale_refuted :
  exists dt ts b, J dt b /\ owner_owned dt /\ b + Z.of_nat (length ts) < two32 /\
    tx_along tx_asserts dt ts /\ ~ tx_all transfer_if_stale dt ts.
Proof. exact transfer_iff_stale_refuted. Qed.
Print Assumptions C26_transfer_iff_stale_refuted.

Theorem C26_refuting_history :
  let dt2 := tx_final (data_create 2) [Acc 1 Wr; Acc 1 Rd] in
  dt2 = mkdata 1 [Some (mkcopy SHARED 0 0 0); Some (mkcopy SHARED 1 1 0)] /\
  snd (tx_step dt2 (Acc 0 Rd)) = -1 /\ ~ uptodate dt2 0.
Proof. exact witness_stale. Qed.
Print Assumptions C26_refuting_history.

(* the two orders in which callers complete a transfer give the same state *)
Theorem C26_access_atomic_eq : forall dt d m, access_atomic dt d m = access dt d m.
Proof. exact access_atomic_eq. Qed.
Print Assumptions C26_access_atomic_eq.

(* the states built by parsec_data_new + parsec_data_copy_new, and by parsec_data_create *)
Theorem C26_constructors : forall n, (1 <= n <= 128)%nat ->
  J (data_new n) 0 /\ J (data_create n) 0 /\ owner_owned (data_create n).
Proof. exact constructors_J. Qed.
Print Assumptions C26_constructors.

(* non-vacuity: three devices, created on device 0; device 1 reads (source 0), device 2 reads and
   writes (source 0, becomes owner with version 1), device 1 reads again (source 2, version 1);
   the assertions hold all along *)
Example C26_example :
  let ts := [Acc 1 Rd; Acc 2 RW; Acc 1 Rd] in
  map snd (tx_run (data_create 3) ts) = [0; 0; 2] /\
  tx_final (data_create 3) ts =
    mkdata 2 [Some (mkcopy SHARED 0 0 0); Some (mkcopy SHARED 1 2 0); Some (mkcopy OWNED 1 1 0)] /\
  tx_along tx_asserts (data_create 3) ts /\ tx_along no_owner_readonly (data_create 3) ts.
Proof. vm_compute. repeat split; intros (? & ? & ?); discriminate. Qed.
