(* C38 — Runtime (MCA) parameters resolve by documented precedence.
   Statements only; the model is MCA/MCADefs.v, the proofs are in MCA/MCAProofs.v
   (per-state facts, join law) and MCA/MCAHistProofs.v (facts about histories). *)
From PV Require Import Base.Tac MCA.MCADefs MCA.MCAProofs MCA.MCAHistProofs.
From Coq Require Import Ascii.
Local Open Scope Z_scope.

(* ---- precedence: in EVERY state (hence after every history of registrations, synonyms,
   set/unset, environment changes, command lines, file re-reads and lookups), the result of a
   lookup is the first source that has a value, in the order
     override ; environment (real name, then the synonyms in registration order) ;
     file (value cached on the parameter, else first entry of the file-value list whose name is
           the real name or any synonym) ; default
   and a read-only parameter yields its default.  [sources] lists them in that order. *)
Theorem C38_lookup_precedence : forall st idx p,
  get_param (st_params st) idx = Some p ->
  snd (param_lookup st idx) =
    if p_ro p then LFound (p_default p) SDefault None
    else found (first_some (fun x => x) (sources st p)).
Proof. exact lookup_precedence. Qed.
Print Assumptions C38_lookup_precedence.

(* ---- lookups are stable: repeating a lookup returns the same value and leaves the state
   (file-value cache included) as the first one left it *)
Theorem C38_lookup_stable : forall st idx st' r,
  param_lookup st idx = (st', r) -> param_lookup st' idx = (st', r).
Proof. exact lookup_stable. Qed.
Print Assumptions C38_lookup_stable.

Theorem C38_lookup_twice : forall st idx,
  snd (param_lookup (fst (param_lookup st idx)) idx) = snd (param_lookup st idx).
Proof. exact lookup_twice. Qed.
Print Assumptions C38_lookup_twice.

(* ---- one parameter does not affect another *)
Theorem C38_set_other : forall st idx v j, 0 <= idx -> 0 <= j -> idx <> j ->
  snd (param_lookup (fst (set_value st idx v)) j) = snd (param_lookup st j).
Proof. exact set_other. Qed.
Print Assumptions C38_set_other.

Theorem C38_unset_other : forall st idx j, 0 <= idx -> 0 <= j -> idx <> j ->
  snd (param_lookup (fst (unset st idx)) j) = snd (param_lookup st j).
Proof. exact unset_other. Qed.
Print Assumptions C38_unset_other.

(* a lookup caches a file value on its parameter and removes the entry from the list: invisible
   to every parameter that shares no name with it *)
Theorem C38_lookup_other : forall st i j pi pj,
  get_param (st_params st) i = Some pi -> get_param (st_params st) j = Some pj -> i <> j ->
  pdisj pi pj ->
  snd (param_lookup (fst (param_lookup st i)) j) = snd (param_lookup st j).
Proof. exact lookup_other. Qed.
Print Assumptions C38_lookup_other.

Theorem C38_setenv_other : forall st idx p n v,
  get_param (st_params st) idx = Some p -> matches p n = false ->
  snd (param_lookup (mkState (st_params st) (st_files st) (env_set (st_env st) n v)) idx)
  = snd (param_lookup st idx).
Proof. exact setenv_other. Qed.
Print Assumptions C38_setenv_other.

(* ---- the override *)
Theorem C38_set_then_lookup : forall st idx p v,
  get_param (st_params st) idx = Some p -> type_of v = p_type p ->
  snd (param_lookup (fst (set_value st idx v)) idx) =
    if p_ro p then LFound (p_default p) SDefault None else LFound v SOverride None.
Proof. exact set_then_lookup. Qed.
Print Assumptions C38_set_then_lookup.

(* ---- synonyms resolve to the same storage *)
Theorem C38_env_by_any_name : forall st idx p before n after s,
  get_param (st_params st) idx = Some p ->
  p_ro p = false -> p_over p = None ->
  names p = before ++ n :: after ->
  (forall m, In m before -> env_get (st_env st) m = None) ->
  env_get (st_env st) n = Some s ->
  snd (param_lookup st idx) = LFound (conv (p_type p) (Some s)) SEnv None.
Proof. exact env_by_any_name. Qed.
Print Assumptions C38_env_by_any_name.

Theorem C38_file_by_any_name : forall st idx p fe,
  get_param (st_params st) idx = Some p ->
  p_ro p = false -> p_over p = None -> p_file p = None ->
  first_some (env_get (st_env st)) (names p) = None ->
  find (fun fe => matches p (f_name fe)) (st_files st) = Some fe ->
  snd (param_lookup st idx) = LFound (conv (p_type p) (f_val fe)) SFile (Some (f_file fe)).
Proof. exact file_by_any_name. Qed.
Print Assumptions C38_file_by_any_name.

Theorem C38_reg_syn_names : forall st idx p tn pn,
  get_param (st_params st) idx = Some p ->
  exists p', get_param (st_params (fst (reg_syn st idx tn pn))) idx = Some p' /\
             names p' = names p ++ [full_name tn pn] /\
             p_type p' = p_type p /\ p_ro p' = p_ro p /\ p_over p' = p_over p /\
             p_file p' = p_file p /\ p_default p' = p_default p /\
             snd (reg_syn st idx tn pn) = 0.
Proof. exact reg_syn_names. Qed.
Print Assumptions C38_reg_syn_names.

(* ---- read-only parameters ignore override, environment and files *)
Theorem C38_read_only : forall st idx p,
  get_param (st_params st) idx = Some p -> p_ro p = true ->
  snd (param_lookup st idx) = LFound (p_default p) SDefault None.
Proof. exact read_only_default. Qed.
Print Assumptions C38_read_only.

(* ---- unknown parameters report not-found *)
Theorem C38_out_of_range : forall st idx,
  idx < 0 \/ Z.of_nat (length (st_params st)) <= idx -> snd (param_lookup st idx) = LNotFound.
Proof. exact lookup_out_of_range. Qed.
Print Assumptions C38_out_of_range.

Theorem C38_find_unknown : forall st tn pn,
  (forall p, In p (st_params st) -> ostr_eqb tn (p_tname p) && ostr_eqb pn (p_pname p) = false) ->
  mca_find st tn pn = -1 /\ snd (param_lookup st (mca_find st tn pn)) = LNotFound.
Proof. exact find_unknown. Qed.
Print Assumptions C38_find_unknown.

(* ---- the command line: every --mca name gets the comma-joined list of its values, in
   command-line order; --mca takes precedence over --gmca; other variables are untouched *)
Theorem C38_cmdline_join : forall args e n,
  env_get (process_cmdline args e) n =
    match vals n (mca_args args) with
    | (_ :: _) as vs => Some (join vs)
    | [] => match vals n (gmca_args args) with
            | (_ :: _) as vs => Some (join vs)
            | [] => env_get e n
            end
    end.
Proof. exact cmdline_env. Qed.
Print Assumptions C38_cmdline_join.

(* variables are identified by their exact name: setting name n (setenv, or one --mca/--gmca pair
   through add_to_env / parsec_setenv) rebinds n and no other name — in particular no name that has
   n as a prefix and no prefix of n *)
Theorem C38_setenv_exact_name : forall e n v m,
  env_get (env_set e n v) m = if str_eqb m n then Some v else env_get e m.
Proof. exact env_get_set. Qed.
Print Assumptions C38_setenv_exact_name.

Theorem C38_add_to_env_other : forall kvs e n,
  ~ In n (map fst kvs) -> env_get (add_to_env kvs e) n = env_get e n.
Proof. exact add_to_env_other. Qed.
Print Assumptions C38_add_to_env_other.

Theorem C38_cmdline_other : forall args e n,
  (forall a, In a args -> fst (snd a) <> n) -> env_get (process_cmdline args e) n = env_get e n.
Proof. exact cmdline_other. Qed.
Print Assumptions C38_cmdline_other.

(* ---- the file stage after any history without a re-read of the files, in a table where no
   two parameters share a name: an uncached parameter sees the list read at initialisation *)
Theorem C38_file_history_uncached : forall env files ops idx p,
  no_recache ops = true -> disjoint (run (init env files) ops) ->
  get_param (st_params (run (init env files) ops)) idx = Some p -> p_file p = None ->
  file_src (run (init env files) ops) p =
    match find (fun fe => matches p (f_name fe)) (read_files [] files) with
    | Some fe => Some (conv (p_type p) (f_val fe), f_file fe)
    | None => None
    end.
Proof. exact history_uncached. Qed.
Print Assumptions C38_file_history_uncached.

(* a cached value is the first entry of that list under one of the names the parameter had
   when the value was cached (the real name and the first k-1 synonyms) *)
Theorem C38_file_history_cached : forall env files ops idx p v fi,
  no_recache ops = true -> disjoint (run (init env files) ops) ->
  get_param (st_params (run (init env files) ops)) idx = Some p -> p_file p = Some (v, fi) ->
  exists k fe, (k <= length (names p))%nat /\
    find (fun fe => existsb (str_eqb (f_name fe)) (firstn k (names p))) (read_files [] files) = Some fe /\
    v = conv (p_type p) (f_val fe) /\ fi = f_file fe.
Proof. exact history_cached. Qed.
Print Assumptions C38_file_history_cached.

Theorem C38_file_history_no_synonyms : forall env files ops idx p,
  no_recache ops = true -> disjoint (run (init env files) ops) ->
  get_param (st_params (run (init env files) ops)) idx = Some p -> p_syns p = [] ->
  file_src (run (init env files) ops) p =
    match find (fun fe => str_eqb (f_name fe) (p_full p)) (read_files [] files) with
    | Some fe => Some (conv (p_type p) (f_val fe), f_file fe)
    | None => None
    end.
Proof. exact history_no_synonyms. Qed.
Print Assumptions C38_file_history_no_synonyms.

(* the value that list holds for a name: the leftmost file of the path list that sets the name,
   and in it the last line that does *)
Theorem C38_file_list_precedence : forall files m,
  fl_get (read_files [] files) m = first_file m O files.
Proof. exact read_files_get. Qed.
Print Assumptions C38_file_list_precedence.

(* ---- non-vacuity ---------------------------------------------------------------------------- *)


(* parameter t_a (int, default 3) with synonym o_a: file 0 says t_a = 5, file 1 says t_a = 6 and o_a = 9;
   the environment sets o_a to 7; then an override 8; then unset; then the synonym's variable goes away *)
Example C38_example :
  let st0 := init [(["o"; "_"; "a"]%char, ["7"]%char)] [[(["t"; "_"; "a"]%char, Some ["5"]%char)]; [(["t"; "_"; "a"]%char, Some ["6"]%char); (["o"; "_"; "a"]%char, Some ["9"]%char)]] in
  let st1 := run st0 [OReg TInt (Some ["t"]%char) (Some ["a"]%char) false false (VInt 3) true; OSyn 1 (Some ["o"]%char) (Some ["a"]%char)] in
  let st2 := run st1 [OSet 1 (VInt 8)] in
  let st3 := run st2 [OUnset 1] in
  let st4 := run st3 [OUnsetenv ["o"; "_"; "a"]%char] in
  disjoint st4 /\
  snd (param_lookup st1 1) = LFound (VInt 7) SEnv None /\
  snd (param_lookup st2 1) = LFound (VInt 8) SOverride None /\
  snd (param_lookup st3 1) = LFound (VInt 7) SEnv None /\
  snd (param_lookup st4 1) = LFound (VInt 5) SFile (Some 0%nat) /\
  snd (param_lookup st4 2) = LNotFound /\
  env_get (process_cmdline [(false, (["a"]%char, ["x"]%char)); (true, (["a"]%char, ["g"]%char)); (false, (["a"]%char, ["y"]%char))] []) ["a"]%char
    = Some ["x"; ","; "y"]%char.
Proof.
  split.
  - apply disjointb_ok. vm_compute. reflexivity.
  - vm_compute. repeat split.
Qed.

(* names in prefix relation on one command line, longer name first and shorter name first:
   every name keeps its own value *)
Example C38_prefix_names :
  let fb := ["f"; "o"; "o"; "_"; "b"; "a"; "r"]%char in
  let f := ["f"; "o"; "o"]%char in
  let e1 := process_cmdline [(false, (fb, ["1"]%char)); (false, (f, ["2"]%char))] [] in
  let e2 := process_cmdline [(false, (f, ["2"]%char)); (false, (fb, ["1"]%char)); (false, (f, ["3"]%char))] [] in
  env_get e1 fb = Some ["1"]%char /\ env_get e1 f = Some ["2"]%char /\
  env_get e2 fb = Some ["1"]%char /\ env_get e2 f = Some ["2"; ","; "3"]%char.
Proof. vm_compute. repeat split. Qed.

(* two parameters that share a name (a synonym of the second is the real name of the first): which of
   them gets the file value depends on who is looked up first — the reason for [pdisj] / [disjoint] *)
Example C38_shared_name_order_dependence :
  let st0 := init [] [[(["t"; "_"; "a"]%char, Some ["5"]%char)]] in
  let st1 := run st0 [OReg TString (Some ["t"]%char) (Some ["a"]%char) false false (VStr None) false;
                      OReg TString (Some ["t"]%char) (Some ["b"]%char) false false (VStr None) false;
                      OSyn 2 (Some ["t"]%char) (Some ["a"]%char)] in
  snd (param_lookup st1 2) = LFound (VStr (Some ["5"]%char)) SFile (Some 0%nat) /\
  snd (param_lookup (fst (param_lookup st1 1)) 2) = LFound (VStr None) SDefault None.
Proof. vm_compute. split; reflexivity. Qed.
