(* C15 — Composed taskpools run strictly one after another.
   Statements only; the proofs are in Compound/CompoundRefine.v (the model of compound.c
   follows a three-number abstract machine on every event) and Compound/CompoundProofs.v.

   [run pre sizes evs] is the state of the model of parsec/compound.c (CompoundDefs.v)
   after ANY list of events [evs] (add the compound, run / release a startup task,
   begin / end a task: an event that is not enabled changes nothing, so every
   interleaving of any number of threads is such a list) on a compound of
   [length sizes] >= 1 member taskpools with [nth k sizes 0] tasks each.  [log] is the
   history, most recent entry first:  log = l2 ++ e :: l1  says that e happened
   after everything in l1.  [pre] = false is the code as it is, true the repaired
   constructor (see Compound/CompoundCode.v).

   Full statement of the property: no task of a later member starts before every task
   of the earlier ones completed (C15_sequential, both versions); the compound
   completes exactly once (C15_nothing_twice, C15_all_exactly_once) after the last
   member: proved for the repaired constructor (C15_compound_after_last_fixed) and
   REFUTED for the code as it is (C15_compound_completion_refuted,
   C15_code_compound_reported_at_add: the report is the first thing that happens). *)
From PV Require Import Base.Tac Compound.CompoundDefs Compound.CompoundAbs Compound.CompoundProofs Compound.CompoundBare Compound.CompoundTree.
Local Open Scope nat_scope.

Lemma nonempty_len (sizes : list nat) : sizes <> [] -> 0 < length sizes.
Proof. destruct sizes; [congruence|cbn; lia]. Qed.

(* a task of member k starts only after member k was handed to the context and EVERY
   task of EVERY earlier member ended; any n, any sizes, any schedule, both constructors *)
Theorem C15_sequential : forall pre sizes evs l1 l2 k i, sizes <> [] ->
  log (run pre sizes evs) = l2 ++ LBegin k i :: l1 ->
  In (LEnq k) l1 /\
  forall k' i', k' < k -> i' < nth k' sizes 0 -> In (LEnd k' i') l1.
Proof. intros pre sizes evs l1 l2 k i H. exact (P_sequential pre sizes (nonempty_len _ H) evs l1 l2 k i). Qed.
Print Assumptions C15_sequential.

(* member k is enabled (parsec_context_add_taskpool) only after every task of every
   earlier member ended *)
Theorem C15_enabled_after_previous : forall pre sizes evs l1 l2 k, sizes <> [] ->
  log (run pre sizes evs) = l2 ++ LEnq k :: l1 ->
  forall k' i', k' < k -> i' < nth k' sizes 0 -> In (LEnd k' i') l1.
Proof. intros pre sizes evs l1 l2 k H. exact (P_enqueue_after pre sizes (nonempty_len _ H) evs l1 l2 k). Qed.
Print Assumptions C15_enabled_after_previous.

(* a member's completion callback (which enables the next member) runs after all its tasks *)
Theorem C15_member_callback_after_its_tasks : forall pre sizes evs l1 l2 k, sizes <> [] ->
  log (run pre sizes evs) = l2 ++ LPoolCb k :: l1 ->
  In (LEnq k) l1 /\ forall i, i < nth k sizes 0 -> In (LEnd k i) l1.
Proof. intros pre sizes evs l1 l2 k H. exact (P_poolcb_after pre sizes (nonempty_len _ H) evs l1 l2 k). Qed.
Print Assumptions C15_member_callback_after_its_tasks.

(* nothing happens twice: no task begins or ends twice, no member is enabled twice, no
   member callback runs twice, the compound is not reported twice *)
Theorem C15_nothing_twice : forall pre sizes evs x, sizes <> [] ->
  lcount x (log (run pre sizes evs)) <= 1.
Proof. intros pre sizes evs x H. exact (P_at_most_once pre sizes (nonempty_len _ H) evs x). Qed.
Print Assumptions C15_nothing_twice.

(* once the last member's callback has run everything happened exactly once *)
Theorem C15_all_exactly_once : forall pre sizes evs, sizes <> [] ->
  c_done (run pre sizes evs) = length sizes ->
  let lg := log (run pre sizes evs) in
  lcount LCompound lg = 1 /\
  (forall k, k < length sizes -> lcount (LEnq k) lg = 1 /\ lcount (LPoolCb k) lg = 1 /\
     (forall i, i < nth k sizes 0 -> lcount (LBegin k i) lg = 1 /\ lcount (LEnd k i) lg = 1)).
Proof. intros pre sizes evs H. exact (P_complete pre sizes (nonempty_len _ H) evs). Qed.
Print Assumptions C15_all_exactly_once.

(* and that point is always reached: a run that is not complete has an event that makes
   progress, every event either changes nothing or increases the progress measure [pm]
   (4 x length of the history + startup stage of the current member + 1 once added) *)
Theorem C15_no_stuck : forall pre sizes evs, sizes <> [] ->
  let s := run pre sizes evs in
  c_done s = length sizes \/ exists e, pm s < pm (step s e).
Proof. intros pre sizes evs H. exact (P_progress pre sizes (nonempty_len _ H) evs). Qed.
Print Assumptions C15_no_stuck.

Theorem C15_steps_monotone : forall pre sizes evs e, sizes <> [] ->
  let s := run pre sizes evs in step s e = s \/ pm s < pm (step s e).
Proof. intros pre sizes evs e H. exact (P_step_monotone pre sizes (nonempty_len _ H) evs e). Qed.
Print Assumptions C15_steps_monotone.

(* the context's counter: once the compound was added, active_taskpools is never negative
   at an event boundary and is 0 exactly when the last member completed *)
Theorem C15_active_taskpools : forall pre sizes evs, sizes <> [] ->
  c_added (run pre sizes evs) = true ->
  (active (run pre sizes evs) = 0%Z <-> c_done (run pre sizes evs) = length sizes) /\
  (0 <= active (run pre sizes evs))%Z.
Proof. intros pre sizes evs H. exact (P_active pre sizes (nonempty_len _ H) evs). Qed.
Print Assumptions C15_active_taskpools.

(* REPAIRED constructor: the compound is reported terminated (its completion callback runs,
   parsec_taskpool_wait(compound) may return) only after every member was enabled, ran
   all its tasks and completed; and it is reported exactly when the last one completed *)
Theorem C15_compound_after_last_fixed : forall sizes evs l1 l2, sizes <> [] ->
  log (run true sizes evs) = l2 ++ LCompound :: l1 ->
  forall k, k < length sizes ->
    In (LEnq k) l1 /\ In (LPoolCb k) l1 /\ forall i, i < nth k sizes 0 -> In (LEnd k i) l1.
Proof. intros sizes evs l1 l2 H. exact (P_compound_after_all true sizes (nonempty_len _ H) evs l1 l2 eq_refl). Qed.
Print Assumptions C15_compound_after_last_fixed.

Theorem C15_compound_exactly_at_end_fixed : forall sizes evs, sizes <> [] ->
  c_added (run true sizes evs) = true ->
  (lcount LCompound (log (run true sizes evs)) = 1 <-> c_done (run true sizes evs) = length sizes) /\
  (lcount LCompound (log (run true sizes evs)) = 0 <-> c_done (run true sizes evs) < length sizes).
Proof. intros sizes evs H. exact (P_compound_iff_done true sizes (nonempty_len _ H) evs eq_refl). Qed.
Print Assumptions C15_compound_exactly_at_end_fixed.

(* THE CODE AS IT IS: as soon as the compound is added its termination has been reported,
   before anything else: the report is the oldest entry of the history, for every
   composition and every schedule *)
Theorem C15_code_compound_reported_at_add : forall sizes evs, sizes <> [] ->
  c_added (run false sizes evs) = true ->
  exists l, log (run false sizes evs) = l ++ [LCompound].
Proof. intros sizes evs H. exact (P_compound_at_add false sizes (nonempty_len _ H) evs eq_refl). Qed.
Print Assumptions C15_code_compound_reported_at_add.

(* hence the full statement is false of the code as it is: two members of one task, the
   compound is reported before the first task begins (replayed on the real library by
   checks/C15.py: signature compound-completes-at-add) *)
Theorem C15_compound_completion_refuted :
  exists sizes evs l1 l2, sizes <> [] /\
    log (run false sizes evs) = l2 ++ LCompound :: l1 /\
    ~ (forall k, k < length sizes -> forall i, i < nth k sizes 0 -> In (LEnd k i) l1).
Proof.
  exists [1; 1], [EAdd; EStartup 0; EBegin 0 0; EEnd 0 0], [],
         [LEnd 0 0; LBegin 0 0; LEnq 0].
  split; [discriminate|]. split; [vm_compute; reflexivity|].
  intros H. exact (H 0 (Nat.lt_0_succ _) 0 (Nat.lt_0_succ _)).
Qed.
Print Assumptions C15_compound_completion_refuted.

(* Members with no local work at all (a bare parsec_taskpool_t: no detector of its own, no
   startup hook, no pending action) terminate INSIDE parsec_context_add_taskpool, which runs
   parsec_composed_taskpool_cb re-entrantly.  The executable model that is run against the code
   (CompoundDefs.stepB / runB: members are [Some size] or [None] = bare) mirrors that recursion;
   it is the model of the theorems above whenever no member is bare.  The theorems do NOT
   quantify over compositions with bare members: those are tied to the code by the differential
   run and the oracle only (checks/C15.py, corpus/C15).
   EXACTLY WHAT REMAINS for bare members (nothing is assumed, it is simply not proved):
     (a) the chain lemma: on a state whose members >= k are untouched, [add_member bare fuel k]
         (fuel >= number of members) processes the maximal run k .. d'-1 of bare members — each
         gets cb = 1, enq = 1, TERMINATED, completed_taskpools and the compound's pending actions
         move by d'-k, the log grows by LPoolCb k .. LPoolCb (d'-1), then LEnq d' (or LCompound when
         d' is past the end, repaired constructor), then LEnq (d'-1) .. LEnq k — by induction on fuel;
     (b) CompoundAbs.advance / conc generalised to skip such runs (finished and untouched pool
         records depend on the member kind), CompoundRefine.step_conc re-proved with (a) in
         detected_advance and step_add;
     (c) CompoundProofs.advance_inv by induction over the run, with entry_ok weakened where a bare
         member's on_enqueue comes late: the clause In (LEnq k) of C15_member_callback_after_its_tasks
         and of C15_compound_after_last_fixed holds for non-bare k only.
   Statements expected unchanged: C15_sequential, C15_enabled_after_previous, C15_nothing_twice,
   C15_all_exactly_once, C15_no_stuck, C15_steps_monotone, C15_active_taskpools. *)
Theorem C15_model_with_bare_members_conservative : forall pre sizes evs,
  runB pre (map Some sizes) evs = run pre sizes evs.
Proof. exact runB_no_bare. Qed.
Print Assumptions C15_model_with_bare_members_conservative.

(* A ; E ; B with E bare (the composition of seeded/C15a): adding the compound runs nothing of B
   before A ended; when A's last task ends, E completes inside the callback of A and B is enabled
   by the callback of E; everything exactly once, the compound last *)
Example C15_example_bare_member :
  let ms := [Some 1; None; Some 1] in
  let s := runB true ms [EAdd; EStartup 0; EBegin 0 0; EStartupDone 0; EEnd 0 0; EStartup 2; EStartupDone 2; EBegin 2 0; EEnd 2 0] in
  c_done s = 3 /\ enqs s = [1; 1; 1] /\ ran s = [1; 0; 1] /\ c_cb s = 1 /\ active s = 0%Z /\
  seq_okB (bare_of ms) s = true /\ compound_lastB (bare_of ms) s = true /\
  rev (log s) = [LEnq 0; LBegin 0 0; LEnd 0 0; LPoolCb 0; LPoolCb 1; LEnq 2; LEnq 1; LBegin 2 0; LEnd 2 0; LPoolCb 2; LCompound].
Proof. vm_compute. repeat split. Qed.

(* NESTED compositions: an element of a compound may itself be a compound ([A,[B,C],D] =
   parsec_compose(parsec_compose(A, parsec_compose(B, C)), D)).  CompoundTree.v gives them an
   executable model (every compound node has its own detector, pending actions and
   completed_taskpools; parsec_composed_taskpool_cb runs with the enclosing compound as cbdata, up
   through every ancestor that finishes with this element; adding a nested compound runs its
   startup hook down to its first leaf).  The members are the leaves in order ([flatten]).
   PROVED: nothing general about trees.  The statement wanted — the history (enqueues, begins, ends,
   member callbacks, completion of the OUTER compound) of a nested composition under any event list
   equals that of the list semantics of its flattening under the same event list, so that all the
   theorems above transfer — is only CHECKED: exhaustively over all interleavings for the small
   trees below ([nested_equals_flat_everywhere] follows every effective event from every reachable
   pair of states), by ocaml/d_compound.ml on every generated nested case, and against the real
   library by the differential run.  What a proof needs: the tree model refines the same abstract
   machine (CompoundAbs) over [flatten t], with an advance lemma by induction on the path from the
   finished leaf up to the first ancestor that has an element left and down to that element's
   first leaf. *)
Example C15_nested_equals_flat_A_BC_D :
  nested_equals_flat_everywhere (CNode [CLeaf (Some 1); CNode [CLeaf (Some 1); CLeaf (Some 1)]; CLeaf (Some 1)]) = true.
Proof. vm_compute. reflexivity. Qed.
Example C15_nested_equals_flat_depth3_with_bare :
  nested_equals_flat_everywhere
    (CNode [CLeaf None; CLeaf (Some 1); CNode [CLeaf (Some 2); CNode [CLeaf (Some 1); CLeaf (Some 0)]]; CNode [CLeaf (Some 1); CLeaf None]]) = true.
Proof. vm_compute. reflexivity. Qed.
Example C15_nested_history :
  let t := CNode [CLeaf (Some 1); CNode [CLeaf (Some 1); CLeaf (Some 1)]; CLeaf (Some 0)] in
  flatten t = [Some 1; Some 1; Some 1; Some 0] /\
  rev (log (t_s (runT true t [EAdd; EStartup 0; EBegin 0 0; EStartupDone 0; EEnd 0 0; EStartup 1; EStartupDone 1; EBegin 1 0; EEnd 1 0;
                              EStartup 2; EBegin 2 0; EEnd 2 0; EStartupDone 2; EStartup 3; EStartupDone 3]))) =
  [LEnq 0; LBegin 0 0; LEnd 0 0; LPoolCb 0; LEnq 1; LBegin 1 0; LEnd 1 0; LPoolCb 1; LEnq 2; LBegin 2 0; LEnd 2 0; LPoolCb 2;
   LEnq 3; LPoolCb 3; LCompound].
Proof. vm_compute. split; reflexivity. Qed.

(* non-vacuity: a compound of three members (2, 0 and 1 tasks) runs to completion under
   an interleaved schedule, with both constructors *)
Definition ex_evs : list event :=
  [EAdd; EStartup 0; EBegin 0 1; EBegin 0 0; EStartupDone 0; EEnd 0 0; EEnd 0 1;
   EStartup 1; EStartupDone 1; EStartup 2; EBegin 2 0; EEnd 2 0; EStartupDone 2].
Example C15_example_fixed :
  c_done (run true [2; 0; 1] ex_evs) = 3 /\ seq_ok (run true [2; 0; 1] ex_evs) = true /\
  compound_last (run true [2; 0; 1] ex_evs) = true /\ active (run true [2; 0; 1] ex_evs) = 0%Z /\
  ran (run true [2; 0; 1] ex_evs) = [2; 0; 1].
Proof. vm_compute. repeat split. Qed.
Example C15_example_code :
  c_done (run false [2; 0; 1] ex_evs) = 3 /\ seq_ok (run false [2; 0; 1] ex_evs) = true /\
  compound_last (run false [2; 0; 1] ex_evs) = false /\ c_cb (run false [2; 0; 1] ex_evs) = 1.
Proof. vm_compute. repeat split. Qed.
