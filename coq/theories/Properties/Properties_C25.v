(* C25 — Data repository entries are reclaimed exactly when unused.
   Statements only; proofs in Repo/RepoInv.v (interleaving invariant), Repo/RepoProofs.v,
   Repo/RepoIds.v, Repo/RepoMutex.v, Repo/RepoSeq.v.
   Model: Repo/RepoDefs.v — atomic-step model of data_repo_lookup_entry,
   __data_repo_lookup_entry_and_create, __data_repo_entry_addto_usage_limit and
   __data_repo_entry_used_once over the bucket locks of the hash table (one step = the code of one
   thread between two lock operations / atomic read-modify-writes), plus the client protocol as
   ghost state.  [run nb progs sched] executes the schedule [sched] (ANY list of thread ids) on ANY
   number of threads with per-thread operation lists [progs]; [nb] is the number of bucket bits.

   [protocol progs]: in every thread, each addto(k, n) closes a create(k) of the same thread whose
   announced promise is n >= 0, and every create is closed (datarepo.h: "the same thread that called
   data_repo_lookup_entry_and_create must eventually call data_repo_entry_addto_usage_limit").
   A use takes a grant first: grants are issued by a creator when its create has returned, as many as
   it will announce (release_deps enables the consumers between the two calls), so uses never exceed
   the announced + to-be-announced limits by construction of the model, for every schedule.

   [needed c k]: some thread holds the entry of k (it is between the retained++ of its create and the
   retained-- of its addto), or a granted use of k has not been counted yet (grant not yet taken, or
   the use is in flight before its usagecnt increment).                                           *)
From PV Require Import Base.Tac Base.ListX Repo.RepoDefs Repo.RepoSum Repo.RepoInv Repo.RepoProofs
  Repo.RepoIds Repo.RepoMutex Repo.RepoSeq.
Local Open Scope Z_scope.

(* an entry is in the table exactly while it is needed *)
Theorem C25_present_iff_needed : forall nb progs sched k, protocol progs ->
  (c_tab (run nb progs sched) k <> None <-> needed (run nb progs sched) k).
Proof. intros nb progs sched k H. exact (run_present_iff_needed nb progs sched H k). Qed.
Print Assumptions C25_present_iff_needed.

(* what the three fields mean: retained = number of holders; usagecnt + (uses in flight + grants not
   taken + grants not yet issued by creators that retain) = usagelmt + (what the holders still announce) *)
Theorem C25_fields_account : forall nb progs sched k e, protocol progs ->
  c_tab (run nb progs sched) k = Some e ->
  e_ret e = holders (run nb progs sched) k /\
  e_cnt e + inflight (run nb progs sched) k + c_bud (run nb progs sched) k + ungranted (run nb progs sched) k
    = e_lmt e + promised (run nb progs sched) k.
Proof. intros nb progs sched k e H. exact (run_fields_account nb progs sched H k e). Qed.
Print Assumptions C25_fields_account.

(* an entry that is present is retained or has fewer uses than announced: the state
   retained = 0 /\ usagecnt = usagelmt never survives a step *)
Theorem C25_present_while_retained_or_unused : forall nb progs sched k e, protocol progs ->
  c_tab (run nb progs sched) k = Some e -> 0 < e_ret e \/ e_cnt e < e_lmt e.
Proof. intros nb progs sched k e H. exact (run_present_while nb progs sched H k e). Qed.
Print Assumptions C25_present_while_retained_or_unused.

(* for every next step of every thread: a present entry disappears in that very step when the step
   makes it unneeded, and only then *)
Theorem C25_reclaimed_in_the_very_step : forall nb progs sched t k, protocol progs ->
  let c := run nb progs sched in
  (c_tab c k <> None -> ~ needed (step nb c t) k -> c_tab (step nb c t) k = None) /\
  (c_tab c k <> None -> c_tab (step nb c t) k = None -> needed c k /\ ~ needed (step nb c t) k).
Proof. intros nb progs sched t k H. exact (run_reclaimed_in_the_step nb progs sched H t k). Qed.
Print Assumptions C25_reclaimed_in_the_very_step.

(* no granted use and no addto finds the entry missing: no "missing" event, no NULL dereference *)
Theorem C25_no_use_finds_it_missing : forall nb progs sched, protocol progs ->
  bad (run nb progs sched) = false /\ c_crash (run nb progs sched) = false.
Proof. intros nb progs sched H. exact (run_no_missing nb progs sched H). Qed.
Print Assumptions C25_no_use_finds_it_missing.

(* every incarnation goes back to the mempool at most once, and never while it is in the table
   (any programs, protocol or not) *)
Theorem C25_freed_once : forall nb progs sched,
  NoDup (freed (run nb progs sched)) /\
  forall k e, c_tab (run nb progs sched) k = Some e -> ~ In (e_id e) (freed (run nb progs sched)).
Proof. exact freed_once. Qed.
Print Assumptions C25_freed_once.

(* at quiescence the table holds exactly the keys with announced uses that were never performed *)
Theorem C25_quiescent_contents : forall nb progs sched k, protocol progs ->
  all_done (run nb progs sched) = true ->
  (c_tab (run nb progs sched) k <> None <-> 0 < surplus progs k).
Proof. intros nb progs sched k H. exact (run_quiescent nb progs sched H k). Qed.
Print Assumptions C25_quiescent_contents.

Theorem C25_quiescent_empty : forall nb progs sched, protocol progs ->
  all_done (run nb progs sched) = true ->
  (forall k, total_uses progs k = total_promised progs k) ->
  forall k, c_tab (run nb progs sched) k = None.
Proof. intros nb progs sched H. exact (run_quiescent_empty nb progs sched H). Qed.
Print Assumptions C25_quiescent_empty.

(* the multi-access segments are critical sections of the bucket lock *)
Theorem C25_mutual_exclusion : forall nb progs sched u v x y b,
  nth_error (c_thr (run nb progs sched)) u = Some x -> nth_error (c_thr (run nb progs sched)) v = Some y ->
  cs_bucket nb x = Some b -> cs_bucket nb y = Some b -> u = v.
Proof. exact mutex_run. Qed.
Print Assumptions C25_mutual_exclusion.

(* one thread alone: each operation, run through its atomic steps, is the sequential specification *)
Theorem C25_sequential_refinement : forall nb c o r held,
  c_crash c = false -> c_thr c = [mk PIdle (o :: r) held] ->
  exists n, (n <= 6)%nat /\ solo_run nb c n = seq_apply c o r held.
Proof. exact seq_refinement. Qed.
Print Assumptions C25_sequential_refinement.

(* non-vacuity: a producer announcing 2 uses and two consumers; both uses complete before the
   announcement, so the addto reclaims incarnation 0; and two creators racing for the insertion
   (one gives its own entry 1 back), the last use reclaiming entry 0 *)
Example C25_example_addto_reclaims :
  let progs := [[OCreate 5 2; OAddto 5 2]; [OUse 5]; [OUse 5]] in
  let c := run 1 progs [0;0;0;0;0; 1;1;1;1;1;1; 2;2;2;2;2;2; 0;0;0;0]%nat in
  protocol progs /\ all_done c = true /\ c_tab c 5%N = None /\
  c_log c = [EvAddto 0 5 2; EvReclaim 0 5 0; EvUse 2 5; EvUse 1 5; EvCreate 0 5 0 true].
Proof.
  cbv zeta. split; [|vm_compute; auto].
  repeat constructor; cbn; auto; lia.
Qed.
Example C25_example_insertion_race :
  let progs := [[OCreate 5 1; OAddto 5 1]; [OCreate 5 1; OAddto 5 1]; [OUse 5; OUse 5]] in
  let c := run 2 progs ([0;1;0;1;0;1;0;1;0;1] ++ concat (repeat [0;1;2] 16))%nat in
  protocol progs /\ all_done c = true /\ c_tab c 5%N = None /\ freed c = [0; 1]%nat /\ bad c = false.
Proof.
  cbv zeta. split; [|vm_compute; auto].
  repeat constructor; cbn; auto; lia.
Qed.
