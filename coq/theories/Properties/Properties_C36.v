(* C36 — The red-black tree keeps order and balance.
   Statements only; proofs live in RBTree/RBTree{Order,Balance,Proofs}.v.
   [run ops] is the tree after the history [ops] of insert / remove /
   update_node calls starting from the empty tree (RBTree/RBTreeDefs.v); a
   history may be of any length, over any keys, with or without repeated keys. *)
From Coq Require Import Sorted.
From PV Require Import Base.Tac RBTree.RBTreeDefs RBTree.RBTreeProofs.
Local Open Scope Z_scope.

(* every operation keeps: black root, no red node with a red child, equal black
   heights, search-tree order, distinct node identities — from any tree that has them *)
Theorem C36_invariants_step : forall t o,
  is_rb t -> bst t -> NoDup (ids t) -> is_rb (step t o) /\ bst (step t o) /\ NoDup (ids (step t o)).
Proof. exact invariants_step. Qed.
Print Assumptions C36_invariants_step.

(* hence after any history *)
Theorem C36_invariants : forall ops,
  col (run ops) = Black /\ nrr (run ops) /\ bal (run ops) /\ bst (run ops) /\ NoDup (ids (run ops)).
Proof. exact invariants. Qed.
Print Assumptions C36_invariants.

(* exact lookup finds exactly the stored keys *)
Theorem C36_find : forall ops q,
  match find q (run ops) with
  | Some n => In n (nodes (run ops)) /\ nkey n = q
  | None => ~ In q (keys (run ops))
  end.
Proof. exact find_correct. Qed.
Print Assumptions C36_find.

(* lookup-or-larger returns a node with the smallest stored key not below the query, NULL iff there is none *)
Theorem C36_find_or_larger : forall ops q,
  match find_or_larger q (run ops) with
  | Some n => In n (nodes (run ops)) /\ q <= nkey n /\
              forall m, In m (nodes (run ops)) -> q <= nkey m -> nkey n <= nkey m
  | None => forall m, In m (nodes (run ops)) -> nkey m < q
  end.
Proof. exact find_or_larger_correct. Qed.
Print Assumptions C36_find_or_larger.

(* insert adds exactly the node, at a sorted place of the in-order sequence *)
Theorem C36_insert_content : forall ops id k,
  (In id (ids (run ops)) -> step (run ops) (Insert id k) = run ops) /\
  (~ In id (ids (run ops)) -> exists A B, nodes (run ops) = A ++ B /\
      nodes (step (run ops) (Insert id k)) = A ++ (id, k) :: B /\
      (forall a, In a A -> nkey a <= k) /\ (forall b, In b B -> k < nkey b)).
Proof. exact insert_content. Qed.
Print Assumptions C36_insert_content.

(* remove deletes exactly the node and keeps the order of the others (any tree) *)
Theorem C36_remove_content : forall id t,
  (~ In id (ids t) -> remove id t = t) /\
  (In id (ids t) -> exists A n B, nodes t = A ++ n :: B /\ nid n = id /\ nodes (remove id t) = A ++ B).
Proof. exact remove_content. Qed.
Print Assumptions C36_remove_content.

(* update_node answers ERR_EXISTS exactly when another node holds the key, and then changes nothing;
   otherwise the node, and only it, gets the new key (in place or by re-insertion) *)
Theorem C36_update_spec : forall ops id k,
  In id (ids (run ops)) ->
  exists A n B, nodes (run ops) = A ++ n :: B /\ nid n = id /\
    (snd (update id k (run ops)) = false <-> exists m, In m (A ++ B) /\ nkey m = k) /\
    (snd (update id k (run ops)) = false -> fst (update id k (run ops)) = run ops) /\
    (snd (update id k (run ops)) = true ->
       exists A' B', A ++ B = A' ++ B' /\ nodes (fst (update id k (run ops))) = A' ++ (id, k) :: B').
Proof. exact update_spec. Qed.
Print Assumptions C36_update_spec.

(* when every insert is guarded by a failed find (what zone_malloc.c does), keys stay pairwise distinct *)
Theorem C36_unique_keys : forall ops, all_guarded E ops -> bst_strict (run ops).
Proof. exact unique_keys. Qed.
Print Assumptions C36_unique_keys.

Theorem C36_minimum : forall ops,
  match minimum (run ops) with
  | Some n => In n (nodes (run ops)) /\ forall m, In m (nodes (run ops)) -> nkey n <= nkey m
  | None => run ops = E
  end.
Proof. exact minimum_correct. Qed.
Print Assumptions C36_minimum.

(* parsec_rbtree_foreach visits the keys in non-decreasing order *)
Theorem C36_foreach_sorted : forall ops, StronglySorted Z.le (keys (run ops)).
Proof. exact foreach_sorted. Qed.
Print Assumptions C36_foreach_sorted.

(* balance in path form: all root-to-nil paths hold the same number of black nodes *)
Theorem C36_paths_equal : forall ops h1 h2,
  In h1 (paths (run ops)) -> In h2 (paths (run ops)) -> h1 = h2.
Proof. exact paths_equal. Qed.
Print Assumptions C36_paths_equal.

Theorem C36_depth_log : forall ops, (depth (run ops) <= 2 * Nat.log2 (size (run ops) + 1))%nat.
Proof. exact depth_logarithmic. Qed.
Print Assumptions C36_depth_log.

(* non-vacuity: a guarded history that exercises recolouring, rotations, a removal with delete
   fix-up, an in-place update, a refused update and a re-inserting update *)
Example C36_example :
  let h := [Insert 1 10; Insert 2 20; Insert 3 30; Insert 4 40; Insert 5 50; Insert 6 60; Insert 7 70;
            Remove 1; Update 4 45; Update 4 50; Update 7 5] in
  all_guarded E h /\
  run h = T Black (T Black (T Red E (7, 5) E) (2, 20) (T Red E (3, 30) E)) (4, 45)
                  (T Black (T Red E (5, 50) E) (6, 60) E) /\
  snd (update 4 50 (run h)) = false /\
  find_or_larger 46 (run h) = Some (5, 50) /\ find 45 (run h) = Some (4, 45) /\ find 40 (run h) = None.
Proof. vm_compute. repeat split; reflexivity. Qed.
