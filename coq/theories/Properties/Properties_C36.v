(* placeholder while the proofs are being written *)
From PV Require Import Base.Tac RBTree.RBTreeDefs.
