(* C03 — DTD results equal sequential execution in insertion order.
   Statements only; proofs live in DTD/DTDSeq.v, DTDChain.v, DTDEngine.v, DTDProofs.v.

   Model (DTD/DTDDefs.v): an insertion sequence p is a list of tasks, a task a list of
   accesses (datum, R | W | RW) in flow order (a datum may appear several times);
   [dep_fn p k] are the tasks that task k waits for, computed flow by flow from the
   per-datum chain (last writer, readers since) as parsec_insert_dtd_task does;
   [dtd_run body p gate m0 es] folds an ARBITRARY list of events Insert / Begin t / End t
   over the engine (an event the protocol does not allow is a no-op), [gate] is the
   sliding window (any function; progress needs only "insertion is allowed when nothing
   is pending"); [body] is an arbitrary deterministic function of task id and inputs. *)
From PV Require Import Base.Tac DTD.DTDDefs DTD.DTDSeq DTD.DTDChain DTD.DTDEngine DTD.DTDProofs
  DTD.DTDGate DTD.DTDGateProofs.

(* the edges built by insertion point backwards, to conflicting tasks only *)
Theorem C03_edges_sound : forall p k j,
  In j (dep_fn p k) -> j < k /\ conflict (task_at p j) (task_at p k).
Proof. exact deps_sound. Qed.
Print Assumptions C03_edges_sound.

(* ... and every RAW / WAR / WAW conflict of the insertion order is enforced by a path of edges *)
Theorem C03_chain_edges_complete : forall p k i, k < length p -> i < k ->
  conflict (task_at p i) (task_at p k) -> dpath (dep_fn p) i k.
Proof. exact chain_edges_complete. Qed.
Print Assumptions C03_chain_edges_complete.

(* independent of DTD: any execution that respects backward edges covering the conflicts of a
   sequence is observation-equivalent to the sequential execution of that sequence *)
Theorem C03_dag_serialisable : forall body p dep gate m0,
  (forall k j, In j (dep k) -> j < k) ->
  (forall k i, k < length p -> i < k -> conflict (task_at p i) (task_at p k) -> dpath dep i k) ->
  forall es, let s := run body p dep gate m0 es in
  (forall t i, obs s t = Some i -> t < length p /\ i = nth t (fst (seq_dtd body p m0)) []) /\
  (all_done p s = true -> forall d, memo s d = snd (seq_dtd body p m0) d).
Proof. exact dag_serialisable. Qed.
Print Assumptions C03_dag_serialisable.

(* every insertion sequence, every body, every window, every schedule: what a task observes
   and what the data finally hold are the values of the sequential execution in insertion order *)
Theorem C03_observations_sequential : forall body p gate m0 es,
  let s := dtd_run body p gate m0 es in
  (forall t i, obs s t = Some i -> t < length p /\ i = nth t (fst (seq_dtd body p m0)) []) /\
  (all_done p s = true -> forall d, memo s d = snd (seq_dtd body p m0) d).
Proof. exact dtd_observations. Qed.
Print Assumptions C03_observations_sequential.

(* a body is started at most once, exactly once for every task that left the idle state *)
Theorem C03_runs_at_most_once : forall body p gate m0 es t,
  nruns (dtd_run body p gate m0 es) t <= 1 /\
  (nruns (dtd_run body p gate m0 es) t = 1 <-> st (dtd_run body p gate m0 es) t <> Idle).
Proof. exact dtd_runs_once. Qed.
Print Assumptions C03_runs_at_most_once.

(* no deadlock: in every reachable state in which some task is not done an event is enabled,
   for every window that lets the inserting thread insert when nothing is pending *)
Theorem C03_progress : forall body p gate m0, (forall i, gate i i = true) -> forall es,
  all_done p (dtd_run body p gate m0 es) = false ->
  exists e, enabled p (dep_fn p) gate (dtd_run body p gate m0 es) e = true.
Proof. exact dtd_progress. Qed.
Print Assumptions C03_progress.

Theorem C03_stuck_means_all_done : forall body p gate m0, (forall i, gate i i = true) -> forall es,
  (forall e, enabled p (dep_fn p) gate (dtd_run body p gate m0 es) e = false) ->
  all_done p (dtd_run body p gate m0 es) = true.
Proof. exact dtd_stuck_means_done. Qed.
Print Assumptions C03_stuck_means_all_done.

(* every inserted task can run: a complete run exists for every sequence and window *)
Theorem C03_complete_run_exists : forall body p gate m0, (forall i, gate i i = true) ->
  exists es, all_done p (dtd_run body p gate m0 es) = true.
Proof. exact dtd_complete_run_exists. Qed.
Print Assumptions C03_complete_run_exists.

(* the window of the runtime satisfies the hypothesis, for every window / threshold value *)
Theorem C03_window_gate_admissible : forall w th i, window_gate w th i i = true.
Proof. exact window_gate_idle. Qed.
Print Assumptions C03_window_gate_admissible.

(* the flow-level mechanism (DTD/DTDGate.v, with the guard of notes/findings/C03-stale-last-user.patch)
   refines the protocol engine: every run of the mechanism on a sequence in which no task names a
   tile twice is a run of the engine whose dependencies are all the earlier conflicting tasks, so
   C03_dag_serialisable applies to it *)
Theorem C03_mechanism_refines_protocol : forall p, norep p -> forall body m0 es,
  exists es', let a := run body p (conf_dep p) no_window m0 es' in
    ins a = g_ins (grun true p es) /\ forall t, st a t = g_st (grun true p es) t.
Proof. exact gate_refines. Qed.
Print Assumptions C03_mechanism_refines_protocol.

(* non-vacuity: 5 tasks over 2 data (read groups, a datum used twice by one task); an
   interleaved schedule with refused events, under the window (1, 0) and without window *)
Definition C03_ex_p : prog := [[(0,RW)]; [(0,R)]; [(0,R);(1,W)]; [(0,RW);(1,R)]; [(1,R);(1,W)]].
Definition C03_ex_es : list event :=
  [Insert; Insert; Begin 1; Begin 0; Insert; End 0; Begin 2; Begin 1; Insert; Begin 3; End 2;
   Insert; Begin 4; End 1; Begin 3; End 3; Begin 4; End 4].
Example C03_example :
  deps_of C03_ex_p = [[]; [0]; [0]; [2; 1; 0; 2]; [2; 3; 2]] /\
  (let s := dtd_run fbody C03_ex_p no_window mem0 C03_ex_es in
   map (obs s) [0;1;2;3;4] = map Some (model_inputs C03_ex_p) /\
   map (memo s) [0;1] = model_final C03_ex_p 2 /\ map (nruns s) [0;1;2;3;4] = [1;1;1;1;1] /\
   all_done C03_ex_p s = true) /\
  model_inputs C03_ex_p = [[100]; [2349]; [2349]; [2349; 41636]; [41636]]%N /\
  model_final C03_ex_p 2 = [14888; 710569]%N /\
  map (st (dtd_run fbody C03_ex_p (window_gate 1 0) mem0
             [Insert; Insert; Begin 0; Insert; End 0; Insert; Insert; Begin 1; Begin 2])) [0;1;2;3;4]
    = [Done; Running; Idle; Idle; Idle].
Proof. vm_compute. repeat split. Qed.
