(* C22 — Matrix operators visit each tile once and reduce correctly.

   Statement (properties.jsonl): parsec_apply invokes the operator exactly once on every
   tile of the requested region (full, upper, lower), the row/column reductions and the map
   operator combine every tile exactly once, and with an associative and commutative
   operator the result equals the sequential fold.

   What is proved, over the definitions GENERATED from the .jdf / wrapper text
   (Gen/Gen_ops.v, tools/jdf2ast.py) and the hand model of map_operator.c (Ops/OpsDefs.v):

   apply.jdf          for every uplo in {UPPER, LOWER, FULL} and ALL mt, nt: the operator calls of
                      APPLY_L ++ APPLY_U ++ APPLY_DIAG are a permutation of the region's tile list;
                      diagonal tiles get the caller's uplo, the others FULL; every instance is placed
                      on, reads and writes back the tile it passes to the operator.           FULL
   map_operator.c     for ALL mt, nt, core counts, ownership predicates and ALL interleavings of the
                      startup function and the task chains: never a tile twice, only local tiles, a
                      complete run visits exactly the local tiles; every unfinished agent can step and
                      each step decreases a measure (every run of the iterator completes).   FULL
                      The TASKPOOL however does not complete on a process without stored tiles, or when
                      the matrix is the leading part of a larger stored grid (C22_map_completion_refuted).
   reduce.jdf         for ALL MT >= 1: the tree named by the input dependencies has the source tiles
                      0..MT-1 as its leaves, each once and in order, every inner node is an instance
                      of the execution space, the root writes R(0,0), and IF the bodies combined
                      their inputs with an associative operator the root would carry the sequential
                      fold (commutativity is not needed).  The shipped BODY is a printf: no operator
                      (C22_reduce_no_operator) — as far as the JDF implements it.        PARTIAL
                      Also: for every even MT an instance reads descA(MT, 0), outside the matrix
                      (C22_reduce_in_matrix_refuted).
   reduce_col/_row    as instantiated by parsec_reduce_col_New / parsec_reduce_row_New: the user
                      operator is never applied; for EVERY shape reduce_col has an instance placed
                      outside the matrix; witnesses of tasks waiting for non-existent predecessors.
                      The full statement "combine every tile exactly once / equal the fold" is
                      REFUTED for these two (C22_reduce_col_refuted, C22_reduce_row_refuted).  *)
From Coq Require Import ZArith List Bool Permutation String.
From PV Require Import Ops.OpsBase Gen.Gen_ops Ops.OpsDefs Ops.OpsApplyProofs Ops.OpsReduceProofs
                       Ops.OpsSkeletonProofs Ops.OpsMapProofs.
Import ListNotations.

(* ------------------------------------------------------------------ apply *)
Theorem C22_apply_exactly_once : forall uplo mt nt : Z, valid_uplo uplo = true ->
  Permutation (map call_tile (apply_calls uplo mt nt)) (region uplo mt nt).
Proof. exact apply_exactly_once. Qed.

Theorem C22_apply_uplo_argument : forall (uplo mt nt : Z) a, In a (apply_calls uplo mt nt) ->
  call_uplo a = if (fst (call_tile a) =? snd (call_tile a))%Z then uplo else matrix_full_v.
Proof. exact apply_uplo_argument. Qed.

Theorem C22_apply_on_tile : forall uplo mt nt : Z, apply_insts_on_tile uplo mt nt = true.
Proof. exact apply_on_tile. Qed.

(* ----------------------------------------------------------- map_operator *)
Theorem C22_map_never_twice : forall (mt nt ncores : nat) (local : nat -> nat -> bool) (sched : list nat),
  let s := mrun mt nt ncores local sched in
  NoDup (m_log s) /\ forall m n, In (m, n) (m_log s) -> (m < mt /\ n < nt /\ local m n = true)%nat.
Proof. exact map_never_twice. Qed.

Theorem C22_map_exactly_once : forall (mt nt ncores : nat) (local : nat -> nat -> bool) (sched : list nat),
  let s := mrun mt nt ncores local sched in
  mfinal s = true -> Permutation (m_log s) (local_tiles mt nt local).
Proof. exact map_exactly_once. Qed.

Theorem C22_map_progress : forall (mt nt ncores : nat) (local : nat -> nat -> bool) (sched : list nat) i a,
  nth_error (m_agents (mrun mt nt ncores local sched)) i = Some a -> is_done a = false ->
  (measure mt nt local (mrun mt nt ncores local (sched ++ [i])) < measure mt nt local (mrun mt nt ncores local sched))%nat.
Proof. exact map_progress_run. Qed.

(* the taskpool's task count is src->nb_local_tiles and its pending action is released only by a
   positive -> zero transition of that count: "the map operator completes on every process" is false
   of the code (a process that owns no tile of a 1 x 1 matrix on a 1 x 2 grid), see map_completes *)
Theorem C22_map_completion_refuted : exists (P Q me mt nt : nat),
  local_tiles mt nt (bc_local P Q me) = [] /\
  map_completes false (List.length (local_tiles mt nt (bc_local P Q me))) 0 = false.
Proof. exists 1%nat, 2%nat, 1%nat, 1%nat, 1%nat. vm_compute. split; reflexivity. Qed.

(* ----------------------------------------------------------------- reduce *)
Theorem C22_reduce_leaves : forall MT : Z, (1 <= MT)%Z -> reduce_leaves MT = Some (zrange 0 (MT - 1)).
Proof. exact reduce_leaves_all. Qed.

Theorem C22_reduce_root_fold : forall MT : Z, (1 <= MT)%Z ->
  forall (V : Type) (op : V -> V -> V) (tl : Z -> V),
  (forall a b c, op a (op b c) = op (op a b) c) ->
  reduce_root_value op tl MT = fold1 op (map tl (zrange 0 (MT - 1))).
Proof. exact reduce_root_fold. Qed.

Theorem C22_reduce_root_output : forall MT : Z, reduce_root_out MT = [RData "R" [0; 0]%Z].
Proof. exact reduce_root_output. Qed.

Theorem C22_reduce_no_operator : forall G, all_calls (reduce_classes G) = [].
Proof. exact reduce_no_operator. Qed.

(* "every data reference of an instance is a tile of the matrix" is false of reduce.jdf *)
Theorem C22_reduce_in_matrix_refuted : forall MT : Z, (1 <= MT)%Z -> Z.even MT = true ->
  In [1; MT / 2]%Z (reduce_reduce_space (reduce_G_of MT)) /\
  active_in (reduce_reduce_in_A (reduce_G_of MT) 1 (MT / 2)) = Some (RData "descA" [MT; 0%Z]).
Proof. exact reduce_even_reads_outside. Qed.

(* ------------------------------------------------- reduce_col / reduce_row *)
Theorem C22_reduce_col_refuted : forall src dest : mdesc, (0 <= md_lmt src)%Z -> (0 <= md_lnt src)%Z ->
  let G := rcol_New_G src dest in
  all_calls (rcol_classes G) = [] /\
  In [md_lnt src; md_lmt src] (rcol_reduce_in_col_space G) /\
  rcol_reduce_in_col_place G (md_lnt src) (md_lmt src) = RData "src" [md_lnt src; md_lmt src] /\
  tile_in_matrix src (RData "src" [md_lnt src; md_lmt src]) = false.
Proof. intros src dest H1 H2 G. split; [apply rcol_no_operator|apply rcol_out_of_matrix; assumption]. Qed.

Theorem C22_reduce_row_refuted :
  (forall G, all_calls (rrow_classes G) = []) /\
  out_of_matrix (md_of 3 3) (rrow_reduce_in_row_class (rrow_New_G (md_of 3 3) (md_of 3 1))) <> [].
Proof. split; [exact rrow_no_operator|exact rrow_out_of_matrix_witness]. Qed.

Theorem C22_reduce_col_dangling_witness :
  dangling_inputs (rcol_classes (rcol_New_G (md_of 5 5) (md_of 1 5))) <> [].
Proof. exact rcol_dangling_witness. Qed.

Print Assumptions C22_apply_exactly_once.
Print Assumptions C22_apply_uplo_argument.
Print Assumptions C22_apply_on_tile.
Print Assumptions C22_map_never_twice.
Print Assumptions C22_map_exactly_once.
Print Assumptions C22_map_progress.
Print Assumptions C22_map_completion_refuted.
Print Assumptions C22_reduce_leaves.
Print Assumptions C22_reduce_root_fold.
Print Assumptions C22_reduce_root_output.
Print Assumptions C22_reduce_no_operator.
Print Assumptions C22_reduce_in_matrix_refuted.
Print Assumptions C22_reduce_col_refuted.
Print Assumptions C22_reduce_row_refuted.
Print Assumptions C22_reduce_col_dangling_witness.

(* non-vacuity *)
Example apply_lower_3x2 :
  map call_tile (apply_calls matrix_lower_v 3 2) = [(1, 0); (2, 0); (2, 1); (0, 0); (1, 1)]%Z
  /\ region matrix_lower_v 3 2 = [(0, 0); (1, 0); (1, 1); (2, 0); (2, 1)]%Z.
Proof. vm_compute. split; reflexivity. Qed.
Example reduce_sum_9 :
  reduce_root_value Z.add (fun i => (i * i + 1)%Z) 9 = Some 213%Z
  /\ reduce_leaves 6 = Some [0; 1; 2; 3; 4; 5]%Z.
Proof. vm_compute. split; reflexivity. Qed.
Example map_2ranks :
  map_visits 3 4 2 1 2 1 [0; 1; 0; 2; 1] = ([(0, 1); (1, 1); (2, 1); (0, 3); (1, 3); (2, 3)], true)%nat.
Proof. vm_compute. reflexivity. Qed.
