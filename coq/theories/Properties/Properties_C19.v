(* C19 — Matrix datatypes select exactly the specified elements.
   Statements only; proofs live in DType/DTypeProofs.v.

   Vocabulary (DType/DTypeDefs.v): [selected t] is the list of byte offsets that
   MPI_Pack reads through datatype t, in type order; [elems sz es] the bytes of
   the sz-byte elements at element offsets es; [region_enum P m n ld] the
   column-major enumeration (columns j = 0..n-1, rows i = 0..m-1 inside a column)
   of the offsets i + j*ld of the positions with P i j; [region uplo diag] the
   upper / lower triangle with the diagonal iff diag <> 0, anything else full.
   Hypothesis ld*n*sz < 2^31: range in which the model's Z arithmetic is the
   code's unsigned/int arithmetic. *)
From PV Require Import Base.Tac DType.DTypeDefs DType.DTypeProofs.
Local Open Scope Z_scope.

(* the public entry point parsec_matrix_define_datatype, every uplo value, both
   diag values, every m, n >= 1, ld >= m, every base size, resized or not:
   it succeeds, the type selects exactly the region in column-major order, lb = 0,
   the returned extent is the type's extent and has the stated value *)
Theorem C19_datatype : forall sz uplo diag m n ld rsz,
  0 < sz -> 1 <= m -> 1 <= n -> m <= ld -> ld * n * sz < 2 ^ 31 ->
  exists t, define_datatype sz uplo diag m n ld rsz = (Ok t, ext t) /\
    selected t = elems sz (region_enum (region uplo diag) m n ld) /\ lb t = 0 /\
    ext t = if (uplo =? PARSEC_MATRIX_UPPER) || (uplo =? PARSEC_MATRIX_LOWER) then ld * n * sz
            else if 0 <=? rsz then rsz * sz else ((n - 1) * ld + m) * sz.
Proof. exact datatype_spec. Qed.
Print Assumptions C19_datatype.

(* parsec_matrix_define_triangle (anchor: index / blocklen computation) *)
Theorem C19_triangle : forall sz uplo diag m n ld,
  0 < sz -> 1 <= m -> 1 <= n -> m <= ld -> ld * n * sz < 2 ^ 31 ->
  uplo = PARSEC_MATRIX_UPPER \/ uplo = PARSEC_MATRIX_LOWER ->
  exists t, define_triangle sz uplo diag m n ld = Ok t /\
    selected t = elems sz (region_enum (region uplo diag) m n ld) /\
    lb t = 0 /\ ext t = ld * n * sz.
Proof. exact triangle_spec. Qed.
Print Assumptions C19_triangle.

(* parsec_matrix_define_rectangle (contiguous when m = ld, vector otherwise) *)
Theorem C19_rectangle : forall sz m n ld rsz,
  0 < sz -> 1 <= m -> 1 <= n -> m <= ld -> ld * n * sz < 2 ^ 31 ->
  exists t, define_rectangle sz m n ld rsz = Ok t /\
    selected t = elems sz (region_enum (fun _ _ => true) m n ld) /\ lb t = 0 /\
    ext t = if 0 <=? rsz then rsz * sz else ((n - 1) * ld + m) * sz.
Proof. exact rectangle_spec. Qed.
Print Assumptions C19_rectangle.

(* parsec_matrix_define_contiguous *)
Theorem C19_contiguous : forall sz nb rsz, 0 < sz -> 1 <= nb ->
  exists t, define_contiguous sz nb rsz = Ok t /\
    selected t = elems sz (zseq 0 nb) /\ lb t = 0 /\
    ext t = if 0 <=? rsz then rsz * sz else nb * sz.
Proof. exact contiguous_spec. Qed.
Print Assumptions C19_contiguous.

(* "exactly the elements of the region": each byte of each element of the region
   once, nothing else *)
Theorem C19_exactly_once : forall sz uplo diag m n ld rsz t e,
  0 < sz -> 1 <= m -> 1 <= n -> m <= ld -> ld * n * sz < 2 ^ 31 ->
  define_datatype sz uplo diag m n ld rsz = (Ok t, e) ->
  NoDup (selected t) /\
  forall b, In b (selected t) <->
    exists i j, 0 <= i < m /\ 0 <= j < n /\ region uplo diag i j = true /\
                (i + j * ld) * sz <= b < (i + j * ld + 1) * sz.
Proof. exact datatype_exactly_once. Qed.
Print Assumptions C19_exactly_once.

(* "the extent covers the tile" (no resize requested): the whole m-by-n tile with
   leading dimension ld, and every selected byte, lies in [lb, lb + extent) *)
Theorem C19_extent_covers : forall sz uplo diag m n ld rsz t e,
  0 < sz -> 1 <= m -> 1 <= n -> m <= ld -> ld * n * sz < 2 ^ 31 -> rsz < 0 ->
  define_datatype sz uplo diag m n ld rsz = (Ok t, e) ->
  e = ext t /\ ((n - 1) * ld + m) * sz <= ext t /\
  forall b, In b (selected t) -> lb t <= b < lb t + ext t.
Proof. exact datatype_covers. Qed.
Print Assumptions C19_extent_covers.

(* the enumeration that the theorems compare with is what the property names:
   membership, no repetition, and column-major = increasing memory order *)
Theorem C19_region_enum_spec : forall P m n ld, m <= ld ->
  NoDup (region_enum P m n ld) /\
  forall e, In e (region_enum P m n ld) <->
    exists i j, 0 <= i < m /\ 0 <= j < n /\ P i j = true /\ e = i + j * ld.
Proof. exact region_enum_spec. Qed.
Print Assumptions C19_region_enum_spec.

(* ... and with ld >= m the column-major order of positions is the increasing order of offsets *)
Theorem C19_column_major_increasing : forall m ld i1 j1 i2 j2,
  m <= ld -> 0 <= i1 < m -> 0 <= i2 < m -> 0 <= j1 -> 0 <= j2 ->
  (i1 + j1 * ld < i2 + j2 * ld <-> j1 < j2 \/ (j1 = j2 /\ i1 < i2)).
Proof. exact column_major_increasing. Qed.
Print Assumptions C19_column_major_increasing.

(* the arena shorthands adt_define_{rect,upper,lower,square} *)
Theorem C19_adt : forall kind sz diag m n ld,
  0 < sz -> 1 <= m -> 1 <= n -> m <= ld -> ld * n * sz < 2 ^ 31 -> m * m * sz < 2 ^ 31 ->
  0 <= kind <= 3 ->
  let uplo := if kind =? 1 then PARSEC_MATRIX_UPPER else if kind =? 2 then PARSEC_MATRIX_LOWER else PARSEC_MATRIX_FULL in
  let n' := if kind =? 0 then n else m in
  let ld' := if kind =? 0 then ld else m in
  exists t, adt_define kind sz diag m n ld = (Ok t, ext t) /\
    selected t = elems sz (region_enum (region uplo diag) m n' ld') /\ lb t = 0 /\
    ((n' - 1) * ld' + m) * sz <= ext t.
Proof. exact adt_spec. Qed.
Print Assumptions C19_adt.

(* an uplo that is neither UPPER nor LOWER is refused by define_triangle *)
Theorem C19_triangle_bad_uplo : forall sz uplo diag m n ld,
  uplo <> PARSEC_MATRIX_UPPER -> uplo <> PARSEC_MATRIX_LOWER ->
  define_triangle sz uplo diag m n ld = Err PARSEC_ERR_BAD_PARAM.
Proof. exact triangle_bad_uplo. Qed.
Print Assumptions C19_triangle_bad_uplo.

(* non-vacuity: a 3-by-4 tile of 4-byte elements with ld = 5 *)
Example C19_example :
  region_enum (region PARSEC_MATRIX_UPPER 1) 3 4 5 = [0; 5; 6; 10; 11; 12; 15; 16; 17] /\
  region_enum (region PARSEC_MATRIX_UPPER 0) 3 4 5 = [5; 10; 11; 15; 16; 17] /\
  region_enum (region PARSEC_MATRIX_LOWER 1) 3 4 5 = [0; 1; 2; 6; 7; 12] /\
  region_enum (region PARSEC_MATRIX_LOWER 0) 3 4 5 = [1; 2; 7] /\
  (exists t, define_datatype 4 PARSEC_MATRIX_LOWER 0 3 4 5 (-1) = (Ok t, 80) /\
             selected t = [4;5;6;7; 8;9;10;11; 28;29;30;31]) /\
  (exists t, define_datatype 4 PARSEC_MATRIX_FULL 0 3 2 5 (-1) = (Ok t, 32) /\
             selected t = elems 4 [0;1;2;5;6;7]).
Proof. vm_compute. repeat split; eexists; split; reflexivity. Qed.
