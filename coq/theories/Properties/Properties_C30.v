(* C30 — The lock-free LIFO is a linearizable stack.
   Statements only; proofs in Lifo/LifoProofs.v (forward simulation) and Lifo/LifoThms.v.
   Model: Lifo/LifoDefs.v — atomic-step model of parsec_lifo_push/_chain/_pop/_try_pop/
   _is_empty (128-bit CAS branch of parsec/class/lifo.h): heap of list_next fields, head =
   (counter, item), per-thread program counters with their local variables.

   Quantifiers: any initial contents [s0] (built by nolock_chain or nolock_push), any number
   of threads, each with any bag of items and ANY list of operations ([ths]), and ANY schedule
   [sched] (list of thread ids; run = fold_left step).  The only hypothesis is that the items
   are pairwise distinct.  [step true] is the code (CAS128 compares counter and pointer);
   [step false] is the pointer-only variant used in the refutation at the end.

   The history [hist] (newest first) holds, for every operation, EInv (invocation), ELin (its
   linearisation point: successful CAS, NULL read of an empty pop, failed CAS of try_pop,
   read of is_empty — with the value the implementation returns) and ERes (response).
   [replay s0 h] runs the ELin events on a list: push/chain put the ring on top in order,
   pop must return the top (NULL iff empty), is_empty must say whether the list is empty,
   a failed try_pop has no effect; it is None as soon as one event is not what a stack does.
   [contents n c] is the list reachable from the head (what a drain with nolock_pop returns). *)
From PV Require Import Base.Tac Base.ListX Lifo.LifoDefs Lifo.LifoHeap Lifo.LifoProofs Lifo.LifoThms.
From Coq Require Import Permutation.

(* the linearisation events of every reachable history form a legal sequential stack history *)
Theorem C30_linearizable : forall ch s0 ths sched, NoDup (all_items s0 ths) ->
  exists s, replay s0 (hist (run true (init ch s0 ths) sched)) = Some s.
Proof. intros ch s0 ths sched H. eexists. exact (lifo_linearizable ch s0 ths sched H). Qed.
Print Assumptions C30_linearizable.

(* ... whose final abstract stack is the concrete list reachable from the head *)
Theorem C30_final_contents : forall ch s0 ths sched, NoDup (all_items s0 ths) ->
  let c := run true (init ch s0 ths) sched in
  replay s0 (hist c) = Some (contents (length (all_items s0 ths)) c).
Proof. exact lifo_linearizable. Qed.
Print Assumptions C30_final_contents.

(* the values a thread has received are, in order, the values of its linearisation events
   (plus the one it is about to return when it sits between its linearisation point and its return) *)
Theorem C30_results_are_abstract_results : forall ch s0 ths sched t th,
  let c := run true (init ch s0 ths) sched in
  nth_error (thr c) t = Some th -> lin_res t (hist c) = pending (t_pc th) ++ t_res th.
Proof. exact lifo_results. Qed.
Print Assumptions C30_results_are_abstract_results.

(* per thread the history is a sequence of triples invocation / linearisation point /
   response carrying the same value (newest first), below at most one operation in progress
   (invoked, or invoked and linearised): every linearisation point lies inside its operation *)
Theorem C30_lp_within_operation : forall ch s0 ths sched t,
  thread_hist_ok (proj t (hist (run true (init ch s0 ths) sched))).
Proof. exact lifo_lp_within. Qed.
Print Assumptions C30_lp_within_operation.

(* a pop that linearises returns the current top of the concrete list and removes exactly it;
   it returns NULL only when the list is empty *)
Theorem C30_pop_returns_top : forall ch s0 ths sched t r, NoDup (all_items s0 ths) ->
  let n := length (all_items s0 ths) in
  let c := run true (init ch s0 ths) sched in
  let c' := step true c t in
  hist c' = ELin t (APop r) :: hist c \/ hist c' = fin_ev t (APop r) ++ hist c ->
  r = hd_error (contents n c) /\ contents n c' = tl (contents n c).
Proof. exact lifo_pop_returns_top. Qed.
Print Assumptions C30_pop_returns_top.

(* a push / chain that linearises puts its ring on top, in the order of the ring *)
Theorem C30_chain_keeps_order : forall ch s0 ths sched t xs, NoDup (all_items s0 ths) ->
  let n := length (all_items s0 ths) in
  let c := run true (init ch s0 ths) sched in
  let c' := step true c t in
  hist c' = ELin t (APush xs) :: hist c ->
  contents n c' = xs ++ contents n c.
Proof. exact lifo_chain_keeps_order. Qed.
Print Assumptions C30_chain_keeps_order.

(* nothing is lost, nothing is duplicated: the list plus the items held by the threads
   (popped and not pushed back, or being pushed) is always a permutation of the initial items *)
Theorem C30_conservation : forall ch s0 ths sched, NoDup (all_items s0 ths) ->
  let c := run true (init ch s0 ths) sched in
  Permutation (contents (length (all_items s0 ths)) c ++ held_all c) (all_items s0 ths) /\
  NoDup (contents (length (all_items s0 ths)) c ++ held_all c).
Proof. exact lifo_conservation. Qed.
Print Assumptions C30_conservation.

(* the ABA counter counts successful pops: a run of fewer than 2^63 steps cannot wrap it *)
Theorem C30_counter_bound : forall ch s0 ths sched,
  (0 <= hcnt (run true (init ch s0 ths) sched) <= Z.of_nat (length sched))%Z.
Proof. exact lifo_counter_bound. Qed.
Print Assumptions C30_counter_bound.

(* The counter is needed: with a pointer-only comparison in pop the classic ABA schedule
   (thread 0 reads head = item 0 and its successor 1; thread 1 pops 0, pops 1, pushes 0 back;
   thread 0's CAS succeeds and installs the popped item 1) yields a history no stack has. *)
Definition aba_ths : list (list item * list op) := [([], [OPop; OPop]); ([], [OPop; OPop; OPush 1])]%nat.
Definition aba_sched : list nat := ([0;0] ++ repeat 1 11 ++ repeat 0 6)%nat.
Theorem C30_without_counter_refuted : exists ch s0 ths sched, NoDup (all_items s0 ths) /\
  replay s0 (hist (run false (init ch s0 ths) sched)) = None /\
  ~ NoDup (held_all (run false (init ch s0 ths) sched)).
Proof.
  exists true, [0;1;2]%nat, aba_ths, aba_sched. split; [|split].
  - repeat constructor; cbn; intuition congruence.
  - vm_compute. reflexivity.
  - vm_compute. intros H. inversion H as [|? ? Hx _]; subst. apply Hx. right. now left.
Qed.
Print Assumptions C30_without_counter_refuted.

(* non-vacuity: the same schedule on the real algorithm — thread 0's first CAS fails, its
   retry pops item 0; the list is [2], the counter 3, items 0 and 1 are held *)
Example C30_example_aba :
  let c := run true (init true [0;1;2]%nat aba_ths) aba_sched in
  NoDup (all_items [0;1;2]%nat aba_ths) /\
  contents 3 c = [2]%nat /\ hcnt c = 3%Z /\ held_all c = [0;1]%nat /\
  map t_res (thr c) = [[RItem 0]; [RPushed [0]; RItem 1; RItem 0]]%nat /\
  replay [0;1;2]%nat (hist c) = Some [2]%nat.
Proof.
  split; [repeat constructor; cbn; intuition congruence|]. vm_compute. repeat split.
Qed.
