(* C42 — Profiling traces read back exactly as written.
   Statements only; the model is Prof/ProfDefs.v, the proofs are in
   Prof/ProfWriter.v (buffer packing), ProfEvents.v (event records, chain walk),
   ProfTables.v (dictionary and thread table), ProfFile.v (several chains in one
   file), ProfWhole.v (whole profile), ProfDump.v (termination of the dump).

   Level: partial.  Modelled byte for byte: events buffers, dictionary and
   thread-table buffers (x86-64 little-endian layout of
   parsec_binary_profile.h), the "does it fit" tests and the chaining by file
   offsets of profiling.c, the walks of dbpreader.c.  Not modelled: the file
   header (its offsets and counts are arguments of [decode]), the global info
   blocks, the merge of several ranks' files, mmap/ftruncate/write, the I/O
   helper thread and the allocation of file offsets (any injective
   allocation [alloc chain index] is covered). *)
From PV Require Import Base.Tac Prof.ProfDefs Prof.ProfBytes Prof.ProfWriter Prof.ProfEvents Prof.ProfFile
  Prof.ProfTables Prof.ProfDump Prof.ProfWhole Prof.ProfMerge.
From Coq Require Import NArith.
Local Open Scope N_scope.

(* The whole profile: for every dictionary, every number of streams, every
   event sequence and info payload, every buffer size that fits each entry
   (dict_ok, stream_ok) and every injective allocation of file offsets, the
   reader applied to the file of the writer returns the dictionary (as the
   reader presents it: key_view), the thread table (streams that logged
   something, each with the infos that fit a thread buffer: kept_infos) and, for
   each of them, exactly the logged events in order. *)
Theorem C42_read_back : forall avail alloc d ss fuel,
  (forall c j c' j', alloc c j = alloc c' j' -> c = c' /\ j = j') ->
  (forall c j, alloc c j < NOOFF) ->
  avail < 4294967296 ->
  dict_ok avail d ->
  Forall (stream_ok (map k_ilen d) avail) ss ->
  (length (encode avail alloc d ss) <= fuel)%nat ->
  decode fuel (fun o => lookup o (encode avail alloc d ss))
         (alloc 0%nat 0%nat) (length d) (alloc 1%nat 0%nat) (length (stored ss))
  = Some (profile_view avail alloc d ss).
Proof. exact encode_read_back. Qed.
Print Assumptions C42_read_back.

(* The events of one stream are read back whatever the dictionary strings and
   the other streams look like (only this stream's events have to be
   well-formed and to fit a buffer). *)
Theorem C42_stream_events_read_back : forall avail alloc d ss i s fuel,
  (forall c j c' j', alloc c j = alloc c' j' -> c = c' /\ j = j') ->
  (forall c j, alloc c j < NOOFF) ->
  avail < 4294967296 ->
  nth_error ss i = Some s ->
  evs_ok (map k_ilen d) avail (s_events s) -> s_events s <> [] ->
  (length (encode avail alloc d ss) <= fuel)%nat ->
  dec_chain fuel (fun o => lookup o (encode avail alloc d ss)) (map k_ilen d) (alloc (2 + i)%nat 0%nat) = s_events s.
Proof. exact encode_stream_roundtrip. Qed.
Print Assumptions C42_stream_events_read_back.

(* Per-stream order: for any interleaving [tr] of the calls of n streams, what
   is read back for stream i is the subsequence of tr logged by i, in the
   order of tr. *)
Theorem C42_order_preserved : forall avail alloc d n hr infos tr i fuel,
  (forall c j c' j', alloc c j = alloc c' j' -> c = c' /\ j = j') ->
  (forall c j, alloc c j < NOOFF) ->
  avail < 4294967296 ->
  (i < n)%nat ->
  evs_ok (map k_ilen d) avail (proj i tr) -> proj i tr <> [] ->
  let ss := streams_of_trace n hr infos tr in
  (length (encode avail alloc d ss) <= fuel)%nat ->
  dec_chain fuel (fun o => lookup o (encode avail alloc d ss)) (map k_ilen d) (alloc (2 + i)%nat 0%nat) = proj i tr.
Proof. exact trace_order_preserved. Qed.
Print Assumptions C42_order_preserved.

(* No event across a buffer boundary: the events buffers of a stream are, for a
   split of the logged sequence into chunks, one buffer of exactly 25 + avail
   bytes per chunk: header, the events of the chunk back to back (at most avail
   bytes), zeros; buffer j sits at offset al j and points to al (j+1), the last
   one to (off_t)-1. *)
Theorem C42_no_event_across_buffers : forall il avail al evs,
  evs_ok il avail evs -> evs <> [] ->
  exists cs, concat cs = evs /\
    enc_events il avail al evs =
      map (fun j => (al j, ser_buffer avail (al j) (next_of al (length cs) j)
                             (N.of_nat (length (nth j cs []))) BT_EVENTS (flat ser_event (nth j cs []))))
          (seq 0 (length cs)) /\
    Forall (fun c => c <> [] /\ N.of_nat (length (flat ser_event c)) <= avail) cs /\
    Forall (fun kv => length (snd kv) = (25 + N.to_nat avail)%nat) (enc_events il avail al evs).
Proof. exact enc_events_layout. Qed.
Print Assumptions C42_no_event_across_buffers.

(* START_KEY / END_KEY: (dictionary index, start|end) <-> event key is a
   bijection, BASE_KEY / KEY_IS_END being the inverse *)
Theorem C42_key_pairing_bijective :
  (forall k b, base_key (key_of k b) = k /\ key_is_end (key_of k b) = b /\ key_is_start (key_of k b) = negb b) /\
  (forall key, key_of (base_key key) (key_is_end key) = key).
Proof. split; [exact key_of_base|exact base_key_of]. Qed.
Print Assumptions C42_key_pairing_bijective.
(* ... and survives the (uint16_t) cast of the event record for every index below 2^15 *)
Theorem C42_key_fits_uint16 : forall k b, k < 32768 -> key_of k b mod 65536 = key_of k b.
Proof. exact key_of_uint16. Qed.
Print Assumptions C42_key_fits_uint16.

(* the record logged by a call whose info area has the declared length
   satisfies the hypothesis ev_ok of the theorems above, whatever flags the
   caller passes (since the repair 27f62af the stored HAS_INFO bit is the one
   the space was reserved with) *)
Theorem C42_logged_event_ok : forall il c ts, call_ok il c -> ev_ok il (log_event c ts).
Proof. exact log_event_ok. Qed.
Print Assumptions C42_logged_event_ok.

(* Before the repair (finding hasinfo-flag-null-info): a call that passed
   PARSEC_PROFILING_EVENT_HAS_INFO with a NULL info pointer made the writer
   reserve 24 bytes (EVENT_LENGTH looks at the pointer) but store the flag; the
   reader (DBP_EVENT_LENGTH looks at the flag) then skipped info_length more
   bytes and misread the following events.  The same calls are read back with
   the repaired [log_event]. *)
Definition bad_alloc (j : nat) : N := 4096 * (N.of_nat j + 2).
Definition bad_calls : list call :=
  [ mk_call 2 100 7 None 1;      (* HAS_INFO, no info *)
    mk_call 3 101 7 None 0;
    mk_call 2 102 7 (Some [1;2;3;4;5;6;7;8]) 0 ].
Theorem C42_has_info_flag_without_info_prefix_refuted :
  let il := [0; 8] in
  let before := map (fun c => log_event_prefix c 5) bad_calls in
  let after := map (fun c => log_event c 5) bad_calls in
  Forall (call_ok il) bad_calls /\
  dec_chain 10 (fun o => lookup o (enc_events il 100 bad_alloc before)) il (bad_alloc 0%nat) <> before /\
  dec_chain 10 (fun o => lookup o (enc_events il 100 bad_alloc after)) il (bad_alloc 0%nat) = after.
Proof.
  cbv zeta. repeat apply conj.
  - repeat constructor.
  - vm_compute. discriminate.
  - vm_compute. reflexivity.
Qed.
Print Assumptions C42_has_info_flag_without_info_prefix_refuted.

(* Per-stream info blocks (dump_thread after the repair 54d29e4).  An info that
   does not fit the thread buffer is omitted; the reader then shows the stream
   with its events and with the infos that fit, in order (profile_view /
   kept_infos in C42_read_back).  Nothing is omitted from an entry that fits: *)
Theorem C42_infos_kept_when_entry_fits : forall avail infos,
  156 + infos_sz infos < avail -> kept_infos avail infos = infos /\ omits avail infos = false.
Proof. exact kept_infos_all_when_fit. Qed.
Print Assumptions C42_infos_kept_when_entry_fits.
(* an info that cannot fit any buffer is never stored, the others keep their order
   (kept_infos is a subsequence) *)
Theorem C42_oversized_info_omitted : forall avail infos kv,
  avail <= 156 + info_sz kv -> ~ In kv (kept_infos avail infos).
Proof. exact oversized_info_omitted. Qed.
Print Assumptions C42_oversized_info_omitted.
(* the infos written do not depend on where the entry lands in the buffer, and
   the entry has the length thread_size() announced (the switch test of the
   thread table uses it) *)
Theorem C42_kept_infos_position_independent : forall avail infos p,
  p + thread_size_from avail 156 infos < avail ->
  kept_from avail (p + 156) infos = kept_infos avail infos /\
  156 + infos_sz (kept_infos avail infos) = thread_size_from avail 156 infos.
Proof. exact kept_infos_position_independent. Qed.
Print Assumptions C42_kept_infos_position_independent.
(* since the repair 73717d1 thread_size() uses the test of the copy loop: an
   entry always ends before the end of a buffer (no hypothesis on the infos is
   needed in stream_ok) ... *)
Theorem C42_thread_entry_ends_before_buffer_end : forall avail infos,
  156 < avail -> thread_size_from avail 156 infos < avail.
Proof. exact thread_entry_ends_before_buffer_end. Qed.
Print Assumptions C42_thread_entry_ends_before_buffer_end.
(* ... before it (finding thread-entry-exactly-full) an info could make the entry
   exactly as large as the buffer: dump_thread then moved the entry to a new
   buffer even from position 0, leaving a buffer that announces no thread, out
   of which the reader parsed one *)
Theorem C42_thread_entry_exactly_full_prefix_refuted :
  exists avail infos, 156 < avail /\ thread_size_prefix avail 156 infos = avail /\
                      thread_size_from avail 156 infos < avail.
Proof.
  exists 300, [([98; 105; 103], repeat 118 130%nat)].
  repeat apply conj; vm_compute; reflexivity.
Qed.
Print Assumptions C42_thread_entry_exactly_full_prefix_refuted.
(* Before the repair (finding stream-info-too-large) the copy loop did not
   advance past an info that did not fit: the dump never returned.  Where the
   old loop returned, the repaired loop copies exactly the same infos. *)
Theorem C42_repaired_loop_agrees_with_prefix : forall avail infos pos p,
  copy_infos_prefix avail pos infos = Some p ->
  kept_from avail pos infos = infos /\ p = pos + infos_sz infos.
Proof. exact repaired_loop_agrees_with_prefix. Qed.
Print Assumptions C42_repaired_loop_agrees_with_prefix.
Theorem C42_dump_thread_info_loop_prefix_refuted :
  exists avail ss, Forall (fun s => evs_ok [0] avail (s_events s)) ss /\
    dump_terminates_prefix avail ss = false /\
    map (fun s => kept_infos avail (s_infos s)) ss = [[]].       (* repaired: returns, the info is omitted *)
Proof.
  exists 300, [mk_stream [115; 48] [([98; 105; 103], repeat 118 200%nat)] [log_event (mk_call 0 1 1 None 0) 1]].
  repeat apply conj; [|vm_compute; reflexivity|vm_compute; reflexivity].
  repeat constructor; vm_compute; try discriminate; auto.
Qed.
Print Assumptions C42_dump_thread_info_loop_prefix_refuted.

(* Several files / merged dictionary (read_dictionary, dico_map).  For every list
   of per-file dictionaries (any keys, any registration order, duplicates after
   truncation included), opened in any order: through the map of file f, local
   entry j is presented with the name, info length and convertor file f wrote
   (the attributes are those of the first equal entry met) ... *)
Theorem C42_merged_dictionary_returns_written_key : forall files merged maps f local,
  merge_files [] files = (merged, maps) -> nth_error files f = Some local ->
  exists mp, nth_error maps f = Some mp /\ length (presented merged mp) = length local /\
    forall j k, nth_error local j = Some k ->
      let p := nth j (presented merged mp) kent0 in
      k_name p = k_name k /\ k_ilen p = k_ilen k /\ cstr (k_conv p) = cstr (k_conv k).
Proof. exact presented_is_written. Qed.
Print Assumptions C42_merged_dictionary_returns_written_key.
(* ... and the events of file f decoded with the merged dictionary are those
   decoded with its own dictionary ([decode] = decode_keys then decode_rest,
   ProfMerge.decode_split), to which C42_read_back applies *)
Theorem C42_events_through_merged_dictionary : forall files merged maps f local fuel file toff tn,
  merge_files [] files = (merged, maps) -> nth_error files f = Some local ->
  exists mp, nth_error maps f = Some mp /\
    decode_rest fuel file toff tn (presented merged mp) = decode_rest fuel file toff tn local.
Proof. exact decode_rest_through_merge. Qed.
Print Assumptions C42_events_through_merged_dictionary.

(* non-vacuity: a profile with two dictionary entries and three streams (one
   silent) in buffers of 25 + 300 bytes: the dictionary, the thread table and
   stream 0 each need more than one buffer *)
Definition ex_alloc (c j : nat) : N := 325 * (N.of_nat c + 16 * N.of_nat j + 1).
Definition ex_str (n : nat) (b : N) : list N := repeat b n.
Definition ex_dict : list kent :=
  [ mk_kent (ex_str 3 78) (ex_str 12 48) [] 0;
    mk_kent (ex_str 5 107) (ex_str 7 97) (ex_str 4 99) 100 ].
Definition ex_ev (key id : N) (info : bool) : event :=
  log_event (mk_call key id 7 (if info then Some (ex_str 100 (id mod 256)) else None) 2) (id + 1).
Definition ex_streams : list stream :=
  [ mk_stream (ex_str 2 115) [(ex_str 2 105, ex_str 3 118)]
      [ ex_ev 2 1 true; ex_ev 3 2 false; ex_ev 2 3 true;
        ex_ev 3 4 true; ex_ev 2 5 false; ex_ev 3 18446744073709551615 false; ex_ev 2 7 true;
        ex_ev 3 8 false ];
    mk_stream (ex_str 3 116) [] [];
    mk_stream (ex_str 2 117) [] [ ex_ev 2 1 false ] ].
Example C42_example :
  dict_ok 300 ex_dict /\ Forall (stream_ok (map k_ilen ex_dict) 300) ex_streams /\
  length (encode 300 ex_alloc ex_dict ex_streams) = 8%nat /\
  decode 8 (fun o => lookup o (encode 300 ex_alloc ex_dict ex_streams))
         (ex_alloc 0 0) 2 (ex_alloc 1 0) 2 = Some (profile_view 300 ex_alloc ex_dict ex_streams).
Proof.
  repeat apply conj.
  - unfold dict_ok, key_ok, nonul. repeat constructor; vm_compute; try discriminate; auto.
  - unfold stream_ok, evs_ok, ev_ok, nonul. repeat constructor; vm_compute; try discriminate; auto.
  - vm_compute. reflexivity.
  - vm_compute. reflexivity.
Qed.
