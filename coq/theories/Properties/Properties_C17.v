(* C17 — DTD data flush returns the last written value to the owner.
   Statements only; proofs live in DTDFlush/DTDFlushSeq.v, DTDFlushProofs.v, DTDFlushCompile.v
   (on top of DTD/DTDEngine.v).

   Model (DTDFlush/DTDFlushDefs.v): [owner] maps tiles to ranks; the taskpool holds a list [fp] of
   user tasks (with their execution rank) and flush-class tasks ([FFlush r d]: PARSEC_INOUT on tile d,
   executed by rank r; the one executed by the owner is the receive side); [waits] are the positions of
   the parsec_taskpool_wait calls; [frun owner body fp waits g m0 es] folds an ARBITRARY list of events
   Insert / Begin t / End t (a refused event is a no-op; [g] = any sliding window) over the engine and
   keeps, besides the current version of every tile ([memo]), the owner's storage [home]: a task writes
   it only when it runs on the owner and the tile's current version is that storage ([inpl], decided by
   the insertion sequence: false from a write by a task placed elsewhere until the next receive-side
   flush), the receive-side flush task copies its input into it.  [compile owner ops] is what the API
   calls OTask / OFlush / OFlushAll / OWait insert.  [wfb] is the contract of parsec_dtd_data_flush: a
   tile is not named again before a wait that follows its flush. *)
From PV Require Import Base.Tac DTD.DTDDefs DTD.DTDSeq DTD.DTDChain DTD.DTDEngine DTD.DTDProofs
  DTDFlush.DTDFlushDefs DTDFlush.DTDFlushSeq DTDFlush.DTDFlushProofs DTDFlush.DTDFlushCompile.

(* every insertion sequence, ownership map, placement, window and schedule: when the inserting thread
   is back from a wait (w tasks inserted, all of them ended), the owner's storage of every tile whose
   current version is the owner's storage holds the value of the sequential execution in insertion order *)
Theorem C17_owner_copy_after_wait : forall owner body fp waits g m0,
  wfb owner fp waits = true -> forall es w d,
  let s := frun owner body fp waits g m0 es in
  ins (eng s) = w -> (forall j, j < w -> st (eng s) j = Done) ->
  inpl owner fp w d = true ->
  home s d = prefix_mem (fbody_of body fp) (prog_of fp) m0 w d.
Proof.
  intros owner body fp waits g m0 Hwf es w d s Hi Hd Hp.
  apply (owner_copy_after_wait owner body fp waits g m0 (wfb_wf owner fp waits Hwf) es w d); [now split|exact Hp].
Qed.
Print Assumptions C17_owner_copy_after_wait.

(* a receive-side flush task of d makes the owner's storage the current version of d, and it stays so
   as long as no task placed on another rank writes d: with the theorem above, after flush + wait the
   owner holds the sequential value of d *)
Theorem C17_flush_brings_version_home : forall owner fp f d w,
  f < length fp -> ftask_at fp f = FFlush (owner d) d -> f < w ->
  (forall j r t, f < j < w -> ftask_at fp j = FUser r t -> writes t d = true -> r = owner d) ->
  (forall j r, f < j < w -> ftask_at fp j = FFlush r d -> r = owner d) ->
  inpl owner fp w d = true.
Proof. intros owner fp f d w Hf HF. now apply inpl_after_flush. Qed.
Print Assumptions C17_flush_brings_version_home.

(* at the end of a complete run *)
Theorem C17_owner_copy_final : forall owner body fp waits g m0,
  wfb owner fp waits = true -> forall es d,
  let s := frun owner body fp waits g m0 es in
  all_done (prog_of fp) (eng s) = true -> inpl owner fp (length fp) d = true ->
  home s d = snd (seq_dtd body (uprog fp) m0) d.
Proof.
  intros owner body fp waits g m0 Hwf es d s Hd Hp.
  rewrite <- (proj2 (flush_transparent body fp m0) d).
  now apply (owner_copy_final owner body fp waits g m0 (wfb_wf owner fp waits Hwf) es d).
Qed.
Print Assumptions C17_owner_copy_final.

(* flush tasks are transparent: inserting flushes (of any tile, touched or not, any number of times,
   anywhere) changes neither what the user tasks observe nor the values, in the sequential reference *)
Theorem C17_flush_transparent : forall body fp m0,
  users fp (fst (seq_dtd (fbody_of body fp) (prog_of fp) m0)) = fst (seq_dtd body (uprog fp) m0) /\
  forall d, snd (seq_dtd (fbody_of body fp) (prog_of fp) m0) d = snd (seq_dtd body (uprog fp) m0) d.
Proof. exact flush_transparent. Qed.
Print Assumptions C17_flush_transparent.

(* ... and in every execution: every task (in particular one inserted after a flush and the wait)
   observes the values of the sequential execution, and the current versions at the end are its result *)
Theorem C17_observations_sequential : forall owner body fp waits g m0,
  wfb owner fp waits = true -> forall es,
  let s := eng (frun owner body fp waits g m0 es) in
  (forall t i, obs s t = Some i ->
     t < length fp /\ i = nth t (fst (seq_dtd (fbody_of body fp) (prog_of fp) m0)) []) /\
  (all_done (prog_of fp) s = true -> forall d, memo s d = snd (seq_dtd body (uprog fp) m0) d).
Proof.
  intros owner body fp waits g m0 Hwf es s.
  destruct (flush_observations owner body fp waits g m0 (wfb_wf owner fp waits Hwf) es) as [Ha Hb]. split.
  - intros t i Ho. destruct (Ha t i Ho) as [Hl Hi]. split; [|exact Hi]. unfold prog_of in Hl. now rewrite map_length in Hl.
  - intros Hd d. rewrite <- (proj2 (flush_transparent body fp m0) d). now apply Hb.
Qed.
Print Assumptions C17_observations_sequential.

(* the sequential value is the output of the last inserted task that writes the datum, or the initial value *)
Theorem C17_last_written_value : forall body p m0 d,
  (forall j, j < length p -> writes (task_at p j) d = true ->
     (forall i, j < i < length p -> writes (task_at p i) d = false) ->
     snd (seq_dtd body p m0) d = body j (nth j (fst (seq_dtd body p m0)) [])) /\
  ((forall j, j < length p -> writes (task_at p j) d = false) -> snd (seq_dtd body p m0) d = m0 d).
Proof.
  intros body p m0 d. split.
  - intros j Hj Hw Hn. now apply seq_final_last_writer.
  - apply seq_final_unwritten.
Qed.
Print Assumptions C17_last_written_value.

(* reads (of a whole tile or of its leading part: the model works on tile values, a tile is moved as a whole by
   the datatype of its first access) change no value, do not move a version and do not touch the owner's storage:
   they do not change what a flush returns *)
Theorem C17_reads_do_not_change_what_a_flush_returns : forall owner body k r t, (forall d, writes t d = false) ->
  (forall m d, exec_task body k t m d = m d) /\
  (forall ip d, inpl_step owner ip (FUser r t) d = ip d) /\
  (forall fp j v h d, ftask_at fp j = FUser r t -> home_update owner fp j v h d = h d).
Proof. exact read_only_transparent. Qed.
Print Assumptions C17_reads_do_not_change_what_a_flush_returns.

(* the API level: what the calls insert.  After parsec_dtd_data_flush(d) the current version of d is
   the owner's storage; after parsec_dtd_data_flush_all (followed by waits) that of every tile is;
   the user tasks of the inserted sequence are the application's tasks *)
Theorem C17_flush_call_brings_home : forall owner ops d,
  let c := compile owner (ops ++ [OFlush d]) in inpl owner (c_out c) (length (c_out c)) d = true.
Proof. exact compile_flush_clean. Qed.
Print Assumptions C17_flush_call_brings_home.

Theorem C17_flush_all_call_brings_home : forall owner ops tail, (forall o, In o tail -> o = OWait) -> forall d,
  let c := compile owner (ops ++ OFlushAll :: tail) in inpl owner (c_out c) (length (c_out c)) d = true.
Proof. exact compile_flush_all_clean. Qed.
Print Assumptions C17_flush_all_call_brings_home.

(* the property as the application sees it: insert any tasks / flushes / waits (respecting the contract),
   end with flush_all and a wait: every owner holds, for each of its tiles, the value of the sequential
   execution of the application's tasks, whichever ranks ran them *)
Theorem C17_flush_all_returns_last_written : forall owner body ops g m0,
  let c := compile owner (ops ++ [OFlushAll; OWait]) in
  wfb owner (c_out c) (c_waits c) = true -> forall es,
  let s := frun owner body (c_out c) (c_waits c) g m0 es in
  all_done (prog_of (c_out c)) (eng s) = true ->
  forall d, home s d = snd (seq_dtd body (utasks ops) m0) d.
Proof.
  intros owner body ops g m0 c Hwf es s Hd d.
  assert (Hu : uprog (c_out c) = utasks ops).
  { unfold c. rewrite compile_uprog. unfold utasks. rewrite flat_map_app. cbn. now rewrite app_nil_r. }
  rewrite <- Hu. apply (C17_owner_copy_final owner body (c_out c) (c_waits c) g m0 Hwf es d Hd).
  apply (compile_flush_all_clean owner ops [OWait]). intros o [<-|[]]. reflexivity.
Qed.
Print Assumptions C17_flush_all_returns_last_written.

(* no reachable state is stuck before every task is done (waits included), for every window that lets
   the inserting thread insert when nothing is pending *)
Theorem C17_progress : forall owner body fp waits g m0,
  wfb owner fp waits = true -> (forall i, g i i = true) -> forall es,
  all_done (prog_of fp) (eng (frun owner body fp waits g m0 es)) = false ->
  exists e, enabled (prog_of fp) (rdep owner fp) (wait_gate waits g) (eng (frun owner body fp waits g m0 es)) e = true.
Proof.
  intros owner body fp waits g m0 Hwf Hg es. now apply flush_progress; [apply wfb_wf|].
Qed.
Print Assumptions C17_progress.

(* non-vacuity.  2 ranks, tile 0 owned by rank 0, tile 1 by rank 1.  T0 on rank 1 writes both tiles,
   T1 on rank 0 reads tile 0 and rewrites tile 1; flush(0) in the middle; T2 on rank 1 reads tile 1;
   flush_all; wait; T3 on rank 0 (after the wait) rewrites tile 0 in the owner's storage; flush_all; wait.
   An interleaved schedule with refused events (Begin before the dependencies ended, Insert at a wait). *)
Definition C17_ex_owner : datum -> rank := fun d => d.
Definition C17_ex_ops : list op :=
  [OTask 1 [(0,RW);(1,RW)]; OTask 0 [(0,R);(1,W)]; OFlush 0; OTask 1 [(1,R)]; OFlushAll; OWait;
   OTask 0 [(0,RW)]; OFlush 1; OFlush 0].
Definition C17_ex_es : list event :=
  [Insert; Insert; Begin 1; Begin 0; Insert; Insert; Begin 2; End 0; Begin 1; Insert; Begin 4; End 1; Begin 2; Begin 4;
   Insert; Insert; Insert; End 4; Begin 5; End 2; Begin 3; End 5; End 3; Begin 6; Insert; End 6; Insert; Begin 7; Insert;
   Begin 8; End 7; Begin 8; End 8; Insert].
Example C17_example :
  let c := compile C17_ex_owner (C17_ex_ops ++ [OFlushAll; OWait]) in
  c_out c = [FUser 1 [(0,RW);(1,RW)]; FUser 0 [(0,R);(1,W)]; FFlush 1 0; FFlush 0 0; FUser 1 [(1,R)];
             FFlush 0 1; FFlush 1 1; FUser 0 [(0,RW)]; FFlush 0 0] /\
  c_waits c = [9; 7] /\ wfb C17_ex_owner (c_out c) (c_waits c) = true /\
  (let s := frun C17_ex_owner fbody (c_out c) (c_waits c) no_window mem0 C17_ex_es in
   all_done (prog_of (c_out c)) (eng s) = true /\
   map (home s) [0;1] = map (snd (seq_dtd fbody (utasks C17_ex_ops) mem0)) [0;1] /\
   map (home s) [0;1] = [269832; 268778]%N) /\
  (* before the flushes have run the owner of tile 0 still holds the initial value *)
  (let s := frun C17_ex_owner fbody (c_out c) (c_waits c) no_window mem0 [Insert; Begin 0; End 0] in
   home s 0 = 100%N /\ memo (eng s) 0 = 74565%N).
Proof. vm_compute. repeat split. Qed.

(* the timing of the flush is not a parameter: the theorems hold for every event list.  A writer chain that leaves
   the owner and returns (rank 0 owns tile 0; writers on ranks 0, 1, 0: the last writer works on a copy, inpl = false),
   flushed EARLY (the flush task is inserted while the writers are pending: tile->last_user alive) and LATE (after they
   have all ended: the not-alive branch of parsec_insert_dtd_flush_task): in both runs the owner's storage ends with
   the value of the last writer, and before the flush task has run it still holds the value of the first one *)
Definition C17_bounce_ops : list op := [OTask 0 [(0,RW)]; OTask 1 [(0,RW)]; OTask 0 [(0,RW)]; OFlush 0; OWait].
Example C17_early_and_late_flush :
  let c := compile C17_ex_owner C17_bounce_ops in
  let run := frun C17_ex_owner fbody (c_out c) (c_waits c) no_window mem0 in
  let early := [Insert; Insert; Insert; Insert; Begin 0; End 0; Begin 1; End 1; Begin 2; End 2; Begin 3; End 3] in
  let late := [Insert; Begin 0; End 0; Insert; Begin 1; End 1; Insert; Begin 2; End 2; Insert; Begin 3; End 3] in
  c_out c = [FUser 0 [(0,RW)]; FUser 1 [(0,RW)]; FUser 0 [(0,RW)]; FFlush 0 0] /\
  inpl C17_ex_owner (c_out c) 3 0 = false /\ wfb C17_ex_owner (c_out c) (c_waits c) = true /\
  home (run early) 0 = snd (seq_dtd fbody (utasks C17_bounce_ops) mem0) 0 /\
  home (run late) 0 = snd (seq_dtd fbody (utasks C17_bounce_ops) mem0) 0 /\
  home (run (firstn 11 late)) 0 = hd 0%N (nth 1 (fst (seq_dtd fbody (utasks C17_bounce_ops) mem0)) []) /\
  home (run late) 0 <> home (run (firstn 11 late)) 0.
Proof. vm_compute. repeat split; discriminate. Qed.

(* the contract is needed: without the wait, a task inserted after the flush of a tile is chained behind
   nothing and may run before the tasks that precede the flush *)
Example C17_unwaited_flush_refuted :
  let c := compile C17_ex_owner [OTask 1 [(0,RW)]; OFlush 0; OTask 0 [(0,R)]] in
  wfb C17_ex_owner (c_out c) (c_waits c) = false /\
  (let s := eng (frun C17_ex_owner fbody (c_out c) (c_waits c) no_window mem0
                   [Insert; Insert; Insert; Insert; Begin 3; End 3]) in
   obs s 3 = Some [100%N] /\ nth 3 (fst (seq_dtd (fbody_of fbody (c_out c)) (prog_of (c_out c)) mem0)) [] = [2349%N]).
Proof. vm_compute. repeat split. Qed.
