(* C41 — which rules of InfoDefs the code in /repo follows today.
   THE SWITCH: each field is [false] while /repo carries the defect and must be
   set to [true] in the same change that applies the corresponding repair
   (notes/findings/C41-*.patch):
     fx_reg   : parsec_info_register, next_item = item           (C41-id-reuse-after-hole)
     fx_ioa   : parsec_ioa_resize_and_rdlock, memset range        (C41-resize-clobbers-slot)
     fx_unreg : parsec_info_unregister clears slots without dtor  (C41-stale-slot-after-unregister)
   Only the extraction (the model run against the code) depends on this file;
   the theorems of Properties_C41.v are stated for explicit values of the flags. *)
From PV Require Import Info.InfoDefs.
Definition code_fixes : fixes := {| fx_reg := true; fx_ioa := true; fx_unreg := true |}.
