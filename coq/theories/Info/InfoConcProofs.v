(* C41 (concurrent half) — invariants of the atomic-step model InfoConcDefs, for any
   number of threads, any thread programs and any schedule.

   "Publish-once" discipline on a slot i ([once_op]): the test_and_set calls on i expect
   NULL and bring a non-NULL value, nobody calls set on i; gets are free.  Then the slot,
   once non-NULL, never changes, and every non-NULL value returned by any call on i is the
   value the slot holds: all callers agree, at most one of them installed its own value.
   Independently of any discipline, an object built by a constructor during a get is
   either the value returned (and then not destructed) or destructed exactly once when
   the info has a destructor. *)
From PV Require Import Base.Tac Info.InfoConcDefs.
From Coq Require Import NArith.
Local Open Scope nat_scope.

(* ---- lists ---------------------------------------------------------------------- *)
Lemma set_nth_length {A} (l : list A) i x : length (set_nth l i x) = length l.
Proof. revert i; induction l as [|y l IH]; intros [|i]; cbn; auto. Qed.

Lemma nth_set_nth (l : list N) i j x : i < length l ->
  nth j (set_nth l i x) 0%N = if j =? i then x else nth j l 0%N.
Proof.
  revert i j; induction l as [|y l IH]; intros i j Hi; cbn in Hi; [lia|].
  destruct i as [|i], j as [|j]; cbn; try reflexivity. apply IH. lia.
Qed.

Lemma nth_set_nth_other (l : list N) i j x : j <> i -> nth j (set_nth l i x) 0%N = nth j l 0%N.
Proof.
  revert i j; induction l as [|y l IH]; intros i j Hne; [now destruct i|].
  destruct i as [|i], j as [|j]; cbn; try reflexivity; [lia|]. apply IH. lia.
Qed.

Lemma nth_error_set_nth {A} (l : list A) t u x y : nth_error l t = Some y ->
  nth_error (set_nth l t x) u = if u =? t then Some x else nth_error l u.
Proof.
  revert t u; induction l as [|z l IH]; intros t u H; [now destruct t|].
  destruct t as [|t], u as [|u]; cbn in *; try reflexivity. now apply IH.
Qed.

Lemma mkobj_nonzero c t k : mkobj c t k <> 0%N.
Proof. unfold mkobj. lia. Qed.

(* ---- what a thread knows about slot i ------------------------------------------------ *)
Definition res_slot (r : cres) : nat := match r with RT i _ _ | RS i _ _ | RG i _ _ _ => i end.
Definition res_val (r : cres) : N := match r with RT _ _ r | RS _ _ r | RG _ r _ _ => r end.
(* the operation's own value: what it tried to install *)
Definition res_own (r : cres) : N := match r with RT _ v _ | RS _ v _ => v | RG _ _ made _ => made end.

Definition once_op (i : nat) (o : cop) : Prop :=
  match o with
  | CT j v old => j = i -> old = 0%N /\ v <> 0%N
  | CS j _ => j <> i
  | CG _ => True
  end.

(* values already read from slot i that the thread is about to return *)
Definition pend (i : nat) (th : cthr) : list N :=
  match c_pc th, c_ops th with
  | PT2 r, CT j _ _ :: _ => if j =? i then [r] else []
  | PG1 r, CG j :: _ => if j =? i then [r] else []
  | PG6 _ r, CG j :: _ => if j =? i then [r] else []
  | _, _ => []
  end.

Definition ThrOK (i : nat) (w : N) (th : cthr) : Prop :=
  Forall (once_op i) (c_ops th) /\
  (forall x, In x (pend i th) -> x <> 0%N -> x = w) /\
  (forall r, In r (c_res th) -> res_slot r = i -> res_val r <> 0%N -> res_val r = w).

Definition Inv (i : nat) (c : ccfg) : Prop :=
  i < length (g_slots c) /\
  forall u th, nth_error (g_thr c) u = Some th -> ThrOK i (slot c i) th.

Lemma ThrOK_zero i v th : ThrOK i 0%N th -> ThrOK i v th.
Proof.
  intros (H1 & H2 & H3). split; [exact H1|]. split.
  - intros x Hx Hn. exfalso. apply Hn. now apply H2.
  - intros r Hr Hs Hn. exfalso. apply Hn. now apply H3.
Qed.

(* the stepped thread is replaced, slot i keeps its value or goes from NULL to something *)
Lemma inv_update i c t th th' slots' lock' :
  Inv i c -> nth_error (g_thr c) t = Some th -> length slots' = length (g_slots c) ->
  (nth i slots' 0%N = slot c i \/ slot c i = 0%N) ->
  ThrOK i (nth i slots' 0%N) th' ->
  Inv i {| g_slots := slots'; g_lock := lock'; g_infos := g_infos c; g_thr := set_nth (g_thr c) t th' |}.
Proof.
  intros [Hlen Hall] Ht Hl Hw Hth'. split; cbn [g_slots g_thr]; [lia|].
  intros u x. rewrite (nth_error_set_nth _ _ _ _ _ Ht). unfold slot. cbn [g_slots].
  destruct (u =? t).
  - intros H; inversion H; subst x. exact Hth'.
  - intros Hx. specialize (Hall u x Hx). destruct Hw as [Hw|Hw].
    + now rewrite Hw.
    + rewrite Hw in Hall. now apply ThrOK_zero.
Qed.

Lemma ThrOK_at_pc i w0 w th p : ThrOK i w0 th -> (w0 = w \/ w0 = 0%N) ->
  (forall x, In x (pend i (at_pc th p)) -> x <> 0%N -> x = w) -> ThrOK i w (at_pc th p).
Proof.
  intros Hok Hw H2. assert (Hok' : ThrOK i w th).
  { destruct Hw as [Hw|Hw]; [now rewrite <- Hw|rewrite Hw in Hok; now apply ThrOK_zero]. }
  destruct Hok' as (H1 & _ & H3). split; [exact H1|]. split; [exact H2|exact H3].
Qed.

Lemma pend_finish i th r : pend i (finish th r) = [].
Proof. unfold pend, finish. cbn [c_pc c_ops]. destruct (tl (c_ops th)); reflexivity. Qed.

Lemma ThrOK_finish i w th r :
  ThrOK i w th -> (res_slot r = i -> res_val r <> 0%N -> res_val r = w) -> ThrOK i w (finish th r).
Proof.
  intros (H1 & _ & H3) Hr. split; [|split].
  - cbn [finish c_ops]. destruct (c_ops th) as [|o l]; cbn [tl]; [constructor|]. now inversion H1.
  - rewrite pend_finish. intros x [].
  - cbn [finish c_res]. intros x [<-|Hx]; [exact Hr|now apply H3].
Qed.

(* ---- one step preserves the invariant --------------------------------------------------- *)
Lemma cstep_Inv i c t : Inv i c -> Inv i (cstep c t).
Proof.
  intros HI. pose proof HI as [Hlen Hall]. unfold cstep.
  destruct (nth_error (g_thr c) t) as [th|] eqn:Ht; [|exact HI].
  pose proof (Hall t th Ht) as Hok. pose proof Hok as (Hops & Hpend & Hres).
  (* the slots are left alone; the new pc has the pending values [pd] *)
  assert (Hmove : forall p lock',
            (forall x, In x (pend i (at_pc th p)) -> x <> 0%N -> x = slot c i) ->
            Inv i {| g_slots := g_slots c; g_lock := lock'; g_infos := g_infos c;
                     g_thr := set_nth (g_thr c) t (at_pc th p) |}).
  { intros p lock' Hp. eapply inv_update; eauto. eapply ThrOK_at_pc; eauto. }
  assert (Hfin : forall r lock', (res_slot r = i -> res_val r <> 0%N -> res_val r = slot c i) ->
            Inv i {| g_slots := g_slots c; g_lock := lock'; g_infos := g_infos c;
                     g_thr := set_nth (g_thr c) t (finish th r) |}).
  { intros r lock' Hr. eapply inv_update; eauto. now apply ThrOK_finish. }
  (* slot j receives v: either j is another slot, or slot i was NULL *)
  assert (Hwrite : forall j v p, (j = i -> slot c i = 0%N) ->
            (forall x, In x (pend i (at_pc th p)) -> x <> 0%N -> x = nth i (set_nth (g_slots c) j v) 0%N) ->
            Inv i (with_slot_thr c j v t (at_pc th p))).
  { intros j v p Hj Hp. unfold with_slot_thr. eapply inv_update; eauto; [apply set_nth_length| |].
    - destruct (Nat.eq_dec j i) as [->|Hne]; [right; now apply Hj|left; unfold slot; apply nth_set_nth_other; congruence].
    - eapply ThrOK_at_pc; eauto.
      destruct (Nat.eq_dec j i) as [->|Hne]; [right; now apply Hj|left; unfold slot; symmetry; apply nth_set_nth_other; congruence]. }
  unfold with_thr, with_lock_thr.
  destruct (c_pc th) eqn:Hpc; destruct (c_ops th) as [|[j v old|j v|j] rest] eqn:Hop;
    try (apply Hmove; unfold pend, at_pc; cbn [c_pc c_ops]; rewrite ?Hop; intros x []; fail);
    try exact HI.
  - (* PT1, CT: the CAS *)
    destruct (slot c j =? old)%N eqn:E.
    + apply N.eqb_eq in E. apply Hwrite.
      * intros ->. inversion Hops as [|? ? Ho _]; subst. destruct (Ho eq_refl) as [Hold _]. congruence.
      * unfold pend, at_pc. cbn [c_pc c_ops]. rewrite ?Hop. destruct (j =? i) eqn:Eji; [|intros x []].
        apply Nat.eqb_eq in Eji. subst j. intros x [<-|[]] _. rewrite nth_set_nth by exact Hlen.
        now rewrite Nat.eqb_refl.
    + apply Hmove. unfold pend, at_pc. cbn [c_pc c_ops]. rewrite ?Hop. destruct (j =? i) eqn:Eji; [|intros x []].
      apply Nat.eqb_eq in Eji. subst j. intros x [<-|[]] _. reflexivity.
  - (* PT2, CT: return *)
    apply Hfin. cbn [res_slot res_val]. intros -> Hr. apply Hpend; [|exact Hr].
    unfold pend. rewrite Hpc, Hop, Nat.eqb_refl. now left.
  - (* PS0, CS: never on slot i *)
    apply Hwrite.
    + intros ->. inversion Hops as [|? ? Ho _]; subst. cbn in Ho. congruence.
    + unfold pend, at_pc. cbn [c_pc c_ops]. rewrite ?Hop. intros x [].
  - (* PS1, CS: return *)
    apply Hfin. cbn [res_slot res_val]. intros ->. inversion Hops as [|? ? Ho _]; subst. cbn in Ho. congruence.
  - (* PG0, CG: read *)
    apply Hmove. unfold pend, at_pc. cbn [c_pc c_ops]. rewrite ?Hop. destruct (j =? i) eqn:Eji; [|intros x []].
    apply Nat.eqb_eq in Eji. subst j. intros x [<-|[]] _. reflexivity.
  - (* PG1, CG *)
    destruct (ret =? 0)%N eqn:E.
    + apply Hmove. unfold pend, at_pc. cbn [c_pc c_ops]. rewrite ?Hop. intros x [].
    + apply Hfin. cbn [res_slot res_val]. intros -> Hr. apply Hpend; [|exact Hr].
      unfold pend. rewrite Hpc, Hop, Nat.eqb_refl. now left.
  - (* PG2 with no op: cannot happen, any op: the list lock *)
    destruct (g_lock c).
    + eapply inv_update; eauto. split; [exact Hops|]. split; [|exact Hres].
      unfold pend. cbn [c_pc c_ops]. rewrite ?Hop. intros x [].
    + apply Hmove. unfold pend, at_pc. cbn [c_pc c_ops]. rewrite ?Hop. intros x [].
  - destruct (g_lock c).
    + eapply inv_update; eauto. split; [exact Hops|]. split; [|exact Hres].
      unfold pend. cbn [c_pc c_ops]. rewrite ?Hop. intros x [].
    + apply Hmove. unfold pend, at_pc. cbn [c_pc c_ops]. rewrite ?Hop. intros x [].
  - destruct (g_lock c).
    + eapply inv_update; eauto. split; [exact Hops|]. split; [|exact Hres].
      unfold pend. cbn [c_pc c_ops]. rewrite ?Hop. intros x [].
    + apply Hmove. unfold pend, at_pc. cbn [c_pc c_ops]. rewrite ?Hop. intros x [].
  - destruct (g_lock c).
    + eapply inv_update; eauto. split; [exact Hops|]. split; [|exact Hres].
      unfold pend. cbn [c_pc c_ops]. rewrite ?Hop. intros x [].
    + apply Hmove. unfold pend, at_pc. cbn [c_pc c_ops]. rewrite ?Hop. intros x [].
  - (* PG3, CG: unlock, constructor *)
    destruct ((fst (nth j (g_infos c) (0%N, false)) =? 0)%N || (fst (nth j (g_infos c) (0%N, false)) =? 1)%N).
    + apply Hfin. cbn [res_slot res_val]. intros _ Hr. now elim Hr.
    + eapply inv_update; eauto. split; [exact Hops|]. split; [|exact Hres].
      unfold pend. cbn [c_pc c_ops]. rewrite ?Hop. intros x [].
  - (* PG5, CG: the CAS against NULL *)
    destruct (slot c j =? 0)%N eqn:E.
    + apply N.eqb_eq in E. apply Hwrite.
      * now intros ->.
      * unfold pend, at_pc. cbn [c_pc c_ops]. rewrite ?Hop. destruct (j =? i) eqn:Eji; [|intros x []].
        apply Nat.eqb_eq in Eji. subst j. intros x [<-|[]] _. rewrite nth_set_nth by exact Hlen.
        now rewrite Nat.eqb_refl.
    + apply Hmove. unfold pend, at_pc. cbn [c_pc c_ops]. rewrite ?Hop. destruct (j =? i) eqn:Eji; [|intros x []].
      apply Nat.eqb_eq in Eji. subst j. intros x [<-|[]] _. reflexivity.
  - (* PG6, CG: return *)
    apply Hfin. cbn [res_slot res_val]. intros -> Hr. apply Hpend; [|exact Hr].
    unfold pend. rewrite Hpc, Hop, Nat.eqb_refl. now left.
Qed.

(* ---- every schedule ------------------------------------------------------------------------ *)
Lemma crun_Inv i sched : forall c, Inv i c -> Inv i (crun c sched).
Proof. unfold crun. apply fold_left_inv. intros c t. apply cstep_Inv. Qed.

Lemma nth_error_map_thr0 progs u th : nth_error (map thr0 progs) u = Some th ->
  exists p, In p progs /\ th = thr0 p.
Proof.
  revert u; induction progs as [|p l IH]; intros [|u] H; cbn in H; try discriminate.
  - inversion H. exists p. split; [now left|reflexivity].
  - destruct (IH u H) as (q & Hq & E). exists q. split; [now right|exact E].
Qed.

Lemma cinit_Inv i infos progs : i < length infos -> (forall p, In p progs -> Forall (once_op i) p) ->
  Inv i (cinit infos progs).
Proof.
  intros Hi Hp. split; cbn [cinit g_slots g_thr]; [now rewrite repeat_length|].
  intros u th H. destruct (nth_error_map_thr0 _ _ _ H) as (p & Hin & ->).
  split; [exact (Hp p Hin)|]. split; cbn; intros ? [].
Qed.

(* all callers of a publish-once slot agree with the slot *)
Lemma P_conc_agreement infos progs sched i :
  i < length infos -> (forall p, In p progs -> Forall (once_op i) p) ->
  let c := crun (cinit infos progs) sched in
  forall u th r, nth_error (g_thr c) u = Some th -> In r (c_res th) ->
    res_slot r = i -> res_val r <> 0%N -> res_val r = slot c i.
Proof.
  intros Hi Hp c u th r Hth Hr. destruct (crun_Inv i sched _ (cinit_Inv i infos progs Hi Hp)) as [_ Hall].
  destruct (Hall u th Hth) as (_ & _ & H3). now apply H3.
Qed.

(* at most one winner: two completed calls that both returned their own value brought the same value *)
Lemma P_conc_single_winner infos progs sched i :
  i < length infos -> (forall p, In p progs -> Forall (once_op i) p) ->
  let c := crun (cinit infos progs) sched in
  forall u1 th1 r1 u2 th2 r2,
    nth_error (g_thr c) u1 = Some th1 -> In r1 (c_res th1) -> res_slot r1 = i ->
    nth_error (g_thr c) u2 = Some th2 -> In r2 (c_res th2) -> res_slot r2 = i ->
    res_val r1 = res_own r1 -> res_own r1 <> 0%N -> res_val r2 = res_own r2 -> res_own r2 <> 0%N ->
    res_own r1 = res_own r2.
Proof.
  intros Hi Hp c u1 th1 r1 u2 th2 r2 H1 I1 S1 H2 I2 S2 W1 N1 W2 N2.
  pose proof (P_conc_agreement infos progs sched i Hi Hp u1 th1 r1 H1 I1 S1) as A1.
  pose proof (P_conc_agreement infos progs sched i Hi Hp u2 th2 r2 H2 I2 S2) as A2.
  cbv zeta in A1, A2. rewrite <- W1, <- W2. rewrite A1, A2 by congruence. reflexivity.
Qed.

(* ---- constructed objects --------------------------------------------------------------------- *)
Definition res_ok (infos : list (N * bool)) (x : cres) : Prop :=
  match x with
  | RG j r made dead =>
      if (made =? 0)%N then dead = []
      else r <> 0%N /\ dead = (if negb (r =? made)%N && snd (nth j infos (0%N, false)) then [made] else [])
  | _ => True
  end.
Definition pc_ok (p : cpc) : Prop :=
  match p with
  | PG4 nio | PG5 nio => nio <> 0%N
  | PG6 nio r => nio <> 0%N /\ r <> 0%N
  | _ => True
  end.
Definition GOK infos (th : cthr) : Prop := pc_ok (c_pc th) /\ Forall (res_ok infos) (c_res th).
Definition GInv infos (c : ccfg) : Prop :=
  g_infos c = infos /\ forall u th, nth_error (g_thr c) u = Some th -> GOK infos th.

Lemma ginv_update infos c t th th' slots' lock' :
  GInv infos c -> nth_error (g_thr c) t = Some th -> GOK infos th' ->
  GInv infos {| g_slots := slots'; g_lock := lock'; g_infos := g_infos c; g_thr := set_nth (g_thr c) t th' |}.
Proof.
  intros [Hi Hall] Ht Hth'. split; [exact Hi|]. cbn [g_thr]. intros u x.
  rewrite (nth_error_set_nth _ _ _ _ _ Ht). destruct (u =? t); [intros H; inversion H; now subst|apply Hall].
Qed.

Lemma GOK_finish infos th r : GOK infos th -> res_ok infos r -> GOK infos (finish th r).
Proof.
  intros [_ H2] Hr. split.
  - cbn [finish c_pc]. destruct (tl (c_ops th)); exact I.
  - cbn [finish c_res]. now constructor.
Qed.

Lemma cstep_GInv infos c t : GInv infos c -> GInv infos (cstep c t).
Proof.
  intros HG. pose proof HG as [Hinf Hall]. unfold cstep.
  destruct (nth_error (g_thr c) t) as [th|] eqn:Ht; [|exact HG].
  pose proof (Hall t th Ht) as [Hpc Hres].
  assert (Hmove : forall p slots' lock', pc_ok p ->
            GInv infos {| g_slots := slots'; g_lock := lock'; g_infos := g_infos c;
                          g_thr := set_nth (g_thr c) t (at_pc th p) |}).
  { intros p slots' lock' Hp. eapply ginv_update; eauto. split; [exact Hp|exact Hres]. }
  assert (Hfin : forall r lock', res_ok infos r ->
            GInv infos {| g_slots := g_slots c; g_lock := lock'; g_infos := g_infos c;
                          g_thr := set_nth (g_thr c) t (finish th r) |}).
  { intros r lock' Hr. eapply ginv_update; eauto. apply GOK_finish; [split; assumption|exact Hr]. }
  unfold with_thr, with_lock_thr, with_slot_thr.
  destruct (c_pc th) eqn:Epc; destruct (c_ops th) as [|[j v old|j v|j] rest] eqn:Hop;
    try (apply Hmove; exact I); try exact HG; try (apply Hfin; exact I); cbn [pc_ok] in Hpc.
  - destruct (slot c j =? old)%N; apply Hmove; exact I.
  - destruct (ret =? 0)%N; [apply Hmove; exact I|apply Hfin; reflexivity].
  - destruct (g_lock c); [|apply Hmove; exact I]. eapply ginv_update; eauto. split; [exact I|exact Hres].
  - destruct (g_lock c); [|apply Hmove; exact I]. eapply ginv_update; eauto. split; [exact I|exact Hres].
  - destruct (g_lock c); [|apply Hmove; exact I]. eapply ginv_update; eauto. split; [exact I|exact Hres].
  - destruct (g_lock c); [|apply Hmove; exact I]. eapply ginv_update; eauto. split; [exact I|exact Hres].
  - destruct ((fst (nth j (g_infos c) (0%N, false)) =? 0)%N || (fst (nth j (g_infos c) (0%N, false)) =? 1)%N).
    + apply Hfin. reflexivity.
    + eapply ginv_update; eauto. split; [apply mkobj_nonzero|exact Hres].
  - apply Hmove. exact Hpc.
  - apply Hmove. exact Hpc.
  - apply Hmove. exact Hpc.
  - apply Hmove. exact Hpc.
  - destruct (slot c j =? 0)%N eqn:E; apply Hmove; cbn [pc_ok]; [tauto|].
    split; [exact Hpc|now apply N.eqb_neq].
  - destruct Hpc as [Hn Hr]. apply Hfin. cbn [res_ok]. apply N.eqb_neq in Hn. rewrite Hn.
    split; [exact Hr|]. now rewrite Hinf.
Qed.

Lemma cinit_GInv infos progs : GInv infos (cinit infos progs).
Proof.
  split; [reflexivity|]. cbn [cinit g_thr]. intros u th H.
  destruct (nth_error_map_thr0 _ _ _ H) as (p & _ & ->). split; [exact I|constructor].
Qed.

(* an object built by a constructor during a get is the value returned, or it lost the
   test-and-set against NULL and is destructed exactly when the info has a destructor;
   nothing is destructed otherwise; a get that built an object never returns NULL *)
Lemma P_conc_objects infos progs sched u th j r made dead :
  nth_error (g_thr (crun (cinit infos progs) sched)) u = Some th -> In (RG j r made dead) (c_res th) ->
  (made = 0%N -> dead = []) /\
  (made <> 0%N -> r <> 0%N /\ (r = made -> dead = []) /\
                  (r <> made -> dead = if snd (nth j infos (0%N, false)) then [made] else [])).
Proof.
  intros Hth Hin.
  assert (HG : GInv infos (crun (cinit infos progs) sched)).
  { unfold crun. apply fold_left_inv; [intros c t; apply cstep_GInv|apply cinit_GInv]. }
  destruct HG as [_ Hall]. destruct (Hall u th Hth) as [_ Hres].
  rewrite Forall_forall in Hres. specialize (Hres _ Hin). cbn [res_ok] in Hres.
  destruct (made =? 0)%N eqn:E.
  - apply N.eqb_eq in E. split; [intros _; exact Hres|congruence].
  - apply N.eqb_neq in E. split; [congruence|]. intros _. destruct Hres as [Hr Hd]. split; [exact Hr|].
    split; intros H.
    + subst r. now rewrite N.eqb_refl in Hd.
    + apply N.eqb_neq in H. now rewrite H in Hd.
Qed.

(* on a publish-once slot an object that was destructed is not the one stored *)
Lemma P_conc_destructed_not_stored infos progs sched i :
  i < length infos -> (forall p, In p progs -> Forall (once_op i) p) ->
  let c := crun (cinit infos progs) sched in
  forall u th r made dead d, nth_error (g_thr c) u = Some th -> In (RG i r made dead) (c_res th) ->
    In d dead -> d <> slot c i.
Proof.
  intros Hi Hp c u th r made dead d Hth Hin Hd.
  destruct (P_conc_objects infos progs sched u th i r made dead Hth Hin) as [H0 H1].
  destruct (N.eq_dec made 0) as [E|E]; [rewrite (H0 E) in Hd; destruct Hd|].
  destruct (H1 E) as (Hr & Hsame & Hdiff).
  destruct (N.eq_dec r made) as [E2|E2]; [rewrite (Hsame E2) in Hd; destruct Hd|].
  rewrite (Hdiff E2) in Hd. destruct (snd (nth i infos (0%N, false))); [|destruct Hd].
  destruct Hd as [<-|[]].
  pose proof (P_conc_agreement infos progs sched i Hi Hp u th (RG i r made dead) Hth Hin eq_refl Hr) as A.
  cbn [res_val] in A. cbv zeta in A. fold c in A. congruence.
Qed.

(* non-vacuity: three threads, two of them race to install their value, all agree *)
Lemma conc_example :
  let c := crun (cinit [(5%N, true)] [[CT 0 0xa1%N 0%N]; [CG 0]; [CG 0; CT 0 0xb2%N 0%N]])
                [2; 1; 2; 1; 2; 1; 2; 1; 2; 1; 2; 0; 1; 0; 2; 1; 0; 0; 1; 1; 1; 2; 2; 2; 2; 2; 2; 1; 1] in
  c_all_done c = true /\ slot c 0 = mkobj 5 2 1 /\
  map c_res (g_thr c) = [[RT 0 0xa1%N (mkobj 5 2 1)];
                         [RG 0 (mkobj 5 2 1) (mkobj 5 1 1) [mkobj 5 1 1]];
                         [RT 0 0xb2%N (mkobj 5 2 1); RG 0 (mkobj 5 2 1) (mkobj 5 2 1) []]].
Proof. vm_compute. repeat split. Qed.
