(* C41 (concurrent half) — invariants of the atomic-step model InfoConcDefs, for any
   number of threads, any thread programs and any schedule.

   "Publish-once" discipline on a slot i ([once_op]): the test_and_set calls on i expect
   NULL and bring a non-NULL value, nobody calls set on i; gets are free.  Then the slot,
   once non-NULL, never changes, and every non-NULL value returned by any call on i is the
   value the slot holds: all callers agree, at most one of them installed its own value.
   Independently of any discipline, an object built by a constructor during a get is
   either the value returned (and then not destructed) or destructed exactly once when
   the info has a destructor. *)
From PV Require Import Base.Tac Info.InfoConcDefs.
From Coq Require Import NArith.
Local Open Scope nat_scope.

(* ---- lists ---------------------------------------------------------------------- *)
Lemma set_nth_length {A} (l : list A) i x : length (set_nth l i x) = length l.
Proof. revert i; induction l as [|y l IH]; intros [|i]; cbn; auto. Qed.

Lemma nth_set_nth (l : list N) i j x : i < length l ->
  nth j (set_nth l i x) 0%N = if j =? i then x else nth j l 0%N.
Proof.
  revert i j; induction l as [|y l IH]; intros i j Hi; cbn in Hi; [lia|].
  destruct i as [|i], j as [|j]; cbn; try reflexivity. apply IH. lia.
Qed.

Lemma nth_set_nth_other (l : list N) i j x : j <> i -> nth j (set_nth l i x) 0%N = nth j l 0%N.
Proof.
  revert i j; induction l as [|y l IH]; intros i j Hne; [now destruct i|].
  destruct i as [|i], j as [|j]; cbn; try reflexivity; [lia|]. apply IH. lia.
Qed.

Lemma nth_error_set_nth {A} (l : list A) t u x y : nth_error l t = Some y ->
  nth_error (set_nth l t x) u = if u =? t then Some x else nth_error l u.
Proof.
  revert t u; induction l as [|z l IH]; intros t u H; [now destruct t|].
  destruct t as [|t], u as [|u]; cbn in *; try reflexivity. now apply IH.
Qed.

Lemma mkobj_nonzero c t k : mkobj c t k <> 0%N.
Proof. unfold mkobj. lia. Qed.

(* ---- what a thread knows about slot i ------------------------------------------------ *)
Definition res_slot (r : cres) : nat := match r with RT i _ _ | RS i _ _ | RG i _ _ _ => i end.
Definition res_val (r : cres) : N := match r with RT _ _ r | RS _ _ r | RG _ r _ _ => r end.
(* the operation's own value: what it tried to install *)
Definition res_own (r : cres) : N := match r with RT _ v _ | RS _ v _ => v | RG _ _ made _ => made end.

Definition once_op (i : nat) (o : cop) : Prop :=
  match o with
  | CT j v old => j = i -> old = 0%N /\ v <> 0%N
  | CS j _ => j <> i
  | CG _ => True
  end.

(* values already read from slot i that the thread is about to return *)
Definition pend (i : nat) (th : cthr) : list N :=
  match c_pc th, c_ops th with
  | PT2 r, CT j _ _ :: _ => if j =? i then [r] else []
  | PG1 r, CG j :: _ => if j =? i then [r] else []
  | PG6 _ r, CG j :: _ => if j =? i then [r] else []
  | _, _ => []
  end.

Definition ThrOK (i : nat) (w : N) (th : cthr) : Prop :=
  Forall (once_op i) (c_ops th) /\
  (forall x, In x (pend i th) -> x <> 0%N -> x = w) /\
  (forall r, In r (c_res th) -> res_slot r = i -> res_val r <> 0%N -> res_val r = w).

Definition Inv (i : nat) (c : ccfg) : Prop :=
  i < length (g_slots c) /\
  forall u th, nth_error (g_thr c) u = Some th -> ThrOK i (slot c i) th.

Lemma ThrOK_zero i v th : ThrOK i 0%N th -> ThrOK i v th.
Proof.
  intros (H1 & H2 & H3). split; [exact H1|]. split.
  - intros x Hx Hn. exfalso. apply Hn. now apply H2.
  - intros r Hr Hs Hn. exfalso. apply Hn. now apply H3.
Qed.

(* the stepped thread is replaced, slot i keeps its value or goes from NULL to something *)
Lemma inv_update i c t th th' slots' lock' :
  Inv i c -> nth_error (g_thr c) t = Some th -> length slots' = length (g_slots c) ->
  (nth i slots' 0%N = slot c i \/ slot c i = 0%N) ->
  ThrOK i (nth i slots' 0%N) th' ->
  Inv i {| g_slots := slots'; g_lock := lock'; g_infos := g_infos c; g_thr := set_nth (g_thr c) t th' |}.
Proof.
  intros [Hlen Hall] Ht Hl Hw Hth'. split; cbn [g_slots g_thr]; [lia|].
  intros u x. rewrite (nth_error_set_nth _ _ _ _ _ Ht). unfold slot. cbn [g_slots].
  destruct (u =? t).
  - intros H; inversion H; subst x. exact Hth'.
  - intros Hx. specialize (Hall u x Hx). destruct Hw as [Hw|Hw].
    + now rewrite Hw.
    + rewrite Hw in Hall. now apply ThrOK_zero.
Qed.

Lemma ThrOK_at_pc i w0 w th p : ThrOK i w0 th -> (w0 = w \/ w0 = 0%N) ->
  (forall x, In x (pend i (at_pc th p)) -> x <> 0%N -> x = w) -> ThrOK i w (at_pc th p).
Proof.
  intros Hok Hw H2. assert (Hok' : ThrOK i w th) by (destruct Hw as [<-|->]; [exact Hok|now apply ThrOK_zero]).
  destruct Hok' as (H1 & _ & H3). split; [exact H1|]. split; [exact H2|exact H3].
Qed.

Lemma pend_finish i th r : pend i (finish th r) = [].
Proof. unfold pend, finish. cbn [c_pc c_ops]. destruct (tl (c_ops th)); reflexivity. Qed.

Lemma ThrOK_finish i w th r :
  ThrOK i w th -> (res_slot r = i -> res_val r <> 0%N -> res_val r = w) -> ThrOK i w (finish th r).
Proof.
  intros (H1 & _ & H3) Hr. split; [|split].
  - cbn [finish c_ops]. destruct (c_ops th) as [|o l]; cbn [tl]; [constructor|]. now inversion H1.
  - rewrite pend_finish. intros x [].
  - cbn [finish c_res]. intros x [<-|Hx]; [exact Hr|now apply H3].
Qed.

(* ---- one step preserves the invariant --------------------------------------------------- *)
Lemma cstep_Inv i c t : Inv i c -> Inv i (cstep c t).
Proof.
  intros HI. pose proof HI as [Hlen Hall]. unfold cstep.
  destruct (nth_error (g_thr c) t) as [th|] eqn:Ht; [|exact HI].
  pose proof (Hall t th Ht) as Hok. pose proof Hok as (Hops & Hpend & Hres).
  (* the slots are left alone; the new pc has the pending values [pd] *)
  assert (Hmove : forall p lock',
            (forall x, In x (pend i (at_pc th p)) -> x <> 0%N -> x = slot c i) ->
            Inv i {| g_slots := g_slots c; g_lock := lock'; g_infos := g_infos c;
                     g_thr := set_nth (g_thr c) t (at_pc th p) |}).
  { intros p lock' Hp. eapply inv_update; eauto. eapply ThrOK_at_pc; eauto. }
  assert (Hfin : forall r lock', (res_slot r = i -> res_val r <> 0%N -> res_val r = slot c i) ->
            Inv i {| g_slots := g_slots c; g_lock := lock'; g_infos := g_infos c;
                     g_thr := set_nth (g_thr c) t (finish th r) |}).
  { intros r lock' Hr. eapply inv_update; eauto. now apply ThrOK_finish. }
  (* slot j receives v: either j is another slot, or slot i was NULL *)
  assert (Hwrite : forall j v p, (j = i -> slot c i = 0%N) ->
            (forall x, In x (pend i (at_pc th p)) -> x <> 0%N -> x = nth i (set_nth (g_slots c) j v) 0%N) ->
            Inv i (with_slot_thr c j v t (at_pc th p))).
  { intros j v p Hj Hp. unfold with_slot_thr. eapply inv_update; eauto; [apply set_nth_length| |].
    - destruct (Nat.eq_dec j i) as [->|Hne]; [right; now apply Hj|left; now apply nth_set_nth_other].
    - eapply ThrOK_at_pc; eauto.
      destruct (Nat.eq_dec j i) as [->|Hne]; [right; now apply Hj|left; symmetry; now apply nth_set_nth_other]. }
  unfold with_thr, with_lock_thr.
  destruct (c_pc th) eqn:Hpc; destruct (c_ops th) as [|[j v old|j v|j] rest] eqn:Hop;
    try (apply Hmove; unfold pend, at_pc; cbn [c_pc c_ops]; rewrite ?Hop; intros x []; fail);
    try exact HI.
  - (* PT1, CT: the CAS *)
    destruct (slot c j =? old)%N eqn:E.
    + apply N.eqb_eq in E. apply Hwrite.
      * intros ->. inversion Hops as [|? ? Ho _]; subst. destruct (Ho eq_refl) as [Hold _]. congruence.
      * unfold pend, at_pc. cbn [c_pc c_ops]. rewrite Hop. destruct (j =? i) eqn:Eji; [|intros x []].
        apply Nat.eqb_eq in Eji. subst j. intros x [<-|[]] _. rewrite nth_set_nth by exact Hlen.
        now rewrite Nat.eqb_refl.
    + apply Hmove. unfold pend, at_pc. cbn [c_pc c_ops]. rewrite Hop. destruct (j =? i) eqn:Eji; [|intros x []].
      apply Nat.eqb_eq in Eji. subst j. intros x [<-|[]] _. reflexivity.
  - (* PT2, CT: return *)
    apply Hfin. cbn [res_slot res_val]. intros -> Hr. apply Hpend; [|exact Hr].
    unfold pend. rewrite Hpc, Hop, Nat.eqb_refl. now left.
  - (* PS0, CS: never on slot i *)
    apply Hwrite.
    + intros ->. inversion Hops as [|? ? Ho _]; subst. cbn in Ho. congruence.
    + unfold pend, at_pc. cbn [c_pc c_ops]. rewrite Hop. intros x [].
  - (* PS1, CS: return *)
    apply Hfin. cbn [res_slot res_val]. intros ->. inversion Hops as [|? ? Ho _]; subst. cbn in Ho. congruence.
  - (* PG0, CG: read *)
    apply Hmove. unfold pend, at_pc. cbn [c_pc c_ops]. rewrite Hop. destruct (j =? i) eqn:Eji; [|intros x []].
    apply Nat.eqb_eq in Eji. subst j. intros x [<-|[]] _. reflexivity.
  - (* PG1, CG *)
    destruct (ret =? 0)%N eqn:E.
    + apply Hmove. unfold pend, at_pc. cbn [c_pc c_ops]. rewrite Hop. intros x [].
    + apply Hfin. cbn [res_slot res_val]. intros -> Hr. apply Hpend; [|exact Hr].
      unfold pend. rewrite Hpc, Hop, Nat.eqb_refl. now left.
  - (* PG2 with no op: cannot happen, any op: the list lock *)
    destruct (g_lock c).
    + eapply inv_update; eauto. split; [exact Hops|]. split; [|exact Hres].
      unfold pend. cbn [c_pc c_ops]. rewrite Hop. intros x [].
    + apply Hmove. unfold pend, at_pc. cbn [c_pc c_ops]. rewrite Hop. intros x [].
  - destruct (g_lock c).
    + eapply inv_update; eauto. split; [exact Hops|]. split; [|exact Hres].
      unfold pend. cbn [c_pc c_ops]. rewrite Hop. intros x [].
    + apply Hmove. unfold pend, at_pc. cbn [c_pc c_ops]. rewrite Hop. intros x [].
  - destruct (g_lock c).
    + eapply inv_update; eauto. split; [exact Hops|]. split; [|exact Hres].
      unfold pend. cbn [c_pc c_ops]. rewrite Hop. intros x [].
    + apply Hmove. unfold pend, at_pc. cbn [c_pc c_ops]. rewrite Hop. intros x [].
  - destruct (g_lock c).
    + eapply inv_update; eauto. split; [exact Hops|]. split; [|exact Hres].
      unfold pend. cbn [c_pc c_ops]. rewrite Hop. intros x [].
    + apply Hmove. unfold pend, at_pc. cbn [c_pc c_ops]. rewrite Hop. intros x [].
  - (* PG3, CG: unlock, constructor *)
    destruct ((fst (nth j (g_infos c) (0%N, false)) =? 0)%N || (fst (nth j (g_infos c) (0%N, false)) =? 1)%N).
    + apply Hfin. cbn [res_slot res_val]. intros _ Hr. now elim Hr.
    + eapply inv_update; eauto. split; [exact Hops|]. split; [|exact Hres].
      unfold pend. cbn [c_pc c_ops]. rewrite Hop. intros x [].
  - (* PG5, CG: the CAS against NULL *)
    destruct (slot c j =? 0)%N eqn:E.
    + apply N.eqb_eq in E. apply Hwrite.
      * now intros ->.
      * unfold pend, at_pc. cbn [c_pc c_ops]. rewrite Hop. destruct (j =? i) eqn:Eji; [|intros x []].
        apply Nat.eqb_eq in Eji. subst j. intros x [<-|[]] _. rewrite nth_set_nth by exact Hlen.
        now rewrite Nat.eqb_refl.
    + apply Hmove. unfold pend, at_pc. cbn [c_pc c_ops]. rewrite Hop. destruct (j =? i) eqn:Eji; [|intros x []].
      apply Nat.eqb_eq in Eji. subst j. intros x [<-|[]] _. reflexivity.
  - (* PG6, CG: return *)
    apply Hfin. cbn [res_slot res_val]. intros -> Hr. apply Hpend; [|exact Hr].
    unfold pend. rewrite Hpc, Hop, Nat.eqb_refl. now left.
Qed.
