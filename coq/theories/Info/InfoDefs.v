(* C41 — executable model of parsec/class/info.c (info registry + per-object
   info arrays).  Definitions only; proofs are in InfoRegProofs.v, InfoSpecProofs.v, InfoMain.v.

   Conventions
   * info identifiers are [nat]; PARSEC_INFO_ID_UNDEFINED (-1) is [None];
   * [s_maxp] is nfo->max_id + 1 (so the constructor's max_id = -1 is 0);
   * names are [nat] (the harness maps them to distinct C strings; the code only
     uses strcmp(...) == 0 on them);
   * values are 64-bit words as [N]; 0 is NULL;
   * the registry [s_reg] is the info_list in list order;
   * the ioa_list (push_front at init, remove at destruction) is the list of
     live arrays from the most recent to the oldest, i.e. decreasing index;
   * freshly realloc'ed bytes are indeterminate in C: the harness fills them
     with the byte 0xA5, the model does the same ([POISON]).

   [fixes] selects, per defect found, the rule of the unchanged code ([false])
   or of the repaired code ([true]) — see notes/findings/C41-*.md.  The model
   that is compared with the code is [InfoCode.code_fixes]. *)
From PV Require Import Base.Tac.
From Coq Require Import NArith.
Local Open Scope nat_scope.

Record fixes := { fx_reg : bool; fx_ioa : bool; fx_unreg : bool }.
Definition all_fixed : fixes := {| fx_reg := true; fx_ioa := true; fx_unreg := true |}.
Definition none_fixed : fixes := {| fx_reg := false; fx_ioa := false; fx_unreg := false |}.

(* parsec_info_entry_t *)
Record entry := { e_iid : nat; e_name : nat; e_cb : N; e_ctor : N; e_dtor : bool }.
(* parsec_info_object_array_t: known_infos, info_objects[] *)
Record ioa := { a_alive : bool; a_known : nat; a_slots : list N }.
(* the registry, all arrays ever created (index = creation order), and the
   identifiers the client holds (name -> id returned by register) *)
Record st := { s_reg : list entry; s_maxp : nat; s_arrs : list ioa; s_cl : list (nat * nat) }.

Definition init : st := {| s_reg := []; s_maxp := 0; s_arrs := []; s_cl := [] |}.

Definition POISON : N := 0xA5A5A5A5A5A5A5A5%N.

(* ---- registry ------------------------------------------------------------ *)

(* the loop of parsec_info_register.  [len] stands for the list's END (ghost
   element), [i] is the index of the current item, [nxt] the index of
   next_item.  NEXT(item) is i+1 — which is END when the item is the last one.
   The unchanged code sets next_item = NEXT(item) when it finds the hole; the
   repaired code sets next_item = item.  [None]: the name is already there. *)
Fixpoint reg_scan (fx : bool) (name len : nat) (l : list entry) (i ret nxt : nat)
  : option (nat * nat) :=
  match l with
  | [] => Some (ret, nxt)
  | e :: l' =>
    let '(ret', nxt') :=
      if nxt =? len then
        (if e_iid e =? ret then (S ret, nxt) else (ret, if fx then i else S i))
      else (ret, nxt) in
    if e_name e =? name then None else reg_scan fx name len l' (S i) ret' nxt'
  end.

(* parsec_list_nolock_add_before(list, item at index k (END when k >= length), new) *)
Definition insert_before {A} (l : list A) (k : nat) (x : A) : list A :=
  firstn k l ++ x :: skipn k l.

Definition register (fx : bool) (name : nat) (cb ctor : N) (dtor : bool)
           (reg : list entry) (maxp : nat) : option nat * list entry * nat :=
  match reg_scan fx name (length reg) reg 0 0 (length reg) with
  | None => (None, reg, maxp)
  | Some (ret, nxt) =>
    (Some ret,
     insert_before reg nxt {| e_iid := ret; e_name := name; e_cb := cb; e_ctor := ctor; e_dtor := dtor |},
     Nat.max maxp (S ret))        (* if(ret > max_id) max_id = ret *)
  end.

(* the loop of parsec_info_unregister: (removed entries in order, remaining
   list, 1 + the largest other id seen).  When iid is not max_id the loop
   breaks at the first match; when it is max_id the loop goes on (and would
   remove further entries carrying the same id). *)
Fixpoint unreg_scan (iid : nat) (ismax : bool) (l : list entry) (mx : nat)
  : list entry * list entry * nat :=
  match l with
  | [] => ([], [], mx)
  | e :: l' =>
    if e_iid e =? iid then
      if ismax then let '(f, r, m) := unreg_scan iid ismax l' mx in (e :: f, r, m)
      else ([e], l', mx)
    else let '(f, r, m) := unreg_scan iid ismax l' (Nat.max mx (S (e_iid e))) in (f, e :: r, m)
  end.

Definition find_name (name : nat) (reg : list entry) : option entry :=
  find (fun e => e_name e =? name) reg.
Definition find_iid (iid : nat) (reg : list entry) : option entry :=
  find (fun e => e_iid e =? iid) reg.

(* parsec_info_lookup: id and cb_data of the first entry with that name *)
Definition lookup (name : nat) (reg : list entry) : option (nat * N) :=
  match find_name name reg with Some e => Some (e_iid e, e_cb e) | None => None end.

(* ---- object arrays ------------------------------------------------------- *)

Fixpoint upd_nth (l : list N) (i : nat) (v : N) : list N :=
  match l, i with
  | [], _ => []
  | _ :: l', O => v :: l'
  | x :: l', S j => x :: upd_nth l' j v
  end.

(* zero the k low-order bytes of a little-endian 64-bit word *)
Definition clear_low (k : nat) (v : N) : N :=
  if 8 <=? k then 0%N else N.shiftl (N.shiftr v (N.of_nat (8 * k))) (N.of_nat (8 * k)).

(* memset(&slots[start], 0, nbytes) on an array of 8-byte little-endian words *)
Fixpoint memset0 (l : list N) (start nbytes : nat) : list N :=
  match l with
  | [] => []
  | v :: l' =>
    match start with
    | S s => v :: memset0 l' s nbytes
    | O => clear_low (Nat.min 8 nbytes) v :: memset0 l' 0 (nbytes - 8)
    end
  end.

(* realloc(slots, n x 8 bytes): the old content up to the new size, the
   rest indeterminate *)
Definition realloc (l : list N) (n : nat) : list N :=
  firstn n l ++ repeat POISON (n - length l).

(* the write-locked part of parsec_ioa_resize_and_rdlock (sequentially the lock
   operations have no effect).  Unchanged code:
       memset(&info_objects[known_infos - 1], 0, ns - known_infos)
   repaired code:
       memset(&info_objects[known_infos], 0, (ns - known_infos) x sizeof(void pointer)) *)
Definition resize (fx : bool) (maxp : nat) (a : ioa) (iid : nat) : ioa :=
  if a_known a <=? iid then
    let ns := maxp in
    let slots' :=
      if 0 <? a_known a then
        let grown := realloc (a_slots a) ns in
        if fx then memset0 grown (a_known a) (8 * (ns - a_known a))
        else memset0 grown (a_known a - 1) (ns - a_known a)
      else repeat 0%N ns in                                       (* calloc *)
    {| a_alive := a_alive a; a_known := ns; a_slots := slots' |}
  else a.

(* parsec_info_object_array_init *)
Definition new_ioa (maxp : nat) : ioa :=
  {| a_alive := true; a_known := maxp; a_slots := repeat 0%N maxp |}.
(* parsec_info_object_array_destructor *)
Definition dead_ioa : ioa := {| a_alive := false; a_known := 0; a_slots := [] |}.

(* what the harness' constructor callback returns for cons_data [c] on the
   array with cons_obj tag [tag]: NULL when c = 1 *)
Definition ctorval (c : N) (tag : nat) : N :=
  if (c =? 1)%N then 0%N else (0xC000000000000000 + c * 65536 + N.of_nat tag)%N.

(* the CAS of parsec_info_test_and_set on a resized array *)
Definition do_tas (sl : list N) (i : nat) (v old : N) : list N * N :=
  if (nth i sl 0 =? old)%N then (upd_nth sl i v, v) else (sl, nth i sl 0%N).

(* the destructor loop of parsec_info_unregister over one array:
   if(iid < known_infos && NULL != info_objects[iid]) { destructor(...); info_objects[iid] = NULL; }
   The unchanged code runs it only when the entry has a destructor; the repair
   ([clear_always]) clears the slot in every case and calls the destructor
   when there is one. *)
Definition unreg_ioa (dtor clear_always : bool) (iid : nat) (a : ioa) : ioa * list N :=
  if a_alive a && (iid <? a_known a) && negb (nth iid (a_slots a) 0 =? 0)%N && (dtor || clear_always) then
    ({| a_alive := true; a_known := a_known a; a_slots := upd_nth (a_slots a) iid 0%N |},
     if dtor then [nth iid (a_slots a) 0%N] else [])
  else (a, []).

(* arrays are visited in ioa_list order = decreasing index: the events of the
   tail of [arrs] come first *)
Fixpoint unreg_arrs (dtor clear_always : bool) (iid : nat) (arrs : list ioa) : list ioa * list N :=
  match arrs with
  | [] => ([], [])
  | a :: r =>
    let '(r', ev) := unreg_arrs dtor clear_always iid r in
    let '(a', ev1) := unreg_ioa dtor clear_always iid a in
    (a' :: r', ev ++ ev1)
  end.

(* one removed entry after the other, as the loop meets them *)
Fixpoint unreg_found (clear_always : bool) (iid : nat) (found : list entry) (arrs : list ioa)
  : list ioa * list N :=
  match found with
  | [] => (arrs, [])
  | e :: f =>
    let '(arrs1, ev1) := unreg_arrs (e_dtor e) clear_always iid arrs in
    let '(arrs2, ev2) := unreg_found clear_always iid f arrs1 in
    (arrs2, ev1 ++ ev2)
  end.

(* parsec_info_unregister(nfo, iid): result (iid or UNDEFINED), destructor calls *)
Definition unregister (fx : fixes) (iid : nat) (s : st) : st * option nat * list N :=
  let ismax := S iid =? s_maxp s in
  let '(found, rest, m) := unreg_scan iid ismax (s_reg s) 0 in
  let '(arrs', ev) := unreg_found (fx_unreg fx) iid found (s_arrs s) in
  ({| s_reg := rest; s_maxp := if ismax then m else s_maxp s; s_arrs := arrs'; s_cl := s_cl s |},
   match found with [] => None | _ => Some iid end, ev).

(* ---- client-level operations and their results --------------------------- *)

Inductive op :=
| Reg (n : nat) (cb ctor : N) (dtor : bool)
| Unreg (n : nat)               (* unregister the id the client holds for n *)
| UnregId (i : nat)             (* unregister an id that nobody holds *)
| Lookup (n : nat)
| NewArr
| DelArr (a : nat)
| SetV (a n : nat) (v : N)
| GetV (a n : nat)
| Tas (a n : nat) (v old : N).

Inductive res :=
| RReg (o : option nat)
| RUnreg (o : option nat) (destroyed : list N)
| RLook (o : option (nat * N))
| RArr (a : nat)
| RDel
| RVal (v : N) (ctor_called : bool) (destroyed : list N)
| RSkip           (* the operation does not apply (unknown name / array): nothing is called *)
| ROob            (* the id the client holds is above max_id: the call would index out of bounds *)
| RCrash.         (* NULL dereference in parsec_info_get (no entry carries the id) *)

Fixpoint cl_find (n : nat) (cl : list (nat * nat)) : option nat :=
  match cl with
  | [] => None
  | (m, i) :: r => if m =? n then Some i else cl_find n r
  end.
Definition cl_remove (n : nat) (cl : list (nat * nat)) : list (nat * nat) :=
  filter (fun p => negb (fst p =? n)) cl.
Definition cl_holds (i : nat) (cl : list (nat * nat)) : bool :=
  existsb (fun p => snd p =? i) cl.

Definition set_arr (s : st) (a : nat) (x : ioa) : st :=
  {| s_reg := s_reg s; s_maxp := s_maxp s;
     s_arrs := firstn a (s_arrs s) ++ x :: skipn (S a) (s_arrs s); s_cl := s_cl s |}.

(* an operation on (array a, name n): the array must be alive and the client
   must hold an id for n that is not above max_id *)
Definition with_slot (s : st) (a n : nat) (k : ioa -> nat -> st * res) : st * res :=
  match nth_error (s_arrs s) a with
  | Some x =>
    if a_alive x then
      match cl_find n (s_cl s) with
      | Some i => if s_maxp s <=? i then (s, ROob) else k x i
      | None => (s, RSkip)
      end
    else (s, RSkip)
  | None => (s, RSkip)
  end.

Definition step (fx : fixes) (s : st) (o : op) : st * res :=
  match o with
  | Reg n cb ctor dtor =>
    let '(r, reg', maxp') := register (fx_reg fx) n cb ctor dtor (s_reg s) (s_maxp s) in
    ({| s_reg := reg'; s_maxp := maxp'; s_arrs := s_arrs s;
        s_cl := match r with Some i => (n, i) :: s_cl s | None => s_cl s end |}, RReg r)
  | Unreg n =>
    match cl_find n (s_cl s) with
    | Some i =>
      let '(s', r, ev) := unregister fx i s in
      ({| s_reg := s_reg s'; s_maxp := s_maxp s'; s_arrs := s_arrs s'; s_cl := cl_remove n (s_cl s) |},
       RUnreg r ev)
    | None => (s, RSkip)
    end
  | UnregId i =>
    if cl_holds i (s_cl s) then (s, RSkip)
    else let '(s', r, ev) := unregister fx i s in (s', RUnreg r ev)
  | Lookup n => (s, RLook (lookup n (s_reg s)))
  | NewArr =>
    ({| s_reg := s_reg s; s_maxp := s_maxp s; s_arrs := s_arrs s ++ [new_ioa (s_maxp s)]; s_cl := s_cl s |},
     RArr (length (s_arrs s)))
  | DelArr a =>
    match nth_error (s_arrs s) a with
    | Some x => if a_alive x then (set_arr s a dead_ioa, RDel) else (s, RSkip)
    | None => (s, RSkip)
    end
  | SetV a n v =>
    with_slot s a n (fun x i =>
      let x' := resize (fx_ioa fx) (s_maxp s) x i in
      (set_arr s a {| a_alive := true; a_known := a_known x'; a_slots := upd_nth (a_slots x') i v |},
       RVal (nth i (a_slots x') 0%N) false []))
  | Tas a n v old =>
    with_slot s a n (fun x i =>
      let x' := resize (fx_ioa fx) (s_maxp s) x i in
      let '(sl, r) := do_tas (a_slots x') i v old in
      (set_arr s a {| a_alive := true; a_known := a_known x'; a_slots := sl |}, RVal r false []))
  | GetV a n =>
    with_slot s a n (fun x i =>
      let x' := resize (fx_ioa fx) (s_maxp s) x i in
      let s' := set_arr s a x' in
      let ret := nth i (a_slots x') 0%N in
      if negb (ret =? 0)%N then (s', RVal ret false [])
      else match find_iid i (s_reg s) with
           | None => (s', RCrash)
           | Some e =>
             if (e_ctor e =? 0)%N then (s', RVal ret false [])
             else
               let nio := ctorval (e_ctor e) (S a) in
               if (nio =? 0)%N then (s', RVal ret true [])
               else
                 (* parsec_info_test_and_set(oa, iid, nio, NULL); the second resize is a no-op *)
                 let x'' := resize (fx_ioa fx) (s_maxp s) x' i in
                 let '(sl, r) := do_tas (a_slots x'') i nio 0%N in
                 (set_arr s a {| a_alive := true; a_known := a_known x''; a_slots := sl |},
                  RVal r true (if negb (r =? nio)%N && e_dtor e then [nio] else []))
           end)
  end.

(* a case: the operations in order; nothing runs after a crash *)
Fixpoint run (fx : fixes) (s : st) (ops : list op) : st * list res :=
  match ops with
  | [] => (s, [])
  | o :: r =>
    let '(s1, x) := step fx s o in
    match x with
    | RCrash => (s1, [RCrash])
    | _ => let '(s2, xs) := run fx s1 r in (s2, x :: xs)
    end
  end.

(* the same, keeping every intermediate state (what the harness prints after each operation) *)
Fixpoint run_trace (fx : fixes) (s : st) (ops : list op) : list (res * st) :=
  match ops with
  | [] => []
  | o :: r =>
    let '(s1, x) := step fx s o in
    match x with
    | RCrash => [(x, s1)]
    | _ => (x, s1) :: run_trace fx s1 r
    end
  end.

(* parsec_info_destructor at the end of a case: every entry is unregistered in
   list order (the harness only does it when the ids are pairwise distinct) *)
Fixpoint destroy_all (fx : fixes) (fuel : nat) (s : st) : st * list N :=
  match fuel with
  | O => (s, [])
  | S k =>
    match s_reg s with
    | [] => (s, [])
    | e :: _ =>
      let '(s1, _, ev) := unregister fx (e_iid e) s in
      let '(s2, ev2) := destroy_all fx k s1 in (s2, ev ++ ev2)
    end
  end.

Fixpoint nodupb (l : list nat) : bool :=
  match l with
  | [] => true
  | x :: r => negb (existsb (Nat.eqb x) r) && nodupb r
  end.

(* ---- the specification the property is stated against --------------------
   A dictionary keyed by names: no identifiers, no arrays of slots. *)
Record spec := {
  p_info : nat -> option (N * N * bool);      (* registered names: cb_data, ctor, dtor *)
  p_narr : nat;
  p_alive : nat -> bool;
  p_val : nat -> nat -> N                     (* (array, name) -> value *)
}.
Definition spec_init : spec :=
  {| p_info := fun _ => None; p_narr := 0; p_alive := fun _ => false; p_val := fun _ _ => 0%N |}.

(* results with the identifiers erased *)
Inductive eres :=
| ERegOk | ERegFail
| EUnreg (destroyed : list N)
| ENotFound
| ELook (o : option N)
| EArr (a : nat)
| EDel
| EVal (v : N) (ctor_called : bool) (destroyed : list N)
| ESkip | EOob | ECrash | EBad.

Definition erase (o : op) (r : res) : eres :=
  match o, r with
  | Reg _ _ _ _, RReg (Some _) => ERegOk
  | Reg _ _ _ _, RReg None => ERegFail
  | Unreg _, RUnreg (Some _) ev => EUnreg ev
  | Unreg _, RSkip => ESkip
  | UnregId _, RUnreg None [] => ENotFound
  | UnregId _, RSkip => ENotFound
  | Lookup _, RLook (Some (_, cb)) => ELook (Some cb)
  | Lookup _, RLook None => ELook None
  | NewArr, RArr a => EArr a
  | DelArr _, RDel => EDel
  | _, RVal v c ev => EVal v c ev
  | _, RSkip => ESkip
  | _, ROob => EOob
  | _, RCrash => ECrash
  | _, _ => EBad
  end.

Definition upd2 (f : nat -> nat -> N) (a n : nat) (v : N) : nat -> nat -> N :=
  fun a' n' => if (a' =? a) && (n' =? n) then v else f a' n'.

(* destructor calls at unregistration: arrays from the most recent one *)
Fixpoint spec_destroyed (p : spec) (n : nat) (k : nat) : list N :=
  match k with
  | O => []
  | S j => (if p_alive p j && negb (p_val p j n =? 0)%N then [p_val p j n] else []) ++ spec_destroyed p n j
  end.

Definition spec_slot (p : spec) (a n : nat) (k : N * N * bool -> spec * eres) : spec * eres :=
  if (a <? p_narr p) && p_alive p a then
    match p_info p n with Some inf => k inf | None => (p, ESkip) end
  else (p, ESkip).

Definition with_val (p : spec) (f : nat -> nat -> N) : spec :=
  {| p_info := p_info p; p_narr := p_narr p; p_alive := p_alive p; p_val := f |}.

Definition spec_step (p : spec) (o : op) : spec * eres :=
  match o with
  | Reg n cb ctor dtor =>
    match p_info p n with
    | Some _ => (p, ERegFail)
    | None => ({| p_info := fun m => if m =? n then Some (cb, ctor, dtor) else p_info p m;
                  p_narr := p_narr p; p_alive := p_alive p; p_val := p_val p |}, ERegOk)
    end
  | Unreg n =>
    match p_info p n with
    | Some (_, _, dtor) =>
      ({| p_info := fun m => if m =? n then None else p_info p m;
          p_narr := p_narr p; p_alive := p_alive p;
          p_val := fun a m => if m =? n then 0%N else p_val p a m |},
       EUnreg (if dtor then spec_destroyed p n (p_narr p) else []))
    | None => (p, ESkip)
    end
  | UnregId _ => (p, ENotFound)
  | Lookup n => (p, ELook (match p_info p n with Some (cb, _, _) => Some cb | None => None end))
  | NewArr =>
    ({| p_info := p_info p; p_narr := S (p_narr p);
        p_alive := fun a => if a =? p_narr p then true else p_alive p a;
        p_val := fun a m => if a =? p_narr p then 0%N else p_val p a m |}, EArr (p_narr p))
  | DelArr a =>
    if (a <? p_narr p) && p_alive p a then
      ({| p_info := p_info p; p_narr := p_narr p;
          p_alive := fun b => if b =? a then false else p_alive p b; p_val := p_val p |}, EDel)
    else (p, ESkip)
  | SetV a n v =>
    spec_slot p a n (fun _ => (with_val p (upd2 (p_val p) a n v), EVal (p_val p a n) false []))
  | Tas a n v old =>
    spec_slot p a n (fun _ =>
      if (p_val p a n =? old)%N then (with_val p (upd2 (p_val p) a n v), EVal v false [])
      else (p, EVal (p_val p a n) false []))
  | GetV a n =>
    spec_slot p a n (fun inf =>
      let '(_, ctor, _) := inf in
      if negb (p_val p a n =? 0)%N then (p, EVal (p_val p a n) false [])
      else if (ctor =? 0)%N then (p, EVal 0%N false [])
      else let nio := ctorval ctor (S a) in
           if (nio =? 0)%N then (p, EVal 0%N true [])
           else (with_val p (upd2 (p_val p) a n nio), EVal nio true []))
  end.

Fixpoint spec_run (p : spec) (ops : list op) : list eres :=
  match ops with
  | [] => []
  | o :: r => let '(p1, x) := spec_step p o in x :: spec_run p1 r
  end.

Fixpoint erase_all (ops : list op) (rs : list res) : list eres :=
  match ops, rs with
  | o :: ops', r :: rs' => erase o r :: erase_all ops' rs'
  | _, _ => []
  end.
