(* C41 — the statements used by Properties_C41.v, assembled from the registry
   invariant (InfoRegProofs) and the refinement (InfoSpecProofs), and the
   witnesses showing that each of the three rules of the unchanged code breaks
   the property. *)
From PV Require Import Base.Tac Info.InfoDefs Info.InfoRegProofs Info.InfoSpecProofs.
From Coq Require Import NArith.
Local Open Scope nat_scope.

Definition reached (fx : fixes) (ops : list op) : st := fst (run fx init ops).

(* ---- identifiers ------------------------------------------------------------------ *)
Lemma reached_RegInv fx ops : fx_reg fx = true -> RegInv (reached fx ops).
Proof. intros H. apply run_RegInv; [exact H|apply init_RegInv]. Qed.

Lemma P_ids_distinct fx ops : fx_reg fx = true ->
  NoDup (map e_iid (s_reg (reached fx ops))) /\ NoDup (map e_name (s_reg (reached fx ops))) /\
  (forall e, In e (s_reg (reached fx ops)) -> e_iid e < s_maxp (reached fx ops)).
Proof.
  intros H. destruct (reached_RegInv fx ops H) as [Hi Hn Hm _].
  split; [eapply incr_NoDup; eauto|]. split; assumption.
Qed.

Lemma lookup_insert_new reg k x :
  (forall y, In y reg -> (e_name y =? e_name x) = false) ->
  lookup (e_name x) (insert_before reg k x) = Some (e_iid x, e_cb x).
Proof.
  intros H. unfold lookup, find_name. rewrite find_insert_new; [reflexivity|apply Nat.eqb_refl|exact H].
Qed.
Lemma lookup_insert_other reg k x m : e_name x <> m -> lookup m (insert_before reg k x) = lookup m reg.
Proof.
  intros H. unfold lookup, find_name. rewrite find_insert_other; [reflexivity|]. now apply Nat.eqb_neq.
Qed.

(* register: a fresh id for a new name, UNDEFINED for a live name *)
Lemma P_register fx ops n cb ctor dtor : fx_reg fx = true ->
  let s := reached fx ops in
  let s' := fst (step fx s (Reg n cb ctor dtor)) in
  match snd (step fx s (Reg n cb ctor dtor)) with
  | RReg (Some i) =>
      lookup n (s_reg s) = None /\ (forall e, In e (s_reg s) -> e_iid e <> i) /\
      lookup n (s_reg s') = Some (i, cb) /\ cl_find n (s_cl s') = Some i /\
      (forall m, m <> n -> lookup m (s_reg s') = lookup m (s_reg s))
  | RReg None => lookup n (s_reg s) <> None /\ s' = s
  | _ => False
  end.
Proof.
  intros Hfx s s'. subst s'. pose proof (reached_RegInv fx ops Hfx) as Hinv. fold s in Hinv.
  cbn [step]. rewrite Hfx, register_fixed, has_name_find.
  destruct (find_name n (s_reg s)) as [e0|] eqn:F; cbn [fst snd].
  - split; [unfold lookup; rewrite F; discriminate|]. destruct s; reflexivity.
  - cbv zeta. cbn [fst snd s_reg s_cl cl_find]. rewrite Nat.eqb_refl.
    assert (Hnone : forall y, In y (s_reg s) -> (e_name y =? n) = false).
    { intros y Hy. unfold find_name in F. eapply find_none in F; eauto. }
    split; [unfold lookup; now rewrite F|]. split; [intros e He; now apply mex_fresh; [apply (ri_incr _ Hinv)|]|].
    split; [now rewrite (lookup_insert_new _ _ {| e_iid := _; e_name := n; e_cb := cb |})|].
    split; [reflexivity|]. intros m Hm. apply lookup_insert_other. cbn. congruence.
Qed.

(* lookup returns the identifier the client holds *)
Lemma P_lookup_held fx ops n : fx_reg fx = true ->
  option_map fst (lookup n (s_reg (reached fx ops))) = cl_find n (s_cl (reached fx ops)).
Proof.
  intros Hfx. rewrite (ri_cl _ (reached_RegInv fx ops Hfx) n). unfold lookup.
  destruct (find_name n (s_reg (reached fx ops))); reflexivity.
Qed.

Lemma lookup_remove_other s e m : RegInv s -> In e (s_reg s) -> m <> e_name e ->
  lookup m (remove_iid (e_iid e) (s_reg s)) = lookup m (s_reg s).
Proof.
  intros Hinv Hin Hm. unfold lookup, find_name, remove_iid. rewrite find_filter_same; [reflexivity|].
  intros y Hy Hg. apply Bool.negb_false_iff in Hg. unfold has_iid in Hg. apply Nat.eqb_eq in Hg.
  assert (y = e) by (eapply iid_uniq; eauto). subst y. apply Nat.eqb_neq. congruence.
Qed.

(* unregister frees the identifier and only that one *)
Lemma P_unregister fx ops n i : fx_reg fx = true ->
  let s := reached fx ops in
  cl_find n (s_cl s) = Some i ->
  let s' := fst (step fx s (Unreg n)) in
  (exists ev, snd (step fx s (Unreg n)) = RUnreg (Some i) ev) /\
  lookup n (s_reg s') = None /\ cl_find n (s_cl s') = None /\
  (forall e, In e (s_reg s') -> e_iid e <> i) /\
  (forall m, m <> n -> lookup m (s_reg s') = lookup m (s_reg s)).
Proof.
  intros Hfx s C s'. subst s'. pose proof (reached_RegInv fx ops Hfx) as Hinv. fold s in Hinv.
  cbn [step]. rewrite C.
  destruct (held_entry _ _ _ Hinv C) as (e & Hin & Hen & Hei & Hf).
  destruct (unregister_nodup fx i s (incr_NoDup _ _ (ri_incr _ Hinv))) as (mp' & Hu & _).
  rewrite Hu. cbn [fst snd s_reg s_cl]. subst i n.
  rewrite (filter_has_iid_one _ _ _ (ri_incr _ Hinv) Hin).
  split; [eexists; reflexivity|]. split; [|split; [|split]].
  - unfold lookup. replace (find_name (e_name e) (remove_iid (e_iid e) (s_reg s))) with (@None entry); [reflexivity|].
    symmetry. apply find_none_iff. intros y Hy. unfold remove_iid in Hy. apply filter_In in Hy.
    destruct Hy as [Hy Hne]. apply Nat.eqb_neq. intros Hc.
    assert (y = e) by (eapply name_uniq; eauto). subst y.
    unfold has_iid in Hne. rewrite Nat.eqb_refl in Hne. discriminate.
  - rewrite cl_find_remove, Nat.eqb_refl. reflexivity.
  - intros y Hy. unfold remove_iid in Hy. apply filter_In in Hy. destruct Hy as [_ Hne].
    apply Bool.negb_true_iff in Hne. unfold has_iid in Hne. now apply Nat.eqb_neq.
  - intros m Hm. now apply lookup_remove_other.
Qed.

(* unregistering an identifier nobody holds finds nothing and changes nothing *)
Lemma P_unregister_unknown fx ops i : fx_reg fx = true ->
  let s := reached fx ops in
  cl_holds i (s_cl s) = false ->
  snd (step fx s (UnregId i)) = RUnreg None [] /\
  s_reg (fst (step fx s (UnregId i))) = s_reg s /\ s_arrs (fst (step fx s (UnregId i))) = s_arrs s.
Proof.
  intros Hfx s C. pose proof (reached_RegInv fx ops Hfx) as Hinv. fold s in Hinv.
  cbn [step]. rewrite C.
  destruct (unregister_nodup fx i s (incr_NoDup _ _ (ri_incr _ Hinv))) as (mp' & Hu & _).
  rewrite Hu. pose proof (no_holder_no_entry _ _ Hinv C) as Hno.
  rewrite (filter_none _ _ Hno). cbn [unreg_found fst snd s_reg s_arrs].
  split; [reflexivity|]. split; [|reflexivity]. apply filter_all. intros x Hx. now rewrite (Hno x Hx).
Qed.

(* no NULL dereference, no identifier above max_id: the operations always return *)
Lemma P_no_crash fx ops o : fx_reg fx = true ->
  snd (step fx (reached fx ops) o) <> RCrash /\ snd (step fx (reached fx ops) o) <> ROob.
Proof.
  intros Hfx. pose proof (reached_RegInv fx ops Hfx) as Hinv. set (s := reached fx ops) in *.
  assert (Hws : forall a n k, (forall x i, In i (map e_iid (s_reg s)) -> snd (k x i) <> RCrash /\ snd (k x i) <> ROob) ->
                snd (with_slot s a n k) <> RCrash /\ snd (with_slot s a n k) <> ROob).
  { intros a n k Hk. unfold with_slot. destruct (nth_error (s_arrs s) a) as [x|]; [|split; discriminate].
    destruct (a_alive x); [|split; discriminate].
    destruct (cl_find n (s_cl s)) as [i|] eqn:C; [|split; discriminate].
    destruct (held_entry _ _ _ Hinv C) as (e & Hin & _ & Hei & _).
    pose proof (ri_max _ Hinv e Hin) as Hlt. rewrite Hei in Hlt. apply Nat.leb_gt in Hlt. rewrite Hlt.
    apply Hk. rewrite <- Hei. now apply in_map. }
  destruct o; cbn [step].
  - destruct (register _ _ _ _ _ _ _) as [[r reg'] maxp']. split; discriminate.
  - destruct (cl_find n (s_cl s)); [|split; discriminate].
    destruct (unregister fx n0 s) as [[s' r] ev]. split; discriminate.
  - destruct (cl_holds i (s_cl s)); [split; discriminate|].
    destruct (unregister fx i s) as [[s' r] ev]. split; discriminate.
  - split; discriminate.
  - split; discriminate.
  - destruct (nth_error (s_arrs s) a) as [x|]; [|split; discriminate]. destruct (a_alive x); split; discriminate.
  - apply Hws. intros x i _. split; discriminate.
  - apply Hws. intros x i Hi.
    destruct (negb (nth i (a_slots (resize (fx_ioa fx) (s_maxp s) x i)) 0 =? 0)%N); [split; discriminate|].
    apply in_map_iff in Hi. destruct Hi as (e & Hei & Hin). subst i.
    rewrite (find_iid_self _ _ _ (ri_incr _ Hinv) Hin).
    destruct (e_ctor e =? 0)%N; [split; discriminate|].
    destruct (ctorval (e_ctor e) (S a) =? 0)%N; [split; discriminate|].
    destruct (do_tas _ _ _ _) as [sl rr]. split; discriminate.
  - apply Hws. intros x i _. destruct (do_tas _ _ _ _) as [sl rr]. split; discriminate.
Qed.

(* ---- values ------------------------------------------------------------------------- *)
Lemma P_refines_spec ops :
  erase_all ops (snd (run all_fixed init ops)) = spec_run spec_init ops /\
  length (snd (run all_fixed init ops)) = length ops.
Proof. apply run_refines; [apply init_RegInv|apply init_Rel]. Qed.

(* the specification state after a sequence *)
Fixpoint spec_exec (p : spec) (ops : list op) : spec :=
  match ops with [] => p | o :: r => spec_exec (fst (spec_step p o)) r end.

Lemma run_Rel ops : forall s p, RegInv s -> Rel s p ->
  RegInv (fst (run all_fixed s ops)) /\ Rel (fst (run all_fixed s ops)) (spec_exec p ops).
Proof.
  induction ops as [|o ops IH]; intros s p Hinv Hrel; cbn [run spec_exec]; [split; assumption|].
  pose proof (step_sim s p o Hinv Hrel) as (H1 & H2 & H3).
  pose proof (step_RegInv all_fixed s o eq_refl Hinv) as H4.
  destruct (step all_fixed s o) as [s1 x]. cbn [fst snd] in *.
  specialize (IH s1 _ H4 H1). destruct (run all_fixed s1 ops) as [s2 xs]. cbn [fst] in IH.
  destruct x; try congruence; cbn [fst]; exact IH.
Qed.

Lemma reached_Rel ops : Rel (reached all_fixed ops) (spec_exec spec_init ops).
Proof. apply run_Rel; [apply init_RegInv|apply init_Rel]. Qed.

(* operations that may change what (array a, name n) holds *)
Definition touches (a n : nat) (o : op) : bool :=
  match o with
  | SetV a' n' _ | Tas a' n' _ _ => (a' =? a) && (n' =? n)
  | Unreg n' => n' =? n
  | DelArr a' => a' =? a
  | _ => false
  end.

(* in the dictionary a non-NULL value stays until one of those operations *)
Definition holds (p : spec) (a n : nat) (v : N) : Prop :=
  (a <? p_narr p) && p_alive p a = true /\ p_info p n <> None /\ p_val p a n = v.

Lemma holds_intro q a n v : (a <? p_narr q) = true -> p_alive q a = true -> p_info q n <> None ->
  p_val q a n = v -> holds q a n v.
Proof. intros H1 H2 H3 H4. unfold holds. rewrite H1, H2. auto. Qed.

Lemma spec_step_keeps p a n v o : v <> 0%N -> holds p a n v -> touches a n o = false ->
  holds (fst (spec_step p o)) a n v.
Proof.
  intros Hv (Hg & Hi & Hval) Ht.
  apply Bool.andb_true_iff in Hg. destruct Hg as [Hlt Hal].
  assert (Hsame : holds p a n v) by (now apply holds_intro).
  destruct o as [m cb ctor dtor|m|i|m| |b|b m w|b m|b m w old]; cbn [spec_step touches] in *.
  - destruct (p_info p m) eqn:E; cbn [fst]; [exact Hsame|].
    apply holds_intro; cbn [p_info p_narr p_alive p_val]; auto.
    destruct (n =? m); [discriminate|exact Hi].
  - destruct (p_info p m) as [[[cb ct] dt]|] eqn:E; cbn [fst]; [|exact Hsame].
    apply holds_intro; cbn [p_info p_narr p_alive p_val]; auto; rewrite Nat.eqb_sym, Ht; auto.
  - exact Hsame.
  - exact Hsame.
  - cbn [fst]. apply Nat.ltb_lt in Hlt.
    apply holds_intro; cbn [p_info p_narr p_alive p_val]; auto.
    + apply Nat.ltb_lt. lia.
    + destruct (a =? p_narr p) eqn:E; [reflexivity|exact Hal].
    + destruct (a =? p_narr p) eqn:E; [apply Nat.eqb_eq in E; lia|exact Hval].
  - destruct ((b <? p_narr p) && p_alive p b); cbn [fst]; [|exact Hsame].
    apply holds_intro; cbn [p_info p_narr p_alive p_val]; auto. now rewrite Nat.eqb_sym, Ht.
  - unfold spec_slot. destruct ((b <? p_narr p) && p_alive p b); [|exact Hsame].
    destruct (p_info p m); cbn [fst]; [|exact Hsame].
    apply holds_intro; cbn [with_val p_info p_narr p_alive p_val]; auto.
    unfold upd2. now rewrite (Nat.eqb_sym a b), (Nat.eqb_sym n m), Ht.
  - unfold spec_slot. destruct ((b <? p_narr p) && p_alive p b) eqn:G; [|exact Hsame].
    destruct (p_info p m) as [[[cb ct] dt]|]; [|exact Hsame].
    destruct (negb (p_val p b m =? 0)%N) eqn:Ez; [exact Hsame|].
    destruct (ct =? 0)%N; [exact Hsame|].
    destruct (ctorval ct (S b) =? 0)%N; [exact Hsame|]. cbn [fst].
    apply holds_intro; cbn [with_val p_info p_narr p_alive p_val]; auto. unfold upd2.
    destruct ((a =? b) && (n =? m)) eqn:E; [|exact Hval].
    apply Bool.andb_true_iff in E. destruct E as [E1 E2]. apply Nat.eqb_eq in E1, E2. subst b m.
    apply Bool.negb_false_iff, N.eqb_eq in Ez. congruence.
  - unfold spec_slot. destruct ((b <? p_narr p) && p_alive p b); [|exact Hsame].
    destruct (p_info p m); [|exact Hsame].
    destruct (p_val p b m =? old)%N; cbn [fst]; [|exact Hsame].
    apply holds_intro; cbn [with_val p_info p_narr p_alive p_val]; auto.
    unfold upd2. now rewrite (Nat.eqb_sym a b), (Nat.eqb_sym n m), Ht.
Qed.

Lemma spec_exec_keeps ops : forall p a n v, v <> 0%N -> holds p a n v ->
  Forall (fun o => touches a n o = false) ops -> holds (spec_exec p ops) a n v.
Proof.
  induction ops as [|o ops IH]; intros p a n v Hv Hh Hf; cbn [spec_exec]; [exact Hh|].
  inversion Hf as [|? ? Ho Hr]; subst. apply IH; [exact Hv| |exact Hr]. now apply spec_step_keeps.
Qed.

Lemma spec_get_holds p a n v : v <> 0%N -> holds p a n v -> snd (spec_step p (GetV a n)) = EVal v false [].
Proof.
  intros Hv (Hg & Hi & Hval). cbn [spec_step]. unfold spec_slot. rewrite Hg.
  destruct (p_info p n) as [[[cb ct] dt]|]; [|congruence].
  rewrite Hval. apply N.eqb_neq in Hv. rewrite Hv. reflexivity.
Qed.

Lemma erase_get_val a n r v c ev : erase (GetV a n) r = EVal v c ev -> r = RVal v c ev.
Proof.
  destruct r as [[i|]|[i|] d|[[i cb]|]| | |v' c' ev'| | |]; cbn; try discriminate.
  intros H; inversion H; reflexivity.
Qed.

(* once (a, n) holds v in the dictionary related to s, any untouched continuation reads it back *)
Lemma get_after s p a n v ops : RegInv s -> Rel s p -> v <> 0%N -> holds p a n v ->
  Forall (fun o => touches a n o = false) ops ->
  snd (step all_fixed (fst (run all_fixed s ops)) (GetV a n)) = RVal v false [].
Proof.
  intros Hinv Hrel Hv Hh Hf. destruct (run_Rel ops s p Hinv Hrel) as [Hinv2 Hrel2].
  pose proof (step_sim _ _ (GetV a n) Hinv2 Hrel2) as (_ & He & _).
  rewrite (spec_get_holds _ _ _ _ Hv (spec_exec_keeps ops p a n v Hv Hh Hf)) in He.
  now apply erase_get_val in He.
Qed.

Lemma holds_after_write p a n v k :
  spec_slot p a n k <> (p, ESkip) -> (forall inf, k inf = (with_val p (upd2 (p_val p) a n v), snd (k inf))) ->
  holds (fst (spec_slot p a n k)) a n v.
Proof.
  unfold spec_slot. intros Hns Hk. destruct ((a <? p_narr p) && p_alive p a) eqn:G; [|congruence].
  destruct (p_info p n) as [inf|] eqn:E; [|congruence].
  rewrite Hk. cbn [fst]. apply Bool.andb_true_iff in G. destruct G as [G1 G2].
  apply holds_intro; cbn [with_val p_narr p_alive p_info p_val]; auto; [congruence|].
  unfold upd2. now rewrite !Nat.eqb_refl.
Qed.

(* get returns the last value set for that (array, name): registrations, growth of the
   registry and of the array, operations on other names or arrays in between do not matter *)
Lemma P_get_last_set ops1 ops2 a n v s1 old :
  step all_fixed (reached all_fixed ops1) (SetV a n v) = (s1, RVal old false []) ->
  v <> 0%N -> Forall (fun o => touches a n o = false) ops2 ->
  snd (step all_fixed (fst (run all_fixed s1 ops2)) (GetV a n)) = RVal v false [].
Proof.
  intros Hstep Hv Hf.
  pose proof (reached_RegInv all_fixed ops1 eq_refl) as Hinv. pose proof (reached_Rel ops1) as Hrel.
  pose proof (step_sim _ _ (SetV a n v) Hinv Hrel) as (H1 & H2 & _).
  pose proof (step_RegInv all_fixed _ (SetV a n v) eq_refl Hinv) as H4.
  rewrite Hstep in *. cbn [fst snd] in *.
  eapply get_after; eauto.
  cbn [spec_step] in *. apply holds_after_write; [|reflexivity].
  intros Hc. rewrite Hc in H2. cbn in H2. discriminate.
Qed.

(* test-and-set returns the value stored afterwards (its argument if the slot matched
   [old], the current value otherwise), and that is what later gets return *)
Lemma P_tas_then_get ops1 ops2 a n v old s1 r :
  step all_fixed (reached all_fixed ops1) (Tas a n v old) = (s1, RVal r false []) ->
  r <> 0%N -> Forall (fun o => touches a n o = false) ops2 ->
  snd (step all_fixed (fst (run all_fixed s1 ops2)) (GetV a n)) = RVal r false [].
Proof.
  intros Hstep Hv Hf.
  pose proof (reached_RegInv all_fixed ops1 eq_refl) as Hinv. pose proof (reached_Rel ops1) as Hrel.
  pose proof (step_sim _ _ (Tas a n v old) Hinv Hrel) as (H1 & H2 & _).
  pose proof (step_RegInv all_fixed _ (Tas a n v old) eq_refl Hinv) as H4.
  rewrite Hstep in *. cbn [fst snd] in *.
  eapply get_after; eauto.
  cbn [spec_step erase] in *. unfold spec_slot in *.
  set (p := spec_exec spec_init ops1) in *.
  destruct ((a <? p_narr p) && p_alive p a) eqn:G; [|discriminate].
  destruct (p_info p n) as [inf|] eqn:E; [|discriminate].
  destruct (p_val p a n =? old)%N eqn:Eo; cbn [fst snd with_val] in *.
  - inversion H2; subst r. apply Bool.andb_true_iff in G. destruct G as [G1 G2].
    apply holds_intro; cbn [with_val p_narr p_alive p_info p_val]; auto; [congruence|].
    unfold upd2. now rewrite !Nat.eqb_refl.
  - inversion H2; subst r. apply Bool.andb_true_iff in G. destruct G as [G1 G2].
    apply holds_intro; auto. congruence.
Qed.

(* test-and-set decides on the value a get would have returned: it stores only on a match *)
Lemma P_tas_decides ops a n v old cur :
  cur <> 0%N ->
  snd (step all_fixed (reached all_fixed ops) (GetV a n)) = RVal cur false [] ->
  snd (step all_fixed (reached all_fixed ops) (Tas a n v old)) = RVal (if (cur =? old)%N then v else cur) false [].
Proof.
  intros Hc Hget.
  pose proof (reached_RegInv all_fixed ops eq_refl) as Hinv. pose proof (reached_Rel ops) as Hrel.
  pose proof (step_sim _ _ (GetV a n) Hinv Hrel) as (_ & Hg & _).
  pose proof (step_sim _ _ (Tas a n v old) Hinv Hrel) as (_ & Ht & _).
  rewrite Hget in Hg. cbn [erase spec_step] in Hg, Ht. unfold spec_slot in *.
  set (p := spec_exec spec_init ops) in *.
  destruct ((a <? p_narr p) && p_alive p a); [|discriminate].
  destruct (p_info p n) as [[[cb ct] dt]|]; [|discriminate].
  assert (Hcur : p_val p a n = cur).
  { destruct (negb (p_val p a n =? 0)%N) eqn:Ez; [cbn in Hg; congruence|].
    destruct (ct =? 0)%N; [cbn in Hg; inversion Hg; congruence|].
    destruct (ctorval ct (S a) =? 0)%N; cbn in Hg; inversion Hg; congruence. }
  rewrite Hcur in Ht.
  destruct (step all_fixed (reached all_fixed ops) (Tas a n v old)) as [s' r]. cbn [snd] in *.
  destruct r as [o|o d|o| | |v' c' ev'| | |]; cbn in Ht; try (destruct (cur =? old)%N; discriminate).
  destruct (cur =? old)%N; cbn in Ht; inversion Ht; reflexivity.
Qed.

(* ---- what the three rules of the unchanged code break ------------------------------ *)
Lemma nodupb_complete l : NoDup l -> nodupb l = true.
Proof.
  induction l as [|x r IH]; intros H; cbn; [reflexivity|]. inversion H as [|? ? Hn Hd]; subst.
  rewrite (IH Hd), Bool.andb_true_r. apply Bool.negb_true_iff.
  destruct (existsb (Nat.eqb x) r) eqn:E; [|reflexivity].
  apply existsb_exists in E. destruct E as (y & Hy & Hxy). apply Nat.eqb_eq in Hxy. subst y. contradiction.
Qed.

Definition only_reg_unfixed : fixes := {| fx_reg := false; fx_ioa := true; fx_unreg := true |}.
Definition only_ioa_unfixed : fixes := {| fx_reg := true; fx_ioa := false; fx_unreg := true |}.
Definition only_unreg_unfixed : fixes := {| fx_reg := true; fx_ioa := true; fx_unreg := false |}.

Definition R (n : nat) : op := Reg n 7%N 0%N false.
Definition V1 : N := 0x1122334455667788%N.

(* F1: register a, b; unregister a; register c, d: c and d both get id 0 *)
Definition w_id_reuse : list op := [R 0; R 1; Unreg 0; R 2; R 3].

Lemma P_ids_distinct_refuted :
  ~ NoDup (map e_iid (s_reg (reached only_reg_unfixed w_id_reuse))) /\
  ~ NoDup (map e_iid (s_reg (reached none_fixed w_id_reuse))) /\
  snd (run none_fixed init w_id_reuse) =
    [RReg (Some 0); RReg (Some 1); RUnreg (Some 0) []; RReg (Some 0); RReg (Some 0)].
Proof.
  split; [|split]; [| |vm_compute; reflexivity];
    intros H; apply nodupb_complete in H; vm_compute in H; discriminate.
Qed.

(* ... after which unregistering c removes d's entry (the first one carrying id 0): the
   client still holds an id for d that lookup no longer knows, and lookup still knows c *)
Definition w_wrong_entry : list op := w_id_reuse ++ [Unreg 2].
Lemma P_lookup_held_refuted :
  let s := reached none_fixed w_wrong_entry in
  cl_find 3 (s_cl s) = Some 0 /\ lookup 3 (s_reg s) = None /\
  cl_find 2 (s_cl s) = None /\ lookup 2 (s_reg s) = Some (0, 7%N).
Proof. vm_compute. repeat split. Qed.

(* ... and a get through an identifier whose entry is gone dereferences NULL *)
Definition w_crash : list op :=
  [R 0; R 1; R 2; Unreg 1; R 3; R 4; Unreg 2; Unreg 3; R 5; R 2; Unreg 5; NewArr; GetV 0 4].
Lemma P_crash_refuted : snd (step none_fixed (reached none_fixed (removelast w_crash)) (GetV 0 4)) = RCrash.
Proof. vm_compute. reflexivity. Qed.

(* F2: one info, an array, a value; a second info; using it on the array grows the array
   and zeroes the low byte of the stored pointer; the new slot is not NULL *)
Definition w_resize : list op := [R 0; NewArr; SetV 0 0 V1; R 1; GetV 0 1; GetV 0 0].

Lemma P_get_last_set_refuted :
  (exists s1 old, step only_ioa_unfixed (reached only_ioa_unfixed [R 0; NewArr]) (SetV 0 0 V1) = (s1, RVal old false []) /\
     Forall (fun o => touches 0 0 o = false) [R 1; GetV 0 1] /\
     snd (step only_ioa_unfixed (fst (run only_ioa_unfixed s1 [R 1; GetV 0 1])) (GetV 0 0))
       = RVal 0x1122334455667700%N false []) /\
  snd (run none_fixed init w_resize) =
    [RReg (Some 0); RArr 0; RVal 0%N false []; RReg (Some 1); RVal POISON false [];
     RVal 0x1122334455667700%N false []] /\
  erase_all w_resize (snd (run only_ioa_unfixed init w_resize)) <> spec_run spec_init w_resize.
Proof.
  split; [|split].
  - eexists. eexists. split; [vm_compute; reflexivity|]. split; [repeat constructor|]. vm_compute. reflexivity.
  - vm_compute. reflexivity.
  - vm_compute. discriminate.
Qed.

(* F3: an info without destructor is unregistered; the next info registered gets the same
   id and reads the value left in the array *)
Definition w_stale : list op := [R 0; NewArr; SetV 0 0 V1; Unreg 0; R 1; GetV 0 1].

Lemma P_stale_slot_refuted :
  snd (run only_unreg_unfixed init w_stale) =
    [RReg (Some 0); RArr 0; RVal 0%N false []; RUnreg (Some 0) []; RReg (Some 0); RVal V1 false []] /\
  snd (run none_fixed init w_stale) = snd (run only_unreg_unfixed init w_stale) /\
  erase_all w_stale (snd (run only_unreg_unfixed init w_stale)) <> spec_run spec_init w_stale.
Proof. split; [|split]; vm_compute; try reflexivity. discriminate. Qed.
