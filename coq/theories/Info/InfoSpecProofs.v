(* C41 — the repaired model refines the dictionary specification: for every
   operation sequence the results (identifiers erased) are those of
   [spec_run]; in particular get returns the last value set / test-and-set /
   constructed for that (array, name), whatever registrations, registry growth,
   array growth and operations on other names happened in between. *)
From PV Require Import Base.Tac Info.InfoDefs Info.InfoRegProofs.
From Coq Require Import NArith.
Local Open Scope nat_scope.

(* ---- slots ------------------------------------------------------------------ *)
Lemma upd_nth_length l i v : length (upd_nth l i v) = length l.
Proof. revert i; induction l as [|x l IH]; intros [|i]; cbn; auto. Qed.

Lemma nth_upd_nth l i j v : i < length l ->
  nth j (upd_nth l i v) 0%N = if j =? i then v else nth j l 0%N.
Proof.
  revert i j; induction l as [|x l IH]; intros i j Hi; cbn in Hi; [lia|].
  destruct i as [|i], j as [|j]; cbn; try reflexivity.
  apply IH. lia.
Qed.

Lemma nth_repeat0 m j : nth j (repeat 0%N m) 0%N = 0%N.
Proof. revert j; induction m as [|m IH]; intros [|j]; cbn; auto. Qed.

Lemma nth_app_zeros l m j : nth j (l ++ repeat 0%N m) 0%N = nth j l 0%N.
Proof.
  revert j; induction l as [|x l IH]; intros j; cbn [app].
  - rewrite nth_repeat0. now destruct j.
  - destruct j; cbn; auto.
Qed.

Lemma memset0_app l r nb : memset0 (l ++ r) (length l) nb = l ++ memset0 r 0 nb.
Proof. induction l as [|x l IH]; cbn [app length memset0]; [reflexivity|]. now rewrite IH. Qed.

Lemma clear_low_8 v : clear_low 8 v = 0%N.
Proof. reflexivity. Qed.

Lemma memset0_repeat v m : memset0 (repeat v m) 0 (8 * m) = repeat 0%N m.
Proof.
  induction m as [|m IH]; [reflexivity|].
  cbn [repeat memset0]. replace (Nat.min 8 (8 * S m)) with 8 by lia.
  rewrite clear_low_8. replace (8 * S m - 8) with (8 * m) by lia. now rewrite IH.
Qed.

(* the repaired resize is invisible through [nth _ _ 0] and makes room for iid *)
Lemma resize_fixed maxp x i : length (a_slots x) = a_known x -> i < maxp ->
  a_alive (resize true maxp x i) = a_alive x /\
  length (a_slots (resize true maxp x i)) = a_known (resize true maxp x i) /\
  i < a_known (resize true maxp x i) /\
  forall j, nth j (a_slots (resize true maxp x i)) 0%N = nth j (a_slots x) 0%N.
Proof.
  intros Hlen Hi. unfold resize. destruct (a_known x <=? i) eqn:E.
  - apply Nat.leb_le in E. cbn [a_alive a_known a_slots]. split; [reflexivity|].
    destruct (0 <? a_known x) eqn:E0.
    + unfold realloc. rewrite firstn_all2 by lia. rewrite Hlen.
      pose proof (memset0_app (a_slots x) (repeat POISON (maxp - a_known x)) (8 * (maxp - a_known x))) as Hm.
      rewrite Hlen, memset0_repeat in Hm. rewrite Hm.
      split; [rewrite app_length, repeat_length; lia|]. split; [exact Hi|].
      intros j. apply nth_app_zeros.
    + apply Nat.ltb_ge in E0. assert (Hnil : a_slots x = []) by (destruct (a_slots x); [reflexivity|cbn in Hlen; lia]).
      split; [apply repeat_length|]. split; [exact Hi|].
      intros j. rewrite Hnil, nth_repeat0. now destruct j.
  - apply Nat.leb_gt in E. repeat split; auto.
Qed.

Lemma resize_noop fx maxp x i : i < a_known x -> resize fx maxp x i = x.
Proof. intros H. unfold resize. apply Nat.leb_gt in H. now rewrite H. Qed.

(* ---- replacing one array ------------------------------------------------------ *)
Lemma nth_error_replace {A} (l : list A) a x b : a < length l ->
  nth_error (firstn a l ++ x :: skipn (S a) l) b = if b =? a then Some x else nth_error l b.
Proof.
  revert a b; induction l as [|y l IH]; intros a b Ha; cbn in Ha; [lia|].
  destruct a as [|a], b as [|b]; cbn; try reflexivity.
  apply IH. lia.
Qed.

Lemma replace_length {A} (l : list A) a x : a < length l -> length (firstn a l ++ x :: skipn (S a) l) = length l.
Proof.
  revert a; induction l as [|y l IH]; intros a Ha; cbn in Ha; [lia|].
  destruct a as [|a]; cbn; [reflexivity|]. rewrite IH; lia.
Qed.

Lemma nth_error_lt {A} (l : list A) a x : nth_error l a = Some x -> a < length l.
Proof. intros H. apply nth_error_Some. congruence. Qed.

(* ---- the simulation relation --------------------------------------------------- *)
Definition attrs (e : entry) : N * N * bool := (e_cb e, e_ctor e, e_dtor e).

Record Rel (s : st) (p : spec) : Prop := {
  rl_info : forall n, p_info p n = option_map attrs (find_name n (s_reg s));
  rl_narr : p_narr p = length (s_arrs s);
  rl_alive : forall a x, nth_error (s_arrs s) a = Some x -> p_alive p a = a_alive x;
  rl_len : forall a x, nth_error (s_arrs s) a = Some x -> length (a_slots x) = a_known x;
  rl_val : forall a x e, nth_error (s_arrs s) a = Some x -> a_alive x = true -> In e (s_reg s) ->
           p_val p a (e_name e) = nth (e_iid e) (a_slots x) 0%N;
  rl_free : forall a x i, nth_error (s_arrs s) a = Some x -> a_alive x = true ->
            (forall e, In e (s_reg s) -> e_iid e <> i) -> nth i (a_slots x) 0%N = 0%N;
  rl_none : forall a n, p_info p n = None -> p_val p a n = 0%N
}.

Lemma init_Rel : Rel init spec_init.
Proof.
  constructor; cbn; try reflexivity; intros; try (destruct a; discriminate); reflexivity.
Qed.

(* one live array is replaced; the dictionary changes only on that array *)
Lemma Rel_replace s p a x y f :
  Rel s p -> nth_error (s_arrs s) a = Some x -> a_alive x = true -> a_alive y = true ->
  length (a_slots y) = a_known y ->
  (forall e, In e (s_reg s) -> f a (e_name e) = nth (e_iid e) (a_slots y) 0%N) ->
  (forall i, (forall e, In e (s_reg s) -> e_iid e <> i) -> nth i (a_slots y) 0%N = 0%N) ->
  (forall b m, b <> a -> f b m = p_val p b m) ->
  (forall m, p_info p m = None -> f a m = 0%N) ->
  Rel (set_arr s a y) (with_val p f).
Proof.
  intros [Hinfo Hnarr Halive Hlen Hval Hfree Hnone] Hx Hxa Hya Hyl Hf Hfr Hother Hfn.
  pose proof (nth_error_lt _ _ _ Hx) as Ha.
  constructor; cbn [set_arr with_val s_reg s_arrs p_info p_narr p_alive p_val].
  - exact Hinfo.
  - rewrite replace_length by exact Ha. exact Hnarr.
  - intros b z. rewrite nth_error_replace by exact Ha. destruct (b =? a) eqn:E.
    + apply Nat.eqb_eq in E. subst b. intros H; inversion H; subst z. rewrite (Halive _ _ Hx). congruence.
    + apply Halive.
  - intros b z. rewrite nth_error_replace by exact Ha. destruct (b =? a) eqn:E.
    + intros H; inversion H; subst z. exact Hyl.
    + apply Hlen.
  - intros b z e. rewrite nth_error_replace by exact Ha. destruct (b =? a) eqn:E.
    + apply Nat.eqb_eq in E. subst b. intros H; inversion H; subst z. intros _ He. now apply Hf.
    + apply Nat.eqb_neq in E. intros Hz Hza He. rewrite Hother by exact E. now apply Hval.
  - intros b z i. rewrite nth_error_replace by exact Ha. destruct (b =? a) eqn:E.
    + intros H; inversion H; subst z. intros _. apply Hfr.
    + apply Hfree.
  - intros b m Hm. destruct (Nat.eq_dec b a) as [->|Hne]; [now apply Hfn|].
    rewrite Hother by exact Hne. now apply Hnone.
Qed.

(* ---- the guards of with_slot / spec_slot agree --------------------------------- *)
Lemma slot_cases s p a n : RegInv s -> Rel s p ->
  (exists x e, nth_error (s_arrs s) a = Some x /\ a_alive x = true /\ In e (s_reg s) /\ e_name e = n /\
     e_iid e < s_maxp s /\
     (forall k, with_slot s a n k = k x (e_iid e)) /\
     (forall k, spec_slot p a n k = k (attrs e)))
  \/ ((forall k, with_slot s a n k = (s, RSkip)) /\ (forall k, spec_slot p a n k = (p, ESkip))).
Proof.
  intros Hinv Hrel. unfold with_slot, spec_slot.
  destruct (nth_error (s_arrs s) a) as [x|] eqn:Hx.
  - pose proof (nth_error_lt _ _ _ Hx) as Ha. rewrite <- (rl_narr _ _ Hrel) in Ha.
    apply Nat.ltb_lt in Ha. rewrite Ha, (rl_alive _ _ Hrel _ _ Hx). cbn [andb].
    destruct (a_alive x) eqn:Hal; [|right; split; reflexivity].
    rewrite (rl_info _ _ Hrel n).
    destruct (cl_find n (s_cl s)) as [i|] eqn:C.
    + destruct (held_entry _ _ _ Hinv C) as (e & Hin & Hen & Hei & Hf).
      left. exists x, e. pose proof (ri_max _ Hinv e Hin) as Hlt.
      repeat split; try assumption.
      * intros k. rewrite <- Hei. apply Nat.leb_gt in Hlt. now rewrite Hlt.
      * intros k. rewrite Hf. reflexivity.
    + right. rewrite (ri_cl _ Hinv n) in C. destruct (find_name n (s_reg s)); [discriminate|].
      split; reflexivity.
  - right. apply nth_error_None in Hx. rewrite <- (rl_narr _ _ Hrel) in Hx.
    apply Nat.ltb_ge in Hx. rewrite Hx. split; reflexivity.
Qed.

(* the entry carrying a name / an id is unique *)
Lemma name_uniq s e e' : RegInv s -> In e (s_reg s) -> In e' (s_reg s) -> e_name e = e_name e' -> e = e'.
Proof. intros Hinv. apply NoDup_map_uniq. apply (ri_names _ Hinv). Qed.
Lemma iid_uniq s e e' : RegInv s -> In e (s_reg s) -> In e' (s_reg s) -> e_iid e = e_iid e' -> e = e'.
Proof. intros Hinv. eapply incr_uniq. apply (ri_incr _ Hinv). Qed.

(* writing v into the slot of e on a resized copy of array a *)
Lemma Rel_write s p a x e sl kn v :
  RegInv s -> Rel s p -> nth_error (s_arrs s) a = Some x -> a_alive x = true -> In e (s_reg s) ->
  kn = length sl -> e_iid e < length sl -> (forall j, nth j sl 0%N = nth j (a_slots x) 0%N) ->
  Rel (set_arr s a {| a_alive := true; a_known := kn; a_slots := upd_nth sl (e_iid e) v |})
      (with_val p (upd2 (p_val p) a (e_name e) v)).
Proof.
  intros Hinv Hrel Hx Hxa He Hkn Hlt Hsame.
  eapply Rel_replace; eauto; cbn [a_alive a_known a_slots].
  - rewrite upd_nth_length. now symmetry.
  - intros e' He'. unfold upd2. rewrite Nat.eqb_refl. cbn [andb].
    rewrite nth_upd_nth by exact Hlt. destruct (e_name e' =? e_name e) eqn:E.
    + apply Nat.eqb_eq in E. assert (e' = e) by (eapply name_uniq; eauto). subst e'.
      now rewrite Nat.eqb_refl.
    + destruct (e_iid e' =? e_iid e) eqn:E2.
      * apply Nat.eqb_eq in E2. assert (e' = e) by (eapply iid_uniq; eauto). subst e'.
        rewrite Nat.eqb_refl in E. discriminate.
      * rewrite Hsame. now apply (rl_val _ _ Hrel).
  - intros i Hi. rewrite nth_upd_nth by exact Hlt. destruct (i =? e_iid e) eqn:E.
    + apply Nat.eqb_eq in E. exfalso. eapply Hi; eauto.
    + rewrite Hsame. now apply (rl_free _ _ Hrel _ _ _ Hx Hxa).
  - intros b m Hb. unfold upd2. apply Nat.eqb_neq in Hb. now rewrite Hb.
  - intros m Hm. unfold upd2. rewrite Nat.eqb_refl. cbn [andb].
    destruct (m =? e_name e) eqn:E; [|now apply (rl_none _ _ Hrel)].
    apply Nat.eqb_eq in E. subst m. rewrite (rl_info _ _ Hrel), (find_name_self _ _ (ri_names _ Hinv) He) in Hm.
    discriminate.
Qed.

(* array a replaced by a copy with the same content *)
Lemma Rel_same s p a x y :
  Rel s p -> nth_error (s_arrs s) a = Some x -> a_alive x = true -> a_alive y = true ->
  length (a_slots y) = a_known y -> (forall j, nth j (a_slots y) 0%N = nth j (a_slots x) 0%N) ->
  Rel (set_arr s a y) p.
Proof.
  intros Hrel Hx Hxa Hya Hyl Hsame.
  assert (Hp : p = with_val p (p_val p)) by (destruct p; reflexivity).
  rewrite Hp. eapply Rel_replace; eauto.
  - intros e He. rewrite Hsame. now apply (rl_val _ _ Hrel).
  - intros i Hi. rewrite Hsame. now apply (rl_free _ _ Hrel _ _ _ Hx Hxa).
  - intros m Hm. now apply (rl_none _ _ Hrel).
Qed.

(* ---- unregistration over the arrays --------------------------------------------- *)
Lemma unreg_arrs_length dtor c i arrs : length (fst (unreg_arrs dtor c i arrs)) = length arrs.
Proof.
  induction arrs as [|a r IH]; cbn [unreg_arrs]; [reflexivity|].
  destruct (unreg_arrs dtor c i r) as [r' ev]. destruct (unreg_ioa dtor c i a) as [a' ev1].
  cbn [fst length] in *. now rewrite IH.
Qed.

Lemma unreg_arrs_nth dtor c i arrs a :
  nth_error (fst (unreg_arrs dtor c i arrs)) a = option_map (fun x => fst (unreg_ioa dtor c i x)) (nth_error arrs a).
Proof.
  revert a; induction arrs as [|y r IH]; intros a; cbn [unreg_arrs].
  - now destruct a.
  - specialize (IH (pred a)). destruct (unreg_arrs dtor c i r) as [r' ev].
    destruct (unreg_ioa dtor c i y) as [y' ev1] eqn:U. cbn [fst] in *.
    destruct a as [|a]; cbn [nth_error option_map]; [now rewrite U|exact IH].
Qed.

(* with the repair the slot of the freed id reads 0 afterwards, nothing else changes *)
Lemma unreg_ioa_fixed dtor i x : length (a_slots x) = a_known x ->
  let y := fst (unreg_ioa dtor true i x) in
  a_alive y = a_alive x /\ length (a_slots y) = a_known y /\
  forall j, nth j (a_slots y) 0%N = if (j =? i) && a_alive x then 0%N else nth j (a_slots x) 0%N.
Proof.
  intros Hlen. unfold unreg_ioa. rewrite Bool.orb_true_r, Bool.andb_true_r.
  destruct (a_alive x) eqn:Hal; cbn [andb].
  - destruct (i <? a_known x) eqn:E1; cbn [andb].
    + apply Nat.ltb_lt in E1. destruct (nth i (a_slots x) 0 =? 0)%N eqn:E2; cbn [negb fst].
      * apply N.eqb_eq in E2. repeat split; auto. intros j. rewrite Bool.andb_true_r.
        destruct (j =? i) eqn:E; [apply Nat.eqb_eq in E; now subst j|reflexivity].
      * cbn [a_alive a_known a_slots]. split; [reflexivity|]. split; [now rewrite upd_nth_length|].
        intros j. rewrite Bool.andb_true_r. apply nth_upd_nth. lia.
    + cbn [fst]. apply Nat.ltb_ge in E1. repeat split; auto. intros j. rewrite Bool.andb_true_r.
      destruct (j =? i) eqn:E; [|reflexivity]. apply Nat.eqb_eq in E. subst j. apply nth_overflow. lia.
  - cbn [fst]. repeat split; auto. intros j. now rewrite Bool.andb_false_r.
Qed.

(* destructor calls of the specification over the arrays off .. off+len-1, the most recent first *)
Fixpoint sd_from (p : spec) (n off len : nat) : list N :=
  match len with
  | O => []
  | S j => (if p_alive p (off + j) && negb (p_val p (off + j) n =? 0)%N then [p_val p (off + j) n] else [])
           ++ sd_from p n off j
  end.

Lemma spec_destroyed_sd p n k : spec_destroyed p n k = sd_from p n 0 k.
Proof. induction k as [|k IH]; cbn; [reflexivity|]. now rewrite IH. Qed.

Lemma sd_from_shift p n off len :
  sd_from p n off (S len) =
  sd_from p n (S off) len ++ (if p_alive p off && negb (p_val p off n =? 0)%N then [p_val p off n] else []).
Proof.
  induction len as [|len IH].
  - cbn. rewrite Nat.add_0_r, app_nil_r. reflexivity.
  - cbn [sd_from] in *. rewrite IH. rewrite app_assoc. f_equal. f_equal.
    replace (S off + len) with (off + S len) by lia. reflexivity.
Qed.

Lemma unreg_arrs_events p n i dtor arrs off :
  (forall a x, nth_error arrs a = Some x ->
     p_alive p (off + a) = a_alive x /\ length (a_slots x) = a_known x /\
     (a_alive x = true -> p_val p (off + a) n = nth i (a_slots x) 0%N)) ->
  snd (unreg_arrs dtor true i arrs) = if dtor then sd_from p n off (length arrs) else [].
Proof.
  revert off; induction arrs as [|y r IH]; intros off H; cbn [unreg_arrs].
  - now destruct dtor.
  - assert (Hr : forall a x, nth_error r a = Some x ->
              p_alive p (S off + a) = a_alive x /\ length (a_slots x) = a_known x /\
              (a_alive x = true -> p_val p (S off + a) n = nth i (a_slots x) 0%N)).
    { intros a x Hx. replace (S off + a) with (off + S a) by lia. apply H. exact Hx. }
    specialize (IH (S off) Hr). destruct (unreg_arrs dtor true i r) as [r' ev]. cbn [snd] in IH.
    destruct (H 0 y eq_refl) as (Hal & Hlen & Hv). rewrite Nat.add_0_r in Hal, Hv.
    unfold unreg_ioa. rewrite Bool.orb_true_r, Bool.andb_true_r.
    assert (Hcond : a_alive y && (i <? a_known y) && negb (nth i (a_slots y) 0 =? 0)%N
                    = p_alive p off && negb (p_val p off n =? 0)%N).
    { rewrite Hal. destruct (a_alive y) eqn:Ea; cbn [andb]; [|reflexivity]. rewrite (Hv eq_refl).
      destruct (i <? a_known y) eqn:E1; cbn [andb]; [reflexivity|].
      apply Nat.ltb_ge in E1. rewrite nth_overflow by lia. reflexivity. }
    rewrite Hcond. cbn [length]. rewrite IH.
    destruct dtor.
    + rewrite sd_from_shift. destruct (p_alive p off && negb (p_val p off n =? 0)%N) eqn:Ec; cbn [snd].
      * f_equal. f_equal. destruct (a_alive y) eqn:Ea.
        -- symmetry. now apply Hv.
        -- rewrite Hal in Ec. discriminate.
      * reflexivity.
    + destruct (p_alive p off && negb (p_val p off n =? 0)%N); reflexivity.
Qed.

(* ---- one step ---------------------------------------------------------------------- *)
Definition sim_step (s : st) (p : spec) (o : op) : Prop :=
  Rel (fst (step all_fixed s o)) (fst (spec_step p o)) /\
  erase o (snd (step all_fixed s o)) = snd (spec_step p o) /\
  snd (step all_fixed s o) <> RCrash.

Lemma sim_reg s p n cb ctor dtor : RegInv s -> Rel s p -> sim_step s p (Reg n cb ctor dtor).
Proof.
  intros Hinv Hrel. unfold sim_step. cbn [step spec_step all_fixed fx_reg].
  rewrite register_fixed, has_name_find, (rl_info _ _ Hrel n).
  destruct (find_name n (s_reg s)) as [e0|] eqn:F; cbn [option_map fst snd erase].
  - split; [|split; [reflexivity|discriminate]]. destruct Hrel; constructor; assumption.
  - cbv zeta. cbn [fst snd erase]. split; [|split; [reflexivity|discriminate]].
    set (k := mex (s_reg s) 0).
    set (x := {| e_iid := k; e_name := n; e_cb := cb; e_ctor := ctor; e_dtor := dtor |}).
    assert (Hnone : forall y, In y (s_reg s) -> (e_name y =? n) = false).
    { intros y Hy. unfold find_name in F. eapply find_none in F; eauto. }
    assert (Hpn : p_info p n = None) by (rewrite (rl_info _ _ Hrel), F; reflexivity).
    destruct Hrel as [Hinfo Hnarr Halive Hlen Hval Hfree Hnn].
    constructor; cbn [s_reg s_arrs p_info p_narr p_alive p_val].
    + intros m. unfold find_name. destruct (m =? n) eqn:E.
      * apply Nat.eqb_eq in E. subst m.
        rewrite find_insert_new; [reflexivity|cbn; apply Nat.eqb_refl|exact Hnone].
      * rewrite find_insert_other; [apply Hinfo|]. cbn. now rewrite Nat.eqb_sym.
    + exact Hnarr.
    + exact Halive.
    + exact Hlen.
    + intros a y e Hy Hya He. apply insert_before_in in He. destruct He as [->|He].
      * change (e_name x) with n. change (e_iid x) with k. rewrite (Hnn a n Hpn). symmetry. eapply Hfree; eauto.
        intros e He. now apply mex_fresh; [apply (ri_incr _ Hinv)|].
      * eapply Hval; eauto.
    + intros a y i Hy Hya Hi. eapply Hfree; eauto. intros e He. apply Hi. apply insert_before_in. now right.
    + intros a m. destruct (m =? n) eqn:E; [discriminate|]. apply Hnn.
Qed.

Lemma sim_lookup s p n : RegInv s -> Rel s p -> sim_step s p (Lookup n).
Proof.
  intros Hinv Hrel. unfold sim_step. cbn [step spec_step fst snd]. split; [exact Hrel|]. split; [|discriminate].
  unfold lookup. rewrite (rl_info _ _ Hrel n). destruct (find_name n (s_reg s)) as [e|]; reflexivity.
Qed.

Lemma nth_error_snoc {A} (l : list A) y a :
  nth_error (l ++ [y]) a = if a <? length l then nth_error l a else if a =? length l then Some y else None.
Proof.
  destruct (a <? length l) eqn:E.
  - apply Nat.ltb_lt in E. now apply nth_error_app1.
  - apply Nat.ltb_ge in E. rewrite nth_error_app2 by exact E.
    destruct (a =? length l) eqn:E2.
    + apply Nat.eqb_eq in E2. subst a. now rewrite Nat.sub_diag.
    + apply Nat.eqb_neq in E2. destruct (a - length l) as [|k] eqn:E3; [lia|]. cbn. now destruct k.
Qed.

Lemma sim_newarr s p : RegInv s -> Rel s p -> sim_step s p NewArr.
Proof.
  intros Hinv [Hinfo Hnarr Halive Hlen Hval Hfree Hnn]. unfold sim_step. cbn [step spec_step fst snd erase].
  split; [|split; [now rewrite Hnarr|discriminate]].
  constructor; cbn [s_reg s_arrs p_info p_narr p_alive p_val].
  - exact Hinfo.
  - rewrite app_length. cbn. lia.
  - intros a x. rewrite nth_error_snoc, Hnarr. destruct (a <? length (s_arrs s)) eqn:E.
    + apply Nat.ltb_lt in E. destruct (a =? length (s_arrs s)) eqn:E2; [apply Nat.eqb_eq in E2; lia|]. apply Halive.
    + destruct (a =? length (s_arrs s)); [|discriminate]. intros H; inversion H. reflexivity.
  - intros a x. rewrite nth_error_snoc. destruct (a <? length (s_arrs s)); [apply Hlen|].
    destruct (a =? length (s_arrs s)); [|discriminate]. intros H; inversion H. cbn. apply repeat_length.
  - intros a x e. rewrite nth_error_snoc, Hnarr. destruct (a <? length (s_arrs s)) eqn:E.
    + apply Nat.ltb_lt in E. destruct (a =? length (s_arrs s)) eqn:E2; [apply Nat.eqb_eq in E2; lia|]. apply Hval.
    + destruct (a =? length (s_arrs s)); [|discriminate]. intros H; inversion H. intros _ _. cbn.
      now rewrite nth_repeat0.
  - intros a x i. rewrite nth_error_snoc. destruct (a <? length (s_arrs s)); [apply Hfree|].
    destruct (a =? length (s_arrs s)); [|discriminate]. intros H; inversion H. intros _ _. cbn. apply nth_repeat0.
  - intros a m Hm. destruct (a =? p_narr p); [reflexivity|]. now apply Hnn.
Qed.

Lemma sim_delarr s p a : RegInv s -> Rel s p -> sim_step s p (DelArr a).
Proof.
  intros Hinv Hrel. unfold sim_step. cbn [step spec_step].
  destruct (nth_error (s_arrs s) a) as [x|] eqn:Hx.
  - pose proof (nth_error_lt _ _ _ Hx) as Ha. pose proof Ha as Ha'. rewrite <- (rl_narr _ _ Hrel) in Ha'.
    apply Nat.ltb_lt in Ha'. rewrite Ha', (rl_alive _ _ Hrel _ _ Hx). cbn [andb].
    destruct (a_alive x) eqn:Hal; cbn [fst snd erase]; [|split; [exact Hrel|split; [reflexivity|discriminate]]].
    split; [|split; [reflexivity|discriminate]].
    destruct Hrel as [Hinfo Hnarr Halive Hlen Hval Hfree Hnn].
    constructor; cbn [set_arr s_reg s_arrs p_info p_narr p_alive p_val].
    + exact Hinfo.
    + now rewrite replace_length.
    + intros b z. rewrite nth_error_replace by exact Ha. destruct (b =? a); [intros H; inversion H; reflexivity|apply Halive].
    + intros b z. rewrite nth_error_replace by exact Ha. destruct (b =? a); [intros H; inversion H; reflexivity|apply Hlen].
    + intros b z e. rewrite nth_error_replace by exact Ha. destruct (b =? a); [intros H; inversion H; subst z; discriminate|apply Hval].
    + intros b z i. rewrite nth_error_replace by exact Ha. destruct (b =? a); [intros H; inversion H; subst z; discriminate|apply Hfree].
    + exact Hnn.
  - apply nth_error_None in Hx. rewrite <- (rl_narr _ _ Hrel) in Hx. apply Nat.ltb_ge in Hx. rewrite Hx.
    cbn [andb fst snd erase]. split; [exact Hrel|split; [reflexivity|discriminate]].
Qed.

Lemma sim_set s p a n v : RegInv s -> Rel s p -> sim_step s p (SetV a n v).
Proof.
  intros Hinv Hrel. unfold sim_step. cbn [step spec_step all_fixed fx_ioa].
  destruct (slot_cases s p a n Hinv Hrel) as [(x & e & Hx & Hxa & He & Hen & Hlt & Hw & Hs)|[Hw Hs]].
  - rewrite Hw, Hs. cbn [fst snd erase]. subst n.
    destruct (resize_fixed (s_maxp s) x (e_iid e) (rl_len _ _ Hrel _ _ Hx) Hlt) as (_ & Hl & Hi & Hsame).
    split; [|split; [|discriminate]].
    + eapply Rel_write; eauto. lia.
    + rewrite Hsame, (rl_val _ _ Hrel _ _ _ Hx Hxa He). reflexivity.
  - rewrite Hw, Hs. cbn [fst snd erase]. split; [exact Hrel|split; [reflexivity|discriminate]].
Qed.

Lemma sim_tas s p a n v old : RegInv s -> Rel s p -> sim_step s p (Tas a n v old).
Proof.
  intros Hinv Hrel. unfold sim_step. cbn [step spec_step all_fixed fx_ioa].
  destruct (slot_cases s p a n Hinv Hrel) as [(x & e & Hx & Hxa & He & Hen & Hlt & Hw & Hs)|[Hw Hs]].
  - rewrite Hw, Hs. subst n.
    destruct (resize_fixed (s_maxp s) x (e_iid e) (rl_len _ _ Hrel _ _ Hx) Hlt) as (Hal & Hl & Hi & Hsame).
    unfold do_tas. rewrite Hsame, <- (rl_val _ _ Hrel _ _ _ Hx Hxa He).
    destruct (p_val p a (e_name e) =? old)%N; cbn [fst snd erase].
    + split; [|split; [reflexivity|discriminate]]. eapply Rel_write; eauto. lia.
    + split; [|split; [reflexivity|discriminate]].
      eapply Rel_same; eauto.
  - rewrite Hw, Hs. cbn [fst snd erase]. split; [exact Hrel|split; [reflexivity|discriminate]].
Qed.

Lemma sim_get s p a n : RegInv s -> Rel s p -> sim_step s p (GetV a n).
Proof.
  intros Hinv Hrel. unfold sim_step. cbn [step spec_step all_fixed fx_ioa].
  destruct (slot_cases s p a n Hinv Hrel) as [(x & e & Hx & Hxa & He & Hen & Hlt & Hw & Hs)|[Hw Hs]].
  - rewrite Hw, Hs. subst n. unfold attrs.
    destruct (resize_fixed (s_maxp s) x (e_iid e) (rl_len _ _ Hrel _ _ Hx) Hlt) as (Hal & Hl & Hi & Hsame).
    rewrite Hsame, <- (rl_val _ _ Hrel _ _ _ Hx Hxa He).
    assert (Hkeep : Rel (set_arr s a (resize true (s_maxp s) x (e_iid e))) p).
    { eapply Rel_same; eauto; congruence. }
    destruct (negb (p_val p a (e_name e) =? 0)%N) eqn:Ez; cbn [fst snd erase].
    { split; [exact Hkeep|split; [reflexivity|discriminate]]. }
    rewrite (find_iid_self _ _ _ (ri_incr _ Hinv) He).
    destruct (e_ctor e =? 0)%N; cbn [fst snd erase].
    { apply Bool.negb_false_iff, N.eqb_eq in Ez. rewrite Ez. split; [exact Hkeep|split; [reflexivity|discriminate]]. }
    destruct (ctorval (e_ctor e) (S a) =? 0)%N eqn:Ec; cbn [fst snd erase].
    { apply Bool.negb_false_iff, N.eqb_eq in Ez. rewrite Ez. split; [exact Hkeep|split; [reflexivity|discriminate]]. }
    rewrite (resize_noop _ _ _ _ Hi). unfold do_tas.
    rewrite Hsame, <- (rl_val _ _ Hrel _ _ _ Hx Hxa He).
    apply Bool.negb_false_iff in Ez. rewrite Ez. cbn [fst snd erase].
    rewrite N.eqb_refl. cbn [negb andb].
    split; [|split; [reflexivity|discriminate]].
    eapply Rel_write; eauto. lia.
  - rewrite Hw, Hs. cbn [fst snd erase]. split; [exact Hrel|split; [reflexivity|discriminate]].
Qed.

Lemma sim_unregid s p i : RegInv s -> Rel s p -> sim_step s p (UnregId i).
Proof.
  intros Hinv Hrel. unfold sim_step. cbn [step spec_step].
  destruct (cl_holds i (s_cl s)) eqn:C; cbn [fst snd erase].
  { split; [exact Hrel|split; [reflexivity|discriminate]]. }
  destruct (unregister_nodup all_fixed i s (incr_NoDup _ _ (ri_incr _ Hinv))) as (mp' & Hu & _).
  rewrite Hu. pose proof (no_holder_no_entry _ _ Hinv C) as Hno.
  rewrite (filter_none _ _ Hno). cbn [unreg_found fst snd erase].
  assert (Hrem : remove_iid i (s_reg s) = s_reg s).
  { apply filter_all. intros x Hx. now rewrite (Hno x Hx). }
  rewrite Hrem. split; [|split; [reflexivity|discriminate]].
  destruct Hrel; constructor; assumption.
Qed.

Lemma sim_unreg s p n : RegInv s -> Rel s p -> sim_step s p (Unreg n).
Proof.
  intros Hinv Hrel. unfold sim_step. cbn [step spec_step].
  rewrite (rl_info _ _ Hrel n).
  destruct (cl_find n (s_cl s)) as [i|] eqn:C.
  2:{ rewrite (ri_cl _ Hinv n) in C. destruct (find_name n (s_reg s)); [discriminate|].
      cbn [option_map fst snd erase]. split; [exact Hrel|split; [reflexivity|discriminate]]. }
  destruct (held_entry _ _ _ Hinv C) as (e & Hin & Hen & Hei & Hf). rewrite Hf. cbn [option_map attrs].
  destruct (unregister_nodup all_fixed i s (incr_NoDup _ _ (ri_incr _ Hinv))) as (mp' & Hu & _).
  rewrite Hu. subst i n. rewrite (filter_has_iid_one _ _ _ (ri_incr _ Hinv) Hin).
  cbn [unreg_found all_fixed fx_unreg].
  destruct (unreg_arrs (e_dtor e) true (e_iid e) (s_arrs s)) as [arrs1 ev1] eqn:UA.
  cbn [fst snd erase]. rewrite app_nil_r.
  assert (Hev : ev1 = if e_dtor e then spec_destroyed p (e_name e) (p_narr p) else []).
  { change ev1 with (snd (arrs1, ev1)). rewrite <- UA. rewrite spec_destroyed_sd, (rl_narr _ _ Hrel).
    apply unreg_arrs_events. intros a x Hx. cbn [Nat.add]. split; [apply (rl_alive _ _ Hrel _ _ Hx)|].
    split; [apply (rl_len _ _ Hrel _ _ Hx)|]. intros Hxa. now apply (rl_val _ _ Hrel). }
  split; [|split; [now rewrite Hev|discriminate]].
  assert (Harr : arrs1 = fst (unreg_arrs (e_dtor e) true (e_iid e) (s_arrs s))) by now rewrite UA.
  destruct Hrel as [Hinfo Hnarr Halive Hlen Hval Hfree Hnn].
  constructor; cbn [s_reg s_arrs p_info p_narr p_alive p_val].
  - intros m. destruct (m =? e_name e) eqn:E.
    + apply Nat.eqb_eq in E. subst m.
      replace (find_name (e_name e) (remove_iid (e_iid e) (s_reg s))) with (@None entry); [reflexivity|].
      symmetry. apply find_none_iff. intros y Hy. unfold remove_iid in Hy. apply filter_In in Hy.
      destruct Hy as [Hy Hne]. apply Nat.eqb_neq. intros Hc.
      assert (y = e) by (eapply name_uniq; eauto). subst y.
      unfold has_iid in Hne. rewrite Nat.eqb_refl in Hne. discriminate.
    + rewrite Hinfo. f_equal. unfold find_name, remove_iid. symmetry. apply find_filter_same.
      intros y Hy Hg. apply Bool.negb_false_iff in Hg. unfold has_iid in Hg. apply Nat.eqb_eq in Hg.
      assert (y = e) by (eapply iid_uniq; eauto). subst y. now rewrite Nat.eqb_sym.
  - rewrite Harr, unreg_arrs_length. exact Hnarr.
  - intros a y. rewrite Harr, unreg_arrs_nth. destruct (nth_error (s_arrs s) a) as [x|] eqn:Hx; [|discriminate].
    cbn [option_map]. intros H; inversion H; subst y.
    destruct (unreg_ioa_fixed (e_dtor e) (e_iid e) x (Hlen _ _ Hx)) as (H1 & _ & _). rewrite H1. now apply Halive.
  - intros a y. rewrite Harr, unreg_arrs_nth. destruct (nth_error (s_arrs s) a) as [x|] eqn:Hx; [|discriminate].
    cbn [option_map]. intros H; inversion H; subst y.
    now destruct (unreg_ioa_fixed (e_dtor e) (e_iid e) x (Hlen _ _ Hx)) as (_ & H2 & _).
  - intros a y e'. rewrite Harr, unreg_arrs_nth. destruct (nth_error (s_arrs s) a) as [x|] eqn:Hx; [|discriminate].
    cbn [option_map]. intros H; inversion H; subst y.
    destruct (unreg_ioa_fixed (e_dtor e) (e_iid e) x (Hlen _ _ Hx)) as (H1 & _ & H3).
    rewrite H1. intros Hxa He'. unfold remove_iid in He'. apply filter_In in He'. destruct He' as [He' Hne].
    apply Bool.negb_true_iff in Hne. unfold has_iid in Hne. rewrite H3, Hne. cbn [andb].
    destruct (e_name e' =? e_name e) eqn:E.
    + apply Nat.eqb_eq in E. assert (e' = e) by (eapply name_uniq; eauto). subst e'.
      rewrite Nat.eqb_refl in Hne. discriminate.
    + now apply Hval.
  - intros a y i. rewrite Harr, unreg_arrs_nth. destruct (nth_error (s_arrs s) a) as [x|] eqn:Hx; [|discriminate].
    cbn [option_map]. intros H; inversion H; subst y.
    destruct (unreg_ioa_fixed (e_dtor e) (e_iid e) x (Hlen _ _ Hx)) as (H1 & _ & H3).
    rewrite H1. intros Hxa Hi. rewrite H3, Hxa, Bool.andb_true_r.
    destruct (i =? e_iid e) eqn:E; [reflexivity|]. apply Nat.eqb_neq in E.
    eapply Hfree; eauto. intros e' He'. destruct (Nat.eq_dec (e_iid e') (e_iid e)) as [Heq|Hneq]; [congruence|].
    apply Hi. unfold remove_iid. apply filter_In. split; [exact He'|].
    apply Bool.negb_true_iff. unfold has_iid. now apply Nat.eqb_neq.
  - intros a m. destruct (m =? e_name e); [reflexivity|]. apply Hnn.
Qed.

Lemma step_sim s p o : RegInv s -> Rel s p -> sim_step s p o.
Proof.
  intros Hinv Hrel. destruct o.
  - now apply sim_reg.
  - now apply sim_unreg.
  - now apply sim_unregid.
  - now apply sim_lookup.
  - now apply sim_newarr.
  - now apply sim_delarr.
  - now apply sim_set.
  - now apply sim_get.
  - now apply sim_tas.
Qed.

(* ---- every operation sequence ------------------------------------------------------ *)
Lemma run_refines ops : forall s p, RegInv s -> Rel s p ->
  erase_all ops (snd (run all_fixed s ops)) = spec_run p ops /\
  length (snd (run all_fixed s ops)) = length ops.
Proof.
  induction ops as [|o ops IH]; intros s p Hinv Hrel; cbn [run spec_run erase_all]; [split; reflexivity|].
  pose proof (step_sim s p o Hinv Hrel) as (H1 & H2 & H3).
  pose proof (step_RegInv all_fixed s o eq_refl Hinv) as H4.
  destruct (step all_fixed s o) as [s1 x]. destruct (spec_step p o) as [p1 ex]. cbn [fst snd] in *.
  specialize (IH s1 p1 H4 H1). destruct (run all_fixed s1 ops) as [s2 xs]. cbn [snd] in IH.
  destruct IH as [IH1 IH2].
  destruct x; try congruence; cbn [snd erase_all length]; rewrite IH1, IH2, H2; split; reflexivity.
Qed.
