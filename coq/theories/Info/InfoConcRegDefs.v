(* C41 (concurrent half, registry) — atomic-step model of parsec_info_register /
   parsec_info_unregister / parsec_info_lookup called by any number of threads on one
   registry (no object array).  Definitions only; proofs are in InfoConcRegProofs.v.

   Each of the three functions works inside ONE critical section of the registry's list
   lock.  One [rstep] = the code of one thread between two scheduling points of
   harness/h_info.c ("regs" cases): a scheduling point sits before every lock / unlock
   (interpose.h: one trylock attempt per step, a failed attempt is a stutter step) and
   between two operations of a thread.  The step that acquires the lock runs the whole
   scan (InfoDefs.register / unreg_scan / lookup — the same functions as the sequential
   model, selected by the same [fixes]): the operation takes effect there, atomically;
   the later steps only release locks (parsec_info_unregister also takes and releases the
   ioa_list lock once per removed entry, uncontended: it is only taken under the list lock).

   Clients: a thread unregisters only an id it holds, i.e. that one of its own register
   calls returned (or that was registered for it before the threads start): [h_held]. *)
From PV Require Import Base.Tac Info.InfoDefs Info.InfoConcDefs.
From Coq Require Import NArith.
Local Open Scope nat_scope.

Inductive rop := QReg (n : nat) | QUnreg (n : nat) | QLook (n : nat).

(* a completed operation: what it returned (None = PARSEC_INFO_ID_UNDEFINED) and the registry
   (id, name in list order) as the thread sees it when the call has returned — looked at only
   when nobody holds the list lock ([None] otherwise: a thread inside its critical section may
   be half-way through its update) *)
Inductive rkind := KReg | KUnreg | KSkip (* the thread holds no id for n: nothing is called *) | KLook.
Record rres := { x_kind : rkind; x_name : nat; x_ret : option nat; x_snap : option (list (nat * nat)) }.

Inductive rpc :=
| QIdle
| QR0                                 (* register: before the list lock *)
| QR1 (r : option nat)                (* before the unlock *)
| QU0                                 (* unregister(held id): before the list lock *)
| QU1 (r : option nat) (k : nat)      (* k removed entries left to process: before the ioa_list lock *)
| QU2 (r : option nat) (k : nat)      (* before the ioa_list unlock *)
| QU3 (r : option nat)                (* before the list unlock *)
| QL0
| QL1 (r : option nat)
| QDone.

Record rthr := { q_pc : rpc; q_ops : list rop; q_res : list rres (* newest first *);
                 q_steps : nat; q_spins : nat }.

Record rcfg := { h_reg : list entry; h_maxp : nat; h_lock : bool;
                 h_held : list (nat * nat * nat);        (* name, id, holding thread *)
                 h_thr : list rthr }.

Definition held_by (t n : nat) (h : list (nat * nat * nat)) : option nat :=
  match find (fun x => (fst (fst x) =? n) && (snd x =? t)) h with
  | Some x => Some (snd (fst x))
  | None => None
  end.
Definition unhold (t n : nat) (h : list (nat * nat * nat)) : list (nat * nat * nat) :=
  filter (fun x => negb ((fst (fst x) =? n) && (snd x =? t))) h.

Definition q_at (th : rthr) (p : rpc) : rthr :=
  {| q_pc := p; q_ops := q_ops th; q_res := q_res th; q_steps := S (q_steps th); q_spins := q_spins th |}.
Definition q_spin (th : rthr) : rthr :=
  {| q_pc := q_pc th; q_ops := q_ops th; q_res := q_res th; q_steps := S (q_steps th); q_spins := S (q_spins th) |}.
Definition q_finish (th : rthr) (r : rres) : rthr :=
  {| q_pc := match tl (q_ops th) with [] => QDone | _ => QIdle end;
     q_ops := tl (q_ops th); q_res := r :: q_res th; q_steps := S (q_steps th); q_spins := q_spins th |}.

Definition snap (c : rcfg) : list (nat * nat) := map (fun e => (e_iid e, e_name e)) (h_reg c).
(* [free]: the list lock is free when the thread looks (its own unlock has just happened) *)
Definition mkres (c : rcfg) (free : bool) (k : rkind) (n : nat) (r : option nat) : rres :=
  {| x_kind := k; x_name := n; x_ret := r; x_snap := if free then Some (snap c) else None |}.

Definition r_thr (c : rcfg) (t : nat) (th : rthr) : rcfg :=
  {| h_reg := h_reg c; h_maxp := h_maxp c; h_lock := h_lock c; h_held := h_held c;
     h_thr := set_nth (h_thr c) t th |}.
Definition r_lock (c : rcfg) (b : bool) (t : nat) (th : rthr) : rcfg :=
  {| h_reg := h_reg c; h_maxp := h_maxp c; h_lock := b; h_held := h_held c;
     h_thr := set_nth (h_thr c) t th |}.

Definition rstep (fx : fixes) (c : rcfg) (t : nat) : rcfg :=
  match nth_error (h_thr c) t with
  | None => c
  | Some th =>
    match q_pc th, q_ops th with
    | QDone, _ => c
    | QIdle, [] => r_thr c t (q_at th QDone)
    | QIdle, QReg _ :: _ => r_thr c t (q_at th QR0)
    | QIdle, QLook _ :: _ => r_thr c t (q_at th QL0)
    | QIdle, QUnreg n :: _ =>
        match held_by t n (h_held c) with
        | Some _ => r_thr c t (q_at th QU0)
        | None => r_thr c t (q_finish th (mkres c (negb (h_lock c)) KSkip n None))
        end
    (* register: the critical section *)
    | QR0, QReg n :: _ =>
        if h_lock c then r_thr c t (q_spin th)
        else let '(r, reg', maxp') := register (fx_reg fx) n 0%N 0%N false (h_reg c) (h_maxp c) in
             {| h_reg := reg'; h_maxp := maxp'; h_lock := true;
                h_held := match r with Some i => (n, i, t) :: h_held c | None => h_held c end;
                h_thr := set_nth (h_thr c) t (q_at th (QR1 r)) |}
    | QR1 r, QReg n :: _ => r_lock c false t (q_finish th (mkres c true KReg n r))
    (* unregister *)
    | QU0, QUnreg n :: _ =>
        if h_lock c then r_thr c t (q_spin th)
        else match held_by t n (h_held c) with      (* the id passed to the call: only t changes what t holds *)
             | None => r_thr c t (q_at th QDone)
             | Some i =>
               let ismax := S i =? h_maxp c in
               let '(found, rest, m) := unreg_scan i ismax (h_reg c) 0 in
               let r := match found with [] => None | _ => Some i end in
               {| h_reg := rest; h_maxp := if ismax then m else h_maxp c; h_lock := true;
                  h_held := unhold t n (h_held c);
                  h_thr := set_nth (h_thr c) t
                             (q_at th (match found with [] => QU3 r | _ => QU1 r (length found) end)) |}
             end
    | QU1 r k, _ => r_thr c t (q_at th (QU2 r k))
    | QU2 r k, _ => r_thr c t (q_at th (match k with S (S j) => QU1 r (S j) | _ => QU3 r end))
    | QU3 r, QUnreg n :: _ => r_lock c false t (q_finish th (mkres c true KUnreg n r))
    (* lookup *)
    | QL0, QLook n :: _ =>
        if h_lock c then r_thr c t (q_spin th)
        else r_lock c true t (q_at th (QL1 (option_map fst (lookup n (h_reg c)))))
    | QL1 r, QLook n :: _ => r_lock c false t (q_finish th (mkres c true KLook n r))
    | _, _ => r_thr c t (q_at th QDone)
    end
  end.

Definition rrun (fx : fixes) (c : rcfg) (sched : list nat) : rcfg := fold_left (rstep fx) sched c.

Definition rthr0 (ops : list rop) : rthr :=
  {| q_pc := QIdle; q_ops := ops; q_res := []; q_steps := 0; q_spins := 0 |}.

(* names registered, one after the other, before the threads start: (name, holding thread) *)
Fixpoint pre_register (fx : fixes) (pre : list (nat * nat)) (reg : list entry) (maxp : nat)
         (held : list (nat * nat * nat)) : list entry * nat * list (nat * nat * nat) :=
  match pre with
  | [] => (reg, maxp, held)
  | (n, t) :: r =>
    let '(x, reg', maxp') := register (fx_reg fx) n 0%N 0%N false reg maxp in
    pre_register fx r reg' maxp' (match x with Some i => (n, i, t) :: held | None => held end)
  end.

Definition rinit (fx : fixes) (pre : list (nat * nat)) (progs : list (list rop)) : rcfg :=
  let '(reg, maxp, held) := pre_register fx pre [] 0 [] in
  {| h_reg := reg; h_maxp := maxp; h_lock := false; h_held := held; h_thr := map rthr0 progs |}.

Definition q_is_done (th : rthr) : bool := match q_pc th with QDone => true | _ => false end.
Definition r_all_done (c : rcfg) : bool := forallb q_is_done (h_thr c).
