(* C41 (concurrent half, registry) — in every interleaving of register / unregister /
   lookup calls by any number of threads (InfoConcRegDefs, repaired insertion rule) the
   registry relates names and ids one to one, a name has at most one holder, what a thread
   holds is what lookup returns, and every look a thread takes at the registry shows each
   name once and each id once. *)
From PV Require Import Base.Tac Info.InfoDefs Info.InfoRegProofs Info.InfoConcDefs Info.InfoConcProofs Info.InfoConcRegDefs.
From Coq Require Import NArith.
Local Open Scope nat_scope.

Definition hname (x : nat * nat * nat) : nat := fst (fst x).

(* registry and holdings *)
Record JR (reg : list entry) (held : list (nat * nat * nat)) : Prop := {
  jr_incr : incr 0 reg;
  jr_names : NoDup (map e_name reg);
  jr_held : NoDup (map hname held);
  jr_entry : forall n i t, In (n, i, t) held -> exists e, In e reg /\ e_name e = n /\ e_iid e = i
}.

Definition snap_ok (x : rres) : Prop :=
  match x_snap x with Some l => NoDup (map fst l) /\ NoDup (map snd l) | None => True end.

Definition J (c : rcfg) : Prop :=
  JR (h_reg c) (h_held c) /\
  forall u th, nth_error (h_thr c) u = Some th -> Forall snap_ok (q_res th).

Lemma JR_register reg maxp held n t r reg' maxp' :
  JR reg held -> register true n 0%N 0%N false reg maxp = (r, reg', maxp') ->
  JR reg' (match r with Some i => (n, i, t) :: held | None => held end).
Proof.
  intros [Hi Hn Hh He] H. rewrite register_fixed in H. destruct (has_name n reg) eqn:Hhas.
  - inversion H; subst. constructor; assumption.
  - cbv zeta in H. inversion H; subst; clear H.
    set (k := mex reg 0). set (x := {| e_iid := k; e_name := n; e_cb := 0%N; e_ctor := 0%N; e_dtor := false |}).
    assert (Hnone : forall y, In y reg -> e_name y <> n).
    { unfold has_name in Hhas. intros y Hy Hc.
      assert (existsb (fun e => e_name e =? n) reg = true); [|congruence].
      apply existsb_exists. exists y. split; [exact Hy|now apply Nat.eqb_eq]. }
    constructor.
    + pose proof (mex_insert_incr reg 0 x Hi eq_refl) as Hins. now rewrite Nat.sub_0_r in Hins.
    + apply NoDup_map_insert; [exact Hn|]. cbn. intros Hin. apply in_map_iff in Hin.
      destruct Hin as (y & Hy & Hin). now apply (Hnone y Hin).
    + cbn [map hname fst]. constructor; [|exact Hh]. intros Hin. apply in_map_iff in Hin.
      destruct Hin as ([[m j] u] & Hm & Hin). cbn in Hm. subst m.
      destruct (He _ _ _ Hin) as (e & He1 & He2 & _). now apply (Hnone e He1).
    + intros m j u [Heq|Hin].
      * inversion Heq; subst. exists x. split; [apply insert_before_in; now left|split; reflexivity].
      * destruct (He _ _ _ Hin) as (e & He1 & He2 & He3). exists e. split; [apply insert_before_in; now right|auto].
Qed.

Lemma held_by_in t n h i : held_by t n h = Some i -> In (n, i, t) h.
Proof.
  unfold held_by. destruct (find _ h) as [[[m j] u]|] eqn:F; [|discriminate].
  apply find_some in F. destruct F as [Hin Hc]. cbn in Hc. apply Bool.andb_true_iff in Hc.
  destruct Hc as [H1 H2]. apply Nat.eqb_eq in H1, H2. subst. cbn. intros H; inversion H; now subst.
Qed.

Lemma JR_unregister reg held n t i found rest m b :
  JR reg held -> held_by t n held = Some i -> unreg_scan i b reg 0 = (found, rest, m) ->
  JR rest (unhold t n held).
Proof.
  intros [Hi Hn Hh He] Hb Hs. apply held_by_in in Hb.
  pose proof (unreg_scan_nodup i b reg 0 (incr_NoDup _ _ Hi)) as Hsc. rewrite Hs in Hsc.
  destruct Hsc as (_ & -> & _).
  constructor.
  - now apply incr_filter.
  - now apply NoDup_map_filter.
  - unfold unhold. now apply NoDup_map_filter.
  - intros m' j u Hin. unfold unhold in Hin. apply filter_In in Hin. destruct Hin as [Hin Hc].
    destruct (He _ _ _ Hin) as (e' & He1 & He2 & He3). exists e'. split; [|auto].
    unfold remove_iid. apply filter_In. split; [exact He1|]. apply Bool.negb_true_iff. unfold has_iid.
    apply Nat.eqb_neq. intros Heq.
    destruct (He _ _ _ Hb) as (e & Hf1 & Hf2 & Hf3).
    assert (e' = e) by (eapply incr_uniq; eauto; congruence). subst e'.
    assert (Hsame : (m', j, u) = (n, i, t)).
    { eapply (NoDup_map_uniq hname); eauto. cbn. congruence. }
    inversion Hsame; subst. cbn in Hc. rewrite !Nat.eqb_refl in Hc. discriminate.
Qed.

Lemma snap_JR reg held c : h_reg c = reg -> JR reg held -> NoDup (map fst (snap c)) /\ NoDup (map snd (snap c)).
Proof.
  intros <- [Hi Hn _ _]. unfold snap. rewrite !map_map. cbn [fst snd]. split; [eapply incr_NoDup; eauto|exact Hn].
Qed.

Lemma mkres_ok c b k n r held : JR (h_reg c) held -> snap_ok (mkres c b k n r).
Proof.
  intros HJ. unfold snap_ok, mkres. cbn [x_snap]. destruct b; [|exact I]. eapply snap_JR; eauto.
Qed.

Lemma J_update c t th th' reg' maxp' lock' held' :
  J c -> nth_error (h_thr c) t = Some th -> JR reg' held' ->
  (Forall snap_ok (q_res th) -> Forall snap_ok (q_res th')) ->
  J {| h_reg := reg'; h_maxp := maxp'; h_lock := lock'; h_held := held'; h_thr := set_nth (h_thr c) t th' |}.
Proof.
  intros [HJ Hall] Ht HJ' Hres. split; [exact HJ'|]. cbn [h_thr]. intros u x.
  rewrite (nth_error_set_nth _ _ _ _ _ Ht). destruct (u =? t).
  - intros H; inversion H; subst x. apply Hres. now apply (Hall t).
  - apply Hall.
Qed.

Lemma rstep_J fx c t : fx_reg fx = true -> J c -> J (rstep fx c t).
Proof.
  intros Hfx HJ. pose proof HJ as [HR Hall]. unfold rstep.
  destruct (nth_error (h_thr c) t) as [th|] eqn:Ht; [|exact HJ].
  assert (Hkeep : forall p lock', J {| h_reg := h_reg c; h_maxp := h_maxp c; h_lock := lock'; h_held := h_held c;
                                        h_thr := set_nth (h_thr c) t (q_at th p) |}).
  { intros p lock'. eapply J_update; eauto. }
  assert (Hspin : J {| h_reg := h_reg c; h_maxp := h_maxp c; h_lock := h_lock c; h_held := h_held c;
                       h_thr := set_nth (h_thr c) t (q_spin th) |}).
  { eapply J_update; eauto. }
  assert (Hfin : forall b k n r lock', J {| h_reg := h_reg c; h_maxp := h_maxp c; h_lock := lock'; h_held := h_held c;
                                           h_thr := set_nth (h_thr c) t (q_finish th (mkres c b k n r)) |}).
  { intros b k n r lock'. eapply J_update; eauto. cbn [q_finish q_res]. intros H. constructor; [|exact H].
    eapply mkres_ok; eauto. }
  unfold r_thr, r_lock.
  destruct (q_pc th) eqn:Epc; destruct (q_ops th) as [|[n|n|n] rest] eqn:Hop;
    try apply Hkeep; try exact HJ; try apply Hfin.
  - (* QIdle, QUnreg *) destruct (held_by t n (h_held c)); [apply Hkeep|apply Hfin].
  - (* QR0, QReg *)
    destruct (h_lock c); [exact Hspin|]. rewrite Hfx.
    destruct (register true n 0%N 0%N false (h_reg c) (h_maxp c)) as [[r reg'] maxp'] eqn:R.
    eapply J_update; eauto. eapply JR_register; eauto.
  - (* QU0, QUnreg *)
    destruct (h_lock c); [exact Hspin|].
    destruct (held_by t n (h_held c)) as [i|] eqn:Hb; [|apply Hkeep].
    destruct (unreg_scan i (S i =? h_maxp c) (h_reg c) 0) as [[found rst] m] eqn:U.
    eapply J_update; eauto. eapply JR_unregister; eauto.
  - (* QL0, QLook *) destruct (h_lock c); [exact Hspin|apply Hkeep].
Qed.

Lemma pre_register_JR fx pre : fx_reg fx = true -> forall reg maxp held, JR reg held ->
  let '(reg', _, held') := pre_register fx pre reg maxp held in JR reg' held'.
Proof.
  intros Hfx. induction pre as [|[n t] pre IH]; intros reg maxp held HJ; cbn [pre_register]; [exact HJ|].
  rewrite Hfx. destruct (register true n 0%N 0%N false reg maxp) as [[x reg'] maxp'] eqn:R.
  apply IH. eapply JR_register; eauto.
Qed.

Lemma rinit_J fx pre progs : fx_reg fx = true -> J (rinit fx pre progs).
Proof.
  intros Hfx. unfold rinit.
  pose proof (pre_register_JR fx pre Hfx [] 0 []) as H.
  destruct (pre_register fx pre [] 0 []) as [[reg maxp] held].
  split; cbn [h_reg h_held h_thr].
  - apply H. constructor; cbn; try constructor. intros n i t [].
  - intros u th Hu. revert u Hu. induction progs as [|p l IH]; intros [|u] Hu; cbn in Hu; try discriminate.
    + inversion Hu. constructor.
    + eapply IH; eauto.
Qed.

Lemma rrun_J fx pre progs sched : fx_reg fx = true -> J (rrun fx (rinit fx pre progs) sched).
Proof.
  intros Hfx. unfold rrun. apply fold_left_inv; [intros c t; now apply rstep_J|now apply rinit_J].
Qed.

(* names and ids are in one-to-one relation in every interleaving *)
Lemma P_conc_registry_injective fx pre progs sched : fx_reg fx = true ->
  let c := rrun fx (rinit fx pre progs) sched in
  NoDup (map e_iid (h_reg c)) /\ NoDup (map e_name (h_reg c)).
Proof.
  intros Hfx c. subst c. destruct (rrun_J fx pre progs sched Hfx) as [[Hi Hn _ _] _].
  split; [eapply incr_NoDup; eauto|exact Hn].
Qed.

(* a name has at most one holder, and lookup returns the id that holder was given *)
Lemma P_conc_one_holder fx pre progs sched : fx_reg fx = true ->
  let c := rrun fx (rinit fx pre progs) sched in
  NoDup (map hname (h_held c)) /\
  forall n i t, In (n, i, t) (h_held c) -> option_map fst (lookup n (h_reg c)) = Some i.
Proof.
  intros Hfx c. subst c. destruct (rrun_J fx pre progs sched Hfx) as [[Hi Hn Hh He] _]. split; [exact Hh|].
  intros n i t Hin. destruct (He _ _ _ Hin) as (e & He1 & He2 & He3). subst n i.
  unfold lookup. now rewrite (find_name_self _ _ Hn He1).
Qed.

(* whenever a thread looks at the registry (the list lock being free) it sees every id once
   and every name once *)
Lemma P_conc_snapshots fx pre progs sched : fx_reg fx = true ->
  let c := rrun fx (rinit fx pre progs) sched in
  forall u th x l, nth_error (h_thr c) u = Some th -> In x (q_res th) -> x_snap x = Some l ->
    NoDup (map fst l) /\ NoDup (map snd l).
Proof.
  intros Hfx c. subst c. intros u th x l Hth Hx Hs. destruct (rrun_J fx pre progs sched Hfx) as [_ Hall].
  specialize (Hall u th Hth). rewrite Forall_forall in Hall. specialize (Hall x Hx).
  unfold snap_ok in Hall. now rewrite Hs in Hall.
Qed.

(* non-vacuity: three threads register the same name at once; one wins *)
Lemma conc_reg_example :
  let c := rrun all_fixed (rinit all_fixed [(1, 0)] [[QReg 0; QLook 0]; [QReg 0; QLook 1]; [QLook 0; QReg 0]])
                [0; 1; 2; 2; 1; 0; 0; 1; 2; 0; 1; 2; 0; 1; 2; 0; 1; 2; 0; 1; 2; 0; 1; 2; 0; 1; 2; 1; 1; 1; 1; 1; 1; 0; 0; 2; 2] in
  r_all_done c = true /\ map (fun e => (e_iid e, e_name e)) (h_reg c) = [(0, 1); (1, 0)] /\
  length (filter (fun x => match x_kind x, x_ret x with KReg, Some _ => true | _, _ => false end)
                 (flat_map q_res (h_thr c))) = 1.
Proof. vm_compute. repeat split. Qed.
