(* C41 — the registry part of the info model: parsec_info_register /
   unregister / lookup with the repaired insertion rule keep the list sorted by
   id, hence ids pairwise distinct; the client's table agrees with lookup. *)
From PV Require Import Base.Tac Info.InfoDefs.
From Coq Require Import NArith.
Local Open Scope nat_scope.

(* ---- sorted by strictly increasing id, all ids >= lo ---------------------- *)
Fixpoint incr (lo : nat) (l : list entry) : Prop :=
  match l with
  | [] => True
  | e :: r => lo <= e_iid e /\ incr (S (e_iid e)) r
  end.

Lemma incr_weaken lo lo' l : lo' <= lo -> incr lo l -> incr lo' l.
Proof. destruct l as [|e r]; cbn; intros Hle H; [exact I|]. destruct H as [H1 H2]. split; [lia|exact H2]. Qed.

Lemma incr_ge lo l e : incr lo l -> In e l -> lo <= e_iid e.
Proof.
  revert lo; induction l as [|x r IH]; intros lo H Hin; [destruct Hin|].
  cbn in H. destruct H as [H1 H2]. destruct Hin as [->|Hin]; [exact H1|].
  specialize (IH _ H2 Hin). lia.
Qed.

Lemma incr_uniq lo l e e' : incr lo l -> In e l -> In e' l -> e_iid e = e_iid e' -> e = e'.
Proof.
  revert lo; induction l as [|x r IH]; intros lo H Hi Hi' Heq; [destruct Hi|].
  cbn in H. destruct H as [H1 H2].
  destruct Hi as [->|Hi], Hi' as [->|Hi'].
  - reflexivity.
  - pose proof (incr_ge _ _ _ H2 Hi'). lia.
  - pose proof (incr_ge _ _ _ H2 Hi). lia.
  - eapply IH; eauto.
Qed.

Lemma incr_NoDup lo l : incr lo l -> NoDup (map e_iid l).
Proof.
  revert lo; induction l as [|x r IH]; intros lo H; cbn; [constructor|].
  cbn in H. destruct H as [H1 H2]. constructor; [|eapply IH; eauto].
  intros Hin. apply in_map_iff in Hin. destruct Hin as (e & He & Hin).
  pose proof (incr_ge _ _ _ H2 Hin). lia.
Qed.

Lemma incr_filter f lo l : incr lo l -> incr lo (filter f l).
Proof.
  revert lo; induction l as [|x r IH]; intros lo H; cbn; [exact I|].
  cbn in H. destruct H as [H1 H2]. destruct (f x).
  - cbn. split; [exact H1|apply IH; exact H2].
  - eapply incr_weaken; [|apply IH; exact H2]. lia.
Qed.

(* ---- generic list facts ---------------------------------------------------- *)
Lemma insert_before_in {A} (l : list A) k x y : In y (insert_before l k x) <-> y = x \/ In y l.
Proof.
  unfold insert_before. rewrite in_app_iff. cbn [In].
  assert (H : In y l <-> In y (firstn k l) \/ In y (skipn k l)).
  { rewrite <- (firstn_skipn k l) at 1. apply in_app_iff. }
  rewrite H. intuition.
Qed.

Lemma insert_before_cons {A} (a : A) l k x : insert_before (a :: l) (S k) x = a :: insert_before l k x.
Proof. reflexivity. Qed.

Lemma insert_before_length {A} (l : list A) k x : length (insert_before l k x) = S (length l).
Proof.
  unfold insert_before. rewrite app_length. cbn [length].
  assert (H : length l = length (firstn k l) + length (skipn k l)).
  { rewrite <- (firstn_skipn k l) at 1. apply app_length. }
  lia.
Qed.

Lemma find_insert_other {A} (f : A -> bool) l k x : f x = false -> find f (insert_before l k x) = find f l.
Proof.
  intros Hx. revert k; induction l as [|a l IH]; intros k.
  - unfold insert_before. rewrite firstn_nil, skipn_nil. cbn. now rewrite Hx.
  - destruct k as [|k].
    + unfold insert_before. cbn [firstn skipn app find]. now rewrite Hx.
    + rewrite insert_before_cons. cbn [find]. destruct (f a); [reflexivity|apply IH].
Qed.

Lemma find_insert_new {A} (f : A -> bool) l k x :
  f x = true -> (forall y, In y l -> f y = false) -> find f (insert_before l k x) = Some x.
Proof.
  intros Hx. revert k; induction l as [|a l IH]; intros k Hall.
  - unfold insert_before. rewrite firstn_nil, skipn_nil. cbn. now rewrite Hx.
  - destruct k as [|k].
    + unfold insert_before. cbn [firstn skipn app find]. now rewrite Hx.
    + rewrite insert_before_cons. cbn [find]. rewrite (Hall a (or_introl eq_refl)).
      apply IH. intros y Hy. apply Hall. now right.
Qed.

Lemma find_none_iff {A} (f : A -> bool) l : find f l = None <-> forall y, In y l -> f y = false.
Proof.
  split.
  - intros H y Hy. eapply find_none; eauto.
  - induction l as [|a l IH]; intros H; cbn; [reflexivity|].
    rewrite (H a (or_introl eq_refl)). apply IH. intros y Hy. apply H. now right.
Qed.

Lemma find_in {A} (f : A -> bool) l x : find f l = Some x -> In x l /\ f x = true.
Proof. apply find_some. Qed.

Lemma find_filter_same {A} (f g : A -> bool) l :
  (forall x, In x l -> g x = false -> f x = false) -> find f (filter g l) = find f l.
Proof.
  induction l as [|a l IH]; intros H; cbn; [reflexivity|].
  destruct (g a) eqn:Eg.
  - cbn. destruct (f a); [reflexivity|]. apply IH. intros x Hx. apply H. now right.
  - rewrite (H a (or_introl eq_refl) Eg). apply IH. intros x Hx. apply H. now right.
Qed.

Lemma NoDup_map_filter {A B} (h : A -> B) g l : NoDup (map h l) -> NoDup (map h (filter g l)).
Proof.
  induction l as [|a l IH]; intros H; cbn; [constructor|].
  inversion H as [|? ? Hn Hd]; subst. destruct (g a).
  - cbn. constructor; [|apply IH; exact Hd].
    intros Hin. apply Hn. apply in_map_iff in Hin. destruct Hin as (y & Hy & Hin).
    apply filter_In in Hin. apply in_map_iff. exists y. tauto.
  - apply IH; exact Hd.
Qed.

Lemma NoDup_map_uniq {A B} (h : A -> B) l x y :
  NoDup (map h l) -> In x l -> In y l -> h x = h y -> x = y.
Proof.
  induction l as [|a l IH]; intros H Hx Hy Heq; [destruct Hx|].
  cbn in H. inversion H as [|? ? Hn Hd]; subst.
  destruct Hx as [->|Hx], Hy as [->|Hy].
  - reflexivity.
  - exfalso. apply Hn. rewrite Heq. now apply in_map.
  - exfalso. apply Hn. rewrite <- Heq. now apply in_map.
  - now apply IH.
Qed.

Lemma NoDup_map_insert {A B} (h : A -> B) l k x :
  NoDup (map h l) -> ~ In (h x) (map h l) -> NoDup (map h (insert_before l k x)).
Proof.
  revert k; induction l as [|a l IH]; intros k Hd Hn.
  - unfold insert_before. rewrite firstn_nil, skipn_nil. cbn. constructor; [intros []|constructor].
  - destruct k as [|k].
    + unfold insert_before. cbn [firstn skipn app map]. constructor; assumption.
    + rewrite insert_before_cons. cbn [map]. cbn [map] in Hd, Hn.
      inversion Hd as [|? ? Hna Hdl]; subst. constructor.
      * intros Hin. apply in_map_iff in Hin. destruct Hin as (y & Hy & Hin).
        apply insert_before_in in Hin. destruct Hin as [->|Hin].
        -- apply Hn. left. congruence.
        -- apply Hna. rewrite <- Hy. now apply in_map.
      * apply IH; [exact Hdl|]. intros Hin. apply Hn. now right.
Qed.

(* ---- parsec_info_register ------------------------------------------------- *)
Definition has_name (name : nat) (l : list entry) : bool := existsb (fun e => e_name e =? name) l.

Lemma has_name_find name l : has_name name l = match find_name name l with Some _ => true | None => false end.
Proof.
  unfold has_name, find_name. induction l as [|a l IH]; cbn; [reflexivity|].
  destruct (e_name a =? name); [reflexivity|exact IH].
Qed.

(* once next_item is set the loop only looks for the name *)
Lemma reg_scan_found fx name len l i ret nxt : nxt <> len ->
  reg_scan fx name len l i ret nxt = if has_name name l then None else Some (ret, nxt).
Proof.
  intros Hne. revert i; induction l as [|e l IH]; intros i; cbn [reg_scan has_name existsb]; [reflexivity|].
  apply Nat.eqb_neq in Hne. rewrite Hne. apply Nat.eqb_neq in Hne.
  destruct (e_name e =? name); [reflexivity|]. cbn [orb]. apply IH.
Qed.

(* first index (counted from i) whose entry does not carry the id i, i+1, ... *)
Fixpoint mex (l : list entry) (i : nat) : nat :=
  match l with
  | [] => i
  | e :: r => if e_iid e =? i then mex r (S i) else i
  end.

Lemma mex_ge l i : i <= mex l i.
Proof. revert i; induction l as [|e r IH]; intros i; cbn; [lia|]. destruct (e_iid e =? i); [specialize (IH (S i)); lia|lia]. Qed.

Lemma mex_le l i : mex l i <= i + length l.
Proof. revert i; induction l as [|e r IH]; intros i; cbn; [lia|]. destruct (e_iid e =? i); [specialize (IH (S i)); lia|lia]. Qed.

(* the repaired loop: the new id and the insertion index are both the first hole *)
Lemma reg_scan_fixed name len l i : i + length l = len ->
  reg_scan true name len l i i len = if has_name name l then None else Some (mex l i, mex l i).
Proof.
  revert i; induction l as [|e l IH]; intros i Hlen; cbn [reg_scan has_name existsb mex].
  { cbn [length] in Hlen. replace len with i by lia. reflexivity. }
  rewrite Nat.eqb_refl. cbn [length] in Hlen.
  destruct (e_iid e =? i) eqn:Eid.
  - destruct (e_name e =? name); [reflexivity|]. cbn [orb]. apply IH. lia.
  - destruct (e_name e =? name); [reflexivity|]. cbn [orb].
    apply reg_scan_found. lia.
Qed.

Lemma register_fixed name cb ctor dtor reg maxp :
  register true name cb ctor dtor reg maxp =
  if has_name name reg then (None, reg, maxp)
  else let k := mex reg 0 in
       (Some k, insert_before reg k {| e_iid := k; e_name := name; e_cb := cb; e_ctor := ctor; e_dtor := dtor |},
        Nat.max maxp (S k)).
Proof.
  unfold register. rewrite reg_scan_fixed by lia. destruct (has_name name reg); reflexivity.
Qed.

Lemma mex_fresh l i e : incr i l -> In e l -> e_iid e <> mex l i.
Proof.
  revert i; induction l as [|x r IH]; intros i H Hin; [destruct Hin|].
  cbn in H. destruct H as [H1 H2]. cbn [mex].
  destruct (e_iid x =? i) eqn:E.
  - apply Nat.eqb_eq in E. pose proof (mex_ge r (S i)).
    destruct Hin as [->|Hin]; [lia|]. apply IH; [|exact Hin]. now rewrite <- E.
  - apply Nat.eqb_neq in E. destruct Hin as [->|Hin]; [lia|].
    pose proof (incr_ge _ _ _ H2 Hin). lia.
Qed.

Lemma mex_insert_incr l i x : incr i l -> e_iid x = mex l i -> incr i (insert_before l (mex l i - i) x).
Proof.
  revert i; induction l as [|a r IH]; intros i H Hx.
  - cbn [mex] in *. unfold insert_before. rewrite firstn_nil, skipn_nil. cbn. split; [lia|exact I].
  - cbn in H. destruct H as [H1 H2]. cbn [mex] in *.
    destruct (e_iid a =? i) eqn:E.
    + apply Nat.eqb_eq in E. pose proof (mex_ge r (S i)).
      replace (mex r (S i) - i) with (S (mex r (S i) - S i)) by lia.
      rewrite insert_before_cons. cbn [incr]. split; [lia|].
      rewrite E. apply IH; [now rewrite <- E|exact Hx].
    + apply Nat.eqb_neq in E. rewrite Nat.sub_diag. unfold insert_before. cbn [firstn skipn app incr].
      split; [lia|]. split; [lia|exact H2].
Qed.

(* ---- parsec_info_unregister ----------------------------------------------- *)
Definition has_iid (i : nat) (e : entry) : bool := e_iid e =? i.
Definition remove_iid (i : nat) (l : list entry) : list entry := filter (fun e => negb (has_iid i e)) l.

Lemma filter_none {A} (f : A -> bool) l : (forall x, In x l -> f x = false) -> filter f l = [].
Proof.
  induction l as [|a l IH]; intros H; cbn; [reflexivity|].
  rewrite (H a (or_introl eq_refl)). apply IH. intros x Hx. apply H. now right.
Qed.
Lemma filter_all {A} (f : A -> bool) l : (forall x, In x l -> f x = true) -> filter f l = l.
Proof.
  induction l as [|a l IH]; intros H; cbn; [reflexivity|].
  rewrite (H a (or_introl eq_refl)). f_equal. apply IH. intros x Hx. apply H. now right.
Qed.

(* on a list without duplicate ids both variants of the loop (break / go on)
   remove the matching entry, and the running maximum bounds what remains *)
Lemma unreg_scan_nodup iid b l mx : NoDup (map e_iid l) ->
  let '(f, r, m) := unreg_scan iid b l mx in
  f = filter (has_iid iid) l /\ r = remove_iid iid l /\
  (b = true -> mx <= m /\ forall e, In e r -> e_iid e < m).
Proof.
  revert mx; induction l as [|e l IH]; intros mx Hd; cbn [unreg_scan].
  - cbn. repeat split; try reflexivity; try lia.
  - cbn [map] in Hd. inversion Hd as [|? ? Hn Hdl]; subst.
    unfold remove_iid. cbn [filter]. change (has_iid iid e) with (e_iid e =? iid). destruct (e_iid e =? iid) eqn:E.
    + apply Nat.eqb_eq in E. cbn [negb].
      assert (Hno : forall x, In x l -> has_iid iid x = false).
      { intros x Hx. unfold has_iid. apply Nat.eqb_neq. intros Hc. apply Hn. rewrite E, <- Hc. now apply in_map. }
      destruct b.
      * specialize (IH mx Hdl). destruct (unreg_scan iid true l mx) as [[f r] m].
        destruct IH as (Hf & Hr & Hm). split; [now rewrite Hf|]. split; [exact Hr|exact Hm].
      * split; [now rewrite (filter_none _ _ Hno)|]. split; [|discriminate].
        symmetry. apply filter_all. intros x Hx. now rewrite (Hno x Hx).
    + cbn [negb]. specialize (IH (Nat.max mx (S (e_iid e))) Hdl).
      destruct (unreg_scan iid b l (Nat.max mx (S (e_iid e)))) as [[f r] m].
      destruct IH as (Hf & Hr & Hm). split; [exact Hf|]. split; [now rewrite Hr|].
      intros Hb. specialize (Hm Hb). destruct Hm as [Hm1 Hm2]. split; [lia|].
      intros x [<-|Hx]; [lia|now apply Hm2].
Qed.

(* ---- the client's table ---------------------------------------------------- *)
Lemma cl_find_remove n m cl : cl_find m (cl_remove n cl) = if m =? n then None else cl_find m cl.
Proof.
  unfold cl_remove. induction cl as [|[k i] cl IH]; cbn; [now destruct (m =? n)|].
  destruct (k =? n) eqn:E1; cbn.
  - apply Nat.eqb_eq in E1. subst k. rewrite IH. destruct (m =? n) eqn:E2; [reflexivity|].
    rewrite Nat.eqb_sym, E2. reflexivity.
  - destruct (k =? m) eqn:E3.
    + apply Nat.eqb_eq in E3. subst k. now rewrite E1.
    + exact IH.
Qed.

Lemma cl_find_in n i cl : cl_find n cl = Some i -> In (n, i) cl.
Proof.
  induction cl as [|[k j] cl IH]; cbn; [discriminate|].
  destruct (k =? n) eqn:E; intros H.
  - apply Nat.eqb_eq in E. inversion H. subst. now left.
  - right. now apply IH.
Qed.

Lemma cl_holds_false i cl n j : cl_holds i cl = false -> cl_find n cl = Some j -> j <> i.
Proof.
  intros Hh Hf. apply cl_find_in in Hf. unfold cl_holds in Hh.
  intros ->. assert (existsb (fun p => snd p =? i) cl = true); [|congruence].
  apply existsb_exists. exists (n, i). split; [exact Hf|]. cbn. apply Nat.eqb_refl.
Qed.

(* ---- invariant of the registry under the repaired insertion rule ----------- *)
Record RegInv (s : st) : Prop := {
  ri_incr : incr 0 (s_reg s);
  ri_names : NoDup (map e_name (s_reg s));
  ri_max : forall e, In e (s_reg s) -> e_iid e < s_maxp s;
  ri_cl : forall n, cl_find n (s_cl s) = option_map e_iid (find_name n (s_reg s))
}.

Lemma find_name_self reg e : NoDup (map e_name reg) -> In e reg -> find_name (e_name e) reg = Some e.
Proof.
  intros Hd Hin. unfold find_name.
  destruct (find (fun x => e_name x =? e_name e) reg) as [y|] eqn:F.
  - apply find_some in F. destruct F as [Hy Hn]. apply Nat.eqb_eq in Hn.
    f_equal. eapply NoDup_map_uniq; eauto.
  - eapply find_none in F; [|exact Hin]. now rewrite Nat.eqb_refl in F.
Qed.

Lemma find_iid_self lo reg e : incr lo reg -> In e reg -> find_iid (e_iid e) reg = Some e.
Proof.
  intros Hi Hin. unfold find_iid.
  destruct (find (fun x => e_iid x =? e_iid e) reg) as [y|] eqn:F.
  - apply find_some in F. destruct F as [Hy Hn]. apply Nat.eqb_eq in Hn.
    f_equal. eapply incr_uniq; eauto.
  - eapply find_none in F; [|exact Hin]. now rewrite Nat.eqb_refl in F.
Qed.

(* what the client holds is a live entry, and conversely *)
Lemma held_entry s n i : RegInv s -> cl_find n (s_cl s) = Some i ->
  exists e, In e (s_reg s) /\ e_name e = n /\ e_iid e = i /\ find_name n (s_reg s) = Some e.
Proof.
  intros [_ _ _ Hcl] H. rewrite Hcl in H.
  destruct (find_name n (s_reg s)) as [e|] eqn:F; [|discriminate].
  cbn in H. inversion H. exists e. unfold find_name in F. apply find_some in F as F'. destruct F' as [Hin Hn].
  apply Nat.eqb_eq in Hn. auto.
Qed.

Lemma entry_held s e : RegInv s -> In e (s_reg s) -> cl_find (e_name e) (s_cl s) = Some (e_iid e).
Proof. intros [_ Hn _ Hcl] Hin. rewrite Hcl, (find_name_self _ _ Hn Hin). reflexivity. Qed.

Lemma init_RegInv : RegInv init.
Proof. constructor; cbn; try constructor; intros; try contradiction; reflexivity. Qed.

(* register *)
Lemma register_RegInv s n cb ctor dtor r reg' maxp' :
  RegInv s -> register true n cb ctor dtor (s_reg s) (s_maxp s) = (r, reg', maxp') ->
  RegInv {| s_reg := reg'; s_maxp := maxp'; s_arrs := s_arrs s;
            s_cl := match r with Some i => (n, i) :: s_cl s | None => s_cl s end |}.
Proof.
  intros [Hi Hn Hm Hcl] H. rewrite register_fixed in H.
  destruct (has_name n (s_reg s)) eqn:Hhas.
  - inversion H; subst. constructor; assumption.
  - cbv zeta in H. inversion H; subst; clear H.
    set (k := mex (s_reg s) 0). set (x := {| e_iid := k; e_name := n; e_cb := cb; e_ctor := ctor; e_dtor := dtor |}).
    assert (Hnone : forall y, In y (s_reg s) -> (e_name y =? n) = false).
    { unfold has_name in Hhas. intros y Hy. destruct (e_name y =? n) eqn:E; [|reflexivity].
      assert (existsb (fun e => e_name e =? n) (s_reg s) = true); [|congruence].
      apply existsb_exists. eauto. }
    constructor; cbn [s_reg s_maxp s_cl].
    + pose proof (mex_insert_incr (s_reg s) 0 x Hi eq_refl) as Hins.
      rewrite Nat.sub_0_r in Hins. exact Hins.
    + apply NoDup_map_insert; [exact Hn|]. cbn. intros Hin. apply in_map_iff in Hin.
      destruct Hin as (y & Hy & Hin). specialize (Hnone y Hin). apply Nat.eqb_neq in Hnone. congruence.
    + intros e He. apply insert_before_in in He. destruct He as [->|He]; [cbn; lia|].
      specialize (Hm e He). lia.
    + intros m. cbn [cl_find]. destruct (n =? m) eqn:E.
      * apply Nat.eqb_eq in E. subst m. unfold find_name.
        rewrite find_insert_new; [reflexivity|cbn; apply Nat.eqb_refl|exact Hnone].
      * unfold find_name. rewrite find_insert_other; [apply Hcl|]. cbn. exact E.
Qed.

Lemma register_result s n cb ctor dtor r reg' maxp' :
  RegInv s -> register true n cb ctor dtor (s_reg s) (s_maxp s) = (r, reg', maxp') ->
  match r with
  | None => find_name n (s_reg s) <> None /\ reg' = s_reg s /\ maxp' = s_maxp s
  | Some i => find_name n (s_reg s) = None /\ (forall e, In e (s_reg s) -> e_iid e <> i) /\
              (forall e, In e reg' <-> (e = {| e_iid := i; e_name := n; e_cb := cb; e_ctor := ctor; e_dtor := dtor |}
                                        \/ In e (s_reg s)))
  end.
Proof.
  intros [Hi Hn Hm Hcl] H. rewrite register_fixed in H. rewrite has_name_find in H.
  destruct (find_name n (s_reg s)) eqn:F.
  - inversion H; subst. repeat split; congruence.
  - cbv zeta in H. inversion H; subst; clear H. split; [reflexivity|]. split.
    + intros e He. now apply mex_fresh.
    + intros e. apply insert_before_in.
Qed.

(* unregister *)
Lemma unregister_nodup fx i s : NoDup (map e_iid (s_reg s)) ->
  exists mp',
    unregister fx i s =
      ({| s_reg := remove_iid i (s_reg s); s_maxp := mp';
          s_arrs := fst (unreg_found (fx_unreg fx) i (filter (has_iid i) (s_reg s)) (s_arrs s));
          s_cl := s_cl s |},
       match filter (has_iid i) (s_reg s) with [] => None | _ => Some i end,
       snd (unreg_found (fx_unreg fx) i (filter (has_iid i) (s_reg s)) (s_arrs s))) /\
    ((forall e, In e (s_reg s) -> e_iid e < s_maxp s) ->
     forall e, In e (remove_iid i (s_reg s)) -> e_iid e < mp').
Proof.
  intros Hd. unfold unregister.
  pose proof (unreg_scan_nodup i (S i =? s_maxp s) (s_reg s) 0 Hd) as Hsc.
  destruct (unreg_scan i (S i =? s_maxp s) (s_reg s) 0) as [[f r] m].
  destruct Hsc as (Hf & Hr & Hm). subst f r.
  destruct (unreg_found (fx_unreg fx) i (filter (has_iid i) (s_reg s)) (s_arrs s)) as [arrs' ev].
  exists (if S i =? s_maxp s then m else s_maxp s). split; [reflexivity|].
  intros Hmax e He. destruct (S i =? s_maxp s).
  - now apply Hm.
  - apply Hmax. unfold remove_iid in He. apply filter_In in He. tauto.
Qed.

Lemma remove_iid_RegInv s n i e arrs' mp' :
  RegInv s -> In e (s_reg s) -> e_name e = n -> e_iid e = i ->
  (forall x, In x (remove_iid i (s_reg s)) -> e_iid x < mp') ->
  RegInv {| s_reg := remove_iid i (s_reg s); s_maxp := mp'; s_arrs := arrs'; s_cl := cl_remove n (s_cl s) |}.
Proof.
  intros [Hi Hn Hm Hcl] Hin Hen Hei Hmax. constructor; cbn [s_reg s_maxp s_cl].
  - now apply incr_filter.
  - now apply NoDup_map_filter.
  - exact Hmax.
  - intros m. rewrite cl_find_remove, Hcl. destruct (m =? n) eqn:E.
    + apply Nat.eqb_eq in E. subst m.
      replace (find_name n (remove_iid i (s_reg s))) with (@None entry); [reflexivity|].
      symmetry. apply find_none_iff. intros y Hy. unfold remove_iid in Hy. apply filter_In in Hy.
      destruct Hy as [Hy Hne]. apply Nat.eqb_neq. intros Hc.
      assert (y = e) by (eapply NoDup_map_uniq; eauto; congruence). subst y.
      unfold has_iid in Hne. rewrite Hei, Nat.eqb_refl in Hne. discriminate.
    + unfold find_name, remove_iid. rewrite find_filter_same; [reflexivity|].
      intros x Hx Hg. apply Bool.negb_false_iff in Hg. unfold has_iid in Hg. apply Nat.eqb_eq in Hg.
      assert (x = e) by (eapply incr_uniq; eauto; congruence). subst x.
      rewrite Hen. apply Nat.eqb_neq in E. apply Nat.eqb_neq. congruence.
Qed.

Lemma filter_has_iid_one lo reg e : incr lo reg -> In e reg -> filter (has_iid (e_iid e)) reg = [e].
Proof.
  revert lo; induction reg as [|x r IH]; intros lo Hi Hin; [destruct Hin|].
  cbn in Hi. destruct Hi as [H1 H2]. cbn [filter]. unfold has_iid at 1.
  destruct Hin as [->|Hin].
  - rewrite Nat.eqb_refl. f_equal. apply filter_none. intros y Hy. unfold has_iid. apply Nat.eqb_neq.
    pose proof (incr_ge _ _ _ H2 Hy). lia.
  - pose proof (incr_ge _ _ _ H2 Hin). destruct (e_iid x =? e_iid e) eqn:E; [apply Nat.eqb_eq in E; lia|].
    eapply IH; eauto.
Qed.

Lemma no_holder_no_entry s i : RegInv s -> cl_holds i (s_cl s) = false ->
  forall e, In e (s_reg s) -> has_iid i e = false.
Proof.
  intros Hinv Hh e He. unfold has_iid. apply Nat.eqb_neq.
  eapply cl_holds_false; [exact Hh|]. now apply entry_held.
Qed.

(* operations that leave the registry alone *)
Lemma with_slot_reg s a n k s' r :
  (forall x i s1 r1, k x i = (s1, r1) -> s_reg s1 = s_reg s /\ s_maxp s1 = s_maxp s /\ s_cl s1 = s_cl s) ->
  with_slot s a n k = (s', r) -> s_reg s' = s_reg s /\ s_maxp s' = s_maxp s /\ s_cl s' = s_cl s.
Proof.
  intros Hk. unfold with_slot.
  destruct (nth_error (s_arrs s) a) as [x|]; [|intros H; inversion H; auto].
  destruct (a_alive x); [|intros H; inversion H; auto].
  destruct (cl_find n (s_cl s)) as [i|]; [|intros H; inversion H; auto].
  destruct (s_maxp s <=? i); [intros H; inversion H; auto|]. apply Hk.
Qed.

Lemma step_array_reg fx s o s' r :
  match o with Reg _ _ _ _ | Unreg _ | UnregId _ => False | _ => True end ->
  step fx s o = (s', r) -> s_reg s' = s_reg s /\ s_maxp s' = s_maxp s /\ s_cl s' = s_cl s.
Proof.
  destruct o; intros Ho; try contradiction; cbn [step].
  - intros H; inversion H; auto.
  - intros H; inversion H; auto.
  - destruct (nth_error (s_arrs s) a) as [x|]; [|intros H; inversion H; auto].
    destruct (a_alive x); intros H; inversion H; auto.
  - apply with_slot_reg. intros x i s1 r1 H. inversion H. auto.
  - apply with_slot_reg. intros x i s1 r1.
    destruct (negb (nth i (a_slots (resize (fx_ioa fx) (s_maxp s) x i)) 0 =? 0)%N); [intros H; inversion H; auto|].
    destruct (find_iid i (s_reg s)) as [e|]; [|intros H; inversion H; auto].
    destruct (e_ctor e =? 0)%N; [intros H; inversion H; auto|].
    destruct (ctorval (e_ctor e) (S a) =? 0)%N; [intros H; inversion H; auto|].
    destruct (do_tas _ _ _ _) as [sl rr]. intros H; inversion H; auto.
  - apply with_slot_reg. intros x i s1 r1.
    destruct (do_tas _ _ _ _) as [sl rr]. intros H; inversion H; auto.
Qed.

Lemma RegInv_ext s s' : s_reg s' = s_reg s -> s_maxp s' = s_maxp s -> s_cl s' = s_cl s -> RegInv s -> RegInv s'.
Proof. intros H1 H2 H3 [Hi Hn Hm Hcl]. constructor; rewrite ?H1, ?H2, ?H3; assumption. Qed.

(* every operation preserves the registry invariant when the insertion rule is repaired *)
Lemma step_RegInv fx s o : fx_reg fx = true -> RegInv s -> RegInv (fst (step fx s o)).
Proof.
  intros Hfx Hinv. destruct o as [n cb ctor dtor|n|i|n| |a|a n v|a n|a n v old].
  - cbn [step]. rewrite Hfx.
    destruct (register true n cb ctor dtor (s_reg s) (s_maxp s)) as [[r reg'] maxp'] eqn:R.
    cbn [fst]. eapply register_RegInv; eauto.
  - cbn [step]. destruct (cl_find n (s_cl s)) as [i|] eqn:C; [|exact Hinv].
    destruct (held_entry _ _ _ Hinv C) as (e & Hin & Hen & Hei & _).
    destruct (unregister_nodup fx i s (incr_NoDup _ _ (ri_incr _ Hinv))) as (mp' & Hu & Hmax).
    rewrite Hu. cbn [fst s_reg s_maxp s_arrs].
    eapply remove_iid_RegInv; eauto. apply Hmax. apply (ri_max _ Hinv).
  - cbn [step]. destruct (cl_holds i (s_cl s)) eqn:C; [exact Hinv|].
    destruct (unregister_nodup fx i s (incr_NoDup _ _ (ri_incr _ Hinv))) as (mp' & Hu & Hmax).
    rewrite Hu. cbn [fst].
    pose proof (no_holder_no_entry _ _ Hinv C) as Hno.
    assert (Hrem : remove_iid i (s_reg s) = s_reg s).
    { apply filter_all. intros x Hx. now rewrite (Hno x Hx). }
    destruct Hinv as [Hi Hn Hm Hcl]. constructor; cbn [s_reg s_maxp s_cl]; rewrite ?Hrem; try assumption.
    rewrite Hrem in Hmax. now apply Hmax.
  - destruct (step fx s (Lookup n)) as [s' r] eqn:S. cbn [fst].
    destruct (step_array_reg fx s (Lookup n) s' r I S) as (H1 & H2 & H3). eapply RegInv_ext; eauto.
  - destruct (step fx s NewArr) as [s' r] eqn:S. cbn [fst].
    destruct (step_array_reg fx s NewArr s' r I S) as (H1 & H2 & H3). eapply RegInv_ext; eauto.
  - destruct (step fx s (DelArr a)) as [s' r] eqn:S. cbn [fst].
    destruct (step_array_reg fx s (DelArr a) s' r I S) as (H1 & H2 & H3). eapply RegInv_ext; eauto.
  - destruct (step fx s (SetV a n v)) as [s' r] eqn:S. cbn [fst].
    destruct (step_array_reg fx s (SetV a n v) s' r I S) as (H1 & H2 & H3). eapply RegInv_ext; eauto.
  - destruct (step fx s (GetV a n)) as [s' r] eqn:S. cbn [fst].
    destruct (step_array_reg fx s (GetV a n) s' r I S) as (H1 & H2 & H3). eapply RegInv_ext; eauto.
  - destruct (step fx s (Tas a n v old)) as [s' r] eqn:S. cbn [fst].
    destruct (step_array_reg fx s (Tas a n v old) s' r I S) as (H1 & H2 & H3). eapply RegInv_ext; eauto.
Qed.

(* the invariant holds after every operation sequence *)
Lemma run_RegInv fx ops : fx_reg fx = true -> forall s, RegInv s -> RegInv (fst (run fx s ops)).
Proof.
  intros Hfx. induction ops as [|o ops IH]; intros s Hinv; cbn [run]; [exact Hinv|].
  pose proof (step_RegInv fx s o Hfx Hinv) as H1.
  destruct (step fx s o) as [s1 x]. cbn [fst] in H1.
  specialize (IH s1 H1). destruct (run fx s1 ops) as [s2 xs]. cbn [fst] in IH.
  destruct x; cbn [fst]; assumption.
Qed.
