(* C41 — the registry part of the info model: parsec_info_register /
   unregister / lookup with the repaired insertion rule keep the list sorted by
   id, hence ids pairwise distinct; the client's table agrees with lookup. *)
From PV Require Import Base.Tac Info.InfoDefs.
From Coq Require Import NArith.
Local Open Scope nat_scope.

(* ---- sorted by strictly increasing id, all ids >= lo ---------------------- *)
Fixpoint incr (lo : nat) (l : list entry) : Prop :=
  match l with
  | [] => True
  | e :: r => lo <= e_iid e /\ incr (S (e_iid e)) r
  end.

Lemma incr_weaken lo lo' l : lo' <= lo -> incr lo l -> incr lo' l.
Proof. destruct l as [|e r]; cbn; intros Hle H; [exact I|]. destruct H as [H1 H2]. split; [lia|exact H2]. Qed.

Lemma incr_ge lo l e : incr lo l -> In e l -> lo <= e_iid e.
Proof.
  revert lo; induction l as [|x r IH]; intros lo H Hin; [destruct Hin|].
  cbn in H. destruct H as [H1 H2]. destruct Hin as [->|Hin]; [exact H1|].
  specialize (IH _ H2 Hin). lia.
Qed.

Lemma incr_uniq lo l e e' : incr lo l -> In e l -> In e' l -> e_iid e = e_iid e' -> e = e'.
Proof.
  revert lo; induction l as [|x r IH]; intros lo H Hi Hi' Heq; [destruct Hi|].
  cbn in H. destruct H as [H1 H2].
  destruct Hi as [->|Hi], Hi' as [->|Hi'].
  - reflexivity.
  - pose proof (incr_ge _ _ _ H2 Hi'). lia.
  - pose proof (incr_ge _ _ _ H2 Hi). lia.
  - eapply IH; eauto.
Qed.

Lemma incr_NoDup lo l : incr lo l -> NoDup (map e_iid l).
Proof.
  revert lo; induction l as [|x r IH]; intros lo H; cbn; [constructor|].
  cbn in H. destruct H as [H1 H2]. constructor; [|eapply IH; eauto].
  intros Hin. apply in_map_iff in Hin. destruct Hin as (e & He & Hin).
  pose proof (incr_ge _ _ _ H2 Hin). lia.
Qed.

Lemma incr_filter f lo l : incr lo l -> incr lo (filter f l).
Proof.
  revert lo; induction l as [|x r IH]; intros lo H; cbn; [exact I|].
  cbn in H. destruct H as [H1 H2]. destruct (f x).
  - cbn. split; [exact H1|apply IH; exact H2].
  - eapply incr_weaken; [|apply IH; exact H2]. lia.
Qed.

(* ---- generic list facts ---------------------------------------------------- *)
Lemma insert_before_in {A} (l : list A) k x y : In y (insert_before l k x) <-> y = x \/ In y l.
Proof.
  unfold insert_before. rewrite in_app_iff. cbn [In].
  rewrite <- (firstn_skipn k l) at 4. rewrite in_app_iff. intuition.
Qed.

Lemma insert_before_cons {A} (a : A) l k x : insert_before (a :: l) (S k) x = a :: insert_before l k x.
Proof. reflexivity. Qed.

Lemma insert_before_length {A} (l : list A) k x : length (insert_before l k x) = S (length l).
Proof.
  unfold insert_before. rewrite app_length. cbn [length].
  rewrite <- (firstn_skipn k l) at 3. rewrite app_length. lia.
Qed.

Lemma find_insert_other {A} (f : A -> bool) l k x : f x = false -> find f (insert_before l k x) = find f l.
Proof.
  intros Hx. revert k; induction l as [|a l IH]; intros k.
  - unfold insert_before. rewrite firstn_nil, skipn_nil. cbn. now rewrite Hx.
  - destruct k as [|k].
    + unfold insert_before. cbn [firstn skipn app find]. now rewrite Hx.
    + rewrite insert_before_cons. cbn [find]. destruct (f a); [reflexivity|apply IH].
Qed.

Lemma find_insert_new {A} (f : A -> bool) l k x :
  f x = true -> (forall y, In y l -> f y = false) -> find f (insert_before l k x) = Some x.
Proof.
  intros Hx. revert k; induction l as [|a l IH]; intros k Hall.
  - unfold insert_before. rewrite firstn_nil, skipn_nil. cbn. now rewrite Hx.
  - destruct k as [|k].
    + unfold insert_before. cbn [firstn skipn app find]. now rewrite Hx.
    + rewrite insert_before_cons. cbn [find]. rewrite (Hall a (or_introl eq_refl)).
      apply IH. intros y Hy. apply Hall. now right.
Qed.

Lemma find_none_iff {A} (f : A -> bool) l : find f l = None <-> forall y, In y l -> f y = false.
Proof.
  split.
  - intros H y Hy. eapply find_none; eauto.
  - induction l as [|a l IH]; intros H; cbn; [reflexivity|].
    rewrite (H a (or_introl eq_refl)). apply IH. intros y Hy. apply H. now right.
Qed.

Lemma find_in {A} (f : A -> bool) l x : find f l = Some x -> In x l /\ f x = true.
Proof. apply find_some. Qed.

Lemma find_filter_same {A} (f g : A -> bool) l :
  (forall x, In x l -> g x = false -> f x = false) -> find f (filter g l) = find f l.
Proof.
  induction l as [|a l IH]; intros H; cbn; [reflexivity|].
  destruct (g a) eqn:Eg.
  - cbn. destruct (f a); [reflexivity|]. apply IH. intros x Hx. apply H. now right.
  - rewrite (H a (or_introl eq_refl) Eg). apply IH. intros x Hx. apply H. now right.
Qed.

Lemma NoDup_map_filter {A B} (h : A -> B) g l : NoDup (map h l) -> NoDup (map h (filter g l)).
Proof.
  induction l as [|a l IH]; intros H; cbn; [constructor|].
  inversion H as [|? ? Hn Hd]; subst. destruct (g a).
  - cbn. constructor; [|apply IH; exact Hd].
    intros Hin. apply Hn. apply in_map_iff in Hin. destruct Hin as (y & Hy & Hin).
    apply filter_In in Hin. apply in_map_iff. exists y. tauto.
  - apply IH; exact Hd.
Qed.

Lemma NoDup_map_uniq {A B} (h : A -> B) l x y :
  NoDup (map h l) -> In x l -> In y l -> h x = h y -> x = y.
Proof.
  induction l as [|a l IH]; intros H Hx Hy Heq; [destruct Hx|].
  cbn in H. inversion H as [|? ? Hn Hd]; subst.
  destruct Hx as [->|Hx], Hy as [->|Hy].
  - reflexivity.
  - exfalso. apply Hn. rewrite Heq. now apply in_map.
  - exfalso. apply Hn. rewrite <- Heq. now apply in_map.
  - now apply IH.
Qed.

Lemma NoDup_map_insert {A B} (h : A -> B) l k x :
  NoDup (map h l) -> ~ In (h x) (map h l) -> NoDup (map h (insert_before l k x)).
Proof.
  revert k; induction l as [|a l IH]; intros k Hd Hn.
  - unfold insert_before. rewrite firstn_nil, skipn_nil. cbn. constructor; [intros []|constructor].
  - destruct k as [|k].
    + unfold insert_before. cbn [firstn skipn app map]. constructor; assumption.
    + rewrite insert_before_cons. cbn [map]. cbn [map] in Hd, Hn.
      inversion Hd as [|? ? Hna Hdl]; subst. constructor.
      * intros Hin. apply in_map_iff in Hin. destruct Hin as (y & Hy & Hin).
        apply insert_before_in in Hin. destruct Hin as [->|Hin].
        -- apply Hn. left. congruence.
        -- apply Hna. rewrite <- Hy. now apply in_map.
      * apply IH; [exact Hdl|]. intros Hin. apply Hn. now right.
Qed.

(* ---- parsec_info_register ------------------------------------------------- *)
Definition has_name (name : nat) (l : list entry) : bool := existsb (fun e => e_name e =? name) l.

Lemma has_name_find name l : has_name name l = match find_name name l with Some _ => true | None => false end.
Proof.
  unfold has_name, find_name. induction l as [|a l IH]; cbn; [reflexivity|].
  destruct (e_name a =? name); [reflexivity|exact IH].
Qed.

(* once next_item is set the loop only looks for the name *)
Lemma reg_scan_found fx name len l i ret nxt : nxt <> len ->
  reg_scan fx name len l i ret nxt = if has_name name l then None else Some (ret, nxt).
Proof.
  intros Hne. revert i; induction l as [|e l IH]; intros i; cbn [reg_scan has_name existsb]; [reflexivity|].
  apply Nat.eqb_neq in Hne. rewrite Hne. apply Nat.eqb_neq in Hne.
  destruct (e_name e =? name); [reflexivity|]. cbn [orb]. apply IH.
Qed.

(* first index (counted from i) whose entry does not carry the id i, i+1, ... *)
Fixpoint mex (l : list entry) (i : nat) : nat :=
  match l with
  | [] => i
  | e :: r => if e_iid e =? i then mex r (S i) else i
  end.

Lemma mex_ge l i : i <= mex l i.
Proof. revert i; induction l as [|e r IH]; intros i; cbn; [lia|]. destruct (e_iid e =? i); [specialize (IH (S i)); lia|lia]. Qed.

Lemma mex_le l i : mex l i <= i + length l.
Proof. revert i; induction l as [|e r IH]; intros i; cbn; [lia|]. destruct (e_iid e =? i); [specialize (IH (S i)); lia|lia]. Qed.

(* the repaired loop: the new id and the insertion index are both the first hole *)
Lemma reg_scan_fixed name len l i : i + length l = len ->
  reg_scan true name len l i i len = if has_name name l then None else Some (mex l i, mex l i).
Proof.
  revert i; induction l as [|e l IH]; intros i Hlen; cbn [reg_scan has_name existsb mex]; [reflexivity|].
  rewrite Nat.eqb_refl. cbn [length] in Hlen.
  destruct (e_iid e =? i) eqn:Eid.
  - destruct (e_name e =? name); [reflexivity|]. cbn [orb]. apply IH. lia.
  - destruct (e_name e =? name); [reflexivity|]. cbn [orb].
    apply reg_scan_found. lia.
Qed.

Lemma register_fixed name cb ctor dtor reg maxp :
  register true name cb ctor dtor reg maxp =
  if has_name name reg then (None, reg, maxp)
  else let k := mex reg 0 in
       (Some k, insert_before reg k {| e_iid := k; e_name := name; e_cb := cb; e_ctor := ctor; e_dtor := dtor |},
        Nat.max maxp (S k)).
Proof.
  unfold register. rewrite reg_scan_fixed by lia. destruct (has_name name reg); reflexivity.
Qed.

Lemma mex_fresh l i e : incr i l -> In e l -> e_iid e <> mex l i.
Proof.
  revert i; induction l as [|x r IH]; intros i H Hin; [destruct Hin|].
  cbn in H. destruct H as [H1 H2]. cbn [mex].
  destruct (e_iid x =? i) eqn:E.
  - apply Nat.eqb_eq in E. pose proof (mex_ge r (S i)).
    destruct Hin as [->|Hin]; [lia|]. apply IH; [|exact Hin]. now rewrite <- E.
  - apply Nat.eqb_neq in E. destruct Hin as [->|Hin]; [lia|].
    pose proof (incr_ge _ _ _ H2 Hin). lia.
Qed.

Lemma mex_insert_incr l i x : incr i l -> e_iid x = mex l i -> incr i (insert_before l (mex l i - i) x).
Proof.
  revert i; induction l as [|a r IH]; intros i H Hx.
  - cbn [mex] in *. unfold insert_before. rewrite firstn_nil, skipn_nil. cbn. split; [lia|exact I].
  - cbn in H. destruct H as [H1 H2]. cbn [mex] in *.
    destruct (e_iid a =? i) eqn:E.
    + apply Nat.eqb_eq in E. pose proof (mex_ge r (S i)).
      replace (mex r (S i) - i) with (S (mex r (S i) - S i)) by lia.
      rewrite insert_before_cons. cbn [incr]. split; [lia|].
      rewrite E. apply IH; [now rewrite <- E|exact Hx].
    + apply Nat.eqb_neq in E. rewrite Nat.sub_diag. unfold insert_before. cbn [firstn skipn app incr].
      split; [lia|]. split; [lia|exact H2].
Qed.

(* ---- parsec_info_unregister ----------------------------------------------- *)
Definition has_iid (i : nat) (e : entry) : bool := e_iid e =? i.
Definition remove_iid (i : nat) (l : list entry) : list entry := filter (fun e => negb (has_iid i e)) l.

Lemma filter_none {A} (f : A -> bool) l : (forall x, In x l -> f x = false) -> filter f l = [].
Proof.
  induction l as [|a l IH]; intros H; cbn; [reflexivity|].
  rewrite (H a (or_introl eq_refl)). apply IH. intros x Hx. apply H. now right.
Qed.
Lemma filter_all {A} (f : A -> bool) l : (forall x, In x l -> f x = true) -> filter f l = l.
Proof.
  induction l as [|a l IH]; intros H; cbn; [reflexivity|].
  rewrite (H a (or_introl eq_refl)). f_equal. apply IH. intros x Hx. apply H. now right.
Qed.

(* on a list without duplicate ids both variants of the loop (break / go on)
   remove the matching entry, and the running maximum bounds what remains *)
Lemma unreg_scan_nodup iid b l mx : NoDup (map e_iid l) ->
  let '(f, r, m) := unreg_scan iid b l mx in
  f = filter (has_iid iid) l /\ r = remove_iid iid l /\
  (b = true -> mx <= m /\ forall e, In e r -> e_iid e < m).
Proof.
  revert mx; induction l as [|e l IH]; intros mx Hd; cbn [unreg_scan].
  - cbn. repeat split; try reflexivity; try lia. intros e [].
  - cbn [map] in Hd. inversion Hd as [|? ? Hn Hdl]; subst.
    unfold remove_iid. cbn [filter]. unfold has_iid at 1 3. destruct (e_iid e =? iid) eqn:E.
    + apply Nat.eqb_eq in E. cbn [negb].
      assert (Hno : forall x, In x l -> has_iid iid x = false).
      { intros x Hx. unfold has_iid. apply Nat.eqb_neq. intros Hc. apply Hn. rewrite E, <- Hc. now apply in_map. }
      destruct b.
      * specialize (IH mx Hdl). destruct (unreg_scan iid true l mx) as [[f r] m].
        destruct IH as (Hf & Hr & Hm). split; [now rewrite Hf|]. split; [exact Hr|exact Hm].
      * split; [now rewrite (filter_none _ _ Hno)|]. split; [|discriminate].
        symmetry. apply filter_all. intros x Hx. now rewrite (Hno x Hx).
    + cbn [negb]. specialize (IH (Nat.max mx (S (e_iid e))) Hdl).
      destruct (unreg_scan iid b l (Nat.max mx (S (e_iid e)))) as [[f r] m].
      destruct IH as (Hf & Hr & Hm). split; [exact Hf|]. split; [now rewrite Hr|].
      intros Hb. specialize (Hm Hb). destruct Hm as [Hm1 Hm2]. split; [lia|].
      intros x [<-|Hx]; [lia|now apply Hm2].
Qed.

(* ---- the client's table ---------------------------------------------------- *)
Lemma cl_find_remove n m cl : cl_find m (cl_remove n cl) = if m =? n then None else cl_find m cl.
Proof.
  induction cl as [|[k i] cl IH]; cbn; [now destruct (m =? n)|].
  destruct (k =? n) eqn:E1; cbn.
  - apply Nat.eqb_eq in E1. subst k. rewrite IH. destruct (m =? n) eqn:E2; [reflexivity|].
    rewrite Nat.eqb_sym, E2. reflexivity.
  - destruct (k =? m) eqn:E3.
    + apply Nat.eqb_eq in E3. subst k. now rewrite E1.
    + exact IH.
Qed.

Lemma cl_find_in n i cl : cl_find n cl = Some i -> In (n, i) cl.
Proof.
  induction cl as [|[k j] cl IH]; cbn; [discriminate|].
  destruct (k =? n) eqn:E; intros H.
  - apply Nat.eqb_eq in E. inversion H. subst. now left.
  - right. now apply IH.
Qed.

Lemma cl_holds_false i cl n j : cl_holds i cl = false -> cl_find n cl = Some j -> j <> i.
Proof.
  intros Hh Hf. apply cl_find_in in Hf. unfold cl_holds in Hh.
  intros ->. assert (existsb (fun p => snd p =? i) cl = true); [|congruence].
  apply existsb_exists. exists (n, i). split; [exact Hf|]. cbn. apply Nat.eqb_refl.
Qed.

(* ---- invariant of the registry under the repaired insertion rule ----------- *)
Record RegInv (s : st) : Prop := {
  ri_incr : incr 0 (s_reg s);
  ri_names : NoDup (map e_name (s_reg s));
  ri_max : forall e, In e (s_reg s) -> e_iid e < s_maxp s;
  ri_cl : forall n, cl_find n (s_cl s) = option_map e_iid (find_name n (s_reg s))
}.

Lemma find_name_self reg e : NoDup (map e_name reg) -> In e reg -> find_name (e_name e) reg = Some e.
Proof.
  intros Hd Hin. unfold find_name.
  destruct (find (fun x => e_name x =? e_name e) reg) as [y|] eqn:F.
  - apply find_some in F. destruct F as [Hy Hn]. apply Nat.eqb_eq in Hn.
    f_equal. eapply NoDup_map_uniq; eauto.
  - eapply find_none in F; [|exact Hin]. now rewrite Nat.eqb_refl in F.
Qed.

Lemma find_iid_self lo reg e : incr lo reg -> In e reg -> find_iid (e_iid e) reg = Some e.
Proof.
  intros Hi Hin. unfold find_iid.
  destruct (find (fun x => e_iid x =? e_iid e) reg) as [y|] eqn:F.
  - apply find_some in F. destruct F as [Hy Hn]. apply Nat.eqb_eq in Hn.
    f_equal. eapply incr_uniq; eauto.
  - eapply find_none in F; [|exact Hin]. now rewrite Nat.eqb_refl in F.
Qed.

(* what the client holds is a live entry, and conversely *)
Lemma held_entry s n i : RegInv s -> cl_find n (s_cl s) = Some i ->
  exists e, In e (s_reg s) /\ e_name e = n /\ e_iid e = i /\ find_name n (s_reg s) = Some e.
Proof.
  intros [_ _ _ Hcl] H. rewrite Hcl in H.
  destruct (find_name n (s_reg s)) as [e|] eqn:F; [|discriminate].
  cbn in H. inversion H. exists e. unfold find_name in F. apply find_some in F as F'. destruct F' as [Hin Hn].
  apply Nat.eqb_eq in Hn. auto.
Qed.

Lemma entry_held s e : RegInv s -> In e (s_reg s) -> cl_find (e_name e) (s_cl s) = Some (e_iid e).
Proof. intros [_ Hn _ Hcl] Hin. rewrite Hcl, (find_name_self _ _ Hn Hin). reflexivity. Qed.

Lemma init_RegInv : RegInv init.
Proof. constructor; cbn; try constructor; intros; try contradiction; reflexivity. Qed.

(* register *)
Lemma register_RegInv s n cb ctor dtor r reg' maxp' :
  RegInv s -> register true n cb ctor dtor (s_reg s) (s_maxp s) = (r, reg', maxp') ->
  RegInv {| s_reg := reg'; s_maxp := maxp'; s_arrs := s_arrs s;
            s_cl := match r with Some i => (n, i) :: s_cl s | None => s_cl s end |}.
Proof.
  intros [Hi Hn Hm Hcl] H. rewrite register_fixed in H.
  destruct (has_name n (s_reg s)) eqn:Hhas.
  - inversion H; subst. constructor; assumption.
  - cbv zeta in H. inversion H; subst; clear H.
    set (k := mex (s_reg s) 0). set (x := {| e_iid := k; e_name := n; e_cb := cb; e_ctor := ctor; e_dtor := dtor |}).
    assert (Hnone : forall y, In y (s_reg s) -> (e_name y =? n) = false).
    { unfold has_name in Hhas. intros y Hy. destruct (e_name y =? n) eqn:E; [|reflexivity].
      assert (existsb (fun e => e_name e =? n) (s_reg s) = true); [|congruence].
      apply existsb_exists. eauto. }
    constructor; cbn [s_reg s_maxp s_cl].
    + pose proof (mex_insert_incr (s_reg s) 0 x Hi eq_refl) as Hins.
      rewrite Nat.sub_0_r in Hins. exact Hins.
    + apply NoDup_map_insert; [exact Hn|]. cbn. intros Hin. apply in_map_iff in Hin.
      destruct Hin as (y & Hy & Hin). specialize (Hnone y Hin). apply Nat.eqb_neq in Hnone. congruence.
    + intros e He. apply insert_before_in in He. destruct He as [->|He]; [cbn; lia|].
      specialize (Hm e He). lia.
    + intros m. cbn [cl_find]. destruct (n =? m) eqn:E.
      * apply Nat.eqb_eq in E. subst m. unfold find_name.
        rewrite find_insert_new; [reflexivity|cbn; apply Nat.eqb_refl|exact Hnone].
      * unfold find_name. rewrite find_insert_other; [apply Hcl|]. cbn. exact E.
Qed.

Lemma register_result s n cb ctor dtor r reg' maxp' :
  RegInv s -> register true n cb ctor dtor (s_reg s) (s_maxp s) = (r, reg', maxp') ->
  match r with
  | None => find_name n (s_reg s) <> None /\ reg' = s_reg s /\ maxp' = s_maxp s
  | Some i => find_name n (s_reg s) = None /\ (forall e, In e (s_reg s) -> e_iid e <> i) /\
              (forall e, In e reg' <-> (e = {| e_iid := i; e_name := n; e_cb := cb; e_ctor := ctor; e_dtor := dtor |}
                                        \/ In e (s_reg s)))
  end.
Proof.
  intros [Hi Hn Hm Hcl] H. rewrite register_fixed in H. rewrite has_name_find in H.
  destruct (find_name n (s_reg s)) eqn:F.
  - inversion H; subst. repeat split; congruence.
  - cbv zeta in H. inversion H; subst; clear H. split; [reflexivity|]. split.
    + intros e He. now apply mex_fresh.
    + intros e. apply insert_before_in.
Qed.

(* unregister *)
Lemma unregister_reg fx i s : NoDup (map e_iid (s_reg s)) ->
  let '(s', r, ev) := unregister fx i s in
  s_reg s' = remove_iid i (s_reg s) /\ s_cl s' = s_cl s /\
  r = (match filter (has_iid i) (s_reg s) with [] => None | _ => Some i end) /\
  (forall e, In e (s_reg s) -> e_iid e < s_maxp s) -> (forall e, In e (s_reg s') -> e_iid e < s_maxp s').
Proof.
  intros Hd. unfold unregister.
  pose proof (unreg_scan_nodup i (S i =? s_maxp s) (s_reg s) 0 Hd) as Hsc.
  destruct (unreg_scan i (S i =? s_maxp s) (s_reg s) 0) as [[f r] m].
  destruct Hsc as (Hf & Hr & Hm).
  destruct (unreg_found (fx_unreg fx) i f (s_arrs s)) as [arrs' ev].
  cbn [s_reg s_cl s_maxp]. intros (H1 & H2 & H3 & H4).
Abort.
