(* C41 (concurrent half) — atomic-step model of parsec_info_test_and_set / _set / _get
   run by any number of threads on ONE info object array that is large enough
   (no resize: the array is created after the infos are registered).  Definitions
   only; proofs are in InfoConcProofs.v.

   One [cstep] = the code of one thread between two scheduling points of
   harness/h_info.c (T-sched cases): a scheduling point sits before every
   parsec_atomic_* operation (interpose.h) and between two operations of a thread.
     rdlock  (ticket lock, no writer ever present) = one fetch_add on rin, never waits;
     rdunlock = one fetch_add on rout;  both leave the slots alone;
     parsec_list_lock (registry list, taken by parsec_info_lookup_by_iid) = one
       trylock attempt per step, a failed attempt is a stutter step;
     the CAS of test_and_set and, when it fails, the plain read of the slot that
       follows it, are one step.
   Plain accesses belong to the step that contains them: in parsec_info_set the read of
   the old value and the write of the new one follow the rdlock's fetch_add in the same
   step (the race-exploration build of the harness splits them; not this model).

   A constructor call of thread t returns a fresh object [mkobj c t k] (k-th object made by
   t), or NULL when the constructor data c is 1. *)
From PV Require Import Base.Tac.
From Coq Require Import NArith.
Local Open Scope nat_scope.

Inductive cop :=
| CT (i : nat) (v old : N)      (* parsec_info_test_and_set(oa, id i, v, old) *)
| CS (i : nat) (v : N)          (* parsec_info_set(oa, id i, v) *)
| CG (i : nat).                 (* parsec_info_get(oa, id i) *)

(* completed operations, with the operation's own value (v / constructed object) *)
Inductive cres :=
| RT (i : nat) (v r : N)                        (* returned r *)
| RS (i : nat) (v r : N)                        (* returned the old value r *)
| RG (i : nat) (r made : N) (dead : list N).    (* returned r; constructed made (0: nothing); destructed dead *)

Inductive cpc :=
| PIdle                 (* between two operations / coroutine not started *)
| PT0                   (* tas: before rdlock's fetch_add *)
| PT1                   (* tas: before the CAS *)
| PT2 (r : N)           (* tas: before rdunlock; r is what will be returned *)
| PS0                   (* set: before rdlock's fetch_add (then read old, write new) *)
| PS1 (r : N)           (* set: before rdunlock *)
| PG0                   (* get: before rdlock's fetch_add (then read ret) *)
| PG1 (ret : N)         (* get: before rdunlock *)
| PG2                   (* get: lookup_by_iid, before a trylock attempt on the list lock *)
| PG3                   (* get: list lock held, entry found, before the unlock *)
| PG4 (nio : N)         (* get: object constructed; tas(nio, NULL): before rdlock *)
| PG5 (nio : N)         (* before the CAS *)
| PG6 (nio r : N)       (* before rdunlock *)
| PDone.

Record cthr := { c_pc : cpc; c_ops : list cop; c_res : list cres (* newest first *);
                 c_nctor : nat; c_steps : nat; c_spins : nat }.

Record ccfg := { g_slots : list N;
                 g_lock : bool;                     (* registry list lock held *)
                 g_infos : list (N * bool);         (* per id: constructor data (0 none), destructor? *)
                 g_thr : list cthr }.

Definition mkobj (c : N) (t k : nat) : N :=
  (0xC000000000000000 + c * 65536 + N.of_nat (S t) * 256 + N.of_nat k)%N.

Fixpoint set_nth {A} (l : list A) (i : nat) (x : A) : list A :=
  match l, i with
  | [], _ => []
  | _ :: r, O => x :: r
  | y :: r, S j => y :: set_nth r j x
  end.

Definition slot (c : ccfg) (i : nat) : N := nth i (g_slots c) 0%N.

Definition with_thr (c : ccfg) (t : nat) (th : cthr) : ccfg :=
  {| g_slots := g_slots c; g_lock := g_lock c; g_infos := g_infos c; g_thr := set_nth (g_thr c) t th |}.
Definition with_slot_thr (c : ccfg) (i : nat) (v : N) (t : nat) (th : cthr) : ccfg :=
  {| g_slots := set_nth (g_slots c) i v; g_lock := g_lock c; g_infos := g_infos c;
     g_thr := set_nth (g_thr c) t th |}.
Definition with_lock_thr (c : ccfg) (b : bool) (t : nat) (th : cthr) : ccfg :=
  {| g_slots := g_slots c; g_lock := b; g_infos := g_infos c; g_thr := set_nth (g_thr c) t th |}.

Definition at_pc (th : cthr) (p : cpc) : cthr :=
  {| c_pc := p; c_ops := c_ops th; c_res := c_res th; c_nctor := c_nctor th;
     c_steps := S (c_steps th); c_spins := c_spins th |}.
(* the operation at the head of c_ops returns: record the result; the thread yields before
   its next operation, or finishes *)
Definition finish (th : cthr) (r : cres) : cthr :=
  {| c_pc := match tl (c_ops th) with [] => PDone | _ => PIdle end;
     c_ops := tl (c_ops th); c_res := r :: c_res th; c_nctor := c_nctor th;
     c_steps := S (c_steps th); c_spins := c_spins th |}.

Definition cstep (c : ccfg) (t : nat) : ccfg :=
  match nth_error (g_thr c) t with
  | None => c
  | Some th =>
    match c_pc th, c_ops th with
    | PDone, _ => c
    | PIdle, [] => with_thr c t (at_pc th PDone)
    | PIdle, CT _ _ _ :: _ => with_thr c t (at_pc th PT0)
    | PIdle, CS _ _ :: _ => with_thr c t (at_pc th PS0)
    | PIdle, CG _ :: _ => with_thr c t (at_pc th PG0)
    (* test_and_set *)
    | PT0, _ => with_thr c t (at_pc th PT1)
    | PT1, CT i v old :: _ =>
        if (slot c i =? old)%N then with_slot_thr c i v t (at_pc th (PT2 v))
        else with_thr c t (at_pc th (PT2 (slot c i)))
    | PT2 r, CT i v _ :: _ => with_thr c t (finish th (RT i v r))
    (* set *)
    | PS0, CS i v :: _ => with_slot_thr c i v t (at_pc th (PS1 (slot c i)))
    | PS1 r, CS i v :: _ => with_thr c t (finish th (RS i v r))
    (* get *)
    | PG0, CG i :: _ => with_thr c t (at_pc th (PG1 (slot c i)))
    | PG1 ret, CG i :: _ =>
        if (ret =? 0)%N then with_thr c t (at_pc th PG2) else with_thr c t (finish th (RG i ret 0%N []))
    | PG2, _ =>
        if g_lock c
        then with_thr c t {| c_pc := PG2; c_ops := c_ops th; c_res := c_res th; c_nctor := c_nctor th;
                             c_steps := S (c_steps th); c_spins := S (c_spins th) |}
        else with_lock_thr c true t (at_pc th PG3)
    | PG3, CG i :: _ =>
        let ctor := fst (nth i (g_infos c) (0%N, false)) in
        if (ctor =? 0)%N || (ctor =? 1)%N
        then with_lock_thr c false t (finish th (RG i 0%N 0%N []))
        else let k := S (c_nctor th) in
             with_lock_thr c false t
               {| c_pc := PG4 (mkobj ctor t k); c_ops := c_ops th; c_res := c_res th; c_nctor := k;
                  c_steps := S (c_steps th); c_spins := c_spins th |}
    | PG4 nio, _ => with_thr c t (at_pc th (PG5 nio))
    | PG5 nio, CG i :: _ =>
        if (slot c i =? 0)%N then with_slot_thr c i nio t (at_pc th (PG6 nio nio))
        else with_thr c t (at_pc th (PG6 nio (slot c i)))
    | PG6 nio r, CG i :: _ =>
        let dtor := snd (nth i (g_infos c) (0%N, false)) in
        with_thr c t (finish th (RG i r nio (if negb (r =? nio)%N && dtor then [nio] else [])))
    (* a program counter that does not match the operation at the head: never reached *)
    | _, _ => with_thr c t (at_pc th PDone)
    end
  end.

Definition crun (c : ccfg) (sched : list nat) : ccfg := fold_left cstep sched c.

Definition thr0 (ops : list cop) : cthr :=
  {| c_pc := PIdle; c_ops := ops; c_res := []; c_nctor := 0; c_steps := 0; c_spins := 0 |}.
(* the array is created after the infos: one NULL slot per info *)
Definition cinit (infos : list (N * bool)) (progs : list (list cop)) : ccfg :=
  {| g_slots := repeat 0%N (length infos); g_lock := false; g_infos := infos; g_thr := map thr0 progs |}.

Definition c_is_done (th : cthr) : bool := match c_pc th with PDone => true | _ => false end.
Definition c_all_done (c : ccfg) : bool := forallb c_is_done (g_thr c).
