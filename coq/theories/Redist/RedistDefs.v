(* Executable model of the matrix redistribution
   (parsec/data_dist/matrix/redistribute/redistribute_wrapper.c, redistribute.jdf,
   redistribute_reshuffle.jdf, redistribute_internal.h), NO proofs.

   The two JDFs treat rows and columns with the same integer arithmetic, so the
   model has a one-dimensional core ([dim], [seg]) and the two-dimensional
   decomposition is the product of the row segments and the column segments,
   exactly as CORE_redistribute_update nests its row case split and its column
   case split.  R (ghost radius) is 0 as in parsec_redistribute_New.

   All divisions of the C text have non-negative dividends and positive divisors
   once the wrapper has accepted the parameters (RedistProofs.dividends_nonneg), so
   C's truncating / and % coincide with Z.div and Z.modulo. *)
From Coq Require Import ZArith List Bool.
Import ListNotations.
Local Open Scope Z_scope.

(* lo .. hi, both inclusive (a JDF range); empty when hi < lo *)
Definition zrange (lo hi : Z) : list Z :=
  map (fun k => lo + Z.of_nat k) (seq 0 (Z.to_nat (hi - lo + 1))).

(* ---- one dimension ------------------------------------------------------ *)
Record dim := mkDim {
  bY : Z;   (* tile size of the source: descY->mb / nb            *)
  bT : Z;   (* tile size of the target: descT->mb / nb            *)
  sz : Z;   (* size_row / size_col                                 *)
  dY : Z;   (* disi_Y / disj_Y                                     *)
  dT : Z    (* disi_T / disj_T                                     *)
}.

(* one copied interval: tile indices, offsets inside the two tiles, length *)
Record seg := mkSeg { s_t : Z; s_y : Z; s_src : Z; s_dst : Z; s_len : Z }.

(* redistribute_internal.h: getsize *)
Definition getsize (index index_start index_end mb size dis : Z) : Z :=
  if index_start =? index_end then size
  else if index =? index_start then mb - dis
  else if index =? index_end then size + dis - (index_end - index_start) * mb
  else mb.

(* redistribute.jdf globals: m_T_START = disi_T/mb_T_INNER, m_T_END = (size_row+disi_T-1)/mb_T_INNER *)
Definition t_START (d : dim) : Z := dT d / bT d.
Definition t_END (d : dim) : Z := (sz d + dT d - 1) / bT d.

(* locals of Send / Update / Receive *)
Definition t_inner (d : dim) (t : Z) : Z :=               (* mb_T_inner *)
  getsize t (t_START d) (t_END d) (bT d) (sz d) (dT d mod bT d).
Definition size_T (d : dim) (t : Z) : Z :=                (* sizei_T *)
  (t - t_START d) * bT d - dT d mod bT d.
Definition i_start (d : dim) (t : Z) : Z :=
  if t =? t_START d then dY d mod bY d else (size_T d t + dY d) mod bY d.
Definition y_start (d : dim) (t : Z) : Z :=               (* m_Y_start *)
  if t =? t_START d then dY d / bY d else (size_T d t + dY d) / bY d.
Definition y_end (d : dim) (t : Z) : Z :=                 (* m_Y_end *)
  if t =? t_START d then (dY d + t_inner d t - 1) / bY d
  else (size_T d t + dY d + t_inner d t - 1) / bY d.
Definition TL (d : dim) (t : Z) : Z := Z.min (t_inner d t) (bY d - i_start d t).
Definition BR (d : dim) (t : Z) : Z := (i_start d t + t_inner d t - 1) mod bY d + 1.
(* body of Update: offset_row = (m_T == m_T_START)? disi_T % mb_T_INNER : 0 *)
Definition offset (d : dim) (t : Z) : Z := if t =? t_START d then dT d mod bT d else 0.

(* CORE_redistribute_update projected on one dimension: which interval of the
   source tile y goes where in the target tile.  Arguments in the order
   m_Y m_Y_start m_Y_end i_start TL_row BR_row mb_Y_INNER offset_row;
   result (offset in the source tile, offset in the target tile, length). *)
Definition upd_seg (y ys ye i0 tl br b off : Z) : option (Z * Z * Z) :=
  if y =? ys then Some (i0, off, tl)
  else if (ys <? y) && (y <? ye) then Some (0, off + tl + (y - ys - 1) * b, b)
  else if (y =? ye) && negb (ys =? ye) then Some (0, off + tl + (ye - ys - 1) * b, br)
  else None.

Definition seg_of (d : dim) (t y : Z) : list seg :=
  match upd_seg y (y_start d t) (y_end d t) (i_start d t) (TL d t) (BR d t) (bY d) (offset d t) with
  | Some (src, dst, len) => [mkSeg t y src dst len]
  | None => []
  end.
(* m_Y = m_Y_start .. m_Y_end *)
Definition tile_segs (d : dim) (t : Z) : list seg :=
  flat_map (seg_of d t) (zrange (y_start d t) (y_end d t)).
(* general path, over the target tile indices [ts] *)
Definition gen_segs (d : dim) (ts : list Z) : list seg := flat_map (tile_segs d) ts.

(* redistribute_reshuffle.jdf, Receive: m_Y = m_T - m_T_START + m_Y_START,
   mb = (m_T == m_T_END)? imin(descT->mb, size_row-(m_T_END-m_T_START)*descT->mb) : descT->mb,
   copy of the leading mb entries of the source tile onto the target tile *)
Definition rs_len (d : dim) (t : Z) : Z :=
  if t =? t_END d then Z.min (bT d) (sz d - (t_END d - t_START d) * bT d) else bT d.
Definition rs_seg (d : dim) (t : Z) : seg :=
  mkSeg t (t - t_START d + dY d / bY d) 0 0 (rs_len d t).
Definition rs_segs (d : dim) (ts : list Z) : list seg := map (rs_seg d) ts.

(* the JDF ranges of the target tile index: rows m_T = m_T_START .. m_T_END;
   columns by batches: batch_col = 0 .. NT,
   n_T = batch_col*num_col+n_T_START .. imin((batch_col+1)*num_col+n_T_START-1, n_T_END),
   with NT = (n_T_END-n_T_START)/num_col set by the wrapper *)
Definition row_ts (d : dim) : list Z := zrange (t_START d) (t_END d).
Definition batch_ts (tstart tend nc : Z) : list Z :=
  flat_map (fun b => zrange (b * nc + tstart) (Z.min ((b + 1) * nc + tstart - 1) tend))
           (zrange 0 ((tend - tstart) / nc)).
Definition col_ts (d : dim) (nc : Z) : list Z := batch_ts (t_START d) (t_END d) nc.

(* ---- two dimensions ----------------------------------------------------- *)
Record cfg := mkCfg {
  rd : dim;            (* rows    *)
  cd : dim;            (* columns *)
  lmtY : Z; lntY : Z;  (* tiles of the source descriptor: dcY->lmt, dcY->lnt *)
  lmtT : Z; lntT : Z;  (* tiles of the target descriptor *)
  ncY : Z; ncT : Z     (* redistribute_distribution_num_cols of source / target (block cyclic: grid.cols*grid.kcols) *)
}.

(* redistribute_pair_num_cols, block-cyclic pair *)
Definition num_cols (c : cfg) : Z :=
  if (ncY c <=? 0) || (ncT c <=? 0) then -1 else if ncY c >=? ncT c then ncY c else ncT c.

(* parameter checks of parsec_redistribute_New, in order (block-cyclic descriptors: every tile is stored) *)
Definition accept (c : cfg) : bool :=
  negb ((sz (rd c) <? 1) || (sz (cd c) <? 1))
  && negb ((dY (rd c) <? 0) || (dY (cd c) <? 0) || (dT (rd c) <? 0) || (dT (cd c) <? 0))
  && negb ((dY (rd c) + sz (rd c) >? lmtY c * bY (rd c)) || (dY (cd c) + sz (cd c) >? lntY c * bY (cd c)))
  && negb ((dT (rd c) + sz (rd c) >? lmtT c * bT (rd c)) || (dT (cd c) + sz (cd c) >? lntT c * bT (cd c)))
  && negb (num_cols c <=? 0).

(* the optimized version is chosen when tile sizes agree and all four displacements are tile aligned *)
Definition use_reshuffle (c : cfg) : bool :=
  (bY (rd c) =? bT (rd c)) && (bY (cd c) =? bT (cd c))
  && (dY (rd c) mod bY (rd c) =? 0) && (dY (cd c) mod bY (cd c) =? 0)
  && (dT (rd c) mod bT (rd c) =? 0) && (dT (cd c) mod bT (cd c) =? 0).

Definition row_segs (c : cfg) : list seg :=
  if use_reshuffle c then rs_segs (rd c) (row_ts (rd c)) else gen_segs (rd c) (row_ts (rd c)).
Definition col_segs (c : cfg) : list seg :=
  if use_reshuffle c then rs_segs (cd c) (col_ts (cd c) (num_cols c))
  else gen_segs (cd c) (col_ts (cd c) (num_cols c)).

(* the copied sub-blocks: (row interval, column interval) *)
Definition copies (c : cfg) : list (seg * seg) := list_prod (row_segs c) (col_segs c).

(* global (index in the target, index in the source) of every entry of one interval *)
Definition seg_cells (d : dim) (s : seg) : list (Z * Z) :=
  map (fun k => (s_t s * bT d + s_dst s + k, s_y s * bY d + s_src s + k)) (zrange 0 (s_len s - 1)).
Definition cells1 (d : dim) (l : list seg) : list (Z * Z) := flat_map (seg_cells d) l.

(* ((target i, target j), (source i, source j)) of every entry of one sub-block *)
Definition rect_cells (c : cfg) (r : seg * seg) : list ((Z * Z) * (Z * Z)) :=
  map (fun p => ((fst (fst p), fst (snd p)), (snd (fst p), snd (snd p))))
      (list_prod (seg_cells (rd c) (fst r)) (seg_cells (cd c) (snd r))).
Definition cells (c : cfg) : list ((Z * Z) * (Z * Z)) := flat_map (rect_cells c) (copies c).

(* ---- hypotheses of the theorems ----------------------------------------- *)
(* one dimension: positive tile sizes, and what the wrapper checks *)
Definition wf1 (d : dim) : Prop := 0 < bY d /\ 0 < bT d /\ 1 <= sz d /\ 0 <= dY d /\ 0 <= dT d.
(* two dimensions: the wrapper accepted the call; descriptors have positive tile sizes *)
Definition wf (c : cfg) : Prop :=
  accept c = true /\ 0 < bY (rd c) /\ 0 < bT (rd c) /\ 0 < bY (cd c) /\ 0 < bT (cd c).
(* an interval stays inside its source tile and its target tile, and is not empty *)
Definition seg_in_tiles (d : dim) (s : seg) : Prop :=
  1 <= s_len s /\ 0 <= s_src s /\ s_src s + s_len s <= bY d /\ 0 <= s_dst s /\ s_dst s + s_len s <= bT d.

(* ---- element level ------------------------------------------------------ *)
Definition mat := Z -> Z -> Z.

(* specification: the window of the source lands at the target displacement, the rest is unchanged *)
Definition in_window (c : cfg) (i j : Z) : bool :=
  (dT (rd c) <=? i) && (i <? dT (rd c) + sz (rd c)) && (dT (cd c) <=? j) && (j <? dT (cd c) + sz (cd c)).
Definition spec (c : cfg) (src tgt : mat) : mat :=
  fun i j => if in_window c i j then src (i - dT (rd c) + dY (rd c)) (j - dT (cd c) + dY (cd c)) else tgt i j.

(* implementation model: the element writes, one after the other (any order of the list) *)
Definition write (src : mat) (T : mat) (w : (Z * Z) * (Z * Z)) : mat :=
  fun i j => if (fst (fst w) =? i) && (snd (fst w) =? j) then src (fst (snd w)) (snd (snd w)) else T i j.
Definition exec (ws : list ((Z * Z) * (Z * Z))) (src tgt : mat) : mat := fold_left (write src) ws tgt.

(* parsec_redistribute: PARSEC_ERR_NOT_SUPPORTED and an untouched target when the wrapper refuses *)
Definition redistribute (c : cfg) (src tgt : mat) : bool * mat :=
  if accept c then (true, exec (cells c) src tgt) else (false, tgt).

(* the same element, read off the list of writes (last write wins), for the driver *)
Definition lookup (ws : list ((Z * Z) * (Z * Z))) (src tgt : mat) : mat :=
  fun i j => match find (fun w => (fst (fst w) =? i) && (snd (fst w) =? j)) (rev ws) with
             | Some w => src (fst (snd w)) (snd (snd w))
             | None => tgt i j
             end.

(* test patterns of the harness *)
Definition pat_src : mat := fun i j => (i + 1) * 1000 + j.
Definition pat_tgt : mat := fun i j => - ((i + 1) * 1000 + j).

(* observation of a run: acceptance and the target over its padded extent, row major *)
Definition observe (c : cfg) : bool * list Z :=
  let rows := lmtT c * bT (rd c) in
  let cols := lntT c * bT (cd c) in
  if accept c then
    let ws := rev (cells c) in
    (true, flat_map (fun i => map (fun j =>
              match find (fun w => (fst (fst w) =? i) && (snd (fst w) =? j)) ws with
              | Some w => pat_src (fst (snd w)) (snd (snd w))
              | None => pat_tgt i j
              end) (zrange 0 (cols - 1))) (zrange 0 (rows - 1)))
  else (false, flat_map (fun i => map (fun j => pat_tgt i j) (zrange 0 (cols - 1))) (zrange 0 (rows - 1))).
