(* One-dimensional core of the redistribution model: the intervals produced by
   redistribute.jdf (general path) and redistribute_reshuffle.jdf (optimized path)
   for one dimension partition the requested window, each interval stays inside
   one source tile and one target tile, and copies from the position the
   specification names.  Also: the column batches enumerate every target tile
   column exactly once. *)
From Coq Require Import ZArith List Bool Lia FinFun.
From PV Require Import Redist.RedistDefs.
Import ListNotations.
Local Open Scope Z_scope.

(* division facts with a variable positive divisor, in the form lia/nia can use *)
Lemma divmod_spec a b : 0 < b -> a = b * (a / b) + a mod b /\ 0 <= a mod b < b.
Proof. intros Hb. split. apply Z.div_mod; lia. apply Z.mod_pos_bound; lia. Qed.

Lemma div_between a b q : 0 < b -> b * q <= a < b * (q + 1) -> a / b = q.
Proof. intros Hb H. symmetry. apply Z.div_unique with (r := a - b * q); lia. Qed.

Lemma mod_between a b q : 0 < b -> b * q <= a < b * (q + 1) -> a mod b = a - b * q.
Proof. intros Hb H. symmetry. apply Z.mod_unique with (q := q); lia. Qed.

(* the split of the interval [p, p+L) at the multiples of b, as upd_seg performs it *)
Lemma upd_seg_sound b p L off y src dst len :
  0 < b -> 0 <= p -> 1 <= L ->
  p / b <= y <= (p + L - 1) / b ->
  upd_seg y (p / b) ((p + L - 1) / b) (p mod b) (Z.min L (b - p mod b))
          ((p mod b + L - 1) mod b + 1) b off = Some (src, dst, len) ->
  1 <= len /\ 0 <= src /\ src + len <= b /\
  off <= dst /\ dst + len <= off + L /\
  y * b + src = p + (dst - off).
Proof.
  intros Hb Hp HL Hy H.
  destruct (divmod_spec p b Hb) as [E1 R1].
  destruct (divmod_spec (p + L - 1) b Hb) as [E2 R2].
  assert (EBR : (p mod b + L - 1) mod b = (p + L - 1) mod b).
  { symmetry. apply Z.mod_unique with (q := (p + L - 1) / b - p / b); lia. }
  rewrite EBR in H. clear EBR.
  remember (p / b) as q1 eqn:Hq1. remember (p mod b) as r1 eqn:Hr1.
  remember ((p + L - 1) / b) as q2 eqn:Hq2. remember ((p + L - 1) mod b) as r2 eqn:Hr2.
  clear Hq1 Hr1 Hq2 Hr2.
  unfold upd_seg in H.
  destruct (y =? q1) eqn:Ey.
  - injection H as Hs Hd Hl; subst src dst len. apply Z.eqb_eq in Ey. subst y. nia.
  - apply Z.eqb_neq in Ey.
    destruct ((q1 <? y) && (y <? q2)) eqn:Em.
    + injection H as Hs Hd Hl; subst src dst len. apply andb_true_iff in Em. destruct Em as [Ea Eb].
      apply Z.ltb_lt in Ea. apply Z.ltb_lt in Eb.
      assert (b * (q1 + 1) <= b * y) by nia. assert (b * (y + 1) <= b * q2) by nia.
      assert (Z.min L (b - r1) = b - r1) by nia. nia.
    + destruct ((y =? q2) && negb (q1 =? q2)) eqn:Ee; [|discriminate].
      injection H as Hs Hd Hl; subst src dst len. apply andb_true_iff in Ee. destruct Ee as [Ea Eb].
      apply Z.eqb_eq in Ea. subst y. apply negb_true_iff in Eb. apply Z.eqb_neq in Eb.
      assert (b * (q1 + 1) <= b * q2) by nia.
      assert (Z.min L (b - r1) = b - r1) by nia. nia.
Qed.

Lemma upd_seg_complete b p L off q :
  0 < b -> 0 <= p -> 1 <= L -> p <= q < p + L ->
  p / b <= q / b <= (p + L - 1) / b /\
  exists src dst len,
    upd_seg (q / b) (p / b) ((p + L - 1) / b) (p mod b) (Z.min L (b - p mod b))
            ((p mod b + L - 1) mod b + 1) b off = Some (src, dst, len) /\
    p + (dst - off) <= q < p + (dst - off) + len.
Proof.
  intros Hb Hp HL Hq.
  destruct (divmod_spec p b Hb) as [E1 R1].
  destruct (divmod_spec (p + L - 1) b Hb) as [E2 R2].
  destruct (divmod_spec q b Hb) as [E3 R3].
  assert (EBR : (p mod b + L - 1) mod b = (p + L - 1) mod b).
  { symmetry. apply Z.mod_unique with (q := (p + L - 1) / b - p / b); lia. }
  rewrite EBR. clear EBR.
  remember (p / b) as q1 eqn:Hq1. remember (p mod b) as r1 eqn:Hr1.
  remember ((p + L - 1) / b) as q2 eqn:Hq2. remember ((p + L - 1) mod b) as r2 eqn:Hr2.
  remember (q / b) as y eqn:Hy. remember (q mod b) as r3 eqn:Hr3.
  clear Hq1 Hr1 Hq2 Hr2 Hy Hr3.
  assert (Hy1 : q1 <= y) by nia. assert (Hy2 : y <= q2) by nia.
  split; [lia|].
  unfold upd_seg.
  destruct (y =? q1) eqn:Ey.
  - apply Z.eqb_eq in Ey. subst y. do 3 eexists. split; [reflexivity|]. nia.
  - apply Z.eqb_neq in Ey.
    destruct ((q1 <? y) && (y <? q2)) eqn:Em.
    + apply andb_true_iff in Em. destruct Em as [Ea Eb].
      apply Z.ltb_lt in Ea. apply Z.ltb_lt in Eb.
      do 3 eexists. split; [reflexivity|].
      assert (b * (q1 + 1) <= b * y) by nia. assert (b * (y + 1) <= b * q2) by nia.
      assert (Z.min L (b - r1) = b - r1) by nia. nia.
    + assert (y = q2).
      { apply andb_false_iff in Em. destruct Em as [Em|Em]; [apply Z.ltb_ge in Em|apply Z.ltb_ge in Em]; lia. }
      subst y.
      replace (q2 =? q2) with true by (symmetry; apply Z.eqb_refl).
      replace (q1 =? q2) with false by (symmetry; apply Z.eqb_neq; lia). cbn [andb negb].
      do 3 eexists. split; [reflexivity|].
      assert (b * (q1 + 1) <= b * q2) by nia.
      assert (Z.min L (b - r1) = b - r1) by nia. nia.
Qed.

(* ---- the part of the window that falls in target tile t ------------------ *)

(* offset of the tile's part inside the window *)
Definition lo (d : dim) (t : Z) : Z := if t =? t_START d then 0 else size_T d t.

Lemma tile_part d t :
  wf1 d -> t_START d <= t <= t_END d ->
  0 <= lo d t /\ 1 <= t_inner d t /\ lo d t + t_inner d t <= sz d /\
  t * bT d + offset d t = dT d + lo d t /\ 0 <= offset d t /\ offset d t + t_inner d t <= bT d.
Proof.
  intros (HbY & HbT & Hsz & HdY & HdT) Ht.
  unfold lo, t_inner, size_T, offset, getsize, t_START, t_END in *.
  destruct (divmod_spec (dT d) (bT d) HbT) as [E1 R1].
  destruct (divmod_spec (sz d + dT d - 1) (bT d) HbT) as [E2 R2].
  remember (dT d / bT d) as q1 eqn:Hq1. remember (dT d mod bT d) as r1 eqn:Hr1.
  remember ((sz d + dT d - 1) / bT d) as q2 eqn:Hq2. remember ((sz d + dT d - 1) mod bT d) as r2 eqn:Hr2.
  clear Hq1 Hr1 Hq2 Hr2.
  destruct (t =? q1) eqn:Et; destruct (q1 =? q2) eqn:E12; try destruct (t =? q2) eqn:Et2;
    repeat match goal with H : (_ =? _) = true |- _ => apply Z.eqb_eq in H
                         | H : (_ =? _) = false |- _ => apply Z.eqb_neq in H end; subst; try lia; nia.
Qed.

Lemma tile_part_complete d g :
  wf1 d -> dT d <= g < dT d + sz d ->
  t_START d <= g / bT d <= t_END d /\
  dT d + lo d (g / bT d) <= g < dT d + lo d (g / bT d) + t_inner d (g / bT d).
Proof.
  intros (HbY & HbT & Hsz & HdY & HdT) Hg.
  unfold lo, t_inner, size_T, offset, getsize, t_START, t_END in *.
  destruct (divmod_spec (dT d) (bT d) HbT) as [E1 R1].
  destruct (divmod_spec (sz d + dT d - 1) (bT d) HbT) as [E2 R2].
  destruct (divmod_spec g (bT d) HbT) as [E3 R3].
  remember (dT d / bT d) as q1 eqn:Hq1. remember (dT d mod bT d) as r1 eqn:Hr1.
  remember ((sz d + dT d - 1) / bT d) as q2 eqn:Hq2. remember ((sz d + dT d - 1) mod bT d) as r2 eqn:Hr2.
  remember (g / bT d) as t eqn:Ht. remember (g mod bT d) as r3 eqn:Hr3.
  clear Hq1 Hr1 Hq2 Hr2 Ht Hr3.
  assert (q1 <= t) by nia. assert (t <= q2) by nia. split; [lia|].
  destruct (t =? q1) eqn:Et; destruct (q1 =? q2) eqn:E12; try destruct (t =? q2) eqn:Et2;
    repeat match goal with H : (_ =? _) = true |- _ => apply Z.eqb_eq in H
                         | H : (_ =? _) = false |- _ => apply Z.eqb_neq in H end; subst; try lia; nia.
Qed.

(* ---- lists ---------------------------------------------------------------- *)
Lemma in_zrange lo hi y : In y (zrange lo hi) <-> lo <= y <= hi.
Proof.
  unfold zrange. rewrite in_map_iff. split.
  - intros (k & <- & Hk). apply in_seq in Hk. lia.
  - intros H. exists (Z.to_nat (y - lo)). split; [lia|]. apply in_seq. lia.
Qed.

Lemma NoDup_zrange lo hi : NoDup (zrange lo hi).
Proof.
  unfold zrange. apply Injective_map_NoDup; [|apply seq_NoDup].
  intros a b H. lia.
Qed.

Lemma NoDup_app_intro {A} (l1 l2 : list A) :
  NoDup l1 -> NoDup l2 -> (forall x, In x l1 -> In x l2 -> False) -> NoDup (l1 ++ l2).
Proof.
  induction l1 as [|a l1 IH]; intros H1 H2 H; [exact H2|].
  cbn [app]. inversion H1 as [|? ? Ha H1']; subst. constructor.
  - rewrite in_app_iff. intros [Hi|Hi]; [tauto|]. apply (H a); [left; reflexivity|exact Hi].
  - apply IH; auto. intros x Hx1 Hx2. apply (H x); [right; exact Hx1|exact Hx2].
Qed.

(* no duplicate keys in a flat_map when the pieces have none and a shared key names the piece *)
Lemma NoDup_flat_map_key {A B K} (key : B -> K) (f : A -> list B) (l : list A) :
  NoDup l ->
  (forall a, In a l -> NoDup (map key (f a))) ->
  (forall a b x y, In a l -> In b l -> In x (f a) -> In y (f b) -> key x = key y -> a = b) ->
  NoDup (map key (flat_map f l)).
Proof.
  induction l as [|a l IH]; intros Hl Hp Hx; [constructor|].
  cbn [flat_map]. rewrite map_app. inversion Hl as [|? ? Ha Hl']; subst.
  apply NoDup_app_intro.
  - apply Hp. left; reflexivity.
  - apply IH; auto.
    + intros a' Ha'. apply Hp. right; exact Ha'.
    + intros a' b' x y Ha' Hb'. apply Hx; right; assumption.
  - intros k H1 H2. apply in_map_iff in H1. destruct H1 as (x & <- & Hx1).
    apply in_map_iff in H2. destruct H2 as (y & Hk & Hy). apply in_flat_map in Hy.
    destruct Hy as (b & Hb & Hy).
    assert (a = b) by (apply (Hx a b x y); auto; [left; reflexivity|right; exact Hb]).
    subst b. contradiction.
Qed.

Lemma in_seg_cells d s g h :
  In (g, h) (seg_cells d s) <->
  exists k, 0 <= k < s_len s /\ g = s_t s * bT d + s_dst s + k /\ h = s_y s * bY d + s_src s + k.
Proof.
  unfold seg_cells. rewrite in_map_iff. split.
  - intros (k & E & Hk). apply in_zrange in Hk. injection E as <- <-. exists k. lia.
  - intros (k & Hk & -> & ->). exists k. split; [reflexivity|]. apply in_zrange. lia.
Qed.

Lemma NoDup_seg_cells_fst d s : NoDup (map fst (seg_cells d s)).
Proof.
  unfold seg_cells. rewrite map_map. cbn [fst].
  apply Injective_map_NoDup; [|apply NoDup_zrange]. intros a b H. lia.
Qed.

(* ---- exactness of a one-dimensional decomposition -------------------------- *)

Definition exact1 (d : dim) (l : list seg) : Prop :=
  NoDup l /\
  (forall s, In s l -> seg_in_tiles d s) /\
  (forall s g h, In s l -> In (g, h) (seg_cells d s) -> dT d <= g < dT d + sz d /\ h = g - dT d + dY d) /\
  (forall g, dT d <= g < dT d + sz d -> exists s, In s l /\ In (g, g - dT d + dY d) (seg_cells d s)) /\
  (forall s1 s2 g h1 h2, In s1 l -> In s2 l -> In (g, h1) (seg_cells d s1) -> In (g, h2) (seg_cells d s2) -> s1 = s2).

(* the JDF expressions of a tile, in terms of the source position of its part *)
Lemma jdf_forms d t :
  i_start d t = (dY d + lo d t) mod bY d /\
  y_start d t = (dY d + lo d t) / bY d /\
  y_end d t = (dY d + lo d t + t_inner d t - 1) / bY d.
Proof.
  unfold i_start, y_start, y_end, lo. destruct (t =? t_START d).
  - rewrite Z.add_0_r. auto.
  - rewrite (Z.add_comm (size_T d t) (dY d)). auto.
Qed.

Lemma in_tile_segs d t s :
  In s (tile_segs d t) <->
  y_start d t <= s_y s <= y_end d t /\ s_t s = t /\
  upd_seg (s_y s) (y_start d t) (y_end d t) (i_start d t) (TL d t) (BR d t) (bY d) (offset d t)
    = Some (s_src s, s_dst s, s_len s).
Proof.
  unfold tile_segs. rewrite in_flat_map. split.
  - intros (y & Hy & Hs). apply in_zrange in Hy. unfold seg_of in Hs.
    destruct (upd_seg y _ _ _ _ _ _ _) as [[[src dst] len]|] eqn:E; [|contradiction].
    destruct Hs as [<-|[]]. cbn. auto.
  - intros (Hy & Ht & E). exists (s_y s). split; [apply in_zrange; exact Hy|].
    unfold seg_of. rewrite E. left. destruct s; cbn in *. subst; reflexivity.
Qed.

Lemma tile_seg_sound d t s :
  wf1 d -> t_START d <= t <= t_END d -> In s (tile_segs d t) ->
  seg_in_tiles d s /\
  forall k, 0 <= k < s_len s ->
    dT d <= t * bT d + s_dst s + k < dT d + sz d /\
    s_y s * bY d + s_src s + k = t * bT d + s_dst s + k - dT d + dY d.
Proof.
  intros Hwf Ht Hs. apply in_tile_segs in Hs. destruct Hs as (Hy & _ & E).
  destruct (tile_part d t Hwf Ht) as (P1 & P2 & P3 & P4 & P5 & P6).
  destruct (jdf_forms d t) as (F1 & F2 & F3).
  unfold TL, BR in E. rewrite F1, F2, F3 in E. rewrite F2, F3 in Hy.
  destruct Hwf as (HbY & HbT & Hsz & HdY & HdT).
  apply upd_seg_sound in E; try lia.
  unfold seg_in_tiles. split; [lia|]. intros k Hk. lia.
Qed.

Lemma tile_seg_complete d g :
  wf1 d -> dT d <= g < dT d + sz d ->
  exists s, In s (tile_segs d (g / bT d)) /\ In (g, g - dT d + dY d) (seg_cells d s).
Proof.
  intros Hwf Hg.
  destruct (tile_part_complete d g Hwf Hg) as (Ht & Hlo).
  set (t := g / bT d) in *.
  destruct (tile_part d t Hwf Ht) as (P1 & P2 & P3 & P4 & P5 & P6).
  destruct (jdf_forms d t) as (F1 & F2 & F3).
  pose proof Hwf as (HbY & HbT & Hsz & HdY & HdT).
  destruct (upd_seg_complete (bY d) (dY d + lo d t) (t_inner d t) (offset d t) (g - dT d + dY d))
    as (Hy & src & dst & len & E & Hq); try lia.
  exists (mkSeg t ((g - dT d + dY d) / bY d) src dst len). split.
  - apply in_tile_segs. cbn. unfold TL, BR. rewrite F1, F2, F3. auto.
  - apply in_seg_cells. cbn. exists (g - (t * bT d + dst)).
    apply upd_seg_sound in E; lia.
Qed.

Lemma seg_eq s1 s2 :
  s_t s1 = s_t s2 -> s_y s1 = s_y s2 -> s_src s1 = s_src s2 -> s_dst s1 = s_dst s2 -> s_len s1 = s_len s2 -> s1 = s2.
Proof. destruct s1, s2; cbn; intros; subst; reflexivity. Qed.

Lemma NoDup_tile_segs d t : NoDup (tile_segs d t).
Proof.
  unfold tile_segs. rewrite <- (map_id (flat_map _ _)).
  apply NoDup_flat_map_key.
  - apply NoDup_zrange.
  - intros y _. rewrite map_id. unfold seg_of.
    destruct (upd_seg _ _ _ _ _ _ _ _) as [[[? ?] ?]|]; repeat constructor; intros [].
  - intros a b x y _ _ Hx Hy E. unfold id in E. subst y. unfold seg_of in *.
    destruct (upd_seg a _ _ _ _ _ _ _) as [[[? ?] ?]|]; [|contradiction].
    destruct (upd_seg b _ _ _ _ _ _ _) as [[[? ?] ?]|]; [|contradiction].
    destruct Hx as [<-|[]]. destruct Hy as [E|[]]. injection E. auto.
Qed.

Lemma in_gen_segs d ts s : In s (gen_segs d ts) <-> In (s_t s) ts /\ In s (tile_segs d (s_t s)).
Proof.
  unfold gen_segs. rewrite in_flat_map. split.
  - intros (t & Ht & Hs). pose proof Hs as Hs'. apply in_tile_segs in Hs'. destruct Hs' as (_ & E & _).
    rewrite E. auto.
  - intros (Ht & Hs). eauto.
Qed.

Lemma NoDup_gen_segs d ts : NoDup ts -> NoDup (gen_segs d ts).
Proof.
  intros Hts. unfold gen_segs. rewrite <- (map_id (flat_map _ _)).
  apply NoDup_flat_map_key; [exact Hts| |].
  - intros t _. rewrite map_id. apply NoDup_tile_segs.
  - intros a b x y _ _ Hx Hy E. unfold id in E. subst y.
    apply in_tile_segs in Hx. apply in_tile_segs in Hy. lia.
Qed.

(* a covered index names the tiles of the interval that covers it *)
Lemma cell_names_tiles d s g h :
  0 < bY d -> 0 < bT d -> seg_in_tiles d s -> In (g, h) (seg_cells d s) ->
  s_t s = g / bT d /\ s_y s = h / bY d.
Proof.
  intros HbY HbT (B1 & B2 & B3 & B4 & B5) Hc. apply in_seg_cells in Hc. destruct Hc as (k & Hk & -> & ->).
  split; symmetry; apply div_between; lia.
Qed.

Lemma gen_exact1 d ts :
  wf1 d -> NoDup ts -> (forall t, In t ts <-> t_START d <= t <= t_END d) -> exact1 d (gen_segs d ts).
Proof.
  intros Hwf Hnd Hts. pose proof Hwf as (HbY & HbT & Hsz & HdY & HdT).
  assert (Hsound : forall s, In s (gen_segs d ts) -> seg_in_tiles d s /\
            forall g h, In (g, h) (seg_cells d s) -> dT d <= g < dT d + sz d /\ h = g - dT d + dY d).
  { intros s Hs. apply in_gen_segs in Hs. destruct Hs as (Ht & Hs). apply Hts in Ht.
    destruct (tile_seg_sound d (s_t s) s Hwf Ht Hs) as (Hb & Hk). split; [exact Hb|].
    intros g h Hc. apply in_seg_cells in Hc. destruct Hc as (k & Hk' & -> & ->).
    specialize (Hk k Hk'). lia. }
  unfold exact1. split; [apply NoDup_gen_segs; exact Hnd|]. split; [intros s Hs; apply Hsound; exact Hs|].
  split; [intros s g h Hs; apply Hsound; exact Hs|]. split.
  - intros g Hg. destruct (tile_seg_complete d g Hwf Hg) as (s & Hs & Hc).
    exists s. split; [|exact Hc]. apply in_gen_segs.
    pose proof Hs as Hs'. apply in_tile_segs in Hs'. destruct Hs' as (_ & E & _). rewrite E.
    split; [|exact Hs]. apply Hts. apply (tile_part_complete d g Hwf Hg).
  - intros s1 s2 g h1 h2 H1 H2 C1 C2.
    destruct (Hsound s1 H1) as (B1 & S1). destruct (Hsound s2 H2) as (B2 & S2).
    destruct (S1 g h1 C1) as (_ & E1). destruct (S2 g h2 C2) as (_ & E2).
    destruct (cell_names_tiles d s1 g h1 HbY HbT B1 C1) as (T1 & Y1).
    destruct (cell_names_tiles d s2 g h2 HbY HbT B2 C2) as (T2 & Y2).
    apply in_gen_segs in H1. apply in_gen_segs in H2. destruct H1 as (_ & H1). destruct H2 as (_ & H2).
    apply in_tile_segs in H1. apply in_tile_segs in H2.
    destruct H1 as (_ & _ & U1). destruct H2 as (_ & _ & U2).
    assert (ET : s_t s1 = s_t s2) by congruence. assert (EY : s_y s1 = s_y s2) by congruence.
    rewrite ET, EY in U1. rewrite U1 in U2. injection U2 as ? ? ?. apply seg_eq; assumption.
Qed.

(* ---- the optimized (reshuffle) decomposition ------------------------------ *)
Lemma rs_facts d t :
  wf1 d -> bY d = bT d -> dY d mod bY d = 0 -> dT d mod bT d = 0 -> t_START d <= t <= t_END d ->
  1 <= rs_len d t <= bT d /\
  dT d <= t * bT d /\ t * bT d + rs_len d t <= dT d + sz d /\
  (t - t_START d + dY d / bY d) * bY d = t * bT d - dT d + dY d /\
  (t < t_END d -> rs_len d t = bT d) /\
  (t = t_END d -> t * bT d + rs_len d t = dT d + sz d \/ (rs_len d t = bT d /\ t * bT d + bT d <= dT d + sz d)).
Proof.
  intros (HbY & HbT & Hsz & HdY & HdT) Eb EY ET Ht.
  unfold rs_len, t_START, t_END in *.
  destruct (divmod_spec (dT d) (bT d) HbT) as [E1 R1].
  destruct (divmod_spec (sz d + dT d - 1) (bT d) HbT) as [E2 R2].
  destruct (divmod_spec (dY d) (bY d) HbY) as [E3 R3].
  rewrite ET in *. rewrite EY in *. rewrite Eb in *.
  remember (dT d / bT d) as q1 eqn:Hq1.
  remember ((sz d + dT d - 1) / bT d) as q2 eqn:Hq2. remember ((sz d + dT d - 1) mod bT d) as r2 eqn:Hr2.
  remember (dY d / bT d) as q3 eqn:Hq3.
  clear Hq1 Hq2 Hr2 Hq3.
  destruct (t =? q2) eqn:Et; [apply Z.eqb_eq in Et|apply Z.eqb_neq in Et].
  - subst t. assert (Z.min (bT d) (sz d - (q2 - q1) * bT d) = sz d - (q2 - q1) * bT d) by nia. nia.
  - assert (bT d * (t + 1) <= bT d * q2) by nia. nia.
Qed.

Lemma rs_exact1 d ts :
  wf1 d -> bY d = bT d -> dY d mod bY d = 0 -> dT d mod bT d = 0 ->
  NoDup ts -> (forall t, In t ts <-> t_START d <= t <= t_END d) -> exact1 d (rs_segs d ts).
Proof.
  intros Hwf Eb EY ET Hnd Hts. pose proof Hwf as (HbY & HbT & Hsz & HdY & HdT).
  assert (Hin : forall s, In s (rs_segs d ts) -> s = rs_seg d (s_t s) /\ t_START d <= s_t s <= t_END d).
  { intros s Hs. unfold rs_segs in Hs. apply in_map_iff in Hs. destruct Hs as (t & <- & Ht).
    cbn. split; [reflexivity|]. apply Hts; exact Ht. }
  assert (Hsound : forall s, In s (rs_segs d ts) -> seg_in_tiles d s /\
            forall g h, In (g, h) (seg_cells d s) -> dT d <= g < dT d + sz d /\ h = g - dT d + dY d).
  { intros s Hs. destruct (Hin s Hs) as (E & Ht).
    destruct (rs_facts d (s_t s) Hwf Eb EY ET Ht) as (F1 & F2 & F3 & F4 & _).
    rewrite E. unfold seg_in_tiles. cbn. split; [lia|].
    intros g h Hc. apply in_seg_cells in Hc. cbn in Hc. destruct Hc as (k & Hk & -> & ->). lia. }
  unfold exact1. split.
  - unfold rs_segs. apply Injective_map_NoDup; [|exact Hnd]. intros a b H. injection H. auto.
  - split; [intros s Hs; apply Hsound; exact Hs|]. split; [intros s g h Hs; apply Hsound; exact Hs|]. split.
    + intros g Hg. destruct (tile_part_complete d g Hwf Hg) as (Ht & _).
      set (t := g / bT d) in *.
      destruct (rs_facts d t Hwf Eb EY ET Ht) as (F1 & F2 & F3 & F4 & F5 & F6).
      destruct (divmod_spec g (bT d) HbT) as [E3 R3]. fold t in E3.
      exists (rs_seg d t). split; [unfold rs_segs; apply in_map; apply Hts; exact Ht|].
      apply in_seg_cells. cbn. exists (g mod bT d).
      assert (g mod bT d < rs_len d t).
      { destruct (Z.eq_dec t (t_END d)) as [Ee|Ee]; [destruct (F6 Ee) as [F|F]; lia|rewrite F5; lia]. }
      lia.
    + intros s1 s2 g h1 h2 H1 H2 C1 C2.
      destruct (Hsound s1 H1) as (B1 & _). destruct (Hsound s2 H2) as (B2 & _).
      destruct (cell_names_tiles d s1 g h1 HbY HbT B1 C1) as (T1 & _).
      destruct (cell_names_tiles d s2 g h2 HbY HbT B2 C2) as (T2 & _).
      destruct (Hin s1 H1) as (E1 & _). destruct (Hin s2 H2) as (E2 & _).
      rewrite E1, E2. congruence.
Qed.

(* ---- the batches of target tile columns ------------------------------------ *)
Lemma map_seq_shift {A} (f : nat -> A) n s m :
  map f (seq (n + s) m) = map (fun k => f (n + k)%nat) (seq s m).
Proof.
  revert s. induction m as [|m IH]; intros s; [reflexivity|].
  cbn [seq map]. f_equal. rewrite <- IH. f_equal. f_equal. lia.
Qed.

Lemma zrange_app a b c : a <= b + 1 -> b <= c -> zrange a b ++ zrange (b + 1) c = zrange a c.
Proof.
  intros H1 H2. unfold zrange.
  replace (Z.to_nat (c - a + 1)) with (Z.to_nat (b - a + 1) + Z.to_nat (c - (b + 1) + 1))%nat by lia.
  rewrite seq_app, map_app. f_equal.
  rewrite Nat.add_0_l. rewrite <- (Nat.add_0_r (Z.to_nat (b - a + 1))) at 1.
  rewrite map_seq_shift. apply map_ext_in. intros k _. lia.
Qed.

Lemma zrange_single a : zrange a a = [a].
Proof. unfold zrange. replace (Z.to_nat (a - a + 1)) with 1%nat by lia. cbn [seq map]. f_equal. lia. Qed.

Lemma batches_prefix S0 E0 nc (K : nat) :
  0 < nc -> S0 <= E0 -> Z.of_nat K * nc + S0 <= E0 ->
  flat_map (fun b => zrange (b * nc + S0) (Z.min ((b + 1) * nc + S0 - 1) E0)) (zrange 0 (Z.of_nat K))
  = zrange S0 (Z.min ((Z.of_nat K + 1) * nc + S0 - 1) E0).
Proof.
  intros Hnc HSE. induction K as [|K IH]; intros HK.
  - change (Z.of_nat 0) with 0. rewrite zrange_single. cbn [flat_map]. rewrite app_nil_r.
    f_equal; lia.
  - rewrite <- (zrange_app 0 (Z.of_nat K) (Z.of_nat (S K))) by lia.
    rewrite flat_map_app. rewrite IH by nia.
    replace (Z.of_nat K + 1) with (Z.of_nat (S K)) by lia. rewrite zrange_single.
    cbn [flat_map]. rewrite app_nil_r.
    set (m := Z.of_nat (S K) * nc + S0 - 1).
    replace (Z.min m E0) with m by (unfold m; lia).
    replace (Z.of_nat (S K) * nc + S0) with (m + 1) by (unfold m; lia).
    apply zrange_app; unfold m; nia.
Qed.

Lemma batch_ts_eq S0 E0 nc : 0 < nc -> S0 <= E0 -> batch_ts S0 E0 nc = zrange S0 E0.
Proof.
  intros Hnc HSE. unfold batch_ts.
  destruct (divmod_spec (E0 - S0) nc Hnc) as [E1 R1].
  assert (0 <= (E0 - S0) / nc) by (apply Z.div_pos; lia).
  rewrite <- (Z2Nat.id ((E0 - S0) / nc)) by assumption.
  rewrite batches_prefix; try lia.
  f_equal. rewrite Z2Nat.id by assumption. nia.
Qed.
