(* Two-dimensional decomposition (products of row and column intervals), the
   element-level result of running the copies, and its equality with the
   specification of parsec_redistribute. *)
From Coq Require Import ZArith List Bool Lia FinFun.
From PV Require Import Redist.RedistDefs Redist.RedistDim.
Import ListNotations.
Local Open Scope Z_scope.

(* ---- two dimensions --------------------------------------------------------- *)

Lemma wf_facts c : wf c ->
  wf1 (rd c) /\ wf1 (cd c) /\ 0 < num_cols c /\
  dY (rd c) + sz (rd c) <= lmtY c * bY (rd c) /\ dY (cd c) + sz (cd c) <= lntY c * bY (cd c) /\
  dT (rd c) + sz (rd c) <= lmtT c * bT (rd c) /\ dT (cd c) + sz (cd c) <= lntT c * bT (cd c).
Proof.
  intros (Ha & B1 & B2 & B3 & B4). unfold accept in Ha.
  repeat (apply andb_true_iff in Ha; destruct Ha as [Ha ?]).
  repeat match goal with H : negb _ = true |- _ => apply negb_true_iff in H end.
  repeat match goal with H : (_ || _) = false |- _ => apply orb_false_iff in H; destruct H end.
  repeat match goal with
         | H : (_ <? _) = false |- _ => apply Z.ltb_ge in H
         | H : (_ >? _) = false |- _ => rewrite Z.gtb_ltb in H; apply Z.ltb_ge in H
         | H : (_ <=? _) = false |- _ => apply Z.leb_gt in H end.
  unfold wf1. repeat split; lia.
Qed.

Lemma START_le_END d : wf1 d -> t_START d <= t_END d.
Proof.
  intros (_ & HbT & Hsz & _ & HdT). unfold t_START, t_END. apply Z.div_le_mono; lia.
Qed.

Lemma row_exact c : wf c -> exact1 (rd c) (row_segs c).
Proof.
  intros Hwf. destruct (wf_facts c Hwf) as (W1 & _).
  assert (Hts : forall t, In t (row_ts (rd c)) <-> t_START (rd c) <= t <= t_END (rd c))
    by (intros t; apply in_zrange).
  unfold row_segs. destruct (use_reshuffle c) eqn:E.
  - unfold use_reshuffle in E. repeat (apply andb_true_iff in E; destruct E as [E ?]).
    repeat match goal with H : (_ =? _) = true |- _ => apply Z.eqb_eq in H end.
    apply rs_exact1; auto. apply NoDup_zrange.
  - apply gen_exact1; auto. apply NoDup_zrange.
Qed.

Lemma col_exact c : wf c -> exact1 (cd c) (col_segs c).
Proof.
  intros Hwf. destruct (wf_facts c Hwf) as (_ & W2 & Hnc & _).
  assert (Ets : col_ts (cd c) (num_cols c) = zrange (t_START (cd c)) (t_END (cd c))).
  { unfold col_ts. apply batch_ts_eq; [exact Hnc|apply START_le_END; exact W2]. }
  assert (Hts : forall t, In t (col_ts (cd c) (num_cols c)) <-> t_START (cd c) <= t <= t_END (cd c))
    by (intros t; rewrite Ets; apply in_zrange).
  assert (Hnd : NoDup (col_ts (cd c) (num_cols c))) by (rewrite Ets; apply NoDup_zrange).
  unfold col_segs. destruct (use_reshuffle c) eqn:E.
  - unfold use_reshuffle in E. repeat (apply andb_true_iff in E; destruct E as [E ?]).
    repeat match goal with H : (_ =? _) = true |- _ => apply Z.eqb_eq in H end.
    apply rs_exact1; auto.
  - apply gen_exact1; auto.
Qed.

Lemma in_rect_cells c r ti tj si sj :
  In ((ti, tj), (si, sj)) (rect_cells c r) <->
  In (ti, si) (seg_cells (rd c) (fst r)) /\ In (tj, sj) (seg_cells (cd c) (snd r)).
Proof.
  unfold rect_cells. rewrite in_map_iff. split.
  - intros ([[a b] [a' b']] & E & H). cbn in E. injection E as -> -> -> ->.
    apply in_prod_iff in H. exact H.
  - intros H. exists ((ti, si), (tj, sj)). split; [reflexivity|]. apply in_prod_iff. exact H.
Qed.

Lemma in_cells c ti tj si sj :
  In ((ti, tj), (si, sj)) (cells c) <->
  exists r s, In r (row_segs c) /\ In s (col_segs c) /\
              In (ti, si) (seg_cells (rd c) r) /\ In (tj, sj) (seg_cells (cd c) s).
Proof.
  unfold cells, copies. rewrite in_flat_map. split.
  - intros ([r s] & Hp & Hc). apply in_prod_iff in Hp. apply in_rect_cells in Hc. cbn in Hc.
    exists r, s. tauto.
  - intros (r & s & Hr & Hs & H1 & H2). exists (r, s). split; [apply in_prod_iff; auto|].
    apply in_rect_cells. auto.
Qed.

(* the element writes are exactly the window, each from the position the specification names *)
Lemma cells_exact c ti tj si sj :
  wf c ->
  (In ((ti, tj), (si, sj)) (cells c) <->
   dT (rd c) <= ti < dT (rd c) + sz (rd c) /\ dT (cd c) <= tj < dT (cd c) + sz (cd c) /\
   si = ti - dT (rd c) + dY (rd c) /\ sj = tj - dT (cd c) + dY (cd c)).
Proof.
  intros Hwf. destruct (row_exact c Hwf) as (_ & _ & RS & RC & _).
  destruct (col_exact c Hwf) as (_ & _ & CS & CC & _).
  rewrite in_cells. split.
  - intros (r & s & Hr & Hs & H1 & H2).
    destruct (RS r ti si Hr H1). destruct (CS s tj sj Hs H2). tauto.
  - intros (H1 & H2 & -> & ->).
    destruct (RC ti H1) as (r & Hr & Hc1). destruct (CC tj H2) as (s & Hs & Hc2).
    exists r, s. auto.
Qed.

Lemma NoDup_map_inj {A B} (f : A -> B) l a b :
  NoDup (map f l) -> In a l -> In b l -> f a = f b -> a = b.
Proof.
  induction l as [|x l IH]; intros Hnd Ha Hb E; [contradiction|].
  cbn [map] in Hnd. inversion Hnd as [|? ? Hx Hnd']; subst.
  destruct Ha as [->|Ha]; destruct Hb as [->|Hb]; auto.
  - exfalso. apply Hx. rewrite E. apply in_map. exact Hb.
  - exfalso. apply Hx. rewrite <- E. apply in_map. exact Ha.
Qed.

Lemma list_prod_flat_map {A B} (X : list A) (Y : list B) :
  list_prod X Y = flat_map (fun x => map (pair x) Y) X.
Proof. induction X as [|x X IH]; [reflexivity|]. cbn. rewrite IH. reflexivity. Qed.

Lemma NoDup_prod_key {A B KA KB} (ka : A -> KA) (kb : B -> KB) X Y :
  NoDup (map ka X) -> NoDup (map kb Y) ->
  NoDup (map (fun p => (ka (fst p), kb (snd p))) (list_prod X Y)).
Proof.
  intros HX HY. rewrite list_prod_flat_map. apply NoDup_flat_map_key.
  - apply NoDup_map_inv in HX. exact HX.
  - intros a _. rewrite map_map. cbn [fst snd].
    rewrite <- (map_map kb (fun k => (ka a, k))). apply Injective_map_NoDup; [|exact HY].
    intros u v E. injection E. auto.
  - intros a b x y Ha Hb Hx Hy E. apply in_map_iff in Hx. apply in_map_iff in Hy.
    destruct Hx as (u & <- & _). destruct Hy as (v & <- & _). cbn in E. injection E as E _.
    apply (NoDup_map_inj ka X); auto.
Qed.

Lemma NoDup_list_prod {A B} (X : list A) (Y : list B) : NoDup X -> NoDup Y -> NoDup (list_prod X Y).
Proof.
  intros HX HY. rewrite <- (map_id X) in HX. rewrite <- (map_id Y) in HY.
  pose proof (NoDup_prod_key id id X Y HX HY) as H.
  erewrite map_ext in H; [rewrite map_id in H; exact H|].
  intros [a b]. reflexivity.
Qed.

Lemma NoDup_copies c : wf c -> NoDup (copies c).
Proof.
  intros Hwf. apply NoDup_list_prod; [apply (row_exact c Hwf)|apply (col_exact c Hwf)].
Qed.

(* two different sub-blocks never write the same target entry *)
Lemma copies_disjoint c r1 r2 i j u v :
  wf c -> In r1 (copies c) -> In r2 (copies c) ->
  In ((i, j), u) (rect_cells c r1) -> In ((i, j), v) (rect_cells c r2) -> r1 = r2.
Proof.
  intros Hwf H1 H2 C1 C2. destruct r1 as [a1 b1], r2 as [a2 b2], u as [u1 u2], v as [v1 v2].
  unfold copies in *. apply in_prod_iff in H1. apply in_prod_iff in H2.
  apply in_rect_cells in C1. apply in_rect_cells in C2. cbn in C1, C2.
  destruct (row_exact c Hwf) as (_ & _ & _ & _ & RD). destruct (col_exact c Hwf) as (_ & _ & _ & _ & CD).
  f_equal; [eapply RD|eapply CD]; try tauto; [apply C1|apply C2|apply C1|apply C2].
Qed.

(* every target entry is written at most once *)
Lemma cells_NoDup c : wf c -> NoDup (map fst (cells c)).
Proof.
  intros Hwf. unfold cells. apply NoDup_flat_map_key.
  - apply NoDup_copies; exact Hwf.
  - intros [r s] _. unfold rect_cells. rewrite map_map. cbn [fst snd].
    apply (NoDup_prod_key fst fst); apply NoDup_seg_cells_fst.
  - intros r1 r2 [[i j] u] [[i' j'] v] H1 H2 C1 C2 E. cbn in E. injection E as <- <-.
    eapply copies_disjoint; eauto.
Qed.

(* ---- element level ------------------------------------------------------------ *)
Definition hit (i j : Z) (w : (Z * Z) * (Z * Z)) : bool := (fst (fst w) =? i) && (snd (fst w) =? j).

Lemma hit_true i j w : hit i j w = true <-> fst w = (i, j).
Proof.
  unfold hit. destruct w as [[a b] u]. cbn. rewrite andb_true_iff, !Z.eqb_eq. split.
  - intros [-> ->]. reflexivity.
  - intros E. injection E. auto.
Qed.

Lemma exec_char ws src T i j v :
  (forall w, In w ws -> fst w = (i, j) -> src (fst (snd w)) (snd (snd w)) = v) ->
  exec ws src T i j = if existsb (hit i j) ws then v else T i j.
Proof.
  unfold exec. revert T. induction ws as [|w ws IH]; intros T H; [reflexivity|].
  cbn [fold_left existsb]. rewrite IH by (intros w' Hw'; apply H; right; exact Hw').
  destruct (existsb (hit i j) ws); [rewrite orb_true_r; reflexivity|]. rewrite orb_false_r.
  unfold write. fold (hit i j w). destruct (hit i j w) eqn:E; [|reflexivity].
  apply H; [left; reflexivity|apply hit_true; exact E].
Qed.

Lemma in_window_true c i j :
  in_window c i j = true <->
  dT (rd c) <= i < dT (rd c) + sz (rd c) /\ dT (cd c) <= j < dT (cd c) + sz (cd c).
Proof.
  unfold in_window. rewrite !andb_true_iff, !Z.leb_le, !Z.ltb_lt. tauto.
Qed.

(* the run of the element writes is the specification *)
Lemma exec_spec c src tgt i j : wf c -> exec (cells c) src tgt i j = spec c src tgt i j.
Proof.
  intros Hwf. unfold spec.
  rewrite (exec_char (cells c) src tgt i j
             (src (i - dT (rd c) + dY (rd c)) (j - dT (cd c) + dY (cd c)))).
  - destruct (in_window c i j) eqn:W.
    + apply in_window_true in W.
      replace (existsb (hit i j) (cells c)) with true; [reflexivity|].
      symmetry. apply existsb_exists.
      exists ((i, j), (i - dT (rd c) + dY (rd c), j - dT (cd c) + dY (cd c))). split.
      * apply cells_exact; [exact Hwf|tauto].
      * apply hit_true. reflexivity.
    + destruct (existsb (hit i j) (cells c)) eqn:X; [|reflexivity]. exfalso.
      apply existsb_exists in X. destruct X as ([[a b] [u v]] & Hin & Hh).
      apply hit_true in Hh. cbn in Hh. injection Hh as -> ->.
      apply cells_exact in Hin; [|exact Hwf].
      assert (in_window c i j = true) by (apply in_window_true; tauto). congruence.
  - intros [[a b] [u v]] Hin E. cbn in E. injection E as -> ->. cbn.
    apply cells_exact in Hin; [|exact Hwf]. destruct Hin as (_ & _ & -> & ->). reflexivity.
Qed.

(* ... and it does not depend on the order in which the sub-blocks are copied *)
Lemma exec_any_order c ws src tgt i j :
  wf c -> (forall w, In w ws <-> In w (cells c)) -> exec ws src tgt i j = spec c src tgt i j.
Proof.
  intros Hwf Hperm. rewrite <- (exec_spec c src tgt i j Hwf).
  set (v := src (i - dT (rd c) + dY (rd c)) (j - dT (cd c) + dY (cd c))).
  assert (Hv : forall w, In w (cells c) -> fst w = (i, j) -> src (fst (snd w)) (snd (snd w)) = v).
  { intros [[a b] [u v']] Hin E. cbn in E. injection E as -> ->. cbn.
    apply cells_exact in Hin; [|exact Hwf]. destruct Hin as (_ & _ & -> & ->). reflexivity. }
  rewrite (exec_char ws src tgt i j v) by (intros w Hw; apply Hv; apply Hperm; exact Hw).
  rewrite (exec_char (cells c) src tgt i j v) by exact Hv.
  replace (existsb (hit i j) ws) with (existsb (hit i j) (cells c)); [reflexivity|].
  destruct (existsb (hit i j) ws) eqn:X.
  - apply existsb_exists in X. destruct X as (w & Hw & Hh). apply existsb_exists. exists w. split; [apply Hperm; exact Hw|exact Hh].
  - destruct (existsb (hit i j) (cells c)) eqn:X'; [|reflexivity].
    apply existsb_exists in X'. destruct X' as (w & Hw & Hh).
    assert (existsb (hit i j) ws = true) by (apply existsb_exists; exists w; split; [apply Hperm; exact Hw|exact Hh]).
    congruence.
Qed.

Lemma lookup_exec ws src tgt i j : lookup ws src tgt i j = exec ws src tgt i j.
Proof.
  unfold lookup, exec. induction ws as [|w ws IH] using rev_ind; [reflexivity|].
  rewrite rev_app_distr, fold_left_app. cbn [rev app find fold_left].
  unfold write at 1. destruct ((fst (fst w) =? i) && (snd (fst w) =? j)); [reflexivity|exact IH].
Qed.

Lemma observe_correct c :
  observe c =
  (fst (redistribute c pat_src pat_tgt),
   flat_map (fun i => map (fun j => snd (redistribute c pat_src pat_tgt) i j) (zrange 0 (lntT c * bT (cd c) - 1)))
            (zrange 0 (lmtT c * bT (rd c) - 1))).
Proof.
  unfold observe, redistribute. destruct (accept c); cbn [fst snd]; [|reflexivity].
  f_equal. apply flat_map_ext. intros i. apply map_ext. intros j.
  rewrite <- lookup_exec. reflexivity.
Qed.

(* every copied sub-block lies inside one source tile and one target tile that exist *)
Lemma seg_in_matrix d l s nY nT :
  wf1 d -> exact1 d l -> dY d + sz d <= nY * bY d -> dT d + sz d <= nT * bT d -> In s l ->
  seg_in_tiles d s /\ 0 <= s_t s < nT /\ 0 <= s_y s < nY.
Proof.
  intros (HbY & HbT & Hsz & HdY & HdT) (_ & HB & HS & _) HY HT Hs.
  pose proof (HB s Hs) as B. split; [exact B|]. destruct B as (B1 & B2 & B3 & B4 & B5).
  destruct (HS s (s_t s * bT d + s_dst s + 0) (s_y s * bY d + s_src s + 0) Hs) as (G & E).
  { apply in_seg_cells. exists 0. lia. }
  nia.
Qed.

Lemma copies_in_matrix c r s :
  wf c -> In (r, s) (copies c) ->
  (seg_in_tiles (rd c) r /\ 0 <= s_t r < lmtT c /\ 0 <= s_y r < lmtY c) /\
  (seg_in_tiles (cd c) s /\ 0 <= s_t s < lntT c /\ 0 <= s_y s < lntY c).
Proof.
  intros Hwf H. unfold copies in H. apply in_prod_iff in H. destruct H as (Hr & Hs).
  destruct (wf_facts c Hwf) as (W1 & W2 & _ & Y1 & Y2 & T1 & T2).
  split; [eapply seg_in_matrix; eauto using row_exact|eapply seg_in_matrix; eauto using col_exact].
Qed.

(* every dividend of the JDF expressions is non-negative: C's / and % are Z.div and Z.modulo there *)
Lemma dividends_nonneg d t :
  wf1 d -> t_START d <= t <= t_END d ->
  0 <= dT d /\ 0 <= sz d + dT d - 1 /\ 0 <= dY d /\
  (t <> t_START d -> 0 <= size_T d t /\ 0 <= size_T d t + dY d /\ 0 <= size_T d t + dY d + t_inner d t - 1) /\
  0 <= dY d + t_inner d t - 1 /\ 0 <= i_start d t + t_inner d t - 1.
Proof.
  intros Hwf Ht. destruct (tile_part d t Hwf Ht) as (P1 & P2 & P3 & P4 & P5 & P6).
  destruct (jdf_forms d t) as (F1 & _). pose proof Hwf as (HbY & HbT & Hsz & HdY & HdT).
  assert (0 <= i_start d t) by (rewrite F1; apply Z.mod_pos_bound; lia).
  unfold lo in P1. repeat split; try lia; destruct (t =? t_START d) eqn:E;
    try (apply Z.eqb_eq in E; congruence); lia.
Qed.

Lemma refused c src tgt : accept c = false -> redistribute c src tgt = (false, tgt).
Proof. intros H. unfold redistribute. rewrite H. reflexivity. Qed.
