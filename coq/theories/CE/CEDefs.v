(* C14 — communication engine (parsec/parsec_mpi_funnelled.c): executable model, no proofs.

   Layer A  the slot bookkeeping of one process: per-tag tested windows backed by a pool of
            posted persistent receives (mpi_funnelled_refill_am_requests), the dynamic region
            of array_of_requests with its compaction (mpi_no_thread_progress), the two
            pending FIFOs (mpi_no_thread_push_posted_req), the receive-share counter.
   Layer B  one AM tag on top of an abstract MPI: per-source FIFO channels, matching in the
            order the persistent receives were started, completion reported by an oracle.
   Tags     next_tag with its roll-over.

   Layout.  array_of_requests / array_of_callbacks (moved together everywhere in the C code) is
            [ window of tag t0 | window of tag t1 | ... | dynamic region | unused ]
            |<------------ mpi_funnelled_static_req_idx ---->|
            |<------------ mpi_funnelled_last_active_req ------------------>|
   The model keeps the windows and the active part of the dynamic region as separate lists;
   [flat] is the array that MPI_Testsome sees. *)
From Coq Require Import List Arith Bool ZArith Lia.
Import ListNotations.

(* ------------------------------------------------------------------ *)
(** * Small list helpers *)

Fixpoint set_nth {A} (n : nat) (x : A) (l : list A) : list A :=
  match l with
  | [] => []
  | y :: r => match n with 0 => x :: r | S n' => y :: set_nth n' x r end
  end.

Fixpoint somes {A} (l : list (option A)) : list A :=
  match l with
  | [] => []
  | Some x :: r => x :: somes r
  | None :: r => somes r
  end.

(* ------------------------------------------------------------------ *)
(** * Layer A: one tag's tested window *)

(* mpi_funnelled_tag_t: req_count = w_P, tested_count = length w_slots,
   reqs_in_testsome = w_ints, req_idx = w_ridx.  A slot holds the index (storage2) of the
   persistent receive whose handle sits there, or None for MPI_REQUEST_NULL. *)
Record tagw := mkw {
  w_tag : nat;
  w_P : nat;
  w_ridx : nat;
  w_ints : list bool;
  w_slots : list (option nat)
}.

(* the search loop of mpi_funnelled_refill_am_requests:
     for (i = 0; i < req_count; i++) { if (!in_testsome[req_idx]) break; req_idx = (req_idx+1) % req_count; } *)
Fixpoint find_free (ints : list bool) (P ridx fuel : nat) : nat :=
  match fuel with
  | 0 => ridx
  | S f => if nth ridx ints false then find_free ints P ((ridx + 1) mod P) f else ridx
  end.

(* fill the empty tail of the window from the pool (mpi_funnelled_set_am_request_slot) *)
Fixpoint fill (n : nat) (w : tagw) : tagw :=
  match n with
  | 0 => w
  | S n' =>
      let r := find_free (w_ints w) (w_P w) (w_ridx w) (w_P w) in
      fill n' (mkw (w_tag w) (w_P w) ((r + 1) mod w_P w) (set_nth r true (w_ints w))
                   (w_slots w ++ [Some r]))
  end.

(* pack the surviving requests to the front, keeping their order, then refill *)
Definition refill_w (w : tagw) : tagw :=
  let live := map (@Some nat) (somes (w_slots w)) in
  fill (length (w_slots w) - length live)
       (mkw (w_tag w) (w_P w) (w_ridx w) (w_ints w) live).

(* parsec_ce_rebuild_am_requests for a tag in state ENABLE: P receives started, the first T tested *)
Definition init_w (tag P T : nat) : tagw :=
  mkw tag P (T mod P) (map (fun i => i <? T) (seq 0 P)) (map (@Some nat) (seq 0 T)).

(* serving the AM in window slot o: MPI_Start, reqs_in_testsome := false, slot := MPI_REQUEST_NULL *)
Definition release_w (w : tagw) (o : nat) : tagw :=
  match nth o (w_slots w) None with
  | Some i => mkw (w_tag w) (w_P w) (w_ridx w) (set_nth i false (w_ints w)) (set_nth o None (w_slots w))
  | None => w
  end.

(* ------------------------------------------------------------------ *)
(** * Layer A: the engine of one process *)

(* a dynamic request: (is_dynamic_recv, serial number of the MPI_Irecv / MPI_Isend) *)
Definition dreq := (bool * nat)%type.

Record eng := mke {
  e_ws : list tagw;            (* active tags, in tag order *)
  e_dyn : list (option dreq);  (* slots static_req_idx .. last_active_req-1 *)
  e_D : nat;                   (* runtime_comm_mpi_dynamic_requests *)
  e_R : nat;                   (* runtime_comm_mpi_dynamic_recv_requests *)
  e_nrecv : nat;               (* mpi_funnelled_num_recv_req_in_arr *)
  e_sendq : list nat;          (* mpi_funnelled_dynamic_sendreq_fifo *)
  e_recvq : list nat;          (* mpi_funnelled_dynamic_recvreq_fifo *)
  e_ns : nat;                  (* sends issued so far *)
  e_nr : nat                   (* receives issued so far *)
}.

Definition static_sz (e : eng) : nat := fold_right (fun w a => length (w_slots w) + a) 0 (e_ws e).
Definition last_active (e : eng) : nat := static_sz e + length (e_dyn e).

Definition init_eng (tags : list nat) (P T D R : nat) : eng :=
  mke (map (fun t => init_w t P T) tags) [] D R 0 [] [] 0 0.

(* what a callback, or the application between two progress calls, asks of the engine:
   OSend: a data send (origin of a put, target of a get); ORecv: a data receive *)
Inductive op := OSend | ORecv.

(* mpi_no_thread_put / mpi_funnelled_internal_get_am_callback: Isend in the array when
   last_active_req < current_size_of_total_reqs, else queued *)
Definition issue_send (e : eng) : eng :=
  if length (e_dyn e) <? e_D e
  then mke (e_ws e) (e_dyn e ++ [Some (false, e_ns e)]) (e_D e) (e_R e) (e_nrecv e) (e_sendq e) (e_recvq e) (S (e_ns e)) (e_nr e)
  else mke (e_ws e) (e_dyn e) (e_D e) (e_R e) (e_nrecv e) (e_sendq e ++ [e_ns e]) (e_recvq e) (S (e_ns e)) (e_nr e).

(* mpi_no_thread_get / mpi_funnelled_internal_put_am_callback: mpi_funnelled_can_post_dynamic_recv *)
Definition issue_recv (e : eng) : eng :=
  if (length (e_dyn e) <? e_D e) && (e_nrecv e <? e_R e)
  then mke (e_ws e) (e_dyn e ++ [Some (true, e_nr e)]) (e_D e) (e_R e) (S (e_nrecv e)) (e_sendq e) (e_recvq e) (e_ns e) (S (e_nr e))
  else mke (e_ws e) (e_dyn e) (e_D e) (e_R e) (e_nrecv e) (e_sendq e) (e_recvq e ++ [e_nr e]) (e_ns e) (S (e_nr e)).

Definition run_op (e : eng) (o : op) : eng := match o with OSend => issue_send e | ORecv => issue_recv e end.
Definition run_ops (e : eng) (l : list op) : eng := fold_left run_op l e.

(* position in the array -> (index of the tag window, offset) *)
Fixpoint locate (ws : list tagw) (pos : nat) : option (nat * nat) :=
  match ws with
  | [] => None
  | w :: r =>
      if pos <? length (w_slots w) then Some (0, pos)
      else match locate r (pos - length (w_slots w)) with Some (k, o) => Some (S k, o) | None => None end
  end.

Definition with_ws (e : eng) (ws : list tagw) : eng :=
  mke ws (e_dyn e) (e_D e) (e_R e) (e_nrecv e) (e_sendq e) (e_recvq e) (e_ns e) (e_nr e).
Definition with_dyn (e : eng) (d : list (option dreq)) (nrecv : nat) : eng :=
  mke (e_ws e) d (e_D e) (e_R e) nrecv (e_sendq e) (e_recvq e) (e_ns e) (e_nr e).

Definition dummy_w := mkw 0 0 0 [] [].

(* one iteration of the callback loop of mpi_no_thread_progress for array position pos;
   ops = what a user callback issued (the callbacks of the internal tags 0 (GET) and 1 (PUT)
   issue a send resp. a receive themselves) *)
Definition serve (e : eng) (r : nat * list op) : eng :=
  let (pos, ops) := r in
  match locate (e_ws e) pos with
  | Some (k, o) =>
      let w := nth k (e_ws e) dummy_w in
      match nth o (w_slots w) None with
      | None => e
      | Some _ =>
          let ops' := if w_tag w =? 0 then [OSend] else if w_tag w =? 1 then [ORecv] else ops in
          let e1 := run_ops e ops' in
          with_ws e1 (set_nth k (release_w w o) (e_ws e1))
      end
  | None =>
      let j := pos - static_sz e in
      match nth j (e_dyn e) None with
      | None => e
      | Some (isrecv, _) =>
          (* MPI_Testsome has replaced the handle by MPI_REQUEST_NULL; is_dynamic_recv => counter-- *)
          run_ops (with_dyn e (set_nth j None (e_dyn e)) (if isrecv then e_nrecv e - 1 else e_nrecv e)) ops
      end
  end.

(* the compaction loop, one completed position (visited from the last reported to the first) *)
Definition compact1 (st : nat) (d : list (option dreq)) (pos : nat) : list (option dreq) :=
  if pos <? st then d
  else
    let j := pos - st in
    match nth j d None with
    | Some _ => d
    | None =>
        let l := length d - 1 in
        if j <? l then set_nth j (nth l d None) (removelast d) else removelast d
    end.

(* mpi_no_thread_push_posted_req *)
Definition push_posted (e : eng) : option eng :=
  match (if e_nrecv e <? e_R e then e_recvq e else []) with
  | n :: q =>
      Some (mke (e_ws e) (e_dyn e ++ [Some (true, n)]) (e_D e) (e_R e) (S (e_nrecv e)) (e_sendq e) q (e_ns e) (e_nr e))
  | [] =>
      match e_sendq e with
      | n :: q => Some (mke (e_ws e) (e_dyn e ++ [Some (false, n)]) (e_D e) (e_R e) (e_nrecv e) q (e_recvq e) (e_ns e) (e_nr e))
      | [] => None
      end
  end.

(* feed_more_work *)
Fixpoint feed (fuel : nat) (e : eng) : eng :=
  match fuel with
  | 0 => e
  | S f =>
      if (length (e_dyn e) <? e_D e) && (negb (match e_sendq e with [] => true | _ => false end)
                                         || negb (match e_recvq e with [] => true | _ => false end))
      then match push_posted e with Some e' => feed f e' | None => e end
      else e
  end.

(* one pass of the do-while loop of mpi_no_thread_progress with outcount > 0:
   rep = the positions reported by MPI_Testsome, in the order of array_of_indices *)
Definition progress_iter (e : eng) (rep : list (nat * list op)) : eng :=
  let e1 := fold_left serve rep e in
  let e2 := with_ws e1 (map refill_w (e_ws e1)) in
  let e3 := with_dyn e2 (fold_left (compact1 (static_sz e2)) (rev (map fst rep)) (e_dyn e2)) (e_nrecv e2) in
  feed (length (e_sendq e3) + length (e_recvq e3)) e3.

(* the array as MPI_Testsome sees it: entries of positions 0 .. last_active_req-1 *)
Inductive entry := EAm (tag i : nat) | EDyn (isrecv : bool) (n : nat).
Definition flat (e : eng) : list (option entry) :=
  flat_map (fun w => map (option_map (EAm (w_tag w))) (w_slots w)) (e_ws e)
  ++ map (option_map (fun d : dreq => EDyn (fst d) (snd d))) (e_dyn e).

(* top-level events of one process, as recorded from the real run *)
Inductive ev := EvOp (o : op) | EvTest (rep : list (nat * list op)).
Definition step (e : eng) (x : ev) : eng :=
  match x with EvOp o => run_op e o | EvTest rep => progress_iter e rep end.

(* the arrays seen at the entry of each reporting Testsome call, and the final one *)
Fixpoint snapshots (e : eng) (l : list ev) : list (list (option entry)) :=
  match l with
  | [] => [flat e]
  | EvOp o :: r => snapshots (run_op e o) r
  | EvTest rep :: r => flat e :: snapshots (progress_iter e rep) r
  end.

(* ------------------------------------------------------------------ *)
(** * Layer B: one AM tag over an abstract MPI *)

Record msg := mkm { m_src : nat; m_seq : nat; m_body : list nat }.

Record amst := mka {
  a_w : tagw;
  a_posted : list (nat * option msg);   (* started persistent receives, oldest first; Some m: matched with m *)
  a_bufs : list (list nat);             (* am_backend_memory: one buffer per receive *)
  a_chan : list (list msg);             (* per source: sent and not yet matched, in order *)
  a_sent : list msg;                    (* every message handed to MPI_Send so far (specification only) *)
  a_deliv : list msg                    (* callback invocations: status source, sequence number, bytes read from the buffer *)
}.

Definition init_am (P T nsrc : nat) : amst :=
  mka (init_w 0 P T) (map (fun i => (i, None)) (seq 0 P)) (repeat [] P) (repeat [] nsrc) [] [].

Inductive aev :=
| ASend (src : nat) (body : list nat)      (* send_am on the source process *)
| AMatch (src : nat)                       (* MPI matches the oldest unmatched message of src *)
| AReport (sel : list nat).                (* MPI_Testsome reports these window slots *)

(* split the posting queue at the first unmatched receive *)
Fixpoint first_unmatched (l : list (nat * option msg)) : option (list (nat * option msg) * nat * list (nat * option msg)) :=
  match l with
  | [] => None
  | (i, None) :: r => Some ([], i, r)
  | x :: r => match first_unmatched r with Some (b, i, a) => Some (x :: b, i, a) | None => None end
  end.

Fixpoint lookup (i : nat) (l : list (nat * option msg)) : option (option msg) :=
  match l with
  | [] => None
  | (j, m) :: r => if j =? i then Some m else lookup i r
  end.
Definition drop_req (i : nat) (l : list (nat * option msg)) := filter (fun x => negb (fst x =? i)) l.

Definition count_from (s : nat) (l : list msg) : nat := length (filter (fun m => m_src m =? s) l).

(* callback on the message in window slot o, then MPI_Start of that receive *)
Definition aserve (st : amst) (o : nat) : amst :=
  match nth o (w_slots (a_w st)) None with
  | Some i =>
      match lookup i (a_posted st) with
      | Some (Some m) =>
          mka (release_w (a_w st) o)
              (drop_req i (a_posted st) ++ [(i, None)])
              (a_bufs st) (a_chan st) (a_sent st)
              (a_deliv st ++ [mkm (m_src m) (m_seq m) (nth i (a_bufs st) [])])
      | _ => st           (* not completed: MPI cannot report it *)
      end
  | None => st
  end.

Definition astep (st : amst) (x : aev) : amst :=
  match x with
  | ASend s b =>
      if s <? length (a_chan st) then
        let m := mkm s (count_from s (a_sent st)) b in
        mka (a_w st) (a_posted st) (a_bufs st) (set_nth s (nth s (a_chan st) [] ++ [m]) (a_chan st)) (a_sent st ++ [m]) (a_deliv st)
      else st
  | AMatch s =>
      match nth s (a_chan st) [] with
      | m :: r =>
          match first_unmatched (a_posted st) with
          | Some (b, i, a) =>
              mka (a_w st) (b ++ (i, Some m) :: a) (set_nth i (m_body m) (a_bufs st)) (set_nth s r (a_chan st)) (a_sent st) (a_deliv st)
          | None => st
          end
      | [] => st
      end
  | AReport sel =>
      let st1 := fold_left aserve sel st in
      mka (refill_w (a_w st1)) (a_posted st1) (a_bufs st1) (a_chan st1) (a_sent st1) (a_deliv st1)
  end.

Definition arun (st : amst) (l : list aev) : amst := fold_left astep l st.

(* matched, not yet handed to the callback *)
Definition pending (st : amst) : list msg := somes (map snd (a_posted st)).

(* per-source delivery order *)
Definition seqs_from (s : nat) (l : list msg) : list nat := map m_seq (filter (fun m => m_src m =? s) l).

(* ------------------------------------------------------------------ *)
(** * Tags of the data messages: next_tag(k) *)
Local Open Scope Z_scope.

(* returns (tag handed out, new value of __VAL_NEXT_TAG) *)
Definition next_tag (MAX k v : Z) : Z * Z :=
  let t := if v >? MAX - k then 0 else v in (t, t + k).

Fixpoint tags_from (MAX k v : Z) (n : nat) : list Z :=
  match n with
  | O => []
  | S n' => let (t, v') := next_tag MAX k v in t :: tags_from MAX k v' n'
  end.
