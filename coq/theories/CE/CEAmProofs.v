(* C14 — one AM tag over the abstract MPI: every message handed to the callback was sent,
   carries the bytes sent, and is handed over at most once; sent = delivered + pending + in flight.
   Holds for every event list: the oracle (AMatch / AReport) is not constrained at all — a report of a
   receive that is not complete is a no-op of the model (MPI cannot report it). *)
From Coq Require Import List Arith Bool Lia Permutation.
From PV Require Import Base.Tac CE.CEDefs.
Import ListNotations.

(* ------------------------------------------------------------------ *)
(** * list helpers *)

Lemma set_nth_length {A} n (x : A) l : length (set_nth n x l) = length l.
Proof. revert n; induction l as [|y l IH]; intros [|n]; cbn; auto. Qed.

Lemma nth_set_nth_eq {A} n (x d : A) l : n < length l -> nth n (set_nth n x l) d = x.
Proof. revert n; induction l as [|y l IH]; intros [|n] H; cbn in *; try lia; auto. apply IH; lia. Qed.

Lemma nth_set_nth_neq {A} n m (x d : A) l : n <> m -> nth m (set_nth n x l) d = nth m l d.
Proof. revert n m; induction l as [|y l IH]; intros [|n] [|m] H; cbn; auto; try lia. Qed.

Lemma somes_app {A} (a b : list (option A)) : somes (a ++ b) = somes a ++ somes b.
Proof. induction a as [|[x|] a IH]; cbn; auto. now rewrite IH. Qed.

Lemma somes_map_Some {A} (l : list A) : somes (map (@Some A) l) = l.
Proof. induction l; cbn; auto. now rewrite IHl. Qed.

Lemma concat_repeat_nil {A} n : concat (repeat (@nil A) n) = [].
Proof. induction n; cbn; auto. Qed.

Lemma concat_set_nth_snoc {A} s (x : A) l :
  s < length l -> Permutation (concat (set_nth s (nth s l [] ++ [x]) l)) (concat l ++ [x]).
Proof.
  revert s; induction l as [|y l IH]; intros [|s] H; cbn in *; try lia.
  - rewrite <- !app_assoc. apply Permutation_app_head. apply Permutation_app_comm.
  - rewrite <- app_assoc. apply Permutation_app_head. apply IH; lia.
Qed.

Lemma concat_set_nth_tail {A} s (m : A) r l :
  nth s l [] = m :: r -> Permutation (concat l) (m :: concat (set_nth s r l)).
Proof.
  revert s; induction l as [|y l IH]; intros [|s] H; cbn in *; try discriminate.
  - subst y. reflexivity.
  - rewrite (IH _ H). symmetry. apply Permutation_middle.
Qed.

(* ------------------------------------------------------------------ *)
(** * the posting queue *)

Lemma first_unmatched_spec l b i a :
  first_unmatched l = Some (b, i, a) -> l = b ++ (i, None) :: a.
Proof.
  revert b i a; induction l as [|[j [m|]] l IH]; intros b i a H; cbn in H; try discriminate.
  - destruct (first_unmatched l) as [[[b' i'] a']|] eqn:E; try discriminate.
    inv H. cbn. f_equal. now apply IH.
  - inv H. reflexivity.
Qed.

Lemma lookup_split i l x :
  NoDup (map fst l) -> lookup i l = Some x ->
  exists p1 p2, l = p1 ++ (i, x) :: p2 /\ drop_req i l = p1 ++ p2.
Proof.
  induction l as [|[j m] l IH]; intros Hn H; cbn in *; try discriminate.
  inv Hn. destruct (j =? i) eqn:E.
  - apply Nat.eqb_eq in E; subst j. inv H. exists [], l. split; auto.
    unfold drop_req. cbn. try rewrite Nat.eqb_refl. cbn.
    clear - H2. induction l as [|[k y] l IH]; cbn in *; auto.
    destruct (k =? i) eqn:E; cbn.
    + apply Nat.eqb_eq in E. exfalso; apply H2; auto.
    + f_equal. apply IH. intro; apply H2; auto.
  - destruct (IH H3 H) as (p1 & p2 & -> & Hd). exists ((j, m) :: p1), p2. split; auto.
    unfold drop_req in *. cbn. try rewrite E. cbn. f_equal. exact Hd.
Qed.

Lemma lookup_In i l x : lookup i l = Some x -> In (i, x) l.
Proof.
  induction l as [|[j m] l IH]; cbn; try discriminate.
  destruct (j =? i) eqn:E; intro H.
  - apply Nat.eqb_eq in E; subst. inv H. auto.
  - right; auto.
Qed.

Lemma pending_init P : somes (map snd (map (fun i : nat => (i, @None msg)) (seq 0 P))) = [].
Proof. generalize 0; induction P; intro s; cbn; auto. Qed.

(* ------------------------------------------------------------------ *)
(** * the invariant *)

Record AInv (st : amst) : Prop := {
  ai_nodup : NoDup (map fst (a_posted st));
  ai_buf : forall i m, In (i, Some m) (a_posted st) -> nth i (a_bufs st) [] = m_body m;
  ai_rng : forall i x, In (i, x) (a_posted st) -> i < length (a_bufs st);
  ai_perm : Permutation (a_sent st) (a_deliv st ++ pending st ++ concat (a_chan st));
  ai_sent : NoDup (a_sent st);
  ai_seq : forall m, In m (a_sent st) -> m_seq m < count_from (m_src m) (a_sent st)
}.

Lemma init_am_inv P T nsrc : AInv (init_am P T nsrc).
Proof.
  constructor; cbn.
  - rewrite map_map. cbn. rewrite map_id. apply seq_NoDup.
  - intros i m H. apply in_map_iff in H. destruct H as (j & E & _). discriminate.
  - intros i x H. apply in_map_iff in H. destruct H as (j & E & Hj). inv E.
    rewrite repeat_length. apply in_seq in Hj. lia.
  - unfold pending; cbn. rewrite pending_init, concat_repeat_nil. constructor.
  - constructor.
  - intros m [].
Qed.

Lemma count_from_app s a b : count_from s (a ++ b) = count_from s a + count_from s b.
Proof. unfold count_from. now rewrite filter_app, app_length. Qed.

Lemma aserve_inv st o : AInv st -> AInv (aserve st o).
Proof.
  intros I. unfold aserve.
  destruct (nth o (w_slots (a_w st)) None) as [i|]; auto.
  destruct (lookup i (a_posted st)) as [[m|]|] eqn:EL; auto.
  destruct (lookup_split _ _ _ (ai_nodup _ I) EL) as (p1 & p2 & Ep & Ed).
  assert (Hb : nth i (a_bufs st) [] = m_body m) by (apply (ai_buf _ I); now apply lookup_In).
  assert (Hn : NoDup (map fst (p1 ++ p2) ++ [i])).
  { pose proof (ai_nodup _ I) as H. rewrite Ep in H. rewrite map_app in H. cbn in H.
    rewrite map_app. rewrite <- app_assoc.
    eapply Permutation_NoDup; [|exact H].
    apply Permutation_app_head. apply Permutation_cons_append. }
  constructor; cbn [a_w a_posted a_bufs a_chan a_sent a_deliv].
  - rewrite Ed, map_app. cbn. exact Hn.
  - intros j m' H. rewrite Ed in H. apply in_app_or in H. destruct H as [H|[H|[]]]; [|discriminate].
    apply (ai_buf _ I). rewrite Ep. apply in_app_or in H. apply in_or_app. destruct H; [left|right; right]; auto.
  - intros j x H. rewrite Ed in H. apply in_app_or in H. destruct H as [H|[H|[]]].
    + apply (ai_rng _ I j x). rewrite Ep. apply in_app_or in H. apply in_or_app. destruct H; [left|right; right]; auto.
    + inv H. apply (ai_rng _ I j (Some m)). now apply lookup_In.
  - pose proof (ai_perm _ I) as H. unfold pending in *. cbn [a_posted]. rewrite Ep in H. rewrite Ed.
    rewrite !map_app, !somes_app in H. rewrite !map_app, !somes_app. cbn in *. rewrite app_nil_r.
    rewrite Hb. replace (mkm (m_src m) (m_seq m) (m_body m)) with m by (destruct m; reflexivity).
    rewrite H. rewrite <- !app_assoc. apply Permutation_app_head. cbn.
    symmetry. apply Permutation_middle.
  - apply (ai_sent _ I).
  - apply (ai_seq _ I).
Qed.

Lemma astep_inv st x : AInv st -> AInv (astep st x).
Proof.
  intros I. destruct x as [s b|s|sel]; cbn [astep].
  - (* send *)
    destruct (s <? length (a_chan st)) eqn:E; auto. apply Nat.ltb_lt in E.
    set (m := mkm s (count_from s (a_sent st)) b).
    constructor; cbn [a_w a_posted a_bufs a_chan a_sent a_deliv].
    + apply (ai_nodup _ I).
    + apply (ai_buf _ I).
    + apply (ai_rng _ I).
    + unfold pending; cbn.
      eapply Permutation_trans; [apply Permutation_app_tail, (ai_perm _ I)|].
      unfold pending. rewrite <- !app_assoc. do 2 apply Permutation_app_head.
      symmetry. apply (concat_set_nth_snoc s m _ E).
    + eapply Permutation_NoDup; [apply Permutation_cons_append|].
      constructor; [|apply (ai_sent _ I)].
      intro H. pose proof (ai_seq _ I m H) as Hs. cbn in Hs. lia.
    + intros m' H. rewrite count_from_app. apply in_app_or in H. destruct H as [H|[H|[]]].
      * pose proof (ai_seq _ I _ H). lia.
      * subst m'. cbn. rewrite Nat.eqb_refl. cbn. lia.
  - (* match *)
    destruct (nth s (a_chan st) []) as [|m r] eqn:EC; auto.
    destruct (first_unmatched (a_posted st)) as [[[bq i] aq]|] eqn:EF; auto.
    pose proof (first_unmatched_spec _ _ _ _ EF) as Ep.
    assert (Hi : i < length (a_bufs st)) by (apply (ai_rng _ I i None); rewrite Ep; apply in_or_app; right; left; auto).
    assert (Hni : ~ In i (map fst (bq ++ aq))).
    { pose proof (ai_nodup _ I) as H. rewrite Ep, map_app in H. cbn in H. apply NoDup_remove_2 in H. now rewrite map_app. }
    constructor; cbn [a_w a_posted a_bufs a_chan a_sent a_deliv].
    + pose proof (ai_nodup _ I) as H. rewrite Ep in H. rewrite !map_app in *. exact H.
    + intros j m' H. apply in_app_or in H. destruct H as [H|[H|H]].
      * rewrite nth_set_nth_neq. { apply (ai_buf _ I). rewrite Ep. apply in_or_app; auto. }
        intro; subst j. apply Hni. rewrite map_app. apply in_or_app. left. apply (in_map fst) in H. exact H.
      * inv H. now apply nth_set_nth_eq.
      * rewrite nth_set_nth_neq. { apply (ai_buf _ I). rewrite Ep. apply in_or_app; right; right; auto. }
        intro; subst j. apply Hni. rewrite map_app. apply in_or_app. right. apply (in_map fst) in H. exact H.
    + intros j x H. rewrite set_nth_length. apply in_app_or in H. destruct H as [H|[H|H]].
      * apply (ai_rng _ I j x). rewrite Ep. apply in_or_app; auto.
      * inv H. exact Hi.
      * apply (ai_rng _ I j x). rewrite Ep. apply in_or_app; right; right; auto.
    + pose proof (ai_perm _ I) as H. unfold pending in *. cbn [a_posted]. rewrite Ep in H.
      rewrite !map_app, !somes_app in H. rewrite !map_app, !somes_app. cbn in *.
      rewrite H. apply Permutation_app_head.
      rewrite <- !app_assoc. apply Permutation_app_head. cbn.
      rewrite (concat_set_nth_tail _ _ _ _ EC).
      symmetry. apply Permutation_middle.
    + apply (ai_sent _ I).
    + apply (ai_seq _ I).
  - (* report *)
    assert (H : AInv (fold_left aserve sel st)) by (apply fold_left_inv; auto; intros; now apply aserve_inv).
    destruct H; constructor; auto.
Qed.

Lemma arun_inv st l : AInv st -> AInv (arun st l).
Proof. apply fold_left_inv. intros; now apply astep_inv. Qed.

(* ------------------------------------------------------------------ *)
(** * theorems *)

Theorem am_conservation P T nsrc evs :
  let st := arun (init_am P T nsrc) evs in
  Permutation (a_sent st) (a_deliv st ++ pending st ++ concat (a_chan st)).
Proof. cbn. apply ai_perm, arun_inv, init_am_inv. Qed.

Theorem am_delivered_was_sent P T nsrc evs m :
  In m (a_deliv (arun (init_am P T nsrc) evs)) -> In m (a_sent (arun (init_am P T nsrc) evs)).
Proof.
  intro H. eapply Permutation_in; [symmetry; apply am_conservation|]. apply in_or_app; auto.
Qed.

Theorem am_no_duplicate P T nsrc evs : NoDup (a_deliv (arun (init_am P T nsrc) evs)).
Proof.
  pose proof (arun_inv _ evs (init_am_inv P T nsrc)) as I.
  pose proof (Permutation_NoDup (ai_perm _ I) (ai_sent _ I)) as H.
  clear - H. induction (a_deliv (arun (init_am P T nsrc) evs)) as [|x l IH]; [constructor|].
  cbn in H. inv H. constructor; [|now apply IH].
  intro Hx. apply H2. apply in_or_app; auto.
Qed.

Theorem am_quiescent P T nsrc evs :
  let st := arun (init_am P T nsrc) evs in
  pending st = [] -> concat (a_chan st) = [] -> Permutation (a_sent st) (a_deliv st).
Proof.
  cbn. intros Hp Hc. pose proof (am_conservation P T nsrc evs) as H. cbn in H.
  now rewrite Hp, Hc, !app_nil_r in H.
Qed.

