(* C14 — the tested window of an AM tag (mpi_funnelled_refill_am_requests): packing and
   refilling never drops or duplicates a posted receive. *)
From Coq Require Import List Arith Bool Lia Permutation.
From PV Require Import Base.Tac CE.CEDefs CE.CEAmProofs.
Import ListNotations.

(* a window is consistent when reqs_in_testsome describes exactly the receives that sit in its
   slots, each at most once *)
Definition Wok (w : tagw) : Prop :=
  length (w_ints w) = w_P w /\ length (w_slots w) <= w_P w /\ w_ridx w < w_P w /\
  NoDup (somes (w_slots w)) /\
  (forall i, In i (somes (w_slots w)) <-> (i < w_P w /\ nth i (w_ints w) false = true)).

Definition Wfull (w : tagw) : Prop := Forall (fun s => s <> None) (w_slots w).

Lemma somes_length_le {A} (l : list (option A)) : length (somes l) <= length l.
Proof. induction l as [|[x|] l IH]; cbn; lia. Qed.

(* ------------------------------------------------------------------ *)
(** * the cyclic search *)

Lemma find_free_spec ints P fuel : forall r,
  0 < P -> r < P ->
  (exists j, j < fuel /\ nth ((r + j) mod P) ints false = false) ->
  find_free ints P r fuel < P /\ nth (find_free ints P r fuel) ints false = false.
Proof.
  induction fuel as [|f IH]; intros r HP Hr (j & Hj & Hn); [lia|].
  cbn [find_free]. destruct (nth r ints false) eqn:E; [|auto].
  apply IH; auto. { apply Nat.mod_upper_bound; lia. }
  destruct j as [|j].
  - rewrite Nat.add_0_r, Nat.mod_small in Hn by lia. congruence.
  - exists j. split; [lia|]. rewrite Nat.add_mod_idemp_l by lia.
    replace (r + 1 + j) with (r + S j) by lia. exact Hn.
Qed.

Lemma cyclic_cover P r i : r < P -> i < P -> exists j, j < P /\ (r + j) mod P = i.
Proof.
  intros Hr Hi. destruct (le_lt_dec r i).
  - exists (i - r). split; [lia|]. replace (r + (i - r)) with i by lia. apply Nat.mod_small; lia.
  - exists (i + P - r). split; [lia|]. replace (r + (i + P - r)) with (i + 1 * P) by lia.
    rewrite Nat.mod_add by lia. apply Nat.mod_small; lia.
Qed.

Lemma free_exists w : Wok w -> length (w_slots w) < w_P w ->
  exists i, i < w_P w /\ nth i (w_ints w) false = false.
Proof.
  intros (Hl & _ & _ & Hnd & Hiff) Hlt.
  destruct (existsb (fun i => negb (nth i (w_ints w) false)) (seq 0 (w_P w))) eqn:E.
  - apply existsb_exists in E. destruct E as (i & Hi & Hn). apply in_seq in Hi.
    exists i. split; [lia|]. destruct (nth i (w_ints w) false); auto; discriminate.
  - exfalso.
    assert (Hinc : incl (seq 0 (w_P w)) (somes (w_slots w))).
    { intros i Hi. apply Hiff. apply in_seq in Hi. split; [lia|].
      destruct (nth i (w_ints w) false) eqn:En; auto. exfalso.
      assert (existsb (fun i => negb (nth i (w_ints w) false)) (seq 0 (w_P w)) = true).
      { apply existsb_exists. exists i. split; [apply in_seq; lia|]. now rewrite En. }
      congruence. }
    pose proof (NoDup_incl_length (seq_NoDup (w_P w) 0) Hinc) as Hc. rewrite seq_length in Hc.
    pose proof (somes_length_le (w_slots w)). lia.
Qed.

(* ------------------------------------------------------------------ *)
(** * fill, refill, release, init *)

Lemma fill_ok n : forall w, Wok w -> length (w_slots w) + n <= w_P w ->
  Wok (fill n w) /\ w_P (fill n w) = w_P w /\ w_tag (fill n w) = w_tag w /\
  exists picks, w_slots (fill n w) = w_slots w ++ map (@Some nat) picks /\ length picks = n.
Proof.
  induction n as [|n IH]; intros w Hw Hlen.
  - cbn. split; [auto|split; [auto|split; [auto|]]]. exists []. now rewrite app_nil_r.
  - cbn [fill].
    set (r := find_free (w_ints w) (w_P w) (w_ridx w) (w_P w)).
    destruct Hw as (Hl & Hsl & Hr & Hnd & Hiff).
    assert (HP : 0 < w_P w) by lia.
    assert (Hfree : r < w_P w /\ nth r (w_ints w) false = false).
    { apply find_free_spec; auto.
      assert (Hwk : Wok w) by (unfold Wok; auto).
      assert (Hlt : length (w_slots w) < w_P w) by lia.
      destruct (free_exists w Hwk Hlt) as (i & Hi & Hn).
      destruct (cyclic_cover (w_P w) (w_ridx w) i Hr Hi) as (j & Hj & Ej).
      exists j. split; auto. now rewrite Ej. }
    destruct Hfree as (HrP & Hrf).
    assert (Hnot : ~ In r (somes (w_slots w))) by (intro H; apply Hiff in H; destruct H; congruence).
    set (w1 := mkw (w_tag w) (w_P w) ((r + 1) mod w_P w) (set_nth r true (w_ints w)) (w_slots w ++ [Some r])).
    assert (Hw1 : Wok w1).
    { unfold Wok, w1; cbn. repeat split.
      - now rewrite set_nth_length.
      - rewrite app_length; cbn; lia.
      - apply Nat.mod_upper_bound; lia.
      - rewrite somes_app; cbn. eapply Permutation_NoDup; [apply Permutation_cons_append|]. now constructor.
      - rewrite somes_app in H; cbn in H. apply in_app_or in H. destruct H as [H|[H|[]]].
        + now apply Hiff in H.
        + now subst.
      - rewrite somes_app in H; cbn in H. apply in_app_or in H. destruct H as [H|[H|[]]].
        + destruct (Nat.eq_dec r i) as [->|Hne]; [contradiction|].
          rewrite nth_set_nth_neq by auto. now apply Hiff in H.
        + subst. apply nth_set_nth_eq. lia.
      - intros (Hi & Hn). rewrite somes_app; cbn. apply in_or_app.
        destruct (Nat.eq_dec r i) as [->|Hne]; [right; left; auto|].
        left. apply Hiff. split; auto. now rewrite nth_set_nth_neq in Hn by auto. }
    assert (Hl1 : length (w_slots w1) + n <= w_P w1) by (unfold w1; cbn; rewrite app_length; cbn; lia).
    destruct (IH w1 Hw1 Hl1) as (Hok & HP' & Ht' & picks & Hs & Hlp).
    split; [auto|split; [auto|split; [auto|]]].
    exists (r :: picks). split; [|cbn; lia].
    rewrite Hs. unfold w1; cbn. now rewrite <- app_assoc.
Qed.

Lemma refill_ok w : Wok w ->
  Wok (refill_w w) /\ Wfull (refill_w w) /\ length (w_slots (refill_w w)) = length (w_slots w) /\
  w_P (refill_w w) = w_P w /\ w_tag (refill_w w) = w_tag w /\
  exists picks, somes (w_slots (refill_w w)) = somes (w_slots w) ++ picks.
Proof.
  intros Hw. destruct Hw as (Hl & Hsl & Hr & Hnd & Hiff).
  unfold refill_w.
  set (live := map (@Some nat) (somes (w_slots w))).
  set (w0 := mkw (w_tag w) (w_P w) (w_ridx w) (w_ints w) live).
  assert (Hlive : length live <= length (w_slots w)).
  { unfold live. rewrite map_length. apply somes_length_le. }
  assert (Hw0 : Wok w0).
  { unfold Wok, w0, live; cbn. rewrite somes_map_Some, map_length.
    split; [auto|split; [|split; [auto|split; [auto|exact Hiff]]]].
    pose proof (somes_length_le (w_slots w)); lia. }
  assert (Hl0 : length (w_slots w0) + (length (w_slots w) - length live) <= w_P w0) by (unfold w0; cbn; lia).
  destruct (fill_ok (length (w_slots w) - length live) w0 Hw0 Hl0) as (Hok & HP & Ht & picks & Hs & Hlp).
  split; [auto|split; [|split; [|split; [auto|split; [auto|]]]]].
  - unfold Wfull. rewrite Hs. unfold w0, live; cbn. apply Forall_app. split; apply Forall_forall; intros x Hx;
      apply in_map_iff in Hx; destruct Hx as (y & <- & _); discriminate.
  - rewrite Hs. unfold w0; cbn. rewrite app_length, map_length. lia.
  - exists picks. rewrite Hs. unfold w0, live; cbn. now rewrite somes_app, !somes_map_Some.
Qed.

Lemma nth_split_set {A} o (l : list (option A)) i :
  nth o l None = Some i -> exists a b, l = a ++ Some i :: b /\ set_nth o None l = a ++ None :: b.
Proof.
  revert o; induction l as [|y l IH]; intros [|o] H; cbn in *; try discriminate.
  - subst. exists [], l. auto.
  - destruct (IH _ H) as (a & b & -> & E). exists (y :: a), b. cbn. now rewrite E.
Qed.

Lemma release_ok w o : Wok w -> Wok (release_w w o).
Proof.
  intros Hw. unfold release_w. destruct (nth o (w_slots w) None) as [i|] eqn:E; auto.
  destruct Hw as (Hl & Hsl & Hr & Hnd & Hiff).
  destruct (nth_split_set _ _ _ E) as (a & b & Ea & Eb).
  assert (Hi : i < w_P w /\ nth i (w_ints w) false = true).
  { apply Hiff. rewrite Ea, somes_app. cbn. apply in_or_app; right; left; auto. }
  rewrite Ea, somes_app in Hnd, Hiff. cbn in Hnd, Hiff.
  unfold Wok; cbn. rewrite Eb, somes_app. cbn. repeat split.
  - now rewrite set_nth_length.
  - rewrite <- Eb, set_nth_length. auto.
  - auto.
  - eapply NoDup_remove_1; eauto.
  - assert (In i0 (somes a ++ i :: somes b)) by (apply in_app_or in H; apply in_or_app; destruct H; [left|right; right]; auto).
    now apply Hiff in H0.
  - assert (Hne : i <> i0) by (intro; subst; apply NoDup_remove_2 in Hnd; contradiction).
    rewrite nth_set_nth_neq by auto.
    assert (In i0 (somes a ++ i :: somes b)) by (apply in_app_or in H; apply in_or_app; destruct H; [left|right; right]; auto).
    now apply Hiff in H0.
  - intros (Hi0 & Hn).
    destruct (Nat.eq_dec i i0) as [->|Hne].
    + rewrite nth_set_nth_eq in Hn by lia. discriminate.
    + rewrite nth_set_nth_neq in Hn by auto.
      assert (H : In i0 (somes a ++ i :: somes b)) by (apply Hiff; auto).
      apply in_app_or in H. apply in_or_app. destruct H as [H|[H|H]]; auto. contradiction.
Qed.

Lemma nth_map_ltb P T i : i < P -> T <= P -> nth i (map (fun i => i <? T) (seq 0 P)) false = (i <? T).
Proof.
  intros Hi HT.
  rewrite nth_indep with (d' := (fun i => i <? T) 0) by (rewrite map_length, seq_length; lia).
  rewrite (map_nth (fun i => i <? T)). rewrite seq_nth by lia. reflexivity.
Qed.

Lemma init_w_ok t P T : 1 <= T -> T <= P -> Wok (init_w t P T) /\ Wfull (init_w t P T).
Proof.
  intros H1 H2. unfold Wok, Wfull, init_w; cbn [w_ints w_slots w_P w_ridx w_tag]. rewrite somes_map_Some, !map_length, !seq_length.
  repeat split; auto.
  - apply Nat.mod_upper_bound; lia.
  - apply seq_NoDup.
  - apply in_seq in H. lia.
  - apply in_seq in H. rewrite nth_map_ltb by lia. apply Nat.ltb_lt. lia.
  - intros (Hi & Hn). rewrite nth_map_ltb in Hn by lia. apply Nat.ltb_lt in Hn. apply in_seq. lia.
  - apply Forall_forall. intros x Hx. apply in_map_iff in Hx. destruct Hx as (y & <- & _). discriminate.
Qed.

(* ------------------------------------------------------------------ *)
(** * the engine keeps every window consistent, for any report and any callback behaviour *)

Lemma run_op_ws e o : e_ws (run_op e o) = e_ws e.
Proof.
  destruct o; cbn; unfold issue_send, issue_recv.
  - destruct (length (e_dyn e) <? e_D e); reflexivity.
  - destruct ((length (e_dyn e) <? e_D e) && (e_nrecv e <? e_R e)); reflexivity.
Qed.

Lemma run_ops_ws l : forall e, e_ws (run_ops e l) = e_ws e.
Proof.
  induction l as [|o l IH]; intros e; cbn; auto.
  unfold run_ops in IH. rewrite IH. apply run_op_ws.
Qed.

Lemma Forall_set_nth {A} (Q : A -> Prop) k x l : Forall Q l -> Q x -> Forall Q (set_nth k x l).
Proof.
  revert k; induction l as [|y l IH]; intros [|k] Hl Hx; cbn; auto; inv Hl; constructor; auto.
Qed.

Lemma Forall_nth_d {A} (Q : A -> Prop) k d l : Forall Q l -> Q d -> Q (nth k l d).
Proof. revert k; induction l as [|y l IH]; intros [|k] Hl Hd; cbn; auto; inv Hl; auto. Qed.

Lemma dummy_ok : Wok dummy_w -> True. Proof. auto. Qed.

Lemma locate_nth_ok ws : Forall Wok ws -> forall pos k o, locate ws pos = Some (k, o) -> Wok (nth k ws dummy_w).
Proof.
  induction 1 as [|w ws Hw Hws IH]; intros pos k o EL; cbn [locate] in EL; [discriminate|].
  destruct (pos <? length (w_slots w)).
  - inv EL. cbn. auto.
  - destruct (locate ws (pos - length (w_slots w))) as [[k' o']|] eqn:E; [|discriminate].
    inv EL. cbn. eapply IH; eauto.
Qed.

Lemma serve_ws_ok e r : Forall Wok (e_ws e) -> Forall Wok (e_ws (serve e r)).
Proof.
  intros H. destruct r as [pos ops]. unfold serve.
  destruct (locate (e_ws e) pos) as [[k o]|] eqn:EL.
  - destruct (nth o (w_slots (nth k (e_ws e) dummy_w)) None) eqn:En; auto.
    cbn. rewrite run_ops_ws. apply Forall_set_nth; auto.
    apply release_ok.
    eapply locate_nth_ok; eauto.
  - destruct (nth (pos - static_sz e) (e_dyn e) None) as [[b n]|]; auto.
    rewrite run_ops_ws. cbn. auto.
Qed.

Lemma feed_ws f : forall e, e_ws (feed f e) = e_ws e.
Proof.
  induction f as [|f IH]; intros e; cbn [feed]; auto.
  match goal with |- context[if ?c then _ else _] => destruct c end; auto.
  unfold push_posted.
  destruct (if e_nrecv e <? e_R e then e_recvq e else []) as [|n q].
  - destruct (e_sendq e) as [|n q]; auto. rewrite IH. reflexivity.
  - rewrite IH. reflexivity.
Qed.

Definition EWin (e : eng) : Prop := Forall (fun w => Wok w /\ Wfull w) (e_ws e).

Theorem step_windows e x : EWin e -> EWin (step e x).
Proof.
  intros H. destruct x as [o|rep]; cbn [step].
  - unfold EWin. now rewrite run_op_ws.
  - unfold EWin, progress_iter. rewrite feed_ws. cbn.
    assert (H1 : Forall Wok (e_ws (fold_left serve rep e))).
    { apply fold_left_inv with (P := fun e => Forall Wok (e_ws e)).
      - intros; now apply serve_ws_ok.
      - eapply Forall_impl; [|exact H]. now intros w []. }
    apply Forall_forall. intros w Hw. apply in_map_iff in Hw. destruct Hw as (w0 & <- & Hw0).
    rewrite Forall_forall in H1. destruct (refill_ok w0 (H1 _ Hw0)) as (A & B & _). auto.
Qed.

Theorem init_windows tags P T D R : 1 <= T -> T <= P -> EWin (init_eng tags P T D R).
Proof.
  intros. unfold EWin, init_eng; cbn. apply Forall_forall. intros w Hw.
  apply in_map_iff in Hw. destruct Hw as (t & <- & _). now apply init_w_ok.
Qed.
