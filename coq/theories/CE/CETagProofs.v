(* C14 — next_tag(k): the tags of the data messages stay in [0, MAX_MPI_TAG] and, counted from the
   initial value 0 of __VAL_NEXT_TAG, any floor(MAX_MPI_TAG / k) consecutive allocations are disjoint. *)
From Coq Require Import List ZArith Lia.
From PV Require Import Base.Tac CE.CEDefs.
Import ListNotations.
Local Open Scope Z_scope.

Lemma next_tag_step MAX k v :
  1 <= k <= MAX -> 0 <= v <= MAX ->
  0 <= fst (next_tag MAX k v) /\ fst (next_tag MAX k v) + k <= MAX /\
  snd (next_tag MAX k v) = fst (next_tag MAX k v) + k /\ 0 <= snd (next_tag MAX k v) <= MAX.
Proof.
  intros Hk Hv. unfold next_tag. cbn. destruct (Z.gtb_spec v (MAX - k)); lia.
Qed.

Theorem tags_valid MAX k n : forall v,
  1 <= k <= MAX -> 0 <= v <= MAX ->
  Forall (fun t => 0 <= t /\ t + k <= MAX) (tags_from MAX k v n).
Proof.
  induction n as [|n IH]; intros v Hk Hv; cbn [tags_from]; [constructor|].
  pose proof (next_tag_step MAX k v Hk Hv) as (A & B & C & D).
  destruct (next_tag MAX k v) as [t v'] eqn:E. cbn in *.
  constructor; [lia|]. apply IH; auto.
Qed.

(* closed form: r allocations since the last roll-over, __VAL_NEXT_TAG = r * k *)
Lemma tags_closed MAX k n : forall r,
  1 <= k <= MAX -> 0 <= r <= MAX / k ->
  tags_from MAX k (r * k) n = map (fun i => ((r + Z.of_nat i) mod (MAX / k)) * k) (seq 0 n).
Proof.
  set (m := MAX / k).
  induction n as [|n IH]; intros r Hk Hr; cbn [tags_from]; [reflexivity|].
  assert (Hm : 1 <= m) by (apply Z.div_le_lower_bound; lia).
  assert (Hdm : MAX = k * m + MAX mod k) by (apply Z.div_mod; lia).
  assert (Hrem : 0 <= MAX mod k < k) by (apply Z.mod_pos_bound; lia).
  unfold next_tag.
  destruct (Z.gtb_spec (r * k) (MAX - k)) as [Hgt|Hle].
  - (* roll-over: r = m *)
    assert (r = m) by nia. subst r.
    cbn [seq map]. rewrite Z.add_0_r, Z_mod_same_full. f_equal.
    replace (0 + k) with (1 * k) by lia. rewrite IH by lia.
    rewrite <- seq_shift, map_map. apply map_ext. intros i.
    f_equal. replace (m + Z.of_nat (S i)) with (1 + Z.of_nat i + 1 * m) by lia.
    now rewrite Z_mod_plus_full.
  - assert (r < m) by nia.
    cbn [seq map]. rewrite Z.add_0_r, Z.mod_small by lia. f_equal.
    replace (r * k + k) with ((r + 1) * k) by lia. rewrite IH by lia.
    rewrite <- seq_shift, map_map. apply map_ext. intros i.
    f_equal. f_equal. lia.
Qed.

Lemma mod_differ m a b : 0 < m -> a < b < a + m -> a mod m <> b mod m.
Proof.
  intros Hm Hab E.
  assert (H : (b - a) mod m = 0) by (rewrite Zminus_mod, E, Z.sub_diag; apply Z.mod_0_l; lia).
  rewrite Z.mod_small in H by lia. lia.
Qed.

Theorem tags_distinct MAX k n i j :
  1 <= k <= MAX -> (i < j < n)%nat -> Z.of_nat j - Z.of_nat i < MAX / k ->
  let ts := tags_from MAX k 0 n in
  nth i ts 0 + k <= nth j ts 0 \/ nth j ts 0 + k <= nth i ts 0.
Proof.
  intros Hk Hij Hd. cbn.
  assert (Hm : 1 <= MAX / k) by (apply Z.div_le_lower_bound; lia).
  pose proof (tags_closed MAX k n 0) as Hc. rewrite Z.mul_0_l in Hc. rewrite Hc by lia. clear Hc.
  set (f := fun i0 : nat => (0 + Z.of_nat i0) mod (MAX / k) * k).
  assert (Hn : forall x, (x < n)%nat -> nth x (map f (seq 0 n)) 0 = f x).
  { intros x Hx. rewrite nth_indep with (d' := f 0%nat) by (rewrite map_length, seq_length; lia).
    rewrite (map_nth f), seq_nth by lia. reflexivity. }
  rewrite !Hn by lia. unfold f. rewrite !Z.add_0_l.
  pose proof (mod_differ (MAX / k) (Z.of_nat i) (Z.of_nat j)) as Hne.
  pose proof (Z.mod_pos_bound (Z.of_nat i) (MAX / k)).
  pose proof (Z.mod_pos_bound (Z.of_nat j) (MAX / k)).
  assert (Hxy : Z.of_nat i mod (MAX / k) <> Z.of_nat j mod (MAX / k)) by (apply Hne; lia).
  set (x := Z.of_nat i mod (MAX / k)) in *. set (y := Z.of_nat j mod (MAX / k)) in *.
  destruct (Z_lt_ge_dec x y); [left|right].
  - assert (H1 : 1 * k <= (y - x) * k) by (apply Z.mul_le_mono_nonneg_r; lia).
    rewrite Z.mul_sub_distr_r in H1. lia.
  - assert (H1 : 1 * k <= (x - y) * k) by (apply Z.mul_le_mono_nonneg_r; lia).
    rewrite Z.mul_sub_distr_r in H1. lia.
Qed.
