(* C14 — the dynamic region of the request array, its compaction, and the two pending FIFOs:
   every dynamic request ever issued is, at any time, exactly one of: in a slot, queued, completed. *)
From Coq Require Import List Arith Bool Lia Permutation Sorted.
From PV Require Import Base.Tac CE.CEDefs CE.CEAmProofs CE.CEWinProofs.
Import ListNotations.

Definition qids (e : eng) : list dreq := map (pair false) (e_sendq e) ++ map (pair true) (e_recvq e).
Definition dlive (e : eng) : list dreq := somes (e_dyn e) ++ qids e.
Definition allids (e : eng) : list dreq := map (pair false) (seq 0 (e_ns e)) ++ map (pair true) (seq 0 (e_nr e)).
Definition nrecvs (l : list dreq) : nat := length (filter (@fst bool nat) l).
Arguments nrecvs : simpl never.
Definition Dfull (e : eng) : Prop := Forall (fun s => s <> None) (e_dyn e).

(* done: the dynamic requests whose completion has been reported so far *)
Record DInv (e : eng) (done : list dreq) : Prop := {
  di_perm : Permutation (allids e) (dlive e ++ done);
  di_len : length (e_dyn e) <= e_D e;
  di_nrecv : e_nrecv e = nrecvs (somes (e_dyn e));
  di_lim : e_nrecv e <= e_R e
}.

(* e' extends e: same windows and parameters, the dynamic region only grew at its end *)
Definition Ext (e e' : eng) : Prop :=
  e_ws e' = e_ws e /\ e_D e' = e_D e /\ e_R e' = e_R e /\
  exists app, e_dyn e' = e_dyn e ++ app /\ Forall (fun s => s <> None) app.

Lemma Ext_refl e : Ext e e.
Proof. split; [auto|split; [auto|split; [auto|]]]. exists []. now rewrite app_nil_r. Qed.

Lemma Ext_same e e' : e_ws e' = e_ws e -> e_D e' = e_D e -> e_R e' = e_R e -> e_dyn e' = e_dyn e -> Ext e e'.
Proof. intros A B C D. split; [auto|split; [auto|split; [auto|]]]. exists []. rewrite app_nil_r. auto. Qed.

Lemma Ext_trans a b c : Ext a b -> Ext b c -> Ext a c.
Proof.
  intros (A1 & A2 & A3 & x & A4 & A5) (B1 & B2 & B3 & y & B4 & B5).
  split; [congruence|split; [congruence|split; [congruence|]]]. exists (x ++ y). split.
  - rewrite B4, A4. now rewrite app_assoc.
  - apply Forall_app; auto.
Qed.

Lemma nrecvs_app a b : nrecvs (a ++ b) = nrecvs a + nrecvs b.
Proof. unfold nrecvs. now rewrite filter_app, app_length. Qed.

Lemma nrecvs_snoc l d : nrecvs (somes (l ++ [Some d])) = nrecvs (somes l) + (if fst d then 1 else 0).
Proof. rewrite somes_app, nrecvs_app. unfold nrecvs. cbn. destruct (fst d); reflexivity. Qed.

Lemma nrecvs_perm a b : Permutation a b -> nrecvs a = nrecvs b.
Proof.
  unfold nrecvs. induction 1; cbn -[seq]; auto.
  - destruct (fst x); cbn -[seq]; auto.
  - destruct (fst x), (fst y); cbn -[seq]; auto.
  - congruence.
Qed.

Definition dreq_dec (a b : dreq) : {a = b} + {a <> b}.
Proof. decide equality; [apply Nat.eq_dec|apply bool_dec]. Defined.

(* permutation goals over concatenations: compare occurrence counts *)
Ltac permc :=
  let zz := fresh "zz" in
  apply (Permutation_count_occ dreq_dec); intro zz;
  repeat match goal with H : Permutation _ _ |- _ =>
    let H' := fresh in pose proof (proj1 (Permutation_count_occ dreq_dec _ _) H zz) as H'; clear H end;
  repeat rewrite ?count_occ_app, ?map_app, ?somes_app in *; cbn [count_occ map somes] in *;
  repeat match goal with
         | |- context[dreq_dec ?a ?b] => destruct (dreq_dec a b)
         | H : context[dreq_dec ?a ?b] |- _ => destruct (dreq_dec a b) end;
  try lia.

Lemma seq_snoc n : seq 0 (S n) = seq 0 n ++ [n].
Proof. rewrite seq_S. reflexivity. Qed.

(* ------------------------------------------------------------------ *)
(** * issuing requests *)

Lemma issue_send_inv e done : DInv e done -> DInv (issue_send e) done /\ Ext e (issue_send e).
Proof.
  intros [Hp Hl Hn Hm]. unfold issue_send.
  destruct (length (e_dyn e) <? e_D e) eqn:E.
  - apply Nat.ltb_lt in E. split.
    + constructor; cbn -[seq]; auto.
      * unfold allids, dlive, qids in *; cbn -[seq]. rewrite seq_snoc. permc.
      * rewrite app_length; cbn -[seq]; lia.
      * rewrite nrecvs_snoc. cbn [fst]. lia.
    + split; [auto|split; [auto|split; [auto|]]]. exists [Some (false, e_ns e)]. split; auto. constructor; [discriminate|constructor].
  - split; [|apply Ext_same; reflexivity].
    constructor; cbn -[seq]; auto.
    unfold allids, dlive, qids in *; cbn -[seq]. rewrite seq_snoc. permc.
Qed.

Lemma issue_recv_inv e done : DInv e done -> DInv (issue_recv e) done /\ Ext e (issue_recv e).
Proof.
  intros [Hp Hl Hn Hm]. unfold issue_recv.
  destruct ((length (e_dyn e) <? e_D e) && (e_nrecv e <? e_R e)) eqn:E.
  - apply andb_prop in E. destruct E as [E1 E2]. apply Nat.ltb_lt in E1, E2. split.
    + constructor; cbn -[seq]; auto; try lia.
      * unfold allids, dlive, qids in *; cbn -[seq]. rewrite seq_snoc. permc.
      * rewrite app_length; cbn -[seq]; lia.
      * rewrite nrecvs_snoc. cbn [fst]. lia.
    + split; [auto|split; [auto|split; [auto|]]]. exists [Some (true, e_nr e)]. split; auto. constructor; [discriminate|constructor].
  - split; [|apply Ext_same; reflexivity].
    constructor; cbn -[seq]; auto.
    unfold allids, dlive, qids in *; cbn -[seq]. rewrite seq_snoc. permc.
Qed.

Lemma run_op_inv e o done : DInv e done -> DInv (run_op e o) done /\ Ext e (run_op e o).
Proof. destruct o; cbn -[seq]; [apply issue_send_inv|apply issue_recv_inv]. Qed.

Lemma run_ops_inv l : forall e done, DInv e done -> DInv (run_ops e l) done /\ Ext e (run_ops e l).
Proof.
  induction l as [|o l IH]; intros e done H; cbn -[seq].
  - split; auto. apply Ext_refl.
  - destruct (run_op_inv e o done H) as [H1 X1].
    destruct (IH _ _ H1) as [H2 X2]. split; auto. eapply Ext_trans; eauto.
Qed.

(* ------------------------------------------------------------------ *)
(** * positions *)

Lemma locate_spec ws : forall pos,
  match locate ws pos with
  | Some _ => pos < fold_right (fun w a => length (w_slots w) + a) 0 ws
  | None => fold_right (fun w a => length (w_slots w) + a) 0 ws <= pos
  end.
Proof.
  induction ws as [|w ws IH]; intros pos; cbn [locate fold_right]; [lia|].
  destruct (pos <? length (w_slots w)) eqn:E.
  - apply Nat.ltb_lt in E. lia.
  - apply Nat.ltb_ge in E. specialize (IH (pos - length (w_slots w))).
    destruct (locate ws (pos - length (w_slots w))) as [[k o]|]; lia.
Qed.

Lemma release_len w o : length (w_slots (release_w w o)) = length (w_slots w).
Proof. unfold release_w. destruct (nth o (w_slots w) None); cbn -[seq]; auto. apply set_nth_length. Qed.

Lemma static_set_nth ws : forall k x,
  length (w_slots x) = length (w_slots (nth k ws dummy_w)) -> k < length ws ->
  fold_right (fun w a => length (w_slots w) + a) 0 (set_nth k x ws) = fold_right (fun w a => length (w_slots w) + a) 0 ws.
Proof.
  induction ws as [|w ws IH]; intros [|k] x H Hk; cbn in *; try lia.
  rewrite IH; auto. lia.
Qed.

Lemma locate_lt ws : forall pos k o, locate ws pos = Some (k, o) -> k < length ws.
Proof.
  induction ws as [|w ws IH]; intros pos k o H; cbn [locate] in H; [discriminate|].
  destruct (pos <? length (w_slots w)).
  - inv H. cbn -[seq]. lia.
  - destruct (locate ws (pos - length (w_slots w))) as [[k' o']|] eqn:E; [|discriminate].
    inv H. cbn -[seq]. apply IH in E. lia.
Qed.

Lemma refill_len w : length (w_slots (refill_w w)) = length (w_slots w).
Proof.
  unfold refill_w.
  set (live := map (@Some nat) (somes (w_slots w))).
  assert (G : forall n w0, length (w_slots (fill n w0)) = length (w_slots w0) + n).
  { induction n as [|n IH]; intros w0; cbn [fill]; [lia|]. rewrite IH. cbn -[seq]. rewrite app_length. cbn -[seq]. lia. }
  rewrite G. cbn -[seq]. unfold live. rewrite map_length. pose proof (somes_length_le (w_slots w)). lia.
Qed.

Lemma static_map_refill ws :
  fold_right (fun w a => length (w_slots w) + a) 0 (map refill_w ws) = fold_right (fun w a => length (w_slots w) + a) 0 ws.
Proof. induction ws as [|w ws IH]; cbn -[seq]; auto. now rewrite refill_len, IH. Qed.

(* ------------------------------------------------------------------ *)
(** * serving one reported position *)

Lemma somes_set_None {A} j (l : list (option A)) x :
  nth j l None = Some x -> Permutation (somes l) (x :: somes (set_nth j None l)).
Proof.
  intro H. destruct (nth_split_set _ _ _ H) as (a & b & -> & ->).
  rewrite !somes_app. cbn -[seq]. symmetry. apply Permutation_middle.
Qed.

(* the state while the callbacks of one Testsome call run:
   dyn0 = dynamic region at the call, S = positions served so far *)
Record Mid (st : nat) (dyn0 : list (option dreq)) (e0 e : eng) (S : list nat) (done : list dreq) : Prop := {
  mi_static : static_sz e = st;
  mi_D : e_D e = e_D e0 /\ e_R e = e_R e0;
  mi_len : length dyn0 <= length (e_dyn e);
  mi_served : forall j, j < length dyn0 -> In (st + j) S -> nth j (e_dyn e) None = None;
  mi_kept : forall j, j < length dyn0 -> ~ In (st + j) S -> nth j (e_dyn e) None = nth j dyn0 None;
  mi_new : forall j, length dyn0 <= j < length (e_dyn e) -> nth j (e_dyn e) None <> None;
  mi_inv : DInv e done
}.

Lemma Mid_ext st dyn0 e0 e e' S done :
  Mid st dyn0 e0 e S done -> Ext e e' -> DInv e' done -> e_sendq e' = e_sendq e' ->
  Mid st dyn0 e0 e' S done.
Proof.
  intros M (Xw & XD & XR & app & Xd & Xa) I _.
  destruct M as [Ms [MD MR] Ml Mse Mk Mn Mi].
  constructor; auto.
  - unfold static_sz in *. now rewrite Xw.
  - split; congruence.
  - rewrite Xd, app_length. lia.
  - intros j Hj Hin. rewrite Xd, app_nth1 by lia. auto.
  - intros j Hj Hin. rewrite Xd, app_nth1 by lia. auto.
  - intros j Hj. rewrite Xd in *. rewrite app_length in Hj.
    destruct (lt_dec j (length (e_dyn e))).
    + rewrite app_nth1 by lia. apply Mn. lia.
    + rewrite app_nth2 by lia. rewrite Forall_forall in Xa. apply Xa. apply nth_In. lia.
Qed.

Definition dynreq (st : nat) (dyn0 : list (option dreq)) (p : nat) : list dreq :=
  if st <=? p then match nth (p - st) dyn0 None with Some d => [d] | None => [] end else [].

Lemma serve_mid st dyn0 e0 e S done p ops :
  Mid st dyn0 e0 e S done -> ~ In p S -> p < st + length dyn0 ->
  Forall (fun s => s <> None) dyn0 ->
  Mid st dyn0 e0 (serve e (p, ops)) (S ++ [p]) (done ++ dynreq st dyn0 p).
Proof.
  intros M Hp Hlt Hfull. pose proof M as [Ms [MD MR] Ml Mse Mk Mn Mi].
  unfold serve. pose proof (locate_spec (e_ws e) p) as HL. fold (static_sz e) in HL. rewrite Ms in HL.
  destruct (locate (e_ws e) p) as [[k o]|] eqn:EL.
  - (* an AM slot *)
    assert (Ed : dynreq st dyn0 p = []) by (unfold dynreq; destruct (st <=? p) eqn:E; auto; apply Nat.leb_le in E; lia).
    rewrite Ed, app_nil_r.
    assert (HS : forall j, In (st + j) (S ++ [p]) <-> In (st + j) S).
    { intro j. split; intro H; [|apply in_or_app; auto]. apply in_app_or in H. destruct H as [H|[H|[]]]; auto. lia. }
    destruct (nth o (w_slots (nth k (e_ws e) dummy_w)) None) eqn:En.
    + set (ops' := if w_tag (nth k (e_ws e) dummy_w) =? 0 then [OSend] else if w_tag (nth k (e_ws e) dummy_w) =? 1 then [ORecv] else ops).
      destruct (run_ops_inv ops' e done Mi) as [I1 X1].
      pose proof (Mid_ext _ _ _ _ _ _ _ M X1 I1 eq_refl) as M1.
      destruct M1 as [Ms1 MD1 Ml1 Mse1 Mk1 Mn1 Mi1].
      constructor; cbn -[seq]; auto.
      * unfold static_sz in *. cbn -[seq]. rewrite static_set_nth; auto.
        -- rewrite release_len. destruct X1 as (Xw & _). now rewrite Xw.
        -- destruct X1 as (Xw & _). rewrite Xw. eapply locate_lt; eauto.
      * intros j Hj Hin. apply Mse1; auto. now apply HS.
      * intros j Hj Hin. apply Mk1; auto. intro; apply Hin; now apply HS.
      * destruct Mi1; constructor; auto.
    + constructor; auto.
      * intros j Hj Hin. apply Mse; auto. now apply HS.
      * intros j Hj Hin. apply Mk; auto. intro; apply Hin; now apply HS.
  - (* a dynamic slot *)
    rewrite Ms. set (j := p - st).
    assert (Hj : j < length dyn0) by (unfold j; lia).
    assert (Hpj : p = st + j) by (unfold j; lia).
    assert (Ekept : nth j (e_dyn e) None = nth j dyn0 None) by (apply Mk; auto; now rewrite <- Hpj).
    assert (Hsome : nth j dyn0 None <> None) by (rewrite Forall_forall in Hfull; apply Hfull, nth_In; lia).
    destruct (nth j dyn0 None) as [[b n]|] eqn:E0; [|congruence]. rewrite Ekept.
    assert (Ed : dynreq st dyn0 p = [(b, n)]).
    { unfold dynreq. destruct (st <=? p) eqn:E; [|apply Nat.leb_gt in E; lia]. fold j. now rewrite E0. }
    rewrite Ed.
    set (e1 := with_dyn e (set_nth j None (e_dyn e)) (if b then e_nrecv e - 1 else e_nrecv e)).
    assert (I1 : DInv e1 (done ++ [(b, n)])).
    { destruct Mi as [Hp' Hl' Hn' Hm']. unfold e1. constructor; cbn -[seq].
      - unfold allids, dlive, qids in *; cbn -[seq].
        pose proof (somes_set_None j (e_dyn e) (b, n) ltac:(congruence)) as Hset. permc.
      - now rewrite set_nth_length.
      - rewrite Hn'. rewrite (nrecvs_perm _ _ (somes_set_None j (e_dyn e) (b, n) ltac:(congruence))).
        unfold nrecvs. cbn -[seq]. destruct b; cbn -[seq]; lia.
      - destruct b; lia. }
    assert (M1 : Mid st dyn0 e0 e1 (S ++ [p]) (done ++ [(b, n)])).
    { unfold e1. constructor; cbn -[seq]; auto.
      - rewrite set_nth_length. auto.
      - intros i Hi Hin. destruct (Nat.eq_dec i j) as [->|Hne].
        + apply nth_set_nth_eq. lia.
        + rewrite nth_set_nth_neq by auto. apply Mse; auto.
          apply in_app_or in Hin. destruct Hin as [Hin|[Hin|[]]]; auto. lia.
      - intros i Hi Hin. destruct (Nat.eq_dec i j) as [->|Hne].
        + exfalso. apply Hin. apply in_or_app. right. left. lia.
        + rewrite nth_set_nth_neq by auto. apply Mk; auto. intro; apply Hin. apply in_or_app; auto.
      - intros i Hi. rewrite set_nth_length in Hi. rewrite nth_set_nth_neq by lia. apply Mn. lia. }
    destruct (run_ops_inv ops e1 _ I1) as [I2 X2].
    eapply Mid_ext; eauto.
Qed.

(* ------------------------------------------------------------------ *)
(** * compaction *)

Lemma removelast_length {A} (l : list A) : length (removelast l) = length l - 1.
Proof. induction l as [|x [|y l] IH]; cbn in *; auto. lia. Qed.

Lemma nth_removelast {A} (l : list A) d j : j < length l - 1 -> nth j (removelast l) d = nth j l d.
Proof.
  revert j; induction l as [|x [|y l] IH]; intros j H; cbn in *; try lia.
  destruct j; auto. apply IH. cbn -[seq]. lia.
Qed.

Lemma somes_removelast_last {A} (l : list (option A)) :
  l <> [] -> Permutation (somes l) (somes (removelast l) ++ somes [last l None]).
Proof.
  intro H. rewrite (app_removelast_last None H) at 1. now rewrite somes_app.
Qed.

Lemma last_nth {A} (l : list A) d : last l d = nth (length l - 1) l d.
Proof.
  induction l as [|x [|y l] IH]; cbn in *; auto.
  rewrite IH. now rewrite Nat.sub_0_r.
Qed.

Lemma somes_set_Some {A} (l : list (option A)) : forall j x,
  j < length l -> nth j l None = None -> Permutation (somes (set_nth j (Some x) l)) (x :: somes l).
Proof.
  induction l as [|y l IH]; intros [|j] x Hj Hn; cbn in *; try lia.
  - subst y. reflexivity.
  - destruct y as [y|]; cbn.
    + rewrite (IH j x) by (auto; lia). apply perm_swap.
    + apply IH; auto; lia.
Qed.

(* one step, on an offset j that holds None while everything after it is Some *)
Lemma compact1_spec st (d : list (option dreq)) p :
  st <= p -> p - st < length d -> nth (p - st) d None = None ->
  (forall i, p - st < i < length d -> nth i d None <> None) ->
  let d' := compact1 st d p in
  length d' = length d - 1 /\ Permutation (somes d') (somes d) /\
  (forall i, i < p - st -> nth i d' None = nth i d None) /\
  (forall i, p - st <= i < length d' -> nth i d' None <> None).
Proof.
  intros Hst Hj Hn Hafter. unfold compact1.
  destruct (p <? st) eqn:E; [apply Nat.ltb_lt in E; lia|].
  set (j := p - st) in *. rewrite Hn.
  assert (Hne : d <> []) by (destruct d; cbn in Hj; [lia|discriminate]).
  destruct (j <? length d - 1) eqn:E2.
  - apply Nat.ltb_lt in E2.
    assert (Hl : nth (length d - 1) d None <> None) by (apply Hafter; lia).
    destruct (nth (length d - 1) d None) as [x|] eqn:EL; [|congruence].
    repeat split.
    + now rewrite set_nth_length, removelast_length.
    + rewrite (somes_removelast_last d Hne). rewrite last_nth, EL. cbn -[seq].
      assert (Hjn : nth j (removelast d) None = None) by (rewrite nth_removelast by lia; auto).
      rewrite (somes_set_Some (removelast d) j x) by (rewrite ?removelast_length; auto; lia).
      apply Permutation_cons_append.
    + intros i Hi. rewrite nth_set_nth_neq by lia. apply nth_removelast. lia.
    + intros i Hi. rewrite set_nth_length, removelast_length in Hi.
      destruct (Nat.eq_dec i j) as [->|Hne2].
      * rewrite nth_set_nth_eq by (rewrite removelast_length; lia). discriminate.
      * rewrite nth_set_nth_neq by auto. rewrite nth_removelast by lia. apply Hafter. lia.
  - apply Nat.ltb_ge in E2. assert (Ej : j = length d - 1) by lia.
    repeat split.
    + apply removelast_length.
    + rewrite (somes_removelast_last d Hne). rewrite last_nth, <- Ej, Hn. cbn -[seq]. now rewrite app_nil_r.
    + intros i Hi. apply nth_removelast. lia.
    + intros i Hi. rewrite removelast_length in Hi. lia.
Qed.

(* all reported positions, visited from the largest to the smallest *)
Lemma compact_all st : forall (ps : list nat) (d : list (option dreq)),
  StronglySorted gt ps ->
  (forall p, In p ps -> st <= p -> p - st < length d /\ nth (p - st) d None = None) ->
  (forall i, i < length d -> nth i d None = None -> In (st + i) ps) ->
  let d' := fold_left (compact1 st) ps d in
  Forall (fun s => s <> None) d' /\ Permutation (somes d') (somes d) /\ length d' <= length d.
Proof.
  induction ps as [|p ps IH]; intros d Hs Hin Hnone; cbn [fold_left].
  - repeat split; auto. apply Forall_forall. intros x Hx Ex. subst x.
    apply In_nth with (d := None) in Hx. destruct Hx as (i & Hi & Ei). exact (Hnone i Hi Ei).
  - inv Hs.
    destruct (le_lt_dec st p) as [Hle|Hlt].
    + destruct (Hin p (or_introl eq_refl) Hle) as (Hj & Hn).
      assert (Hafter : forall i, p - st < i < length d -> nth i d None <> None).
      { intros i Hi Ei. apply Hnone in Ei; [|lia]. destruct Ei as [Ei|Ei]; [lia|].
        rewrite Forall_forall in H2. apply H2 in Ei. lia. }
      destruct (compact1_spec st d p Hle Hj Hn Hafter) as (L1 & P1 & K1 & A1).
      destruct (IH (compact1 st d p) H1) as (F2 & P2 & L2).
      * intros q Hq Hqs. rewrite Forall_forall in H2. pose proof (H2 _ Hq) as Hgt.
        destruct (Hin q (or_intror Hq) Hqs) as (Hqj & Hqn).
        split; [lia|]. rewrite K1 by lia. exact Hqn.
      * intros i Hi Ei. destruct (lt_dec i (p - st)) as [Hlt|Hge].
        -- rewrite K1 in Ei by lia. apply Hnone in Ei; [|lia]. destruct Ei as [Ei|Ei]; [lia|auto].
        -- exfalso. apply (A1 i); [lia|auto].
      * repeat split; auto; [etransitivity; eauto|lia].
    + (* an AM position: untouched *)
      assert (Ec : compact1 st d p = d) by (unfold compact1; destruct (p <? st) eqn:E; auto; apply Nat.ltb_ge in E; lia).
      rewrite Ec. apply IH; auto.
      * intros q Hq Hqs. apply Hin; auto. now right.
      * intros i Hi Ei. apply Hnone in Ei; auto. destruct Ei as [Ei|Ei]; [lia|auto].
Qed.

(* ------------------------------------------------------------------ *)
(** * the pending FIFOs *)

Lemma push_posted_inv e e' done : DInv e done -> length (e_dyn e) < e_D e -> Dfull e -> push_posted e = Some e' ->
  DInv e' done /\ Dfull e' /\ e_ws e' = e_ws e /\ e_D e' = e_D e /\ e_R e' = e_R e /\
  length (e_sendq e') + length (e_recvq e') < length (e_sendq e) + length (e_recvq e).
Proof.
  intros [Hp Hl Hn Hm] Hlt Hf. unfold push_posted.
  assert (Hsnoc : forall x : dreq, Forall (fun s : option dreq => s <> None) (e_dyn e ++ [Some x])).
  { intro x. apply Forall_app. split; auto. constructor; [discriminate|constructor]. }
  destruct (e_nrecv e <? e_R e) eqn:E.
  - apply Nat.ltb_lt in E. destruct (e_recvq e) as [|n q] eqn:Eq.
    + destruct (e_sendq e) as [|n q] eqn:Es; [discriminate|]. intro H; inv H. cbn -[seq].
      split; [|split; [apply Hsnoc|split; [reflexivity|split; [reflexivity|split; [reflexivity|cbn; lia]]]]].
      constructor; cbn -[seq]; auto.
      * unfold allids, dlive, qids in *; cbn -[seq] in *. rewrite Es, Eq in Hp. permc.
      * rewrite app_length; cbn -[seq]; lia.
      * rewrite nrecvs_snoc. cbn [fst]. lia.
    + intro H; inv H. cbn -[seq].
      split; [|split; [apply Hsnoc|split; [reflexivity|split; [reflexivity|split; [reflexivity|cbn; lia]]]]].
      constructor; cbn -[seq]; auto; try lia.
      * unfold allids, dlive, qids in *; cbn -[seq] in *. rewrite Eq in Hp. permc.
      * rewrite app_length; cbn -[seq]; lia.
      * rewrite nrecvs_snoc. cbn [fst]. lia.
  - destruct (e_sendq e) as [|n q] eqn:Es; [discriminate|]. intro H; inv H. cbn -[seq].
    split; [|split; [apply Hsnoc|split; [reflexivity|split; [reflexivity|split; [reflexivity|cbn; lia]]]]].
    constructor; cbn -[seq]; auto.
    + unfold allids, dlive, qids in *; cbn -[seq] in *. rewrite Es in Hp. permc.
    + rewrite app_length; cbn -[seq]; lia.
    + rewrite nrecvs_snoc. cbn [fst]. lia.
Qed.

Definition settled (e : eng) : Prop :=
  length (e_dyn e) < e_D e -> e_sendq e = [] /\ (e_recvq e = [] \/ e_R e <= e_nrecv e).

Lemma feed_inv fuel : forall e done,
  DInv e done -> Dfull e -> length (e_sendq e) + length (e_recvq e) <= fuel ->
  let e' := feed fuel e in
  DInv e' done /\ Dfull e' /\ e_ws e' = e_ws e /\ settled e'.
Proof.
  induction fuel as [|f IH]; intros e done I F Hq; cbn [feed].
  - split; [auto|split; [auto|split; [auto|]]]. intros _.
    destruct (e_sendq e), (e_recvq e); cbn in Hq; auto; lia.
  - destruct (length (e_dyn e) <? e_D e) eqn:E1; cbn [andb].
    + apply Nat.ltb_lt in E1.
      destruct (negb match e_sendq e with [] => true | _ :: _ => false end
                || negb match e_recvq e with [] => true | _ :: _ => false end) eqn:E2.
      * destruct (push_posted e) as [e'|] eqn:EP.
        -- destruct (push_posted_inv e e' done I E1 F EP) as (I' & F' & W' & D' & R' & Q').
           assert (Hq' : length (e_sendq e') + length (e_recvq e') <= f) by lia.
           destruct (IH e' done I' F' Hq') as (A & B & C & S).
           split; [auto|split; [auto|split; [congruence|auto]]].
        -- split; [auto|split; [auto|split; [auto|]]]. intros _. unfold push_posted in EP.
           destruct (e_nrecv e <? e_R e) eqn:E3.
           ++ destruct (e_recvq e); [|discriminate]. destruct (e_sendq e); [|discriminate]. auto.
           ++ apply Nat.ltb_ge in E3. destruct (e_sendq e); [|discriminate]. auto.
      * split; [auto|split; [auto|split; [auto|]]]. intros _.
        destruct (e_sendq e), (e_recvq e); cbn in E2; try discriminate. auto.
    + apply Nat.ltb_ge in E1. split; [auto|split; [auto|split; [auto|]]]. intro; lia.
Qed.

(* ------------------------------------------------------------------ *)
(** * one pass of the progress loop *)

Definition valid_report (e : eng) (rep : list (nat * list op)) : Prop :=
  StronglySorted lt (map fst rep) /\ Forall (fun p => p < last_active e) (map fst rep).

Definition completed (e : eng) (rep : list (nat * list op)) : list dreq :=
  flat_map (dynreq (static_sz e) (e_dyn e)) (map fst rep).

Lemma serve_fold st dyn0 e0 : forall rep e S done,
  Mid st dyn0 e0 e S done -> Forall (fun s => s <> None) dyn0 ->
  StronglySorted lt (map fst rep) ->
  Forall (fun p => p < st + length dyn0) (map fst rep) ->
  (forall p, In p (map fst rep) -> ~ In p S) ->
  Mid st dyn0 e0 (fold_left serve rep e) (S ++ map fst rep) (done ++ flat_map (dynreq st dyn0) (map fst rep)).
Proof.
  induction rep as [|[p ops] rep IH]; intros e S done M F Hs Hb Hn; cbn [fold_left map flat_map fst].
  - now rewrite !app_nil_r.
  - cbn in Hs, Hb. inv Hs. inv Hb.
    assert (M1 := serve_mid st dyn0 e0 e S done p ops M (Hn p (or_introl eq_refl)) H3 F).
    specialize (IH _ _ _ M1 F H1 H4).
    replace (S ++ p :: map fst rep) with ((S ++ [p]) ++ map fst rep) by now rewrite <- app_assoc.
    rewrite app_assoc. apply IH.
    intros q Hq Hin. apply in_app_or in Hin. destruct Hin as [Hin|[Hin|[]]].
    + apply (Hn q); auto. now right.
    + subst q. rewrite Forall_forall in H2. apply H2 in Hq. lia.
Qed.

Lemma StronglySorted_rev_gt l : StronglySorted lt l -> StronglySorted gt (rev l).
Proof.
  induction 1 as [|x l Hs IH Hf]; cbn -[seq]; [constructor|].
  clear Hs. revert IH. generalize (rev_involutive l). intros _.
  assert (Hf' : Forall (fun y => y < x) (rev l) -> True) by auto.
  assert (G : forall a, StronglySorted gt a -> Forall (fun y => x < y) a -> StronglySorted gt (a ++ [x])).
  { induction 1 as [|y a Hs IHa Hfa]; intros Hall; cbn -[seq]; [repeat constructor|].
    inv Hall. constructor; auto. apply Forall_app. split; auto. }
  intro IH. apply G; auto. apply Forall_forall. intros y Hy. apply in_rev in Hy.
  rewrite Forall_forall in Hf. now apply Hf.
Qed.

Theorem progress_iter_dyn e rep done :
  DInv e done -> Dfull e -> valid_report e rep ->
  let e' := progress_iter e rep in
  DInv e' (done ++ completed e rep) /\ Dfull e' /\ settled e'.
Proof.
  intros I F (Hs & Hb). cbv zeta.
  set (st := static_sz e). set (dyn0 := e_dyn e).
  assert (M0 : Mid st dyn0 e e [] done).
  { constructor; auto; try lia.
    - intros j Hj [].
    - intros j Hj. unfold dyn0 in Hj. lia. }
  assert (Hb' : Forall (fun p => p < st + length dyn0) (map fst rep)) by exact Hb.
  pose proof (serve_fold st dyn0 e rep e [] done M0 F Hs Hb' (fun _ _ H => H)) as M1. cbn in M1.
  unfold progress_iter.
  set (e1 := fold_left serve rep e) in *.
  destruct M1 as [Ms [MD MR] Ml Mse Mk Mn Mi].
  set (e2 := with_ws e1 (map refill_w (e_ws e1))).
  assert (Hst2 : static_sz e2 = st) by (unfold e2, static_sz in *; cbn -[seq]; now rewrite static_map_refill).
  rewrite Hst2.
  destruct (compact_all st (rev (map fst rep)) (e_dyn e1)) as (CF & CP & CL).
  { now apply StronglySorted_rev_gt. }
  { intros p Hp Hle. apply in_rev in Hp. rewrite Forall_forall in Hb'. pose proof (Hb' _ Hp).
    split; [lia|]. apply Mse; [lia|]. replace (st + (p - st)) with p by lia. exact Hp. }
  { intros i Hi Ei. apply in_rev. rewrite rev_involutive.
    destruct (lt_dec i (length dyn0)) as [Hlt|Hge].
    - destruct (in_dec Nat.eq_dec (st + i) (map fst rep)) as [Hin|Hnin]; auto.
      exfalso. rewrite Mk in Ei by auto. unfold Dfull in F. rewrite Forall_forall in F. apply (F None); auto.
      rewrite <- Ei. apply nth_In. exact Hlt.
    - exfalso. apply (Mn i); [lia|auto]. }
  set (d3 := fold_left (compact1 st) (rev (map fst rep)) (e_dyn e1)) in *.
  set (e3 := with_dyn e2 d3 (e_nrecv e2)).
  assert (I3 : DInv e3 (done ++ completed e rep)).
  { destruct Mi as [Hp Hl Hn Hm]. unfold e3, e2. constructor; cbn -[seq].
    - unfold allids, dlive, qids in *; cbn -[seq]. unfold completed. fold st dyn0. permc.
    - lia.
    - rewrite Hn. apply nrecvs_perm. now symmetry.
    - exact Hm. }
  assert (F3 : Dfull e3) by exact CF.
  destruct (feed_inv (length (e_sendq e3) + length (e_recvq e3)) e3 _ I3 F3 (le_n _)) as (A & B & C & S).
  auto.
Qed.

(* ------------------------------------------------------------------ *)
(** * whole runs *)

Fixpoint valid_run (e : eng) (l : list ev) : Prop :=
  match l with
  | [] => True
  | EvOp o :: r => valid_run (run_op e o) r
  | EvTest rep :: r => valid_report e rep /\ valid_run (progress_iter e rep) r
  end.

Fixpoint done_run (e : eng) (l : list ev) : list dreq :=
  match l with
  | [] => []
  | EvOp o :: r => done_run (run_op e o) r
  | EvTest rep :: r => completed e rep ++ done_run (progress_iter e rep) r
  end.

Lemma Dfull_ext e e' : Ext e e' -> Dfull e -> Dfull e'.
Proof.
  intros (_ & _ & _ & app & E & Fa) F. unfold Dfull. rewrite E. apply Forall_app. auto.
Qed.

Theorem run_dyn l : forall e done,
  DInv e done -> Dfull e -> valid_run e l ->
  DInv (fold_left step l e) (done ++ done_run e l) /\ Dfull (fold_left step l e).
Proof.
  induction l as [|[o|rep] l IH]; intros e done I F V; cbn [fold_left step valid_run done_run] in *.
  - now rewrite app_nil_r.
  - destruct (run_op_inv e o done I) as [I1 X1]. apply IH; auto. eapply Dfull_ext; eauto.
  - destruct V as [V1 V2]. destruct (progress_iter_dyn e rep done I F V1) as (I1 & F1 & _).
    rewrite app_assoc. apply IH; auto.
Qed.

Lemma init_dyn tags P T D R : DInv (init_eng tags P T D R) [] /\ Dfull (init_eng tags P T D R).
Proof.
  split; [constructor; cbn; auto; try lia; constructor|constructor].
Qed.
