(* C14 — the pool rotation of mpi_funnelled_refill_am_requests is fair: a posted receive that is
   outside the tested window is brought into it after at most req_count further picks, whatever
   the order in which the receives of the window complete. *)
From Coq Require Import List Arith Bool Lia Permutation.
From PV Require Import Base.Tac CE.CEDefs CE.CEAmProofs CE.CEWinProofs.
Import ListNotations.

(* the scan returns the first free entry at or after the cursor, in cyclic order *)
Lemma find_free_min ints P fuel : forall r j0,
  0 < P -> r < P -> j0 < fuel -> nth ((r + j0) mod P) ints false = false ->
  exists j, j <= j0 /\ find_free ints P r fuel = (r + j) mod P /\
            nth ((r + j) mod P) ints false = false.
Proof.
  induction fuel as [|f IH]; intros r j0 HP Hr Hj Hn; [lia|].
  cbn [find_free]. destruct (nth r ints false) eqn:E.
  - destruct j0 as [|j0].
    + rewrite Nat.add_0_r, Nat.mod_small in Hn by lia. congruence.
    + destruct (IH ((r + 1) mod P) j0 HP) as (j & Hle & Ef & Efree).
      * apply Nat.mod_upper_bound; lia.
      * lia.
      * rewrite Nat.add_mod_idemp_l by lia. replace (r + 1 + j0) with (r + S j0) by lia. exact Hn.
      * exists (S j). rewrite Nat.add_mod_idemp_l in Ef, Efree by lia.
        replace (r + S j) with (r + 1 + j) by lia. split; [lia|split; auto].
  - exists 0. rewrite Nat.add_0_r, Nat.mod_small by lia. split; [lia|split; auto].
Qed.

(* receive i sits d steps ahead of the cursor *)
Definition Ahead (w : tagw) (i d : nat) : Prop := d < w_P w /\ (w_ridx w + d) mod w_P w = i.

Definition free (w : tagw) (i : nat) : Prop := nth i (w_ints w) false = false.

(* one pick either takes i or brings the cursor closer to it *)
Lemma fill_progress n : forall w i d,
  Wok w -> length (w_slots w) + n <= w_P w -> free w i -> Ahead w i d ->
  In i (somes (w_slots (fill n w))) \/
  (free (fill n w) i /\ exists d', Ahead (fill n w) i d' /\ d' + n <= d).
Proof.
  induction n as [|n IH]; intros w i d Hw Hlen Hf (Hd & Ei).
  - right. cbn. split; auto. exists d. split; [split; auto|lia].
  - cbn [fill].
    set (r := find_free (w_ints w) (w_P w) (w_ridx w) (w_P w)).
    pose proof Hw as (Hl & Hsl & Hr & Hnd & Hiff).
    assert (HP : 0 < w_P w) by lia.
    destruct (find_free_min (w_ints w) (w_P w) (w_P w) (w_ridx w) d HP Hr Hd) as (j & Hj & Er & Efree).
    { rewrite Ei. exact Hf. }
    fold r in Er.
    set (w1 := mkw (w_tag w) (w_P w) ((r + 1) mod w_P w) (set_nth r true (w_ints w)) (w_slots w ++ [Some r])).
    assert (HrP : r < w_P w) by (rewrite Er; apply Nat.mod_upper_bound; lia).
    (* w1 is what fill 1 produces: consistent again *)
    assert (H1 : Wok w1 /\ w_P w1 = w_P w).
    { assert (Hl1 : length (w_slots w) + 1 <= w_P w) by lia.
      destruct (fill_ok 1 w Hw Hl1) as (A & B & _). cbn [fill] in A, B. fold r in A, B. split; auto. }
    destruct H1 as (Hw1 & HP1).
    destruct (Nat.eq_dec j d) as [->|Hne].
    + (* the pick is i itself *)
      assert (Eri : r = i) by congruence.
      left.
      assert (Hl1 : length (w_slots w1) + n <= w_P w1) by (unfold w1; cbn; rewrite app_length; cbn; lia).
      destruct (fill_ok n w1 Hw1 Hl1) as (_ & _ & _ & picks & Hs & _).
      fold w1. rewrite Hs, somes_app. apply in_or_app. left.
      unfold w1; cbn. rewrite somes_app. apply in_or_app. right. cbn. auto.
    + (* the cursor moves to r+1, i is d-j-1 ahead and still free *)
      assert (Hne_ri : r <> i).
      { intro Eri. rewrite Er, <- Ei in Eri.
        (* (ridx+j) mod P = (ridx+d) mod P with j < d < P is impossible *)
        assert (Hjd : j < d) by lia.
        assert (Hmod : (w_ridx w + d) mod w_P w = ((w_ridx w + j) mod w_P w + (d - j)) mod w_P w).
        { rewrite Nat.add_mod_idemp_l by lia. f_equal. lia. }
        rewrite Eri in Hmod.
        set (x := (w_ridx w + d) mod w_P w) in *.
        assert (Hx : x < w_P w) by (apply Nat.mod_upper_bound; lia).
        destruct (le_lt_dec (w_P w) (x + (d - j))) as [Hge|Hlt].
        - replace (x + (d - j)) with ((x + (d - j) - w_P w) + 1 * w_P w) in Hmod by lia.
          rewrite Nat.mod_add in Hmod by lia. rewrite Nat.mod_small in Hmod by lia. lia.
        - rewrite Nat.mod_small in Hmod by lia. lia. }
      assert (Hf1 : free w1 i) by (unfold free, w1; cbn; rewrite nth_set_nth_neq by auto; exact Hf).
      assert (Ha1 : Ahead w1 i (d - j - 1)).
      { unfold Ahead, w1; cbn. split; [lia|].
        rewrite Nat.add_mod_idemp_l by lia. replace (r + 1 + (d - j - 1)) with (r + (d - j)) by lia.
        rewrite Er, Nat.add_mod_idemp_l by lia. rewrite <- Ei. f_equal. lia. }
      assert (Hl1 : length (w_slots w1) + n <= w_P w1) by (unfold w1; cbn; rewrite app_length; cbn; lia).
      destruct (IH w1 i (d - j - 1) Hw1 Hl1 Hf1 Ha1) as [Hin|(Hfr & d' & Ha' & Hle)].
      * left. exact Hin.
      * right. split; auto. exists d'. split; auto. lia.
Qed.

(* a whole refill: k = number of empty slots of the window *)
Definition holes (w : tagw) : nat := length (w_slots w) - length (somes (w_slots w)).

Lemma refill_progress w i d :
  Wok w -> free w i -> Ahead w i d ->
  In i (somes (w_slots (refill_w w))) \/
  (free (refill_w w) i /\ exists d', Ahead (refill_w w) i d' /\ d' + holes w <= d).
Proof.
  intros Hw Hf Ha. pose proof Hw as (Hl & Hsl & Hr & Hnd & Hiff).
  unfold refill_w, holes.
  set (live := map (@Some nat) (somes (w_slots w))).
  set (w0 := mkw (w_tag w) (w_P w) (w_ridx w) (w_ints w) live).
  assert (Hll : length live = length (somes (w_slots w))) by (unfold live; now rewrite map_length).
  assert (Hw0 : Wok w0).
  { unfold Wok, w0, live; cbn. rewrite somes_map_Some, map_length.
    split; [auto|split; [|split; [auto|split; [auto|exact Hiff]]]].
    pose proof (somes_length_le (w_slots w)); lia. }
  rewrite <- Hll.
  apply (fill_progress (length (w_slots w) - length live) w0 i d Hw0); auto.
  unfold w0; cbn. pose proof (somes_length_le (w_slots w)). lia.
Qed.

(* serving a slot neither moves the cursor nor takes i *)
Lemma release_keeps w o i d : free w i -> Ahead w i d -> free (release_w w o) i /\ Ahead (release_w w o) i d.
Proof.
  intros Hf Ha. unfold release_w. destruct (nth o (w_slots w) None) as [x|]; auto.
  unfold free, Ahead in *; cbn. split; auto.
  destruct (Nat.eq_dec x i) as [->|Hne].
  - destruct (le_lt_dec (length (w_ints w)) i).
    + rewrite nth_overflow; auto. now rewrite set_nth_length.
    + now apply nth_set_nth_eq.
  - now rewrite nth_set_nth_neq.
Qed.

(* the life of one tag's window: callbacks (any slot, any order), then a refill *)
Inductive wop := WServe (o : nat) | WRefill.
Definition wstep (w : tagw) (x : wop) : tagw :=
  match x with WServe o => release_w w o | WRefill => refill_w w end.

Fixpoint ever_in (i : nat) (w : tagw) (l : list wop) : Prop :=
  In i (somes (w_slots w)) \/ match l with [] => False | x :: r => ever_in i (wstep w x) r end.

(* number of pool entries moved into the window along a history *)
Fixpoint picks (w : tagw) (l : list wop) : nat :=
  match l with
  | [] => 0
  | WServe o :: r => picks (release_w w o) r
  | WRefill :: r => holes w + picks (refill_w w) r
  end.

Lemma wstep_ok w x : Wok w -> Wok (wstep w x).
Proof. destruct x; cbn; [apply release_ok|intro H; apply (refill_ok w H)]. Qed.

Theorem window_fair l : forall w i d,
  Wok w -> free w i -> Ahead w i d -> d < picks w l -> ever_in i w l.
Proof.
  induction l as [|[o|] l IH]; intros w i d Hw Hf Ha Hp; cbn [picks] in Hp; [lia| |].
  - cbn [ever_in wstep]. right.
    destruct (release_keeps w o i d Hf Ha) as (Hf' & Ha').
    eapply IH; eauto. now apply release_ok.
  - cbn [ever_in wstep]. right.
    destruct (refill_progress w i d Hw Hf Ha) as [Hin|(Hf' & d' & Ha' & Hle)].
    + destruct l; cbn; auto.
    + eapply (IH (refill_w w) i d'); eauto; [apply (refill_ok w Hw)|lia].
Qed.

(* every entry of the pool is at most req_count - 1 steps ahead of the cursor *)
Lemma ahead_exists w i : Wok w -> i < w_P w -> exists d, Ahead w i d.
Proof.
  intros (_ & _ & Hr & _) Hi. destruct (cyclic_cover (w_P w) (w_ridx w) i Hr Hi) as (j & Hj & Ej).
  exists j. split; auto.
Qed.

Theorem window_eventually l w i :
  Wok w -> i < w_P w -> w_P w <= picks w l -> ever_in i w l.
Proof.
  intros Hw Hi Hp. destruct (ahead_exists w i Hw Hi) as (d & Ha).
  destruct (nth i (w_ints w) false) eqn:E.
  - (* already in the window *)
    destruct Hw as (_ & _ & _ & _ & Hiff). destruct l; cbn; left; apply Hiff; auto.
  - eapply window_fair; eauto. destruct Ha. lia.
Qed.
