From Coq Require Import Extraction ExtrOcamlBasic ExtrOcamlString.
From PV Require Import Base.IO VpMap.VpMapDefs.
Extraction Language OCaml.
(* coqc runs from coq/ (coq_makefile), so the path is relative to it *)
Extraction "extracted/vpmap.ml" io_witness vpmap_init parse_binding choose flat from_file user_flat_bindings hwloc_map init_nb user_flat_bindings_nc.
