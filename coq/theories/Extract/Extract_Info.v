From Coq Require Import Extraction ExtrOcamlBasic.
From PV Require Import Base.IO Info.InfoDefs Info.InfoCode Info.InfoConcDefs Info.InfoConcRegDefs.
Extraction Language OCaml.
(* coqc runs from coq/ (coq_makefile), so the path is relative to it *)
Extraction "extracted/info.ml" io_witness code_fixes init step destroy_all nodupb
  cinit cstep c_all_done rinit rstep r_all_done.
