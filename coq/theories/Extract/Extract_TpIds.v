From Coq Require Import Extraction ExtrOcamlBasic.
From PV Require Import Base.IO TpIds.TpIdsDefs.
Extraction Language OCaml.
(* coqc runs from coq/ (coq_makefile), so the path is relative to it *)
Extraction "extracted/tpids.ml" io_witness init step sys_init sys_run max_pos.
