From Coq Require Import Extraction ExtrOcamlBasic.
From PV Require Import Base.IO Lifo.LifoDefs.
Extraction Language OCaml.
Extraction "extracted/lifo.ml" io_witness step run init walk t_done replay held_all.
