From Coq Require Import Extraction ExtrOcamlBasic.
From PV Require Import Base.IO CE.CEDefs.
Extraction Language OCaml.
(* coqc runs from coq/ (coq_makefile), so the path is relative to it *)
Extraction "extracted/ce.ml" io_witness init_eng step snapshots flat progress_iter run_op tags_from next_tag
  init_am arun pending seqs_from.
