From Coq Require Import Extraction ExtrOcamlBasic.
From PV Require Import Base.IO Bcast.BcastDefs.
Extraction Language OCaml.
(* coqc runs from coq/ (coq_makefile), so the path is relative to it *)
Extraction "extracted/bcast.ml" io_witness rank_to_bit bit_to_rank child_fn topo_of_code
  mk_output activate propagate relay_lacks_output.
