From Coq Require Import Extraction ExtrOcamlBasic.
From PV Require Import Base.IO RWLock.RWLockDefs.
Extraction Language OCaml.
Extraction "extracted/rwlock.ml" io_witness step run init_at init is_done all_done enabled enabled_at is_wait occ.
