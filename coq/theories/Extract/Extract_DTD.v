From Coq Require Import Extraction ExtrOcamlBasic.
From PV Require Import Base.IO DTD.DTDDefs.
Extraction Language OCaml.
(* coqc runs from coq/ (coq_makefile), so the path is relative to it *)
Extraction "extracted/dtd.ml" io_witness model_inputs model_final deps_of dtd_run fbody mem0
  no_window window_gate all_done running_conflicts conflictb task_at.
