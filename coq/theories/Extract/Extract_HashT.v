From Coq Require Import Extraction ExtrOcamlBasic.
From PV Require Import Base.IO HashT.HashTDefs HashT.HashTConcDefs HashT.HashTLinDefs.
Extraction Language OCaml.
(* coqc runs from coq/ (coq_makefile), so the path is relative to it *)
Extraction "extracted/hasht.ml" io_witness rehash ht_init step_op run_ops all_items
  cstep cinit restart chain all_done th_finished lstep linit.
