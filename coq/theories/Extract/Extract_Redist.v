From Coq Require Import Extraction ExtrOcamlBasic.
From PV Require Import Base.IO Redist.RedistDefs.
Extraction Language OCaml.
(* coqc runs from coq/ (coq_makefile), so the path is relative to it *)
Extraction "extracted/redist.ml" io_witness observe copies getsize num_cols accept use_reshuffle upd_seg.
