From Coq Require Import Extraction ExtrOcamlBasic.
From PV Require Import Base.IO Repo.RepoDefs.
Extraction Language OCaml.
Extraction "extracted/repo.ml" io_witness step init t_done all_done rehash freed bad.
