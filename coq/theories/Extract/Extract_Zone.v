From Coq Require Import Extraction ExtrOcamlBasic.
From PV Require Import Base.IO Zone.ZoneDefs.
Extraction Language OCaml.
(* coqc runs from coq/ (coq_makefile), so the path is relative to it *)
Extraction "extracted/zone.ml" io_witness zone_init zmalloc zfree z_in_use z_debug_free
  z_segments cl_init step is_live.
