From Coq Require Import Extraction ExtrOcamlBasic.
From PV Require Import Base.IO TermLocal.TermLocalDefs.
Extraction Language OCaml.
Extraction "extracted/termlocal.ml" io_witness step init is_done mon_code wf_prog.
