From Coq Require Import Extraction ExtrOcamlBasic.
From PV Require Import Base.IO Future.FutureDefs.
Extraction Language OCaml.
Extraction "extracted/future.ml" io_witness bstep binit b_done kstep kinit k_done dstep dinit d_done d_cleanup.
