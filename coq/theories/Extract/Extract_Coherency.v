From Coq Require Import Extraction ExtrOcamlBasic.
From PV Require Import Base.IO Coherency.CoherencyDefs.
Extraction Language OCaml.
(* coqc runs from coq/ (coq_makefile), so the path is relative to it *)
Extraction "extracted/coherency.ml" io_witness getc start endt transfer start_asserts end_asserts
  step run final access access_atomic tx_step tx_run data_new data_create.
