From Coq Require Import Extraction ExtrOcamlBasic.
From PV Require Import Base.IO RBTree.RBTreeDefs.
Extraction Language OCaml.
(* coqc runs from coq/ (coq_makefile), so the path is relative to it *)
Extraction "extracted/rbtree.ml" io_witness insert_new remove update find find_or_larger minimum nodes locate.
