From Coq Require Import Extraction ExtrOcamlBasic.
From PV Require Import Base.IO DTD.DTDDefs DTDFlush.DTDFlushDefs.
Extraction Language OCaml.
(* coqc runs from coq/ (coq_makefile), so the path is relative to it *)
Extraction "extracted/dtdflush.ml" io_witness compile fstep fstep_with finit frun wfb inpl fmodel_inputs fmodel_final
  utasks uprog prog_of fbody_of rdep wait_gate fbody mem0 no_window window_gate all_done can_begin can_end
  can_insert count_done seq_dtd.
