From Coq Require Import Extraction ExtrOcamlBasic.
From PV Require Import Base.IO UserTrig.UserTrigDefs.
From PV Require UserTrig.ArriveDefs UserTrig.CountDefs.
Extraction Language OCaml.
(* coqc runs from coq/ (coq_makefile), so the path is relative to it *)
Extraction "extracted/usertrig.ml" io_witness children all_messages received_count
  ArriveDefs.init ArriveDefs.step ArriveDefs.finished CountDefs.cinit CountDefs.cstep CountDefs.disciplined.
