From Coq Require Import Extraction ExtrOcamlBasic.
From PV Require Import Base.IO Term4C.Term4CDefs.
Extraction Language OCaml.
(* coqc runs from coq/ (coq_makefile), so the path is relative to it *)
Extraction "extracted/term4c.ml" io_witness init step run finish P st_code pub_code loaded.
