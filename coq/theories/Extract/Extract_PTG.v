From Coq Require Import Extraction ExtrOcamlBasic.
From PV Require Import Base.IO PTG.PTGDefs.
Extraction Language OCaml.
(* coqc runs from coq/ (coq_makefile), so the path is relative to it *)
Extraction "extracted/ptg.ml" io_witness eval instances instances_of params_of complete preds succs
  pred_edges succ_edges wf_program wf_first_match topo_order make_key make_keyZ decode key_print params_in_local_order
  minmax_at.
