From Coq Require Import Extraction ExtrOcamlBasic.
From PV Require Import Base.IO DType.DTypeDefs.
Extraction Language OCaml.
(* coqc runs from coq/ (coq_makefile), so the path is relative to it *)
Extraction "extracted/dtype.ml" io_witness selected size lb ext
  define_contiguous define_rectangle define_triangle define_datatype adt_define
  region region_enum elems.
