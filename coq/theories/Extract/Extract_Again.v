From Coq Require Import Extraction ExtrOcamlBasic.
From PV Require Import Base.IO PTG.PTGDefs PTGVal.PTGValDefs Again.AgainDefs.
Extraction Language OCaml.
(* coqc runs from coq/ (coq_makefile), so the path is relative to it *)
Extraction "extracted/again.ml" io_witness wf_program instances env_of inst_prio inst_again inst_invocations
  startup_space startup_chunks walk progress trun sys_run demote.
