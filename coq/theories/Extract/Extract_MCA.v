From Coq Require Import Extraction ExtrOcamlBasic ExtrOcamlString.
From PV Require Import Base.IO MCA.MCADefs.
Extraction Language OCaml.
(* coqc runs from coq/ (coq_makefile), so the path is relative to it *)
Extraction "extracted/mca.ml" io_witness
  init recache reg reg_syn set_value unset param_lookup mca_find
  process_cmdline env_get env_set env_unset.
