From Coq Require Import Extraction ExtrOcamlBasic.
From PV Require Import Base.IO Arena.ArenaDefs.
Extraction Language OCaml.
Extraction "extracted/arena.ml" io_witness arena_construct chunk_size data_off astep ainit a_is_done a_live
  mstep minit m_is_done m_usage m_elt_size.
