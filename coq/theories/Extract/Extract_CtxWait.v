From Coq Require Import Extraction ExtrOcamlBasic.
From PV Require Import Base.IO CtxWait.CtxWaitDefs.
Extraction Language OCaml.
Extraction "extracted/ctxwait.ml" io_witness init step quiescent settled ran cbs
  pools started waiting active master epoch obs k_st k_dtd k_su k_tasks k_added k_att k_cb all_done p_quiet.
