From Coq Require Import Extraction ExtrOcamlBasic.
From PV Require Import Base.IO CtxWait.CtxWaitDefs CtxWait.CtxBarrierDefs.
Extraction Language OCaml.
Extraction "extracted/ctxwait.ml" io_witness init step quiescent settled ran cbs
  pools started waiting active master epoch obs k_st k_dtd k_su k_tasks k_added k_att k_cb all_done p_quiet
  rinit rstep pc_of busy_of seen_active inner pcs bgen bcnt running.
