From Coq Require Import Extraction ExtrOcamlBasic.
From PV Require Import Base.IO Compound.CompoundDefs Compound.CompoundCode Compound.CompoundTree.
Extraction Language OCaml.
Extraction "extracted/compound.ml" io_witness code_precharge init step step1 compose_step all_events
  seq_ok compound_last ran begun enqs c_cb c_done c_added active log lcount
  stepB initB bare_of seq_okB compound_lastB
  initT stepT t_s flatten log_eqb.
