From Coq Require Import Extraction ExtrOcamlBasic.
From PV Require Import Base.IO PTG.PTGDefs PTG.Engine PTG.PTGProofs PTGDist.DistEngine PTGDist.PTGDistDefs.
From PV Require Bcast.BcastDefs.
Extraction Language OCaml.
(* coqc runs from coq/ (coq_makefile), so the path is relative to it *)
Extraction "extracted/ptgdist.ml" io_witness wf_program wf_dist instances place_rank seq_in seq_out d_reads d_wlist
  final_data state_out dist_step dist_run DistEngine.init all_events all_done log_begins log_ends
  c13_parent c13_relay_lacks relay_holdsb BcastDefs.topo_of_code nflows.
