From Coq Require Import Extraction ExtrOcamlBasic.
From PV Require Import Base.IO PTGCheck.PTGCheckDefs.
Extraction Language OCaml.
Extraction "extracted/ptgcheck.ml" io_witness accept within_limitsb.
