From Coq Require Import Extraction ExtrOcamlBasic.
From PV Require Import Base.IO Deps.DepsDefs.
Extraction Language OCaml.
Extraction "extracted/deps.ml" io_witness counter_goal mask_in cstep cinit mstep minit
  c_is_done c_is_ready m_is_done m_is_ready.
