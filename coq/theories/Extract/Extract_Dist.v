From Coq Require Import Extraction ExtrOcamlBasic.
From PV Require Import Base.IO Dist.DistDefs.
Extraction Language OCaml.
(* coqc runs from coq/ (coq_makefile), so the path is relative to it *)
Extraction "extracted/dist.ml" io_witness
  tmat_init t_oi t_oj tm_data_key tm_key2coords
  bc_nb_local_tiles bc_nb_elem_r bc_nb_elem_c bc_llm bc_lln
  bc_rank_of bc_position bc_stored_key bc_offset bc_vpid bc_rank_of_key
  kv_rank_of kv_position kv_stored_key kv_offset kv_vpid kv_rank_of_key
  sym_nb_local_tiles sym_rank_of sym_position sym_stored_key sym_vpid sym_rank_of_key
  vec_nb_local_tiles vec_rank_of vec_position vec_stored_key vec_offset vec_vpid
  tab_nb_local_tiles tab_index tab_rank_of tab_position tab_vpid
  band_in band_rank_of band_position band_stored_key band_vpid band_offset.
