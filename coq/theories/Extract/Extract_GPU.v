From Coq Require Import Extraction ExtrOcamlBasic.
From PV Require Import Base.IO GPU.GPUDefs.
Extraction Language OCaml.
(* coqc runs from coq/ (coq_makefile), so the path is relative to it *)
Extraction "extracted/gpu.ml" io_witness grun prun prun_s ref_run final_host init_state run_task.
