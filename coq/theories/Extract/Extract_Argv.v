From Coq Require Import Extraction ExtrOcamlBasic ExtrOcamlString.
From PV Require Import Base.IO Argv.ArgvDefs Argv.ArgvCmdLineDefs.
Extraction Language OCaml.
(* coqc runs from coq/ (coq_makefile), so the path is relative to it *)
Extraction "extracted/argv.ml" io_witness
  argv_split argv_split_with_empty argv_join argv_join_range
  argv_append argv_append_nosize argv_prepend_nosize argv_append_unique_nosize
  argv_copy argv_count argv_len argv_delete argv_insert argv_insert_element
  make_opt cmd_parse get_ninsts get_param.
