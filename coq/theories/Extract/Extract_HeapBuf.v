From Coq Require Import Extraction ExtrOcamlBasic.
From PV Require Import Base.IO HeapBuf.HeapBufDefs.
Extraction Language OCaml.
(* coqc runs from coq/ (coq_makefile), so the path is relative to it *)
Extraction "extracted/heapbuf.ml" io_witness bstep brun is_empty occupancy
  heap_create heap_insert heap_remove heap_split hstep hrun preorder.
