From Coq Require Import Extraction ExtrOcamlBasic.
From PV Require Import Base.IO Obj.ObjDefs.
Extraction Language OCaml.
(* coqc runs from coq/ (coq_makefile), so the path is relative to it *)
Extraction "extracted/obj.ml" io_witness class_initialize run_constructors run_destructors
  step init thr_done obj_life ctors_of dtors_of fstep finit fthr_done.
