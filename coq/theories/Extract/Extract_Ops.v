From Coq Require Import Extraction ExtrOcamlBasic ExtrOcamlString.
From PV Require Import Base.IO Ops.OpsBase Gen.Gen_ops Ops.OpsDefs.
Extraction Language OCaml.
(* coqc runs from coq/ (coq_makefile), so the path is relative to it *)
Extraction "extracted/ops.ml" io_witness apply_run region map_visits map_completes bc_local local_tiles
  reduce_run reduce_root_run reduce_root_out reduce_space_of reduce_depth_of skeleton_run.
