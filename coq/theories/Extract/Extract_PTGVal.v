From Coq Require Import Extraction ExtrOcamlBasic.
From PV Require Import Base.IO PTG.PTGDefs PTGVal.ValEngine PTGVal.PTGValDefs.
Extraction Language OCaml.
(* coqc runs from coq/ (coq_makefile), so the path is relative to it *)
Extraction "extracted/ptgval.ml" io_witness wf_program wf_program_fm instances env_of complete nflows flow_src flow_reads flow_writes
  flow_wbs safeb reads_uninit ptg_seq_exec obs_reads obs_writes obs_data all_done again_count hash_instance body_hash
  topo_order preds succs.
