From Coq Require Import Extraction ExtrOcamlBasic.
From PV Require Import Base.IO Sched.SchedDefs.
Extraction Language OCaml.
(* coqc runs from coq/ (coq_makefile), so the path is relative to it *)
Extraction "extracted/sched.ml" io_witness run.
