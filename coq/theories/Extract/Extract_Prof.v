From Coq Require Import Extraction ExtrOcamlBasic.
From PV Require Import Base.IO Prof.ProfDefs.
Extraction Language OCaml.
(* coqc runs from coq/ (coq_makefile), so the path is relative to it *)
Extraction "extracted/prof.ml" io_witness le unle cstr log_event ev_len ser_event ser_buffer b_next b_nb b_pay
  enc_events enc_table ser_key ser_thread encode lookup parse_events dec_chain dec_table parse_key parse_thread
  decode key_view thread_view proj start_key end_key base_key key_is_end key_is_start kept_infos omits thread_of log_event_prefix dump_terminates_prefix merge_files presented decode_keys decode_rest.
