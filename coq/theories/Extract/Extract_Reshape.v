From Coq Require Import Extraction ExtrOcamlBasic.
From PV Require Import Base.IO Reshape.ReshapeDefs.
Extraction Language OCaml.
(* coqc runs from coq/ (coq_makefile), so the path is relative to it *)
Extraction "extracted/reshape.ml" io_witness run rank_of_tile expected_local convert shape_layout.
