From Coq Require Import Extraction ExtrOcamlBasic.
From PV Require Import Base.IO ListM.ListMDefs ListM.ListMConcDefs.
Extraction Language OCaml.
(* coqc runs from coq/ (coq_makefile), so the path is relative to it *)
Extraction "extracted/listm.ml" io_witness init getl ring step run cinit cstep crun.
